import Tmcg.Model.Dkg
import TmcgProofs.Group
import Mathlib.LinearAlgebra.Lagrange
/-
  C15, interpolation layer: the two reconstruction routines compute Lagrange interpolation.

    * `lagrange0_val`            the "optimised Lagrange multipliers" loop of `PedersenVSS::Reconstruct`
                                 and `GennaroJareckiKrawczykRabinDKG::Reconstruct` returns f(0) for any
                                 polynomial f of degree ≤ t through the t+1 points used
    * `lagrange0_unique`         hence any two sets of t+1 correct shares give the same secret
    * `interpolatePolynom_val`   `tmcg_interpolate_polynom` returns the coefficients of that polynomial
-/
namespace Tmcg.DkgL
open Tmcg Tmcg.Dkg

/-- the points used by the code: party `j` has abscissa `j + 1` -/
def pt (q : Int) (j : Nat) : ZMod q.natAbs := ((j : ZMod q.natAbs) + 1)

/-- the parties of an interpolation: pairwise distinct indices below `q - 1`, so that the abscissae
    `j + 1` are distinct and non-zero mod `q` -/
structure GoodParties (q : Int) (parties : List Nat) : Prop where
  nodup : parties.Nodup
  small : ∀ j ∈ parties, (j : Int) + 1 < q

variable {q : Int} [Fact (Nat.Prime q.natAbs)]

set_option linter.unusedSectionVars false
set_option linter.unusedVariables false

/-! ### casts into `ZMod q` -/

theorem natAbs_q (hq : 0 < q) : ((q.natAbs : Nat) : Int) = q := Int.natAbs_of_nonneg hq.le

theorem cast_emod (hq : 0 < q) (a : Int) :
    (((a % q : Int)) : ZMod q.natAbs) = (a : ZMod q.natAbs) := by
  have := ZMod.intCast_mod a q.natAbs
  rwa [natAbs_q hq] at this

theorem emod_bounds (hq : 0 < q) (a : Int) : 0 ≤ a % q ∧ a % q < q :=
  ⟨Int.emod_nonneg _ (ne_of_gt hq), Int.emod_lt_of_pos _ hq⟩

theorem eq_of_cast_eq (hq : 0 < q) {a b : Int} (ha : 0 ≤ a ∧ a < q) (hb : 0 ≤ b ∧ b < q)
    (h : (a : ZMod q.natAbs) = (b : ZMod q.natAbs)) : a = b := by
  rw [ZMod.intCast_eq_intCast_iff, natAbs_q hq] at h
  have h' : a % q = b % q := h
  rwa [Int.emod_eq_of_lt ha.1 ha.2, Int.emod_eq_of_lt hb.1 hb.2] at h'

theorem invm_val_q (hq : 0 < q) (a : Int) (ha : (a : ZMod q.natAbs) ≠ 0) :
    ∃ r, invm a q = some r ∧ 0 ≤ r ∧ r < q ∧ (r : ZMod q.natAbs) = (a : ZMod q.natAbs)⁻¹ := by
  have hg : Int.gcd a q = 1 := by
    rw [Int.gcd_comm, Int.gcd_def]
    refine (Nat.Prime.coprime_iff_not_dvd (Fact.out)).mpr ?_
    intro hd
    apply ha
    rw [ZMod.intCast_zmod_eq_zero_iff_dvd]
    exact Int.natCast_dvd.mpr hd
  obtain ⟨r, hr⟩ := invm_isSome_of_coprime (ne_of_gt hq) hg
  obtain ⟨h0, h1, hc⟩ := invm_some hr
  rw [abs_of_pos hq] at h1
  refine ⟨r, hr, h0, h1, ?_⟩
  have : ((a * r : Int) : ZMod q.natAbs) = ((1 : Int) : ZMod q.natAbs) := by
    rw [ZMod.intCast_eq_intCast_iff, natAbs_q hq]; exact hc
  push_cast at this
  exact eq_inv_of_mul_eq_one_right this

theorem pt_cast (j : Nat) : pt q j = (((j : Int) + 1 : Int) : ZMod q.natAbs) := by
  unfold pt; push_cast; rfl

theorem pt_inj (hq : 0 < q) {j j' : Nat} (hj : (j : Int) + 1 < q) (hj' : (j' : Int) + 1 < q)
    (h : pt q j = pt q j') : j = j' := by
  unfold pt at h
  have h' : ((j + 1 : Nat) : ZMod q.natAbs) = ((j' + 1 : Nat) : ZMod q.natAbs) := by
    push_cast; exact h
  rw [ZMod.natCast_eq_natCast_iff'] at h'
  have h1 : j + 1 < q.natAbs := by omega
  have h2 : j' + 1 < q.natAbs := by omega
  rw [Nat.mod_eq_of_lt h1, Nat.mod_eq_of_lt h2] at h'
  omega

theorem pt_ne_zero (hq : 0 < q) {j : Nat} (hj : (j : Int) + 1 < q) : pt q j ≠ 0 := by
  unfold pt
  have h' : ((j + 1 : Nat) : ZMod q.natAbs) ≠ 0 := by
    rw [Ne, ZMod.natCast_eq_zero_iff]
    intro hd
    have := Nat.le_of_dvd (by omega) hd
    omega
  intro h; apply h'; push_cast; exact h

theorem pt_injOn (hq : 0 < q) (parties : List Nat) (hp : GoodParties q parties) :
    Set.InjOn (pt q) (parties.toFinset : Set Nat) := by
  intro j hj j' hj' h
  simp only [Finset.mem_coe, List.mem_toFinset] at hj hj'
  exact pt_inj hq (hp.small j hj) (hp.small j' hj') h

/-! ### the multipliers -/

theorem foldl_filter_prod (g : Nat → Int) (jt : Nat) (L : List Nat) (a : Int) :
    ((L.foldl (fun acc lt => if lt ≠ jt then acc * g lt else acc) a : Int) : ZMod q.natAbs) =
      (a : ZMod q.natAbs) * ((L.filter (· ≠ jt)).map (fun lt => (g lt : ZMod q.natAbs))).prod := by
  induction L generalizing a with
  | nil => simp
  | cons x xs ih =>
    simp only [List.foldl_cons]
    rw [ih]
    by_cases h : x = jt
    · simp [h]
    · simp [h, mul_assoc]

theorem list_prod_map_div {α : Type} (L : List α) (a b : α → ZMod q.natAbs) :
    (L.map (fun l => a l / b l)).prod = (L.map a).prod / (L.map b).prod := by
  induction L with
  | nil => simp
  | cons x xs ih => simp [ih, div_mul_div_comm]


/-- `lagCoeff` is the Lagrange basis polynomial of `jt` evaluated at 0 -/
theorem lagCoeff_val (hq : 0 < q) (parties : List Nat) (hp : GoodParties q parties) (jt : Nat)
    (hj : jt ∈ parties) :
    ∃ l, lagCoeff q parties jt = some l ∧ 0 ≤ l ∧ l < q ∧
      ((l : Int) : ZMod q.natAbs) =
        ((parties.filter (· ≠ jt)).map (fun lt => pt q lt / (pt q lt - pt q jt))).prod := by
  have hnum := foldl_filter_prod (q := q) (fun lt => (lt : Int) + 1) jt parties 1
  have hden := foldl_filter_prod (q := q) (fun lt => ((lt : Int) + 1) - ((jt : Int) + 1)) jt parties 1
  have e1 : (fun lt : Nat => ((((lt : Int) + 1 : Int)) : ZMod q.natAbs)) = fun lt => pt q lt := by
    funext lt; rw [pt_cast]
  have e2 : (fun lt : Nat => (((((lt : Int) + 1) - ((jt : Int) + 1) : Int)) : ZMod q.natAbs)) =
      fun lt => pt q lt - pt q jt := by
    funext lt; rw [pt_cast, pt_cast]; push_cast; ring
  beta_reduce at hnum hden
  rw [e1, Int.cast_one, one_mul] at hnum
  rw [e2, Int.cast_one, one_mul] at hden
  have hden0 : ((parties.foldl (fun acc lt =>
      if lt ≠ jt then acc * (((lt : Int) + 1) - ((jt : Int) + 1)) else acc) 1 : Int) : ZMod q.natAbs) ≠ 0 := by
    rw [hden]
    apply List.prod_ne_zero
    intro h0
    rw [List.mem_map] at h0
    obtain ⟨lt, hlt, h0⟩ := h0
    rw [List.mem_filter] at hlt
    have hne : lt ≠ jt := by simpa using hlt.2
    apply hne
    exact pt_inj hq (hp.small lt hlt.1) (hp.small jt hj) (sub_eq_zero.mp h0)
  obtain ⟨i, hi, hi0, hi1, hiv⟩ := invm_val_q hq _ hden0
  unfold lagCoeff
  simp only [hi]
  refine ⟨_, rfl, (emod_bounds hq _).1, (emod_bounds hq _).2, ?_⟩
  rw [cast_emod hq, Int.cast_mul, hiv, hnum, hden, list_prod_map_div, div_eq_mul_inv]

/-- the multiplier of `jt` as a field element -/
noncomputable def lam (q : Int) [Fact (Nat.Prime q.natAbs)] (parties : List Nat) (jt : Nat) : ZMod q.natAbs :=
  ((parties.filter (· ≠ jt)).map (fun lt => pt q lt / (pt q lt - pt q jt))).prod

theorem lam_eq_basis (hq : 0 < q) (parties : List Nat) (hp : GoodParties q parties) (jt : Nat) :
    lam q parties jt = (Lagrange.basis parties.toFinset (pt q) jt).eval 0 := by
  unfold lam Lagrange.basis
  rw [Polynomial.eval_prod]
  have hs : parties.toFinset.erase jt = (parties.filter (· ≠ jt)).toFinset := by
    ext x; simp [and_comm]
  rw [hs, List.prod_toFinset _ (hp.nodup.filter _)]
  congr 1
  apply List.map_congr_left
  intro lt hlt
  unfold Lagrange.basisDivisor
  simp only [Polynomial.eval_mul, Polynomial.eval_C, Polynomial.eval_sub, Polynomial.eval_X]
  rw [zero_sub, ← neg_sub (pt q lt) (pt q jt), inv_neg, neg_mul_neg, div_eq_inv_mul]

theorem sum_lam (hq : 0 < q) (parties : List Nat) (hp : GoodParties q parties)
    (f : Polynomial (ZMod q.natAbs)) (hf : f.degree < parties.length) :
    (parties.map (fun j => lam q parties j * f.eval (pt q j))).sum = f.eval 0 := by
  have hcard : parties.toFinset.card = parties.length := List.toFinset_card_of_nodup hp.nodup
  have hf' : f.degree < (parties.toFinset.card : WithBot ℕ) := by rw [hcard]; exact hf
  have h := Lagrange.eq_interpolate (pt_injOn hq parties hp) hf'
  conv_rhs => rw [h]
  rw [Lagrange.interpolate_apply, Polynomial.eval_finsetSum, ← List.sum_toFinset _ hp.nodup]
  apply Finset.sum_congr rfl
  intro j hj
  rw [lam_eq_basis hq parties hp j, Polynomial.eval_mul, Polynomial.eval_C, mul_comm]

theorem lagrange0Go_val (hq : 0 < q) (parties : List Nat) (hp : GoodParties q parties)
    (share : Nat → Int) :
    ∀ (rest : List Nat) (acc : Int), (∀ j ∈ rest, j ∈ parties) → 0 ≤ acc → acc < q →
    ∃ v, lagrange0Go q parties share rest acc = some v ∧ 0 ≤ v ∧ v < q ∧
      ((v : Int) : ZMod q.natAbs) = (acc : ZMod q.natAbs) +
        (rest.map (fun j => lam q parties j * (share j : ZMod q.natAbs))).sum := by
  intro rest
  induction rest with
  | nil => intro acc _ h0 h1; exact ⟨acc, rfl, h0, h1, by simp⟩
  | cons jt rest ih =>
    intro acc hsub h0 h1
    obtain ⟨l, hl, hl0, hl1, hlv⟩ := lagCoeff_val hq parties hp jt (hsub jt List.mem_cons_self)
    obtain ⟨v, hv, hv0, hv1, hvv⟩ := ih ((acc + (l * share jt) % q) % q)
      (fun j hj => hsub j (List.mem_cons_of_mem _ hj)) (emod_bounds hq _).1 (emod_bounds hq _).2
    refine ⟨v, ?_, hv0, hv1, ?_⟩
    · simp only [lagrange0Go, hl]; exact hv
    · rw [hvv, cast_emod hq, Int.cast_add, cast_emod hq, Int.cast_mul, hlv]
      simp only [List.map_cons, List.sum_cons, lam]
      ring

/-- the reconstruction loop: for shares lying on a polynomial of degree `< |parties|` the result is
    its value at 0 -/
theorem lagrange0_val (hq : 0 < q) (parties : List Nat) (hp : GoodParties q parties)
    (f : Polynomial (ZMod q.natAbs)) (hf : f.degree < parties.length) (share : Nat → Int)
    (hs : ∀ j ∈ parties, ((share j : Int) : ZMod q.natAbs) = f.eval (pt q j)) :
    ∃ v, lagrange0 q parties share = some v ∧ 0 ≤ v ∧ v < q ∧
      ((v : Int) : ZMod q.natAbs) = f.eval 0 := by
  obtain ⟨v, hv, hv0, hv1, hvv⟩ := lagrange0Go_val hq parties hp share parties 0
    (fun j hj => hj) le_rfl hq
  refine ⟨v, hv, hv0, hv1, ?_⟩
  rw [hvv, Int.cast_zero, zero_add, ← sum_lam hq parties hp f hf]
  congr 1
  apply List.map_congr_left
  intro j hj
  rw [hs j hj]

/-- any two admissible party sets reconstruct the same value from shares of one polynomial -/
theorem lagrange0_unique (hq : 0 < q) (P1 P2 : List Nat) (h1 : GoodParties q P1) (h2 : GoodParties q P2)
    (f : Polynomial (ZMod q.natAbs)) (hf1 : f.degree < P1.length) (hf2 : f.degree < P2.length)
    (share : Nat → Int)
    (hs1 : ∀ j ∈ P1, ((share j : Int) : ZMod q.natAbs) = f.eval (pt q j))
    (hs2 : ∀ j ∈ P2, ((share j : Int) : ZMod q.natAbs) = f.eval (pt q j)) :
    ∃ v, lagrange0 q P1 share = some v ∧ lagrange0 q P2 share = some v := by
  obtain ⟨v1, hv1, ha1, hb1, hc1⟩ := lagrange0_val hq P1 h1 f hf1 share hs1
  obtain ⟨v2, hv2, ha2, hb2, hc2⟩ := lagrange0_val hq P2 h2 f hf2 share hs2
  have : v1 = v2 := eq_of_cast_eq hq ⟨ha1, hb1⟩ ⟨ha2, hb2⟩ (hc1.trans hc2.symm)
  subst this
  exact ⟨v1, hv1, hv2⟩

/-! ### `tmcg_interpolate_polynom` -/

theorem getI_map_range (n : Nat) (g : Nat → Int) (i : Nat) :
    getI ((List.range n).map g) i = if i < n then g i else 0 := by
  unfold getI
  by_cases h : i < n
  · simp [List.getD_eq_getElem?_getD, h]
  · simp [List.getD_eq_getElem?_getD, h]

theorem getI_set (l : List Int) (k : Nat) (x : Int) (i : Nat) :
    getI (l.set k x) i = if i = k ∧ k < l.length then x else getI l i := by
  unfold getI
  rw [List.getD_eq_getElem?_getD, List.getD_eq_getElem?_getD, List.getElem?_set]
  by_cases h : k = i
  · subst h
    by_cases h2 : k < l.length
    · simp [h2]
    · simp [h2]
  · have : ¬ i = k := fun e => h e.symm
    simp [h, this]

theorem getI_of_le (l : List Int) (i : Nat) (h : l.length ≤ i) : getI l i = 0 := by
  unfold getI
  simp [List.getD_eq_getElem?_getD, h]

theorem getI_replicate (n i : Nat) : getI (List.replicate n (0 : Int)) i = 0 := by
  unfold getI
  by_cases h : i < n
  · simp [List.getD_eq_getElem?_getD, h]
  · simp [List.getD_eq_getElem?_getD, h]

theorem getI_map {α : Type} (l : List α) (g : α → Int) (i : Nat) (h : i < l.length) :
    getI (l.map g) i = g l[i] := by
  unfold getI
  simp [List.getD_eq_getElem?_getD, h]

theorem hornerDown_cast (hq : 0 < q) (aa : Int) (v : List Int) : ∀ (k : Nat) (t : Int),
    ((hornerDown q aa v k t : Int) : ZMod q.natAbs) =
      (t : ZMod q.natAbs) * (aa : ZMod q.natAbs) ^ k +
        ∑ i ∈ Finset.range k, (getI v i : ZMod q.natAbs) * (aa : ZMod q.natAbs) ^ i := by
  intro k
  induction k with
  | zero => intro t; simp [hornerDown]
  | succ k ih =>
    intro t
    rw [hornerDown, ih, cast_emod hq, Int.cast_add, cast_emod hq, Int.cast_mul,
      Finset.sum_range_succ]
    ring

open Polynomial in
theorem eval_of_degree_lt {F : Type} [Field F] (p : F[X]) (k : Nat) (h : p.degree < k) (x : F) :
    p.eval x = ∑ i ∈ Finset.range k, p.coeff i * x ^ i := by
  by_cases hp : p = 0
  · subst hp; simp
  · exact Polynomial.eval_eq_sum_range' ((Polynomial.natDegree_lt_iff_degree_lt hp).mpr h) x

open Polynomial in
theorem eval_nodal_range {F : Type} [Field F] (v : Nat → F) (k : Nat) (x : F) :
    (Lagrange.nodal (Finset.range k) v).eval x =
      x ^ k + ∑ i ∈ Finset.range k, (Lagrange.nodal (Finset.range k) v).coeff i * x ^ i := by
  have hd : (Lagrange.nodal (Finset.range k) v).natDegree = k := by
    rw [Lagrange.natDegree_nodal, Finset.card_range]
  have hm : (Lagrange.nodal (Finset.range k) v).coeff k = 1 := by
    have := (Lagrange.nodal_monic (s := Finset.range k) (v := v)).coeff_natDegree
    rwa [hd] at this
  rw [Polynomial.eval_eq_sum_range, hd, Finset.sum_range_succ, hm, one_mul, add_comm]

open Polynomial in
theorem nodal_succ {F : Type} [Field F] (v : Nat → F) (k : Nat) :
    Lagrange.nodal (Finset.range (k + 1)) v = (X - C (v k)) * Lagrange.nodal (Finset.range k) v := by
  rw [Finset.range_add_one, Lagrange.nodal_insert_eq_nodal Finset.notMem_range_self]

open Polynomial in
theorem eval_nodal_ne_zero {F : Type} [Field F] (v : Nat → F) (k : Nat)
    (hv : Set.InjOn v (Finset.range (k + 1) : Set Nat)) :
    (Lagrange.nodal (Finset.range k) v).eval (v k) ≠ 0 := by
  apply Lagrange.eval_nodal_not_at_node
  intro i hi h
  have hi' : i < k := Finset.mem_range.mp hi
  have := hv (by simp) (by simp; omega) h
  omega

open Polynomial in
theorem interp_succ {F : Type} [Field F] (v r : Nat → F) (k : Nat)
    (hv : Set.InjOn v (Finset.range (k + 1) : Set Nat)) :
    Lagrange.interpolate (Finset.range (k + 1)) v r =
      Lagrange.interpolate (Finset.range k) v r +
        C ((r k - (Lagrange.interpolate (Finset.range k) v r).eval (v k)) /
            (Lagrange.nodal (Finset.range k) v).eval (v k)) * Lagrange.nodal (Finset.range k) v := by
  have hvk : Set.InjOn v (Finset.range k : Set Nat) := by
    intro i hi j hj h
    exact hv (by simp at hi ⊢; omega) (by simp at hj ⊢; omega) h
  symm
  apply Lagrange.eq_interpolate_of_eval_eq r hv
  · rw [Finset.card_range]
    have h1 : (Lagrange.interpolate (Finset.range k) v r).degree < ((k + 1 : Nat) : WithBot Nat) := by
      have := Lagrange.degree_interpolate_lt r hvk
      rw [Finset.card_range] at this
      exact lt_trans this (by exact_mod_cast Nat.lt_succ_self k)
    have h2 : (C ((r k - (Lagrange.interpolate (Finset.range k) v r).eval (v k)) /
            (Lagrange.nodal (Finset.range k) v).eval (v k)) * Lagrange.nodal (Finset.range k) v).degree
          < ((k + 1 : Nat) : WithBot Nat) := by
      refine lt_of_le_of_lt (Polynomial.degree_mul_le _ _) ?_
      rw [Lagrange.degree_nodal, Finset.card_range]
      refine lt_of_le_of_lt (add_le_add Polynomial.degree_C_le le_rfl) ?_
      rw [zero_add]
      exact_mod_cast Nat.lt_succ_self k
    exact lt_of_le_of_lt (Polynomial.degree_add_le _ _) (max_lt h1 h2)
  · intro i hi
    have hi' : i < k + 1 := Finset.mem_range.mp hi
    rw [Polynomial.eval_add, Polynomial.eval_mul, Polynomial.eval_C]
    by_cases hik : i = k
    · subst hik
      rw [div_mul_cancel₀ _ (eval_nodal_ne_zero v i hv)]
      ring
    · have hlt : i ∈ Finset.range k := Finset.mem_range.mpr (by omega)
      rw [Lagrange.eval_nodal_at_node hlt, mul_zero, add_zero,
        Lagrange.eval_interpolate_at_node r hvk hlt]

/-- update of `res` in one round of `interpGo` -/
theorem res_step (hq : 0 < q) (res prod : List Int) (k m : Nat) (t1' : Int) (hk : k < m)
    (hlen : res.length = m) (P M : Polynomial (ZMod q.natAbs))
    (hPk : ∀ i, k ≤ i → P.coeff i = 0) (hMk : M.coeff k = 1) (hMgt : ∀ i, k < i → M.coeff i = 0)
    (hres : ∀ i, ((getI res i : Int) : ZMod q.natAbs) = P.coeff i)
    (hprod : ∀ i, i < k → ((getI prod i : Int) : ZMod q.natAbs) = M.coeff i)
    (hb : ∀ i, 0 ≤ getI res i ∧ getI res i < q) (ht : 0 ≤ t1' ∧ t1' < q) :
    ((addScaled q t1' k res prod).set k t1').length = m ∧
    (∀ i, 0 ≤ getI ((addScaled q t1' k res prod).set k t1') i ∧
      getI ((addScaled q t1' k res prod).set k t1') i < q) ∧
    ∀ i, ((getI ((addScaled q t1' k res prod).set k t1') i : Int) : ZMod q.natAbs) =
      P.coeff i + (t1' : ZMod q.natAbs) * M.coeff i := by
  have hlen' : (addScaled q t1' k res prod).length = m := by simp [addScaled, hlen]
  have hget : ∀ i, getI ((addScaled q t1' k res prod).set k t1') i =
      if i = k then t1' else if i < k then (getI res i + getI prod i * t1' % q) % q
        else getI res i := by
    intro i
    rw [getI_set, hlen']
    by_cases hik : i = k
    · simp [hik, hk]
    · simp only [hik, false_and, if_false]
      unfold addScaled
      rw [getI_map_range, hlen]
      by_cases him : i < m
      · simp [him]
      · have h1 : ¬ i < k := by omega
        simp [him, h1, getI_of_le res i (by omega)]
  refine ⟨by rw [List.length_set, hlen'], ?_, ?_⟩
  · intro i
    rw [hget]
    by_cases hik : i = k
    · simp only [hik, if_true]; exact ht
    · by_cases hlt : i < k
      · simp only [hik, hlt, if_false, if_true]; exact emod_bounds hq _
      · simp only [hik, hlt, if_false]; exact hb i
  · intro i
    rw [hget]
    by_cases hik : i = k
    · subst hik
      simp only [if_true]
      rw [hPk i le_rfl, hMk, zero_add, mul_one]
    · by_cases hlt : i < k
      · simp only [hik, hlt, if_false, if_true]
        rw [cast_emod hq, Int.cast_add, cast_emod hq, Int.cast_mul, hres, hprod i hlt]
        ring
      · simp only [hik, hlt, if_false]
        rw [hres, hMgt i (by omega), mul_zero, add_zero]

/-- update of `prod` in one round of `interpGo` -/
theorem prod_step (hq : 0 < q) (prod : List Int) (k m : Nat) (aa : Int) (hk : k < m)
    (hlen : prod.length = m) (M M' : Polynomial (ZMod q.natAbs))
    (hM0 : M'.coeff 0 = - (aa : ZMod q.natAbs) * M.coeff 0)
    (hMs : ∀ i, M'.coeff (i + 1) = M.coeff i - (aa : ZMod q.natAbs) * M.coeff (i + 1))
    (hMk : M.coeff k = 1)
    (hprod : ∀ i, i < k → ((getI prod i : Int) : ZMod q.natAbs) = M.coeff i)
    (h0 : k = 0 → ((getI prod 0 : Int) : ZMod q.natAbs) = (aa : ZMod q.natAbs)) :
    (updProd q aa k prod).length = m ∧
    ∀ i, i < k + 1 → ((getI (updProd q aa k prod) i : Int) : ZMod q.natAbs) = M'.coeff i := by
  unfold updProd
  by_cases hk0 : k = 0
  · subst hk0
    simp only [if_true]
    refine ⟨by rw [List.length_set, hlen], ?_⟩
    intro i hi
    have : i = 0 := by omega
    subst this
    rw [getI_set, hlen]
    simp only [hk, and_self, if_true]
    rw [Int.cast_neg, h0 rfl, hM0, hMk, mul_one]
  · simp only [hk0, if_false]
    refine ⟨by simp [hlen], ?_⟩
    intro i hi
    rw [getI_map_range, hlen]
    have him : i < m := by omega
    simp only [him, if_true]
    by_cases hi0 : i = 0
    · subst hi0
      simp only [if_true]
      rw [cast_emod hq, Int.cast_mul, Int.cast_neg, hprod 0 (by omega), hM0]
      ring
    · obtain ⟨i', rfl⟩ : ∃ i', i = i' + 1 := ⟨i - 1, by omega⟩
      simp only [hi0, if_false]
      by_cases hlt : i' + 1 < k
      · simp only [hlt, if_true, Nat.add_sub_cancel]
        rw [cast_emod hq, Int.cast_add, cast_emod hq, Int.cast_mul, Int.cast_neg,
          hprod _ hlt, hprod i' (by omega), hMs]
        ring
      · have hik : i' + 1 = k := by omega
        subst hik
        simp only [hlt, if_false, if_true, Nat.add_sub_cancel]
        rw [cast_emod hq, Int.cast_add, Int.cast_neg, hprod i' (by omega), hMs, hMk]
        ring

open Polynomial in
theorem nodal_succ_coeff_zero {F : Type} [Field F] (v : Nat → F) (k : Nat) :
    (Lagrange.nodal (Finset.range (k + 1)) v).coeff 0 =
      - v k * (Lagrange.nodal (Finset.range k) v).coeff 0 := by
  rw [nodal_succ, sub_mul, coeff_sub, coeff_C_mul, Polynomial.coeff_X_mul_zero]; ring

open Polynomial in
theorem nodal_succ_coeff_succ {F : Type} [Field F] (v : Nat → F) (k i : Nat) :
    (Lagrange.nodal (Finset.range (k + 1)) v).coeff (i + 1) =
      (Lagrange.nodal (Finset.range k) v).coeff i -
        v k * (Lagrange.nodal (Finset.range k) v).coeff (i + 1) := by
  rw [nodal_succ, sub_mul, coeff_sub, coeff_C_mul, coeff_X_mul]

/-- abscissae / ordinates of the input lists as field elements -/
abbrev va (q : Int) (a : List Int) (i : Nat) : ZMod q.natAbs := ((getI a i : Int) : ZMod q.natAbs)

/-- the interpolant through the first `k` points -/
noncomputable abbrev PP (q : Int) [Fact (Nat.Prime q.natAbs)] (a b : List Int) (k : Nat) :
    Polynomial (ZMod q.natAbs) :=
  Lagrange.interpolate (Finset.range k) (va q a) (va q b)

/-- `∏_{i<k} (X - a_i)` -/
noncomputable abbrev MM (q : Int) [Fact (Nat.Prime q.natAbs)] (a : List Int) (k : Nat) :
    Polynomial (ZMod q.natAbs) :=
  Lagrange.nodal (Finset.range k) (va q a)

/-- the loop invariant of `interpGo`: entering round `k`, `res` holds the coefficients of the
    interpolant through the first `k` points and (while another round follows) `prod` the low `k`
    coefficients of `∏_{i<k} (X - a_i)` -/
theorem interpGo_inv (hq : 0 < q) (a b : List Int) (m : Nat)
    (hv : Set.InjOn (va q a) (Finset.range m : Set Nat)) :
    ∀ (fuel k : Nat) (prod res : List Int), fuel + k = m → prod.length = m → res.length = m →
      (∀ i, 0 ≤ getI res i ∧ getI res i < q) →
      (∀ i, ((getI res i : Int) : ZMod q.natAbs) = (PP q a b k).coeff i) →
      (k < m → ∀ i, i < k → ((getI prod i : Int) : ZMod q.natAbs) = (MM q a k).coeff i) →
      (k = 0 → ((getI prod 0 : Int) : ZMod q.natAbs) = va q a 0) →
      ∃ c, interpGo q a b m fuel k prod res = some c ∧ c.length = m ∧
        (∀ i, 0 ≤ getI c i ∧ getI c i < q) ∧
        (∀ i, ((getI c i : Int) : ZMod q.natAbs) = (PP q a b m).coeff i) := by
  intro fuel
  induction fuel with
  | zero =>
    intro k prod res hfk hpl hrl hb hres _ _
    have : k = m := by omega
    subst this
    exact ⟨res, rfl, hrl, hb, hres⟩
  | succ f ih =>
    intro k prod res hfk hpl hrl hb hres hprod h0
    have hkm : k < m := by omega
    have hvk1 : Set.InjOn (va q a) (Finset.range (k + 1) : Set Nat) := by
      intro i hi j hj h
      exact hv (by simp at hi ⊢; omega) (by simp at hj ⊢; omega) h
    have hvk : Set.InjOn (va q a) (Finset.range k : Set Nat) := by
      intro i hi j hj h
      exact hv (by simp at hi ⊢; omega) (by simp at hj ⊢; omega) h
    have hPdeg : (PP q a b k).degree < (k : WithBot Nat) := by
      have := Lagrange.degree_interpolate_lt (va q b) hvk
      rwa [Finset.card_range] at this
    have hPk : ∀ i, k ≤ i → (PP q a b k).coeff i = 0 := by
      intro i hi
      exact Polynomial.coeff_eq_zero_of_degree_lt (lt_of_lt_of_le hPdeg (by exact_mod_cast hi))
    have hMd : (MM q a k).natDegree = k := by
      rw [Lagrange.natDegree_nodal, Finset.card_range]
    have hMk : (MM q a k).coeff k = 1 := by
      have := (Lagrange.nodal_monic (s := Finset.range k) (v := va q a)).coeff_natDegree
      rwa [hMd] at this
    have hMgt : ∀ i, k < i → (MM q a k).coeff i = 0 := by
      intro i hi
      exact Polynomial.coeff_eq_zero_of_natDegree_lt (by rw [hMd]; exact hi)
    have ht1 : ((hornerDown q (getI a k) prod k 1 : Int) : ZMod q.natAbs) =
        (MM q a k).eval (va q a k) := by
      rw [hornerDown_cast hq, Int.cast_one, one_mul, eval_nodal_range]
      congr 1
      apply Finset.sum_congr rfl
      intro i hi
      rw [hprod hkm i (Finset.mem_range.mp hi)]
    have ht2 : ((hornerDown q (getI a k) res k 0 : Int) : ZMod q.natAbs) =
        (PP q a b k).eval (va q a k) := by
      rw [hornerDown_cast hq, Int.cast_zero, zero_mul, zero_add, eval_of_degree_lt _ k hPdeg]
      apply Finset.sum_congr rfl
      intro i hi
      rw [hres i]
    have hne : ((hornerDown q (getI a k) prod k 1 : Int) : ZMod q.natAbs) ≠ 0 := by
      rw [ht1]; exact eval_nodal_ne_zero (va q a) k hvk1
    obtain ⟨t1i, hinv, hi0, hi1, hiv⟩ := invm_val_q hq _ hne
    simp only [interpGo, hinv]
    generalize ht1'def : t1i * ((getI b k - hornerDown q (getI a k) res k 0) % q) % q = t1'
    have hbt : 0 ≤ t1' ∧ t1' < q := by rw [← ht1'def]; exact emod_bounds hq _
    have ht1' : ((t1' : Int) : ZMod q.natAbs) =
        (va q b k - (PP q a b k).eval (va q a k)) / (MM q a k).eval (va q a k) := by
      rw [← ht1'def, cast_emod hq, Int.cast_mul, cast_emod hq, Int.cast_sub, hiv, ht1, ht2,
        div_eq_inv_mul]
    obtain ⟨hl', hb', hres'⟩ := res_step hq res prod k m t1' hkm hrl (PP q a b k) (MM q a k)
      hPk hMk hMgt hres (hprod hkm) hb hbt
    have hPsucc : ∀ i, (PP q a b (k + 1)).coeff i =
        (PP q a b k).coeff i + (t1' : ZMod q.natAbs) * (MM q a k).coeff i := by
      intro i
      rw [PP, interp_succ (va q a) (va q b) k hvk1, Polynomial.coeff_add, Polynomial.coeff_C_mul,
        ht1']
    obtain ⟨hpl', hprod'⟩ := prod_step hq prod k m (getI a k) hkm hpl (MM q a k) (MM q a (k + 1))
      (nodal_succ_coeff_zero (va q a) k) (nodal_succ_coeff_succ (va q a) k) hMk (hprod hkm)
      (fun hk0 => by subst hk0; exact h0 rfl)
    apply ih (k + 1) _ _ (by omega) ?_ hl' hb' (fun i => by rw [hres', hPsucc]) ?_ (by omega)
    · by_cases hk1 : k + 1 < m
      · simp only [hk1, if_true]; exact hpl'
      · simp only [hk1, if_false]; exact hpl
    · intro hk1 i hi
      simp only [hk1, if_true]
      exact hprod' i hi

/-- `tmcg_interpolate_polynom` on the points `(j+1, share j)`: the coefficient list (reduced mod q,
    lowest first, one entry per point) of the polynomial of degree `< |parties|` through them -/
theorem interpolatePolynom_val (hq : 0 < q) (parties : List Nat) (hp : GoodParties q parties)
    (hne : parties ≠ [])
    (f : Polynomial (ZMod q.natAbs)) (hf : f.degree < parties.length) (share : Nat → Int)
    (hs : ∀ j ∈ parties, ((share j : Int) : ZMod q.natAbs) = f.eval (pt q j)) :
    ∃ c, interpolatePolynom q (parties.map (fun (j : Nat) => ((j : Int) + 1))) (parties.map share) = some c ∧
      c.length = parties.length ∧
      (∀ k, k < c.length → 0 ≤ c.getD k 0 ∧ c.getD k 0 < q ∧
        ((c.getD k 0 : Int) : ZMod q.natAbs) = f.coeff k) := by
  generalize ha : parties.map (fun (j : Nat) => ((j : Int) + 1)) = a
  generalize hb : parties.map share = b
  have hal : a.length = parties.length := by simp [← ha]
  have hva : ∀ i (h : i < parties.length), va q a i = pt q parties[i] := by
    intro i h
    show ((getI a i : Int) : ZMod q.natAbs) = _
    rw [← ha, getI_map _ _ _ h, pt_cast]
  have hvb : ∀ i (h : i < parties.length), va q b i = f.eval (pt q parties[i]) := by
    intro i h
    show ((getI b i : Int) : ZMod q.natAbs) = _
    rw [← hb, getI_map _ _ _ h, hs _ (List.getElem_mem h)]
  have hv : Set.InjOn (va q a) (Finset.range parties.length : Set Nat) := by
    intro i hi j hj h
    have hi' : i < parties.length := by simpa using hi
    have hj' : j < parties.length := by simpa using hj
    rw [hva i hi', hva j hj'] at h
    have := pt_inj hq (hp.small _ (List.getElem_mem hi')) (hp.small _ (List.getElem_mem hj')) h
    exact (hp.nodup.getElem_inj_iff).mp this
  obtain ⟨c, hc, hcl, hcb, hcv⟩ := interpGo_inv hq a b parties.length hv parties.length 0 a
    (List.replicate parties.length 0) (by omega) hal (by simp)
    (fun i => by rw [getI_replicate]; exact ⟨le_rfl, hq⟩)
    (fun i => by rw [getI_replicate]; simp [PP])
    (fun _ i hi => by omega) (fun _ => rfl)
  have hPf : PP q a b parties.length = f := by
    symm
    apply Lagrange.eq_interpolate_of_eval_eq _ hv
    · rw [Finset.card_range]; exact hf
    · intro i hi
      have hi' : i < parties.length := Finset.mem_range.mp hi
      rw [hva i hi', hvb i hi']
  refine ⟨c, ?_, hcl, ?_⟩
  · unfold interpolatePolynom; rw [hal]; exact hc
  · intro k hk
    exact ⟨(hcb k).1, (hcb k).2, by rw [← hPf]; exact hcv k⟩

end Tmcg.DkgL
