import Tmcg.Model.Dkg
import TmcgProofs.Group
import Mathlib.LinearAlgebra.Lagrange
/-
  C15, interpolation layer: the two reconstruction routines compute Lagrange interpolation.

    * `lagrange0_val`            the "optimised Lagrange multipliers" loop of `PedersenVSS::Reconstruct`
                                 and `GennaroJareckiKrawczykRabinDKG::Reconstruct` returns f(0) for any
                                 polynomial f of degree ≤ t through the t+1 points used
    * `lagrange0_unique`         hence any two sets of t+1 correct shares give the same secret
    * `interpolatePolynom_val`   `tmcg_interpolate_polynom` returns the coefficients of that polynomial
-/
namespace Tmcg.DkgL
open Tmcg Tmcg.Dkg

/-- the points used by the code: party `j` has abscissa `j + 1` -/
def pt (q : Int) (j : Nat) : ZMod q.natAbs := ((j : ZMod q.natAbs) + 1)

/-- the parties of an interpolation: pairwise distinct indices below `q - 1`, so that the abscissae
    `j + 1` are distinct and non-zero mod `q` -/
structure GoodParties (q : Int) (parties : List Nat) : Prop where
  nodup : parties.Nodup
  small : ∀ j ∈ parties, (j : Int) + 1 < q

variable {q : Int} [Fact (Nat.Prime q.natAbs)]

set_option linter.unusedSectionVars false
set_option linter.unusedVariables false

/-! ### casts into `ZMod q` -/

theorem natAbs_q (hq : 0 < q) : ((q.natAbs : Nat) : Int) = q := Int.natAbs_of_nonneg hq.le

theorem cast_emod (hq : 0 < q) (a : Int) :
    (((a % q : Int)) : ZMod q.natAbs) = (a : ZMod q.natAbs) := by
  have := ZMod.intCast_mod a q.natAbs
  rwa [natAbs_q hq] at this

theorem emod_bounds (hq : 0 < q) (a : Int) : 0 ≤ a % q ∧ a % q < q :=
  ⟨Int.emod_nonneg _ (ne_of_gt hq), Int.emod_lt_of_pos _ hq⟩

theorem eq_of_cast_eq (hq : 0 < q) {a b : Int} (ha : 0 ≤ a ∧ a < q) (hb : 0 ≤ b ∧ b < q)
    (h : (a : ZMod q.natAbs) = (b : ZMod q.natAbs)) : a = b := by
  rw [ZMod.intCast_eq_intCast_iff, natAbs_q hq] at h
  have h' : a % q = b % q := h
  rwa [Int.emod_eq_of_lt ha.1 ha.2, Int.emod_eq_of_lt hb.1 hb.2] at h'

theorem invm_val_q (hq : 0 < q) (a : Int) (ha : (a : ZMod q.natAbs) ≠ 0) :
    ∃ r, invm a q = some r ∧ 0 ≤ r ∧ r < q ∧ (r : ZMod q.natAbs) = (a : ZMod q.natAbs)⁻¹ := by
  have hg : Int.gcd a q = 1 := by
    rw [Int.gcd_comm, Int.gcd_def]
    refine (Nat.Prime.coprime_iff_not_dvd (Fact.out)).mpr ?_
    intro hd
    apply ha
    rw [ZMod.intCast_zmod_eq_zero_iff_dvd]
    exact Int.natCast_dvd.mpr hd
  obtain ⟨r, hr⟩ := invm_isSome_of_coprime (ne_of_gt hq) hg
  obtain ⟨h0, h1, hc⟩ := invm_some hr
  rw [abs_of_pos hq] at h1
  refine ⟨r, hr, h0, h1, ?_⟩
  have : ((a * r : Int) : ZMod q.natAbs) = ((1 : Int) : ZMod q.natAbs) := by
    rw [ZMod.intCast_eq_intCast_iff, natAbs_q hq]; exact hc
  push_cast at this
  exact eq_inv_of_mul_eq_one_right this

theorem pt_cast (j : Nat) : pt q j = (((j : Int) + 1 : Int) : ZMod q.natAbs) := by
  unfold pt; push_cast; rfl

theorem pt_inj (hq : 0 < q) {j j' : Nat} (hj : (j : Int) + 1 < q) (hj' : (j' : Int) + 1 < q)
    (h : pt q j = pt q j') : j = j' := by
  unfold pt at h
  have h' : ((j + 1 : Nat) : ZMod q.natAbs) = ((j' + 1 : Nat) : ZMod q.natAbs) := by
    push_cast; exact h
  rw [ZMod.natCast_eq_natCast_iff'] at h'
  have h1 : j + 1 < q.natAbs := by omega
  have h2 : j' + 1 < q.natAbs := by omega
  rw [Nat.mod_eq_of_lt h1, Nat.mod_eq_of_lt h2] at h'
  omega

theorem pt_ne_zero (hq : 0 < q) {j : Nat} (hj : (j : Int) + 1 < q) : pt q j ≠ 0 := by
  unfold pt
  have h' : ((j + 1 : Nat) : ZMod q.natAbs) ≠ 0 := by
    rw [Ne, ZMod.natCast_eq_zero_iff]
    intro hd
    have := Nat.le_of_dvd (by omega) hd
    omega
  intro h; apply h'; push_cast; exact h

theorem pt_injOn (hq : 0 < q) (parties : List Nat) (hp : GoodParties q parties) :
    Set.InjOn (pt q) (parties.toFinset : Set Nat) := by
  intro j hj j' hj' h
  simp only [Finset.mem_coe, List.mem_toFinset] at hj hj'
  exact pt_inj hq (hp.small j hj) (hp.small j' hj') h

/-! ### the multipliers -/

theorem foldl_filter_prod (g : Nat → Int) (jt : Nat) (L : List Nat) (a : Int) :
    ((L.foldl (fun acc lt => if lt ≠ jt then acc * g lt else acc) a : Int) : ZMod q.natAbs) =
      (a : ZMod q.natAbs) * ((L.filter (· ≠ jt)).map (fun lt => (g lt : ZMod q.natAbs))).prod := by
  induction L generalizing a with
  | nil => simp
  | cons x xs ih =>
    simp only [List.foldl_cons]
    rw [ih]
    by_cases h : x = jt
    · simp [h]
    · simp [h, mul_assoc]

theorem list_prod_map_div {α : Type} (L : List α) (a b : α → ZMod q.natAbs) :
    (L.map (fun l => a l / b l)).prod = (L.map a).prod / (L.map b).prod := by
  induction L with
  | nil => simp
  | cons x xs ih => simp [ih, div_mul_div_comm]


/-- `lagCoeff` is the Lagrange basis polynomial of `jt` evaluated at 0 -/
theorem lagCoeff_val (hq : 0 < q) (parties : List Nat) (hp : GoodParties q parties) (jt : Nat)
    (hj : jt ∈ parties) :
    ∃ l, lagCoeff q parties jt = some l ∧ 0 ≤ l ∧ l < q ∧
      ((l : Int) : ZMod q.natAbs) =
        ((parties.filter (· ≠ jt)).map (fun lt => pt q lt / (pt q lt - pt q jt))).prod := by
  sorry

/-- the reconstruction loop: for shares lying on a polynomial of degree `< |parties|` the result is
    its value at 0 -/
theorem lagrange0_val (hq : 0 < q) (parties : List Nat) (hp : GoodParties q parties)
    (f : Polynomial (ZMod q.natAbs)) (hf : f.degree < parties.length) (share : Nat → Int)
    (hs : ∀ j ∈ parties, ((share j : Int) : ZMod q.natAbs) = f.eval (pt q j)) :
    ∃ v, lagrange0 q parties share = some v ∧ 0 ≤ v ∧ v < q ∧
      ((v : Int) : ZMod q.natAbs) = f.eval 0 := by
  sorry

/-- any two admissible party sets reconstruct the same value from shares of one polynomial -/
theorem lagrange0_unique (hq : 0 < q) (P1 P2 : List Nat) (h1 : GoodParties q P1) (h2 : GoodParties q P2)
    (f : Polynomial (ZMod q.natAbs)) (hf1 : f.degree < P1.length) (hf2 : f.degree < P2.length)
    (share : Nat → Int)
    (hs1 : ∀ j ∈ P1, ((share j : Int) : ZMod q.natAbs) = f.eval (pt q j))
    (hs2 : ∀ j ∈ P2, ((share j : Int) : ZMod q.natAbs) = f.eval (pt q j)) :
    ∃ v, lagrange0 q P1 share = some v ∧ lagrange0 q P2 share = some v := by
  sorry

/-- `tmcg_interpolate_polynom` on the points `(j+1, share j)`: the coefficient list (reduced mod q,
    lowest first, one entry per point) of the polynomial of degree `< |parties|` through them -/
theorem interpolatePolynom_val (hq : 0 < q) (parties : List Nat) (hp : GoodParties q parties)
    (hne : parties ≠ [])
    (f : Polynomial (ZMod q.natAbs)) (hf : f.degree < parties.length) (share : Nat → Int)
    (hs : ∀ j ∈ parties, ((share j : Int) : ZMod q.natAbs) = f.eval (pt q j)) :
    ∃ c, interpolatePolynom q (parties.map (fun (j : Nat) => ((j : Int) + 1))) (parties.map share) = some c ∧
      c.length = parties.length ∧
      (∀ k, k < c.length → 0 ≤ c.getD k 0 ∧ c.getD k 0 < q ∧
        ((c.getD k 0 : Int) : ZMod q.natAbs) = f.coeff k) := by
  sorry

end Tmcg.DkgL
