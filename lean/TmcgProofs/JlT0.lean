import TmcgProofs.JlInv
import TmcgProofs.JlArith
/-
  C17, multi-party part: transition round 0 (jlDeal) of the run invariants (TmcgProofs/JlInv.lean).
-/
namespace Tmcg.JlProofs
open Tmcg Tmcg.Powm Tmcg.Vtmf Tmcg.Grp Tmcg.Jl

variable {G : Jl.Grp} {ins : List PartyIn} {n t : Nat}

/-! ### generic helpers -/

theorem bsOf_map_bc (tag : Tag) (l : List Int) : bsOf (l.map (Op.bc tag)) = tagged tag l := by
  induction l with
  | nil => rfl
  | cons v l ih =>
    rw [List.map_cons, bsOf_cons_bc, ih]
    rfl

theorem psOf_map_bc (tag : Tag) (l : List Int) : psOf (l.map (Op.bc tag)) = [] := by
  induction l with
  | nil => rfl
  | cons v l ih => rw [List.map_cons, psOf_cons_bc, ih]

theorem cfg_length (G : Jl.Grp) (ins : List PartyIn) (n t r : Nat) (h : ins.length = n) :
    (cfg G ins n t r).length = n := by
  unfold cfg
  rw [runRounds_length, initParties_length n t ins h]

theorem live_of_alive {P : Party} (h : Alive P) : P.live = true := by
  unfold Party.live
  rw [h.running, h.notDead, h.noErr]
  rfl

theorem inbox_empty_b_getD (n j : Nat) : (Inbox.empty n).b.getD j [] = [] := by
  unfold Inbox.empty
  simp only [List.getD_eq_getElem?_getD, List.getElem?_replicate]
  split <;> rfl

theorem inbox_empty_p_getD (n j : Nat) : (Inbox.empty n).p.getD j [] = [] := by
  unfold Inbox.empty
  simp only [List.getD_eq_getElem?_getD, List.getElem?_replicate]
  split <;> rfl

theorem pinOf_eq_get (ins : List PartyIn) (k : Nat) (hk : k < ins.length) : pinOf ins k = ins[k] := by
  unfold pinOf
  simp [List.getD_eq_getElem?_getD, List.getElem?_eq_getElem hk]

/-! ### the row an honest dealer broadcasts -/

/-- the commitments party `k` computes from its draws (`[]` when the exponentiations fail) -/
def rowOf (G : Jl.Grp) (ins : List PartyIn) (t k : Nat) : List Int :=
  match gaList G (cOf ins t k), hbList G (hcOf ins t k) with
  | .ok ga, .ok hb => List.zipWith (fun a b => a * b % G.p) ga hb
  | _, _ => []

theorem coins_range (hS : Setup G ins n t) {x : Nat} (hx : HonIdx ins n x) :
    (∀ v ∈ cOf ins t x, InRange G v) ∧ (∀ v ∈ hcOf ins t x, InRange G v) := by
  obtain ⟨_, h⟩ := hS.hcoins x hx
  constructor
  · intro v hv
    simp only [cOf, List.mem_map, List.mem_range] at hv
    obtain ⟨m, hm, rfl⟩ := hv
    exact h _ (by omega)
  · intro v hv
    simp only [hcOf, List.mem_map, List.mem_range] at hv
    obtain ⟨m, hm, rfl⟩ := hv
    exact h _ (by omega)

theorem cOf_length (ins : List PartyIn) (t k : Nat) : (cOf ins t k).length = t + 1 := by
  simp [cOf]

theorem hcOf_length (ins : List PartyIn) (t k : Nat) : (hcOf ins t k).length = t + 1 := by
  simp [hcOf]

/-- the exponentiations of an honest dealer succeed; its row -/
theorem rowOf_spec [Fact (Nat.Prime (grp G).p.natAbs)] (hS : Setup G ins n t) {x : Nat}
    (hx : HonIdx ins n x) :
    ∃ ga hb, gaList G (cOf ins t x) = .ok ga ∧ hbList G (hcOf ins t x) = .ok hb ∧
      rowOf G ins t x = List.zipWith (fun a b => a * b % G.p) ga hb ∧
      HonestRow G (cOf ins t x) (hcOf ins t x) (rowOf G ins t x) ∧ (rowOf G ins t x).length = t + 1 := by
  obtain ⟨h1, h2⟩ := coins_range hS hx
  obtain ⟨ga, hb, hga, hhb, hl, hk⟩ := deal_row_val hS.hG (cOf ins t x) (hcOf ins t x)
    (by rw [cOf_length, hcOf_length]) h1 h2
  have hrow : rowOf G ins t x = List.zipWith (fun a b => a * b % G.p) ga hb := by
    unfold rowOf
    rw [hga, hhb]
  refine ⟨ga, hb, hga, hhb, hrow, ⟨?_, ?_⟩, ?_⟩
  · rw [hrow, hl]
  · intro k hk'
    rw [hrow]
    rw [hrow, hl] at hk'
    exact hk k hk'
  · rw [hrow, hl, cOf_length]

/-- `jlDeal` of an honest party -/
theorem deal_ok [Fact (Nat.Prime (grp G).p.natAbs)] (hS : Setup G ins n t) {x : Nat}
    (hx : HonIdx ins n x) :
    ∃ st, jlDeal G n t x (pinOf ins x).dev.sfb (pinOf ins x).strong (pinOf ins x).weak =
        .ok (st, (rowOf G ins t x).map (Op.bc tagShare), .run) ∧
      Core ins n t x st ∧ st.C = (zeroRows n t).set x (rowOf G ins t x) ∧ st.s = zeros n ∧
      st.sp = zeros n ∧ st.cnt = List.replicate n 0 ∧ st.a = zeros n ∧ st.ha = zeros n ∧
      st.compl = [] := by
  obtain ⟨ga, hb, hga, hhb, hrow, -, -⟩ := rowOf_spec hS hx
  obtain ⟨hlen, -⟩ := hS.hcoins x hx
  have hd : (pinOf ins x).dev = {} := (honest_iff _).1 hx.2
  have hsfb : (pinOf ins x).dev.sfb = false := by rw [hd]
  have hnl : ¬ (pinOf ins x).strong.length < 2 * (t + 1) := by omega
  unfold cOf at hga
  unfold hcOf at hhb
  unfold jlDeal
  simp only [hnl, if_false, bind, Except.bind, pure, Except.pure, hga, hhb]
  refine ⟨_, by rw [hrow], ⟨rfl, rfl, rfl, hsfb, rfl, rfl⟩, by rw [hrow], rfl, rfl, rfl, rfl, rfl, rfl⟩

/-- the step of an honest party in round 0 -/
theorem step0 [Fact (Nat.Prime (grp G).p.natAbs)] (hS : Setup G ins n t) {x : Nat}
    (hx : HonIdx ins n x) (hx' : x < (cfg G ins n t 0).length) :
    ∃ Ps, stepParty (cfg G ins n t 0).length (flipStep G ins n t 0 x) (cfg G ins n t 0)[x] =
        (Ps, tagged tagShare (rowOf G ins t x), []) ∧
      Alive Ps ∧ Ps.inbox = Inbox.empty n ∧
      Core ins n t x Ps.st ∧ Ps.st.C = (zeroRows n t).set x (rowOf G ins t x) ∧ Ps.st.s = zeros n ∧
      Ps.st.sp = zeros n ∧ Ps.st.cnt = List.replicate n 0 ∧ Ps.st.a = zeros n ∧ Ps.st.ha = zeros n ∧
      Ps.st.compl = [] := by
  have hxl : x < ins.length := by rw [hS.hlen]; exact hx.1
  have hpin : pinOf ins x = ins[x] := pinOf_eq_get ins x hxl
  have hd : (ins[x]).dev = {} := by rw [← hpin]; exact (honest_iff _).1 hx.2
  obtain ⟨st, hdeal, hcore, hC, hs, hsp, hcnt, ha, hha, hcompl⟩ := deal_ok hS hx
  have hget := initParties_get n t ins hS.hlen x hx.1
  rw [← cfg_zero G ins n t] at hget
  obtain ⟨_, hPx⟩ := List.getElem?_eq_some_iff.1 hget
  rw [hPx]
  have hstep : flipStep G ins n t 0 x { n := n, t := t, i := x, sfb := (ins[x]).dev.sfb } (Inbox.empty n) =
      .ok (st, Inbox.empty n, (rowOf G ins t x).map (Op.bc tagShare), .run) := by
    unfold pinOf at hdeal
    unfold flipStep
    simp only [hdeal, bind, Except.bind, pure, Except.pure]
  obtain ⟨fs', hsp', hdead⟩ := stepParty_honest (cfg G ins n t 0).length (flipStep G ins n t 0 x)
    { dev := (ins[x]).dev, piCnt := List.replicate n 0, inbox := Inbox.empty n,
      st := { n := n, t := t, i := x, sfb := (ins[x]).dev.sfb } } hd rfl st (Inbox.empty n)
    ((rowOf G ins t x).map (Op.bc tagShare)) .run hstep
  rw [bsOf_map_bc, psOf_map_bc] at hsp'
  exact ⟨_, hsp', ⟨hd, hdead, rfl, rfl⟩, rfl, hcore, hC, hs, hsp, hcnt, ha, hha, hcompl⟩

/-- after round 0 every honest party has broadcast its commitments -/
theorem inv1 [Fact (Nat.Prime (grp G).p.natAbs)] (hS : Setup G ins n t) :
    ∃ Q Row, Inv1 G ins n t Q Row := by
  have hlen0 : (cfg G ins n t 0).length = n := cfg_length G ins n t 0 hS.hlen
  refine ⟨fun j => bOut G ins n t 0 j, rowOf G ins t, ?_, ?_⟩
  · intro j hj
    obtain ⟨_, _, -, -, -, hrow, hl⟩ := rowOf_spec hS hj
    have hj' : j < (cfg G ins n t 0).length := by rw [hlen0]; exact hj.1
    obtain ⟨Ps, hst, -⟩ := step0 hS hj hj'
    refine ⟨hrow, hl, ?_⟩
    show bOut G ins n t 0 j = _
    unfold bOut
    rw [dif_pos hj']
    unfold outOf
    rw [hst]
  · intro x hx
    have hx' : x < (cfg G ins n t 0).length := by rw [hlen0]; exact hx.1
    obtain ⟨Ps, hst, halive, hinb, hcore, hC, hs, hsp, hcnt, ha, hha, hcompl⟩ := step0 hS hx hx'
    obtain ⟨P', hP', e1, e2, e3, e4, e5, e6, e7, e8, e9⟩ :=
      runRound_get (flipStep G ins n t 0) (cfg G ins n t 0) x hx'
    have hsd : stepped (flipStep G ins n t 0) (cfg G ins n t 0) x hx' = Ps := by
      unfold stepped
      rw [hst]
    rw [hsd] at e1 e2 e3 e4 e5 e6 e7 e8 e9
    rw [← cfg_succ] at hP'
    have hbl : (Inbox.empty n).b.length = n := by simp [Inbox.empty]
    have hpl : (Inbox.empty n).p.length = n := by simp [Inbox.empty]
    rw [hinb] at e6 e7 e8 e9
    rw [hbl] at e6 e8
    rw [hpl] at e7 e9
    refine ⟨P', hP', ⟨e1.trans halive.dev, by rw [e2]; exact halive.notDead, e4.trans halive.running,
      e5.trans halive.noErr⟩, by rw [e3]; exact hcore, by rw [e3]; exact hC, by rw [e3]; exact hs,
      by rw [e3]; exact hsp, by rw [e3]; exact hcnt, by rw [e3]; exact ha, by rw [e3]; exact hha,
      by rw [e3]; exact hcompl, ⟨e6, e7, ?_⟩, ?_⟩
    · intro j hj hjx
      have hjl : j < (cfg G ins n t 0).length := by rw [hlen0]; exact hj
      show P'.inbox.b.getD j [] = bOut G ins n t 0 j
      rw [e8 j hj, inbox_empty_b_getD, dif_pos ⟨hjx, hjl⟩, List.nil_append]
      unfold bOut
      rw [dif_pos hjl]
    · intro j hj
      show P'.inbox.p.getD j [] = []
      have hpi : Ps.dev.pi = [] := by rw [halive.dev]
      rw [e9 hpi j hj.1, inbox_empty_p_getD, List.nil_append]
      by_cases hjx : j = x
      · rw [dif_neg (fun h => h.1 hjx)]
      · have hjl : j < (cfg G ins n t 0).length := by rw [hlen0]; exact hj.1
        rw [dif_pos ⟨hjx, hjl⟩]
        obtain ⟨Pj, hstj, -⟩ := step0 hS hj hjl
        unfold outOf
        rw [hstj]
        rfl

end Tmcg.JlProofs
