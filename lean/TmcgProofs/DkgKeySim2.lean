import TmcgProofs.DkgKeySim1
/-
  C15, key agreement with reconstruction, part 2: the state of the honest parties after round 3
  (steps 1(d), 2, 3, 4(a)): common QUAL and commitments, valid openings for every dealer in QUAL,
  the Feldman rows on their way.
-/
namespace Tmcg.DkgP
open Tmcg Tmcg.Powm Tmcg.Dkg Tmcg.Grp Tmcg.DkgL

variable {G : Dkg.Grp} [Fact (Nat.Prime G.p.natAbs)]

set_option linter.unusedSectionVars false

/-! ### the loop of step 1(d): second components, validity of the shares, the inbox -/

theorem kg_genReadAnswers_InR_sp (hq : 0 < G.q) (st : GenSt) (j : Nat) (f : Nat) (I : Inbox) (s sp : List Int)
    (cm : List Nat) (r : Inbox × List Int × List Int × List Nat)
    (h : genReadAnswers G st j f I s sp cm = .ok r) (hs : InR G.q sp) : InR G.q r.2.2.1 := by
  induction f generalizing I s sp cm with
  | zero =>
    simp only [genReadAnswers] at h
    injection h with h
    rw [← h]; exact hs
  | succ f ih =>
    unfold genReadAnswers at h
    rcases hp1 : I.popB none j with ⟨_ | w, I1⟩
    · rw [hp1] at h
      injection h with h
      rw [← h]; exact hs
    · rw [hp1] at h
      simp only at h
      split at h
      · injection h with h
        rw [← h]; exact hs
      · rcases hp2 : I1.popB none j with ⟨_ | foo0, I2⟩
        · rw [hp2] at h
          injection h with h
          rw [← h]; exact hs
        · rw [hp2] at h
          simp only at h
          rcases hp3 : I2.popB none j with ⟨_ | bar0, I3⟩
          · rw [hp3] at h
            injection h with h
            rw [← h]; exact hs
          · rw [hp3] at h
            simp only [ag_ite_pair] at h
            obtain ⟨lhs, -, h⟩ := ag_bind_ok _ _ _ h
            obtain ⟨rhs, -, h⟩ := ag_bind_ok _ _ _ h
            split at h
            · exact ih _ _ _ _ h hs
            · split at h
              · exact ih _ _ _ _ h (ag_InR_set G.q sp j _ hs (ag_absGe_range G.q hq bar0))
              · exact ih _ _ _ _ h hs

/-- the second components through the loop of step 1(d) -/
theorem kg_genResolveGo_sp (hq : 0 < G.q) (st : GenSt) (idx : List Nat) (I : Inbox) (s sp : List Int)
    (cm : List Nat) (I' : Inbox) (s' sp' : List Int) (cm' : List Nat)
    (h : genResolveGo G st idx I s sp cm = .ok (I', s', sp', cm')) :
    sp'.length = sp.length ∧ getI sp' st.i = getI sp st.i ∧ (InR G.q sp → InR G.q sp') := by
  induction idx generalizing I s sp cm with
  | nil =>
    simp only [genResolveGo, Except.ok.injEq, Prod.mk.injEq] at h
    obtain ⟨_, _, rfl, _⟩ := h
    exact ⟨rfl, rfl, id⟩
  | cons k rest ih =>
    rcases genResolveGo_step G st k rest I s sp cm _ h with
      ⟨cm1, _, _, _, h'⟩ | ⟨hk, I1, s1, sp1, cm1, hr, h'⟩
    · exact ih _ _ _ _ h'
    · obtain ⟨a1, a2, a3⟩ := ih _ _ _ _ h'
      have b1 := (genReadAnswers_length G st k _ _ _ _ _ _ _ _ _ hr).2
      have b2 := (genReadAnswers_other G st k _ _ _ _ _ _ _ _ _ hr st.i (Ne.symm hk)).2
      exact ⟨a1.trans b1, a2.trans b2, fun hs => a3 (kg_genReadAnswers_InR_sp hq st k _ _ _ _ _ _ hr hs)⟩

/-- a share pair either survives step 1(d) or is replaced by a pair that passes equation (4) -/
theorem kg_genResolveGo_inv (st : GenSt) (idx : List Nat) (j : Nat) (a b : Int) (I : Inbox) (s sp : List Int)
    (cm : List Nat) (I' : Inbox) (s' sp' : List Int) (cm' : List Nat) (hlen : s.length = sp.length)
    (h : genResolveGo G st idx I s sp cm = .ok (I', s', sp', cm'))
    (hinv : (getI s j = a ∧ getI sp j = b) ∨ Eq4F G st.i (getRow st.C j) (getI s j) (getI sp j)) :
    (getI s' j = a ∧ getI sp' j = b) ∨ Eq4F G st.i (getRow st.C j) (getI s' j) (getI sp' j) := by
  induction idx generalizing I s sp cm with
  | nil =>
    simp only [genResolveGo, Except.ok.injEq, Prod.mk.injEq] at h
    obtain ⟨_, rfl, rfl, _⟩ := h
    exact hinv
  | cons k rest ih =>
    rcases genResolveGo_step G st k rest I s sp cm _ h with
      ⟨cm1, _, _, _, h'⟩ | ⟨hk, I1, s1, sp1, cm1, hr, h'⟩
    · exact ih _ _ _ _ hlen h' hinv
    · obtain ⟨l1, l2⟩ := genReadAnswers_length G st k _ _ _ _ _ _ _ _ _ hr
      apply ih _ _ _ _ (by rw [l1, l2, hlen]) h'
      by_cases hjk : j = k
      · subst hjk
        exact genReadAnswers_inv G st j a b _ _ _ _ _ _ _ _ _ hlen hr hinv
      · obtain ⟨e1, e2⟩ := genReadAnswers_other G st k _ _ _ _ _ _ _ _ _ hr j hjk
        rw [e1, e2]
        exact hinv

/-- the rest of dealer `k`'s stream after its answers were read -/
def raRest (G : Grp) (n : Nat) (Ck : List Int) (s : List (Tag × Int)) : List (Tag × Int) :=
  match raS G n Ck (n + 1) s with
  | .ok r => r.2
  | .error _ => s

/-- the inbox after the loop of step 1(d) -/
theorem kg_genResolveGo_inbox (hG : ValidGrp G) (st : GenSt) (L : List Nat) (hL : L.Nodup) (I : Inbox)
    (hI : ∀ j ∈ L, j < I.b.length) (s sp : List Int) (cm : List Nat) (I' : Inbox) (s' sp' : List Int)
    (cm' : List Nat) (h : genResolveGo G st L I s sp cm = .ok (I', s', sp', cm')) :
    I'.b.length = I.b.length ∧
    ∀ k, bsOf I' k = if k ∈ L ∧ ¬ st.t < getN st.cnt k ∧ k ≠ st.i
      then raRest G st.n (getRow st.C k) (bsOf I k) else bsOf I k := by
  induction L generalizing I s sp cm with
  | nil =>
    simp only [genResolveGo, Except.ok.injEq, Prod.mk.injEq] at h
    obtain ⟨rfl, _, _, _⟩ := h
    exact ⟨rfl, fun k => by simp⟩
  | cons j rest ih =>
    have hnd := List.nodup_cons.mp hL
    have hIr : ∀ k ∈ rest, k < I.b.length := fun k hk => hI k (List.mem_cons_of_mem _ hk)
    unfold genResolveGo at h
    by_cases hc : getN st.cnt j > st.t
    · simp only [hc, if_true] at h
      obtain ⟨a1, a2⟩ := ih hnd.2 I hIr _ _ _ h
      refine ⟨a1, fun k => ?_⟩
      rw [a2 k]
      by_cases hkj : k = j
      · subst hkj
        simp [hnd.1, hc]
      · simp [hkj]
    · simp only [hc, if_false] at h
      by_cases hji : j = st.i
      · simp only [hji, if_true] at h
        obtain ⟨a1, a2⟩ := ih hnd.2 I hIr _ _ _ h
        refine ⟨a1, fun k => ?_⟩
        rw [a2 k]
        by_cases hkj : k = j
        · subst hkj
          simp [hji]
        · simp [hkj]
      · simp only [hji, if_false] at h
        obtain ⟨⟨I1, s1, sp1, cm1⟩, hr, h⟩ := ag_bind_ok _ _ _ h
        simp only at h
        obtain ⟨⟨bad, rst⟩, hra⟩ := ag_raS_total hG st.n (getRow st.C j) (st.n + 1) (bsOf I j)
        have hmir := ag_genReadAnswers (G := G) st j (st.n + 1) I (hI j (by simp)) s sp cm
        rw [hra] at hmir
        obtain ⟨s1', sp1', hmir⟩ := hmir
        rw [hr] at hmir
        simp only [Except.ok.injEq, Prod.mk.injEq] at hmir
        obtain ⟨rfl, -, -, -⟩ := hmir
        obtain ⟨a1, a2⟩ := ih hnd.2 (setB I j rst) (fun k hk => by simpa using hIr k hk) _ _ _ h
        refine ⟨by rw [a1]; simp, fun k => ?_⟩
        rw [a2 k]
        by_cases hkj : k = j
        · subst hkj
          have hc' : ¬ st.t < getN st.cnt k := hc
          simp [hnd.1, hc', hji, raRest, hra, ag_bsOf_setB_self I k rst (hI k (by simp))]
        · have hb : bsOf (setB I j rst) k = bsOf I k := ag_bsOf_setB_ne _ _ _ _ (Ne.symm hkj)
          simp [hkj, hb]

/-- steps 1(d)–4(a) of a party that stays in the protocol: the complete result -/
theorem kg_genResolve_full (st : GenSt) (I : Inbox) (st' : GenSt) (I' : Inbox) (ops : List Op) (s : Status)
    (h : genResolve G st I = .ok (st', I', ops, s)) (hsfb : st.sfb = false) :
    ∃ s1 sp1 cm gs, genResolveGo G st (List.range st.n) I st.s st.sp st.compl = .ok (I', s1, sp1, cm) ∧
      gaList G s1 = .ok gs ∧
      (((List.range st.n).filter (fun j => !cm.contains j)).contains st.i = true →
        st.t < ((List.range st.n).filter (fun j => !cm.contains j)).length →
        s = .run ∧ ops = st.ga.map (Op.bc none) ∧
        st' = { st with s := s1, sp := sp1, gs := gs, compl := [],
                        qual := (List.range st.n).filter (fun j => !cm.contains j),
                        x := sumMod G.q s1 ((List.range st.n).filter (fun j => !cm.contains j)),
                        xp := sumMod G.q sp1 ((List.range st.n).filter (fun j => !cm.contains j)),
                        A := st.A.set st.i st.ga }) := by
  simp only [genResolve, bind, Except.bind] at h
  cases hg : genResolveGo G st (List.range st.n) I st.s st.sp st.compl with
  | error e => rw [hg] at h; cases h
  | ok R =>
    obtain ⟨I1, s1, sp1, cm⟩ := R
    rw [hg] at h
    simp only at h
    cases hgs : gaList G s1 with
    | error e => rw [hgs] at h; cases h
    | ok gs =>
    rw [hgs] at h
    simp only at h
    split at h
    · rename_i hq
      simp only [pure, Except.pure, Except.ok.injEq, Prod.mk.injEq] at h
      obtain ⟨_, rfl, _, _⟩ := h
      refine ⟨s1, sp1, cm, gs, rfl, hgs, fun h1 _ => ?_⟩
      rw [h1] at hq
      simp at hq
    · split at h
      · rename_i hl
        simp only [pure, Except.pure, Except.ok.injEq, Prod.mk.injEq] at h
        obtain ⟨_, rfl, _, _⟩ := h
        refine ⟨s1, sp1, cm, gs, rfl, hgs, fun _ h2 => ?_⟩
        omega
      · split at h
        · rename_i hb
          simp [hsfb] at hb
        · simp only [pure, Except.pure, Except.ok.injEq, Prod.mk.injEq] at h
          obtain ⟨rfl, rfl, rfl, rfl⟩ := h
          refine ⟨s1, sp1, cm, gs, rfl, hgs, fun _ _ => ⟨rfl, ?_, ?_⟩⟩
          · simp [hsfb]
          · simp [hsfb]

/-! ### the configurations after rounds 0, 1, 2 -/

theorem kg_cfg1 {n t : Nat} {ins : List PartyIn} (S : SetupK G n t ins) : Inv1 G n t ins (cfgGen G n t ins 1) := by
  have h1 := cfgGen_succ (G := G) n t ins 0
  rw [h1, cfgGen_zero]
  exact ag_round0 S.setting

theorem kg_cfg2 {n t : Nat} {ins : List PartyIn} (S : SetupK G n t ins) : Inv2 G n t ins (cfgGen G n t ins 2) := by
  have h2 := cfgGen_succ (G := G) n t ins 1
  rw [h2]
  exact ag_round1 S.setting S.hn64 _ (kg_cfg1 S)

/-- what an honest party `i` holds of an honest dealer `j`'s answers before round 3: one verifying
    triple per complainer, then the end marker -/
theorem kg_stream3 {n t : Nat} {ins : List PartyIn} (S : SetupK G n t ins) (i j : Nat)
    (hi : i ∈ honestIdx ins) (hj : j ∈ honestIdx ins) (hne : j ≠ i) (P : Party GenSt)
    (hP : (cfgGen G n t ins 3)[i]? = some P) :
    ∃ cfs : List Nat, cfs.length ≤ n ∧ (∀ x ∈ cfs, x < n) ∧
      bsOf P.inbox j = cfs.flatMap (fun (it : Nat) => [((none : Tag), (it : Int)),
        (none, shA G t (pinOf ins j) it), (none, shB G t (pinOf ins j) it)]) ++ [((none : Tag), (n : Int))] := by
  obtain ⟨hlen, hS, hAg, hX⟩ := kg_cfg2 S
  have h3 := cfgGen_succ (G := G) n t ins 2
  rw [h3] at hP
  obtain ⟨Pj, stj, Ij, cfs, Pj', hPj, h2j, hPj', hout, cl, cx, -⟩ :=
    ag_round2_party (G := G) S.hn (cfgGen G n t ins 2) hS j hj
  obtain ⟨Pi, sti, Ii, cfi, Pi', hPi, h2i, hPi', _, _, _, _, _, _, hb, _, _, _, _, v5, -⟩ :=
    ag_round2_party (G := G) S.hn (cfgGen G n t ins 2) hS i hi
  have hPeq : Pi' = P := Option.some.inj (hPi'.symm.trans hP)
  rw [hPeq] at hb
  obtain ⟨hj1, -⟩ := (ag_mem_honestIdx ins j).mp hj
  rw [S.hn] at hj1
  obtain ⟨-, -, x3, -⟩ := hX j i Pj Pi hj hi hPj hPi hne
  refine ⟨cfs, cl, cx, ?_⟩
  rw [hb j hj1, v5 j hj1 hne, x3, hout]
  simp only [hne, if_false, List.nil_append]
  refine congrArg (· ++ [((none : Tag), (n : Int))]) ?_
  apply List.flatMap_congr
  intro it hit
  rw [h2j.srow, h2j.sprow, ag_getI_map_range _ _ it (cx it hit), ag_getI_map_range _ _ it (cx it hit)]

/-! ### the honest parties after round 3 -/

/-- an honest party after round 3 (without its inbox) -/
structure T4a (G : Grp) [Fact (Nat.Prime G.p.natAbs)] (n t : Nat) (ins : List PartyIn) (Q : List Nat)
    (Cc : Nat → List Int) (i : Nat) (P : Party GenSt) : Prop where
  hl : HL P
  hn : P.st.n = n
  ht : P.st.t = t
  hi : P.st.i = i
  blen : P.inbox.b.length = n
  qual : P.st.qual = Q
  C : ∀ j, j < n → getRow P.st.C j = Cc j
  slen : P.st.s.length = n
  splen : P.st.sp.length = n
  sIn : InR G.q P.st.s
  spIn : InR G.q P.st.sp
  gs : gaList G P.st.s = .ok P.st.gs
  opn : ∀ j ∈ Q, Eq4 G i (Cc j) (getI P.st.s j) (getI P.st.sp j)
  sown : getI P.st.s i = shA G t (pinOf ins i) i
  A : P.st.A = (zeroRows n t).set i P.st.ga
  ga : gaList G (coefA t (pinOf ins i)) = .ok P.st.ga
  vi : P.st.vi = zeros n
  yi : P.st.yi = zeros n
  z : P.st.z = (zeros n).set i (getI (coefA t (pinOf ins i)) 0)
  aik : P.st.aik = zeroRows n t
  x : P.st.x = sumMod G.q P.st.s Q
  compl : P.st.compl = []

theorem T4a.congr {n t : Nat} {ins : List PartyIn} {Q Q' : List Nat} {Cc Cc' : Nat → List Int} {i : Nat}
    {P : Party GenSt} (h : T4a G n t ins Q Cc i P) (hQ : Q = Q') (hC : ∀ j, j < n → Cc j = Cc' j)
    (hlt : ∀ j ∈ Q, j < n) : T4a G n t ins Q' Cc' i P := by
  subst hQ
  exact { h with
    C := fun j hj => (h.C j hj).trans (hC j hj)
    opn := fun j hj => by rw [← hC j (hlt j hj)]; exact h.opn j hj }

theorem kg_honest_nonempty {n t : Nat} {ins : List PartyIn} (S : SetupK G n t ins) :
    t < (honestIdx ins).length ∧ (honestIdx ins).Nodup ∧ ∀ j ∈ honestIdx ins, j < n := by
  refine ⟨?_, List.Nodup.filter _ List.nodup_range, fun j hj => ?_⟩
  · have := S.hf
    have := S.ht
    omega
  · have := ((ag_mem_honestIdx ins j).mp hj).1
    rwa [S.hn] at this

theorem kg_sublist_length {l1 l2 : List Nat} (hnd : l1.Nodup) (h : ∀ x ∈ l1, x ∈ l2) : l1.length ≤ l2.length :=
  (List.Nodup.subperm hnd h).length_le

/-- round 3 for one honest party -/
theorem kg_round3_party {n t : Nat} {ins : List PartyIn} (S : SetupK G n t ins) (i : Nat) (hi : i ∈ honestIdx ins)
    (P3 : Party GenSt) (hP3 : (cfgGen G n t ins 3)[i]? = some P3) (s3 : S3 G n t ins i P3)
    (e3 : Extra G n t ins i P3.st) (e3' : Extra2 G n t ins i P3.st) :
    ∃ P4, (cfgGen G n t ins 4)[i]? = some P4 ∧
      T4a G n t ins P4.st.qual (fun j => getRow P3.st.C j) i P4 ∧
      (∀ j, j ∈ honestIdx ins → j ∈ P4.st.qual) ∧
      (∃ p : Nat → Bool, P4.st.qual = (List.range n).filter p) ∧
      outOf (genStep G ins n t 3) (cfgGen G n t ins 3) i = (P4.st.ga.map (fun v => ((none : Tag), v)), []) ∧
      (∀ k, k < n → bsOf P4.inbox k =
        (if ¬ t < getN P3.st.cnt k ∧ k ≠ i then raRest G n (getRow P3.st.C k) (bsOf P3.inbox k)
          else bsOf P3.inbox k) ++
        (if k = i then [] else (outOf (genStep G ins n t 3) (cfgGen G n t ins 3) k).1)) := by
  have hG := S.hG
  have hq : 0 < G.q := hG.vg.q_pos
  have : Fact (Nat.Prime G.q.natAbs) := fact_q hG
  obtain ⟨hi1, hi2⟩ := (ag_mem_honestIdx ins i).mp hi
  rw [S.hn] at hi1
  obtain ⟨I3, -⟩ := kg_R3 S i hi
  have I4 := ag_round3 S.setting _ I3
  have h4 := cfgGen_succ (G := G) n t ins 3
  rw [← h4] at I4
  -- the step
  obtain ⟨st4, I4', ops4, s4, hs3, hqiff⟩ := ag_genResolve_spec hG P3.st P3.inbox (by rw [s3.blen, s3.hn]) s3.sIn
  have hs : genStep G ins n t 3 i P3.st P3.inbox = .ok (st4, I4', ops4, s4) := hs3
  obtain ⟨hout, P4, hP4, a1, a2, a3, a4, a5, a6, a7, a8, a9⟩ :=
    ag_honest_round (genStep G ins n t 3) _ i P3 hP3 s3.hl _ _ _ _ hs
  rw [← h4] at hP4
  -- QUAL contains the honest parties
  obtain ⟨P4', hP4', hqH⟩ := I4.1 i hi
  have hPeq : P4' = P4 := Option.some.inj (hP4'.symm.trans hP4)
  rw [hPeq, a1] at hqH
  obtain ⟨s1, sp1, cm, gs, hgo, hgs, hfull⟩ := kg_genResolve_full _ _ _ _ _ _ hs3 e3.sfb
  obtain ⟨_, _, _, cmq, hgo', hq4, _, _⟩ := genResolve_qual G _ _ _ _ _ _ hs3
  rw [hgo] at hgo'
  simp only [Except.ok.injEq, Prod.mk.injEq] at hgo'
  obtain ⟨_, _, _, hcmq⟩ := hgo'
  subst hcmq
  obtain ⟨hHl, hHnd, hHlt⟩ := kg_honest_nonempty S
  have hqnd : st4.qual.Nodup := by rw [hq4]; exact List.Nodup.filter _ List.nodup_range
  have hlen : t < st4.qual.length := lt_of_lt_of_le hHl (kg_sublist_length hHnd hqH)
  rw [hq4, s3.hn] at hqH hlen
  rw [s3.hn] at hq4
  obtain ⟨hrun, hops, hst4⟩ := hfull (by rw [s3.hn, s3.hi]; simpa using hqH i hi) (by rw [s3.ht, s3.hn]; exact hlen)
  subst hrun
  rw [s3.hn, s3.hi] at hst4
  -- the loop
  have hIb : ∀ j ∈ List.range P3.st.n, j < P3.inbox.b.length := fun j hj => by
    rw [s3.blen, ← s3.hn]; exact List.mem_range.mp hj
  obtain ⟨I'', s'', sp'', cm'', hgo2, hin, -⟩ := ag_genResolveGo hG P3.st (List.range P3.st.n) List.nodup_range
    P3.inbox hIb P3.st.s P3.st.sp P3.st.compl
  rw [hgo] at hgo2
  simp only [Except.ok.injEq, Prod.mk.injEq] at hgo2
  obtain ⟨-, rfl, -, -⟩ := hgo2
  obtain ⟨hl4, ho4⟩ := ra_genResolveGo_own _ _ _ _ _ _ _ _ _ _ hgo
  obtain ⟨hlp4, hop4, hinp⟩ := kg_genResolveGo_sp hq _ _ _ _ _ _ _ _ _ _ hgo
  obtain ⟨hbl, hbs⟩ := kg_genResolveGo_inbox hG _ _ List.nodup_range _ hIb _ _ _ _ _ _ _ hgo
  rw [s3.hi] at ho4 hop4
  have hslen : s1.length = n := hl4.trans e3.slen
  have hsplen : sp1.length = n := hlp4.trans e3'.splen
  have hsIn : InR G.q s1 := hin s3.sIn
  have hspIn : InR G.q sp1 := hinp e3'.spIn
  refine ⟨P4, hP4, ?_, by rw [a1, hq4]; exact hqH, ⟨_, by rw [a1, hq4]⟩, ?_, ?_⟩
  · have hl4' : HL P4 := ⟨by rw [a4]; exact s3.hl.1, a5, a3, a2⟩
    have hst : P4.st = _ := a1.trans hst4
    refine ⟨hl4', by rw [hst]; try exact s3.hn, by rw [hst]; try exact s3.ht, by rw [hst]; try exact s3.hi,
      a6.trans (hbl.trans s3.blen), rfl, fun j _ => by rw [hst], by rw [hst]; try exact hslen,
      by rw [hst]; try exact hsplen, by rw [hst]; try exact hsIn, by rw [hst]; try exact hspIn, by rw [hst]; try exact hgs, ?_,
      by rw [hst]; try exact ho4.trans e3.sown, by rw [hst]; simp only; rw [e3.A], by rw [hst]; try exact e3.ga,
      by rw [hst]; try exact e3.vi, by rw [hst]; try exact e3.yi, by rw [hst]; try exact e3.z, by rw [hst]; try exact e3'.aik,
      by rw [hst], by rw [hst]⟩
    rw [hst]
    intro j hjq
    simp only at hjq ⊢
    have hjn : j < n := List.mem_range.mp (List.mem_filter.mp hjq).1
    have hjcm : j ∉ cm := by
      have := (List.mem_filter.mp hjq).2
      simpa using this
    have hrs := ag_getI_InR G.q hq s1 hsIn j
    have hrsp := ag_getI_InR G.q hq sp1 hspIn j
    by_cases hji : j = i
    · subst hji
      rw [ho4, e3.sown, hop4, e3'.spown, (s3.CH j hi).1]
      obtain ⟨ha, hb, hla, hlb⟩ := ag_coef_range (G := G) t (pinOf ins j) (S.hc j hi)
      obtain ⟨ga, l, r, e1, e2, e3''⟩ := share_check hG _ _ (hla.trans hlb.symm) ha hb _
        (ag_comOf_spec hG t (pinOf ins j) (S.hc j hi)).1 (j + 1)
      exact kg_Eq4_of_S hG j _ _ _ (ag_sh_range hG t _ j).2.2.1 (ag_sh_range hG t _ j).2.2.2
        ⟨ga, l, r, e1, e2, e3''⟩
    · rcases e3'.opn j hjn with hS | hcp
      · have hinv := kg_genResolveGo_inv P3.st (List.range P3.st.n) j (getI P3.st.s j) (getI P3.st.sp j)
          P3.inbox P3.st.s P3.st.sp P3.st.compl _ _ _ _ (e3.slen.trans e3'.splen.symm) hgo (Or.inl ⟨rfl, rfl⟩)
        rw [s3.hi] at hinv
        rcases hinv with ⟨e1, e2⟩ | hF
        · rw [e1, e2]
          rw [e1] at hrs
          rw [e2] at hrsp
          exact kg_Eq4_of_S hG i _ _ _ hrs hrsp hS
        · exact kg_Eq4_of_F hG i _ _ _ hrs hrsp hF
      · have hF := genResolveGo_share_valid G P3.st (List.range P3.st.n) List.nodup_range P3.inbox P3.st.s
          P3.st.sp P3.st.compl _ _ _ _ (e3.slen.trans e3'.splen.symm) hgo j
          (by rw [s3.hn]; exact List.mem_range.mpr hjn) (by rw [s3.hi]; exact hji) (by rw [e3.slen]; exact hjn)
          hjcm (by rw [s3.hi]; exact hcp)
        rw [s3.hi] at hF
        exact kg_Eq4_of_F hG i _ _ _ hrs hrsp hF
  · rw [hout, hops, a1, hst4]
    simp only [ag_bcs_map_bc, ag_pvs_map_bc]
  · intro k hk
    rw [a8 k (by rw [hbl, s3.blen]; exact hk), hbs k]
    simp only [s3.hn, s3.ht, s3.hi, List.mem_range, hk, true_and]

/-- the configuration after round 3: `Q` is the common QUAL, `Cc` the common commitment rows -/
structure K4 (G : Grp) [Fact (Nat.Prime G.p.natAbs)] (n t : Nat) (ins : List PartyIn) (Q : List Nat)
    (Cc : Nat → List Int) (R : List (Party GenSt)) : Prop where
  len : R.length = n
  party : ∀ i, i ∈ honestIdx ins → ∃ P, R[i]? = some P ∧ T4a G n t ins Q Cc i P ∧
    ∀ j, j ∈ honestIdx ins → j ≠ i → ∀ ga', gaList G (coefA t (pinOf ins j)) = .ok ga' →
      bsOf P.inbox j = ga'.map (fun v => ((none : Tag), v))
  ag : Ag n ins R
  qnd : Q.Nodup
  qlt : ∀ j ∈ Q, j < n
  qh : ∀ j, j ∈ honestIdx ins → j ∈ Q
  ch : ∀ j, j ∈ honestIdx ins → Cc j = comOf G t (pinOf ins j)

theorem kg_round3 {n t : Nat} {ins : List PartyIn} (S : SetupK G n t ins) :
    ∃ Q Cc, K4 G n t ins Q Cc (cfgGen G n t ins 4) := by
  have hG := S.hG
  have : Fact (Nat.Prime G.q.natAbs) := fact_q hG
  obtain ⟨hHl, hHnd, hHlt⟩ := kg_honest_nonempty S
  obtain ⟨i0, hi0⟩ : ∃ i0, i0 ∈ honestIdx ins := by
    cases hH : honestIdx ins with
    | nil => rw [hH] at hHl; simp at hHl
    | cons a l => exact ⟨a, by simp⟩
  have hparty : ∀ i, i ∈ honestIdx ins → ∃ P3 P4, (cfgGen G n t ins 3)[i]? = some P3 ∧ S3 G n t ins i P3 ∧
      (cfgGen G n t ins 4)[i]? = some P4 ∧
      T4a G n t ins P4.st.qual (fun j => getRow P3.st.C j) i P4 ∧
      (∀ j, j ∈ honestIdx ins → j ∈ P4.st.qual) ∧
      (∃ p : Nat → Bool, P4.st.qual = (List.range n).filter p) ∧
      outOf (genStep G ins n t 3) (cfgGen G n t ins 3) i = (P4.st.ga.map (fun v => ((none : Tag), v)), []) ∧
      (∀ k, k < n → bsOf P4.inbox k =
        (if ¬ t < getN P3.st.cnt k ∧ k ≠ i then raRest G n (getRow P3.st.C k) (bsOf P3.inbox k)
          else bsOf P3.inbox k) ++
        (if k = i then [] else (outOf (genStep G ins n t 3) (cfgGen G n t ins 3) k).1)) := by
    intro i hi
    obtain ⟨-, P3, hP3, s3, e3, e3'⟩ := kg_R3 S i hi
    obtain ⟨P4, hP4, h1, h2, h3, h4, h5⟩ := kg_round3_party S i hi P3 hP3 s3 e3 e3'
    exact ⟨P3, P4, hP3, s3, hP4, h1, h2, h3, h4, h5⟩
  obtain ⟨I3, -⟩ := kg_R3 S i0 hi0
  have I4 := ag_round3 S.setting _ I3
  have h4 := cfgGen_succ (G := G) n t ins 3
  rw [← h4] at I4
  obtain ⟨hlen3, hS3, hAg3, hX3⟩ := I3
  obtain ⟨P30, P40, hP30, s30, hP40, t40, qh0, ⟨p0, hp0⟩, out0, inb0⟩ := hparty i0 hi0
  refine ⟨P40.st.qual, fun j => getRow P30.st.C j, ?_⟩
  have hrows : ∀ i, i ∈ honestIdx ins → ∀ P3, (cfgGen G n t ins 3)[i]? = some P3 → S3 G n t ins i P3 →
      ∀ j, j < n → getRow P3.st.C j = getRow P30.st.C j := by
    intro i hi P3 hP3 s3 j hj
    by_cases hii : i = i0
    · subst hii
      rw [Option.some.inj (hP3.symm.trans hP30)]
    · by_cases hjh : j ∈ honestIdx ins
      · rw [(s3.CH j hjh).1, (s30.CH j hjh).1]
      · have hji : j ≠ i := fun e => hjh (e ▸ hi)
        have hji0 : j ≠ i0 := fun e => hjh (e ▸ hi0)
        exact ((hX3 i i0 P3 P30 hi hi0 hP3 hP30 hii).1 j hj hji hji0).1
  have hqlt : ∀ j ∈ P40.st.qual, j < n := fun j hj => by
    rw [hp0] at hj
    exact List.mem_range.mp (List.mem_filter.mp hj).1
  refine ⟨by rw [cfgGen_length n t ins S.hn], ?_, ?_, by rw [hp0]; exact List.Nodup.filter _ List.nodup_range,
    hqlt, qh0, fun j hj => (s30.CH j hj).1⟩
  · intro i hi
    obtain ⟨P3, P4, hP3, s3, hP4, t4, qh, -, out, inb⟩ := hparty i hi
    have hq : P4.st.qual = P40.st.qual := I4.2 i i0 P4 P40 hi hi0 hP4 hP40
    refine ⟨P4, hP4, t4.congr hq (fun j hj => hrows i hi P3 hP3 s3 j hj) (by rw [hq]; exact hqlt), ?_⟩
    intro j hj hji ga' hga'
    obtain ⟨hj1, -⟩ := (ag_mem_honestIdx ins j).mp hj
    rw [S.hn] at hj1
    obtain ⟨P3j, P4j, hP3j, s3j, hP4j, t4j, -, -, outj, -⟩ := hparty j hj
    have hgaeq : P4j.st.ga = ga' := by
      have := t4j.ga
      rw [hga'] at this
      exact (Except.ok.inj this).symm
    obtain ⟨cfs, cl, cx, hstream⟩ := kg_stream3 S i j hi hj hji P3 hP3
    obtain ⟨ha, hb', hla, hlb⟩ := ag_coef_range (G := G) t (pinOf ins j) (S.hc j hj)
    have hra := ag_raS_honest (G := G) n S.hn64 (comOf G t (pinOf ins j)) (shA G t (pinOf ins j))
      (shB G t (pinOf ins j)) cfs (n + 1) (by omega) (by
        intro it hit
        obtain ⟨l, r, e1, e2, e3⟩ := share_check_F hG _ _ (hla.trans hlb.symm) ha hb' _
          (ag_comOf_spec hG t (pinOf ins j) (S.hc j hj)).1 (it + 1)
        exact ⟨cx it hit, (ag_sh_range hG t _ it).1, (ag_sh_range hG t _ it).2.1, l, e1, by rw [e2, e3]⟩)
    have hcnt : ¬ t < getN P3.st.cnt j := by
      have := (s3.CH j hj).2.1
      omega
    rw [inb j hj1, (s3.CH j hj).1, hstream]
    simp only [hcnt, not_false_eq_true, hji, ne_eq, and_self, if_true, if_false, raRest, hra, List.nil_append, outj,
      hgaeq]
  · intro i i' P P' hi hi' hP hP' k hk hki hki'
    obtain ⟨P3, P4, hP3, s3, hP4, t4, -, -, out, inb⟩ := hparty i hi
    obtain ⟨Q3, Q4, hQ3, q3, hQ4, u4, -, -, out', inb'⟩ := hparty i' hi'
    have e1 : P4 = P := Option.some.inj (hP4.symm.trans hP)
    have e2 : Q4 = P' := Option.some.inj (hQ4.symm.trans hP')
    subst e1 e2
    by_cases hii : i = i'
    · subst hii
      rw [Option.some.inj (hP4.symm.trans hQ4)]
    · obtain ⟨x1, x2, -⟩ := hX3 i i' P3 Q3 hi hi' hP3 hQ3 hii
      rw [inb k hk, inb' k hk, (x1 k hk hki hki').1, x2 k hk, hAg3 i i' P3 Q3 hi hi' hP3 hQ3 k hk hki hki']
      simp [hki, hki']

end Tmcg.DkgP
