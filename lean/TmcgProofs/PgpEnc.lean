import Tmcg.Model.PgpEnc
import TmcgProofs.Pgp
import TmcgProofs.PgpMsg
/-
  C19, packet encoders (area `pgpenc`): for every packet type of Tmcg/Model/PgpEnc.lean
    * the encoder output is `tag octet ‖ shortest length of exactly the body ‖ body` (`*_header`),
    * `packetDecode (encode p ++ rest) = some (p, rest)` for every well-formed `p` (`*_roundtrip`;
      well-formedness is a decidable predicate, a concrete packet satisfies it),
    * the octets that are fingerprinted determine the key body (`fprFrame_injective`), the key id is
      the specified eight octets of the fingerprint (`keyid_v4`, `keyid_v5`),
    * a hashed subpacket area is read back as the subpackets it was made of (`area_roundtrip`), in
      particular those of the `PacketSigPrepare*` family (`prep*_subs`).
-/
set_option linter.unusedSimpArgs false
set_option linter.unusedVariables false

namespace Tmcg.PgpEnc
open Tmcg.Pgp Tmcg.PgpMsg

/-! ### MPIs off the front of a body -/

theorem mpiEncode_length (v : Nat) : (mpiEncode v).length = 2 + (nbits v + 7) / 8 := by
  simp [mpiEncode, length_toBE]; omega

theorem nbits_pos {v : Nat} (h : v ≠ 0) : 1 ≤ nbits v := by
  unfold nbits; rw [if_neg h]; omega

theorem mpiEncode_length_le (v : Nat) (hv : v < 2 ^ 65535) : (mpiEncode v).length ≤ 8194 := by
  have hb : nbits v ≤ 65535 := (nbits_le_iff v 65535).2 hv
  rw [mpiEncode_length]; omega

theorem takeMpi_encode (strict secure : Bool) (v : Nat) (hv : v < 2 ^ 65535)
    (h0 : (strict = true ∨ secure = true) → v ≠ 0) (rest : Octets) (sum : Nat) :
    takeMpi strict secure (mpiEncode v ++ rest) sum = some (v, rest, sumOctets sum (mpiEncode v)) := by
  have hb : nbits v ≤ 65535 := (nbits_le_iff v 65535).2 hv
  unfold takeMpi
  have c1 : ¬ (strict = true ∧ (mpiEncode v ++ rest).length ≤ 2) := by
    rintro ⟨hs, hl⟩
    have := nbits_pos (h0 (Or.inl hs))
    simp [mpiEncode_length] at hl; omega
  have c2 : ¬ (secure = true ∧
      ((mpiEncode v ++ rest).headD 0 * 256 + (mpiEncode v ++ rest).getD 1 0 + 7) / 8 = 0) := by
    rintro ⟨hs, hl⟩
    have := nbits_pos (h0 (Or.inr hs))
    simp [mpiEncode] at hl; omega
  rw [if_neg c1, if_neg c2, mpi_roundtrip v hv rest sum]
  simp only
  rw [if_neg (by rw [mpiEncode_length]; omega)]
  simp

/-- all values fit the two-octet bit count -/
def MpisOk (vs : List Nat) : Prop := ∀ v ∈ vs, v < 2 ^ 65535
/-- none is zero -/
def MpisNz (vs : List Nat) : Prop := ∀ v ∈ vs, v ≠ 0

instance (vs : List Nat) : Decidable (MpisOk vs) := by unfold MpisOk; infer_instance
instance (vs : List Nat) : Decidable (MpisNz vs) := by unfold MpisNz; infer_instance

theorem mpisEncode_cons (v : Nat) (vs : List Nat) : mpisEncode (v :: vs) = mpiEncode v ++ mpisEncode vs := by
  simp [mpisEncode]

theorem takeMpis_encode (strict secure : Bool) (vs : List Nat) (hv : MpisOk vs)
    (h0 : (strict = true ∨ secure = true) → MpisNz vs) (rest : Octets) (sum : Nat) :
    takeMpis strict secure vs.length (mpisEncode vs ++ rest) sum =
      some (vs, rest, sumOctets sum (mpisEncode vs)) := by
  induction vs generalizing sum with
  | nil => simp [takeMpis, mpisEncode, sumOctets]
  | cons v vs ih =>
    have hv' : MpisOk vs := fun x hx => hv x (List.mem_cons_of_mem _ hx)
    have h0' : (strict = true ∨ secure = true) → MpisNz vs := fun h x hx => h0 h x (List.mem_cons_of_mem _ hx)
    rw [List.length_cons, takeMpis, mpisEncode_cons, List.append_assoc,
      takeMpi_encode strict secure v (hv v List.mem_cons_self) (fun h => h0 h v List.mem_cons_self)]
    simp only
    rw [ih hv' h0']
    simp only [sumOctets_append]

theorem mpisEncode_length_le (vs : List Nat) (hv : MpisOk vs) : (mpisEncode vs).length ≤ 8194 * vs.length := by
  induction vs with
  | nil => simp [mpisEncode]
  | cons v vs ih =>
    have hv' : MpisOk vs := fun x hx => hv x (List.mem_cons_of_mem _ hx)
    have := mpiEncode_length_le v (hv v List.mem_cons_self)
    rw [mpisEncode_cons, List.length_append, List.length_cons]
    have := ih hv'
    omega

/-! ### framing -/

theorem tag_facts : ∀ t, t < 64 → ((t ||| 0xC0) % 256) / 128 % 2 = 1 ∧ ((t ||| 0xC0) % 256) / 64 % 2 = 1 ∧
    ((t ||| 0xC0) % 256) % 64 = t := by decide

/-- a packet made by `packet` is split off and handed to the decoder of its tag, whatever follows -/
theorem packetDecodeE_packet (tag : Nat) (ht : tag < 64) (body rest : Octets) (hl : body.length < 2 ^ 32) :
    packetDecodeE (packet tag body ++ rest) =
      match decodeBody ⟨tag, true, body⟩ with
      | .ok pk => .ok (pk, rest)
      | .error e => .error e := by
  obtain ⟨h7, h6, hm⟩ := tag_facts tag ht
  unfold packetDecodeE packet packetTagEncode
  simp only [List.append_assoc, List.cons_append, List.nil_append]
  rw [packetSplit_newformat _ body rest h7 h6 hl]
  simp only [hm]
  rfl

theorem packetDecode_packet (tag : Nat) (ht : tag < 64) (body rest : Octets) (hl : body.length < 2 ^ 32)
    (pk : Packet) (h : decodeBody ⟨tag, true, body⟩ = .ok pk) :
    packetDecode (packet tag body ++ rest) = some (pk, rest) := by
  unfold packetDecode
  rw [packetDecodeE_packet tag ht body rest hl, h]

/-- **header**: tag octet, then the length of exactly the body in the shortest of the three forms
    (one octet below 192, two below 8384, five otherwise — `Tmcg.Pgp.len_encode_form`), then the body -/
theorem packet_header (tag : Nat) (body : Octets) :
    packet tag body = packetTagEncode tag ++ packetLengthEncode body.length ++ body := rfl

theorem pubEncode_header (k : PubKey) :
    pubEncode k = packetTagEncode k.tag ++ packetLengthEncode (pubBody k).length ++ pubBody k := rfl
theorem secEncode_header (k : SecKey) :
    secEncode k = packetTagEncode k.tag ++ packetLengthEncode (secBody k).length ++ secBody k := rfl
theorem pkeskEncode_header (p : Pkesk) :
    pkeskEncode p = packetTagEncode 1 ++ packetLengthEncode (pkeskBody p).length ++ pkeskBody p := rfl
theorem sigEncode_header (s : Sig) :
    sigEncode s = packetTagEncode 2 ++ packetLengthEncode (sigBody s).length ++ sigBody s := rfl
theorem uidEncode_header (u : Octets) :
    uidEncode u = packetTagEncode 13 ++ packetLengthEncode u.length ++ u := rfl
theorem litEncode_header (t : Nat) (d : Octets) :
    litEncode t d = packetTagEncode 11 ++ packetLengthEncode (litBody 0x62 [] t d).length ++ litBody 0x62 [] t d := rfl
theorem sedEncode_header (e : Octets) :
    sedEncode e = packetTagEncode 9 ++ packetLengthEncode e.length ++ e := rfl
theorem seipdEncode_header (e : Octets) :
    seipdEncode e = packetTagEncode 18 ++ packetLengthEncode ([1] ++ e).length ++ ([1] ++ e) := rfl
theorem aeadEncode_header (sk ae cs : Nat) (iv e : Octets) :
    aeadEncode sk ae cs iv e = packetTagEncode 20 ++
      packetLengthEncode ([1, sk % 256, ae % 256, cs % 256] ++ iv ++ e).length ++ ([1, sk % 256, ae % 256, cs % 256] ++ iv ++ e) := rfl
/-- the MDC packet is a packet in this sense exactly for a 20-octet hash -/
theorem mdcEncode_header (h : Octets) (hl : h.length = 20) :
    mdcEncode h = packetTagEncode 19 ++ packetLengthEncode h.length ++ h := by
  simp [mdcEncode, hl, packetLengthEncode]

/-- the encoders of this file agree with the ones stated for `MessageParse` in Tmcg/Model/PgpMsg.lean -/
theorem sedEncode_eq (e : Octets) : sedEncode e = sedPacket e := rfl
theorem seipdEncode_eq (e : Octets) : seipdEncode e = seipdPacket e := by
  simp [seipdEncode, seipdPacket, packet, Nat.add_comm]
theorem aeadEncode_eq (sk ae cs : Nat) (iv e : Octets) (h1 : sk < 256) (h2 : ae < 256) (h3 : cs < 256) :
    aeadEncode sk ae cs iv e = aeadPacket sk ae cs iv e := by
  have e1 : ([1, sk, ae, cs] ++ (iv ++ e)).length = 4 + iv.length + e.length := by simp; omega
  simp only [aeadEncode, aeadPacket, packet, Nat.mod_eq_of_lt h1, Nat.mod_eq_of_lt h2, Nat.mod_eq_of_lt h3,
    List.append_assoc, e1]

/-! ### round trips: data packets, user id -/

theorem uid_roundtrip (u rest : Octets) (hl : u.length < 2 ^ 32) :
    packetDecode (uidEncode u ++ rest) = some (.uid u, rest) :=
  packetDecode_packet 13 (by omega) u rest hl _ rfl

theorem sed_roundtrip (e rest : Octets) (hl : e.length < 2 ^ 32) (hne : e ≠ []) :
    packetDecode (sedEncode e ++ rest) = some (.sed e, rest) :=
  packetDecode_packet 9 (by omega) e rest hl _ (by simp [decodeBody, hne])

theorem seipd_roundtrip (e rest : Octets) (hl : e.length + 1 < 2 ^ 32) (hne : e ≠ []) :
    packetDecode (seipdEncode e ++ rest) = some (.seipd e, rest) := by
  refine packetDecode_packet 18 (by omega) ([1] ++ e) rest (by simp; omega) _ ?_
  have : 0 < e.length := List.length_pos_of_ne_nil hne
  simp only [decodeBody, List.length_append, List.length_cons, List.length_nil]
  rw [if_neg (by omega)]
  simp

theorem mdc_roundtrip (h rest : Octets) (hl : h.length = 20) :
    packetDecode (mdcEncode h ++ rest) = some (.mdc h, rest) := by
  rw [mdcEncode_header h hl]
  exact packetDecode_packet 19 (by omega) h rest (by omega) _ (by simp [decodeBody, hl])

theorem fromBE_time (t : Nat) (ht : t < 2 ^ 32) : fromBE (timeEncode t) = t := by
  simp [fromBE, timeEncode, scalarFourEncode]; omega

theorem lit_roundtrip (t : Nat) (d rest : Octets) (ht : t < 2 ^ 32) (hl : d.length + 6 < 2 ^ 32) :
    packetDecode (litEncode t d ++ rest) = some (.lit 0x62 [] t d, rest) := by
  have e : fromBE [t / 16777216 % 256, t / 65536 % 256, t / 256 % 256, t % 256] = t := by
    have := fromBE_time t ht; simpa [timeEncode, scalarFourEncode] using this
  refine packetDecode_packet 11 (by omega) _ rest ?_ _ ?_
  · simp [litBody, timeEncode, scalarFourEncode]; omega
  · simp only [decodeBody, litDecode, litBody, timeEncode, scalarFourEncode, List.length_nil, Nat.zero_mod,
      List.append_nil, List.cons_append, List.nil_append, List.length_cons, List.getD_cons_succ, List.getD_cons_zero,
      List.headD_cons, Nat.zero_add]
    rw [if_neg (by omega), if_neg (by omega)]
    simp [e]

theorem drop4 {α} (n : Nat) (a b c d : α) (l : List α) : List.drop (4 + n) (a :: b :: c :: d :: l) = List.drop n l := by
  rw [Nat.add_comm]; rfl

theorem aead_roundtrip (sk ae cs : Nat) (iv e rest : Octets) (h1 : sk < 256) (h2 : ae < 256) (h3 : cs < 256)
    (hiv : iv.length = aeadIvLength ae) (hne : e ≠ []) (hl : 4 + iv.length + e.length < 2 ^ 32) :
    packetDecode (aeadEncode sk ae cs iv e ++ rest) = some (.aead sk ae cs iv e, rest) := by
  have hp : 0 < e.length := List.length_pos_of_ne_nil hne
  refine packetDecode_packet 20 (by omega) _ rest ?_ _ ?_
  · simp; omega
  · simp only [decodeBody, Nat.mod_eq_of_lt h1, Nat.mod_eq_of_lt h2, Nat.mod_eq_of_lt h3, List.cons_append,
      List.nil_append, List.length_cons, List.length_append, List.getD_cons_succ, List.getD_cons_zero, List.headD_cons,
      ← hiv]
    rw [if_neg (by omega), if_neg (by omega), if_neg (by omega), if_neg (by omega)]
    simp [drop4]

/-! ### key material -/

/-- well-formed key material: MPIs below 2^65535, a curve OID of 1 … 254 octets, KDF parameters
    that are octets -/
def KeyMat.wf : KeyMat → Prop
  | .rsa n e => MpisOk [n, e]
  | .elg p g y => MpisOk [p, g, y]
  | .dsa p q g y => MpisOk [p, q, g, y]
  | .ec oid q => 1 ≤ oid.length ∧ oid.length ≤ 254 ∧ MpisOk [q]
  | .ecdh oid q h s => 1 ≤ oid.length ∧ oid.length ≤ 254 ∧ MpisOk [q] ∧ h < 256 ∧ s < 256

instance (m : KeyMat) : Decidable m.wf := by
  cases m <;> unfold KeyMat.wf <;> infer_instance

theorem mpis2 (a b : Nat) : mpiEncode a ++ mpiEncode b = mpisEncode [a, b] := by simp [mpisEncode]
theorem mpis3 (a b c : Nat) : mpiEncode a ++ mpiEncode b ++ mpiEncode c = mpisEncode [a, b, c] := by simp [mpisEncode]
theorem mpis4 (a b c d : Nat) : mpiEncode a ++ mpiEncode b ++ mpiEncode c ++ mpiEncode d = mpisEncode [a, b, c, d] := by
  simp [mpisEncode]

theorem ecDecode_encode (oid : Octets) (q : Nat) (tail : Octets) (h1 : 1 ≤ oid.length) (h2 : oid.length ≤ 254)
    (hq : MpisOk [q]) :
    ecDecode ([oid.length % 256] ++ oid ++ mpiEncode q ++ tail) = some (oid, q, tail) := by
  unfold ecDecode
  have hm : oid.length % 256 = oid.length := Nat.mod_eq_of_lt (by omega)
  simp only [hm, List.cons_append, List.nil_append, List.headD_cons, List.append_assoc]
  rw [if_neg (by rintro (h | h | h) <;> first | omega | exact absurd h (by simp)), if_neg (by simp only [List.length_cons, List.length_append]; omega)]
  have e1 : List.drop (1 + oid.length) (oid.length :: (oid ++ (mpiEncode q ++ tail))) = mpiEncode q ++ tail := by
    rw [Nat.add_comm, List.drop_succ_cons, List.drop_left]
  rw [e1, takeMpi_encode false false q (hq q (by simp)) (by simp) tail 0]
  simp

theorem matDecode_encode (algo : Nat) (exact : Bool) (other : Nat) (m : KeyMat) (hw : m.wf)
    (ha : m.algoOk algo = true) (rest : Octets)
    (hr : ∀ oid q h s, m = .ecdh oid q h s → exact = true → rest = []) :
    matDecode algo exact other (m.encode ++ rest) = .ok (m, rest) := by
  cases m with
  | rsa n e =>
    simp only [KeyMat.algoOk, Bool.or_eq_true, decide_eq_true_eq] at ha
    unfold matDecode
    rw [if_pos (by omega)]
    simp only [KeyMat.encode, mpis2]
    rw [show (2 : Nat) = [n, e].length from rfl, takeMpis_encode false false [n, e] hw (by simp) rest 0]
  | elg p g y =>
    simp only [KeyMat.algoOk, decide_eq_true_eq] at ha
    unfold matDecode
    rw [if_neg (by simp [ha, PK_ELG, PK_RSA, PK_RSA_E, PK_RSA_S]), if_pos ha]
    simp only [KeyMat.encode, mpis3]
    rw [show (3 : Nat) = [p, g, y].length from rfl, takeMpis_encode false false [p, g, y] hw (by simp) rest 0]
  | dsa p q g y =>
    simp only [KeyMat.algoOk, decide_eq_true_eq] at ha
    unfold matDecode
    rw [if_neg (by simp [ha, PK_DSA, PK_RSA, PK_RSA_E, PK_RSA_S]), if_neg (by simp [ha, PK_DSA, PK_ELG]), if_pos ha]
    simp only [KeyMat.encode, mpis4]
    rw [show (4 : Nat) = [p, q, g, y].length from rfl, takeMpis_encode false false [p, q, g, y] hw (by simp) rest 0]
  | ec oid q =>
    simp only [KeyMat.algoOk, Bool.or_eq_true, decide_eq_true_eq] at ha
    obtain ⟨h1, h2, hq⟩ := hw
    unfold matDecode
    rw [if_neg (by rcases ha with ha | ha <;> simp [ha, PK_ECDSA, PK_EDDSA, PK_RSA, PK_RSA_E, PK_RSA_S]),
      if_neg (by rcases ha with ha | ha <;> simp [ha, PK_ECDSA, PK_EDDSA, PK_ELG]),
      if_neg (by rcases ha with ha | ha <;> simp [ha, PK_ECDSA, PK_EDDSA, PK_DSA]), if_pos ha]
    simp only [KeyMat.encode]
    rw [ecDecode_encode oid q rest h1 h2 hq]
  | ecdh oid q h s =>
    simp only [KeyMat.algoOk, decide_eq_true_eq] at ha
    obtain ⟨h1, h2, hq, hh, hs⟩ := hw
    unfold matDecode
    rw [if_neg (by simp [ha, PK_ECDH, PK_RSA, PK_RSA_E, PK_RSA_S]), if_neg (by simp [ha, PK_ECDH, PK_ELG]),
      if_neg (by simp [ha, PK_ECDH, PK_DSA]), if_neg (by simp [ha, PK_ECDH, PK_ECDSA, PK_EDDSA]), if_pos ha]
    simp only [KeyMat.encode, List.append_assoc]
    rw [← List.append_assoc [oid.length % 256] oid, ← List.append_assoc ([oid.length % 256] ++ oid),
      ecDecode_encode oid q _ h1 h2 hq]
    simp only [Nat.mod_eq_of_lt hh, Nat.mod_eq_of_lt hs, List.cons_append, List.nil_append, List.length_cons,
      List.headD_cons, List.getD_cons_succ, List.getD_cons_zero]
    cases exact with
    | true =>
      have := hr oid q h s rfl rfl
      subst this
      simp
    | false =>
      simp

theorem KeyMat.encode_length_le (m : KeyMat) (hw : m.wf) : m.encode.length ≤ 32776 := by
  cases m with
  | rsa n e => have := mpisEncode_length_le [n, e] hw; simp only [KeyMat.encode, mpis2]; simp at this; omega
  | elg p g y => have := mpisEncode_length_le [p, g, y] hw; simp only [KeyMat.encode, mpis3]; simp at this; omega
  | dsa p q g y => have := mpisEncode_length_le [p, q, g, y] hw; simp only [KeyMat.encode, mpis4]; simp at this; omega
  | ec oid q =>
    obtain ⟨h1, h2, hq⟩ := hw
    have := mpiEncode_length_le q (hq q (by simp))
    simp only [KeyMat.encode, List.length_append, List.length_cons, List.length_nil]; omega
  | ecdh oid q h s =>
    obtain ⟨h1, h2, hq, _, _⟩ := hw
    have := mpiEncode_length_le q (hq q (by simp))
    simp only [KeyMat.encode, List.length_append, List.length_cons, List.length_nil]; omega

theorem KeyMat.encode_length_ge (m : KeyMat) (hw : m.wf) : 4 ≤ m.encode.length := by
  cases m with
  | rsa n e => simp only [KeyMat.encode, List.length_append, mpiEncode_length]; omega
  | elg p g y => simp only [KeyMat.encode, List.length_append, mpiEncode_length]; omega
  | dsa p q g y => simp only [KeyMat.encode, List.length_append, mpiEncode_length]; omega
  | ec oid q =>
    obtain ⟨h1, h2, hq⟩ := hw
    simp only [KeyMat.encode, List.length_append, mpiEncode_length, List.length_cons, List.length_nil]; omega
  | ecdh oid q h s =>
    obtain ⟨h1, h2, hq, _, _⟩ := hw
    simp only [KeyMat.encode, List.length_append, mpiEncode_length, List.length_cons, List.length_nil]; omega

/-- well-formed public key packet: tag 6 or 14, version 4 or 5, a 32-bit time, an algorithm octet
    that goes with the material, well-formed material -/
def PubKey.wf (k : PubKey) : Prop :=
  (k.tag = 6 ∨ k.tag = 14) ∧ (k.ver = 4 ∨ k.ver = 5) ∧ k.time < 2 ^ 32 ∧ k.algo < 256 ∧
    k.mat.algoOk k.algo = true ∧ k.mat.wf

instance (k : PubKey) : Decidable k.wf := by unfold PubKey.wf; infer_instance

theorem time_octets (t : Nat) (ht : t < 2 ^ 32) :
    fromBE [t / 16777216 % 256, t / 65536 % 256, t / 256 % 256, t % 256] = t := by
  have := fromBE_time t ht; simpa [timeEncode, scalarFourEncode] using this

theorem pub_roundtrip (k : PubKey) (hw : k.wf) (rest : Octets) :
    packetDecode (pubEncode k ++ rest) = some (.pub k, rest) := by
  obtain ⟨tag, ver, time, algo, mat⟩ := k
  obtain ⟨htag, hver, ht, ha, hok, hm⟩ := hw
  simp only at htag hver ht ha hok hm
  have hlen := KeyMat.encode_length_le mat hm
  have hge := KeyMat.encode_length_ge mat hm
  have hdec := matDecode_encode algo true 0xFD mat hm hok [] (fun _ _ _ _ _ _ => rfl)
  rw [List.append_nil] at hdec
  have et := time_octets time ht
  have hmod := Nat.mod_eq_of_lt ha
  unfold pubEncode
  refine packetDecode_packet tag (by omega) _ rest ?_ _ ?_
  · rcases hver with hv | hv <;> subst hv <;>
      simp [pubBody, timeEncode, scalarFourEncode] <;> omega
  · have hd : decodeBody ⟨tag, true, pubBody ⟨tag, ver, time, algo, mat⟩⟩ =
        pubDecode tag (pubBody ⟨tag, ver, time, algo, mat⟩) := by
      rcases htag with h | h <;> subst h <;> rfl
    rw [hd]
    rcases hver with hv | hv <;> subst hv
    · simp only [pubDecode, pubBody, timeEncode, scalarFourEncode, hmod, List.cons_append, List.nil_append,
        List.length_cons, List.headD_cons, List.getD_cons_succ, List.getD_cons_zero, if_neg (show ¬ (4 = 5) by omega)]
      rw [if_neg (by omega), if_neg (by omega)]
      simp only [if_true, List.drop_succ_cons, List.drop_zero, hdec, List.take_succ_cons, List.take_zero, et]
    · simp only [pubDecode, pubBody, timeEncode, scalarFourEncode, hmod, List.cons_append, List.nil_append,
        List.length_cons, List.headD_cons, List.getD_cons_succ, List.getD_cons_zero, if_true]
      rw [if_neg (by omega), if_neg (by omega)]
      simp only [if_neg (show ¬ (5 = 4) by omega), List.drop_succ_cons, List.drop_zero, hdec, List.take_succ_cons,
        List.take_zero, et]

theorem sumOctets_lt (s : Nat) (hs : s < 65536) (l : Octets) : sumOctets s l < 65536 := by
  induction l generalizing s with
  | nil => simpa [sumOctets] using hs
  | cons b l ih =>
    have : sumOctets s (b :: l) = sumOctets ((s + b) % 65536) l := rfl
    rw [this]; exact ih _ (Nat.mod_lt _ (by omega))

/-- well-formed unprotected secret key packet: as for public keys, plus the right number of secret
    MPIs for the algorithm, each below 2^65535 and none zero (the decoder works on secure memory and
    cannot take an empty magnitude) -/
def SecKey.wf (k : SecKey) : Prop :=
  (k.tag = 5 ∨ k.tag = 7) ∧ k.time < 2 ^ 32 ∧ k.algo < 256 ∧ k.mat.algoOk k.algo = true ∧ k.mat.wf ∧
    k.secret.length = secretCount k.algo ∧ MpisOk k.secret ∧ MpisNz k.secret

instance (k : SecKey) : Decidable k.wf := by unfold SecKey.wf; infer_instance

theorem secretCount_le (algo : Nat) : secretCount algo ≤ 4 := by unfold secretCount; split <;> omega

theorem sec_roundtrip (k : SecKey) (hw : k.wf) (rest : Octets) :
    packetDecode (secEncode k ++ rest) = some (.sec k, rest) := by
  obtain ⟨tag, time, algo, mat, secret⟩ := k
  obtain ⟨htag, ht, ha, hok, hm, hcnt, hsok, hsnz⟩ := hw
  simp only at htag ht ha hok hm hcnt hsok hsnz
  have hlen := KeyMat.encode_length_le mat hm
  have hge := KeyMat.encode_length_ge mat hm
  have hslen := mpisEncode_length_le secret hsok
  have hc4 := secretCount_le algo
  set m := mpisEncode secret with hmdef
  set c := sumOctets 0 m with hcdef
  have hclt : c < 65536 := sumOctets_lt 0 (by omega) m
  have hdec := matDecode_encode algo false 0 mat hm hok (secretPlain secret) (fun _ _ _ _ _ h => by simp at h)
  have et := time_octets time ht
  have hmod := Nat.mod_eq_of_lt ha
  have htake := takeMpis_encode false true secret hsok (fun _ => hsnz) [c / 256 % 256, c % 256] 0
  rw [hcnt, ← hmdef, ← hcdef] at htake
  unfold secEncode
  refine packetDecode_packet tag (by omega) _ rest ?_ _ ?_
  · simp [secBody, secretPlain, timeEncode, scalarFourEncode, ← hmdef]; omega
  · have hd : decodeBody ⟨tag, true, secBody ⟨tag, time, algo, mat, secret⟩⟩ =
        secDecode tag (secBody ⟨tag, time, algo, mat, secret⟩) := by
      rcases htag with h | h <;> subst h <;> rfl
    rw [hd]
    simp only [secDecode, secBody, timeEncode, scalarFourEncode, hmod, List.cons_append, List.nil_append,
      List.length_cons, List.headD_cons, List.getD_cons_succ, List.getD_cons_zero, List.length_append]
    rw [if_neg (by omega), if_neg (by omega), if_neg (by omega)]
    simp only [List.drop_succ_cons, List.drop_zero, hdec]
    simp only [secretPlain, ← hmdef, ← hcdef, List.cons_append, List.nil_append, if_true, htake,
      List.length_cons, List.length_nil, List.headD_cons, List.getD_cons_succ, List.getD_cons_zero]
    rw [if_neg (by omega), if_neg (by omega)]
    simp only [List.take_succ_cons, List.take_zero, et]

/-- well-formed protection fields: octets, an 8-octet salt, an IV of the cipher's block size, at
    least four octets of cipher text -/
def Protection.wf (p : Protection) : Prop :=
  p.skalgo < 256 ∧ p.s2kHash < 256 ∧ p.count < 256 ∧ p.salt.length = 8 ∧ p.iv.length = blockLength p.skalgo ∧
    4 ≤ p.ct.length ∧ p.ct.length < 2 ^ 31

instance (p : Protection) : Decidable p.wf := by unfold Protection.wf; infer_instance

theorem blockLength_le (a : Nat) : blockLength a ≤ 16 := by
  unfold blockLength; split <;> omega

theorem secProt_roundtrip (tag time algo : Nat) (mat : KeyMat) (p : Protection) (htag : tag = 5 ∨ tag = 7)
    (ht : time < 2 ^ 32) (ha : algo < 256) (hok : mat.algoOk algo = true) (hm : mat.wf) (hp : p.wf) (rest : Octets) :
    packetDecode (packet tag (secProtBody time algo mat p) ++ rest) = some (.secProt tag time algo mat p, rest) := by
  obtain ⟨sk, hash, salt, count, iv, ct⟩ := p
  obtain ⟨h1, h2, h3, hs, hiv, hc4, hcl⟩ := hp
  simp only at h1 h2 h3 hs hiv hc4 hcl
  have hlen := KeyMat.encode_length_le mat hm
  have hge := KeyMat.encode_length_ge mat hm
  have hb := blockLength_le sk
  have hdec := matDecode_encode algo false 0 mat hm hok (protEncode ⟨sk, hash, salt, count, iv, ct⟩)
    (fun _ _ _ _ _ h => by simp at h)
  have et := time_octets time ht
  have hmod := Nat.mod_eq_of_lt ha
  refine packetDecode_packet tag (by omega) _ rest ?_ _ ?_
  · simp [secProtBody, protEncode, timeEncode, scalarFourEncode]; omega
  · have hd : decodeBody ⟨tag, true, secProtBody time algo mat ⟨sk, hash, salt, count, iv, ct⟩⟩ =
        secDecode tag (secProtBody time algo mat ⟨sk, hash, salt, count, iv, ct⟩) := by
      rcases htag with h | h <;> subst h <;> rfl
    rw [hd]
    simp only [secDecode, secProtBody, timeEncode, scalarFourEncode, hmod, List.cons_append, List.nil_append,
      List.length_cons, List.headD_cons, List.getD_cons_succ, List.getD_cons_zero, List.length_append]
    rw [if_neg (by omega), if_neg (by omega), if_neg (by omega)]
    simp only [List.drop_succ_cons, List.drop_zero, hdec]
    simp only [protEncode, Nat.mod_eq_of_lt h1, Nat.mod_eq_of_lt h2, Nat.mod_eq_of_lt h3, List.cons_append,
      List.nil_append, List.append_assoc, if_neg (show ¬ (254 = 0) by omega), if_true, List.length_cons,
      List.length_append, List.length_nil, List.headD_cons, List.getD_cons_succ, List.getD_cons_zero,
      List.drop_succ_cons, List.drop_zero]
    rw [if_neg (by omega), if_neg (by simp), if_neg (by omega)]
    have e9 : List.drop 9 (salt ++ (count :: (iv ++ ct))) = iv ++ ct := by
      rw [show (9 : Nat) = salt.length + 1 from by omega, ← List.drop_drop, List.drop_left]; rfl
    have e8 : List.take 8 (salt ++ (count :: (iv ++ ct))) = salt := by
      rw [← hs, List.take_left]
    have eg : (salt ++ (count :: (iv ++ ct))).getD 8 0 = count := by
      rw [← hs]; simp
    rw [e9, e8, eg, ← hiv]
    rw [if_neg (by simp), if_neg (by simp; omega)]
    simp [et]

/-- well-formed session key packet: an 8-octet key id; RSA (1, 2) one MPI, Elgamal (16) two, no
    wrapped key; ECDH (18) one MPI and a wrapped key of 2 … 254 octets; MPIs below 2^65535 and not
    zero; a body of at least 16 octets (smaller ones the decoder refuses) -/
def Pkesk.wf (p : Pkesk) : Prop :=
  p.keyid.length = 8 ∧
  (((p.algo = 1 ∨ p.algo = 2) ∧ p.mpis.length = 1 ∧ p.rkw = []) ∨ (p.algo = 16 ∧ p.mpis.length = 2 ∧ p.rkw = []) ∨
    (p.algo = 18 ∧ p.mpis.length = 1 ∧ 2 ≤ p.rkw.length ∧ p.rkw.length ≤ 254)) ∧
  MpisOk p.mpis ∧ MpisNz p.mpis ∧ 16 ≤ (pkeskBody p).length

instance (p : Pkesk) : Decidable p.wf := by unfold Pkesk.wf; infer_instance

theorem drop9 (keyid : Octets) (a : Nat) (X : Octets) (h : keyid.length = 8) :
    List.drop 9 (keyid ++ a :: X) = X := by
  rw [show (9 : Nat) = keyid.length + 1 from by omega, ← List.drop_drop, List.drop_left]; rfl

theorem take8 (keyid X : Octets) (h : keyid.length = 8) : List.take 8 (keyid ++ X) = keyid := by
  rw [← h, List.take_left]

theorem getD8 (keyid : Octets) (a : Nat) (X : Octets) (h : keyid.length = 8) : (keyid ++ a :: X).getD 8 0 = a := by
  rw [← h]; simp

theorem pkesk_roundtrip (p : Pkesk) (hw : p.wf) (rest : Octets) :
    packetDecode (pkeskEncode p ++ rest) = some (.pkesk p, rest) := by
  obtain ⟨keyid, algo, mpis, rkw⟩ := p
  obtain ⟨hk, halg, hok, hnz, h16⟩ := hw
  simp only at hk halg hok hnz h16
  have hml := mpisEncode_length_le mpis hok
  have ha : algo < 256 := by rcases halg with ⟨h | h, _⟩ | ⟨h, _⟩ | ⟨h, _⟩ <;> omega
  have hmod := Nat.mod_eq_of_lt ha
  unfold pkeskEncode
  refine packetDecode_packet 1 (by omega) _ rest ?_ _ ?_
  · have : mpis.length ≤ 2 := by rcases halg with ⟨_, h, _⟩ | ⟨_, h, _⟩ | ⟨_, h, _⟩ <;> omega
    have : rkw.length ≤ 254 := by rcases halg with ⟨_, _, h⟩ | ⟨_, _, h⟩ | ⟨_, _, _, h⟩ <;> simp_all
    simp only [pkeskBody, List.length_append, List.length_cons, List.length_nil, hk]
    split <;> simp <;> omega
  · show pkeskDecode (pkeskBody ⟨keyid, algo, mpis, rkw⟩) = _
    unfold pkeskDecode
    rw [if_neg (by omega)]
    simp only [pkeskBody, hmod, List.cons_append, List.nil_append, List.append_assoc, List.headD_cons,
      List.getD_cons_succ, List.drop_succ_cons, List.drop_zero, take8 _ _ hk, getD8 _ _ _ hk, drop9 _ _ _ hk, if_neg (show ¬ (3 ≠ 3) by simp)]
    rcases halg with ⟨h | h, hl, hr⟩ | ⟨h, hl, hr⟩ | ⟨h, hl, h2, h254⟩
    · subst h; subst hr
      have := takeMpis_encode true false mpis hok (fun _ => hnz) [] 0
      rw [hl, List.append_nil] at this
      simp [PK_RSA, PK_RSA_E, PK_ECDH, this]
    · subst h; subst hr
      have := takeMpis_encode true false mpis hok (fun _ => hnz) [] 0
      rw [hl, List.append_nil] at this
      simp [PK_RSA, PK_RSA_E, PK_ECDH, this]
    · subst h; subst hr
      have := takeMpis_encode true false mpis hok (fun _ => hnz) [] 0
      rw [hl, List.append_nil] at this
      simp [PK_RSA, PK_RSA_E, PK_ELG, PK_ECDH, this]
    · subst h
      have hrm : rkw.length % 256 = rkw.length := Nat.mod_eq_of_lt (by omega)
      have := takeMpis_encode true false mpis hok (fun _ => hnz) (rkw.length :: rkw) 0
      rw [hl] at this
      simp only [PK_RSA, PK_RSA_E, PK_ELG, PK_ECDH, if_true, hrm, List.cons_append, List.nil_append, this,
        if_neg (show ¬ ((18 : Nat) = 1 ∨ (18 : Nat) = 2) by omega), if_neg (show ¬ ((18 : Nat) = 16) by omega),
        List.headD_cons, List.length_cons, List.drop_succ_cons, List.drop_zero]
      rw [if_neg (by omega), if_neg (by omega), if_neg (by omega)]
      simp

/-- the library's subpacket parser accepts the hashed area (no malformed subpacket, no critical
    one it does not know) -/
def areaOk (hspd : Octets) : Bool :=
  match sigFieldsOfAreas hspd [] with
  | .ok _ => true
  | _ => false

/-- well-formed V4 / V5 signature packet: octet fields, a hashed area below 2^16 octets that the
    parser accepts, two octets of the hash, one MPI for RSA (1, 3) and two for DSA, ECDSA, EdDSA
    (17, 19, 22), each below 2^65535 and none zero -/
def Sig.wf (s : Sig) : Prop :=
  (s.ver = 4 ∨ s.ver = 5) ∧ s.type < 256 ∧ s.hash < 256 ∧ s.hspd.length < 65536 ∧ areaOk s.hspd = true ∧
  s.left.length = 2 ∧
  (((s.pk = 1 ∨ s.pk = 3) ∧ s.mpis.length = 1) ∨ ((s.pk = 17 ∨ s.pk = 19 ∨ s.pk = 22) ∧ s.mpis.length = 2)) ∧
  MpisOk s.mpis ∧ MpisNz s.mpis

instance (s : Sig) : Decidable s.wf := by unfold Sig.wf; infer_instance

theorem getD_pre6 (a0 a1 a2 a3 a4 a5 : Nat) (l : Octets) (n : Nat) :
    (a0 :: a1 :: a2 :: a3 :: a4 :: a5 :: l).getD (6 + n) 0 = l.getD n 0 := by
  rw [Nat.add_comm]; simp [List.getD_cons_succ]

theorem getD_pre7 (a0 a1 a2 a3 a4 a5 : Nat) (l : Octets) (n : Nat) :
    (a0 :: a1 :: a2 :: a3 :: a4 :: a5 :: l).getD (7 + n) 0 = l.getD (n + 1) 0 := by
  rw [show 7 + n = 6 + (n + 1) from by omega, getD_pre6]

theorem drop_pre6 (a0 a1 a2 a3 a4 a5 : Nat) (l : Octets) (n : Nat) :
    List.drop (6 + n) (a0 :: a1 :: a2 :: a3 :: a4 :: a5 :: l) = List.drop n l := by
  rw [Nat.add_comm]; rfl

theorem sig_roundtrip (s : Sig) (hw : s.wf) (rest : Octets) :
    packetDecode (sigEncode s ++ rest) = some (.sig s, rest) := by
  obtain ⟨ver, type, pk, hash, hspd, left, mpis⟩ := s
  obtain ⟨hver, hty, hha, hhl, harea, hleft, halg, hok, hnz⟩ := hw
  simp only at hver hty hha hhl harea hleft halg hok hnz
  have hml := mpisEncode_length_le mpis hok
  have hpk : pk < 256 := by rcases halg with ⟨h | h, _⟩ | ⟨h | h | h, _⟩ <;> omega
  have hcnt : mpis.length ≤ 2 := by rcases halg with ⟨_, h⟩ | ⟨_, h⟩ <;> omega
  have hcnt1 : 1 ≤ mpis.length := by rcases halg with ⟨_, h⟩ | ⟨_, h⟩ <;> omega
  have hmlen : 3 ≤ (mpisEncode mpis).length := by
    cases mpis with
    | nil => simp at hcnt1
    | cons v vs =>
      have := nbits_pos (hnz v List.mem_cons_self)
      rw [mpisEncode_cons, List.length_append, mpiEncode_length]; omega
  obtain ⟨f, hf⟩ : ∃ f, sigFieldsOfAreas hspd [] = .ok f := by
    unfold areaOk at harea
    split at harea
    · exact ⟨_, by assumption⟩
    · simp at harea
  have hvm : ver % 256 = ver := Nat.mod_eq_of_lt (by omega)
  have hl : hspd.length / 256 % 256 * 256 + hspd.length % 256 = hspd.length := by omega
  have htake := takeMpis_encode true false mpis hok (fun _ => hnz) [] 0
  rw [List.append_nil] at htake
  unfold sigEncode
  refine packetDecode_packet 2 (by omega) _ rest ?_ _ ?_
  · simp [sigBody, sigBodyRaw, sigHashedPart]; omega
  · show sigDecode (sigBody ⟨ver, type, pk, hash, hspd, left, mpis⟩) = _
    unfold sigDecode
    simp only [sigBody, sigBodyRaw, sigHashedPart, hvm, Nat.mod_eq_of_lt hty, Nat.mod_eq_of_lt hpk,
      Nat.mod_eq_of_lt hha, List.cons_append, List.nil_append, List.append_assoc, List.length_cons,
      List.length_append, List.length_nil, List.headD_cons, List.getD_cons_succ, List.getD_cons_zero, hl,
      getD_pre6, getD_pre7, drop_pre6]
    rw [if_neg (by omega), if_neg (by omega), if_neg (by omega), if_neg (by omega), if_neg (by omega)]
    have e1 : List.take hspd.length (List.drop 6 (ver :: type :: pk :: hash :: (hspd.length / 256 % 256) ::
        (hspd.length % 256) :: (hspd ++ (0 :: 0 :: (left ++ mpisEncode mpis))))) = hspd := by
      simp [List.take_left]
    have e2 : (hspd ++ (0 :: 0 :: (left ++ mpisEncode mpis))).getD hspd.length 0 = 0 := by simp
    have e3 : (hspd ++ (0 :: 0 :: (left ++ mpisEncode mpis))).getD (hspd.length + 1) 0 = 0 := by
      simp [List.getD_eq_getElem?_getD, List.getElem?_append_right]
    rw [e1, hf, e2, e3]
    simp only [Nat.zero_mul, Nat.add_zero, List.take_zero, hf]
    rw [if_neg (by omega), if_neg (by omega), if_neg (by omega)]
    have e4 : List.drop (8 + hspd.length) (ver :: type :: pk :: hash :: (hspd.length / 256 % 256) ::
        (hspd.length % 256) :: (hspd ++ (0 :: 0 :: (left ++ mpisEncode mpis)))) = left ++ mpisEncode mpis := by
      rw [show 8 + hspd.length = 6 + (hspd.length + 2) from by omega, drop_pre6, ← List.drop_drop, List.drop_left]
      rfl
    have e5 : List.drop (10 + hspd.length) (ver :: type :: pk :: hash :: (hspd.length / 256 % 256) ::
        (hspd.length % 256) :: (hspd ++ (0 :: 0 :: (left ++ mpisEncode mpis)))) = mpisEncode mpis := by
      rw [show 10 + hspd.length = (8 + hspd.length) + 2 from by omega, ← List.drop_drop, e4, ← hleft, List.drop_left]
    have e6 : List.take 2 (left ++ mpisEncode mpis) = left := by rw [← hleft, List.take_left]
    rw [e4, e5, e6]
    rcases halg with ⟨h | h, hn⟩ | ⟨h | h | h, hn⟩ <;> subst h <;> rw [hn] at htake <;>
      simp [PK_RSA, PK_RSA_S, PK_DSA, PK_ECDSA, PK_EDDSA, htake]

/-! ### fingerprints and key ids -/

/-- **the fingerprint input determines the key body**: two key bodies with the same octets fed
    to the hash are the same body (the frame is a fixed-length prefix) — for the V4 and the V5 frame -/
theorem fprFrame_injective (ver : Nat) (b1 b2 : Octets) (h : fprFrame ver b1 = fprFrame ver b2) : b1 = b2 := by
  unfold fprFrame at h
  split at h
  · simp only [scalarFourEncode, List.cons_append, List.nil_append, List.cons.injEq] at h
    exact h.2.2.2.2.2
  · simp only [List.cons_append, List.nil_append, List.cons.injEq] at h
    exact h.2.2.2

/-- a V4 frame is never a V5 frame: the first octet tells them apart -/
theorem fprFrame_versions_disjoint (b1 b2 : Octets) : fprFrame 4 b1 ≠ fprFrame 5 b2 := by
  simp [fprFrame]

/-- the frames are what RFC 4880 §12.2 (V4) and 4880bis (V5) prescribe -/
theorem fprFrame_v4 (b : Octets) (h : b.length < 65536) :
    fprFrame 4 b = [0x99] ++ toBE 2 b.length ++ b := by
  simp [fprFrame, toBE]
theorem fprFrame_v5 (b : Octets) : fprFrame 5 b = [0x9A] ++ scalarFourEncode b.length ++ b := by
  simp [fprFrame]

/-- **key id, V4**: the low-order 64 bits — the last eight of the twenty octets -/
theorem keyid_v4 (H : Octets → Octets) (body : Octets) (hH : (H (fprFrame 4 body)).length = 20) :
    fingerprint H 4 body = (fingerprint H 4 body).take 12 ++ keyid H 4 body ∧ (keyid H 4 body).length = 8 := by
  unfold keyid keyidOfFpr fingerprint
  simp only [if_neg (show ¬ (4 = 5) by omega)]
  constructor
  · have e : List.take 8 (List.drop 12 (H (fprFrame 4 body))) = List.drop 12 (H (fprFrame 4 body)) :=
      List.take_of_length_le (by simp [hH])
    rw [e, List.take_append_drop]
  · simp [hH]

/-- **key id, V5**: the high-order 64 bits — the first eight octets -/
theorem keyid_v5 (H : Octets → Octets) (body : Octets) (hH : (H (fprFrame 5 body)).length = 32) :
    fingerprint H 5 body = keyid H 5 body ++ (fingerprint H 5 body).drop 8 ∧ (keyid H 5 body).length = 8 := by
  unfold keyid keyidOfFpr fingerprint
  simp only [if_true]
  constructor
  · rw [List.take_append_drop]
  · simp [hH]

/-- the issuer subpacket the `PacketSigPrepare*` functions derive from a V4 fingerprint is that key id -/
theorem issuerSubs_keyid (crit : Bool) (fpr : Octets) (h : fpr.length = 20) :
    issuerSubs crit fpr = [sp 16 crit (keyidOfFpr 4 fpr)] := by
  simp [issuerSubs, h, keyidOfFpr, List.take_of_length_le]

/-! ### concrete well-formed packets -/

def exampleRsa : PubKey := ⟨6, 4, 1600000000, 1, .rsa 0xC4B7A98F00112233445566778899AABBCCDDEEFF 65537⟩
def exampleEcdh : PubKey := ⟨14, 5, 1600000000, 18, .ecdh [0x2B, 0x06, 0x01, 0x04, 0x01, 0x97, 0x55, 0x01, 0x05, 0x01] 0x40112233 8 7⟩
def exampleSec : SecKey := ⟨5, 1600000000, 17, .dsa 0xFFFFFFFB 0xFFF1 3 0x1234567 , [0xABCD]⟩
def examplePkesk : Pkesk := ⟨[1, 2, 3, 4, 5, 6, 7, 8], 16, [0x1234567890, 0x9876543210], []⟩
def exampleSig : Sig :=
  ⟨4, 0x13, 17, 8, areaEncode (certSubs 1600000000 0 [] (List.replicate 20 7)), [0xAB, 0xCD], [0x1234567, 0x7654321]⟩

set_option exponentiation.threshold 70000
theorem exampleRsa_wf : exampleRsa.wf := by decide +kernel
theorem exampleEcdh_wf : exampleEcdh.wf := by decide +kernel
theorem exampleSec_wf : exampleSec.wf := by decide +kernel
theorem examplePkesk_wf : examplePkesk.wf := by decide +kernel
theorem exampleSig_wf : exampleSig.wf := by decide +kernel

/-! ### subpacket areas -/

/-- a subpacket that can be written: type below 128, length (with the type octet) below 2^32 -/
def SubOk (s : Subpacket) : Prop := s.type < 128 ∧ s.body.length + 1 < 2 ^ 32

instance (s : Subpacket) : Decidable (SubOk s) := by unfold SubOk; infer_instance

theorem typeOctet (s : Subpacket) (h : s.type < 128) :
    (if s.critical then s.type + 128 else s.type) % 128 = s.type ∧
    decide (128 ≤ (if s.critical then s.type + 128 else s.type)) = s.critical := by
  cases hc : s.critical <;> simp <;> omega

theorem drop_len_add {α} (l r : List α) (pre : List α) (k : Nat) (hk : pre.length = k) :
    List.drop (k + l.length) (pre ++ (l ++ r)) = r := by
  rw [← hk, ← List.drop_drop, List.drop_left, List.drop_left]

/-- one subpacket is read back from the front of an area -/
theorem subSplit_encode (s : Subpacket) (hs : SubOk s) (rest : Octets) :
    subSplit (subEncode s ++ rest) = some (s, rest) := by
  obtain ⟨ht, hl⟩ := hs
  obtain ⟨h1, h2⟩ := typeOctet s ht
  obtain ⟨type, crit, body⟩ := s
  simp only at ht hl h1 h2
  set tb := (if crit then type + 128 else type) with htb
  unfold subEncode packetLengthEncode
  simp only [← htb]
  by_cases c1 : body.length + 1 < 192
  · rw [if_pos c1]
    show subSplit ((body.length + 1) :: tb :: (body ++ rest)) = _
    unfold subSplit
    rw [if_neg (by simp)]
    dsimp only [List.headD_cons]
    rw [if_pos c1]
    dsimp only
    rw [if_neg (by omega), if_neg (by simp; omega)]
    have e := drop_len_add body rest [body.length + 1, tb] 2 rfl
    simp only [List.cons_append, List.nil_append] at e
    simp only [show (2 : Nat) - 1 = 1 from rfl, List.getD_cons_succ, List.getD_cons_zero, h1, h2,
      Nat.add_sub_cancel, List.drop_succ_cons, List.drop_zero, List.take_left, e]
  · rw [if_neg c1]
    by_cases c2 : body.length + 1 < 8384
    · rw [if_pos c2]
      show subSplit (((body.length + 1 - 192) / 256 + 192) :: ((body.length + 1 - 192) % 256) :: tb :: (body ++ rest)) = _
      have a1 : ¬ ((body.length + 1 - 192) / 256 + 192 < 192) := by omega
      have a2 : (body.length + 1 - 192) / 256 + 192 < 255 := by omega
      have e0 : ((body.length + 1 - 192) / 256 + 192 - 192) * 256 + (body.length + 1 - 192) % 256 + 192 =
          body.length + 1 := by omega
      unfold subSplit
      rw [if_neg (by simp)]
      dsimp only [List.headD_cons]
      rw [if_neg a1, if_pos a2, if_neg (by simp)]
      simp only [List.getD_cons_succ, List.getD_cons_zero]
      rw [e0, if_neg (by omega), if_neg (by simp; omega)]
      have e := drop_len_add body rest [(body.length + 1 - 192) / 256 + 192, (body.length + 1 - 192) % 256, tb] 3 rfl
      simp only [List.cons_append, List.nil_append] at e
      simp only [show (3 : Nat) - 1 = 2 from rfl, List.getD_cons_succ, List.getD_cons_zero, h1, h2,
        Nat.add_sub_cancel, List.drop_succ_cons, List.drop_zero, List.take_left, e]
    · rw [if_neg c2]
      show subSplit (255 :: ((body.length + 1) / 16777216 % 256) :: ((body.length + 1) / 65536 % 256) ::
        ((body.length + 1) / 256 % 256) :: ((body.length + 1) % 256) :: tb :: (body ++ rest)) = _
      have e0 : fromBE [(body.length + 1) / 16777216 % 256, (body.length + 1) / 65536 % 256,
          (body.length + 1) / 256 % 256, (body.length + 1) % 256] = body.length + 1 := by
        simp [fromBE]; omega
      unfold subSplit
      rw [if_neg (by simp)]
      dsimp only [List.headD_cons]
      rw [if_neg (by omega), if_neg (by omega), if_neg (by simp)]
      simp only [List.drop_succ_cons, List.drop_zero, List.take_succ_cons, List.take_zero]
      rw [e0, if_neg (by omega), if_neg (by simp; omega)]
      have e := drop_len_add body rest [255, (body.length + 1) / 16777216 % 256, (body.length + 1) / 65536 % 256,
          (body.length + 1) / 256 % 256, (body.length + 1) % 256, tb] 6 rfl
      simp only [List.cons_append, List.nil_append] at e
      simp only [show (6 : Nat) - 1 = 5 from rfl, List.getD_cons_succ, List.getD_cons_zero, h1, h2,
        Nat.add_sub_cancel, List.drop_succ_cons, List.drop_zero, List.take_left, e]

theorem subEncode_ne_nil (s : Subpacket) : subEncode s ≠ [] := by
  unfold subEncode packetLengthEncode
  split <;> [skip; split] <;> simp

theorem areaEncode_cons (s : Subpacket) (l : List Subpacket) : areaEncode (s :: l) = subEncode s ++ areaEncode l := by
  simp [areaEncode]

/-- **a hashed area is read back as the subpackets it was made of** -/
theorem area_roundtrip (subs : List Subpacket) (h : ∀ s ∈ subs, SubOk s) (fuel : Nat) (hf : subs.length < fuel) :
    subDecode fuel (areaEncode subs) = some subs := by
  induction subs generalizing fuel with
  | nil =>
    cases fuel with
    | zero => omega
    | succ n => simp [subDecode, areaEncode]
  | cons s l ih =>
    cases fuel with
    | zero => omega
    | succ n =>
      rw [areaEncode_cons, subDecode, if_neg (by simp [subEncode_ne_nil]),
        subSplit_encode s (h s List.mem_cons_self)]
      simp only
      rw [ih (fun x hx => h x (List.mem_cons_of_mem _ hx)) n (by simpa using hf)]
      rfl

theorem subEncode_length_ge (s : Subpacket) : 2 ≤ (subEncode s).length := by
  unfold subEncode packetLengthEncode
  split <;> [skip; split] <;> simp

theorem areaEncode_length_ge (subs : List Subpacket) : subs.length ≤ (areaEncode subs).length := by
  induction subs with
  | nil => simp
  | cons s l ih =>
    have := subEncode_length_ge s
    rw [areaEncode_cons, List.length_append, List.length_cons]; omega

/-! ### the prepared hashed areas are accepted by the library's own parser -/

/-- a subpacket the parser recognises in every context; a notation is not critical -/
def Recognised (s : Subpacket) : Prop :=
  (∀ c, ∃ c', applySub c s = some (c', true)) ∧ (s.type = 20 → s.critical = false)

theorem parseSubs_recognised (subs : List Subpacket) (h : ∀ s ∈ subs, Recognised s) (r0 : AreaResult) :
    ∃ r, parseSubs subs r0 = some r ∧ r.tag = r0.tag := by
  induction subs generalizing r0 with
  | nil => exact ⟨r0, rfl, rfl⟩
  | cons s l ih =>
    obtain ⟨hrec, hnot⟩ := h s List.mem_cons_self
    obtain ⟨c', hc⟩ := hrec r0.ctx
    unfold parseSubs
    rw [hc]
    dsimp only
    rw [if_neg (by simp)]
    have key : ∀ R : AreaResult, R.tag = r0.tag → ∃ r, parseSubs l R = some r ∧ r.tag = r0.tag := fun R hR => by
      obtain ⟨r, hr, ht⟩ := ih (fun x hx => h x (List.mem_cons_of_mem _ hx)) R
      exact ⟨r, hr, ht.trans hR⟩
    apply key
    by_cases h20 : s.type = 20
    · have := hnot h20
      simp only [this, Bool.false_eq_true, if_false]
      split_ifs <;> rfl
    · simp only [h20, false_and, if_false]
      split_ifs <;> rfl

/-- the whole check: an area made of recognised subpackets is accepted -/
theorem areaOk_of_recognised (subs : List Subpacket) (h1 : ∀ s ∈ subs, SubOk s) (h2 : ∀ s ∈ subs, Recognised s) :
    areaOk (areaEncode subs) = true := by
  unfold areaOk sigFieldsOfAreas
  rw [area_roundtrip subs h1 _ (by have := areaEncode_length_ge subs; omega)]
  have e0 : subDecode (([] : Octets).length + 1) [] = some [] := by simp [subDecode]
  rw [e0]
  dsimp only
  unfold sigFields
  by_cases hn : subs = []
  · simp [hn]
  · obtain ⟨r, hr, ht⟩ := parseSubs_recognised subs h2 ⟨2, {}, [], [], []⟩
    rw [if_neg hn, hr]
    dsimp only
    rw [if_neg (by rw [ht]; simp)]
    simp

/-- writable and recognised -/
def Fine (s : Subpacket) : Prop := SubOk s ∧ Recognised s
def AllFine (l : List Subpacket) : Prop := ∀ s ∈ l, Fine s

theorem AllFine.nil : AllFine [] := fun _ h => by simp at h
theorem AllFine.cons {s : Subpacket} {l : List Subpacket} (h1 : Fine s) (h2 : AllFine l) : AllFine (s :: l) := by
  intro x hx; rcases List.mem_cons.1 hx with rfl | h; exacts [h1, h2 x h]
theorem AllFine.append {a b : List Subpacket} (h1 : AllFine a) (h2 : AllFine b) : AllFine (a ++ b) := by
  intro x hx; rcases List.mem_append.1 hx with h | h; exacts [h1 x h, h2 x h]
theorem AllFine.single {s : Subpacket} (h : Fine s) : AllFine [s] := AllFine.cons h AllFine.nil
theorem AllFine.ite {c : Prop} [Decidable c] {a b : List Subpacket} (h1 : c → AllFine a) (h2 : ¬ c → AllFine b) :
    AllFine (if c then a else b) := by split_ifs with h; exacts [h1 h, h2 h]

theorem areaOk_of_allFine (subs : List Subpacket) (h : AllFine subs) : areaOk (areaEncode subs) = true :=
  areaOk_of_recognised subs (fun s hs => (h s hs).1) (fun s hs => (h s hs).2)

theorem fine_of (t : Nat) (c : Bool) (b : Octets) (ht : t < 128) (hl : b.length < 4000)
    (hr : ∀ c0, (applySub c0 ⟨t, c, b⟩).map Prod.snd = some true) (h20 : t = 20 → c = false) : Fine (sp t c b) := by
  refine ⟨⟨ht, by show b.length + 1 < 2 ^ 32; omega⟩, fun c0 => ?_, h20⟩
  have := hr c0
  show ∃ c', applySub c0 ⟨t, c, b⟩ = some (c', true)
  cases h : applySub c0 ⟨t, c, b⟩ with
  | none => rw [h] at this; simp at this
  | some p => rw [h] at this; obtain ⟨c', f⟩ := p; simp at this; subst this; exact ⟨c', rfl⟩

theorem length_time (v : Nat) : (timeEncode v).length = 4 := rfl

theorem fine_time (t : Nat) (c : Bool) (v : Nat) (ht : t = 2 ∨ t = 3 ∨ t = 9) : Fine (sp t c (timeEncode v)) := by
  refine fine_of t c _ (by omega) (by rw [length_time]; omega) (fun c0 => ?_) (by omega)
  rcases ht with rfl | rfl | rfl <;> simp [applySub, length_time]

theorem fine_small (t : Nat) (c : Bool) (b : Octets) (ht : t = 11 ∨ t = 21 ∨ t = 22 ∨ t = 27 ∨ t = 30 ∨ t = 34)
    (hl : b.length ≤ 32) : Fine (sp t c b) := by
  refine fine_of t c _ (by omega) (by omega) (fun c0 => ?_) (by omega)
  rcases ht with rfl | rfl | rfl | rfl | rfl | rfl <;> simp [applySub, Nat.not_lt.2 hl]

theorem fine_text (t : Nat) (c : Bool) (b : Octets) (ht : t = 23 ∨ t = 26) (hl : b.length < 2048) : Fine (sp t c b) := by
  refine fine_of t c _ (by omega) (by omega) (fun c0 => ?_) (by omega)
  rcases ht with rfl | rfl <;> simp [applySub, Nat.not_le.2 hl]

theorem fine_issuer (c : Bool) (b : Octets) (hl : b.length = 8) : Fine (sp 16 c b) :=
  fine_of 16 c _ (by omega) (by omega) (fun c0 => by simp [applySub, hl]) (by omega)

theorem fine_fpr4 (issuer : Octets) (hl : issuer.length = 20) : Fine (sp 33 false ([4] ++ issuer)) :=
  fine_of 33 false _ (by omega) (by simp; omega) (fun c0 => by simp [applySub, hl]) (by omega)

theorem fine_fpr5 (issuer : Octets) (hl : issuer.length = 32) : Fine (sp 33 false ([5] ++ issuer)) :=
  fine_of 33 false _ (by omega) (by simp; omega) (fun c0 => by simp [applySub, hl]) (by omega)

theorem fine_revkey (pk2 : Nat) (revoker : Octets) (hl : revoker.length = 20) :
    Fine (sp 12 true ([0x80, pk2 % 256] ++ revoker.take 20)) :=
  fine_of 12 true _ (by omega) (by simp; omega) (fun c0 => by simp [applySub, hl]) (by omega)

theorem fine_reason (rc : Nat) (reason : Octets) (hl : reason.length ≤ 2048) :
    Fine (sp 29 false ([rc % 256] ++ reason)) :=
  fine_of 29 false _ (by omega) (by simp; omega) (fun c0 => by
    have : ¬ (2049 < reason.length + 1) := by omega
    simp [applySub, this]) (by omega)

theorem fine_revocable : Fine (sp 7 true [0]) :=
  fine_of 7 true _ (by omega) (by simp) (fun c0 => by simp [applySub]) (by omega)

theorem fine_target (tpk thash : Nat) (th : Octets) (hl : th.length ≤ 2048) :
    Fine (sp 31 true ([tpk % 256, thash % 256] ++ th)) :=
  fine_of 31 true _ (by omega) (by simp; omega) (fun c0 => by
    have : ¬ (2050 < th.length + 1 + 1) := by omega
    simp [applySub, this]) (by omega)

theorem fine_embedded (b : Octets) (hl : b.length < 4000) : Fine (sp 32 true b) :=
  fine_of 32 true _ (by omega) hl (fun c0 => by simp [applySub]) (by omega)

theorem fine_attested (b : Octets) (hl : b.length < 4000) : Fine (sp 37 true b) :=
  fine_of 37 true _ (by omega) hl (fun c0 => by simp [applySub]) (by omega)

theorem split16 (x : Nat) (h : x < 65536) : x / 256 % 256 * 256 + x % 256 = x := by omega

theorem notation_body_length (n v : Octets) : (notationSub (n, v)).body.length = 8 + (n.length + v.length) := by
  simp only [notationSub, sp, List.cons_append, List.nil_append, List.length_cons, List.length_append]
  omega

theorem fine_notation (nv : Octets × Octets) (h1 : nv.1.length ≤ 1900) (h2 : nv.2.length ≤ 1900) :
    Fine (notationSub nv) := by
  obtain ⟨n, v⟩ := nv
  simp only at h1 h2
  have e1 := split16 n.length (by omega)
  have e2 := split16 v.length (by omega)
  have a1 : ¬ (8 + (n.length + v.length) < 8) := by omega
  have a2 : ¬ (2048 < n.length ∨ 2048 < v.length) := by omega
  have a3 : 8 + (n.length + v.length) = n.length + v.length + 8 := by omega
  show Fine (sp 20 false (notationSub (n, v)).body)
  refine fine_of 20 false _ (by omega) (by rw [notation_body_length]; omega) (fun c0 => ?_) (fun _ => rfl)
  simp only [applySub, notation_body_length]
  simp [notationSub, sp, e1, e2, a1, a2, a3]

theorem allFine_optTime (t v : Nat) (ht : t = 3 ∨ t = 9) : AllFine (optTimeSub t v) := by
  unfold optTimeSub
  exact AllFine.ite (fun _ => AllFine.nil) (fun _ => AllFine.single (fine_time t false v (by omega)))

theorem allFine_issuer (c : Bool) (issuer : Octets) : AllFine (issuerSubs c issuer) := by
  unfold issuerSubs
  refine AllFine.ite (fun h => AllFine.single (fine_issuer c _ (by simp [h]))) (fun _ => ?_)
  exact AllFine.ite (fun h => AllFine.single (fine_issuer c _ h)) (fun _ => AllFine.nil)

theorem allFine_issuerFpr (issuer : Octets) : AllFine (issuerFprSubs issuer) := by
  unfold issuerFprSubs
  exact AllFine.ite (fun h => AllFine.single (fine_fpr4 issuer h)) (fun _ => AllFine.nil)

theorem allFine_policy (p : Octets) (h : p.length < 2048) : AllFine (policySubs p) := by
  unfold policySubs
  exact AllFine.ite (fun _ => AllFine.nil) (fun _ => AllFine.single (fine_text 26 false p (by omega) h))

theorem allFine_prefsHead : AllFine prefsHead :=
  AllFine.single (fine_small 11 false _ (by omega) (by simp))

theorem allFine_prefsTail (flags : Octets) (bis : Bool) (h : flags.length ≤ 32) : AllFine (prefsTail flags bis) := by
  unfold prefsTail
  refine AllFine.cons (fine_small 21 false _ (by omega) (by simp)) (AllFine.cons (fine_small 22 false _ (by omega) (by simp))
    (AllFine.cons (fine_text 23 false _ (by omega) (by simp)) (AllFine.cons (fine_small 27 false _ (by omega) h)
    (AllFine.single (fine_small 30 false _ (by omega) (by simp))))))

theorem allFine_aeadPrefs (bis : Bool) : AllFine (aeadPrefs bis) := by
  unfold aeadPrefs
  exact AllFine.ite (fun _ => AllFine.single (fine_small 34 false _ (by omega) (by simp))) (fun _ => AllFine.nil)

/-- notations of the size the parser takes -/
def NotationsOk (nts : List (Octets × Octets)) : Prop := ∀ nv ∈ nts, nv.1.length ≤ 1900 ∧ nv.2.length ≤ 1900

theorem allFine_notations (nts : List (Octets × Octets)) (h : NotationsOk nts) : AllFine (nts.map notationSub) := by
  intro s hs
  obtain ⟨nv, hnv, rfl⟩ := List.mem_map.1 hs
  exact fine_notation nv (h nv hnv).1 (h nv hnv).2

/-! the nine prepared areas -/

theorem selfSubs_fine (st ke : Nat) (flags issuer : Octets) (bis : Bool) (hf : flags.length ≤ 32) :
    AllFine (selfSubs st ke flags issuer bis) := by
  unfold selfSubs
  exact ((((((AllFine.single (fine_time 2 false st (by omega))).append (allFine_optTime 9 ke (by omega))).append
    allFine_prefsHead).append (allFine_issuer false issuer)).append (allFine_prefsTail flags bis hf)).append
    (allFine_issuerFpr issuer)).append (allFine_aeadPrefs bis)

theorem revokerSubs_fine (st : Nat) (flags issuer : Octets) (pk2 : Nat) (revoker : Octets) (bis : Bool)
    (hf : flags.length ≤ 32) (hr : revoker = [] ∨ revoker.length = 20) :
    AllFine (revokerSubs st flags issuer pk2 revoker bis) := by
  unfold revokerSubs
  refine ((((((AllFine.single (fine_time 2 false st (by omega))).append allFine_prefsHead).append ?_).append
    (allFine_issuer false issuer)).append (allFine_prefsTail flags bis hf)).append
    (allFine_issuerFpr issuer)).append (allFine_aeadPrefs bis)
  refine AllFine.ite (fun _ => AllFine.nil) (fun h => AllFine.single (fine_revkey pk2 revoker ?_))
  rcases hr with h' | h'; exacts [absurd h' h, h']

theorem detachedSubs_fine (st se : Nat) (policy issuer : Octets) (hp : policy.length < 2048) :
    AllFine (detachedSubs st se policy issuer) := by
  unfold detachedSubs
  refine ((((AllFine.single (fine_time 2 false st (by omega))).append (allFine_optTime 3 se (by omega))).append
    (allFine_issuer false issuer)).append (allFine_policy policy hp)).append ?_
  refine AllFine.ite (fun h => AllFine.single (fine_fpr4 issuer h)) (fun _ => ?_)
  exact AllFine.ite (fun h => AllFine.single (fine_fpr5 issuer h)) (fun _ => AllFine.nil)

/-- the V5 variant is accepted when a fingerprint (20 or 32 octets) is passed -/
theorem detachedV5Subs_fine (st se : Nat) (policy fpr : Octets) (hp : policy.length < 2048)
    (hf : fpr.length = 20 ∨ fpr.length = 32) : AllFine (detachedV5Subs st se policy fpr) := by
  unfold detachedV5Subs
  refine (((AllFine.single (fine_time 2 false st (by omega))).append (allFine_optTime 3 se (by omega))).append
    (allFine_policy policy hp)).append (AllFine.single ?_)
  rcases hf with h | h
  · rw [if_pos h]; exact fine_fpr4 fpr h
  · rw [if_neg (by omega), if_pos h]; exact fine_fpr5 fpr h

theorem revocationSubs_fine (st rc : Nat) (reason issuer : Octets) (hr : reason.length ≤ 2048) :
    AllFine (revocationSubs st rc reason issuer) := by
  unfold revocationSubs
  exact (((AllFine.single (fine_time 2 false st (by omega))).append (allFine_issuer false issuer)).append
    (AllFine.single (fine_reason rc reason hr))).append (allFine_issuerFpr issuer)

theorem certSubs_fine (st se : Nat) (policy issuer : Octets) (hp : policy.length < 2048) :
    AllFine (certSubs st se policy issuer) := by
  unfold certSubs
  exact ((((AllFine.single (fine_time 2 false st (by omega))).append (allFine_optTime 3 se (by omega))).append
    (allFine_issuer false issuer)).append (allFine_policy policy hp)).append (allFine_issuerFpr issuer)

theorem timestampSubs_fine (st : Nat) (policy issuer : Octets) (target : Subpacket) (nts : List (Octets × Octets))
    (hp : policy.length < 2048) (hn : NotationsOk nts) (ht : Fine target) :
    AllFine (timestampSubs st policy issuer target nts) := by
  unfold timestampSubs
  exact (((((AllFine.cons (fine_time 2 true st (by omega)) (AllFine.single fine_revocable)).append
    (allFine_issuer true issuer)).append (allFine_notations nts hn)).append (allFine_policy policy hp)).append
    (AllFine.single ht)).append (allFine_issuerFpr issuer)

theorem attestSubs_fine (st : Nat) (policy issuer attested : Octets) (nts : List (Octets × Octets))
    (hp : policy.length < 2048) (hn : NotationsOk nts) (ha : attested.length < 4000) :
    AllFine (attestSubs st policy issuer attested nts) := by
  unfold attestSubs
  exact (((((AllFine.single (fine_time 2 true st (by omega))).append (allFine_issuer true issuer)).append
    (allFine_notations nts hn)).append (allFine_policy policy hp)).append (allFine_issuerFpr issuer)).append
    (AllFine.single (fine_attested attested ha))

/-- **signature packets made from a prepared hashed part are read back**: `PacketSigEncode` on the
    output of a `PacketSigPrepare*` function (`prep* = sigHashedPart … (areaEncode subs)` by
    definition) gives a packet the decoder takes, with the same fields -/
theorem prepared_roundtrip (ver type pk hash : Nat) (subs : List Subpacket) (left : Octets) (mpis : List Nat)
    (rest : Octets) (hfine : AllFine subs) (hlen : (areaEncode subs).length < 65536)
    (hver : ver = 4 ∨ ver = 5) (hty : type < 256) (hha : hash < 256) (hleft : left.length = 2)
    (halg : ((pk = 1 ∨ pk = 3) ∧ mpis.length = 1) ∨ ((pk = 17 ∨ pk = 19 ∨ pk = 22) ∧ mpis.length = 2))
    (hok : MpisOk mpis) (hnz : MpisNz mpis) :
    packetDecode (sigEncodeRaw (sigHashedPart ver type pk hash (areaEncode subs)) left mpis ++ rest) =
      some (.sig ⟨ver, type, pk, hash, areaEncode subs, left, mpis⟩, rest) :=
  sig_roundtrip ⟨ver, type, pk, hash, areaEncode subs, left, mpis⟩
    ⟨hver, hty, hha, hlen, areaOk_of_allFine subs hfine, hleft, halg, hok, hnz⟩ rest

theorem prepSelf_eq (type pk hash st ke : Nat) (flags issuer : Octets) (bis : Bool) :
    prepSelf type pk hash st ke flags issuer bis = sigHashedPart 4 type pk hash (areaEncode (selfSubs st ke flags issuer bis)) := rfl
theorem prepCert_eq (type pk hash st se : Nat) (policy issuer : Octets) :
    prepCert type pk hash st se policy issuer = sigHashedPart 4 type pk hash (areaEncode (certSubs st se policy issuer)) := rfl
theorem prepDetachedV5_eq (type pk hash st se : Nat) (policy fpr : Octets) :
    prepDetachedV5 type pk hash st se policy fpr = sigHashedPart 5 type pk hash (areaEncode (detachedV5Subs st se policy fpr)) := rfl

/-- **header, spelled out**: after the tag octet comes a length in the shortest of the three definite
    forms (never a partial one) that decodes to exactly the number of body octets -/
theorem header_shortest (tag : Nat) (body : Octets) (h : body.length < 2 ^ 32) :
    ∃ a lenrest, packet tag body = packetTagEncode tag ++ (a :: lenrest) ++ body ∧
      lenForm a = (if body.length < 192 then .f1 else if body.length < 8384 then .f2 else .f5) ∧
      packetLengthDecode true 0 ((a :: lenrest) ++ body) = ((a :: lenrest).length, body.length, false) := by
  obtain ⟨a, lr, he, hf⟩ := len_encode_form body.length h
  refine ⟨a, lr, by rw [packet, he], hf, ?_⟩
  rw [← he]
  exact len_roundtrip body.length h body 0

/-- the round trip of the concrete packets -/
theorem exampleRsa_roundtrip (rest : Octets) :
    packetDecode (pubEncode exampleRsa ++ rest) = some (.pub exampleRsa, rest) := pub_roundtrip _ exampleRsa_wf rest
theorem exampleSig_roundtrip (rest : Octets) :
    packetDecode (sigEncode exampleSig ++ rest) = some (.sig exampleSig, rest) := sig_roundtrip _ exampleSig_wf rest

end Tmcg.PgpEnc
