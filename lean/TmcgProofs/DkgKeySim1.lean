import TmcgProofs.DkgKeyArith
/-
  C15, key agreement with reconstruction, part 1: configurations `cfgGen`, arithmetic helpers that do
  not need unit hypotheses, equation (4) as an equation in `ZMod p`, and the fields of an honest
  party's state after round 2 that the invariants of DkgAgree / DkgRunAgree do not record (`Extra2`).
-/
namespace Tmcg.DkgP
open Tmcg Tmcg.Powm Tmcg.Dkg Tmcg.Grp Tmcg.DkgL

variable {G : Dkg.Grp} [Fact (Nat.Prime G.p.natAbs)]

set_option linter.unusedSectionVars false

/-! ### configurations -/

theorem cfgGen_zero (n t : Nat) (ins : List PartyIn) : cfgGen G n t ins 0 = ps0 n t ins := rfl

theorem cfgGen_succ (n t : Nat) (ins : List PartyIn) (r : Nat) :
    cfgGen G n t ins (r + 1) = runRound (genStep G ins n t r) (cfgGen G n t ins r) := by
  unfold cfgGen
  rw [List.range_succ, ag_runRounds_append]
  rfl

theorem cfgGen_length (n t : Nat) (ins : List PartyIn) (hn : ins.length = n) (r : Nat) :
    (cfgGen G n t ins r).length = n := by
  induction r with
  | zero => rw [cfgGen_zero]; exact ag_ps0_length n t ins hn
  | succ r ih => rw [cfgGen_succ, ag_runRound_length, ih]

/-- what occurs in a configuration of the run occurs in the run -/
def OccAt (G : Dkg.Grp) (n t : Nat) (ins : List PartyIn) (R : List (Party GenSt)) : Prop :=
  ∀ k P, R[k]? = some P → k ∈ honestIdx ins → ∀ v : Int,
    (v ∈ P.st.s ∨ v ∈ P.st.sp ∨ v ∈ P.st.srow ∨ v ∈ P.st.sprow ∨
      ∃ j, (∃ tag, (tag, v) ∈ P.inbox.b.getD j []) ∨ v ∈ P.inbox.p.getD j []) → OccursG G n t ins v

theorem occAt_cfg (n t : Nat) (ins : List PartyIn) (r : Nat) : OccAt G n t ins (cfgGen G n t ins r) :=
  fun k P hP hk _ hv => ⟨r, k, P, hP, hk, hv⟩

/-! ### arithmetic without unit hypotheses -/

theorem kg_commitProdFrom_val (hG : ValidGrp G) (x k : Nat) (cs : List Int) (acc : Int)
    (hacc : 0 ≤ acc ∧ acc < G.p) :
    ∃ r, commitProdFrom G.p x k cs acc = .ok r ∧ 0 ≤ r ∧ r < G.p ∧
      cp G r = cp G acc * powProdFrom x k (cs.map (cp G)) := by
  induction cs generalizing k acc with
  | nil => exact ⟨acc, rfl, hacc.1, hacc.2, by simp [powProdFrom]⟩
  | cons c cs ih =>
    obtain ⟨b, hb, hb0, hb1, hbv⟩ := @mpzPowm_nonneg (gGrp G) ‹Fact (Nat.Prime G.p.natAbs)› hG.vg c
      ((x : Int) ^ k) (by positivity)
    have hb' : mpzPowm c ((x : Int) ^ k) G.p = .ok b := hb
    have hbv' : cp G b = cp G c ^ ((x : Int) ^ k).toNat := hbv
    obtain ⟨r, hr, hr0, hr1, hrv⟩ := ih (k + 1) (acc * b % G.p) (p_bounds hG _)
    refine ⟨r, ?_, hr0, hr1, ?_⟩
    · simp only [commitProdFrom, hb']
      exact hr
    · have hn : ((x : Int) ^ k).toNat = x ^ k := by rw [← Nat.cast_pow, Int.toNat_natCast]
      rw [hrv, cp_emod hG, cp_mul, hbv', hn]
      simp only [List.map_cons, powProdFrom]
      ring

theorem kg_commitProd_val (hG : ValidGrp G) (x : Nat) (cs : List Int) :
    ∃ r, commitProd G.p x cs = .ok r ∧ 0 ≤ r ∧ r < G.p ∧ cp G r = powProdFrom x 0 (cs.map (cp G)) := by
  have h1 : (1 : Int) < G.p := pl_one_lt_p hG
  obtain ⟨r, hr, hr0, hr1, hrv⟩ := kg_commitProdFrom_val hG x 0 cs 1 ⟨by norm_num, h1⟩
  exact ⟨r, hr, hr0, hr1, by rw [hrv, cp_one, one_mul]⟩

theorem kg_cp_zero (G : Dkg.Grp) : cp G 0 = 0 := by
  unfold cp; push_cast; rfl

/-- a row with an entry `0` has product `0` -/
theorem kg_powProd_zero (x k : Nat) (cs : List (Fp G)) (h : (0 : Fp G) ∈ cs) (hx : 0 < x) :
    powProdFrom x k cs = 0 := by
  induction cs generalizing k with
  | nil => cases h
  | cons c cs ih =>
    simp only [powProdFrom]
    rcases List.mem_cons.mp h with e | e
    · rw [← e, zero_pow (by positivity), zero_mul]
    · rw [ih (k + 1) e, mul_zero]

/-- equation (4) in `ZMod p` -/
def Eq4 (G : Dkg.Grp) [Fact (Nat.Prime G.p.natAbs)] (m : Nat) (row : List Int) (s s' : Int) : Prop :=
  cp G G.g ^ s * cp G G.h ^ s' = powProdFrom (m + 1) 0 (row.map (cp G))

theorem kg_Eq4_of_S (hG : ValidGrp G) (m : Nat) (row : List Int) (s s' : Int)
    (hs : s.natAbs < G.q.natAbs) (hs' : s'.natAbs < G.q.natAbs) (h : Eq4S G m row s s') : Eq4 G m row s s' := by
  obtain ⟨a, l, r, h1, h2, h3⟩ := h
  obtain ⟨a', l', h1', -, -, -, -, -, hlv⟩ := pedS_val hG s s' hs hs'
  obtain ⟨r', h2', -, -, hrv⟩ := kg_commitProd_val hG (m + 1) row
  rw [h1] at h1'
  rw [h2] at h2'
  simp only [Except.ok.injEq, Prod.mk.injEq] at h1' h2'
  obtain ⟨-, rfl⟩ := h1'
  subst h2'
  unfold Eq4
  rw [← hlv, ← hrv, h3]

theorem kg_Eq4_of_F (hG : ValidGrp G) (m : Nat) (row : List Int) (s s' : Int)
    (hs : s.natAbs < G.q.natAbs) (hs' : s'.natAbs < G.q.natAbs) (h : Eq4F G m row s s') : Eq4 G m row s s' := by
  obtain ⟨l, r, h1, h2, h3⟩ := h
  obtain ⟨l', h1', -, -, hlv⟩ := pedF_val hG s s' hs hs'
  obtain ⟨r', h2', -, -, hrv⟩ := kg_commitProd_val hG (m + 1) row
  rw [h1] at h1'
  rw [h2] at h2'
  simp only [Except.ok.injEq] at h1' h2'
  subst h1' h2'
  unfold Eq4
  rw [← hlv, ← hrv, h3]

/-- conversely: an opening passes the test of the public phase -/
theorem kg_pedF_of_Eq4 (hG : ValidGrp G) (m : Nat) (row : List Int) (s s' : Int)
    (hs : s.natAbs < G.q.natAbs) (hs' : s'.natAbs < G.q.natAbs) (h : Eq4 G m row s s') :
    ∃ l, pedF G s s' = .ok l ∧ commitProd G.p (m + 1) row = .ok l := by
  obtain ⟨l, h1, hl0, hl1, hlv⟩ := pedF_val hG s s' hs hs'
  obtain ⟨r, h2, hr0, hr1, hrv⟩ := kg_commitProd_val hG (m + 1) row
  refine ⟨l, h1, ?_⟩
  rw [h2, cp_inj hG ⟨hr0, hr1⟩ ⟨hl0, hl1⟩ (by rw [hlv, hrv]; exact h.symm)]

/-- a generic way to carry a property of the state over a round -/
theorem kg_track (steps : Nat → Step GenSt) (R : List (Party GenSt)) (i : Nat) (P P' : Party GenSt)
    (hP : R[i]? = some P) (hP' : (runRound steps R)[i]? = some P') (Pr : GenSt → Prop)
    (hkeep : ∀ st' I' ops s, steps i P.st P.inbox = .ok (st', I', ops, s) → Pr st') (h0 : Pr P.st) :
    Pr P'.st := by
  obtain ⟨P1, hP1, hd⟩ := ag_runRound_party steps R i P hP
  rw [hP'] at hP1
  injection hP1 with hP1
  subst hP1
  rw [hd.st]
  rcases ag_stepParty_st R.length (steps i) P with h | ⟨I, ops, status, h⟩
  · rw [h]; exact h0
  · exact hkeep _ _ _ _ h

end Tmcg.DkgP
