import TmcgProofs.DkgKeyArith
/-
  C15, key agreement with reconstruction, part 1: configurations `cfgGen`, arithmetic helpers that do
  not need unit hypotheses, equation (4) as an equation in `ZMod p`, and the fields of an honest
  party's state after round 2 that the invariants of DkgAgree / DkgRunAgree do not record (`Extra2`).
-/
namespace Tmcg.DkgP
open Tmcg Tmcg.Powm Tmcg.Dkg Tmcg.Grp Tmcg.DkgL

variable {G : Dkg.Grp} [Fact (Nat.Prime G.p.natAbs)]

set_option linter.unusedSectionVars false

/-! ### configurations -/

theorem cfgGen_zero (n t : Nat) (ins : List PartyIn) : cfgGen G n t ins 0 = ps0 n t ins := rfl

theorem cfgGen_succ (n t : Nat) (ins : List PartyIn) (r : Nat) :
    cfgGen G n t ins (r + 1) = runRound (genStep G ins n t r) (cfgGen G n t ins r) := by
  unfold cfgGen
  rw [List.range_succ, ag_runRounds_append]
  rfl

theorem cfgGen_length (n t : Nat) (ins : List PartyIn) (hn : ins.length = n) (r : Nat) :
    (cfgGen G n t ins r).length = n := by
  induction r with
  | zero => rw [cfgGen_zero]; exact ag_ps0_length n t ins hn
  | succ r ih => rw [cfgGen_succ, ag_runRound_length, ih]

/-- what occurs in a configuration of the run occurs in the run -/
def OccAt (G : Dkg.Grp) (n t : Nat) (ins : List PartyIn) (R : List (Party GenSt)) : Prop :=
  ∀ k P, R[k]? = some P → k ∈ honestIdx ins → ∀ v : Int,
    (v ∈ P.st.s ∨ v ∈ P.st.sp ∨ v ∈ P.st.srow ∨ v ∈ P.st.sprow ∨
      ∃ j, (∃ tag, (tag, v) ∈ P.inbox.b.getD j []) ∨ v ∈ P.inbox.p.getD j []) → OccursG G n t ins v

theorem occAt_cfg (n t : Nat) (ins : List PartyIn) (r : Nat) : OccAt G n t ins (cfgGen G n t ins r) :=
  fun k P hP hk _ hv => ⟨r, k, P, hP, hk, hv⟩

/-! ### arithmetic without unit hypotheses -/

theorem kg_commitProdFrom_val (hG : ValidGrp G) (x k : Nat) (cs : List Int) (acc : Int)
    (hacc : 0 ≤ acc ∧ acc < G.p) :
    ∃ r, commitProdFrom G.p x k cs acc = .ok r ∧ 0 ≤ r ∧ r < G.p ∧
      cp G r = cp G acc * powProdFrom x k (cs.map (cp G)) := by
  induction cs generalizing k acc with
  | nil => exact ⟨acc, rfl, hacc.1, hacc.2, by simp [powProdFrom]⟩
  | cons c cs ih =>
    obtain ⟨b, hb, hb0, hb1, hbv⟩ := @mpzPowm_nonneg (gGrp G) ‹Fact (Nat.Prime G.p.natAbs)› hG.vg c
      ((x : Int) ^ k) (by positivity)
    have hb' : mpzPowm c ((x : Int) ^ k) G.p = .ok b := hb
    have hbv' : cp G b = cp G c ^ ((x : Int) ^ k).toNat := hbv
    obtain ⟨r, hr, hr0, hr1, hrv⟩ := ih (k + 1) (acc * b % G.p) (p_bounds hG _)
    refine ⟨r, ?_, hr0, hr1, ?_⟩
    · simp only [commitProdFrom, hb']
      exact hr
    · have hn : ((x : Int) ^ k).toNat = x ^ k := by rw [← Nat.cast_pow, Int.toNat_natCast]
      rw [hrv, cp_emod hG, cp_mul, hbv', hn]
      simp only [List.map_cons, powProdFrom]
      ring

theorem kg_commitProd_val (hG : ValidGrp G) (x : Nat) (cs : List Int) :
    ∃ r, commitProd G.p x cs = .ok r ∧ 0 ≤ r ∧ r < G.p ∧ cp G r = powProdFrom x 0 (cs.map (cp G)) := by
  have h1 : (1 : Int) < G.p := pl_one_lt_p hG
  obtain ⟨r, hr, hr0, hr1, hrv⟩ := kg_commitProdFrom_val hG x 0 cs 1 ⟨by norm_num, h1⟩
  exact ⟨r, hr, hr0, hr1, by rw [hrv, cp_one, one_mul]⟩

theorem kg_cp_zero (G : Dkg.Grp) : cp G 0 = 0 := by
  unfold cp; push_cast; rfl

/-- a row with an entry `0` has product `0` -/
theorem kg_powProd_zero (x k : Nat) (cs : List (Fp G)) (h : (0 : Fp G) ∈ cs) (hx : 0 < x) :
    powProdFrom x k cs = 0 := by
  induction cs generalizing k with
  | nil => cases h
  | cons c cs ih =>
    simp only [powProdFrom]
    rcases List.mem_cons.mp h with e | e
    · rw [← e, zero_pow (by positivity), zero_mul]
    · rw [ih (k + 1) e, mul_zero]

/-- equation (4) in `ZMod p` -/
def Eq4 (G : Dkg.Grp) [Fact (Nat.Prime G.p.natAbs)] (m : Nat) (row : List Int) (s s' : Int) : Prop :=
  cp G G.g ^ s * cp G G.h ^ s' = powProdFrom (m + 1) 0 (row.map (cp G))

theorem kg_Eq4_of_S (hG : ValidGrp G) (m : Nat) (row : List Int) (s s' : Int)
    (hs : s.natAbs < G.q.natAbs) (hs' : s'.natAbs < G.q.natAbs) (h : Eq4S G m row s s') : Eq4 G m row s s' := by
  obtain ⟨a, l, r, h1, h2, h3⟩ := h
  obtain ⟨a', l', h1', -, -, -, -, -, hlv⟩ := pedS_val hG s s' hs hs'
  obtain ⟨r', h2', -, -, hrv⟩ := kg_commitProd_val hG (m + 1) row
  rw [h1] at h1'
  rw [h2] at h2'
  simp only [Except.ok.injEq, Prod.mk.injEq] at h1' h2'
  obtain ⟨-, rfl⟩ := h1'
  subst h2'
  unfold Eq4
  rw [← hlv, ← hrv, h3]

theorem kg_Eq4_of_F (hG : ValidGrp G) (m : Nat) (row : List Int) (s s' : Int)
    (hs : s.natAbs < G.q.natAbs) (hs' : s'.natAbs < G.q.natAbs) (h : Eq4F G m row s s') : Eq4 G m row s s' := by
  obtain ⟨l, r, h1, h2, h3⟩ := h
  obtain ⟨l', h1', -, -, hlv⟩ := pedF_val hG s s' hs hs'
  obtain ⟨r', h2', -, -, hrv⟩ := kg_commitProd_val hG (m + 1) row
  rw [h1] at h1'
  rw [h2] at h2'
  simp only [Except.ok.injEq] at h1' h2'
  subst h1' h2'
  unfold Eq4
  rw [← hlv, ← hrv, h3]

/-- conversely: an opening passes the test of the public phase -/
theorem kg_pedF_of_Eq4 (hG : ValidGrp G) (m : Nat) (row : List Int) (s s' : Int)
    (hs : s.natAbs < G.q.natAbs) (hs' : s'.natAbs < G.q.natAbs) (h : Eq4 G m row s s') :
    ∃ l, pedF G s s' = .ok l ∧ commitProd G.p (m + 1) row = .ok l := by
  obtain ⟨l, h1, hl0, hl1, hlv⟩ := pedF_val hG s s' hs hs'
  obtain ⟨r, h2, hr0, hr1, hrv⟩ := kg_commitProd_val hG (m + 1) row
  refine ⟨l, h1, ?_⟩
  rw [h2, cp_inj hG ⟨hr0, hr1⟩ ⟨hl0, hl1⟩ (by rw [hlv, hrv]; exact h.symm)]

/-- a generic way to carry a property of the state over a round -/
theorem kg_track (steps : Nat → Step GenSt) (R : List (Party GenSt)) (i : Nat) (P P' : Party GenSt)
    (hP : R[i]? = some P) (hP' : (runRound steps R)[i]? = some P') (Pr : GenSt → Prop)
    (hkeep : ∀ st' I' ops s, steps i P.st P.inbox = .ok (st', I', ops, s) → Pr st') (h0 : Pr P.st) :
    Pr P'.st := by
  obtain ⟨P1, hP1, hd⟩ := ag_runRound_party steps R i P hP
  rw [hP'] at hP1
  injection hP1 with hP1
  subst hP1
  rw [hd.st]
  rcases ag_stepParty_st R.length (steps i) P with h | ⟨I, ops, status, h⟩
  · rw [h]; exact h0
  · exact hkeep _ _ _ _ h

/-! ### more fields of an honest party's state after rounds 0, 1, 2 -/

theorem kg_genDeal_aik (n t i : Nat) (sfb : Bool) (strong : List Int) (weak : List Nat) (st : GenSt)
    (ops : List Op) (s : Status) (h : genDeal G n t i sfb strong weak = .ok (st, ops, s)) :
    st.aik = zeroRows n t ∧ st.complainers = [] := by
  unfold genDeal at h
  by_cases hlen : strong.length < 2 * (t + 1)
  · simp [hlen, throw, throwThe, MonadExceptOf.throw, bind, Except.bind] at h
  · simp only [hlen, if_false] at h
    obtain ⟨ga, hga, h⟩ := ag_bind_ok _ _ _ h
    obtain ⟨hb, -, h⟩ := ag_bind_ok _ _ _ h
    simp only [pure, Except.pure, Except.ok.injEq, Prod.mk.injEq] at h
    obtain ⟨rfl, _, _⟩ := h
    exact ⟨rfl, rfl⟩

theorem kg_genReadShares_sp (q : Int) (hq : 0 < q) (st : GenSt) (L : List Nat) (I : Inbox) (s sp : List Int)
    (cm : List Nat) :
    (genReadShares q st L I s sp cm).2.2.1.length = sp.length ∧
    getI (genReadShares q st L I s sp cm).2.2.1 st.i = getI sp st.i ∧
    (InR q sp → InR q (genReadShares q st L I s sp cm).2.2.1) := by
  induction L generalizing I s sp cm with
  | nil => simp [genReadShares]
  | cons j rest ih =>
    unfold genReadShares
    by_cases hji : j = st.i
    · simp only [hji, if_true]
      exact ih _ _ _ _
    · simp only [hji, if_false]
      rcases I.popP j with ⟨_ | v, I1⟩
      · exact ih _ _ _ _
      · simp only [ag_ite_pair]
        rcases I1.popP j with ⟨_ | w, I2⟩
        · exact ih _ _ _ _
        · simp only
          obtain ⟨a1, a2, a3⟩ := ih I2 (s.set j (if absGe v q = true then 0 else v))
            (sp.set j (if absGe w q = true then 0 else w))
            (if (absGe v q || absGe w q) = true then cm ++ [j] else cm)
          exact ⟨a1.trans (by simp), a2.trans (getI_set_ne _ _ _ _ (Ne.symm hji)),
            fun h => a3 (ag_InR_set q sp j _ h (ag_absGe_range q hq w))⟩

/-- fields after round 2 (and round 1) not recorded elsewhere -/
structure Extra2 (G : Grp) (n t : Nat) (ins : List PartyIn) (i : Nat) (st : GenSt) : Prop where
  splen : st.sp.length = n
  spIn : InR G.q st.sp
  spown : getI st.sp i = shB G t (pinOf ins i) i
  opn : ∀ j, j < n → Eq4S G i (getRow st.C j) (getI st.s j) (getI st.sp j) ∨ i ∈ st.complainers.getD j []
  cplen : st.complainers.length = n
  aik : st.aik = zeroRows n t

theorem kg_genVerify_extra2 (hq : 0 < G.q) (n t : Nat) (ins : List PartyIn) (i : Nat) (st : GenSt) (I : Inbox)
    (st' : GenSt) (I' : Inbox) (ops : List Op) (s : Status)
    (h : genVerify G st I = .ok (st', I', ops, s)) (hn : st.n = n) (hi : st.i = i)
    (hsp : st.sp = (zeros n).set i (shB G t (pinOf ins i) i)) (hin : i < n)
    (hsb : (shB G t (pinOf ins i) i).natAbs < G.q.natAbs) (haik : st.aik = zeroRows n t) :
    Extra2 G n t ins i st' := by
  unfold genVerify at h
  rcases h1 : genReadC G st (List.range st.n) I st.C [] with ⟨I1, C, cm1⟩
  rw [h1] at h
  simp only at h
  have hk := kg_genReadShares_sp G.q hq st (List.range st.n) I1 st.s st.sp cm1
  rcases h2 : genReadShares G.q st (List.range st.n) I1 st.s st.sp cm1 with ⟨I2, s2, sp2, cm2⟩
  rw [h2] at h hk
  simp only at h hk
  obtain ⟨⟨gs, cm3⟩, h3, h⟩ := ag_bind_ok _ _ _ h
  simp only [pure, Except.pure, Except.ok.injEq, Prod.mk.injEq] at h
  obtain ⟨rfl, _, _⟩ := h
  obtain ⟨k1, k2, k3⟩ := hk
  have hsound := (genCheck4_sound G st C s2 sp2 (List.range st.n) st.gs cm2 gs cm3 h3).2
  refine ⟨?_, ?_, ?_, ?_, ?_, haik⟩
  · show sp2.length = n
    rw [k1, hsp]; simp [zeros]
  · apply k3
    rw [hsp]
    exact ag_InR_zeros_set G.q hq n i _ hsb
  · show getI sp2 i = _
    rw [← hi, k2, hi, hsp, getI_set_self _ _ _ (by simp [zeros, hin])]
  · intro j hj
    show Eq4S G i (getRow C j) (getI s2 j) (getI sp2 j) ∨
      i ∈ ((List.range st.n).map (fun j => if (sortUniq st.n cm3).contains j then [st.i] else [])).getD j []
    by_cases hm : j ∈ cm3
    · right
      rw [hn, List.getD_eq_getElem _ _ (by simpa using hj)]
      have : j ∈ sortUniq n cm3 := (ag_mem_sortUniq _ _ _).mpr ⟨hj, hm⟩
      simp [this, hi]
    · left
      rw [← hi]
      exact hsound j (by rw [hn]; exact List.mem_range.mpr hj) hm
  · show ((List.range st.n).map _).length = n
    simp [hn]

theorem kg_genCollect_extra2 (n t : Nat) (ins : List PartyIn) (i : Nat) (st : GenSt) (I : Inbox)
    (hb : I.b.length = st.n) (hn : st.n = n) (hi : st.i = i) (he : Extra2 G n t ins i st) :
    Extra2 G n t ins i (genCollect st I).1 ∧ (genCollect st I).1.sp = st.sp := by
  have hIb : ∀ j ∈ List.range st.n, j < I.b.length := fun j hj => by rw [hb]; exact List.mem_range.mp hj
  have hcp : (genCollect st I).1.complainers = genComplainers st (List.range st.n) I st.complainers := by
    unfold genCollect
    rcases genCollectGo st (List.range st.n) I st.cnt [] [] with ⟨I1, cnt, cf, cm⟩
    rfl
  have hsame : (genCollect st I).1.sp = st.sp ∧ (genCollect st I).1.s = st.s ∧ (genCollect st I).1.C = st.C ∧
      (genCollect st I).1.aik = st.aik := by
    unfold genCollect
    rcases genCollectGo st (List.range st.n) I st.cnt [] [] with ⟨I1, cnt, cf, cm⟩
    exact ⟨rfl, rfl, rfl, rfl⟩
  obtain ⟨e1, e2, e3, e4⟩ := hsame
  refine ⟨⟨by rw [e1]; exact he.splen, by rw [e1]; exact he.spIn, by rw [e1]; exact he.spown, ?_, ?_,
    by rw [e4]; exact he.aik⟩, e1⟩
  · intro j hj
    rw [e1, e2, e3, hcp]
    rcases he.opn j hj with h | h
    · exact Or.inl h
    · right
      exact ((ag_genComplainers st (List.range st.n) I hIb st.complainers j i
        (by rw [he.cplen]; exact hj)).2).mpr (Or.inl h)
  · rw [hcp]
    by_cases h0 : 0 < n
    · exact ((ag_genComplainers st (List.range st.n) I hIb st.complainers 0 0
        (by rw [he.cplen]; exact h0)).1).trans he.cplen
    · have hn0 : n = 0 := by omega
      have : st.n = 0 := by rw [hn, hn0]
      rw [this]
      simp only [List.range_zero, genComplainers]
      exact he.cplen

theorem cfgGen_three (n t : Nat) (ins : List PartyIn) :
    cfgGen G n t ins 3 = runRound (genStep G ins n t 2) (runRound (genStep G ins n t 1)
      (runRound (genStep G ins n t 0) (ps0 n t ins))) := by
  have h3 := cfgGen_succ (G := G) n t ins 2
  have h2 := cfgGen_succ (G := G) n t ins 1
  have h1 := cfgGen_succ (G := G) n t ins 0
  rw [h3, h2, h1, cfgGen_zero]

theorem SetupK.setting {n t : Nat} {ins : List PartyIn} (S : SetupK G n t ins) : Setting G n t ins :=
  ⟨S.hG, S.hn, S.hc⟩

/-- the honest party `i` after rounds 0, 1, 2: everything the later rounds need -/
theorem kg_R3 {n t : Nat} {ins : List PartyIn} (S : SetupK G n t ins) (i : Nat) (hi : i ∈ honestIdx ins) :
    Inv3 G n t ins (cfgGen G n t ins 3) ∧
    ∃ P, (cfgGen G n t ins 3)[i]? = some P ∧ S3 G n t ins i P ∧ Extra G n t ins i P.st ∧
      Extra2 G n t ins i P.st := by
  have hG := S.hG
  have hq : 0 < G.q := hG.vg.q_pos
  obtain ⟨I3, P3, hP3, s3, e3⟩ := ra_R3 S.setting S.hn64 S.hf i hi
  rw [cfgGen_three]
  refine ⟨I3, P3, hP3, s3, e3, ?_⟩
  have I1 := ag_round0 S.setting
  have I2 := ag_round1 S.setting S.hn64 _ I1
  obtain ⟨P1, hP1, s1⟩ := I1.2.1 i hi
  obtain ⟨P2, hP2, s2⟩ := I2.2.1 i hi
  obtain ⟨hi1, hi2⟩ := (ag_mem_honestIdx ins i).mp hi
  rw [S.hn] at hi1
  have hd := s1.dealt
  have haik : P1.st.aik = zeroRows n t := by
    have hP0 := ag_ps0_getElem? n t ins S.hn i hi1
    obtain ⟨P1', hP1', hdl⟩ := ag_runRound_party (genStep G ins n t 0) (ps0 n t ins) i _ hP0
    have hPeq : P1' = P1 := Option.some.inj (hP1'.symm.trans hP1)
    rw [hPeq] at hdl
    rcases ag_stepParty_st (ps0 n t ins).length (genStep G ins n t 0 i) _ with h | ⟨I, ops, status, h⟩
    · exfalso
      have hC := hd.C
      rw [hdl.st, h] at hC
      have := congrArg List.length hC
      simp [zeroRows] at this
      omega
    · rw [← hdl.st] at h
      simp only [genStep] at h
      obtain ⟨⟨st1, ops1, sx⟩, hg, h⟩ := ag_bind_ok _ _ _ h
      simp only [pure, Except.pure, Except.ok.injEq, Prod.mk.injEq] at h
      obtain ⟨rfl, _, _, _⟩ := h
      exact (kg_genDeal_aik _ _ _ _ _ _ _ _ _ hg).1
  have e2 : Extra2 G n t ins i P2.st := by
    obtain ⟨st', I', D, hv, -⟩ := ag_verify_honest S.setting i hi P1 s1
    obtain ⟨-, P2', hP2', f1, -⟩ := ag_honest_round (genStep G ins n t 1) _ i P1 hP1 s1.hl _ _ _ _ hv
    have hPeq : P2' = P2 := Option.some.inj (hP2'.symm.trans hP2)
    rw [hPeq] at f1
    rw [f1]
    exact kg_genVerify_extra2 hq n t ins i P1.st P1.inbox st' I' _ _ hv hd.hn hd.hi hd.sp hi1
      (ag_sh_range hG t _ i).2.2.2 haik
  have hs : genStep G ins n t 2 i P2.st P2.inbox = .ok ((genCollect P2.st P2.inbox).1,
      (genCollect P2.st P2.inbox).2.1, (genCollect P2.st P2.inbox).2.2.1, (genCollect P2.st P2.inbox).2.2.2) := rfl
  obtain ⟨-, P3', hP3', f1, -⟩ := ag_honest_round (genStep G ins n t 2) _ i P2 hP2 s2.hl _ _ _ _ hs
  have hPeq : P3' = P3 := Option.some.inj (hP3'.symm.trans hP3)
  rw [hPeq] at f1
  rw [f1]
  exact (kg_genCollect_extra2 n t ins i P2.st P2.inbox (by rw [s2.blen, s2.hn]) s2.hn s2.hi e2).1

end Tmcg.DkgP
