import TmcgProofs.ArgsGrothSkc
/-
  C03 for Groth's shuffle argument, part 3: the ElGamal layer (`GrothVSSHE`): the statement, the
  prover's first move, the checks before the shuffle of known content and the final product
  equation on the honest prover's values.
-/
namespace Tmcg.Args
open Tmcg Tmcg.Powm Tmcg.Vtmf Tmcg.Grp Tmcg.Sigma Tmcg.SigmaComplete
variable {G : Group} [Fact (Nat.Prime G.p.natAbs)] [Fact (Nat.Prime G.q.natAbs)]
set_option linter.unusedVariables false
set_option linter.unusedSectionVars false

/-! ### the ElGamal products of the shuffle argument -/

theorem zip_range {α β} (a : List α) (b : List β) (da : α) (db : β) (n : ℕ) (la : a.length = n)
    (lb : b.length = n) : a.zip b = (List.range n).map fun i => (a.getD i da, b.getD i db) := by
  conv_lhs => rw [list_eq_map_range a da n la]
  exact zip_map_range _ b db n lb

/-- a fold that multiplies a pair of accumulators with powers `(u_i^{k_i}, v_i^{k_i})` computed by a
    routine with the value of `mpz_powm` -/
theorem pairFold_val (hG : ValidGroup G) (pw : ℤ → ℤ → Except Err ℤ) (ex : ℤ → ℤ)
    (hpw : ∀ b k, toF G b ≠ 0 → ∃ r, pw b k = .ok r ∧ Val G r (toF G b ^ ex k)) :
    ∀ (l : List (Card × ℤ)) (acc : Card), (0 ≤ acc.c1 ∧ acc.c1 < G.p) → (0 ≤ acc.c2 ∧ acc.c2 < G.p) →
    (∀ y ∈ l, toF G y.1.c1 ≠ 0 ∧ toF G y.1.c2 ≠ 0) →
    ∃ out : Card, l.foldlM (fun (acc : Card) (y : Card × ℤ) => do
        let a ← pw y.1.c1 y.2
        let b ← pw y.1.c2 y.2
        pure (⟨acc.c1 * a % G.p, acc.c2 * b % G.p⟩ : Card)) acc = Except.ok out ∧
      Val G out.c1 (toF G acc.c1 * (l.map fun y => toF G y.1.c1 ^ ex y.2).prod) ∧
      Val G out.c2 (toF G acc.c2 * (l.map fun y => toF G y.1.c2 ^ ex y.2).prod)
  | [], acc, r1, r2, _ => ⟨acc, rfl, ⟨r1.1, r1.2, by simp⟩, ⟨r2.1, r2.2, by simp⟩⟩
  | y :: l, acc, r1, r2, hu => by
    obtain ⟨a, ha, -, -, av⟩ := hpw y.1.c1 y.2 (hu y (by simp)).1
    obtain ⟨b, hb, -, -, bv⟩ := hpw y.1.c2 y.2 (hu y (by simp)).2
    obtain ⟨x0, xp, xv⟩ := mulmod_val hG acc.c1 a
    obtain ⟨y0, yp, yv⟩ := mulmod_val hG acc.c2 b
    obtain ⟨out, hout, v1, v2⟩ := pairFold_val hG pw ex hpw l ⟨acc.c1 * a % G.p, acc.c2 * b % G.p⟩
      ⟨x0, xp⟩ ⟨y0, yp⟩ (fun z hz => hu z (by simp [hz]))
    refine ⟨out, ?_, ⟨v1.1, v1.2.1, ?_⟩, ⟨v2.1, v2.2.1, ?_⟩⟩
    · rw [List.foldlM_cons]
      simp only [bind, Except.bind, ha, hb, pure, Except.pure]
      exact hout
    · rw [v1.2.2, xv, av, List.map_cons, List.prod_cons]; ring
    · rw [v2.2.2, yv, bv, List.map_cons, List.prod_cons]; ring


/-- `Π e_i^{-t_i}` with explicit inverses -/
theorem prodInv_val (hG : ValidGroup G) :
    ∀ (l : List (Card × ℤ)) (acc : Card), (0 ≤ acc.c1 ∧ acc.c1 < G.p) → (0 ≤ acc.c2 ∧ acc.c2 < G.p) →
    (∀ y ∈ l, toF G y.1.c1 ≠ 0 ∧ toF G y.1.c2 ≠ 0) →
    ∃ out : Card, l.foldlM (fun (acc : Option Card) (x : Card × ℤ) =>
      match acc with
      | none => pure none
      | some L => do
        let a ← mpzPowm x.1.c1 x.2 G.p
        match invm a G.p with
        | none => pure none
        | some ai =>
          let b ← mpzPowm x.1.c2 x.2 G.p
          match invm b G.p with
          | none => pure none
          | some bi => pure (some (⟨L.c1 * ai % G.p, L.c2 * bi % G.p⟩ : Card))) (some acc) =
        Except.ok (some out) ∧
      Val G out.c1 (toF G acc.c1 * (l.map fun y => (toF G y.1.c1 ^ y.2)⁻¹).prod) ∧
      Val G out.c2 (toF G acc.c2 * (l.map fun y => (toF G y.1.c2 ^ y.2)⁻¹).prod)
  | [], acc, r1, r2, _ => ⟨acc, rfl, ⟨r1.1, r1.2, by simp⟩, ⟨r2.1, r2.2, by simp⟩⟩
  | y :: l, acc, r1, r2, hu => by
    obtain ⟨a, ha, -, -, av⟩ := mpzPowm_val hG y.1.c1 y.2 (hu y (by simp)).1
    obtain ⟨b, hb, -, -, bv⟩ := mpzPowm_val hG y.1.c2 y.2 (hu y (by simp)).2
    obtain ⟨ai, hai, -, -, aiv⟩ := invm_val hG a (by rw [av]; exact zpow_ne_zero _ (hu y (by simp)).1)
    obtain ⟨bi, hbi, -, -, biv⟩ := invm_val hG b (by rw [bv]; exact zpow_ne_zero _ (hu y (by simp)).2)
    obtain ⟨x0, xp, xv⟩ := mulmod_val hG acc.c1 ai
    obtain ⟨y0, yp, yv⟩ := mulmod_val hG acc.c2 bi
    obtain ⟨out, hout, v1, v2⟩ := prodInv_val hG l ⟨acc.c1 * ai % G.p, acc.c2 * bi % G.p⟩
      ⟨x0, xp⟩ ⟨y0, yp⟩ (fun z hz => hu z (by simp [hz]))
    refine ⟨out, ?_, ⟨v1.1, v1.2.1, ?_⟩, ⟨v2.1, v2.2.1, ?_⟩⟩
    · rw [List.foldlM_cons]
      simp only [bind, Except.bind, ha, hb, hai, hbi, pure, Except.pure]
      exact hout
    · rw [v1.2.2, xv, aiv, av, List.map_cons, List.prod_cons]; ring
    · rw [v2.2.2, yv, biv, bv, List.map_cons, List.prod_cons]; ring

/-- lists of pairs over `range n` as finite products -/
theorem prod_zip_range {α : Type} (a : List α) (da : α) (k : List ℤ) (n : ℕ) (la : a.length = n)
    (lk : k.length = n) (φ : α → ℤ → F G) :
    ((a.zip k).map fun y => φ y.1 y.2).prod = ∏ i ∈ Finset.range n, φ (a.getD i da) (k.getD i 0) := by
  rw [zip_range a k da 0 n la lk, List.map_map, prod_map_range]
  rfl


/-! ### the statement and the prover's first move -/

/-- the true statement `E_i = e_{π(i)} · E(1; R_i)` for a permutation `π`, `e` in the subgroup -/
structure ShufStmt (G : Group) [Fact (Nat.Prime G.p.natAbs)] (P : GrothPub) (pi : List ℕ) (R : List ℤ)
    (e E : List Card) : Prop where
  n2 : 2 ≤ pi.length
  perm : pi.Perm (List.range pi.length)
  lR : R.length = pi.length
  le : e.length = pi.length
  lE : E.length = pi.length
  lcg : pi.length ≤ P.cg.length
  small : (pi.length : ℤ) < G.q
  sub : ∀ j < pi.length, Sub G (e.getD j ⟨0, 0⟩).c1 ∧ Sub G (e.getD j ⟨0, 0⟩).c2
  rel1 : ∀ i < pi.length, toF G (E.getD i ⟨0, 0⟩).c1 =
    toF G (e.getD (pi.getD i 0) ⟨0, 0⟩).c1 * toF G G.g ^ R.getD i 0
  rel2 : ∀ i < pi.length, toF G (E.getD i ⟨0, 0⟩).c2 =
    toF G (e.getD (pi.getD i 0) ⟨0, 0⟩).c2 * toF G P.S.h ^ R.getD i 0

theorem perm_getD_lt {pi : List ℕ} {n : ℕ} (hp : pi.Perm (List.range n)) (i : ℕ) (hi : i < n) :
    pi.getD i 0 < n := by
  have ln : pi.length = n := by rw [hp.length_eq, List.length_range]
  rw [List.getD_eq_getElem _ _ (by omega)]
  exact List.mem_range.mp (hp.subset (List.getElem_mem _))

theorem ShufStmt.subE {P : GrothPub} {pi : List ℕ} {R : List ℤ} {e E : List Card} (hG : ValidGroup G)
    (hP : PubOk G P) (st : ShufStmt G P pi R e E) (i : ℕ) (hi : i < pi.length) :
    Sub G (E.getD i ⟨0, 0⟩).c1 ∧ Sub G (E.getD i ⟨0, 0⟩).c2 := by
  have hx := st.sub _ (perm_getD_lt st.perm i hi)
  unfold Sub at *
  rw [st.rel1 i hi, st.rel2 i hi, mul_pow, mul_pow, hx.1, hx.2, zpow_pow_q (g_sub hG),
    zpow_pow_q (h_sub P.S hP.st)]
  simp

theorem grothEd_val (hG : ValidGroup G) {P : GrothPub} (hP : PubOk G P) (E : List Card) (d : List ℤ)
    (Rd : ℤ) (n : ℕ) (lE : E.length = n) (ld : d.length = n) (hRd : 0 ≤ Rd ∧ Rd < G.q)
    (hE : ∀ i < n, toF G (E.getD i ⟨0, 0⟩).c1 ≠ 0 ∧ toF G (E.getD i ⟨0, 0⟩).c2 ≠ 0) :
    ∃ Ed, grothEd P E d Rd = .ok Ed ∧
      Val G Ed.c1 ((∏ i ∈ Finset.range n, toF G (E.getD i ⟨0, 0⟩).c1 ^ (-(d.getD i 0))) * toF G G.g ^ Rd) ∧
      Val G Ed.c2 ((∏ i ∈ Finset.range n, toF G (E.getD i ⟨0, 0⟩).c2 ^ (-(d.getD i 0))) * toF G P.S.h ^ Rd) := by
  have hp1 := one_lt_p hG
  have hu : ∀ y ∈ E.zip d, toF G y.1.c1 ≠ 0 ∧ toF G y.1.c2 ≠ 0 := by
    intro y hy
    rw [zip_range E d ⟨0, 0⟩ 0 n lE ld] at hy
    obtain ⟨i, hi, rfl⟩ := List.mem_map.mp hy
    exact hE i (List.mem_range.mp hi)
  obtain ⟨acc, hacc, v1, v2⟩ := pairFold_val hG (fun b k => spowm b (-k) G.p) (fun k => -k)
    (fun b k hb => spowm_val hG b (-k) hb) (E.zip d) ⟨1, 1⟩ ⟨by norm_num, hp1⟩ ⟨by norm_num, hp1⟩ hu
  obtain ⟨a, ha, -, -, av⟩ := fspowm_val hG P.S.tabG G.g Rd hP.st.tabG (g_ne hG) (natAbs_lt_of_range hG hRd)
  obtain ⟨b, hb, -, -, bv⟩ := fspowm_val hG P.S.tabH P.S.h Rd hP.st.tabH (h_ne hG P.S hP.st)
    (natAbs_lt_of_range hG hRd)
  obtain ⟨x0, xp, xv⟩ := mulmod_val hG acc.c1 a
  obtain ⟨y0, yp, yv⟩ := mulmod_val hG acc.c2 b
  refine ⟨⟨acc.c1 * a % G.p, acc.c2 * b % G.p⟩, ?_, ⟨x0, xp, ?_⟩, ⟨y0, yp, ?_⟩⟩
  · simp only [grothEd, hP.st.grp]
    rw [hacc]
    simp only [bind, Except.bind, ha, hb, pure, Except.pure]
  · rw [xv, v1.2.2, av, prod_zip_range E ⟨0, 0⟩ d n lE ld (fun y k => toF G y.c1 ^ (-k))]
    show toF G 1 * _ * _ = _; rw [toF_one, one_mul]
  · rw [yv, v2.2.2, bv, prod_zip_range E ⟨0, 0⟩ d n lE ld (fun y k => toF G y.c2 ^ (-k))]
    show toF G 1 * _ * _ = _; rw [toF_one, one_mul]

theorem grothMove1_spec (hG : ValidGroup G) {P : GrothPub} (hP : PubOk G P) (pi : List ℕ) (R : List ℤ)
    (e E : List Card) (st : ShufStmt G P pi R e E) (r Rd : ℤ) (d : List ℤ) (rd : ℤ) (rest : List ℤ)
    (hr : 0 ≤ r ∧ r < G.q) (hRd : 0 ≤ Rd ∧ Rd < G.q) (hd : InQ G.q d) (hrd : 0 ≤ rd ∧ rd < G.q)
    (ld : d.length = pi.length) (peer : List (Option ℤ)) (sent : List ℤ) (tr : Bool) :
    ∃ c cd Ed,
      grothMove1 P pi E ⟨peer, r :: Rd :: (d ++ (rd :: rest)), sent, tr⟩ =
        .ok ⟨r, Rd, d, rd, c, cd, Ed⟩ ⟨peer, rest, sent ++ [c, cd, Ed.c1, Ed.c2], tr⟩ ∧
      Val G c (comVal G P pi.length (fun i => (pi.map fun (j : ℕ) => (Int.ofNat j + 1)).getD i 0) r) ∧
      Val G cd (comVal G P pi.length (fun i => (d.map fun v => -v).getD i 0) rd) ∧
      Val G Ed.c1 ((∏ i ∈ Finset.range pi.length, toF G (E.getD i ⟨0, 0⟩).c1 ^ (-(d.getD i 0))) *
        toF G G.g ^ Rd) ∧
      Val G Ed.c2 ((∏ i ∈ Finset.range pi.length, toF G (E.getD i ⟨0, 0⟩).c2 ^ (-(d.getD i 0))) *
        toF G P.S.h ^ Rd) := by
  have hq := hG.q_pos
  have hsm := st.small
  obtain ⟨c, hc, vc⟩ := commitBy_val hG hP r (pi.map fun (j : ℕ) => (Int.ofNat j + 1))
    (by simp; exact st.lcg) hr (by
      intro v hv
      obtain ⟨j, hj, rfl⟩ := List.mem_map.mp hv
      have : j < pi.length := List.mem_range.mp (st.perm.subset hj)
      simp only [Int.ofNat_eq_natCast]; omega)
  obtain ⟨cd, hcd, vcd⟩ := commitBy_val hG hP rd (d.map fun v => -v) (by simp [ld]; exact st.lcg) hrd (by
      intro v hv
      obtain ⟨w, hw, rfl⟩ := List.mem_map.mp hv
      have := natAbs_lt_of_range hG (hd w hw)
      simpa using this)
  obtain ⟨Ed, hEd, v1, v2⟩ := grothEd_val hG hP E d Rd pi.length st.lE ld hRd
    (fun i hi => ⟨(st.subE hG hP i hi).1.ne_zero hG, (st.subE hG hP i hi).2.ne_zero hG⟩)
  simp only [List.length_map] at vc vcd
  rw [ld] at vcd
  refine ⟨c, cd, Ed, ?_, vc, vcd, v1, v2⟩
  simp only [grothMove1]
  rw [bind_ok (draw_spec peer r _ sent tr), bind_ok (draw_spec peer Rd _ sent tr)]
  rw [bind_ok (drawN_spec _ peer d _ sent tr ld), bind_ok (draw_spec peer rd _ sent tr)]
  rw [bind_ok (liftE_ok hc _), bind_ok (liftE_ok hcd _), bind_ok (liftE_ok hEd _)]
  rw [bind_ok (send_apply _ _), bind_ok (send_apply _ _), bind_ok (send_apply _ _),
    bind_ok (send_apply _ _)]
  simp [pure_apply, List.append_assoc]

/-! ### the final product equation -/

/-- `Π E_i^{d_i + t_{π(i)}} · (Π E_i^{-d_i} · b^{R_d}) · Π (x_i^{t_i})^{-1} = b^{R_d + Σ R_i t_{π(i)}}` for
    `E_i = x_{π(i)} b^{R_i}` -/
theorem shuffle_alg (n : ℕ) (pi : List ℕ) (hp : pi.Perm (List.range n)) (x Ev : ℕ → F G) (b : F G)
    (hb : b ≠ 0) (hx : ∀ j < n, x j ≠ 0) (R d t : ℕ → ℤ) (Rd : ℤ)
    (hE : ∀ i < n, Ev i = x (pi.getD i 0) * b ^ R i) :
    (∏ i ∈ Finset.range n, Ev i ^ (d i + t (pi.getD i 0))) *
      ((∏ i ∈ Finset.range n, Ev i ^ (-(d i))) * b ^ Rd) *
      (∏ i ∈ Finset.range n, (x i ^ t i)⁻¹) =
    b ^ (Rd + ∑ i ∈ Finset.range n, R i * t (pi.getD i 0)) := by
  have hE0 : ∀ i < n, Ev i ≠ 0 := fun i hi => by
    rw [hE i hi]; exact mul_ne_zero (hx _ (perm_getD_lt hp i hi)) (zpow_ne_zero _ hb)
  have h1 : (∏ i ∈ Finset.range n, Ev i ^ (d i + t (pi.getD i 0))) * (∏ i ∈ Finset.range n, Ev i ^ (-(d i))) =
      (∏ i ∈ Finset.range n, x (pi.getD i 0) ^ t (pi.getD i 0)) *
        ∏ i ∈ Finset.range n, b ^ (R i * t (pi.getD i 0)) := by
    rw [← Finset.prod_mul_distrib, ← Finset.prod_mul_distrib]
    apply Finset.prod_congr rfl
    intro i hi
    have hi' := Finset.mem_range.mp hi
    rw [← zpow_add₀ (hE0 i hi'), show d i + t (pi.getD i 0) + -(d i) = t (pi.getD i 0) by ring,
      hE i hi', mul_zpow, ← zpow_mul]
  rw [prod_perm_range pi n hp (fun j => x j ^ t j), prod_zpow_sum b hb] at h1
  calc (∏ i ∈ Finset.range n, Ev i ^ (d i + t (pi.getD i 0))) *
        ((∏ i ∈ Finset.range n, Ev i ^ (-(d i))) * b ^ Rd) * (∏ i ∈ Finset.range n, (x i ^ t i)⁻¹)
      = ((∏ i ∈ Finset.range n, Ev i ^ (d i + t (pi.getD i 0))) * (∏ i ∈ Finset.range n, Ev i ^ (-(d i)))) *
          b ^ Rd * (∏ i ∈ Finset.range n, (x i ^ t i)⁻¹) := by ring
    _ = b ^ (Rd + ∑ i ∈ Finset.range n, R i * t (pi.getD i 0)) := by
      rw [h1, zpow_add₀ hb, Finset.prod_inv_distrib]
      have : (∏ i ∈ Finset.range n, x i ^ t i) ≠ 0 := by
        rw [Finset.prod_ne_zero_iff]
        intro i hi; exact zpow_ne_zero _ (hx i (Finset.mem_range.mp hi))
      field_simp


theorem toQ_sum_mod (hG : ValidGroup G) (f : ℕ → ℤ) (n : ℕ) :
    toQ G (∑ i ∈ Finset.range n, f i % G.q) = toQ G (∑ i ∈ Finset.range n, f i) := by
  induction n with
  | zero => simp
  | succ n ih => rw [Finset.sum_range_succ, Finset.sum_range_succ, toQ_add, toQ_add, ih, toQ_emod hG]

theorem prod_pow_eq_one (n : ℕ) (a : ℕ → F G) (k : ℕ) (h : ∀ i < n, a i ^ k = 1) :
    (∏ i ∈ Finset.range n, a i) ^ k = 1 := by
  rw [← Finset.prod_pow]
  exact Finset.prod_eq_one (fun i hi => h i (Finset.mem_range.mp hi))

theorem mpzPowm_q_one (hG : ValidGroup G) (a : ℤ) (v : F G) (ha : Val G a v) (hv : v ^ G.q.natAbs = 1) :
    mpzPowm a G.q G.p = .ok 1 := by
  have hv0 : v ≠ 0 := ne_zero_of_pow_eq_one (q_natAbs_ne_zero hG) hv
  obtain ⟨r, hr, r0, rp, rv⟩ := mpzPowm_val hG a G.q (by rw [ha.2.2]; exact hv0)
  have : r = 1 := by
    apply eq_of_toF_eq hG ⟨r0, rp⟩ ⟨by norm_num, one_lt_p hG⟩
    rw [rv, ha.2.2, toF_one, ← natAbs_q hG, zpow_natCast, hv]
  rw [hr, this]

theorem groth_core (hG : ValidGroup G) (mode : Mode) {P : GrothPub} (hP : PubOk G P) (pi : List ℕ)
    (R : List ℤ) (e E : List Card) (st : ShufStmt G P pi R e E) (r Rd : ℤ) (d : List ℤ) (rd c cd : ℤ)
    (Ed : Card) (hRd : 0 ≤ Rd ∧ Rd < G.q) (ld : d.length = pi.length)
    (vc : Val G c (comVal G P pi.length (fun i => (pi.map fun (j : ℕ) => (Int.ofNat j + 1)).getD i 0) r))
    (vcd : Val G cd (comVal G P pi.length (fun i => (d.map fun v => -v).getD i 0) rd))
    (v1 : Val G Ed.c1 ((∏ i ∈ Finset.range pi.length, toF G (E.getD i ⟨0, 0⟩).c1 ^ (-(d.getD i 0))) *
      toF G G.g ^ Rd))
    (v2 : Val G Ed.c2 ((∏ i ∈ Finset.range pi.length, toF G (E.getD i ⟨0, 0⟩).c2 ^ (-(d.getD i 0))) *
      toF G P.S.h ^ Rd))
    (t : List ℤ) (lt : t.length = pi.length) (lambda : ℤ) :
    (grothResp G.q pi R ⟨r, Rd, d, rd, c, cd, Ed⟩ t).1.length = pi.length ∧
    ((∀ v ∈ (grothResp G.q pi R ⟨r, Rd, d, rd, c, cd, Ed⟩ t).1, modeLen mode P ≤ bitlen v) →
      (grothResp G.q pi R ⟨r, Rd, d, rd, c, cd, Ed⟩ t).2 ≠ 0 →
      grothChecks1 mode P c cd Ed (grothResp G.q pi R ⟨r, Rd, d, rd, c, cd, Ed⟩ t).1
        (grothResp G.q pi R ⟨r, Rd, d, rd, c, cd, Ed⟩ t).2 = .ok true) ∧
    (∃ cl C, mpzPowm c lambda G.p = .ok cl ∧
      Val G (cl * cd % G.p) (comVal G P pi.length C ((lambda * r % G.q + rd) % G.q)) ∧
      ∀ i < pi.length, toQ G (C i) = toQ G ((grothMsgs G.q lambda t).getD (pi.getD i 0) 0) -
        toQ G ((grothResp G.q pi R ⟨r, Rd, d, rd, c, cd, Ed⟩ t).1.getD i 0)) ∧
    grothFinal P e E t (grothResp G.q pi R ⟨r, Rd, d, rd, c, cd, Ed⟩ t).1 Ed
      (grothResp G.q pi R ⟨r, Rd, d, rd, c, cd, Ed⟩ t).2 = .ok true := by
  have hq := hG.q_pos
  have hp1 := one_lt_p hG
  have hg0 := g_ne hG
  have hh0 := h_ne hG P.S hP.st
  have hgq := g_sub hG
  have hhq := h_sub P.S hP.st
  have hEs := st.subE hG hP
  have n0c := comVal_ne_zero hG hP pi.length st.lcg
  set tp := pi.map (fun j => t.getD j 0) with htp
  have gtp : ∀ i < pi.length, tp.getD i 0 = t.getD (pi.getD i 0) 0 := by
    intro i hi; rw [htp, getD_map (fun j => t.getD j 0) pi i 0 0 hi]
  have hf : (grothResp G.q pi R ⟨r, Rd, d, rd, c, cd, Ed⟩ t).1 =
      (List.range pi.length).map fun i => (d.getD i 0 + tp.getD i 0) % G.q := rfl
  have hZ : (grothResp G.q pi R ⟨r, Rd, d, rd, c, cd, Ed⟩ t).2 =
      ((tp.zip R).foldl (fun acc (y : ℤ × ℤ) => (acc + y.1 * y.2 % G.q) % G.q) 0 + Rd) % G.q := rfl
  have gf : ∀ i < pi.length, (grothResp G.q pi R ⟨r, Rd, d, rd, c, cd, Ed⟩ t).1.getD i 0 =
      (d.getD i 0 + t.getD (pi.getD i 0) 0) % G.q := by
    intro i hi; rw [hf, getD_map_range _ _ _ _ hi, gtp i hi]
  -- Z modulo q
  have hZq : toQ G (grothResp G.q pi R ⟨r, Rd, d, rd, c, cd, Ed⟩ t).2 =
      toQ G (Rd + ∑ i ∈ Finset.range pi.length, R.getD i 0 * t.getD (pi.getD i 0) 0) := by
    rw [hZ, toQ_emod hG, foldl_add_mod G.q hq (fun y : ℤ × ℤ => y.1 * y.2 % G.q) _ 0 (le_refl _) hq,
      zero_add, toQ_add, toQ_emod hG, zip_range tp R 0 0 pi.length (by simp [htp]) st.lR, List.map_map,
      sum_map_range, toQ_add, add_comm]
    congr 1
    have : ∀ i, ((fun y : ℤ × ℤ => y.1 * y.2 % G.q) ∘ fun i => (tp.getD i 0, R.getD i 0)) i =
        (tp.getD i 0 * R.getD i 0) % G.q := fun i => rfl
    simp only [this]
    rw [toQ_sum_mod hG]
    congr 1
    apply Finset.sum_congr rfl
    intro i hi
    rw [gtp i (Finset.mem_range.mp hi), mul_comm]
  refine ⟨by rw [hf]; simp, ?_, ?_, ?_⟩
  · -- the checks before the SKC
    intro hfl hZ0
    have cpos := pos_of_val_ne vc (n0c _ _)
    have cdpos := pos_of_val_ne vcd (n0c _ _)
    have hEd1 : ((∏ i ∈ Finset.range pi.length, toF G (E.getD i ⟨0, 0⟩).c1 ^ (-(d.getD i 0))) *
        toF G G.g ^ Rd) ^ G.q.natAbs = 1 := by
      rw [mul_pow, prod_pow_eq_one _ _ _ (fun i hi => zpow_pow_q (hEs i hi).1 _), zpow_pow_q hgq, one_mul]
    have hEd2 : ((∏ i ∈ Finset.range pi.length, toF G (E.getD i ⟨0, 0⟩).c2 ^ (-(d.getD i 0))) *
        toF G P.S.h ^ Rd) ^ G.q.natAbs = 1 := by
      rw [mul_pow, prod_pow_eq_one _ _ _ (fun i hi => zpow_pow_q (hEs i hi).2 _), zpow_pow_q hhq, one_mul]
    have hZr := mod_range hG ((tp.zip R).foldl (fun acc (y : ℤ × ℤ) => (acc + y.1 * y.2 % G.q) % G.q) 0 + Rd)
    rw [← hZ] at hZr
    have hall : ((grothResp G.q pi R ⟨r, Rd, d, rd, c, cd, Ed⟩ t).1.all fun v =>
        !(decide (bitlen v < modeLen mode P)) && decide (v < G.q)) = true := by
      rw [List.all_eq_true]
      intro v hv
      have h1 := hfl v hv
      rw [hf] at hv
      obtain ⟨i, -, rfl⟩ := List.mem_map.mp hv
      have := (mod_range hG (d.getD i 0 + tp.getD i 0)).2
      simp only [Bool.and_eq_true, Bool.not_eq_true', decide_eq_false_iff_not, decide_eq_true_eq]
      exact ⟨by omega, this⟩
    simp only [grothChecks1, testMembership_val hG hP _ st.lcg _ _ _ vc,
      testMembership_val hG hP _ st.lcg _ _ _ vcd, hP.st.grp, mpzPowm_q_one hG _ _ v1 hEd1,
      mpzPowm_q_one hG _ _ v2 hEd2, bind, Except.bind, pure, Except.pure]
    simp only [Bool.and_self, Bool.not_true,
      Bool.false_eq_true, if_false, ne_eq, not_true_eq_false, or_self, hall]
    rw [if_neg (by omega)]
  · -- the commitment handed to the SKC
    have hc0 : toF G c ≠ 0 := by rw [vc.2.2]; exact n0c _ _
    obtain ⟨cl, hcl, -, -, clv⟩ := mpzPowm_val hG c lambda hc0
    obtain ⟨x0, xp, xv⟩ := mulmod_val hG cl cd
    refine ⟨cl, fun i => lambda * (pi.map fun (j : ℕ) => (Int.ofNat j + 1)).getD i 0 +
      (d.map fun v => -v).getD i 0, hcl, ⟨x0, xp, ?_⟩, ?_⟩
    · rw [xv, clv, vc.2.2, vcd.2.2, comVal_pow_mul hG hP _ st.lcg]
      apply comVal_congr hG hP _ st.lcg
      · intro i _; rfl
      · simp only [toQ_emod hG, toQ_add, toQ_mul]
    · intro i hi
      have hpi := perm_getD_lt st.perm i hi
      dsimp only
      rw [gf i hi, getD_map (fun (j : ℕ) => (Int.ofNat j + 1)) pi i 0 0 hi,
        getD_map (fun v : ℤ => -v) d i 0 0 (by omega)]
      simp only [grothMsgs]
      rw [getD_map_range _ _ _ _ (by omega)]
      simp only [toQ_emod hG, toQ_add, toQ_mul, toQ_neg, Int.ofNat_eq_natCast]
      ring
  · -- the product equation
    have hue : ∀ y ∈ e.zip t, toF G y.1.c1 ≠ 0 ∧ toF G y.1.c2 ≠ 0 := by
      intro y hy
      rw [zip_range e t ⟨0, 0⟩ 0 pi.length st.le lt] at hy
      obtain ⟨i, hi, rfl⟩ := List.mem_map.mp hy
      have := st.sub i (List.mem_range.mp hi)
      exact ⟨this.1.ne_zero hG, this.2.ne_zero hG⟩
    have lfl : (grothResp G.q pi R ⟨r, Rd, d, rd, c, cd, Ed⟩ t).1.length = pi.length := by rw [hf]; simp
    have huE : ∀ y ∈ E.zip (grothResp G.q pi R ⟨r, Rd, d, rd, c, cd, Ed⟩ t).1,
        toF G y.1.c1 ≠ 0 ∧ toF G y.1.c2 ≠ 0 := by
      intro y hy
      rw [zip_range E _ ⟨0, 0⟩ 0 pi.length st.lE lfl] at hy
      obtain ⟨i, hi, rfl⟩ := List.mem_map.mp hy
      have := hEs i (List.mem_range.mp hi)
      exact ⟨this.1.ne_zero hG, this.2.ne_zero hG⟩
    obtain ⟨L2, hL2, a1, a2⟩ := prodInv_val hG (e.zip t) ⟨1, 1⟩ ⟨by norm_num, hp1⟩ ⟨by norm_num, hp1⟩ hue
    obtain ⟨L3, hL3, b1, b2⟩ := pairFold_val hG (fun b k => mpzPowm b k G.p) (fun k => k)
      (fun b k hb => mpzPowm_val hG b k hb) (E.zip (grothResp G.q pi R ⟨r, Rd, d, rd, c, cd, Ed⟩ t).1)
      ⟨1, 1⟩ ⟨by norm_num, hp1⟩ ⟨by norm_num, hp1⟩ huE
    have hZr := mod_range hG ((tp.zip R).foldl (fun acc (y : ℤ × ℤ) => (acc + y.1 * y.2 % G.q) % G.q) 0 + Rd)
    rw [← hZ] at hZr
    obtain ⟨r1, hr1, c0, cp, r1v⟩ := fpowm_val hG P.S.tabG G.g _ hP.st.tabG hg0 (natAbs_lt_of_range hG hZr)
    obtain ⟨r2, hr2, d0, dp, r2v⟩ := fpowm_val hG P.S.tabH P.S.h _ hP.st.tabH hh0 (natAbs_lt_of_range hG hZr)
    obtain ⟨-, -, m1⟩ := mulmod_val hG L3.c1 Ed.c1
    obtain ⟨x0, xp, m2⟩ := mulmod_val hG (L3.c1 * Ed.c1 % G.p) L2.c1
    obtain ⟨-, -, m3⟩ := mulmod_val hG L3.c2 Ed.c2
    obtain ⟨y0, yp, m4⟩ := mulmod_val hG (L3.c2 * Ed.c2 % G.p) L2.c2
    have key : ∀ (comp : Card → ℤ) (b : F G) (hb0 : b ≠ 0) (hbq : b ^ G.q.natAbs = 1)
        (hsub : ∀ i < pi.length, toF G (comp (E.getD i ⟨0, 0⟩)) ^ G.q.natAbs = 1)
        (hsube : ∀ j < pi.length, toF G (comp (e.getD j ⟨0, 0⟩)) ≠ 0)
        (hrel : ∀ i < pi.length, toF G (comp (E.getD i ⟨0, 0⟩)) =
          toF G (comp (e.getD (pi.getD i 0) ⟨0, 0⟩)) * b ^ R.getD i 0),
        (∏ i ∈ Finset.range pi.length, toF G (comp (E.getD i ⟨0, 0⟩)) ^
            (grothResp G.q pi R ⟨r, Rd, d, rd, c, cd, Ed⟩ t).1.getD i 0) *
          ((∏ i ∈ Finset.range pi.length, toF G (comp (E.getD i ⟨0, 0⟩)) ^ (-(d.getD i 0))) * b ^ Rd) *
          (∏ i ∈ Finset.range pi.length, (toF G (comp (e.getD i ⟨0, 0⟩)) ^ t.getD i 0)⁻¹) =
        b ^ (grothResp G.q pi R ⟨r, Rd, d, rd, c, cd, Ed⟩ t).2 := by
      intro comp b hb0 hbq hsub hsube hrel
      rw [zpow_toQ hG b hbq hZq]
      rw [← shuffle_alg pi.length pi st.perm (fun j => toF G (comp (e.getD j ⟨0, 0⟩)))
        (fun i => toF G (comp (E.getD i ⟨0, 0⟩))) b hb0 hsube (fun i => R.getD i 0) (fun i => d.getD i 0)
        (fun j => t.getD j 0) Rd hrel]
      congr 2
      apply Finset.prod_congr rfl
      intro i hi
      have hi' := Finset.mem_range.mp hi
      rw [gf i hi']
      exact zpow_toQ hG _ (hsub i hi') (toQ_emod hG _)
    have e1 : L3.c1 * Ed.c1 % G.p * L2.c1 % G.p = r1 := by
      apply eq_of_toF_eq hG ⟨x0, xp⟩ ⟨c0, cp⟩
      rw [m2, m1, b1.2.2, a1.2.2, v1.2.2, r1v,
        prod_zip_range E ⟨0, 0⟩ _ pi.length st.lE lfl (fun y k => toF G y.c1 ^ k),
        prod_zip_range e ⟨0, 0⟩ t pi.length st.le lt (fun y k => (toF G y.c1 ^ k)⁻¹)]
      show toF G 1 * _ * _ * (toF G 1 * _) = _
      rw [toF_one, one_mul, one_mul]
      exact key (fun y => y.c1) _ hg0 hgq (fun i hi => (hEs i hi).1)
        (fun j hj => (st.sub j hj).1.ne_zero hG) st.rel1
    have e2 : L3.c2 * Ed.c2 % G.p * L2.c2 % G.p = r2 := by
      apply eq_of_toF_eq hG ⟨y0, yp⟩ ⟨d0, dp⟩
      rw [m4, m3, b2.2.2, a2.2.2, v2.2.2, r2v,
        prod_zip_range E ⟨0, 0⟩ _ pi.length st.lE lfl (fun y k => toF G y.c2 ^ k),
        prod_zip_range e ⟨0, 0⟩ t pi.length st.le lt (fun y k => (toF G y.c2 ^ k)⁻¹)]
      show toF G 1 * _ * _ * (toF G 1 * _) = _
      rw [toF_one, one_mul, one_mul]
      exact key (fun y => y.c2) _ hh0 hhq (fun i hi => (hEs i hi).2)
        (fun j hj => (st.sub j hj).2.ne_zero hG) st.rel2
    have hInv : grothProdInv G.p e t = .ok (some L2) := hL2
    have hPow : grothProdPow G.p E (grothResp G.q pi R ⟨r, Rd, d, rd, c, cd, Ed⟩ t).1 = .ok L3 := hL3
    simp only [grothFinal, hP.st.grp, hInv, hPow, bind, Except.bind, hr1, hr2, pure, Except.pure, e1, e2]
    simp
end Tmcg.Args
