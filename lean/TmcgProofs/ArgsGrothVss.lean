import TmcgProofs.ArgsGrothSkc
/-
  C03 for Groth's shuffle argument, part 3: the ElGamal layer (`GrothVSSHE`): the statement, the
  prover's first move, the checks before the shuffle of known content and the final product
  equation on the honest prover's values.
-/
namespace Tmcg.Args
open Tmcg Tmcg.Powm Tmcg.Vtmf Tmcg.Grp Tmcg.Sigma Tmcg.SigmaComplete
variable {G : Group} [Fact (Nat.Prime G.p.natAbs)] [Fact (Nat.Prime G.q.natAbs)]
set_option linter.unusedVariables false
set_option linter.unusedSectionVars false

/-! ### the ElGamal products of the shuffle argument -/

theorem zip_range {α β} (a : List α) (b : List β) (da : α) (db : β) (n : ℕ) (la : a.length = n)
    (lb : b.length = n) : a.zip b = (List.range n).map fun i => (a.getD i da, b.getD i db) := by
  conv_lhs => rw [list_eq_map_range a da n la]
  exact zip_map_range _ b db n lb

/-- a fold that multiplies a pair of accumulators with powers `(u_i^{k_i}, v_i^{k_i})` computed by a
    routine with the value of `mpz_powm` -/
theorem pairFold_val (hG : ValidGroup G) (pw : ℤ → ℤ → Except Err ℤ) (ex : ℤ → ℤ)
    (hpw : ∀ b k, toF G b ≠ 0 → ∃ r, pw b k = .ok r ∧ Val G r (toF G b ^ ex k)) :
    ∀ (l : List (Card × ℤ)) (acc : Card), (0 ≤ acc.c1 ∧ acc.c1 < G.p) → (0 ≤ acc.c2 ∧ acc.c2 < G.p) →
    (∀ y ∈ l, toF G y.1.c1 ≠ 0 ∧ toF G y.1.c2 ≠ 0) →
    ∃ out : Card, l.foldlM (fun (acc : Card) (y : Card × ℤ) => do
        let a ← pw y.1.c1 y.2
        let b ← pw y.1.c2 y.2
        pure (⟨acc.c1 * a % G.p, acc.c2 * b % G.p⟩ : Card)) acc = Except.ok out ∧
      Val G out.c1 (toF G acc.c1 * (l.map fun y => toF G y.1.c1 ^ ex y.2).prod) ∧
      Val G out.c2 (toF G acc.c2 * (l.map fun y => toF G y.1.c2 ^ ex y.2).prod)
  | [], acc, r1, r2, _ => ⟨acc, rfl, ⟨r1.1, r1.2, by simp⟩, ⟨r2.1, r2.2, by simp⟩⟩
  | y :: l, acc, r1, r2, hu => by
    obtain ⟨a, ha, -, -, av⟩ := hpw y.1.c1 y.2 (hu y (by simp)).1
    obtain ⟨b, hb, -, -, bv⟩ := hpw y.1.c2 y.2 (hu y (by simp)).2
    obtain ⟨x0, xp, xv⟩ := mulmod_val hG acc.c1 a
    obtain ⟨y0, yp, yv⟩ := mulmod_val hG acc.c2 b
    obtain ⟨out, hout, v1, v2⟩ := pairFold_val hG pw ex hpw l ⟨acc.c1 * a % G.p, acc.c2 * b % G.p⟩
      ⟨x0, xp⟩ ⟨y0, yp⟩ (fun z hz => hu z (by simp [hz]))
    refine ⟨out, ?_, ⟨v1.1, v1.2.1, ?_⟩, ⟨v2.1, v2.2.1, ?_⟩⟩
    · rw [List.foldlM_cons]
      simp only [bind, Except.bind, ha, hb, pure, Except.pure]
      exact hout
    · rw [v1.2.2, xv, av, List.map_cons, List.prod_cons]; ring
    · rw [v2.2.2, yv, bv, List.map_cons, List.prod_cons]; ring


/-- `Π e_i^{-t_i}` with explicit inverses -/
theorem prodInv_val (hG : ValidGroup G) :
    ∀ (l : List (Card × ℤ)) (acc : Card), (0 ≤ acc.c1 ∧ acc.c1 < G.p) → (0 ≤ acc.c2 ∧ acc.c2 < G.p) →
    (∀ y ∈ l, toF G y.1.c1 ≠ 0 ∧ toF G y.1.c2 ≠ 0) →
    ∃ out : Card, l.foldlM (fun (acc : Option Card) (x : Card × ℤ) =>
      match acc with
      | none => pure none
      | some L => do
        let a ← mpzPowm x.1.c1 x.2 G.p
        match invm a G.p with
        | none => pure none
        | some ai =>
          let b ← mpzPowm x.1.c2 x.2 G.p
          match invm b G.p with
          | none => pure none
          | some bi => pure (some (⟨L.c1 * ai % G.p, L.c2 * bi % G.p⟩ : Card))) (some acc) =
        Except.ok (some out) ∧
      Val G out.c1 (toF G acc.c1 * (l.map fun y => (toF G y.1.c1 ^ y.2)⁻¹).prod) ∧
      Val G out.c2 (toF G acc.c2 * (l.map fun y => (toF G y.1.c2 ^ y.2)⁻¹).prod)
  | [], acc, r1, r2, _ => ⟨acc, rfl, ⟨r1.1, r1.2, by simp⟩, ⟨r2.1, r2.2, by simp⟩⟩
  | y :: l, acc, r1, r2, hu => by
    obtain ⟨a, ha, -, -, av⟩ := mpzPowm_val hG y.1.c1 y.2 (hu y (by simp)).1
    obtain ⟨b, hb, -, -, bv⟩ := mpzPowm_val hG y.1.c2 y.2 (hu y (by simp)).2
    obtain ⟨ai, hai, -, -, aiv⟩ := invm_val hG a (by rw [av]; exact zpow_ne_zero _ (hu y (by simp)).1)
    obtain ⟨bi, hbi, -, -, biv⟩ := invm_val hG b (by rw [bv]; exact zpow_ne_zero _ (hu y (by simp)).2)
    obtain ⟨x0, xp, xv⟩ := mulmod_val hG acc.c1 ai
    obtain ⟨y0, yp, yv⟩ := mulmod_val hG acc.c2 bi
    obtain ⟨out, hout, v1, v2⟩ := prodInv_val hG l ⟨acc.c1 * ai % G.p, acc.c2 * bi % G.p⟩
      ⟨x0, xp⟩ ⟨y0, yp⟩ (fun z hz => hu z (by simp [hz]))
    refine ⟨out, ?_, ⟨v1.1, v1.2.1, ?_⟩, ⟨v2.1, v2.2.1, ?_⟩⟩
    · rw [List.foldlM_cons]
      simp only [bind, Except.bind, ha, hb, hai, hbi, pure, Except.pure]
      exact hout
    · rw [v1.2.2, xv, aiv, av, List.map_cons, List.prod_cons]; ring
    · rw [v2.2.2, yv, biv, bv, List.map_cons, List.prod_cons]; ring

/-- lists of pairs over `range n` as finite products -/
theorem prod_zip_range {α : Type} (a : List α) (da : α) (k : List ℤ) (n : ℕ) (la : a.length = n)
    (lk : k.length = n) (φ : α → ℤ → F G) :
    ((a.zip k).map fun y => φ y.1 y.2).prod = ∏ i ∈ Finset.range n, φ (a.getD i da) (k.getD i 0) := by
  rw [zip_range a k da 0 n la lk, List.map_map, prod_map_range]
  rfl


/-! ### the statement and the prover's first move -/

/-- the true statement `E_i = e_{π(i)} · E(1; R_i)` for a permutation `π`, `e` in the subgroup -/
structure ShufStmt (G : Group) [Fact (Nat.Prime G.p.natAbs)] (P : GrothPub) (pi : List ℕ) (R : List ℤ)
    (e E : List Card) : Prop where
  n2 : 2 ≤ pi.length
  perm : pi.Perm (List.range pi.length)
  lR : R.length = pi.length
  le : e.length = pi.length
  lE : E.length = pi.length
  lcg : pi.length ≤ P.cg.length
  small : (pi.length : ℤ) < G.q
  sub : ∀ j < pi.length, Sub G (e.getD j ⟨0, 0⟩).c1 ∧ Sub G (e.getD j ⟨0, 0⟩).c2
  rel1 : ∀ i < pi.length, toF G (E.getD i ⟨0, 0⟩).c1 =
    toF G (e.getD (pi.getD i 0) ⟨0, 0⟩).c1 * toF G G.g ^ R.getD i 0
  rel2 : ∀ i < pi.length, toF G (E.getD i ⟨0, 0⟩).c2 =
    toF G (e.getD (pi.getD i 0) ⟨0, 0⟩).c2 * toF G P.S.h ^ R.getD i 0

theorem perm_getD_lt {pi : List ℕ} {n : ℕ} (hp : pi.Perm (List.range n)) (i : ℕ) (hi : i < n) :
    pi.getD i 0 < n := by
  have ln : pi.length = n := by rw [hp.length_eq, List.length_range]
  rw [List.getD_eq_getElem _ _ (by omega)]
  exact List.mem_range.mp (hp.subset (List.getElem_mem _))

theorem ShufStmt.subE {P : GrothPub} {pi : List ℕ} {R : List ℤ} {e E : List Card} (hG : ValidGroup G)
    (hP : PubOk G P) (st : ShufStmt G P pi R e E) (i : ℕ) (hi : i < pi.length) :
    Sub G (E.getD i ⟨0, 0⟩).c1 ∧ Sub G (E.getD i ⟨0, 0⟩).c2 := by
  have hx := st.sub _ (perm_getD_lt st.perm i hi)
  unfold Sub at *
  rw [st.rel1 i hi, st.rel2 i hi, mul_pow, mul_pow, hx.1, hx.2, zpow_pow_q (g_sub hG),
    zpow_pow_q (h_sub P.S hP.st)]
  simp

theorem grothEd_val (hG : ValidGroup G) {P : GrothPub} (hP : PubOk G P) (E : List Card) (d : List ℤ)
    (Rd : ℤ) (n : ℕ) (lE : E.length = n) (ld : d.length = n) (hRd : 0 ≤ Rd ∧ Rd < G.q)
    (hE : ∀ i < n, toF G (E.getD i ⟨0, 0⟩).c1 ≠ 0 ∧ toF G (E.getD i ⟨0, 0⟩).c2 ≠ 0) :
    ∃ Ed, grothEd P E d Rd = .ok Ed ∧
      Val G Ed.c1 ((∏ i ∈ Finset.range n, toF G (E.getD i ⟨0, 0⟩).c1 ^ (-(d.getD i 0))) * toF G G.g ^ Rd) ∧
      Val G Ed.c2 ((∏ i ∈ Finset.range n, toF G (E.getD i ⟨0, 0⟩).c2 ^ (-(d.getD i 0))) * toF G P.S.h ^ Rd) := by
  have hp1 := one_lt_p hG
  have hu : ∀ y ∈ E.zip d, toF G y.1.c1 ≠ 0 ∧ toF G y.1.c2 ≠ 0 := by
    intro y hy
    rw [zip_range E d ⟨0, 0⟩ 0 n lE ld] at hy
    obtain ⟨i, hi, rfl⟩ := List.mem_map.mp hy
    exact hE i (List.mem_range.mp hi)
  obtain ⟨acc, hacc, v1, v2⟩ := pairFold_val hG (fun b k => spowm b (-k) G.p) (fun k => -k)
    (fun b k hb => spowm_val hG b (-k) hb) (E.zip d) ⟨1, 1⟩ ⟨by norm_num, hp1⟩ ⟨by norm_num, hp1⟩ hu
  obtain ⟨a, ha, -, -, av⟩ := fspowm_val hG P.S.tabG G.g Rd hP.st.tabG (g_ne hG) (natAbs_lt_of_range hG hRd)
  obtain ⟨b, hb, -, -, bv⟩ := fspowm_val hG P.S.tabH P.S.h Rd hP.st.tabH (h_ne hG P.S hP.st)
    (natAbs_lt_of_range hG hRd)
  obtain ⟨x0, xp, xv⟩ := mulmod_val hG acc.c1 a
  obtain ⟨y0, yp, yv⟩ := mulmod_val hG acc.c2 b
  refine ⟨⟨acc.c1 * a % G.p, acc.c2 * b % G.p⟩, ?_, ⟨x0, xp, ?_⟩, ⟨y0, yp, ?_⟩⟩
  · simp only [grothEd, hP.st.grp]
    rw [hacc]
    simp only [bind, Except.bind, ha, hb, pure, Except.pure]
  · rw [xv, v1.2.2, av, prod_zip_range E ⟨0, 0⟩ d n lE ld (fun y k => toF G y.c1 ^ (-k))]
    show toF G 1 * _ * _ = _; rw [toF_one, one_mul]
  · rw [yv, v2.2.2, bv, prod_zip_range E ⟨0, 0⟩ d n lE ld (fun y k => toF G y.c2 ^ (-k))]
    show toF G 1 * _ * _ = _; rw [toF_one, one_mul]

theorem grothMove1_spec (hG : ValidGroup G) {P : GrothPub} (hP : PubOk G P) (pi : List ℕ) (R : List ℤ)
    (e E : List Card) (st : ShufStmt G P pi R e E) (r Rd : ℤ) (d : List ℤ) (rd : ℤ) (rest : List ℤ)
    (hr : 0 ≤ r ∧ r < G.q) (hRd : 0 ≤ Rd ∧ Rd < G.q) (hd : InQ G.q d) (hrd : 0 ≤ rd ∧ rd < G.q)
    (ld : d.length = pi.length) (peer : List (Option ℤ)) (sent : List ℤ) (tr : Bool) :
    ∃ c cd Ed,
      grothMove1 P pi E ⟨peer, r :: Rd :: (d ++ (rd :: rest)), sent, tr⟩ =
        .ok ⟨r, Rd, d, rd, c, cd, Ed⟩ ⟨peer, rest, sent ++ [c, cd, Ed.c1, Ed.c2], tr⟩ ∧
      Val G c (comVal G P pi.length (fun i => (pi.map fun (j : ℕ) => (Int.ofNat j + 1)).getD i 0) r) ∧
      Val G cd (comVal G P pi.length (fun i => (d.map fun v => -v).getD i 0) rd) ∧
      Val G Ed.c1 ((∏ i ∈ Finset.range pi.length, toF G (E.getD i ⟨0, 0⟩).c1 ^ (-(d.getD i 0))) *
        toF G G.g ^ Rd) ∧
      Val G Ed.c2 ((∏ i ∈ Finset.range pi.length, toF G (E.getD i ⟨0, 0⟩).c2 ^ (-(d.getD i 0))) *
        toF G P.S.h ^ Rd) := by
  have hq := hG.q_pos
  have hsm := st.small
  obtain ⟨c, hc, vc⟩ := commitBy_val hG hP r (pi.map fun (j : ℕ) => (Int.ofNat j + 1))
    (by simp; exact st.lcg) hr (by
      intro v hv
      obtain ⟨j, hj, rfl⟩ := List.mem_map.mp hv
      have : j < pi.length := List.mem_range.mp (st.perm.subset hj)
      simp only [Int.ofNat_eq_natCast]; omega)
  obtain ⟨cd, hcd, vcd⟩ := commitBy_val hG hP rd (d.map fun v => -v) (by simp [ld]; exact st.lcg) hrd (by
      intro v hv
      obtain ⟨w, hw, rfl⟩ := List.mem_map.mp hv
      have := natAbs_lt_of_range hG (hd w hw)
      simpa using this)
  obtain ⟨Ed, hEd, v1, v2⟩ := grothEd_val hG hP E d Rd pi.length st.lE ld hRd
    (fun i hi => ⟨(st.subE hG hP i hi).1.ne_zero hG, (st.subE hG hP i hi).2.ne_zero hG⟩)
  simp only [List.length_map] at vc vcd
  rw [ld] at vcd
  refine ⟨c, cd, Ed, ?_, vc, vcd, v1, v2⟩
  simp only [grothMove1]
  rw [bind_ok (draw_spec peer r _ sent tr), bind_ok (draw_spec peer Rd _ sent tr)]
  rw [bind_ok (drawN_spec _ peer d _ sent tr ld), bind_ok (draw_spec peer rd _ sent tr)]
  rw [bind_ok (liftE_ok hc _), bind_ok (liftE_ok hcd _), bind_ok (liftE_ok hEd _)]
  rw [bind_ok (send_apply _ _), bind_ok (send_apply _ _), bind_ok (send_apply _ _),
    bind_ok (send_apply _ _)]
  simp [pure_apply, List.append_assoc]

end Tmcg.Args
