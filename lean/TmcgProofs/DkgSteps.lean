import Tmcg.Model.Dkg
/-
  C15, step-function layer of the key generation (model: Tmcg/Model/Dkg.lean): what an honest party
  knows after its checks, for ARBITRARY inboxes (whatever the other parties sent).  No assumption
  on the group is needed: the statements are about the model's own equation tests.

    * `genCheck4_sound`       step 1(b): a dealer the party does not complain about gave it a share
                              that satisfies equation (4) against the commitments the party holds
    * `genReadAnswers_sound`  step 1(d): if the public answers of dealer `j` do not disqualify it, the
                              share the party holds from `j` afterwards is the one it had before or
                              one that satisfies equation (4)
    * `genReadAnswers_mono`   complaints are only ever added
  Together: for `j ∈ QUAL` the party's final share from `j` satisfies (4) UNLESS the party complained
  in 1(b) and `j` did not publish a share for it in 1(c) — the code never checks that every complaint
  was answered (see the findings of harness/drv_dkg.cc, tag `wrongshare-noanswer`).
-/
namespace Tmcg.DkgP
open Tmcg Tmcg.Powm Tmcg.Dkg

/-- equation (4) as party `i` tests it with the fixed-base table routine of the private phase -/
def Eq4S (G : Dkg.Grp) (i : Nat) (Cj : List Int) (s s' : Int) : Prop :=
  ∃ a l r, pedS G s s' = .ok (a, l) ∧ commitProd G.p (i + 1) Cj = .ok r ∧ l = r

/-- equation (4) as tested in the public resolution (`tmcg_mpz_fpowm`) -/
def Eq4F (G : Dkg.Grp) (i : Nat) (Cj : List Int) (s s' : Int) : Prop :=
  ∃ l r, pedF G s s' = .ok l ∧ commitProd G.p (i + 1) Cj = .ok r ∧ l = r

theorem genCheck4_sound (G : Dkg.Grp) (st : GenSt) (C : List (List Int)) (s sp : List Int)
    (idx : List Nat) (gs : List Int) (cm : List Nat) (gs' : List Int) (cm' : List Nat)
    (h : genCheck4 G st C s sp idx gs cm = .ok (gs', cm')) :
    (∀ j ∈ cm, j ∈ cm') ∧
    ∀ j ∈ idx, j ∉ cm' → Eq4S G st.i (getRow C j) (getI s j) (getI sp j) := by
  induction idx generalizing gs cm with
  | nil =>
    simp only [genCheck4, Except.ok.injEq, Prod.mk.injEq] at h
    obtain ⟨_, rfl⟩ := h
    exact ⟨fun _ h => h, fun j hj => by cases hj⟩
  | cons j rest ih =>
    simp only [genCheck4, bind, Except.bind] at h
    cases hp : pedS G (getI s j) (getI sp j) with
    | error e => rw [hp] at h; cases h
    | ok pr =>
      obtain ⟨a, l⟩ := pr
      rw [hp] at h
      simp only at h
      cases hc : commitProd G.p (st.i + 1) (getRow C j) with
      | error e => rw [hc] at h; cases h
      | ok r =>
        rw [hc] at h
        simp only at h
        obtain ⟨h1, h2⟩ := ih _ _ h
        refine ⟨fun k hk => h1 k ?_, ?_⟩
        · split
          · exact List.mem_append_left _ hk
          · exact hk
        · intro k hk hkn
          rcases List.mem_cons.1 hk with rfl | hk
          · by_cases hlr : l = r
            · exact ⟨a, l, r, hp, hc, hlr⟩
            · exfalso
              apply hkn
              apply h1
              have : (l != r) = true := bne_iff_ne.2 hlr
              simp [this]
          · exact h2 k hk hkn

/-- one unfolding of `genReadAnswers`: stop, or continue with the same shares, or continue with a
    share pair for the party itself that passed equation (4) -/
theorem genReadAnswers_step (G : Dkg.Grp) (st : GenSt) (j : Nat) (f : Nat) (I : Inbox) (s sp : List Int)
    (cm : List Nat) (R : Inbox × List Int × List Int × List Nat)
    (h : genReadAnswers G st j (f + 1) I s sp cm = .ok R) :
    (∃ I1 cm1, R = (I1, s, sp, cm1) ∧ ∀ k ∈ cm, k ∈ cm1) ∨
    (∃ I3 cm1, (∀ k ∈ cm, k ∈ cm1) ∧ genReadAnswers G st j f I3 s sp cm1 = .ok R) ∨
    (∃ I3 cm1 foo bar, (∀ k ∈ cm, k ∈ cm1) ∧ Eq4F G st.i (getRow st.C j) foo bar ∧
      genReadAnswers G st j f I3 (s.set j foo) (sp.set j bar) cm1 = .ok R) := by
  unfold genReadAnswers at h
  split at h
  · left; exact ⟨_, _, (Except.ok.inj h).symm, fun k hk => List.mem_append_left _ hk⟩
  · rename_i v I1 _
    simp only at h
    split at h
    · left; exact ⟨_, _, (Except.ok.inj h).symm, fun k hk => hk⟩
    · split at h
      · left; exact ⟨_, _, (Except.ok.inj h).symm, fun k hk => List.mem_append_left _ hk⟩
      · rename_i foo0 I2 _
        split at h
        · left
          refine ⟨_, _, (Except.ok.inj h).symm, fun k hk => List.mem_append_left _ ?_⟩
          split
          · exact List.mem_append_left _ hk
          · exact hk
        · rename_i bar0 I3 _
          generalize (if absGe foo0 G.q = true then (true, (0:Int)) else (false, foo0)) = pf at h
          generalize (if absGe bar0 G.q = true then (true, (0:Int)) else (false, bar0)) = pb at h
          obtain ⟨c1, foo⟩ := pf
          obtain ⟨c2, bar⟩ := pb
          simp only at h
          generalize hcmB : (if c2 = true then (if c1 = true then cm ++ [j] else cm) ++ [j]
            else if c1 = true then cm ++ [j] else cm) = cmB at h
          have hsub : ∀ k ∈ cm, k ∈ cmB := by
            intro k hk
            subst hcmB
            split <;> split <;> simp [hk]
          simp only [bind, Except.bind] at h
          cases hp : pedF G foo bar with
          | error e => rw [hp] at h; cases h
          | ok l =>
            rw [hp] at h
            simp only at h
            cases hc : commitProd G.p (getUi v + 1) (getRow st.C j) with
            | error e => rw [hc] at h; cases h
            | ok r =>
              rw [hc] at h
              simp only at h
              split at h
              · right; left
                exact ⟨_, _, fun k hk => List.mem_append_left _ (hsub k hk), h⟩
              · rename_i hlr
                split at h
                · rename_i hw
                  right; right
                  refine ⟨_, _, foo, bar, hsub, ⟨l, r, hp, hw ▸ hc, ?_⟩, h⟩
                  simpa using hlr
                · right; left
                  exact ⟨_, _, hsub, h⟩
theorem genReadAnswers_mono (G : Dkg.Grp) (st : GenSt) (j : Nat) (f : Nat) (I : Inbox) (s sp : List Int)
    (cm : List Nat) (I' : Inbox) (s' sp' : List Int) (cm' : List Nat)
    (h : genReadAnswers G st j f I s sp cm = .ok (I', s', sp', cm')) :
    ∀ k ∈ cm, k ∈ cm' := by
  induction f generalizing I s sp cm with
  | zero =>
    simp only [genReadAnswers, Except.ok.injEq, Prod.mk.injEq] at h
    obtain ⟨_, _, _, rfl⟩ := h
    exact fun _ h => h
  | succ f ih =>
    rcases genReadAnswers_step G st j f I s sp cm _ h with
      ⟨I1, cm1, hR, hs⟩ | ⟨I3, cm1, hs, h'⟩ | ⟨I3, cm1, foo, bar, hs, _, h'⟩
    · simp only [Prod.mk.injEq] at hR
      obtain ⟨_, _, _, rfl⟩ := hR
      exact hs
    · exact fun k hk => ih _ _ _ _ h' k (hs k hk)
    · exact fun k hk => ih _ _ _ _ h' k (hs k hk)

theorem getI_set_self (l : List Int) (j : Nat) (v : Int) (hj : j < l.length) :
    getI (l.set j v) j = v := by
  simp [getI, List.getD_eq_getElem?_getD, hj]

theorem getI_set_ne (l : List Int) (j k : Nat) (v : Int) (hk : k ≠ j) :
    getI (l.set j v) k = getI l k := by
  simp [getI, List.getD_eq_getElem?_getD, Ne.symm hk]

theorem genReadAnswers_inv (G : Dkg.Grp) (st : GenSt) (j : Nat) (a b : Int) (f : Nat) (I : Inbox)
    (s sp : List Int) (cm : List Nat) (I' : Inbox) (s' sp' : List Int) (cm' : List Nat)
    (hlen : s.length = sp.length)
    (h : genReadAnswers G st j f I s sp cm = .ok (I', s', sp', cm'))
    (hinv : (getI s j = a ∧ getI sp j = b) ∨ Eq4F G st.i (getRow st.C j) (getI s j) (getI sp j)) :
    (getI s' j = a ∧ getI sp' j = b) ∨ Eq4F G st.i (getRow st.C j) (getI s' j) (getI sp' j) := by
  induction f generalizing I s sp cm with
  | zero =>
    simp only [genReadAnswers, Except.ok.injEq, Prod.mk.injEq] at h
    obtain ⟨_, rfl, rfl, _⟩ := h
    exact hinv
  | succ f ih =>
    rcases genReadAnswers_step G st j f I s sp cm _ h with
      ⟨I1, cm1, hR, hs⟩ | ⟨I3, cm1, hs, h'⟩ | ⟨I3, cm1, foo, bar, hs, he, h'⟩
    · simp only [Prod.mk.injEq] at hR
      obtain ⟨_, rfl, rfl, _⟩ := hR
      exact hinv
    · exact ih _ _ _ _ hlen h' hinv
    · apply ih _ _ _ _ (by simp [hlen]) h'
      by_cases hjl : j < s.length
      · right
        rw [getI_set_self _ _ _ hjl, getI_set_self _ _ _ (hlen ▸ hjl)]
        exact he
      · rw [List.set_eq_of_length_le (Nat.le_of_not_lt hjl),
          List.set_eq_of_length_le (hlen ▸ Nat.le_of_not_lt hjl)]
        exact hinv

theorem genReadAnswers_sound (G : Dkg.Grp) (st : GenSt) (j : Nat) (f : Nat) (I : Inbox) (s sp : List Int)
    (cm : List Nat) (I' : Inbox) (s' sp' : List Int) (cm' : List Nat)
    (hlen : s.length = sp.length)
    (h : genReadAnswers G st j f I s sp cm = .ok (I', s', sp', cm')) (hj : j ∉ cm') :
    (getI s' j = getI s j ∧ getI sp' j = getI sp j) ∨
    Eq4F G st.i (getRow st.C j) (getI s' j) (getI sp' j) := by
  have _ := hj  -- not needed: a disqualifying answer leaves the share untouched as well
  exact genReadAnswers_inv G st j _ _ f I s sp cm I' s' sp' cm' hlen h (Or.inl ⟨rfl, rfl⟩)

/-- the answers of dealer `j` never touch the shares held from other dealers -/
theorem genReadAnswers_other (G : Dkg.Grp) (st : GenSt) (j : Nat) (f : Nat) (I : Inbox) (s sp : List Int)
    (cm : List Nat) (I' : Inbox) (s' sp' : List Int) (cm' : List Nat)
    (h : genReadAnswers G st j f I s sp cm = .ok (I', s', sp', cm')) (k : Nat) (hk : k ≠ j) :
    getI s' k = getI s k ∧ getI sp' k = getI sp k := by
  induction f generalizing I s sp cm with
  | zero =>
    simp only [genReadAnswers, Except.ok.injEq, Prod.mk.injEq] at h
    obtain ⟨_, rfl, rfl, _⟩ := h
    exact ⟨rfl, rfl⟩
  | succ f ih =>
    rcases genReadAnswers_step G st j f I s sp cm _ h with
      ⟨I1, cm1, hR, hs⟩ | ⟨I3, cm1, hs, h'⟩ | ⟨I3, cm1, foo, bar, hs, _, h'⟩
    · simp only [Prod.mk.injEq] at hR
      obtain ⟨_, rfl, rfl, _⟩ := hR
      exact ⟨rfl, rfl⟩
    · exact ih _ _ _ _ h'
    · have := ih _ _ _ _ h'
      rw [getI_set_ne _ _ _ _ hk, getI_set_ne _ _ _ _ hk] at this
      exact this

/-- QUAL is the complement of the complaints collected in steps 1(b)-(d) -/
theorem genResolve_qual (G : Dkg.Grp) (st : GenSt) (I : Inbox) (st' : GenSt) (I' : Inbox) (ops : List Op)
    (status : Status) (h : genResolve G st I = .ok (st', I', ops, status)) :
    ∃ I1 s sp cm, genResolveGo G st (List.range st.n) I st.s st.sp st.compl = .ok (I1, s, sp, cm) ∧
      st'.qual = (List.range st.n).filter (fun j => !cm.contains j) ∧ st'.s = s ∧ st'.sp = sp := by
  simp only [genResolve, bind, Except.bind] at h
  cases hg : genResolveGo G st (List.range st.n) I st.s st.sp st.compl with
  | error e => rw [hg] at h; cases h
  | ok R =>
    obtain ⟨I1, s, sp, cm⟩ := R
    rw [hg] at h
    simp only at h
    refine ⟨I1, s, sp, cm, rfl, ?_⟩
    cases hgs : gaList G s with
    | error e => rw [hgs] at h; cases h
    | ok gs =>
    rw [hgs] at h
    simp only at h
    split at h
    · simp only [pure, Except.pure, Except.ok.injEq, Prod.mk.injEq] at h
      obtain ⟨rfl, _⟩ := h
      exact ⟨rfl, rfl, rfl⟩
    · split at h
      · simp only [pure, Except.pure, Except.ok.injEq, Prod.mk.injEq] at h
        obtain ⟨rfl, _⟩ := h
        exact ⟨rfl, rfl, rfl⟩
      · split at h
        · simp only [pure, Except.pure, Except.ok.injEq, Prod.mk.injEq] at h
          obtain ⟨rfl, _⟩ := h
          exact ⟨rfl, rfl, rfl⟩
        · simp only [pure, Except.pure, Except.ok.injEq, Prod.mk.injEq] at h
          obtain ⟨rfl, _⟩ := h
          exact ⟨rfl, rfl, rfl⟩

/-! ### after the repair of step 1(d): unanswered complaints disqualify -/

/-- reading from sender `j` leaves the other broadcast buffers and the private buffers alone -/
def FrameB (j : Nat) (I I' : Inbox) : Prop :=
  (∀ k, k ≠ j → I'.b.getD k [] = I.b.getD k []) ∧ I'.p = I.p

theorem FrameB.refl (j : Nat) (I : Inbox) : FrameB j I I := ⟨fun _ _ => rfl, rfl⟩

theorem FrameB.trans {j : Nat} {I I1 I2 : Inbox} (h1 : FrameB j I I1) (h2 : FrameB j I1 I2) :
    FrameB j I I2 :=
  ⟨fun k hk => (h2.1 k hk).trans (h1.1 k hk), h2.2.trans h1.2⟩

theorem popB_frame (I : Inbox) (tag : Tag) (j : Nat) : FrameB j I (I.popB tag j).2 := by
  unfold Inbox.popB
  split
  · exact FrameB.refl j I
  · refine ⟨fun k hk => ?_, rfl⟩
    simp [List.getD_eq_getElem?_getD, Ne.symm hk]

theorem popB_frame' {I : Inbox} {tag : Tag} {j : Nat} {o : Option Int} {I1 : Inbox}
    (h : I.popB tag j = (o, I1)) : FrameB j I I1 := by
  have := popB_frame I tag j
  rw [h] at this
  exact this

/-- one unfolding of `genReadAnswers` in lock step with `answeredOf` -/
theorem genReadAnswers_step2 (G : Dkg.Grp) (st : GenSt) (j : Nat) (f : Nat) (I : Inbox) (s sp : List Int)
    (cm : List Nat) (R : Inbox × List Int × List Int × List Nat) (acc : List Nat)
    (h : genReadAnswers G st j (f + 1) I s sp cm = .ok R) :
    (∃ I1 cm1, R = (I1, s, sp, cm1) ∧ (∀ k ∈ cm, k ∈ cm1) ∧ FrameB j I I1 ∧
      (answeredOf st.n j (f + 1) I acc = acc ∨
        (j ∈ cm1 ∧ ∃ who, answeredOf st.n j (f + 1) I acc = acc ++ [who]))) ∨
    (∃ I3 cm1 who, (∀ k ∈ cm, k ∈ cm1) ∧ FrameB j I I3 ∧
      genReadAnswers G st j f I3 s sp cm1 = .ok R ∧
      answeredOf st.n j (f + 1) I acc = answeredOf st.n j f I3 (acc ++ [who]) ∧
      (who = st.i → j ∈ cm1)) ∨
    (∃ I3 cm1 foo bar, (∀ k ∈ cm, k ∈ cm1) ∧ FrameB j I I3 ∧ Eq4F G st.i (getRow st.C j) foo bar ∧
      genReadAnswers G st j f I3 (s.set j foo) (sp.set j bar) cm1 = .ok R ∧
      answeredOf st.n j (f + 1) I acc = answeredOf st.n j f I3 (acc ++ [st.i])) := by
  unfold genReadAnswers at h
  split at h
  · rename_i I1 h1
    left
    refine ⟨_, _, (Except.ok.inj h).symm, fun k hk => List.mem_append_left _ hk, popB_frame' h1, Or.inl ?_⟩
    simp only [answeredOf, h1]
  · rename_i v I1 h1
    simp only at h
    split at h
    · rename_i hge
      left
      refine ⟨_, _, (Except.ok.inj h).symm, fun k hk => hk, popB_frame' h1, Or.inl ?_⟩
      simp only [answeredOf, h1, hge, if_true]
    · rename_i hge
      split at h
      · rename_i I2 h2
        left
        refine ⟨_, _, (Except.ok.inj h).symm, fun k hk => List.mem_append_left _ hk,
          (popB_frame' h1).trans (popB_frame' h2), Or.inr ⟨by simp, getUi v, ?_⟩⟩
        simp only [answeredOf, h1, hge, if_false, h2]
      · rename_i foo0 I2 h2
        split at h
        · rename_i I3 h3
          left
          refine ⟨_, _, (Except.ok.inj h).symm, fun k hk => List.mem_append_left _ ?_,
            ((popB_frame' h1).trans (popB_frame' h2)).trans (popB_frame' h3),
            Or.inr ⟨by simp, getUi v, ?_⟩⟩
          · split
            · exact List.mem_append_left _ hk
            · exact hk
          · simp only [answeredOf, h1, hge, if_false, h2, h3]
        · rename_i bar0 I3 h3
          have hfr : FrameB j I I3 :=
            ((popB_frame' h1).trans (popB_frame' h2)).trans (popB_frame' h3)
          have hao : answeredOf st.n j (f + 1) I acc = answeredOf st.n j f I3 (acc ++ [getUi v]) := by
            simp only [answeredOf, h1, hge, if_false, h2, h3]
          generalize (if absGe foo0 G.q = true then (true, (0:Int)) else (false, foo0)) = pf at h
          generalize (if absGe bar0 G.q = true then (true, (0:Int)) else (false, bar0)) = pb at h
          obtain ⟨c1, foo⟩ := pf
          obtain ⟨c2, bar⟩ := pb
          simp only at h
          generalize hcmB : (if c2 = true then (if c1 = true then cm ++ [j] else cm) ++ [j]
            else if c1 = true then cm ++ [j] else cm) = cmB at h
          have hsub : ∀ k ∈ cm, k ∈ cmB := by
            intro k hk
            subst hcmB
            split <;> split <;> simp [hk]
          simp only [bind, Except.bind] at h
          cases hp : pedF G foo bar with
          | error e => rw [hp] at h; cases h
          | ok l =>
            rw [hp] at h
            simp only at h
            cases hc : commitProd G.p (getUi v + 1) (getRow st.C j) with
            | error e => rw [hc] at h; cases h
            | ok r =>
              rw [hc] at h
              simp only at h
              split at h
              · right; left
                exact ⟨_, _, getUi v, fun k hk => List.mem_append_left _ (hsub k hk), hfr, h, hao,
                  fun _ => by simp⟩
              · rename_i hlr
                split at h
                · rename_i hw
                  right; right
                  refine ⟨_, _, foo, bar, hsub, hfr, ⟨l, r, hp, hw ▸ hc, ?_⟩, h, hw ▸ hao⟩
                  simpa using hlr
                · rename_i hw
                  right; left
                  exact ⟨_, _, getUi v, hsub, hfr, h, hao, fun e => absurd e hw⟩

theorem genReadAnswers_length (G : Dkg.Grp) (st : GenSt) (j : Nat) (f : Nat) (I : Inbox) (s sp : List Int)
    (cm : List Nat) (I' : Inbox) (s' sp' : List Int) (cm' : List Nat)
    (h : genReadAnswers G st j f I s sp cm = .ok (I', s', sp', cm')) :
    s'.length = s.length ∧ sp'.length = sp.length := by
  induction f generalizing I s sp cm with
  | zero =>
    simp only [genReadAnswers, Except.ok.injEq, Prod.mk.injEq] at h
    obtain ⟨_, rfl, rfl, _⟩ := h
    exact ⟨rfl, rfl⟩
  | succ f ih =>
    rcases genReadAnswers_step G st j f I s sp cm _ h with
      ⟨I1, cm1, hR, hs⟩ | ⟨I3, cm1, hs, h'⟩ | ⟨I3, cm1, foo, bar, hs, _, h'⟩
    · simp only [Prod.mk.injEq] at hR
      obtain ⟨_, rfl, rfl, _⟩ := hR
      exact ⟨rfl, rfl⟩
    · exact ih _ _ _ _ h'
    · have := ih _ _ _ _ h'
      simpa using this

theorem genReadAnswers_answered_acc (G : Dkg.Grp) (st : GenSt) (j : Nat) (f : Nat) (I : Inbox)
    (s sp : List Int) (cm : List Nat) (acc : List Nat) (I' : Inbox) (s' sp' : List Int) (cm' : List Nat)
    (hlen : s.length = sp.length) (hjlen : j < s.length)
    (h : genReadAnswers G st j f I s sp cm = .ok (I', s', sp', cm')) (hj : j ∉ cm')
    (hinv : st.i ∈ acc → Eq4F G st.i (getRow st.C j) (getI s j) (getI sp j))
    (hans : st.i ∈ answeredOf st.n j f I acc) :
    Eq4F G st.i (getRow st.C j) (getI s' j) (getI sp' j) := by
  induction f generalizing I s sp cm acc with
  | zero =>
    simp only [genReadAnswers, Except.ok.injEq, Prod.mk.injEq] at h
    obtain ⟨_, rfl, rfl, _⟩ := h
    exact hinv (by simpa [answeredOf] using hans)
  | succ f ih =>
    rcases genReadAnswers_step2 G st j f I s sp cm _ acc h with
      ⟨I1, cm1, hR, hs, _, ha⟩ | ⟨I3, cm1, who, hs, _, h', ha, hw⟩ |
      ⟨I3, cm1, foo, bar, hs, _, he, h', ha⟩
    · simp only [Prod.mk.injEq] at hR
      obtain ⟨_, rfl, rfl, rfl⟩ := hR
      rcases ha with ha | ⟨hjc, _⟩
      · rw [ha] at hans
        exact hinv hans
      · exact absurd hjc hj
    · rw [ha] at hans
      refine ih _ _ _ _ _ hlen hjlen h' ?_ hans
      intro hm
      rcases List.mem_append.1 hm with hm | hm
      · exact hinv hm
      · have : st.i = who := by simpa using hm
        exact absurd (genReadAnswers_mono G st j f _ _ _ _ _ _ _ _ h' j (hw this.symm)) hj
    · rw [ha] at hans
      refine ih _ _ _ _ _ (by simp [hlen]) (by simpa using hjlen) h' ?_ hans
      intro _
      rw [getI_set_self _ _ _ hjlen, getI_set_self _ _ _ (hlen ▸ hjlen)]
      exact he

/-- if dealer `j` answered the complaint of party `i` (the reader) and its answers do not disqualify
    it, the share the reader holds from `j` afterwards satisfies equation (4) -/
theorem genReadAnswers_answered (G : Dkg.Grp) (st : GenSt) (j : Nat) (f : Nat) (I : Inbox) (s sp : List Int)
    (cm : List Nat) (I' : Inbox) (s' sp' : List Int) (cm' : List Nat)
    (hlen : s.length = sp.length) (hjlen : j < s.length)
    (h : genReadAnswers G st j f I s sp cm = .ok (I', s', sp', cm')) (hj : j ∉ cm')
    (hans : st.i ∈ answeredOf st.n j f I []) :
    Eq4F G st.i (getRow st.C j) (getI s' j) (getI sp' j) :=
  genReadAnswers_answered_acc G st j f I s sp cm [] I' s' sp' cm' hlen hjlen h hj
    (fun hm => by cases hm) hans

/-- a dealer that stays out of the complaint list of step 1(d) has answered every complaint recorded
    against it (one step of `genResolveGo`) -/
theorem unanswered_nil_of_not_mem (st : GenSt) (j : Nat) (I : Inbox) (cm : List Nat)
    (hj : j ∉ cm ++ unanswered st j I) :
    ∀ c ∈ st.complainers.getD j [], c ∈ answeredOf st.n j (st.n + 1) I [] := by
  intro c hc
  refine Classical.byContradiction fun hn => hj (List.mem_append_right _ ?_)
  unfold unanswered
  exact List.mem_map.2 ⟨c, List.mem_filter.2 ⟨hc, by simpa using hn⟩, rfl⟩

/-- the reads of sender `j` only consume the buffer of `j` -/
theorem genReadAnswers_frame (G : Dkg.Grp) (st : GenSt) (j : Nat) (f : Nat) (I : Inbox) (s sp : List Int)
    (cm : List Nat) (I' : Inbox) (s' sp' : List Int) (cm' : List Nat)
    (h : genReadAnswers G st j f I s sp cm = .ok (I', s', sp', cm')) (k : Nat) (hk : k ≠ j) :
    I'.b.getD k [] = I.b.getD k [] ∧ I'.p = I.p := by
  suffices hF : FrameB j I I' from ⟨hF.1 k hk, hF.2⟩
  clear hk
  induction f generalizing I s sp cm with
  | zero =>
    simp only [genReadAnswers, Except.ok.injEq, Prod.mk.injEq] at h
    obtain ⟨rfl, _⟩ := h
    exact FrameB.refl j _
  | succ f ih =>
    rcases genReadAnswers_step2 G st j f I s sp cm _ [] h with
      ⟨I1, cm1, hR, _, hfr, _⟩ | ⟨I3, cm1, who, _, hfr, h', _⟩ |
      ⟨I3, cm1, foo, bar, _, hfr, _, h', _⟩
    · simp only [Prod.mk.injEq] at hR
      obtain ⟨rfl, _⟩ := hR
      exact hfr
    · exact hfr.trans (ih _ _ _ _ h')
    · exact hfr.trans (ih _ _ _ _ h')

theorem genResolveGo_step (G : Dkg.Grp) (st : GenSt) (k : Nat) (rest : List Nat) (I : Inbox)
    (s sp : List Int) (cm : List Nat) (R : Inbox × List Int × List Int × List Nat)
    (h : genResolveGo G st (k :: rest) I s sp cm = .ok R) :
    (∃ cm1, (∀ x ∈ cm, x ∈ cm1) ∧ (getN st.cnt k > st.t → k ∈ cm1) ∧
      (getN st.cnt k > st.t ∨ k = st.i) ∧ genResolveGo G st rest I s sp cm1 = .ok R) ∨
    (k ≠ st.i ∧ ∃ I1 s1 sp1 cm1,
      genReadAnswers G st k (st.n + 1) I s sp cm = .ok (I1, s1, sp1, cm1) ∧
      genResolveGo G st rest I1 s1 sp1 (cm1 ++ unanswered st k I) = .ok R) := by
  simp only [genResolveGo] at h
  split at h
  · rename_i hc
    left
    exact ⟨_, fun x hx => List.mem_append_left _ hx, fun _ => by simp, Or.inl hc, h⟩
  · rename_i hc
    split at h
    · rename_i hk
      left
      exact ⟨_, fun x hx => hx, fun hc' => absurd hc' hc, Or.inr hk, h⟩
    · rename_i hk
      right
      refine ⟨hk, ?_⟩
      simp only [bind, Except.bind] at h
      cases hr : genReadAnswers G st k (st.n + 1) I s sp cm with
      | error e => rw [hr] at h; cases h
      | ok R1 =>
        obtain ⟨I1, s1, sp1, cm1⟩ := R1
        rw [hr] at h
        exact ⟨_, _, _, _, rfl, h⟩

theorem genResolveGo_mono (G : Dkg.Grp) (st : GenSt) (idx : List Nat)
    (I : Inbox) (s sp : List Int) (cm : List Nat) (I' : Inbox) (s' sp' : List Int) (cm' : List Nat)
    (h : genResolveGo G st idx I s sp cm = .ok (I', s', sp', cm')) :
    ∀ x ∈ cm, x ∈ cm' := by
  induction idx generalizing I s sp cm with
  | nil =>
    simp only [genResolveGo, Except.ok.injEq, Prod.mk.injEq] at h
    obtain ⟨_, _, _, rfl⟩ := h
    exact fun _ hx => hx
  | cons k rest ih =>
    rcases genResolveGo_step G st k rest I s sp cm _ h with
      ⟨cm1, hs, _, _, h'⟩ | ⟨_, I1, s1, sp1, cm1, hr, h'⟩
    · exact fun x hx => ih _ _ _ _ h' x (hs x hx)
    · exact fun x hx => ih _ _ _ _ h' x
        (List.mem_append_left _ (genReadAnswers_mono G st k _ _ _ _ _ _ _ _ _ hr x hx))

theorem genResolveGo_other (G : Dkg.Grp) (st : GenSt) (idx : List Nat)
    (I : Inbox) (s sp : List Int) (cm : List Nat) (I' : Inbox) (s' sp' : List Int) (cm' : List Nat)
    (h : genResolveGo G st idx I s sp cm = .ok (I', s', sp', cm')) (j : Nat) (hj : j ∉ idx) :
    getI s' j = getI s j ∧ getI sp' j = getI sp j := by
  induction idx generalizing I s sp cm with
  | nil =>
    simp only [genResolveGo, Except.ok.injEq, Prod.mk.injEq] at h
    obtain ⟨_, rfl, rfl, _⟩ := h
    exact ⟨rfl, rfl⟩
  | cons k rest ih =>
    have hjk : j ≠ k := fun e => hj (e ▸ List.mem_cons_self)
    have hjr : j ∉ rest := fun e => hj (List.mem_cons_of_mem _ e)
    rcases genResolveGo_step G st k rest I s sp cm _ h with
      ⟨cm1, _, _, _, h'⟩ | ⟨_, I1, s1, sp1, cm1, hr, h'⟩
    · exact ih _ _ _ _ h' hjr
    · have h1 := ih _ _ _ _ h' hjr
      have h2 := genReadAnswers_other G st k _ _ _ _ _ _ _ _ _ hr j hjk
      exact ⟨h1.1.trans h2.1, h1.2.trans h2.2⟩

/-- **step 1(d), repaired code**: for every dealer `j ≠ i` in QUAL that party `i` complained about in
    step 1(b) (`i ∈ complainers[j]`), the share `i` holds from `j` after step 1(d) satisfies (4) -/
theorem genResolveGo_share_valid (G : Dkg.Grp) (st : GenSt) (idx : List Nat) (hnd : idx.Nodup)
    (I : Inbox) (s sp : List Int) (cm : List Nat) (I' : Inbox) (s' sp' : List Int) (cm' : List Nat)
    (hlen : s.length = sp.length)
    (h : genResolveGo G st idx I s sp cm = .ok (I', s', sp', cm'))
    (j : Nat) (hjidx : j ∈ idx) (hji : j ≠ st.i) (hjlen : j < s.length) (hj : j ∉ cm')
    (hcompl : st.i ∈ st.complainers.getD j []) :
    Eq4F G st.i (getRow st.C j) (getI s' j) (getI sp' j) := by
  induction idx generalizing I s sp cm with
  | nil => cases hjidx
  | cons k rest ih =>
    have hnd' : rest.Nodup := (List.nodup_cons.1 hnd).2
    have hkr : k ∉ rest := (List.nodup_cons.1 hnd).1
    rcases genResolveGo_step G st k rest I s sp cm _ h with
      ⟨cm1, _, hc, hor, h'⟩ | ⟨_, I1, s1, sp1, cm1, hr, h'⟩
    · have hjk : j ≠ k := by
        intro e
        subst e
        rcases hor with hc' | hk
        · exact hj (genResolveGo_mono G st _ _ _ _ _ _ _ _ _ h' j (hc hc'))
        · exact hji hk
      have hjr : j ∈ rest := by
        rcases List.mem_cons.1 hjidx with e | e
        · exact absurd e hjk
        · exact e
      exact ih hnd' _ _ _ _ hlen h' hjr hjlen
    · obtain ⟨hl1, hl2⟩ := genReadAnswers_length G st k _ _ _ _ _ _ _ _ _ hr
      by_cases hjk : j = k
      · subst hjk
        have hjn : j ∉ cm1 ++ unanswered st j I :=
          fun e => hj (genResolveGo_mono G st _ _ _ _ _ _ _ _ _ h' j e)
        have hans := unanswered_nil_of_not_mem st j I cm1 hjn st.i hcompl
        have hv := genReadAnswers_answered G st j _ _ _ _ _ _ _ _ _ hlen hjlen hr
          (fun e => hjn (List.mem_append_left _ e)) hans
        obtain ⟨e1, e2⟩ := genResolveGo_other G st _ _ _ _ _ _ _ _ _ h' j hkr
        rw [e1, e2]
        exact hv
      · have hjr : j ∈ rest := by
          rcases List.mem_cons.1 hjidx with e | e
          · exact absurd e hjk
          · exact e
        exact ih hnd' _ _ _ _ (by rw [hl1, hl2, hlen]) h' hjr (by rw [hl1]; exact hjlen)

/-! ### the extraction phase, step 4(b) -/

theorem readElems_good (G : Dkg.Grp) (tag : Tag) (j : Nat) (f : Nat) (I : Inbox) (acc : List Int)
    (c : Bool) (I' : Inbox) (row : List Int)
    (h : readElems G tag j f I acc c = (false, I', row)) :
    c = false ∧ ∃ r, row = acc ++ r ∧ r.length = f ∧ ∀ x ∈ r, Dkg.checkElement G x = true := by
  induction f generalizing I acc c with
  | zero =>
    simp only [readElems, Prod.mk.injEq] at h
    obtain ⟨rfl, _, rfl⟩ := h
    exact ⟨rfl, [], by simp, rfl, fun _ hx => by cases hx⟩
  | succ f ih =>
    unfold readElems at h
    split at h
    · simp only [Prod.mk.injEq] at h
      exact absurd h.1 (by decide)
    · rename_i v I1 _
      split at h
      · rename_i hv
        obtain ⟨hc, r, hr, hl, hg⟩ := ih _ _ _ h
        refine ⟨hc, v :: r, by simp [hr], by simp [hl], ?_⟩
        intro x hx
        rcases List.mem_cons.1 hx with rfl | hx
        · exact hv
        · exact hg x hx
      · obtain ⟨hc, _⟩ := ih _ _ _ h
        cases hc

theorem getRow_set_self (A : List (List Int)) (j : Nat) (v : List Int) (hj : j < A.length) :
    getRow (A.set j v) j = v := by
  simp [getRow, List.getD_eq_getElem?_getD, hj]

theorem getRow_set_ne (A : List (List Int)) (j k : Nat) (v : List Int) (hk : k ≠ j) :
    getRow (A.set j v) k = getRow A k := by
  simp [getRow, List.getD_eq_getElem?_getD, Ne.symm hk]

theorem genReadA_step (G : Dkg.Grp) (st : GenSt) (k : Nat) (rest : List Nat) (I : Inbox)
    (A : List (List Int)) (cm : List Nat) (R : Inbox × List (List Int) × List Nat)
    (h : genReadA G st (k :: rest) I A cm = .ok R) :
    ((k = st.i ∨ st.qual.contains k = false) ∧ genReadA G st rest I A cm = .ok R) ∨
    (k ≠ st.i ∧ st.qual.contains k = true ∧ ∃ c I1 row rhs,
      readElems G none k (st.t + 1) I [] false = (c, I1, row) ∧
      commitProd G.p (st.i + 1) (padRow st.t row) = .ok rhs ∧
      genReadA G st rest I1 (A.set k (padRow st.t row))
        (if (c || (getI st.gs k != rhs)) = true then cm ++ [k] else cm) = .ok R) := by
  simp only [genReadA] at h
  split at h
  · rename_i hc
    left
    refine ⟨?_, h⟩
    rcases hc with hc | hc
    · exact Or.inl hc
    · exact Or.inr (by simpa using hc)
  · rename_i hc
    right
    have hc1 : k ≠ st.i := fun e => hc (Or.inl e)
    have hc2 : st.qual.contains k = true := by
      cases hq : st.qual.contains k with
      | true => rfl
      | false => exact absurd (Or.inr (by rw [hq]; rfl)) hc
    refine ⟨hc1, hc2, ?_⟩
    generalize hre : readElems G none k (st.t + 1) I [] false = re at h
    obtain ⟨c, I1, row⟩ := re
    simp only [bind, Except.bind] at h
    cases hcp : commitProd G.p (st.i + 1) (padRow st.t row) with
    | error e => rw [hcp] at h; cases h
    | ok rhs =>
      rw [hcp] at h
      exact ⟨c, I1, row, rhs, rfl, hcp, h⟩

theorem genReadA_mono (G : Dkg.Grp) (st : GenSt) (idx : List Nat) (I : Inbox)
    (A : List (List Int)) (cm : List Nat) (I' : Inbox) (A' : List (List Int)) (cm' : List Nat)
    (h : genReadA G st idx I A cm = .ok (I', A', cm')) : ∀ k ∈ cm, k ∈ cm' := by
  induction idx generalizing I A cm with
  | nil =>
    simp only [genReadA, Except.ok.injEq, Prod.mk.injEq] at h
    obtain ⟨_, _, rfl⟩ := h
    exact fun _ hx => hx
  | cons k rest ih =>
    rcases genReadA_step G st k rest I A cm _ h with ⟨_, h'⟩ | ⟨_, _, c, I1, row, rhs, _, _, h'⟩
    · exact ih _ _ _ h'
    · intro x hx
      refine ih _ _ _ h' x ?_
      split
      · exact List.mem_append_left _ hx
      · exact hx

theorem genReadA_other (G : Dkg.Grp) (st : GenSt) (idx : List Nat) (I : Inbox)
    (A : List (List Int)) (cm : List Nat) (I' : Inbox) (A' : List (List Int)) (cm' : List Nat)
    (h : genReadA G st idx I A cm = .ok (I', A', cm')) (j : Nat) (hj : j ∉ idx) :
    getRow A' j = getRow A j := by
  induction idx generalizing I A cm with
  | nil =>
    simp only [genReadA, Except.ok.injEq, Prod.mk.injEq] at h
    obtain ⟨_, rfl, _⟩ := h
    rfl
  | cons k rest ih =>
    have hjk : j ≠ k := fun e => hj (e ▸ List.mem_cons_self)
    have hjr : j ∉ rest := fun e => hj (List.mem_cons_of_mem _ e)
    rcases genReadA_step G st k rest I A cm _ h with ⟨_, h'⟩ | ⟨_, _, c, I1, row, rhs, _, _, h'⟩
    · exact ih _ _ _ h' hjr
    · rw [ih _ _ _ h' hjr, getRow_set_ne _ _ _ _ hjk]

/-- step 4(b): a dealer `j ∈ QUAL` the party does NOT complain about published `t+1` group elements
    that satisfy equation (5) for the (refreshed) cache `g^{s_ji}` the party holds -/
theorem genReadA_sound (G : Dkg.Grp) (st : GenSt) (idx : List Nat) (hnd : idx.Nodup) (I : Inbox)
    (A : List (List Int)) (cm : List Nat) (I' : Inbox) (A' : List (List Int)) (cm' : List Nat)
    (h : genReadA G st idx I A cm = .ok (I', A', cm')) :
    (∀ k ∈ cm, k ∈ cm') ∧
    ∀ j ∈ idx, j ≠ st.i → st.qual.contains j = true → j < A.length → j ∉ cm' →
      (∀ c ∈ getRow A' j, Dkg.checkElement G c = true) ∧
      commitProd G.p (st.i + 1) (getRow A' j) = .ok (getI st.gs j) := by
  refine ⟨genReadA_mono G st idx I A cm I' A' cm' h, ?_⟩
  induction idx generalizing I A cm with
  | nil => intro j hj; cases hj
  | cons k rest ih =>
    have hnd' : rest.Nodup := (List.nodup_cons.1 hnd).2
    have hkr : k ∉ rest := (List.nodup_cons.1 hnd).1
    intro j hjidx hji hq hjlen hjc
    rcases genReadA_step G st k rest I A cm _ h with
      ⟨hor, h'⟩ | ⟨_, _, c, I1, row, rhs, hre, hcp, h'⟩
    · have hjk : j ≠ k := by
        intro e
        subst e
        rcases hor with e | e
        · exact hji e
        · rw [e] at hq; cases hq
      have hjr : j ∈ rest := by
        rcases List.mem_cons.1 hjidx with e | e
        · exact absurd e hjk
        · exact e
      exact ih hnd' _ _ _ h' j hjr hji hq hjlen hjc
    · by_cases hjk : j = k
      · subst hjk
        have hcb : (c || (getI st.gs j != rhs)) = false := by
          cases hb : (c || (getI st.gs j != rhs)) with
          | false => rfl
          | true =>
            rw [hb] at h'
            exact absurd (genReadA_mono G st _ _ _ _ _ _ _ h' j (by simp)) hjc
        have hc : c = false := by
          cases c with
          | false => rfl
          | true => simp at hcb
        have hgs : getI st.gs j = rhs := by
          subst hc
          simpa using hcb
        subst hc
        obtain ⟨_, r, hr, hl, hg⟩ := readElems_good G none j _ _ _ _ _ _ hre
        simp only [List.nil_append] at hr
        subst hr
        have hpad : padRow st.t row = row := by
          simp [padRow, zeros, hl]
        rw [hpad] at hcp h'
        rw [genReadA_other G st _ _ _ _ _ _ _ h' j hkr, getRow_set_self _ _ _ hjlen]
        exact ⟨hg, hgs ▸ hcp⟩
      · have hjr : j ∈ rest := by
          rcases List.mem_cons.1 hjidx with e | e
          · exact absurd e hjk
          · exact e
        exact ih hnd' _ _ _ h' j hjr hji hq (by simpa using hjlen) hjc

/-- after step 1(d) the cache holds `g^{s_ji}` for the shares the party now holds -/
theorem genResolve_gs (G : Dkg.Grp) (st : GenSt) (I : Inbox) (st' : GenSt) (I' : Inbox) (ops : List Op)
    (status : Status) (h : genResolve G st I = .ok (st', I', ops, status)) :
    gaList G st'.s = .ok st'.gs := by
  simp only [genResolve, bind, Except.bind] at h
  cases hg : genResolveGo G st (List.range st.n) I st.s st.sp st.compl with
  | error e => rw [hg] at h; cases h
  | ok R =>
    obtain ⟨I1, s, sp, cm⟩ := R
    rw [hg] at h
    simp only at h
    cases hgs : gaList G s with
    | error e => rw [hgs] at h; cases h
    | ok gs =>
    rw [hgs] at h
    simp only at h
    split at h
    · simp only [pure, Except.pure, Except.ok.injEq, Prod.mk.injEq] at h
      obtain ⟨rfl, _⟩ := h
      exact hgs
    · split at h
      · simp only [pure, Except.pure, Except.ok.injEq, Prod.mk.injEq] at h
        obtain ⟨rfl, _⟩ := h
        exact hgs
      · split at h
        · simp only [pure, Except.pure, Except.ok.injEq, Prod.mk.injEq] at h
          obtain ⟨rfl, _⟩ := h
          exact hgs
        · simp only [pure, Except.pure, Except.ok.injEq, Prod.mk.injEq] at h
          obtain ⟨rfl, _⟩ := h
          exact hgs

end Tmcg.DkgP
