import TmcgProofs.JlInv
import TmcgProofs.JlArith
/-
  C17, multi-party part: transition round 6+k (jlRecStep) of the run invariants (TmcgProofs/JlInv.lean).

  Helper lemmas live in the namespace `Tmcg.JlProofs.TRec`:
    * `recVerify_spec`     the verification loop of `Reconstruct` (who is accepted, which shares are stored)
    * `rec_interp`         interpolation over `t+1` accepted parties yields the committed share
    * `rec_verify_facts`   the loop as run by an honest party in round `6 + k`
    * `recStep_ok`         the whole step of an honest party in round `6 + k`
-/
namespace Tmcg.JlProofs
open Tmcg Tmcg.Powm Tmcg.Vtmf Tmcg.Grp Tmcg.Jl

variable {G : Jl.Grp} {ins : List PartyIn} {n t : Nat}

namespace TRec

theorem flipStep_rec (G : Jl.Grp) (ins : List PartyIn) (n t k x : Nat) :
    flipStep G ins n t (6 + k) x = jlRecStep G := by
  rw [Nat.add_comm]
  rfl

theorem popQ_head (tag : Tag) (v : Int) (l : List (Tag × Int)) : popQ tag ((tag, v) :: l) = (some v, l) := by
  simp [popQ, removeFirst_head]

theorem parseRec_pair (q : Int) (tag : Tag) (s sp : Int) (h1 : absGe s q = false) (h2 : absGe sp q = false) :
    parseRec q tag [(tag, s), (tag, sp)] = ([], some (s, sp)) := by
  simp [parseRec, popQ_head, h1, h2]

theorem popQ_some (tag : Tag) (l : List (Tag × Int)) (v : Int) (r : List (Tag × Int))
    (h : popQ tag l = (some v, r)) : (tag, v) ∈ l ∧ ∀ e ∈ r, e ∈ l := by
  unfold popQ at h
  cases hr : removeFirst tag l with
  | none => simp [hr] at h
  | some vr =>
    obtain ⟨v', r'⟩ := vr
    simp only [hr, Prod.mk.injEq, Option.some.injEq] at h
    obtain ⟨h1, h2⟩ := h
    subst h1 h2
    obtain ⟨i1, -, i3⟩ := removeFirst_mem tag l v' r' hr
    exact ⟨i1, i3⟩

theorem parseRec_some (q : Int) (tag : Tag) (bq : List (Tag × Int)) (foo bar : Int)
    (h : (parseRec q tag bq).2 = some (foo, bar)) :
    (tag, foo) ∈ bq ∧ (tag, bar) ∈ bq ∧ absGe foo q = false ∧ absGe bar q = false := by
  unfold parseRec at h
  rcases h1 : popQ tag bq with ⟨o1, q1⟩
  rw [h1] at h
  cases o1 with
  | none => simp at h
  | some f =>
    simp only at h
    rcases h2 : popQ tag q1 with ⟨o2, q2⟩
    rw [h2] at h
    cases o2 with
    | none => simp at h
    | some b =>
      simp only at h
      by_cases hc : (absGe f q || absGe b q) = true
      · simp [hc] at h
      · simp only [hc, Bool.false_eq_true, if_false, Option.some.injEq, Prod.mk.injEq] at h
        obtain ⟨e1, e2⟩ := h
        subst e1 e2
        obtain ⟨m1, s1⟩ := popQ_some tag bq f q1 h1
        obtain ⟨m2, -⟩ := popQ_some tag q1 b q2 h2
        simp only [Bool.or_eq_true, not_or, Bool.not_eq_true] at hc
        exact ⟨m1, s1 _ m2, hc.1, hc.2⟩

theorem eq_committed (hG : ValidGrp G) (zv : Int) (hr : InRange G zv) (z : Zq G) (h : toQ G zv = z) :
    zv = ((z.val : Nat) : Int) := by
  have hq := q_pos hG
  obtain ⟨h0, h1⟩ := hr
  have hlt : zv.toNat < G.q.natAbs := by omega
  have e : zv = ((zv.toNat : Nat) : Int) := by omega
  subst h
  unfold toQ
  rw [e, Int.cast_natCast, ZMod.val_natCast_of_lt hlt]

theorem jlRecNext_nil (G : Jl.Grp) (s : St) (h : s.todo = []) :
    jlRecNext G s = ({ s with coin := some (sumMod G.q s.a s.qual) }, [], .ret true) := by
  unfold jlRecNext
  rw [h]

theorem jlRecNext_cons (G : Jl.Grp) (s : St) (it : Nat) (rest : List Nat) (h : s.todo = it :: rest)
    (hq : s.qual.contains it = true) (h1 : s.racc.contains s.i = false) (h2 : s.qual.contains s.i = true) :
    jlRecNext G s = (s, [Op.bc (tagRec s.racc) (getI s.s it), Op.bc (tagRec s.racc) (getI s.sp it)], .run) := by
  unfold jlRecNext
  rw [h]
  simp only [hq, h1, h2, Bool.not_true, Bool.not_false, Bool.false_eq_true, if_false, Bool.and_self, if_true]

theorem honest_count (hS : Setup G ins n t) :
    n - t ≤ ((List.range n).filter (fun k => (pinOf ins k).dev.honest)).length := by
  have h := hS.hdev
  have h2 := List.length_eq_length_filter_add (l := List.range n) (fun k => (pinOf ins k).dev.honest)
  simp only [List.length_range] at h2
  omega

theorem recVerify_spec [Fact (Nat.Prime (grp G).p.natAbs)] (hG : ValidGrp G) (st : St) (it : Nat)
    (res : Nat → Option (Int × Int))
    (hres : ∀ jt foo bar, res jt = some (foo, bar) → AbsLt G foo ∧ AbsLt G bar) :
    ∀ (js parties : List Nat) (shares : List Int), ∃ parties' shares',
      recVerify G st it res js parties shares = .ok (parties', shares') ∧
      shares'.length = shares.length ∧
      (∀ j, j ∈ parties' ↔ j ∈ parties ∨ (j ∈ js ∧ ∃ foo bar, res j = some (foo, bar) ∧
          com G foo bar = rowF G (getRow st.C it) (j + 1))) ∧
      (parties.Nodup → js.Nodup → (∀ j ∈ js, j ∉ parties) → parties'.Nodup) ∧
      (∀ j, j ∉ js → getI shares' j = getI shares j) ∧
      (js.Nodup → ∀ j ∈ js, j < shares.length → ∀ foo bar, res j = some (foo, bar) →
        getI shares' j = foo) := by
  intro js
  induction js with
  | nil =>
    intro parties shares
    exact ⟨parties, shares, rfl, rfl, by simp, fun h _ _ => h, fun _ _ => rfl, by simp⟩
  | cons jt rest ih =>
    intro parties shares
    cases hr : res jt with
    | none =>
      obtain ⟨p', s', e, hl, hm, hn, hs1, hs2⟩ := ih parties shares
      refine ⟨p', s', ?_, hl, ?_, ?_, ?_, ?_⟩
      · rw [recVerify, hr]; exact e
      · intro j
        rw [hm j]
        constructor
        · rintro (h | ⟨h1, h2⟩)
          · exact Or.inl h
          · exact Or.inr ⟨List.mem_cons_of_mem _ h1, h2⟩
        · rintro (h | ⟨h1, foo, bar, h2, h3⟩)
          · exact Or.inl h
          · rcases List.mem_cons.1 h1 with h1 | h1
            · subst h1; rw [hr] at h2; cases h2
            · exact Or.inr ⟨h1, foo, bar, h2, h3⟩
      · intro a b c
        exact hn a (List.nodup_cons.1 b).2 (fun j hj => c j (List.mem_cons_of_mem _ hj))
      · intro j hj
        exact hs1 j (fun h => hj (List.mem_cons_of_mem _ h))
      · intro hnd j hj hlt foo bar hfb
        rcases List.mem_cons.1 hj with h1 | h1
        · subst h1; rw [hr] at hfb; cases hfb
        · exact hs2 (List.nodup_cons.1 hnd).2 j h1 hlt foo bar hfb
    | some fb =>
      obtain ⟨foo, bar⟩ := fb
      obtain ⟨a1, a2⟩ := hres jt foo bar hr
      obtain ⟨lhs, hl1, hl2, hl3, hl4⟩ := pedF_val hG foo bar a1 a2
      obtain ⟨rhs, hr1, hr2, hr3, hr4⟩ := commitProd_val hG (jt + 1) (getRow st.C it)
      have hiff : (lhs == rhs) = true ↔ com G foo bar = rowF G (getRow st.C it) (jt + 1) := by
        rw [beq_iff_eq, ← hl4, ← hr4]
        constructor
        · intro e; rw [e]
        · intro e; exact eq_of_toF_eq (G := grp G) hG.valid ⟨hl2, hl3⟩ ⟨hr2, hr3⟩ e
      obtain ⟨p', s', e, hl, hm, hn, hs1, hs2⟩ :=
        ih (if lhs == rhs then parties ++ [jt] else parties) (shares.set jt foo)
      refine ⟨p', s', ?_, ?_, ?_, ?_, ?_, ?_⟩
      · rw [recVerify, hr]
        simp only [hl1, hr1, bind, Except.bind]
        exact e
      · rw [hl, List.length_set]
      · intro j
        rw [hm j]
        by_cases hv : (lhs == rhs) = true
        · rw [if_pos hv]
          constructor
          · rintro (h | ⟨h1, h2⟩)
            · rcases List.mem_append.1 h with h | h
              · exact Or.inl h
              · rw [List.mem_singleton] at h
                subst h
                exact Or.inr ⟨List.mem_cons_self, foo, bar, hr, hiff.1 hv⟩
            · exact Or.inr ⟨List.mem_cons_of_mem _ h1, h2⟩
          · rintro (h | ⟨h1, h2⟩)
            · exact Or.inl (List.mem_append_left _ h)
            · rcases List.mem_cons.1 h1 with h1 | h1
              · subst h1
                exact Or.inl (List.mem_append_right _ (List.mem_singleton.2 rfl))
              · exact Or.inr ⟨h1, h2⟩
        · rw [if_neg hv]
          constructor
          · rintro (h | ⟨h1, h2⟩)
            · exact Or.inl h
            · exact Or.inr ⟨List.mem_cons_of_mem _ h1, h2⟩
          · rintro (h | ⟨h1, foo', bar', h2, h3⟩)
            · exact Or.inl h
            · rcases List.mem_cons.1 h1 with h1 | h1
              · subst h1
                rw [hr] at h2
                cases h2
                exact absurd (hiff.2 h3) hv
              · exact Or.inr ⟨h1, foo', bar', h2, h3⟩
      · intro a b c
        have b' := List.nodup_cons.1 b
        apply hn
        · by_cases hv : (lhs == rhs) = true
          · rw [if_pos hv]
            refine List.Nodup.append a (List.nodup_singleton jt) ?_
            intro z hz hz'
            rw [List.mem_singleton] at hz'
            subst hz'
            exact c z List.mem_cons_self hz
          · rw [if_neg hv]; exact a
        · exact b'.2
        · intro j hj hj'
          have hjp : j ∉ parties := c j (List.mem_cons_of_mem _ hj)
          by_cases hv : (lhs == rhs) = true
          · rw [if_pos hv] at hj'
            rcases List.mem_append.1 hj' with h | h
            · exact hjp h
            · rw [List.mem_singleton] at h
              subst h
              exact b'.1 hj
          · rw [if_neg hv] at hj'
            exact hjp hj'
      · intro j hj
        rw [hs1 j (fun h => hj (List.mem_cons_of_mem _ h))]
        unfold getI
        rw [glue_getD_set]
        have : ¬ jt = j := fun e => hj (e ▸ List.mem_cons_self)
        simp [this]
      · intro hnd j hj hlt foo' bar' hfb
        have b' := List.nodup_cons.1 hnd
        rcases List.mem_cons.1 hj with h1 | h1
        · subst h1
          rw [hr] at hfb
          cases hfb
          rw [hs1 j b'.1]
          unfold getI
          rw [glue_getD_set]
          simp [hlt]
        · exact hs2 b'.2 j h1 (by rw [List.length_set]; exact hlt) foo' bar' hfb

theorem pairwise_lt_nodup {l : List Nat} (h : l.Pairwise (· < ·)) : l.Nodup :=
  h.imp (fun h => Nat.ne_of_lt h)

theorem getD_mem_of_lt (R : List Nat) (k : Nat) (hk : k < R.length) : R.getD k 0 ∈ R := by
  rw [List.getD_eq_getElem _ _ hk]
  exact List.getElem_mem hk

/-- interpolation over the first `t+1` verified parties yields the committed share -/
theorem rec_interp [Fact (Nat.Prime (grp G).p.natAbs)] (hS : Setup G ins n t)
    (row : List Int) (f : Polynomial (Zq G)) (hb : BindsRun G ins n t row f)
    (parties : List Nat) (shares : List Int) (hnd : parties.Nodup) (hlt : ∀ j ∈ parties, j < n)
    (hcnt : t < parties.length)
    (hpairs : ∀ j ∈ parties, ∃ y, AbsLt G (getI shares j) ∧ AbsLt G y ∧
      Occurs G ins n t (getI shares j) ∧ Occurs G ins n t y ∧
      com G (getI shares j) y = rowF G row (j + 1)) :
    lagrange0 G.q (parties.take (t + 1)) (getI shares) = some (((f.eval 0).val : Nat) : Int) := by
  have hG := hS.hG
  have hsub : ∀ j ∈ parties.take (t + 1), j ∈ parties := fun j hj => List.mem_of_mem_take hj
  have hnd' : (parties.take (t + 1)).Nodup := hnd.sublist (List.take_sublist _ _)
  have hlen : (parties.take (t + 1)).length = t + 1 := by
    rw [List.length_take]; omega
  have hq : ∀ j ∈ parties.take (t + 1), (j : Int) + 1 < G.q := by
    intro j hj
    have := hlt j (hsub j hj)
    have := hS.hnq
    omega
  obtain ⟨v, hv, hvr, hvf⟩ := lagrange0_val hG (parties.take (t + 1)) (getI shares) hnd' hq
  have hval : toQ G v = f.eval 0 := by
    apply hvf f
    · rw [hlen]; exact hb.1
    · intro j hj
      obtain ⟨y, a1, a2, o1, o2, hc⟩ := hpairs j (hsub j hj)
      have hjn := hlt j (hsub j hj)
      exact hb.2 (j + 1) (by omega) _ y o1 o2 a1 a2 hc
  rw [hv, ← eq_committed hG v hvr _ hval]

/-- the verification loop of honest `x` in round `6 + k` -/
theorem rec_verify_facts [Fact (Nat.Prime (grp G).p.natAbs)] (hS : Setup G ins n t)
    {Q : Nat → List (Tag × Int)} {CH : List (List Int)} {QL R : List Nat} {A HA Z : Nat → Int} {k : Nat}
    (h : InvRec G ins n t Q CH QL R A HA Z k) (hk : k < R.length)
    {x : Nat} (hx : HonIdx ins n x) {P : Party} (hP : (cfg G ins n t (6 + k))[x]? = some P)
    (hcore : Core ins n t x P.st) (hrec : RecSt G ins n t CH QL R A Z k x P.st)
    (hbox : Boxes n x P.inbox Q) :
    ∃ parties shares,
      recVerify G P.st (R.getD k 0) (fun jt => (parseRec G.q (tagRec P.st.racc) (P.inbox.bq jt)).2)
        (recReaders P.st) [P.st.i] ((zeros P.st.n).set P.st.i (getI P.st.s (R.getD k 0))) =
          .ok (parties, shares) ∧
      parties.Nodup ∧ (∀ j ∈ parties, j < n) ∧ t < parties.length ∧
      ∀ j ∈ parties, ∃ y, AbsLt G (getI shares j) ∧ AbsLt G y ∧
        Occurs G ins n t (getI shares j) ∧ Occurs G ins n t y ∧
        com G (getI shares j) y = rowF G (getRow CH (R.getD k 0)) (j + 1) := by
  have hG := hS.hG
  have hitR : R.getD k 0 ∈ R := getD_mem_of_lt R k hk
  have hitQ : R.getD k 0 ∈ QL := (h.r_sub _ hitR).1
  have hxR : x ∉ R := fun hm => (h.r_sub x hm).2 hx
  have hreaders : recReaders P.st = QL.filter (fun jt => jt != x && !R.contains jt) := by
    unfold recReaders; rw [hrec.shared.qual_eq, hcore.i_eq, hrec.racc_eq]
  rw [hreaders, hrec.racc_eq, hcore.i_eq, hcore.n_eq]
  generalize hit : R.getD k 0 = it at *
  have hrd : ∀ j, j ∈ QL.filter (fun jt => jt != x && !R.contains jt) ↔ j ∈ QL ∧ j ≠ x ∧ j ∉ R := by
    intro j
    simp [List.mem_filter]
  have hresAbs : ∀ jt foo bar,
      (fun jt => (parseRec G.q (tagRec R) (P.inbox.bq jt)).2) jt = some (foo, bar) →
        AbsLt G foo ∧ AbsLt G bar := by
    intro jt foo bar e
    obtain ⟨-, -, a1, a2⟩ := parseRec_some _ _ _ _ _ e
    exact ⟨(absGe_false_iff G foo).1 a1, (absGe_false_iff G bar).1 a2⟩
  have hrnd : (QL.filter (fun jt => jt != x && !R.contains jt)).Nodup :=
    (pairwise_lt_nodup h.qual.sorted).filter _
  have hz : ((zeros n).set x (getI P.st.s it)).length = n := by simp [zeros]
  obtain ⟨parties, shares, hrv, hlen, hmem, hnd, hs1, hs2⟩ := recVerify_spec hG P.st it _ hresAbs
    (QL.filter (fun jt => jt != x && !R.contains jt)) [x] ((zeros n).set x (getI P.st.s it))
  refine ⟨parties, shares, hrv, ?_, ?_, ?_, ?_⟩
  · apply hnd (List.nodup_singleton x) hrnd
    intro j hj hj'
    rw [List.mem_singleton] at hj'
    exact ((hrd j).1 hj).2.1 hj'
  · intro j hj
    rcases (hmem j).1 hj with h1 | ⟨h1, -⟩
    · rw [List.mem_singleton] at h1; rw [h1]; exact hx.1
    · exact h.qual.lt_n j ((hrd j).1 h1).1
  · -- enough parties
    have hHnd : ((List.range n).filter (fun k => (pinOf ins k).dev.honest)).Nodup :=
      List.nodup_range.filter _
    have hsub : (List.range n).filter (fun k => (pinOf ins k).dev.honest) ⊆ parties := by
      intro j hj
      rw [List.mem_filter, List.mem_range] at hj
      have hjH : HonIdx ins n j := ⟨hj.1, hj.2⟩
      rw [hmem j]
      by_cases hjx : j = x
      · left; rw [hjx]; exact List.mem_singleton.2 rfl
      · right
        have hjR : j ∉ R := fun hm => (h.r_sub j hm).2 hjH
        refine ⟨(hrd j).2 ⟨h.qual.hon_mem j hjH, hjx, hjR⟩, ?_⟩
        obtain ⟨Pj, -, -, -, -, -, hrj, hrun, -⟩ := h.party j hjH
        obtain ⟨-, -, hQj⟩ := hrun hk
        rw [hit] at hQj
        obtain ⟨v1, v2, v3⟩ := hrj.shared.valid it hitQ
        refine ⟨getI Pj.st.s it, getI Pj.st.sp it, ?_, ?_⟩
        · show (parseRec G.q (tagRec R) (P.inbox.bq j)).2 = _
          rw [hbox.bq_eq j hj.1 hjx, hQj,
            parseRec_pair _ _ _ _ ((absGe_false_iff G _).2 v1) ((absGe_false_iff G _).2 v2)]
        · rw [hrec.shared.C_eq]; exact v3
    have h1 := (hHnd.subperm hsub).length_le
    have h2 := honest_count hS
    have h3 := hS.hnt
    omega
  · intro j hj
    rcases (hmem j).1 hj with h1 | ⟨h1, foo, bar, h2, h3⟩
    · rw [List.mem_singleton] at h1
      subst h1
      have hjr : j ∉ QL.filter (fun jt => jt != j && !R.contains jt) := fun hm => ((hrd j).1 hm).2.1 rfl
      have hsj : getI shares j = getI P.st.s it := by
        rw [hs1 j hjr]
        unfold getI
        rw [glue_getD_set]
        have : j < (zeros n).length := by simp [zeros]; exact hx.1
        simp [this]
      obtain ⟨v1, v2, v3⟩ := hrec.shared.valid it hitQ
      rw [hsj]
      exact ⟨getI P.st.sp it, v1, v2, ⟨6 + k, j, P, it, hP, hx, Or.inl rfl⟩,
        ⟨6 + k, j, P, it, hP, hx, Or.inr (Or.inl rfl)⟩, v3⟩
    · have hjn : j < n := h.qual.lt_n j ((hrd j).1 h1).1
      have hsj : getI shares j = foo := hs2 hrnd j h1 (by rw [hz]; exact hjn) foo bar h2
      obtain ⟨m1, m2, -, -⟩ := parseRec_some _ _ _ _ _ h2
      obtain ⟨a1, a2⟩ := hresAbs j foo bar h2
      rw [hsj]
      refine ⟨bar, a1, a2, ⟨6 + k, x, P, j, hP, hx, Or.inr (Or.inr (Or.inr (Or.inr ⟨_, m1⟩)))⟩,
        ⟨6 + k, x, P, j, hP, hx, Or.inr (Or.inr (Or.inr (Or.inr ⟨_, m2⟩)))⟩, ?_⟩
      rw [← hrec.shared.C_eq]; exact h3

/-- the step of honest `x` in round `6 + k` -/
theorem recStep_ok [Fact (Nat.Prime (grp G).p.natAbs)] (hS : Setup G ins n t)
    {Q : Nat → List (Tag × Int)} {CH : List (List Int)} {QL R : List Nat} {A HA : Nat → Int} {k : Nat}
    (fam : Nat → Polynomial (Zq G))
    (hfam : ∀ j, j < n → BindsRun G ins n t (getRow CH j) (fam j))
    (h : InvRec G ins n t Q CH QL R A HA (committed G fam) k) (hk : k < R.length)
    {x : Nat} (hx : HonIdx ins n x) {P : Party} (hP : (cfg G ins n t (6 + k))[x]? = some P)
    (hcore : Core ins n t x P.st) (hrec : RecSt G ins n t CH QL R A (committed G fam) k x P.st)
    (hbox : Boxes n x P.inbox Q) :
    ∃ c I' ops status, jlRecStep G P.st P.inbox = .ok
        ({ P.st with a := P.st.a.set (R.getD k 0) (committed G fam (R.getD k 0)),
                     todo := R.drop (k + 1), coin := c }, I', ops, status) ∧
      I'.p = P.inbox.p ∧
      I'.b = (List.range n).map (fun j =>
        if (QL.filter (fun jt => jt != x && !R.contains jt)).contains j
        then (parseRec G.q (tagRec R) (P.inbox.bq j)).1 else P.inbox.bq j) ∧
      (k + 1 < R.length → status = .run ∧
        ops = [Op.bc (tagRec R) (getI P.st.s (R.getD (k + 1) 0)),
               Op.bc (tagRec R) (getI P.st.sp (R.getD (k + 1) 0))]) ∧
      (k + 1 = R.length → status = .ret true ∧ ops = [] ∧
        c = some (sumMod G.q (P.st.a.set (R.getD k 0) (committed G fam (R.getD k 0))) QL)) := by
  have hitR : R.getD k 0 ∈ R := getD_mem_of_lt R k hk
  have hitQ : R.getD k 0 ∈ QL := (h.r_sub _ hitR).1
  have hitn : R.getD k 0 < n := h.qual.lt_n _ hitQ
  have hxR : x ∉ R := fun hm => (h.r_sub x hm).2 hx
  have hxQ : x ∈ QL := h.qual.hon_mem x hx
  obtain ⟨parties, shares, hrv, hnd, hlt, hcnt, hpairs⟩ :=
    rec_verify_facts hS h hk hx hP hcore hrec hbox
  have hlag := rec_interp hS _ _ (hfam _ hitn) parties shares hnd hlt hcnt hpairs
  have hlag' : lagrange0 G.q (parties.take (P.st.t + 1)) (getI shares) =
      some (committed G fam (R.getD k 0)) := by
    rw [hcore.t_eq]; exact hlag
  have htodo : P.st.todo = R.getD k 0 :: R.drop (k + 1) := by
    rw [hrec.todo_eq, List.getD_eq_getElem _ _ hk]
    exact List.drop_eq_getElem_cons hk
  have hnle : ¬ parties.length ≤ P.st.t := by rw [hcore.t_eq]; omega
  have hreaders : recReaders P.st = QL.filter (fun jt => jt != x && !R.contains jt) := by
    unfold recReaders; rw [hrec.shared.qual_eq, hcore.i_eq, hrec.racc_eq]
  unfold jlRecStep
  rw [htodo]
  simp only [bind, Except.bind, hrv, hnle, if_false, hlag']
  by_cases hk1 : k + 1 < R.length
  · have hit' : R.getD (k + 1) 0 ∈ QL := (h.r_sub _ (getD_mem_of_lt R (k + 1) hk1)).1
    have key := jlRecNext_cons G
      { P.st with a := P.st.a.set (R.getD k 0) (committed G fam (R.getD k 0)), todo := R.drop (k + 1) }
      (R.getD (k + 1) 0) (R.drop (k + 1 + 1))
      (by rw [List.getD_eq_getElem _ _ hk1]; exact List.drop_eq_getElem_cons hk1)
      (by show P.st.qual.contains _ = true
          rw [hrec.shared.qual_eq]; exact List.contains_iff_mem.2 hit')
      (by show P.st.racc.contains P.st.i = false
          rw [hrec.racc_eq, hcore.i_eq]
          simpa using hxR)
      (by show P.st.qual.contains P.st.i = true
          rw [hrec.shared.qual_eq, hcore.i_eq]; exact List.contains_iff_mem.2 hxQ)
    rw [key]
    refine ⟨P.st.coin, _, _, _, rfl, rfl, ?_, ?_, ?_⟩
    · rw [hreaders, hrec.racc_eq, hcore.n_eq]
    · intro _
      refine ⟨rfl, ?_⟩
      rw [← hrec.racc_eq]
    · intro e; omega
  · have hnil : R.drop (k + 1) = [] := List.drop_eq_nil_iff.2 (by omega)
    have key := jlRecNext_nil G
      { P.st with a := P.st.a.set (R.getD k 0) (committed G fam (R.getD k 0)), todo := R.drop (k + 1) }
      hnil
    rw [key]
    refine ⟨_, _, _, _, rfl, rfl, ?_, ?_, ?_⟩
    · rw [hreaders, hrec.racc_eq, hcore.n_eq]
    · intro e; omega
    · intro _
      refine ⟨rfl, rfl, ?_⟩
      rw [← hrec.shared.qual_eq]

theorem cfgLen (G : Jl.Grp) (ins : List PartyIn) (n t r : Nat) (h : ins.length = n) :
    (cfg G ins n t r).length = n := by
  unfold cfg; rw [runRounds_length, initParties_length n t ins h]

theorem readers_contains (QL R : List Nat) (x j : Nat) (hjx : j ≠ x) :
    (QL.filter (fun jt => jt != x && !R.contains jt)).contains j = (QL.contains j && !R.contains j) := by
  rw [Bool.eq_iff_iff]
  simp [List.mem_filter, hjx]

theorem getD_map_range {α} (f : Nat → α) (n j : Nat) (d : α) (hj : j < n) :
    ((List.range n).map f).getD j d = f j := by
  rw [List.getD_eq_getElem?_getD, List.getElem?_map, List.getElem?_range hj]
  rfl

theorem getI_set_ne (l : List Int) (i j : Nat) (v : Int) (h : i ≠ j) : getI (l.set i v) j = getI l j := by
  unfold getI
  rw [glue_getD_set]
  simp [h]

theorem getI_set_eq (l : List Int) (i : Nat) (v : Int) (h : i < l.length) : getI (l.set i v) i = v := by
  unfold getI
  rw [glue_getD_set]
  simp [h]

end TRec

open TRec in
/-- one round of `Reconstruct`: every honest party obtains the committed share of the accused party -/
theorem invRecStep [Fact (Nat.Prime (grp G).p.natAbs)] (hS : Setup G ins n t)
    {Q : Nat → List (Tag × Int)} {CH : List (List Int)} {QL R : List Nat} {A HA : Nat → Int} {k : Nat}
    (fam : Nat → Polynomial (Zq G))
    (hfam : ∀ j, j < n → BindsRun G ins n t (getRow CH j) (fam j))
    (h : InvRec G ins n t Q CH QL R A HA (committed G fam) k) (hk : k < R.length) :
    ∃ Q', InvRec G ins n t Q' CH QL R A HA (committed G fam) (k + 1) := by
  have hG := hS.hG
  have hlen : (cfg G ins n t (6 + k)).length = n := cfgLen G ins n t _ hS.hlen
  have hitR : R.getD k 0 ∈ R := getD_mem_of_lt R k hk
  have hitQ : R.getD k 0 ∈ QL := (h.r_sub _ hitR).1
  have hitn : R.getD k 0 < n := h.qual.lt_n _ hitQ
  have hRnd : R.Nodup := pairwise_lt_nodup h.r_sorted
  refine ⟨fun j => (if QL.contains j && !R.contains j then (parseRec G.q (tagRec R) (Q j)).1 else Q j) ++
    bOut G ins n t (6 + k) j, ?_⟩
  refine { qual := h.qual, r_sorted := h.r_sorted, r_sub := h.r_sub, k_le := hk, open_ok := h.open_ok,
           open_hon := h.open_hon, open_occ := h.open_occ, party := ?_ }
  intro x hx
  obtain ⟨P, hP, hdev, hdead, herr, hcore, hrec, hrun, -⟩ := h.party x hx
  obtain ⟨hstat, hbox, hQx⟩ := hrun hk
  have hxR : x ∉ R := fun hm => (h.r_sub x hm).2 hx
  have hxQ : x ∈ QL := h.qual.hon_mem x hx
  have hitx : R.getD k 0 ≠ x := fun e => hxR (e ▸ hitR)
  obtain ⟨c, I', ops, status, hstep, hIp, hIb, hnext, hend⟩ :=
    recStep_ok hS fam hfam h hk hx hP hcore hrec hbox
  have hxl : x < (cfg G ins n t (6 + k)).length := by rw [hlen]; exact hx.1
  have hPx : (cfg G ins n t (6 + k))[x] = P := by
    obtain ⟨_, e⟩ := List.getElem?_eq_some_iff.1 hP
    exact e
  have hlive : P.live = true := by simp [Party.live, hstat, hdead, herr]
  have hstep' : flipStep G ins n t (6 + k) x P.st P.inbox = .ok
      ({ P.st with a := P.st.a.set (R.getD k 0) (committed G fam (R.getD k 0)),
                   todo := R.drop (k + 1), coin := c }, I', ops, status) := by
    rw [flipStep_rec]; exact hstep
  obtain ⟨fs', hsp, hfs'⟩ := stepParty_honest n (flipStep G ins n t (6 + k) x) P hdev hlive _ _ _ _ hstep'
  obtain ⟨P', hP', d1, d2, d3, d4, d5, d6, d7, d8, -⟩ :=
    runRound_get (flipStep G ins n t (6 + k)) (cfg G ins n t (6 + k)) x hxl
  have hstepped : stepped (flipStep G ins n t (6 + k)) (cfg G ins n t (6 + k)) x hxl =
      { P with
        st := { P.st with a := P.st.a.set (R.getD k 0) (committed G fam (R.getD k 0)),
                          todo := R.drop (k + 1), coin := c },
        inbox := I', fs := fs', status := status } := by
    unfold stepped; rw [hPx, hlen, hsp]
  rw [hstepped] at d1 d2 d3 d4 d5 d6 d7 d8
  have hbx : bOut G ins n t (6 + k) x = bsOf ops := by
    unfold bOut
    rw [dif_pos hxl]
    unfold outOf
    rw [hPx, hlen, hsp]
  have hIblen : I'.b.length = n := by rw [hIb]; simp
  -- the own pair is consumed
  have hLx : (if QL.contains x && !R.contains x then (parseRec G.q (tagRec R) (Q x)).1 else Q x) = [] := by
    have e1 : (QL.contains x && !R.contains x) = true := by simp [hxQ, hxR]
    obtain ⟨v1, v2, -⟩ := hrec.shared.valid _ hitQ
    rw [if_pos e1, hQx, parseRec_pair _ _ _ _ ((absGe_false_iff G _).2 v1) ((absGe_false_iff G _).2 v2)]
  refine ⟨P', ?_, ?_, ?_, ?_, ?_, ?_, ?_, ?_⟩
  · show (cfg G ins n t (6 + k + 1))[x]? = some P'
    rw [cfg_succ]; exact hP'
  · rw [d1]; exact hdev
  · rw [d2]; exact hfs'
  · rw [d5]; exact herr
  · rw [d3]
    exact ⟨hcore.n_eq, hcore.t_eq, hcore.i_eq, hcore.sfb_eq, hcore.c_eq, hcore.hc_eq⟩
  · rw [d3]
    refine { shared := ?_, racc_eq := hrec.racc_eq, todo_eq := rfl, a_open := ?_, a_rec := ?_ }
    · refine { C_eq := hrec.shared.C_eq, qual_eq := hrec.shared.qual_eq, s_len := hrec.shared.s_len,
               sp_len := hrec.shared.sp_len, valid := hrec.shared.valid, a_len := ?_,
               ha_len := hrec.shared.ha_len, a_own := ?_, ha_own := hrec.shared.ha_own }
      · show (P.st.a.set _ _).length = n
        rw [List.length_set]; exact hrec.shared.a_len
      · show getI (P.st.a.set _ _) x = _
        rw [getI_set_ne _ _ _ _ hitx]; exact hrec.shared.a_own
    · intro j hjQ hjR
      show getI (P.st.a.set _ _) j = _
      have hne : R.getD k 0 ≠ j := fun e => hjR (e ▸ hitR)
      rw [getI_set_ne _ _ _ _ hne]
      exact hrec.a_open j hjQ hjR
    · intro m hm hmR
      show getI (P.st.a.set _ _) _ = _
      by_cases hmk : m = k
      · subst hmk
        rw [getI_set_eq _ _ _ (by rw [hrec.shared.a_len]; exact hitn)]
      · have hne : R.getD k 0 ≠ R.getD m 0 := by
          rw [List.getD_eq_getElem _ _ hk, List.getD_eq_getElem _ _ hmR]
          intro e
          exact hmk ((hRnd.getElem_inj_iff).1 e).symm
        rw [getI_set_ne _ _ _ _ hne]
        exact hrec.a_rec m (by omega) hmR
  · intro hk1
    obtain ⟨e1, e2⟩ := hnext hk1
    refine ⟨by rw [d4]; exact e1, ?_, ?_⟩
    · refine ⟨by rw [d6]; exact hIblen, by rw [d7]; show I'.p.length = n; rw [hIp]; exact hbox.plen, ?_⟩
      intro j hj hjx
      show P'.inbox.b.getD j [] = _
      rw [d8 j (by show j < I'.b.length; rw [hIblen]; exact hj)]
      have hc : j ≠ x ∧ j < (cfg G ins n t (6 + k)).length := ⟨hjx, by rw [hlen]; exact hj⟩
      rw [dif_pos hc]
      show I'.b.getD j [] ++ _ = _
      rw [hIb, getD_map_range _ _ _ _ hj, readers_contains _ _ _ _ hjx, hbox.bq_eq j hj hjx]
      unfold bOut
      rw [dif_pos hc.2]
    · show _ ++ bOut G ins n t (6 + k) x = _
      rw [hLx, hbx, e2, d3]
      rfl
  · intro hk1
    obtain ⟨e1, -, e3⟩ := hend hk1
    refine ⟨by rw [d4]; exact e1, ?_⟩
    rw [d3]
    exact e3

end Tmcg.JlProofs
