import Tmcg.Model.Sigma
import Tmcg.Model.StackEq
import TmcgProofs.Group
import TmcgProofs.SigmaComplete
import TmcgProofs.Stack
import TmcgProofs.VtmfOpen
/-
  C04 (soundness) and C05 (binding) for the model of the VTMF's proofs of knowledge.
  Cryptographic "cannot happen" clauses are explicit reductions: either the conclusion holds or a
  concrete hash collision (two different query strings with the same answer) is exhibited.
-/
namespace Tmcg.SigmaSound
open Tmcg Tmcg.Powm Tmcg.Vtmf Tmcg.Grp Tmcg.Sigma Tmcg.SigmaComplete

/-- a collision of the hash: two different queries with the same answer -/
def Collision (H : Hash) : Prop := ∃ s s' : String, s ≠ s' ∧ H s = H s'

/-! ### the hash input determines every hashed value (C05) -/

/-- value of a hexadecimal digit character -/
def hexVal (c : Char) : Nat := if c.toNat < 58 then c.toNat - 48 else c.toNat - 87

def hexDecode (l : List Char) : Nat := l.foldl (fun v c => 16 * v + hexVal c) 0

theorem hexVal_hexDigit : ∀ d, d < 16 → hexVal (hexDigit d) = d := by decide

theorem hexDigit_ne_bar : ∀ d, d < 16 → hexDigit d ≠ '|' := by decide

theorem hexDigit_ne_minus : ∀ d, d < 16 → hexDigit d ≠ '-' := by decide

def IsHex (c : Char) : Prop := ∃ d, d < 16 ∧ c = hexDigit d

theorem hexDecode_append (l : List Char) (c : Char) :
    hexDecode (l ++ [c]) = 16 * hexDecode l + hexVal c := by
  simp [hexDecode, List.foldl_append]

theorem hexNatGo_spec : ∀ (f n : Nat) (acc : List Char), n < f →
    ∃ ds, hexNatGo f n acc = ds ++ acc ∧ (∀ c ∈ ds, IsHex c) ∧ hexDecode ds = n ∧ ds ≠ [] := by
  intro f
  induction f with
  | zero => intro n acc h; omega
  | succ f ih =>
    intro n acc h
    by_cases h16 : n < 16
    · refine ⟨[hexDigit n], by simp [hexNatGo, h16], ?_, ?_, by simp⟩
      · intro c hc
        simp only [List.mem_singleton] at hc
        exact ⟨n, h16, hc⟩
      · simp [hexDecode, hexVal_hexDigit n h16]
    · obtain ⟨ds, h1, h2, h3, h4⟩ := ih (n / 16) (hexDigit (n % 16) :: acc) (by omega)
      have hm : n % 16 < 16 := Nat.mod_lt _ (by norm_num)
      refine ⟨ds ++ [hexDigit (n % 16)], by simp [hexNatGo, h16, h1], ?_, ?_, by simp⟩
      · intro c hc
        rcases List.mem_append.mp hc with hc | hc
        · exact h2 c hc
        · simp only [List.mem_singleton] at hc
          exact ⟨_, hm, hc⟩
      · rw [hexDecode_append, h3, hexVal_hexDigit _ hm]; omega

theorem hexNat_spec (n : Nat) :
    ∃ ds, (hexNat n).toList = ds ∧ (∀ c ∈ ds, IsHex c) ∧ hexDecode ds = n ∧ ds ≠ [] := by
  obtain ⟨ds, h1, h2, h3, h4⟩ := hexNatGo_spec (n + 1) n [] (by omega)
  exact ⟨ds, by simp [hexNat, h1], h2, h3, h4⟩

theorem IsHex.ne_bar {c : Char} (h : IsHex c) : c ≠ '|' := by
  obtain ⟨d, hd, rfl⟩ := h; exact hexDigit_ne_bar d hd

theorem IsHex.ne_minus {c : Char} (h : IsHex c) : c ≠ '-' := by
  obtain ⟨d, hd, rfl⟩ := h; exact hexDigit_ne_minus d hd

theorem hexInt_toList (z : Int) :
    ∃ ds, (hexInt z).toList = (if z < 0 then '-' :: ds else ds) ∧ (∀ c ∈ ds, IsHex c) ∧
      hexDecode ds = z.natAbs ∧ ds ≠ [] := by
  obtain ⟨ds, h1, h2, h3, h4⟩ := hexNat_spec z.natAbs
  refine ⟨ds, ?_, h2, h3, h4⟩
  unfold hexInt
  split
  · rw [String.toList_append, h1]; rfl
  · exact h1

theorem bar_notMem_hexInt (z : Int) : '|' ∉ (hexInt z).toList := by
  obtain ⟨ds, h1, h2, -, -⟩ := hexInt_toList z
  rw [h1]
  intro hmem
  split at hmem
  · rcases List.mem_cons.mp hmem with h | h
    · exact absurd h (by decide)
    · exact (h2 _ h).ne_bar rfl
  · exact (h2 _ hmem).ne_bar rfl

theorem hexInt_injective : Function.Injective hexInt := by
  intro z z' h
  obtain ⟨ds, h1, h2, h3, h4⟩ := hexInt_toList z
  obtain ⟨ds', h1', h2', h3', h4'⟩ := hexInt_toList z'
  rw [h] at h1
  rw [h1'] at h1
  have hhead : ∀ l : List Char, (∀ c ∈ l, IsHex c) → l ≠ [] → ∀ t, l ≠ '-' :: t := by
    intro l hl _ t e
    subst e
    exact (hl '-' (by simp)).ne_minus rfl
  by_cases hz : z < 0 <;> by_cases hz' : z' < 0
  · simp only [hz, hz', if_true, List.cons.injEq, true_and] at h1
    have : z.natAbs = z'.natAbs := by rw [← h3, ← h3', h1]
    omega
  · simp only [hz, hz', if_true, if_false] at h1
    exact absurd h1 (hhead _ h2' h4' _)
  · simp only [hz, hz', if_true, if_false] at h1
    exact absurd h1.symm (hhead _ h2 h4 _)
  · simp only [hz, hz', if_false] at h1
    have : z.natAbs = z'.natAbs := by rw [← h3, ← h3', h1]
    omega

theorem shashInput_toList_aux (args : List Int) (acc : String) :
    (args.foldl (fun acc a => acc ++ hexInt a ++ "|") acc).toList =
      acc.toList ++ args.flatMap (fun a => (hexInt a).toList ++ ['|']) := by
  induction args generalizing acc with
  | nil => simp
  | cons a t ih =>
    rw [List.foldl_cons, ih, String.toList_append, String.toList_append]
    simp [List.flatMap_cons]

theorem shashInput_toList (args : List Int) :
    (shashInput args).toList = args.flatMap (fun a => (hexInt a).toList ++ ['|']) := by
  unfold shashInput
  rw [shashInput_toList_aux]
  simp

theorem append_sep_inj {α : Type} (s : α) : ∀ (l1 l2 r1 r2 : List α), s ∉ l1 → s ∉ l2 →
    l1 ++ s :: r1 = l2 ++ s :: r2 → l1 = l2 ∧ r1 = r2 := by
  intro l1
  induction l1 with
  | nil =>
    intro l2 r1 r2 _ h2 h
    cases l2 with
    | nil => simpa using h
    | cons b t =>
      simp only [List.nil_append, List.cons_append, List.cons.injEq] at h
      exact absurd (by simp [h.1]) h2
  | cons a t ih =>
    intro l2 r1 r2 h1 h2 h
    cases l2 with
    | nil =>
      simp only [List.nil_append, List.cons_append, List.cons.injEq] at h
      exact absurd (by simp [h.1]) h1
    | cons b t' =>
      simp only [List.cons_append, List.cons.injEq] at h
      obtain ⟨e1, e2⟩ := ih t' r1 r2 (fun hm => h1 (List.mem_cons_of_mem _ hm))
        (fun hm => h2 (List.mem_cons_of_mem _ hm)) h.2
      exact ⟨by rw [h.1, e1], e2⟩

/-- the string fed to `tmcg_mpz_shash` determines the argument list (any lengths) -/
theorem shashInput_injective : Function.Injective shashInput := by
  intro args args' h
  have h' := congrArg String.toList h
  rw [shashInput_toList, shashInput_toList] at h'
  clear h
  induction args generalizing args' with
  | nil =>
    cases args' with
    | nil => rfl
    | cons b t => simp at h'
  | cons a t ih =>
    cases args' with
    | nil => simp at h'
    | cons b t' =>
      simp only [List.flatMap_cons, List.append_assoc, List.singleton_append] at h'
      obtain ⟨e1, e2⟩ := append_sep_inj '|' _ _ _ _ (bar_notMem_hexInt a) (bar_notMem_hexInt b) h'
      rw [hexInt_injective (String.toList_injective e1), ih e2]

/-- consequently every public input and commitment of a Chaum–Pedersen proof is bound by the
    query: equal queries ⇒ equal group, common key, commitments, statement and bases -/
theorem cpInput_injective (S S' : State) (a b x y gg hh a' b' x' y' gg' hh' : Int)
    (h : cpInput S a b x y gg hh = cpInput S' a' b' x' y' gg' hh') :
    S.G.p = S'.G.p ∧ S.G.q = S'.G.q ∧ S.G.g = S'.G.g ∧ S.h = S'.h ∧
    a = a' ∧ b = b' ∧ x = x' ∧ y = y' ∧ gg = gg' ∧ hh = hh' := by
  have := shashInput_injective h
  simpa using this

variable {G : Group} [Fact (Nat.Prime G.p.natAbs)]

-- some hypotheses of the (fixed) statements below are not needed by the proofs
set_option linter.unusedVariables false

/-! ### what acceptance means (decision logic stated outright; range refusals, C05) -/

/-- `CP_Verify` accepts exactly when: the challenge fits the digest size, `|r| < q`, in table mode
    the bases are the instance's own, and the challenge is the hash of the recomputed commitments
    `a = gg^r·x^c`, `b = hh^r·y^c` together with all public inputs -/
theorem cpVerify_accept_iff (hG : ValidGroup G) (H : Hash) (S : State) (hS : StateOk G S)
    (x y gg hh c r : Int) (tab : Bool)
    (hx : toF G x ≠ 0) (hy : toF G y ≠ 0) (hgg : toF G gg ≠ 0) (hhh : toF G hh ≠ 0) :
    cpVerify H S x y gg hh c r tab = .ok true ↔
      challengeFits c = true ∧ r.natAbs < G.q.natAbs ∧ (tab = true → gg = G.g ∧ hh = S.h) ∧
      ∃ a b, 0 ≤ a ∧ a < G.p ∧ 0 ≤ b ∧ b < G.p ∧
        toF G a = toF G gg ^ r * toF G x ^ c ∧ toF G b = toF G hh ^ r * toF G y ^ c ∧
        H (cpInput S a b x y gg hh) = c := by
  constructor
  · intro h
    by_cases hc : challengeFits c = true
    swap
    · simp [cpVerify, hc, pure, Except.pure] at h
    by_cases hr : r.natAbs ≥ G.q.natAbs
    · simp [cpVerify, hS.grp, hc, hr, pure, Except.pure] at h
    have hrq : r.natAbs < G.q.natAbs := by omega
    obtain ⟨xc, hxc, -, -, hxcv⟩ := mpzPowm_val hG x c hx
    obtain ⟨yc, hyc, -, -, hycv⟩ := mpzPowm_val hG y c hy
    cases tab with
    | false =>
      obtain ⟨ggr, hggr, -, -, hggrv⟩ := mpzPowm_val hG gg r hgg
      obtain ⟨hhr, hhhr, -, -, hhhrv⟩ := mpzPowm_val hG hh r hhh
      simp [cpVerify, hS.grp, bind, Except.bind, pure, Except.pure, hc, hr, hxc, hyc, hggr, hhhr] at h
      obtain ⟨a0, ap, av⟩ := mulmod_val hG ggr xc
      obtain ⟨b0, bp, bv⟩ := mulmod_val hG hhr yc
      refine ⟨hc, hrq, by simp, _, _, a0, ap, b0, bp, ?_, ?_, h⟩
      · rw [av, hggrv, hxcv]
      · rw [bv, hhhrv, hycv]
    | true =>
      by_cases hg : gg = G.g
      swap
      · simp [cpVerify, hS.grp, pure, Except.pure, hc, hr, hg] at h
      subst hg
      obtain ⟨ggr, hggr, -, -, hggrv⟩ := fpowm_val hG S.tabG G.g r hS.tabG hgg hrq
      by_cases hh' : hh = S.h
      swap
      · simp [cpVerify, hS.grp, bind, Except.bind, pure, Except.pure, hc, hr, hxc, hggr, hh'] at h
      subst hh'
      obtain ⟨hhr, hhhr, -, -, hhhrv⟩ := fpowm_val hG S.tabH S.h r hS.tabH hhh hrq
      simp [cpVerify, hS.grp, bind, Except.bind, pure, Except.pure, hc, hr, hxc, hyc, hggr, hhhr] at h
      obtain ⟨a0, ap, av⟩ := mulmod_val hG ggr xc
      obtain ⟨b0, bp, bv⟩ := mulmod_val hG hhr yc
      refine ⟨hc, hrq, by simp, _, _, a0, ap, b0, bp, ?_, ?_, h⟩
      · rw [av, hggrv, hxcv]
      · rw [bv, hhhrv, hycv]
  · rintro ⟨hc, hr, htab, a, b, a0, ap, b0, bp, hav, hbv, hcc⟩
    exact cpVerify_ok hG H S hS x y gg hh c r tab hc (by omega) htab hgg hhh hx hy a b ⟨a0, ap⟩
      ⟨b0, bp⟩ hav hbv hcc

/-- the key-share verifier: refuses keys outside the group, oversized challenges, `|r| ≥ q`,
    and otherwise accepts exactly when `c = H(p, q, g, key, g^r·key^c)` -/
theorem nizkVerify_accept_iff (hG : ValidGroup G) (H : Hash) (S : State) (hS : StateOk G S)
    (key c r : Int) :
    nizkVerify H .schnorr S key c r = .ok true ↔
      Mem G key ∧ challengeFits c = true ∧ r.natAbs < G.q.natAbs ∧
      ∃ t, 0 ≤ t ∧ t < G.p ∧ toF G t = toF G G.g ^ r * toF G key ^ c ∧
        H (shashInput [G.p, G.q, G.g, key, t]) = c := by
  have hg0 := (mem_g hG).ne_zero hG
  constructor
  · intro h
    by_cases hk : checkElement .schnorr G key = true
    swap
    · simp [nizkVerify, hS.grp, hk, pure, Except.pure] at h
    have hmem : Mem G key := (checkElement_iff hG key).1 hk
    by_cases hc : challengeFits c = true
    swap
    · simp [nizkVerify, hS.grp, hk, hc, pure, Except.pure] at h
    by_cases hr : r.natAbs ≥ G.q.natAbs
    · simp [nizkVerify, hS.grp, hk, hc, hr, pure, Except.pure] at h
    have hrq : r.natAbs < G.q.natAbs := by omega
    obtain ⟨gr, hgr, -, -, grv⟩ := fpowm_val hG S.tabG G.g r hS.tabG hg0 hrq
    obtain ⟨kc, hkc, -, -, kcv⟩ := mpzPowm_val hG key c (hmem.ne_zero hG)
    obtain ⟨e0, ep, ev⟩ := mulmod_val hG gr kc
    simp [nizkVerify, hS.grp, bind, Except.bind, pure, Except.pure, hk, hc, hr, hgr, hkc] at h
    exact ⟨hmem, hc, hrq, _, e0, ep, by rw [ev, grv, kcv], h.symm⟩
  · rintro ⟨hmem, hc, hrq, t, t0, tp, tv, hcc⟩
    have hk : checkElement .schnorr G key = true := (checkElement_iff hG _).2 hmem
    have hr : ¬ r.natAbs ≥ G.q.natAbs := by omega
    obtain ⟨gr, hgr, -, -, grv⟩ := fpowm_val hG S.tabG G.g r hS.tabG hg0 hrq
    obtain ⟨kc, hkc, -, -, kcv⟩ := mpzPowm_val hG key c (hmem.ne_zero hG)
    obtain ⟨e0, ep, ev⟩ := mulmod_val hG gr kc
    have e : gr * kc % G.p = t := by
      apply eq_of_toF_eq hG ⟨e0, ep⟩ ⟨t0, tp⟩
      rw [ev, grv, kcv, tv]
    simp [nizkVerify, hS.grp, bind, Except.bind, pure, Except.pure, hk, hc, hr, hgr, hkc, e, hcc]

/-! ### special soundness (C04): two answers to one commitment give the witness -/

omit [Fact (Nat.Prime G.p.natAbs)] in
/-- Bézout: an exponent that is not a multiple of the prime `q` is invertible modulo `q` -/
theorem exists_bezout_q (hG : ValidGroup G) (d : Int) (hd : d % G.q ≠ 0) :
    ∃ u k : Int, d * u + G.q * k = 1 := by
  have hcop : Int.gcd d G.q = 1 := by
    rw [Int.gcd_comm, Int.gcd_def]
    refine (Nat.Prime.coprime_iff_not_dvd hG.q_prime).mpr ?_
    intro hdvd
    exact hd (Int.emod_eq_zero_of_dvd (Int.natAbs_dvd_natAbs.mp hdvd))
  refine ⟨Int.gcdA d G.q, Int.gcdB d G.q, ?_⟩
  have := Int.gcd_eq_gcd_ab d G.q
  rw [hcop] at this
  exact_mod_cast this.symm

theorem zpow_q (hG : ValidGroup G) {a : F G} (ha : a ^ G.q.natAbs = 1) : a ^ G.q = 1 := by
  have : a ^ ((G.q.natAbs : Nat) : Int) = 1 := by rw [zpow_natCast]; exact ha
  rwa [natAbs_q hG] at this

/-- extraction of a `d`-th root in the order-`q` subgroup -/
theorem root_extract (hG : ValidGroup G) {a b : F G} (hb : b ^ G.q.natAbs = 1) (hb0 : b ≠ 0)
    {d e u k : Int} (huk : d * u + G.q * k = 1) (hpow : a ^ e = b ^ d) : b = a ^ (e * u) := by
  have h1 : b = b ^ (d * u + G.q * k) := by rw [huk, zpow_one]
  rw [zpow_add₀ hb0, zpow_mul, zpow_mul, zpow_q hG hb, one_zpow, mul_one, ← hpow, ← zpow_mul] at h1
  exact h1

/-- a non-trivial element of the subgroup has order exactly `q` -/
theorem emod_q_of_zpow_eq_one (hG : ValidGroup G) {a : F G} (ha : a ^ G.q.natAbs = 1) (ha1 : a ≠ 1)
    {e : Int} (h : a ^ e = 1) : e % G.q = 0 := by
  by_contra hne
  obtain ⟨u, k, huk⟩ := exists_bezout_q hG e hne
  have ha0 := ne_zero_of_pow_eq_one (q_natAbs_ne_zero hG) ha
  apply ha1
  calc a = a ^ (e * u + G.q * k) := by rw [huk, zpow_one]
    _ = 1 := by rw [zpow_add₀ ha0, zpow_mul, zpow_mul, h, zpow_q hG ha, one_zpow, one_zpow, mul_one]

theorem zpow_sub_eq_of_mul_eq {a x : F G} (ha0 : a ≠ 0) (hx0 : x ≠ 0) {r r' c c' : Int}
    (h : a ^ r * x ^ c = a ^ r' * x ^ c') : a ^ (r - r') = x ^ (c' - c) := by
  rw [zpow_sub₀ ha0, zpow_sub₀ hx0, div_eq_div_iff (zpow_ne_zero _ ha0) (zpow_ne_zero _ hx0), h,
    mul_comm]

theorem emod_neg_sub_ne {q c c' : Int} (h : (c - c') % q ≠ 0) : (c' - c) % q ≠ 0 := by
  intro h0
  apply h
  have := Int.dvd_of_emod_eq_zero h0
  exact Int.emod_eq_zero_of_dvd ((dvd_sub_comm).mp this)

theorem g_ne_one (hG : ValidGroup G) : toF G G.g ≠ 1 := by
  intro h
  have := g_orderOf hG
  rw [h, orderOf_one] at this
  exact hG.q_prime.one_lt.ne this

/-- Chaum–Pedersen: two accepting (challenge, response) pairs that recompute the same commitments
    with challenges different modulo `q` yield `α` with `x = gg^α` and `y = hh^α` — in particular
    the two discrete logarithms are equal -/
theorem cp_special_sound (hG : ValidGroup G) (x y gg hh : F G)
    (hgg : gg ^ G.q.natAbs = 1) (hgg0 : gg ≠ 0) (hhh : hh ^ G.q.natAbs = 1) (hhh0 : hh ≠ 0)
    (hx0 : x ≠ 0) (hy0 : y ≠ 0) (hxq : x ^ G.q.natAbs = 1) (hyq : y ^ G.q.natAbs = 1)
    (c r c' r' : Int) (hc : (c - c') % G.q ≠ 0)
    (ha : gg ^ r * x ^ c = gg ^ r' * x ^ c') (hb : hh ^ r * y ^ c = hh ^ r' * y ^ c') :
    ∃ α : Int, x = gg ^ α ∧ y = hh ^ α := by
  obtain ⟨u, k, huk⟩ := exists_bezout_q hG (c' - c) (emod_neg_sub_ne hc)
  exact ⟨(r - r') * u, root_extract hG hxq hx0 huk (zpow_sub_eq_of_mul_eq hgg0 hx0 ha),
    root_extract hG hyq hy0 huk (zpow_sub_eq_of_mul_eq hhh0 hy0 hb)⟩

/-- Schnorr: two answers to one commitment yield the discrete logarithm of the key -/
theorem schnorr_special_sound (hG : ValidGroup G) (key : F G) (hk : key ^ G.q.natAbs = 1) (hk0 : key ≠ 0)
    (c r c' r' : Int) (hc : (c - c') % G.q ≠ 0)
    (ht : toF G G.g ^ r * key ^ c = toF G G.g ^ r' * key ^ c') :
    ∃ x : Int, key = toF G G.g ^ x := by
  obtain ⟨u, k, huk⟩ := exists_bezout_q hG (c' - c) (emod_neg_sub_ne hc)
  exact ⟨(r - r') * u, root_extract hG hk hk0 huk (zpow_sub_eq_of_mul_eq (g_ne_zero hG) hk0 ht)⟩

/-! ### the honest algorithm with a witness that does not fit (C04) -/

/-- A prover runs `CP_Prove` with `α` although `y = hh^β` for `β ≢ α (mod q)` (a mask that changes
    the type, a decryption share computed with another key, …).  If the verifier accepts, then
    either the oracle collides on two explicitly different queries or the challenge is `≡ 0 (mod q)`
    (one residue class out of `q`). -/
theorem cp_wrong_witness (hG : ValidGroup G) (H : Hash) (hH : HashOk H) (Sp Sv : State)
    (hp : StateOk G Sp) (hv : StateOk G Sv) (hsame : Sp.h = Sv.h)
    (x y gg hh α β ω : Int) (hgg : Mem G gg) (hhh : Mem G hh)
    (hx : 0 ≤ x ∧ x < G.p ∧ toF G x = toF G gg ^ α) (hy : 0 ≤ y ∧ y < G.p ∧ toF G y = toF G hh ^ β)
    (hhh1 : toF G hh ≠ 1) (hαβ : (α - β) % G.q ≠ 0)
    (hω : 0 ≤ ω ∧ ω < G.q) (tab : Bool) (htab : tab = true → gg = G.g ∧ hh = Sp.h)
    (c r : Int) (hprove : cpProve H Sp x y gg hh α ω tab = .ok (c, r))
    (hacc : cpVerify H Sv x y gg hh c r tab = .ok true) :
    Collision H ∨ c % G.q = 0 := by
  have hgg0 := hgg.ne_zero hG
  have hhh0 := hhh.ne_zero hG
  have hωq : ω.natAbs < G.q.natAbs := by omega
  have hcommit : ∃ a b, (0 ≤ a ∧ a < G.p) ∧ (0 ≤ b ∧ b < G.p) ∧ toF G a = toF G gg ^ ω ∧
      toF G b = toF G hh ^ ω ∧
      cpProve H Sp x y gg hh α ω tab =
        .ok (H (cpInput Sp a b x y gg hh), (ω - H (cpInput Sp a b x y gg hh) * α) % G.q) := by
    cases tab with
    | false =>
      obtain ⟨a, ha, ha0, hap, hav⟩ := spowm_val hG gg ω hgg0
      obtain ⟨b, hb, hb0, hbp, hbv⟩ := spowm_val hG hh ω hhh0
      exact ⟨a, b, ⟨ha0, hap⟩, ⟨hb0, hbp⟩, hav, hbv, by
        simp [cpProve, hp.grp, bind, Except.bind, pure, Except.pure, ha, hb]⟩
    | true =>
      obtain ⟨rfl, rfl⟩ := htab rfl
      obtain ⟨a, ha, ha0, hap, hav⟩ := fspowm_val hG Sp.tabG G.g ω hp.tabG hgg0 hωq
      obtain ⟨b, hb, hb0, hbp, hbv⟩ := fspowm_val hG Sp.tabH Sp.h ω hp.tabH hhh0 hωq
      exact ⟨a, b, ⟨ha0, hap⟩, ⟨hb0, hbp⟩, hav, hbv, by
        simp [cpProve, hp.grp, bind, Except.bind, pure, Except.pure, ha, hb]⟩
  obtain ⟨a, b, ha, hb, hav, hbv, hprove'⟩ := hcommit
  rw [hprove'] at hprove
  have hpe := Except.ok.inj hprove
  have hc : H (cpInput Sp a b x y gg hh) = c := congrArg Prod.fst hpe
  have hr : (ω - c * α) % G.q = r := by rw [← hc]; exact congrArg Prod.snd hpe
  have hx0 : toF G x ≠ 0 := by rw [hx.2.2]; exact zpow_ne_zero _ hgg0
  have hy0 : toF G y ≠ 0 := by rw [hy.2.2]; exact zpow_ne_zero _ hhh0
  obtain ⟨-, -, -, a', b', a0', ap', b0', bp', hav', hbv', hc'⟩ :=
    (cpVerify_accept_iff hG H Sv hv x y gg hh c r tab hx0 hy0 hgg0 hhh0).1 hacc
  by_cases hbb : b' = b
  · right
    subst hbb
    rw [hbv, hy.2.2, ← hr, zpow_mod_q hG _ hhh.2.2 hhh0, ← zpow_mul, ← zpow_add₀ hhh0] at hbv'
    have h1 : toF G hh ^ (c * (β - α)) = 1 := by
      have h2 : toF G hh ^ (ω - c * α + β * c) = toF G hh ^ ω * toF G hh ^ (c * (β - α)) := by
        rw [← zpow_add₀ hhh0]; congr 1; ring
      rw [h2] at hbv'
      exact mul_left_cancel₀ (zpow_ne_zero ω hhh0) (by rw [mul_one]; exact hbv'.symm)
    have h3 := emod_q_of_zpow_eq_one hG hhh.2.2 hhh1 h1
    have h4 : G.q.natAbs ∣ c.natAbs * (β - α).natAbs := by
      rw [← Int.natAbs_mul]; exact Int.natAbs_dvd_natAbs.mpr (Int.dvd_of_emod_eq_zero h3)
    rcases (Nat.Prime.dvd_mul hG.q_prime).1 h4 with h5 | h5
    · exact Int.emod_eq_zero_of_dvd (Int.natAbs_dvd_natAbs.mp h5)
    · exact absurd (Int.emod_eq_zero_of_dvd ((dvd_sub_comm).mp (Int.natAbs_dvd_natAbs.mp h5))) hαβ
  · left
    refine ⟨cpInput Sv a' b' x y gg hh, cpInput Sp a b x y gg hh, ?_, by rw [hc', hc]⟩
    intro heq
    exact hbb (cpInput_injective _ _ _ _ _ _ _ _ _ _ _ _ _ _ heq).2.2.2.2.2.1

/-! ### binding of transmitted values and public inputs (C05) -/

/-- From an accepted Chaum–Pedersen transcript, changing the statement `x`, `y`, a base, or the
    response to a non-equivalent one (another residue modulo `q`) while keeping the challenge gives
    a transcript that is accepted only if the oracle collides. -/
theorem cp_mutation_collision (hG : ValidGroup G) (H : Hash) (S : State) (hS : StateOk G S)
    (x y gg hh c r x' y' gg' hh' r' : Int) (tab : Bool)
    (hx : toF G x ≠ 0) (hy : toF G y ≠ 0) (hgg : Mem G gg) (hhh : Mem G hh)
    (hx' : toF G x' ≠ 0) (hy' : toF G y' ≠ 0) (hgg' : Mem G gg') (hhh' : Mem G hh')
    (hacc : cpVerify H S x y gg hh c r tab = .ok true)
    (hacc' : cpVerify H S x' y' gg' hh' c r' tab = .ok true)
    (hne1 : toF G gg ≠ 1 ∨ toF G hh ≠ 1)
    (hdiff : x ≠ x' ∨ y ≠ y' ∨ gg ≠ gg' ∨ hh ≠ hh' ∨ (r - r') % G.q ≠ 0) :
    Collision H := by
  have hgg0 := hgg.ne_zero hG
  have hhh0 := hhh.ne_zero hG
  obtain ⟨-, -, -, a, b, a0, ap, b0, bp, hav, hbv, hc⟩ :=
    (cpVerify_accept_iff hG H S hS x y gg hh c r tab hx hy hgg0 hhh0).1 hacc
  obtain ⟨-, -, -, a', b', a0', ap', b0', bp', hav', hbv', hc'⟩ :=
    (cpVerify_accept_iff hG H S hS x' y' gg' hh' c r' tab hx' hy' (hgg'.ne_zero hG)
      (hhh'.ne_zero hG)).1 hacc'
  refine ⟨cpInput S a b x y gg hh, cpInput S a' b' x' y' gg' hh', ?_, by rw [hc, hc']⟩
  intro heq
  obtain ⟨-, -, -, -, rfl, rfl, rfl, rfl, rfl, rfl⟩ :=
    cpInput_injective _ _ _ _ _ _ _ _ _ _ _ _ _ _ heq
  have hrr : (r - r') % G.q ≠ 0 := by
    rcases hdiff with h | h | h | h | h
    · exact absurd rfl h
    · exact absurd rfl h
    · exact absurd rfl h
    · exact absurd rfl h
    · exact h
  rw [hav] at hav'
  rw [hbv] at hbv'
  have e1 : toF G gg ^ (r - r') = 1 := by
    rw [zpow_sub_eq_of_mul_eq hgg0 hx hav', sub_self, zpow_zero]
  have e2 : toF G hh ^ (r - r') = 1 := by
    rw [zpow_sub_eq_of_mul_eq hhh0 hy hbv', sub_self, zpow_zero]
  rcases hne1 with h1 | h1
  · exact hrr (emod_q_of_zpow_eq_one hG hgg.2.2 h1 e1)
  · exact hrr (emod_q_of_zpow_eq_one hG hhh.2.2 h1 e2)

/-- the equivalent representative of a response (`r` and `r - q`) is accepted as well — the
    mutation catalogue must not expect a rejection here -/
theorem cp_equivalent_response (hG : ValidGroup G) (H : Hash) (S : State) (hS : StateOk G S)
    (x y gg hh c r : Int) (tab : Bool)
    (hx : Mem G x) (hy : Mem G y) (hgg : Mem G gg) (hhh : Mem G hh)
    (hr : 0 < r ∧ r < G.q)
    (hacc : cpVerify H S x y gg hh c r tab = .ok true) :
    cpVerify H S x y gg hh c (r - G.q) tab = .ok true := by
  have hgg0 := hgg.ne_zero hG
  have hhh0 := hhh.ne_zero hG
  have hx0 := hx.ne_zero hG
  have hy0 := hy.ne_zero hG
  obtain ⟨hfit, -, htab, a, b, a0, ap, b0, bp, hav, hbv, hc⟩ :=
    (cpVerify_accept_iff hG H S hS x y gg hh c r tab hx0 hy0 hgg0 hhh0).1 hacc
  refine (cpVerify_accept_iff hG H S hS x y gg hh c (r - G.q) tab hx0 hy0 hgg0 hhh0).2
    ⟨hfit, by omega, htab, a, b, a0, ap, b0, bp, ?_, ?_, hc⟩
  · rw [hav, zpow_sub₀ hgg0, zpow_q hG hgg.2.2, div_one]
  · rw [hbv, zpow_sub₀ hhh0, zpow_q hG hhh.2.2, div_one]

/-- key-share NIZK: changing the key or (non-equivalently) the response with the same challenge
    needs a collision -/
theorem nizk_mutation_collision (hG : ValidGroup G) (H : Hash) (S : State) (hS : StateOk G S)
    (key c r key' r' : Int)
    (hacc : nizkVerify H .schnorr S key c r = .ok true)
    (hacc' : nizkVerify H .schnorr S key' c r' = .ok true)
    (hdiff : key ≠ key' ∨ (r - r') % G.q ≠ 0) :
    Collision H := by
  have hg0 := g_ne_zero hG
  obtain ⟨hk, -, -, t, t0, tp, tv, hc⟩ := (nizkVerify_accept_iff hG H S hS key c r).1 hacc
  obtain ⟨hk', -, -, t', t0', tp', tv', hc'⟩ := (nizkVerify_accept_iff hG H S hS key' c r').1 hacc'
  refine ⟨shashInput [G.p, G.q, G.g, key, t], shashInput [G.p, G.q, G.g, key', t'], ?_,
    by rw [hc, hc']⟩
  intro heq
  have hl := shashInput_injective heq
  simp only [List.cons.injEq, true_and, and_true] at hl
  obtain ⟨rfl, rfl⟩ := hl
  have hrr : (r - r') % G.q ≠ 0 := by
    rcases hdiff with h | h
    · exact absurd rfl h
    · exact h
  rw [tv] at tv'
  have e1 : toF G G.g ^ (r - r') = 1 := by
    rw [zpow_sub_eq_of_mul_eq hg0 (hk.ne_zero hG) tv', sub_self, zpow_zero]
  exact hrr (emod_q_of_zpow_eq_one hG (g_pow_q hG) (g_ne_one hG) e1)

end Tmcg.SigmaSound
