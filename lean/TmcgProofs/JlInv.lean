import TmcgProofs.JlBase
import TmcgProofs.JlGlue
/-
  C17, multi-party part: the run of `Jl.runFlip`, round by round, and the invariants that hold for
  the honest parties after every round.  Definitions only; one file per transition proves
  `Inv_r → Inv_{r+1}` (TmcgProofs/JlT0.lean … JlT5.lean, JlTRec.lean), TmcgProofs/JlFlip.lean
  assembles `flip_agree`, `flip_is_sum`.

  The public objects of a run (what every honest party derives from the broadcast queues) are the
  parameters of the invariants:
    `Q j`     the values sender `j` has broadcast and the honest readers have not yet read (the
              same queue in every honest inbox, because every honest reader applies the same
              per-queue parser of Tmcg/Model/Jl.lean to it)
    `CH`      the table of commitments, `W x` the complaints honest `x` broadcast in 1(b),
    `T j`     the accused parties in `j`'s complaint list, `QL` = Qual, `R` the accused of Flip,
    `A j`, `HA j` the opening of `j` as read, `Z j` the reconstructed share of an accused `j`.
-/
namespace Tmcg.JlProofs
open Tmcg Tmcg.Powm Tmcg.Vtmf Tmcg.Grp Tmcg.Jl

/-! ### the run -/

/-- the parties after `r` rounds -/
def cfg (G : Jl.Grp) (ins : List PartyIn) (n t r : Nat) : List Party :=
  runRounds (flipStep G ins n t) (List.range r) (initParties n t ins)

theorem cfg_zero (G : Jl.Grp) (ins : List PartyIn) (n t : Nat) : cfg G ins n t 0 = initParties n t ins := rfl

theorem cfg_succ (G : Jl.Grp) (ins : List PartyIn) (n t r : Nat) :
    cfg G ins n t (r + 1) = runRound (flipStep G ins n t r) (cfg G ins n t r) := by
  unfold cfg
  rw [List.range_succ, runRounds_append]
  rfl

theorem runFlip_eq_cfg (G : Jl.Grp) (ins : List PartyIn) (n t : Nat) :
    runFlip G n t ins = cfg G ins n t (6 + t + 1) := rfl

/-- the input of party `k` (as `flipStep` reads it) -/
def pinOf (ins : List PartyIn) (k : Nat) : PartyIn := ins.getD k ⟨[], [], {}⟩

/-- party `k` follows the protocol -/
def HonIdx (ins : List PartyIn) (n k : Nat) : Prop := k < n ∧ (pinOf ins k).dev.honest = true

/-- the coefficients party `k` draws -/
def cOf (ins : List PartyIn) (t k : Nat) : List Int :=
  (List.range (t + 1)).map (fun m => getI (pinOf ins k).strong (2 * m))
def hcOf (ins : List PartyIn) (t k : Nat) : List Int :=
  (List.range (t + 1)).map (fun m => getI (pinOf ins k).strong (2 * m + 1))

/-- the hypotheses of the theorems about a run -/
structure Setup (G : Jl.Grp) (ins : List PartyIn) (n t : Nat) : Prop where
  hG : ValidGrp G
  hlen : ins.length = n
  /-- honest majority -/
  hnt : 2 * t + 1 ≤ n
  /-- the interpolation points `1..n` are distinct modulo `q` -/
  hnq : (n : Int) < G.q
  /-- party indices fit `mpz_get_ui` -/
  hn64 : n < 2 ^ 64
  /-- at most `t` parties deviate -/
  hdev : ((List.range n).filter (fun k => !(pinOf ins k).dev.honest)).length ≤ t
  /-- an honest party's draws are there and reduced modulo `q` -/
  hcoins : ∀ k, HonIdx ins n k → 2 * (t + 1) ≤ (pinOf ins k).strong.length ∧
    ∀ m, m < 2 * (t + 1) → InRange G (getI (pinOf ins k).strong m)

/-- the broadcasts party `j` emits in round `r` (after its output filter) -/
def bOut (G : Jl.Grp) (ins : List PartyIn) (n t r j : Nat) : List (Tag × Int) :=
  if h : j < (cfg G ins n t r).length then (outOf (flipStep G ins n t r) (cfg G ins n t r) j h).1 else []

/-! ### the binding hypothesis

  Pedersen commitments bind only computationally: whoever knows `log_g h` can open them in many
  ways.  The theorems about reconstruction therefore assume that the values that OCCUR in the run
  (in an honest party's state or in a queue of its inbox, at any round) do not contain two
  different openings of a commitment derived from one row of the table: for every row there is a
  polynomial of degree `≤ t` on which the first components of all occurring valid openings lie.
  (A violation yields `log_g h`: `binding_pair` in TmcgProofs/JlArith.lean.) -/

/-- `v` occurs in the run as seen by the honest parties -/
def Occurs (G : Jl.Grp) (ins : List PartyIn) (n t : Nat) (v : Int) : Prop :=
  ∃ r k P j, (cfg G ins n t r)[k]? = some P ∧ HonIdx ins n k ∧
    (v = getI P.st.s j ∨ v = getI P.st.sp j ∨ v = getI P.st.a j ∨ v = getI P.st.ha j ∨
      ∃ tag, (tag, v) ∈ P.inbox.bq j)

/-- the openings occurring in the run bind the commitments derived from `row` to the polynomial `f` -/
def BindsRun (G : Jl.Grp) [Fact (Nat.Prime (grp G).p.natAbs)] (ins : List PartyIn) (n t : Nat)
    (row : List Int) (f : Polynomial (Zq G)) : Prop :=
  f.degree < ((t + 1 : Nat) : WithBot Nat) ∧
  ∀ m : Nat, m ≤ n → ∀ x y, Occurs G ins n t x → Occurs G ins n t y → AbsLt G x → AbsLt G y →
    com G x y = rowF G row m → toQ G x = f.eval ((m : Nat) : Zq G)

/-- the share fixed by the commitments of party `j`: `f_j(0)`, as an integer in `[0, q)` -/
noncomputable def committed (G : Jl.Grp) (fam : Nat → Polynomial (Zq G)) (j : Nat) : Int :=
  (((fam j).eval 0).val : Int)

/-! ### what the invariants say about one honest party -/

/-- alive and following the protocol -/
structure Alive (P : Party) : Prop where
  dev : P.dev = {}
  notDead : P.fs.dead = false
  running : P.status = .run
  noErr : P.err = none

/-- the constant part of the state of honest party `x` -/
structure Core (ins : List PartyIn) (n t x : Nat) (st : St) : Prop where
  n_eq : st.n = n
  t_eq : st.t = t
  i_eq : st.i = x
  sfb_eq : st.sfb = false
  c_eq : st.c = cOf ins t x
  hc_eq : st.hc = hcOf ins t x

/-- the inbox of honest `x`: `n` queues of either kind, the broadcast queues of the others are the
    common ones -/
structure Boxes (n x : Nat) (I : Inbox) (Q : Nat → List (Tag × Int)) : Prop where
  blen : I.b.length = n
  plen : I.p.length = n
  bq_eq : ∀ j, j < n → j ≠ x → I.bq j = Q j

variable (G : Jl.Grp) (ins : List PartyIn) (n t : Nat)

/-- the share `(s, sp)` held at point `x+1` matches the commitments `row` -/
def ValidShare [Fact (Nat.Prime (grp G).p.natAbs)] (row : List Int) (x : Nat) (s sp : Int) : Prop :=
  AbsLt G s ∧ AbsLt G sp ∧ com G s sp = rowF G row (x + 1)

/-- a row as an honest dealer with coefficients `c`, `hc` commits to it -/
def HonestRow [Fact (Nat.Prime (grp G).p.natAbs)] (c hc row : List Int) : Prop :=
  row.length = c.length ∧ ∀ k, k < row.length →
    IsElem G (getI row k) ∧ toF (grp G) (getI row k) = com G (getI c k) (getI hc k)

/-- the encoding of a list of values broadcast in instance `tag` -/
def tagged (tag : Tag) (l : List Int) : List (Tag × Int) := l.map (fun v => (tag, v))

/-! ### after round 0 (`jlDeal`) -/

structure Inv1 [Fact (Nat.Prime (grp G).p.natAbs)] (Q : Nat → List (Tag × Int)) (Row : Nat → List Int) : Prop where
  /-- the rows of the honest parties -/
  row_hon : ∀ j, HonIdx ins n j → HonestRow G (cOf ins t j) (hcOf ins t j) (Row j) ∧ (Row j).length = t + 1 ∧
    Q j = tagged tagShare (Row j)
  party : ∀ x, HonIdx ins n x → ∃ P, (cfg G ins n t 1)[x]? = some P ∧ Alive P ∧ Core ins n t x P.st ∧
    P.st.C = (zeroRows n t).set x (Row x) ∧ P.st.s = zeros n ∧ P.st.sp = zeros n ∧
    P.st.cnt = List.replicate n 0 ∧ P.st.a = zeros n ∧ P.st.ha = zeros n ∧ P.st.compl = [] ∧
    Boxes n x P.inbox Q ∧ ∀ j, HonIdx ins n j → P.inbox.pq j = []

/-! ### after round 1 (`jlReadC`) -/

/-- the share dealer `j` computes for party `x` -/
def shareOf (j x : Nat) : Int := evalShare G.q (cOf ins t j) (x + 1)
def hshareOf (j x : Nat) : Int := evalShare G.q (hcOf ins t j) (x + 1)

structure Inv2 [Fact (Nat.Prime (grp G).p.natAbs)] (Q : Nat → List (Tag × Int)) (CH : List (List Int))
    (Flag : Nat → Bool) : Prop where
  ch_len : CH.length = n
  /-- an honest party's row arrives complete -/
  ch_hon : ∀ j, HonIdx ins n j → HonestRow G (cOf ins t j) (hcOf ins t j) (getRow CH j) ∧
    (getRow CH j).length = t + 1 ∧ Flag j = false ∧ Q j = []
  /-- a row without a complaint consists of `t+1` group elements -/
  ch_ok : ∀ j, j < n → Flag j = false → (getRow CH j).length = t + 1 ∧ ∀ k, k < t + 1 → IsElem G (getI (getRow CH j) k)
  party : ∀ x, HonIdx ins n x → ∃ P, (cfg G ins n t 2)[x]? = some P ∧ Alive P ∧ Core ins n t x P.st ∧
    P.st.C = CH ∧ P.st.compl = (List.range n).filter (fun j => Flag j) ∧
    P.st.srow = (List.range n).map (fun j => shareOf G ins t x j) ∧
    P.st.hrow = (List.range n).map (fun j => hshareOf G ins t x j) ∧
    P.st.s = (zeros n).set x (shareOf G ins t x x) ∧ P.st.sp = (zeros n).set x (hshareOf G ins t x x) ∧
    P.st.cnt = List.replicate n 0 ∧ P.st.a = zeros n ∧ P.st.ha = zeros n ∧
    Boxes n x P.inbox Q ∧
    ∀ j, HonIdx ins n j → j ≠ x → P.inbox.pq j = [shareOf G ins t j x, hshareOf G ins t j x]

/-! ### after round 2 (`jlVerify`) -/

/-- the part of the state that stays as it is from round 2 to the end of `Share` -/
structure Held [Fact (Nat.Prime (grp G).p.natAbs)] (CH : List (List Int)) (x : Nat) (st : St) : Prop where
  C_eq : st.C = CH
  srow_eq : st.srow = (List.range n).map (fun j => shareOf G ins t x j)
  hrow_eq : st.hrow = (List.range n).map (fun j => hshareOf G ins t x j)
  s_len : st.s.length = n
  sp_len : st.sp.length = n
  s_abs : ∀ j, j < n → AbsLt G (getI st.s j) ∧ AbsLt G (getI st.sp j)
  a_eq : st.a = zeros n
  ha_eq : st.ha = zeros n

structure Inv3 [Fact (Nat.Prime (grp G).p.natAbs)] (Q : Nat → List (Tag × Int)) (CH : List (List Int))
    (Flag : Nat → Bool) (W : Nat → List Nat) : Prop where
  ch_len : CH.length = n
  ch_hon : ∀ j, HonIdx ins n j → HonestRow G (cOf ins t j) (hcOf ins t j) (getRow CH j) ∧ (getRow CH j).length = t + 1 ∧ Flag j = false
  ch_ok : ∀ j, j < n → Flag j = false → (getRow CH j).length = t + 1 ∧ ∀ k, k < t + 1 → IsElem G (getI (getRow CH j) k)
  /-- the complaints of honest `x`: sorted, without repetition, never against an honest party,
      always against a party whose commitments did not arrive; and what `x` broadcast -/
  w_hon : ∀ x, HonIdx ins n x → (W x).Pairwise (· < ·) ∧ (∀ j ∈ W x, j < n ∧ ¬ HonIdx ins n j) ∧
    (∀ j, j < n → Flag j = true → j ∈ W x) ∧
    Q x = tagged tagShare ((W x).map (fun (j : Nat) => (j : Int))) ++ [(tagShare, (n : Int))]
  party : ∀ x, HonIdx ins n x → ∃ P, (cfg G ins n t 3)[x]? = some P ∧ Alive P ∧ Core ins n t x P.st ∧
    Held G ins n t CH x P.st ∧
    P.st.cnt = (List.range n).map (fun j => if (W x).contains j then 1 else 0) ∧
    P.st.complainers = (List.range n).map (fun j => if (W x).contains j then [x] else []) ∧
    P.st.compl = [] ∧
    (∀ j, j < n → j ∉ W x → ValidShare G (getRow CH j) x (getI P.st.s j) (getI P.st.sp j)) ∧
    Boxes n x P.inbox Q

/-! ### after round 3 (`jlCollect`) -/

/-- `c` complained against `w` -/
def Accuses (T : Nat → List Nat) (c w : Nat) : Prop := c < n ∧ (T c).contains w = true

structure Inv4 [Fact (Nat.Prime (grp G).p.natAbs)] (Q : Nat → List (Tag × Int)) (CH : List (List Int))
    (Flag : Nat → Bool) (T : Nat → List Nat) (BadC : Nat → Bool) (CNT : List Nat) : Prop where
  ch_len : CH.length = n
  ch_hon : ∀ j, HonIdx ins n j → HonestRow G (cOf ins t j) (hcOf ins t j) (getRow CH j) ∧ (getRow CH j).length = t + 1 ∧ Flag j = false
  ch_ok : ∀ j, j < n → Flag j = false → (getRow CH j).length = t + 1 ∧ ∀ k, k < t + 1 → IsElem G (getI (getRow CH j) k)
  /-- what an honest party's list says: no repetition, never an honest party, every party whose
      commitments did not arrive; its list is not faulty -/
  t_hon : ∀ x, HonIdx ins n x → (T x).Nodup ∧ (∀ j ∈ T x, j < n ∧ ¬ HonIdx ins n j) ∧
    (∀ j, j < n → Flag j = true → j ∈ T x) ∧ BadC x = false
  t_lt : ∀ j, j < n → ∀ w ∈ T j, w < n
  /-- the counters: how many parties accuse `w` -/
  cnt_eq : CNT = (List.range n).map (fun w => ((List.range n).filter (fun c => (T c).contains w)).length)
  /-- the answers an honest party broadcast: one triple per accuser, in increasing order, then the end marker -/
  q_hon : ∀ x, HonIdx ins n x → Q x =
    (((List.range n).filter (fun c => (T c).contains x)).flatMap (fun (c : Nat) =>
      [(tagShare, (c : Int)), (tagShare, shareOf G ins t x c), (tagShare, hshareOf G ins t x c)])) ++ [(tagShare, (n : Int))]
  party : ∀ x, HonIdx ins n x → ∃ P, (cfg G ins n t 4)[x]? = some P ∧ Alive P ∧ Core ins n t x P.st ∧
    Held G ins n t CH x P.st ∧ P.st.cnt = CNT ∧
    P.st.complainers.length = n ∧
    (∀ w c, w < n → (c ∈ P.st.complainers.getD w [] ↔ Accuses n T c w)) ∧
    (∀ k, k ∈ P.st.compl ↔ k < n ∧ BadC k = true) ∧
    (∀ j, j < n → ¬ (T x).contains j → ValidShare G (getRow CH j) x (getI P.st.s j) (getI P.st.sp j)) ∧
    Boxes n x P.inbox Q

/-! ### after round 4 (`jlResolve`): the end of `Share`, the openings are out -/

/-- the part of the state that stays as it is from round 4 on -/
structure Shared [Fact (Nat.Prime (grp G).p.natAbs)] (CH : List (List Int)) (QL : List Nat) (x : Nat) (st : St) : Prop where
  C_eq : st.C = CH
  qual_eq : st.qual = QL
  s_len : st.s.length = n
  sp_len : st.sp.length = n
  /-- the share of every member of Qual this party holds matches that member's commitments -/
  valid : ∀ j, j ∈ QL → ValidShare G (getRow CH j) x (getI st.s j) (getI st.sp j)
  a_len : st.a.length = n
  ha_len : st.ha.length = n
  a_own : getI st.a x = getI (cOf ins t x) 0
  ha_own : getI st.ha x = getI (hcOf ins t x) 0

/-- the public facts about Qual -/
structure QualOk [Fact (Nat.Prime (grp G).p.natAbs)] (CH : List (List Int)) (QL : List Nat) : Prop where
  ch_len : CH.length = n
  ch_hon : ∀ j, HonIdx ins n j → HonestRow G (cOf ins t j) (hcOf ins t j) (getRow CH j) ∧ (getRow CH j).length = t + 1
  sorted : QL.Pairwise (· < ·)
  lt_n : ∀ j ∈ QL, j < n
  hon_mem : ∀ j, HonIdx ins n j → j ∈ QL
  /-- the commitments of a member of Qual arrived complete -/
  rows : ∀ j ∈ QL, (getRow CH j).length = t + 1 ∧ ∀ k, k < t + 1 → IsElem G (getI (getRow CH j) k)

structure Inv5 [Fact (Nat.Prime (grp G).p.natAbs)] (Q : Nat → List (Tag × Int)) (CH : List (List Int))
    (QL : List Nat) : Prop where
  qual : QualOk G ins n t CH QL
  /-- what an honest party broadcast: its opening -/
  q_hon : ∀ x, HonIdx ins n x → Q x = [(tagFlip, getI (cOf ins t x) 0), (tagFlip, getI (hcOf ins t x) 0)]
  party : ∀ x, HonIdx ins n x → ∃ P, (cfg G ins n t 5)[x]? = some P ∧ Alive P ∧ Core ins n t x P.st ∧
    Shared G ins n t CH QL x P.st ∧ Boxes n x P.inbox Q

/-! ### after round 5 + k: the openings are read, `k` accused parties are reconstructed -/

/-- the state of honest `x` in the reconstruction phase -/
structure RecSt [Fact (Nat.Prime (grp G).p.natAbs)] (CH : List (List Int)) (QL R : List Nat) (A Z : Nat → Int)
    (k x : Nat) (st : St) : Prop where
  shared : Shared G ins n t CH QL x st
  racc_eq : st.racc = R
  todo_eq : st.todo = R.drop k
  /-- the shares of the members of Qual that opened correctly: the opened value -/
  a_open : ∀ j, j ∈ QL → j ∉ R → getI st.a j = A j
  /-- the shares of the accused parties reconstructed so far -/
  a_rec : ∀ m, m < k → m < R.length → getI st.a (R.getD m 0) = Z (R.getD m 0)

structure InvRec [Fact (Nat.Prime (grp G).p.natAbs)] (Q : Nat → List (Tag × Int)) (CH : List (List Int))
    (QL R : List Nat) (A HA Z : Nat → Int) (k : Nat) : Prop where
  qual : QualOk G ins n t CH QL
  /-- the accused: members of Qual, none of them honest, at most `t` -/
  r_sorted : R.Pairwise (· < ·)
  r_sub : ∀ j ∈ R, j ∈ QL ∧ ¬ HonIdx ins n j
  k_le : k ≤ R.length
  /-- a member of Qual that is not accused opened its commitment -/
  open_ok : ∀ j, j ∈ QL → j ∉ R → AbsLt G (A j) ∧ AbsLt G (HA j) ∧ com G (A j) (HA j) = toF (grp G) (getI (getRow CH j) 0)
  open_hon : ∀ j, HonIdx ins n j → A j = getI (cOf ins t j) 0 ∧ HA j = getI (hcOf ins t j) 0
  open_occ : ∀ j, j ∈ QL → j ∉ R → Occurs G ins n t (A j) ∧ Occurs G ins n t (HA j)
  /-- while an accused party is left: every honest party runs and has published its share of it;
      at the end: every honest party has returned `true` with the sum over Qual -/
  party : ∀ x, HonIdx ins n x → ∃ P, (cfg G ins n t (6 + k))[x]? = some P ∧
    P.dev = {} ∧ P.fs.dead = false ∧ P.err = none ∧ Core ins n t x P.st ∧
    RecSt G ins n t CH QL R A Z k x P.st ∧
    (k < R.length → P.status = .run ∧ Boxes n x P.inbox Q ∧
      Q x = [(tagRec R, getI P.st.s (R.getD k 0)), (tagRec R, getI P.st.sp (R.getD k 0))]) ∧
    (k = R.length → P.status = .ret true ∧ P.st.coin = some (sumMod G.q P.st.a QL))

end Tmcg.JlProofs
