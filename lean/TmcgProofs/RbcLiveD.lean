import TmcgProofs.RbcLiveC
/-
  C14 liveness, part D: global invariants on the log and the broadcasts.
-/
namespace Tmcg.Rbc
variable {H : Int → Int} {T : Tag → Int} {c : Cfg}

theorem dlAfter_mono (dl : List (Nat × Tag × Int)) (i : Nat) (tag : Tag) (o : Outcome) :
    ∀ x ∈ dl, x ∈ dlAfter dl i tag o := by
  intro x hx; cases o <;> simp [dlAfter, hx]

theorem Micro.frame {s s' : Sys} (h : Micro H T c s s') :
    (∀ x ∈ s.log, x ∈ s'.log) ∧ (∀ x ∈ s.dl, x ∈ s'.dl) ∧ (∀ x ∈ s.bc, x ∈ s'.bc) := by
  cases h with
  | hk => exact ⟨fun x hx => List.mem_append_left _ hx, fun _ h => h, fun _ h => h⟩
  | disp => exact ⟨fun x hx => List.mem_append_left _ hx, dlAfter_mono _ _ _ _, fun _ h => h⟩
  | bufDel => exact ⟨fun _ h => h, fun x hx => List.mem_append_left _ hx, fun _ h => h⟩
  | bcast =>
    exact ⟨fun x hx => List.mem_append_left _ hx, fun _ h => h, fun x hx => List.mem_append_left _ hx⟩

/-- the r-send of a broadcast -/
def bcMsg (τ : Tag) (v : Int) : Msg := ⟨τ.id, τ.sender, τ.seq, rSend, v⟩

theorem broadcast_snd (p : Party) (v rnd : Int) :
    (broadcast p v rnd).2 = sendAll p.n (bcMsg ⟨p.ID, p.j, (broadcast p v rnd).1.s⟩ v) := rfl

/-- echo and ready messages go to everybody -/
def AllTo (c : Cfg) (s : Sys) : Prop :=
  ∀ j dst m, (j, dst, m) ∈ s.log → (m.action = rEcho ∨ m.action = rReady) →
    ∀ d < c.n, (j, d, m) ∈ s.log

theorem allTo_step {s s' : Sys} (hI : Inv H c s) (hm : Micro H T c s s') (ih : AllTo c s) :
    AllTo c s' := by
  intro j dst m hlog ha d hd
  cases hm with
  | hk i hi R s0 hff hR hs0 =>
    rcases List.mem_append.1 hlog with h | h
    · exact List.mem_append_left _ (ih j dst m h ha d hd)
    · obtain ⟨_, h2⟩ := mem_tagMsgs.1 h
      have := hs0 _ h2
      rcases ha with ha | ha <;> (rw [ha] at this; exact absurd this (by decide))
  | disp i hi l msg hl hin q' sd o hD =>
    rcases List.mem_append.1 hlog with h | h
    · exact List.mem_append_left _ (ih j dst m h ha d hd)
    · obtain ⟨rfl, h2⟩ := mem_tagMsgs.1 h
      have := (hD.sent_all _ h2).2 ha d (by rw [(hI.parties j hi).cn]; exact hd)
      exact List.mem_append_right _ (mem_tagMsgs.2 ⟨rfl, this⟩)
  | bufDel => exact ih j dst m hlog ha d hd
  | bcast i hi v rnd =>
    rcases List.mem_append.1 hlog with h | h
    · exact List.mem_append_left _ (ih j dst m h ha d hd)
    · obtain ⟨_, h2⟩ := mem_tagMsgs.1 h
      rw [broadcast_snd] at h2
      have := (mem_sendAll_iff.1 h2).2
      simp only at this
      rw [this] at ha
      rcases ha with ha | ha <;> exact absurd ha (by simp only [bcMsg]; decide)

/-- every recorded broadcast was sent to everybody as an r-send -/
def BcLog (c : Cfg) (s : Sys) : Prop :=
  ∀ k τ v, (k, τ, v) ∈ s.bc → c.honest k ∧ τ.id = c.ID ∧ τ.sender = (k : Int) ∧
    ∀ d < c.n, (k, d, bcMsg τ v) ∈ s.log

theorem bcLog_step {s s' : Sys} (hI : Inv H c s) (hm : Micro H T c s s') (ih : BcLog c s) :
    BcLog c s' := by
  have hfr := hm.frame
  intro k τ v hbc
  have old : (k, τ, v) ∈ s.bc → c.honest k ∧ τ.id = c.ID ∧ τ.sender = (k : Int) ∧
      ∀ d < c.n, (k, d, bcMsg τ v) ∈ s'.log := by
    intro h
    obtain ⟨h1, h2, h3, h4⟩ := ih k τ v h
    exact ⟨h1, h2, h3, fun d hd => hfr.1 _ (h4 d hd)⟩
  cases hm with
  | hk => exact old hbc
  | disp => exact old hbc
  | bufDel => exact old hbc
  | bcast i hi v' rnd =>
    rcases List.mem_append.1 hbc with h | h
    · exact old h
    · simp only [List.mem_singleton, Prod.mk.injEq] at h
      obtain ⟨rfl, rfl, rfl⟩ := h
      have hP := hI.parties k hi
      refine ⟨hi, hP.cID, by show ((s.st k).j : Int) = k; rw [hP.cj], fun d hd => ?_⟩
      refine List.mem_append_right _ (mem_tagMsgs.2 ⟨rfl, ?_⟩)
      rw [broadcast_snd]
      exact mem_sendAll_iff.2 ⟨by rw [hP.cn]; exact hd, rfl⟩

/-- FIFO mode: the broadcasts of `k` are exactly the slots `1 .. s`, one value per slot -/
def FifoBc (c : Cfg) (s : Sys) : Prop :=
  c.fifo = true → ∀ k, c.honest k →
    0 ≤ (s.st k).s ∧
    (∀ τ v, (k, τ, v) ∈ s.bc → 1 ≤ τ.seq ∧ τ.seq ≤ (s.st k).s) ∧
    (∀ σ : Int, 1 ≤ σ → σ ≤ (s.st k).s → ∃ v, (k, (⟨c.ID, k, σ⟩ : Tag), v) ∈ s.bc) ∧
    (∀ τ v v', (k, τ, v) ∈ s.bc → (k, τ, v') ∈ s.bc → v = v')

theorem fifoBc_init (c : Cfg) : FifoBc c (Sys.init c) := by
  intro _ k _
  refine ⟨by show (0 : Int) ≤ 0; omega, ?_, ?_, ?_⟩
  · intro τ v h; cases h
  · intro σ h1 h2
    have : (initParty c k).s = 0 := rfl
    have h2' : σ ≤ (initParty c k).s := h2
    omega
  · intro τ v v' h; cases h

theorem fifoBc_step {s s' : Sys} (hI : Inv H c s) (hm : Micro H T c s s') (ih : FifoBc c s) :
    FifoBc c s' := by
  intro hf k hk
  have same : s'.bc = s.bc → (s'.st k).s = (s.st k).s →
      0 ≤ (s'.st k).s ∧
      (∀ τ v, (k, τ, v) ∈ s'.bc → 1 ≤ τ.seq ∧ τ.seq ≤ (s'.st k).s) ∧
      (∀ σ : Int, 1 ≤ σ → σ ≤ (s'.st k).s → ∃ v, (k, (⟨c.ID, k, σ⟩ : Tag), v) ∈ s'.bc) ∧
      (∀ τ v v', (k, τ, v) ∈ s'.bc → (k, τ, v') ∈ s'.bc → v = v') := by
    intro h1 h2; rw [h1, h2]; exact ih hf k hk
  have updS : ∀ (i : Nat) (q' : Party), q'.s = (s.st i).s → (upd s.st i q' k).s = (s.st k).s := by
    intro i q' h
    by_cases hki : k = i
    · subst hki; rw [upd_same]; exact h
    · rw [upd_ne _ _ _ _ hki]
  cases hm with
  | hk i hi R s0 hff hR hs0 => exact same rfl (updS i _ rfl)
  | disp i hi l msg hl hin q' sd o hD => exact same rfl (updS i _ hD.s_eq)
  | bufDel i hi e rest m hff hm' => exact same rfl (updS i _ rfl)
  | bcast i hi v rnd =>
    obtain ⟨h0, h1, h2, h3⟩ := ih hf k hk
    have hP := hI.parties i hi
    have hfi : (s.st i).fifo = true := hP.cfifo.trans hf
    have hs' : (broadcast (s.st i) v rnd).1.s = (s.st i).s + 1 := by
      unfold broadcast; simp [hfi]
    by_cases hki : k = i
    · subst hki
      have hst : ((s.apply H T (.bcast k v rnd)).st k).s = (s.st k).s + 1 := by
        show (upd s.st k _ k).s = _
        rw [upd_same]; exact hs'
      have hnew : ((k, (⟨(s.st k).ID, (s.st k).j, (broadcast (s.st k) v rnd).1.s⟩ : Tag), v) :
          Nat × Tag × Int) = (k, ⟨c.ID, k, (s.st k).s + 1⟩, v) := by
        rw [hP.cID, hP.cj, hs']
      have hbc : (s.apply H T (.bcast k v rnd)).bc =
          s.bc ++ [(k, (⟨c.ID, k, (s.st k).s + 1⟩ : Tag), v)] := by
        show s.bc ++ [_] = _
        rw [hnew]
      rw [hst, hbc]
      refine ⟨by omega, ?_, ?_, ?_⟩
      · intro τ w h
        rcases List.mem_append.1 h with h | h
        · have := h1 τ w h; omega
        · simp only [List.mem_singleton, Prod.mk.injEq] at h
          obtain ⟨_, rfl, _⟩ := h
          show 1 ≤ (s.st k).s + 1 ∧ (s.st k).s + 1 ≤ (s.st k).s + 1
          omega
      · intro σ hσ1 hσ2
        by_cases hlt : σ ≤ (s.st k).s
        · obtain ⟨w, hw⟩ := h2 σ hσ1 hlt
          exact ⟨w, List.mem_append_left _ hw⟩
        · have : σ = (s.st k).s + 1 := by omega
          subst this
          exact ⟨v, List.mem_append_right _ (List.mem_singleton.2 rfl)⟩
      · intro τ w w' hw hw'
        rcases List.mem_append.1 hw with hw | hw <;> rcases List.mem_append.1 hw' with hw' | hw'
        · exact h3 τ w w' hw hw'
        · simp only [List.mem_singleton, Prod.mk.injEq] at hw'
          obtain ⟨_, rfl, _⟩ := hw'
          have := (h1 _ w hw).2
          simp only at this; omega
        · simp only [List.mem_singleton, Prod.mk.injEq] at hw
          obtain ⟨_, rfl, _⟩ := hw
          have := (h1 _ w' hw').2
          simp only at this; omega
        · simp only [List.mem_singleton, Prod.mk.injEq] at hw hw'
          rw [hw.2.2, hw'.2.2]
    · have hst : (s.apply H T (.bcast i v rnd)).st k = s.st k := by
        show upd s.st i _ k = _
        rw [upd_ne _ _ _ _ hki]
      have hbc : ∀ τ w, (k, τ, w) ∈ (s.apply H T (.bcast i v rnd)).bc ↔ (k, τ, w) ∈ s.bc := by
        intro τ w
        show (k, τ, w) ∈ s.bc ++ [_] ↔ _
        constructor
        · intro h
          rcases List.mem_append.1 h with h | h
          · exact h
          · simp only [List.mem_singleton, Prod.mk.injEq] at h
            exact absurd h.1 hki
        · exact fun h => List.mem_append_left _ h
      rw [hst]
      refine ⟨h0, fun τ w h => h1 τ w ((hbc τ w).1 h), ?_, ?_⟩
      · intro σ a b
        obtain ⟨w, hw⟩ := h2 σ a b
        exact ⟨w, (hbc _ _).2 hw⟩
      · intro τ w w' a b
        exact h3 τ w w' ((hbc _ _).1 a) ((hbc _ _).1 b)

end Tmcg.Rbc
