import TmcgProofs.CgjkrSignBindA1
import TmcgProofs.DkgAgree
/-
  C16, run level, part J: the schedule link — the round of the schedule that begins with `shRead ph` is preceded by a
  round that ends with `shEmit ph`.

    * `groupRounds_acc`     the rounds already cut stay in front
    * `prog_zero`           the first round of `prog m t` is `[kDeal]`
    * `groupRounds_consOK`  consecutive rounds `r0, r1` of the schedule: the last action `x` of `r0` and the first
                            action `y` of `r1` are adjacent in the action list (`[x, y] <:+: actions m t`)
    * `pred_shRead`         the action before `shRead ph` in `actions m t` is `shEmit ph`
    * `prog_shRead_pred`    hence: `(prog m t)[r]` begins with `shRead ph`  ⟹  `r = r' + 1` and `(prog m t)[r']` ends with
                            `shEmit ph`
-/
namespace Tmcg.CgjkrSignBind
open Tmcg Tmcg.Powm Tmcg.Dkg Tmcg.DkgP Tmcg.Cgjkr Tmcg.CgjkrSign Tmcg.CgjkrSignRunP

theorem groupRounds_acc (l cur : List Act) (a acc : List (List Act)) :
    groupRounds l cur (a ++ acc) = a ++ groupRounds l cur acc := by
  induction l generalizing cur acc with
  | nil =>
    simp only [groupRounds]
    split
    · rfl
    · rw [List.append_assoc]
  | cons x rest ih =>
    simp only [groupRounds]
    split
    · rw [List.append_assoc, ih]
    · rw [ih]

/-! ### consecutive rounds -/

def PairOK (L r0 r1 : List Act) : Prop :=
  ∃ x y, r0.getLast? = some x ∧ r1.head? = some y ∧ [x, y] <:+: L

def ConsOK (L : List Act) (R : List (List Act)) : Prop :=
  ∀ i r0 r1, R[i]? = some r0 → R[i + 1]? = some r1 → PairOK L r0 r1

theorem consOK_snoc (L : List Act) (acc : List (List Act)) (c : List Act) (h1 : ConsOK L acc)
    (h2 : ∀ r0, acc.getLast? = some r0 → PairOK L r0 c) : ConsOK L (acc ++ [c]) := by
  intro i r0 r1 e0 e1
  by_cases hi : i + 1 < acc.length
  · rw [List.getElem?_append_left (by omega)] at e0
    rw [List.getElem?_append_left hi] at e1
    exact h1 i r0 r1 e0 e1
  · have hi2 : i + 1 = acc.length := by
      have := (List.getElem?_eq_some_iff.1 e1).1
      simp only [List.length_append, List.length_singleton] at this
      omega
    rw [List.getElem?_append_left (by omega)] at e0
    rw [List.getElem?_append_right (by omega), hi2, Nat.sub_self] at e1
    simp only [List.getElem?_cons_zero, Option.some.injEq] at e1
    subst e1
    apply h2
    rw [List.getLast?_eq_getElem?, ← e0]
    congr 1
    omega

theorem groupRounds_consOK (L : List Act) (l cur : List Act) (acc : List (List Act)) (hc : cur ≠ [])
    (h1 : ConsOK L acc) (h2 : ∀ r0, acc.getLast? = some r0 → PairOK L r0 cur)
    (h3 : ∀ x, cur.getLast? = some x → (x :: l) <:+ L) : ConsOK L (groupRounds l cur acc) := by
  induction l generalizing cur acc with
  | nil =>
    simp only [groupRounds]
    have : cur.isEmpty = false := by simpa using hc
    rw [this]
    simp only [Bool.false_eq_true, if_false]
    exact consOK_snoc L acc cur h1 h2
  | cons a rest ih =>
    obtain ⟨x, hx⟩ : ∃ x, cur.getLast? = some x := by
      cases h : cur.getLast? with
      | none => exact absurd (List.getLast?_eq_none_iff.mp h) hc
      | some x => exact ⟨x, rfl⟩
    have hsuf := h3 x hx
    have hsuf' : (a :: rest) <:+ L := (List.suffix_cons x (a :: rest)).trans hsuf
    simp only [groupRounds]
    split
    · refine ih [a] (acc ++ [cur]) (by simp) (consOK_snoc L acc cur h1 h2) ?_ ?_
      · intro r0 hr0
        rw [List.getLast?_append, List.getLast?_singleton] at hr0
        simp only [Option.some_or, Option.some.injEq] at hr0
        subst hr0
        refine ⟨x, a, hx, rfl, ?_⟩
        obtain ⟨pre, hpre⟩ := hsuf
        exact ⟨pre, rest, by rw [← hpre]; simp⟩
      · intro y hy
        simp only [List.getLast?_singleton, Option.some.injEq] at hy
        subst hy
        exact hsuf'
    · refine ih (cur ++ [a]) acc (by simp) h1 ?_ ?_
      · intro r0 hr0
        obtain ⟨x0, y0, e1, e2, e3⟩ := h2 r0 hr0
        refine ⟨x0, y0, e1, ?_, e3⟩
        cases cur with
        | nil => exact absurd rfl hc
        | cons c cs => simpa using e2
      · intro y hy
        rw [List.getLast?_append, List.getLast?_singleton] at hy
        simp only [Option.some_or, Option.some.injEq] at hy
        subst hy
        exact hsuf'

/-! ### adjacent pairs of a concatenation -/

theorem infix_pair_mem {α} (x y : α) (A : List α) (h : [x, y] <:+: A) : y ∈ A := by
  obtain ⟨pre, suf, rfl⟩ := h
  simp

theorem infix_pair_append {α} (x y : α) (A B : List α) (h : [x, y] <:+: A ++ B) :
    [x, y] <:+: A ∨ [x, y] <:+: B ∨ (A.getLast? = some x ∧ B.head? = some y) := by
  induction A with
  | nil => right; left; simpa using h
  | cons a A' ih =>
    rw [List.cons_append, List.infix_cons_iff] at h
    rcases h with h | h
    · -- prefix
      obtain ⟨suf, hs⟩ := h
      simp only [List.cons_append, List.cons.injEq, List.nil_append] at hs
      obtain ⟨rfl, hs⟩ := hs
      cases A' with
      | nil =>
        right; right
        simp only [List.nil_append] at hs
        refine ⟨rfl, ?_⟩
        rw [← hs]; rfl
      | cons b A'' =>
        left
        simp only [List.cons_append, List.cons.injEq] at hs
        obtain ⟨rfl, -⟩ := hs
        exact ⟨[], A'', rfl⟩
    · rcases ih h with h' | h' | ⟨h1, h2⟩
      · left; exact List.infix_cons h'
      · right; left; exact h'
      · right; right
        refine ⟨?_, h2⟩
        cases A' with
        | nil => simp at h1
        | cons b A'' => simpa using h1

theorem infix_pair_two {α} (x y e s : α) (h : [x, y] <:+: [e, s]) : x = e ∧ y = s := by
  obtain ⟨pre, suf, hps⟩ := h
  have hl := congrArg List.length hps
  simp only [List.length_append, List.length_cons, List.length_nil] at hl
  have h1 : pre = [] := List.eq_nil_of_length_eq_zero (by omega)
  have h2 : suf = [] := List.eq_nil_of_length_eq_zero (by omega)
  subst h1 h2
  simp only [List.nil_append, List.append_nil, List.cons.injEq, and_true] at hps
  exact hps

/-! ### the action list -/

def actP1 (m t : Nat) : List Act :=
  [.kDeal, .kVerify, .kCollect, .kResolve] ++ (List.range (11 + 2 * t)).map Act.aGen ++
  (List.range m).flatMap (fun j => [Act.vDeal 0 j, .vR1 0 j, .vC 0 j, .vR3 0 j, .vDeal 1 j, .vR1 1 j, .vC 1 j, .vR3 1 j]) ++
  [.zkCommit 0, .zkRead 0] ++ dBlock 0 t ++ [.zkResp 0, .zkCheck 0] ++
  vssSlots 2 m ++ [.zkCommit 1, .zkRead 1] ++ dBlock 1 t ++ [.zkResp 1, .zkCheck 1] ++
  recSlots 0 m

def actP2 (m t : Nat) : List Act :=
  vssSlots 3 m ++ [.zkCommit 2, .zkRead 2] ++ dBlock 2 t ++ [.zkResp 2, .zkCheck 2] ++
  vssSlots 4 m ++ [.zkCommit 3, .zkRead 3] ++ dBlock 3 t ++ [.zkResp 3, .zkCheck 3] ++
  recSlots 1 m

theorem actions_split (m t : Nat) :
    actions m t = ((actP1 m t ++ [.shEmit 0, .shRead 0]) ++ actP2 m t) ++ [.shEmit 1, .shRead 1] := by
  unfold actions actP1 actP2
  simp only [List.append_assoc]

theorem shRead_not_P1 (m t ph : Nat) : Act.shRead ph ∉ actP1 m t := by
  unfold actP1
  simp only [List.mem_append, vssSlots, dBlock, recSlots, List.mem_cons, List.mem_map, List.mem_flatMap,
    List.not_mem_nil, reduceCtorEq, and_false, exists_false, or_false, not_false_eq_true]

theorem shRead_not_P2 (m t ph : Nat) : Act.shRead ph ∉ actP2 m t := by
  unfold actP2
  simp only [List.mem_append, vssSlots, dBlock, recSlots, List.mem_cons, List.mem_map, List.mem_flatMap,
    List.not_mem_nil, reduceCtorEq, and_false, exists_false, or_false, not_false_eq_true]

/-- the action before `shRead ph` in the action list is `shEmit ph` -/
theorem pred_shRead (m t ph : Nat) (x : Act) (h : [x, Act.shRead ph] <:+: actions m t) : x = .shEmit ph := by
  rw [actions_split] at h
  have head_mem : ∀ (B : List Act) (y : Act), B.head? = some y → y ∈ B := by
    intro B y hy
    cases B with
    | nil => cases hy
    | cons b B' => simp only [List.head?_cons, Option.some.injEq] at hy; subst hy; exact List.mem_cons_self
  rcases infix_pair_append _ _ _ _ h with h | h | ⟨-, h2⟩
  · rcases infix_pair_append _ _ _ _ h with h | h | ⟨-, h2⟩
    · rcases infix_pair_append _ _ _ _ h with h | h | ⟨-, h2⟩
      · exact absurd (infix_pair_mem _ _ _ h) (shRead_not_P1 m t ph)
      · obtain ⟨rfl, e⟩ := infix_pair_two _ _ _ _ h
        injection e with e
        subst e
        rfl
      · simp at h2
    · exact absurd (infix_pair_mem _ _ _ h) (shRead_not_P2 m t ph)
    · exact absurd (head_mem _ _ h2) (shRead_not_P2 m t ph)
  · obtain ⟨rfl, e⟩ := infix_pair_two _ _ _ _ h
    injection e with e
    subst e
    rfl
  · simp at h2

/-- the first round is `[kDeal]` -/
theorem prog_zero (m t : Nat) : ∃ R, prog m t = [Act.kDeal] :: R := by
  unfold prog actions
  simp only [List.cons_append, List.nil_append, groupRounds, Act.reads, List.isEmpty_nil, Bool.not_true,
    Bool.false_eq_true, if_false, Bool.not_false, Bool.and_self, if_true, List.isEmpty_cons]
  exact ⟨_, groupRounds_acc _ _ [[Act.kDeal]] [[Act.kVerify], [Act.kCollect]]⟩

theorem prog_consOK (m t : Nat) : ConsOK (actions m t) (prog m t) := by
  obtain ⟨rest, hrest⟩ : ∃ rest, actions m t = Act.kDeal :: rest := by
    unfold actions
    simp only [List.cons_append]
    exact ⟨_, rfl⟩
  unfold prog
  have e : groupRounds (actions m t) [] [] = groupRounds rest [Act.kDeal] [] := by
    rw [hrest]
    simp [groupRounds, Act.reads]
  rw [e]
  refine groupRounds_consOK (actions m t) rest [Act.kDeal] [] (by simp) ?_ ?_ ?_
  · intro i r0 r1 e0 _
    simp at e0
  · intro r0 h0
    simp at h0
  · intro x hx
    simp only [List.getLast?_singleton, Option.some.injEq] at hx
    subst hx
    rw [hrest]

/-- **the schedule link**: a round that begins with `shRead ph` is preceded by a round that ends with `shEmit ph` -/
theorem prog_shRead_pred (m t r ph : Nat) (h : ((prog m t).getD r []).head? = some (.shRead ph)) :
    ∃ r', r = r' + 1 ∧ ((prog m t).getD r' []).getLast? = some (.shEmit ph) := by
  cases r with
  | zero =>
    obtain ⟨R, hR⟩ := prog_zero m t
    have e0 : (prog m t).getD 0 [] = [Act.kDeal] := by rw [hR]; rfl
    rw [e0] at h
    injection h with h
    cases h
  | succ r' =>
    refine ⟨r', rfl, ?_⟩
    rw [List.getD_eq_getElem?_getD] at h ⊢
    cases h1 : (prog m t)[r' + 1]? with
    | none => rw [h1] at h; simp at h
    | some r1 =>
      rw [h1] at h
      simp only [Option.getD_some] at h
      have hlt : r' < (prog m t).length := by
        have := (List.getElem?_eq_some_iff.1 h1).1
        omega
      have h0 : (prog m t)[r']? = some (prog m t)[r'] := List.getElem?_eq_getElem hlt
      obtain ⟨x, y, e1, e2, e3⟩ := prog_consOK m t r' _ r1 h0 h1
      rw [h0]
      simp only [Option.getD_some]
      rw [h] at e2
      have e2' : y = Act.shRead ph := (Option.some.inj e2).symm
      rw [e2'] at e3
      rw [e1, pred_shRead m t ph x e3]

/-! ### the run -/

theorem stepParty_live {σ} (n : Nat) (step : Step σ) (P : Party σ)
    (h : (stepParty n step P).1.live = true) :
    P.live = true ∧ ∃ I ops, step P.st P.inbox = .ok ((stepParty n step P).1.st, I, ops, .run) := by
  unfold stepParty at h ⊢
  by_cases hl : P.live = true
  · simp only [hl, Bool.not_true, Bool.false_eq_true, if_false] at h ⊢
    refine ⟨trivial, ?_⟩
    cases hs : step P.st P.inbox with
    | error e =>
      rw [hs] at h
      simp [Party.live] at h
    | ok r =>
      obtain ⟨st, I, ops, status⟩ := r
      rw [hs] at h
      simp only at h ⊢
      have : status = .run := by
        simp only [Party.live, Bool.and_eq_true, beq_iff_eq] at h
        exact h.1.1
      subst this
      exact ⟨I, ops, rfl⟩
  · have hl' : P.live = false := by simpa using hl
    simp [hl'] at h

/-- the last action of a round that went through -/
theorem runActs_last (G : Dkg.Grp) (acts : List Act) (st : SSt) (I : Inbox) (acc : List Op)
    (st' : SSt) (I' : Inbox) (ops : List Op)
    (h : runActs G acts st I acc = .ok (st', I', ops, .run)) (a : Act) (hl : acts.getLast? = some a) :
    ∃ st0 I0 st1 I1 ops1, SameSt st st0 ∧ doAct G a st0 I0 = .ok (.go st1 I1 ops1) ∧
      st' = (emitOps st1 ops1 []).1 := by
  induction acts generalizing st I acc with
  | nil => simp at hl
  | cons b rest ih =>
    simp only [runActs, bind, Except.bind] at h
    cases hd : doAct G b st I with
    | error e => rw [hd] at h; cases h
    | ok o =>
      rw [hd] at h
      have hf := doAct_struct G b st I o hd
      cases o with
      | go st1 I1 ops1 =>
        simp only at h
        have e := emitOps_struct st1 ops1 []
        rcases he : emitOps st1 ops1 [] with ⟨st2, ops2⟩
        rw [he] at h e
        simp only at h e
        cases rest with
        | nil =>
          simp only [List.getLast?_singleton, Option.some.injEq] at hl
          subst hl
          simp only [runActs, pure, Except.pure, Except.ok.injEq, Prod.mk.injEq] at h
          refine ⟨st, I, st1, I1, ops1, SameSt.refl _, hd, ?_⟩
          rw [he]
          exact h.1.symm
        | cons c rest' =>
          have hl' : (c :: rest').getLast? = some a := by
            rw [List.getLast?_cons_cons] at hl
            exact hl
          obtain ⟨st0, I0, sa, Ia, opsa, s1, s2, s3⟩ := ih _ _ _ h hl'
          exact ⟨st0, I0, sa, Ia, opsa, (SameSt.trans hf e).trans s1, s2, s3⟩
      | done st1 I1 ops1 b' =>
        simp only at h
        rcases he : emitOps st1 ops1 [] with ⟨st2, ops2⟩
        rw [he] at h
        simp only [pure, Except.pure, Except.ok.injEq, Prod.mk.injEq] at h
        obtain ⟨-, -, -, h4⟩ := h
        cases h4

/-- **the state at `shRead ph` is the one `shEmit ph` left** (after the digest filter `emitOps`) -/
theorem atAct_shRead_emit (G : Dkg.Grp) (t : Nat) (msg : Int) (sub : List Nat) (ins : List SignIn) (k ph : Nat)
    (st : SSt) (I : Inbox) (hAt : AtAct G t msg sub ins k (.shRead ph) st I) :
    ∃ st0 I0 st1 I1 ops1, StructP t sub k st0 ∧ doAct G (.shEmit ph) st0 I0 = .ok (.go st1 I1 ops1) ∧
      st = (emitOps st1 ops1 []).1 := by
  obtain ⟨r, P, hP, hl, rfl, rfl, hhead⟩ := hAt
  obtain ⟨r', rfl, hlast⟩ := prog_shRead_pred sub.length t r ph hhead
  rw [cfgSign_succ] at hP
  have hk : k < (cfgSign G t msg sub ins r').length := by
    have := (List.getElem?_eq_some_iff.1 hP).1
    rwa [ag_runRound_length] at this
  obtain ⟨P2, h2, hD⟩ := ag_runRound_party (signStep G sub.length t r') (cfgSign G t msg sub ins r') k
    (cfgSign G t msg sub ins r')[k] (List.getElem?_eq_getElem hk)
  rw [hP] at h2
  cases h2
  have hQ : (stepParty (cfgSign G t msg sub ins r').length (signStep G sub.length t r' k)
      (cfgSign G t msg sub ins r')[k]).1.live = true := by
    simp only [Party.live] at hl ⊢
    rw [← hD.status, ← hD.fs, ← hD.err]
    exact hl
  obtain ⟨-, I2, ops2, hs⟩ := stepParty_live _ _ _ hQ
  have hstruct := cfg_struct G t msg sub ins k r' _ (List.getElem?_eq_getElem hk)
  obtain ⟨st0, I0, st1, I1, ops1, s1, s2, s3⟩ := runActs_last G _ _ _ _ _ _ _ hs _ hlast
  refine ⟨st0, I0, st1, I1, ops1, ?_, s2, ?_⟩
  · obtain ⟨a1, a2, a3, a4⟩ := s1
    obtain ⟨b1, b2, b3, b4⟩ := hstruct
    exact ⟨a1.trans b1, a2.trans b2, a3.trans b3, a4.trans b4⟩
  · rw [hD.st]
    exact s3

end Tmcg.CgjkrSignBind
