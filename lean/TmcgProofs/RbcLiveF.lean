import TmcgProofs.RbcLiveE
/-
  C14 liveness, part F: filter entries of honest links come from logged messages; the counters
  count at least the consumed messages of honest links.
-/
namespace Tmcg.Rbc
variable {H : Int → Int} {T : Tag → Int} {c : Cfg}

theorem upd_field {α : Type} (g : Party → α) (st : Nat → Party) (i : Nat) (q' : Party) (j : Nat)
    (h : g q' = g (st i)) : g (upd st i q' j) = g (st j) := by
  by_cases hji : j = i
  · subst hji; rw [upd_same]; exact h
  · rw [upd_ne _ _ _ _ hji]

/-- `f` is a first-time filter for action `a`: it changes only by inserting the link and tag of a
    consumed message with that action -/
def FilterFor (H : Int → Int) (T : Tag → Int) (f : Party → Filter) (a : Int) : Prop :=
  (∀ q l msg q' sd o, DispL H T q l msg q' sd o →
    f q' = f q ∨ (f q' = fIns (f q) l msg.tag ∧ msg.action = a)) ∧
  (∀ p R, f (hkParty p R) = f p) ∧
  (∀ (p : Party) (ds : List Int) (b : List Msg), f { p with deliverS := ds, deliverBuf := b } = f p) ∧
  (∀ (p : Party) (x : Int), f { p with s := x } = f p)

theorem filterFor_echo : FilterFor H T (·.echo) rEcho :=
  ⟨fun q l msg q' sd o h => by
    rcases h.echo_change with ⟨h1, _⟩ | ⟨h1, h2, _⟩
    · exact Or.inl h1
    · exact Or.inr ⟨h2, h1⟩, fun _ _ => rfl, fun _ _ _ => rfl, fun _ _ => rfl⟩

theorem filterFor_ready : FilterFor H T (·.ready) rReady :=
  ⟨fun q l msg q' sd o h => by
    rcases h.ready_change with ⟨h1, _⟩ | ⟨h1, h2, _⟩
    · exact Or.inl h1
    · exact Or.inr ⟨h2, h1⟩, fun _ _ => rfl, fun _ _ _ => rfl, fun _ _ => rfl⟩

theorem filterFor_request : FilterFor H T (·.request) rRequest :=
  ⟨fun q l msg q' sd o h => by
    rcases h.request_change with h1 | ⟨h1, h2, _⟩
    · exact Or.inl h1
    · exact Or.inr ⟨h1, h2⟩, fun _ _ => rfl, fun _ _ _ => rfl, fun _ _ => rfl⟩

theorem filterFor_answer : FilterFor H T (·.answer) rAnswer :=
  ⟨fun q l msg q' sd o h => by
    rcases h.answer_change with h1 | ⟨h1, h2, _⟩
    · exact Or.inl h1
    · exact Or.inr ⟨h1, h2⟩, fun _ _ => rfl, fun _ _ _ => rfl, fun _ _ => rfl⟩

/-- an entry of a first-time filter for an honest link stems from a logged message -/
def FlagLogFor (c : Cfg) (f : Party → Filter) (a : Int) (s : Sys) : Prop :=
  ∀ j, c.honest j → ∀ l, c.honest l → ∀ τ, fHas (f (s.st j)) l τ = true →
    ∃ m, (l, j, m) ∈ s.log ∧ m.action = a ∧ m.tag = τ

theorem flagLogFor_step {f : Party → Filter} {a : Int} (hf : FilterFor H T f a) {s s' : Sys}
    (hm : Micro H T c s s') (ih : FlagLogFor c f a s) : FlagLogFor c f a s' := by
  have hfr := hm.frame
  obtain ⟨hf1, hf2, hf3, hf4⟩ := hf
  intro j hj l hl τ hfl
  have old : fHas (f (s.st j)) l τ = true → ∃ m, (l, j, m) ∈ s'.log ∧ m.action = a ∧ m.tag = τ := by
    intro h
    obtain ⟨m, h1, h2⟩ := ih j hj l hl τ h
    exact ⟨m, hfr.1 _ h1, h2⟩
  have old' : f (s'.st j) = f (s.st j) → ∃ m, (l, j, m) ∈ s'.log ∧ m.action = a ∧ m.tag = τ := by
    intro h; exact old (by rw [← h]; exact hfl)
  cases hm with
  | hk i hi R s0 hff hR hs0 => exact old' (upd_field f _ _ _ _ (hf2 _ _))
  | bufDel i hi e rest m' hff hm' => exact old' (upd_field f _ _ _ _ (hf3 _ _ _))
  | bcast i hi v rnd => exact old' (upd_field f _ _ _ _ (hf4 _ _))
  | disp i hi l0 msg hl0 hin q' sd o hD =>
    rcases hf1 _ _ _ _ _ _ hD with h | ⟨h, ha⟩
    · exact old' (upd_field f _ _ _ _ h)
    · by_cases hji : j = i
      swap
      · exact old' (by show f (upd s.st i q' j) = _; rw [upd_ne _ _ _ _ hji])
      subst hji
      have hfl' : fHas (f q') l τ = true := by
        have : (upd s.st j q' j) = q' := upd_same _ _ _
        rw [← this]; exact hfl
      rw [h] at hfl'
      rcases (fHas_fIns _ _ _ _ _).1 hfl' with ⟨rfl, rfl⟩ | h'
      · rcases hin with hb | hlog
        · exact absurd hb hl.2
        · exact ⟨msg, List.mem_append_left _ hlog, ha, rfl⟩
      · exact old h'

def actMsg (a : Int) (τ : Tag) (d : Int) : Msg := ⟨τ.id, τ.sender, τ.seq, a, d⟩

theorem msg_eq_actMsg (m : Msg) (a : Int) (τ : Tag) (d : Int) (h1 : m.action = a) (h2 : m.tag = τ)
    (h3 : m.payload = d) : m = actMsg a τ d := by
  cases m; subst h1; subst h2; subst h3; rfl

/-- honest parties send one payload per tag with action `a` -/
def UniqPay (c : Cfg) (a : Int) (s : Sys) : Prop :=
  ∀ l, c.honest l → ∀ dst m dst' m', (l, dst, m) ∈ s.log → (l, dst', m') ∈ s.log →
    m.action = a → m'.action = a → m.tag = m'.tag → m.payload = m'.payload

theorem uniqPay_echo {s : Sys} (hI : Inv H c s) : UniqPay c rEcho s :=
  fun l _ dst m dst' m' h h' ha ha' ht => hI.echoU l dst m dst' m' h h' ha ha' ht

theorem uniqPay_ready (hy : Hyp H c) {s : Sys} (hI : Inv H c s) : UniqPay c rReady s := by
  intro l _ dst m dst' m' h h' ha ha' ht
  have e1 := hI.readyEQ l dst m h ha
  have e2 := hI.readyEQ l dst' m' h' ha'
  rw [ht] at e1
  exact EQ.unique hy hI e1 e2

/-- `f` / `D` are the first-time filter and the counter of action `a` -/
def CountFor (H : Int → Int) (T : Tag → Int) (f : Party → Filter) (a : Int) (D : Party → Counts) :
    Prop :=
  (∀ q l msg q' sd o, DispL H T q l msg q' sd o →
    (f q' = f q ∧ ∀ k, cnt (D q') k = cnt (D q) k) ∨
    (msg.action = a ∧ f q' = fIns (f q) l msg.tag ∧
      ((¬ LenOk T msg.tag msg.payload ∧ D q' = D q) ∨
       (LenOk T msg.tag msg.payload ∧ D q' = (cntInc (D q) (msg.tag, msg.payload)).1)))) ∧
  (∀ p R, f (hkParty p R) = f p ∧ D (hkParty p R) = D p) ∧
  (∀ (p : Party) (ds : List Int) (b : List Msg),
    f { p with deliverS := ds, deliverBuf := b } = f p ∧
    D { p with deliverS := ds, deliverBuf := b } = D p) ∧
  (∀ (p : Party) (x : Int), f { p with s := x } = f p ∧ D { p with s := x } = D p)

theorem countFor_echo : CountFor H T (·.echo) rEcho (·.eD) :=
  ⟨fun _ _ _ _ _ _ h => h.echo_change, fun _ _ => ⟨rfl, rfl⟩, fun _ _ _ => ⟨rfl, rfl⟩,
   fun _ _ => ⟨rfl, rfl⟩⟩

theorem countFor_ready : CountFor H T (·.ready) rReady (·.rD) :=
  ⟨fun _ _ _ _ _ _ h => h.ready_change, fun _ _ => ⟨rfl, rfl⟩, fun _ _ _ => ⟨rfl, rfl⟩,
   fun _ _ => ⟨rfl, rfl⟩⟩

/-- the counter of `(τ, d)` is at least the number of honest links whose message `(a, τ, d)` to
    `j` was consumed (its filter entry is set), provided `d` passes the length check -/
def CntFor (c : Cfg) (T : Tag → Int) (f : Party → Filter) (a : Int) (D : Party → Counts)
    (s : Sys) : Prop :=
  ∀ j, c.honest j → ∀ τ d, LenOk T τ d → ∀ S : Finset Nat,
    (∀ l ∈ S, c.honest l ∧ fHas (f (s.st j)) l τ = true ∧ (l, j, actMsg a τ d) ∈ s.log) →
    S.card ≤ cnt (D (s.st j)) (τ, d)

theorem cntFor_step {f : Party → Filter} {a : Int} {D : Party → Counts}
    (hc : CountFor H T f a D) {s s' : Sys} (hm : Micro H T c s s')
    (hFL : FlagLogFor c f a s) (hU : UniqPay c a s') (ih : CntFor c T f a D s) :
    CntFor c T f a D s' := by
  have hfr := hm.frame
  obtain ⟨hc1, hc2, hc3, hc4⟩ := hc
  intro j hj τ d hlen S hS
  -- a message of an honest link whose filter entry was set before is an old message
  have pull : ∀ l, c.honest l → fHas (f (s.st j)) l τ = true → (l, j, actMsg a τ d) ∈ s'.log →
      (l, j, actMsg a τ d) ∈ s.log := by
    intro l hl hfl hlog
    obtain ⟨m, h1, h2, h3⟩ := hFL j hj l hl τ hfl
    have := hU l hl j m j (actMsg a τ d) (hfr.1 _ h1) hlog h2 rfl (by rw [h3]; rfl)
    rw [msg_eq_actMsg m a τ d h2 h3 this] at h1
    exact h1
  -- if filter and counter of `j` are as before, the claim follows from the hypothesis
  have old : (∀ l ∈ S, fHas (f (s.st j)) l τ = true) →
      cnt (D (s.st j)) (τ, d) ≤ cnt (D (s'.st j)) (τ, d) → S.card ≤ cnt (D (s'.st j)) (τ, d) := by
    intro h1 h2
    refine le_trans (ih j hj τ d hlen S (fun l hl => ?_)) h2
    obtain ⟨a1, _, a3⟩ := hS l hl
    exact ⟨a1, h1 l hl, pull l a1 (h1 l hl) a3⟩
  have old' : f (s'.st j) = f (s.st j) → (∀ k, cnt (D (s'.st j)) k = cnt (D (s.st j)) k) →
      S.card ≤ cnt (D (s'.st j)) (τ, d) := by
    intro h1 h2
    exact old (fun l hl => by rw [← h1]; exact (hS l hl).2.1) (le_of_eq (h2 _).symm)
  cases hm with
  | hk i hi R s0 hff hR hs0 =>
    exact old' (upd_field f _ _ _ _ (hc2 _ _).1) (fun k => by rw [upd_field D _ _ _ _ (hc2 _ _).2])
  | bufDel i hi e rest m' hff hm' =>
    exact old' (upd_field f _ _ _ _ (hc3 _ _ _).1)
      (fun k => by rw [upd_field D _ _ _ _ (hc3 _ _ _).2])
  | bcast i hi v rnd =>
    have e1 : f (upd s.st i (broadcast (s.st i) v rnd).1 j) = f (s.st j) :=
      upd_field f _ _ _ _ (hc4 (s.st i) _).1
    have e2 : D (upd s.st i (broadcast (s.st i) v rnd).1 j) = D (s.st j) :=
      upd_field D _ _ _ _ (hc4 (s.st i) _).2
    exact old' e1 (fun k => congrArg (fun z => cnt z k) e2)
  | disp i hi l0 msg hl0 hin q' sd o hD =>
    by_cases hji : j = i
    swap
    · have : (upd s.st i q' j) = s.st j := upd_ne _ _ _ _ hji
      exact old' (by show f (upd s.st i q' j) = _; rw [this])
        (fun k => by show cnt (D (upd s.st i q' j)) k = _; rw [this])
    subst hji
    have hst : (upd s.st j q' j) = q' := upd_same _ _ _
    show S.card ≤ cnt (D (upd s.st j q' j)) (τ, d)
    have hS' : ∀ l ∈ S, c.honest l ∧ fHas (f q') l τ = true ∧
        (l, j, actMsg a τ d) ∈ s.log ++ tagMsgs j sd := by
      intro l hl
      have := hS l hl
      rw [show ((⟨upd s.st j q', s.log ++ tagMsgs j sd, s.bc, dlAfter s.dl j msg.tag o⟩ : Sys).st j)
        = q' from hst] at this
      exact this
    rw [hst]
    rcases hc1 _ _ _ _ _ _ hD with ⟨h1, h2⟩ | ⟨ha, h1, hcase⟩
    · have := old' (by show f (upd s.st j q' j) = _; rw [hst]; exact h1)
        (fun k => by show cnt (D (upd s.st j q' j)) k = _; rw [hst]; exact h2 k)
      rw [show ((⟨upd s.st j q', s.log ++ tagMsgs j sd, s.bc, dlAfter s.dl j msg.tag o⟩ : Sys).st j)
        = q' from hst] at this
      exact this
    · -- the entry (l0, msg.tag) is new
      have hmsg : ∀ l ∈ S, l = l0 → τ = msg.tag → msg.payload = d := by
        intro l hl hl1 hτ
        subst hl1; subst hτ
        obtain ⟨a1, _, a3⟩ := hS' l hl
        rcases hin with hb | hlog
        · exact absurd hb a1.2
        · exact hU l a1 j msg j _ (List.mem_append_left _ hlog) a3 ha rfl rfl
      have flagOld : ∀ l ∈ S, ¬(l = l0 ∧ τ = msg.tag) → fHas (f (s.st j)) l τ = true := by
        intro l hl hne
        have := (hS' l hl).2.1
        rw [h1] at this
        rcases (fHas_fIns _ _ _ _ _).1 this with h | h
        · exact absurd h hne
        · exact h
      rcases hcase with ⟨hnl, hD'⟩ | ⟨_, hD'⟩
      · -- too long: not counted; but then it is not the message (τ, d)
        rw [hD']
        refine ih j hj τ d hlen S (fun l hl => ?_)
        have hfo : fHas (f (s.st j)) l τ = true := by
          refine flagOld l hl ?_
          rintro ⟨e1, e2⟩
          have := hmsg l hl e1 e2
          subst e2; rw [this] at hnl
          exact hnl hlen
        exact ⟨(hS' l hl).1, hfo, pull l (hS' l hl).1 hfo (hS l hl).2.2⟩
      · rw [hD']
        by_cases hk : (τ, d) = (msg.tag, msg.payload)
        · rw [hk, cnt_cntInc_self]
          have hτ : τ = msg.tag := (Prod.mk.injEq _ _ _ _ ▸ hk).1
          have hdd : d = msg.payload := (Prod.mk.injEq _ _ _ _ ▸ hk).2
          have h3 : (S.erase l0).card ≤ cnt (D (s.st j)) (τ, d) := by
            refine ih j hj τ d hlen _ (fun l hl => ?_)
            obtain ⟨hne, hlS⟩ := Finset.mem_erase.1 hl
            have hfo : fHas (f (s.st j)) l τ = true := flagOld l hlS (fun h => hne h.1)
            exact ⟨(hS' l hlS).1, hfo, pull l (hS' l hlS).1 hfo (hS l hlS).2.2⟩
          rw [hk] at h3
          have := Finset.pred_card_le_card_erase (s := S) (a := l0)
          omega
        · rw [cnt_cntInc_ne _ _ _ hk]
          refine ih j hj τ d hlen S (fun l hl => ?_)
          have hfo : fHas (f (s.st j)) l τ = true := by
            refine flagOld l hl ?_
            rintro ⟨e1, e2⟩
            have := hmsg l hl e1 e2
            exact hk (by rw [e2, this])
          exact ⟨(hS' l hl).1, hfo, pull l (hS' l hl).1 hfo (hS l hl).2.2⟩

end Tmcg.Rbc
