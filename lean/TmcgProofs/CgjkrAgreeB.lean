import TmcgProofs.CgjkrAgreeA
/-
  Auxiliary material for TmcgProofs/CgjkrAgree.lean: the round function `genStepC` / `genRound` of
  `DKG::Generate` (Tmcg/Model/Cgjkr.lean) seen from the joint sharing `x_rvss`:
    * rounds 0, 1, 2, 3 are `rvDeal`, `rvVerify`, `rvCollect`, `rvResolve` under the tag `tagX n`
      (`xa_step0` … `xa_step3`),
    * rounds ≥ 4 leave the field `xr` alone (`xa_genStepC_xr`, `xa_runRounds_xr`).
-/
namespace Tmcg.CgjkrP
open Tmcg Tmcg.Powm Tmcg.Dkg Tmcg.Grp Tmcg.DkgL Tmcg.DkgP Tmcg.Cgjkr

variable {G : Dkg.Grp} [Fact (Nat.Prime G.p.natAbs)]

set_option linter.unusedSectionVars false
set_option linter.unusedVariables false

/-- the environment of a party of `runGenC` -/
abbrev envOf (G : Dkg.Grp) (n t i : Nat) : Env := ⟨G, n, t, i, List.range n⟩

theorem xa_env_eq (st : GSt) (n t i : Nat) (hn : st.n = n) (ht : st.t = t) (hi : st.i = i) :
    st.env G = envOf G n t i := by
  subst hn ht hi
  rfl

theorem xa_envOf_pt (n t i j : Nat) (hj : j < n) : (envOf G n t i).pt j = j + 1 := by
  show getN (List.range n) j + 1 = j + 1
  unfold getN
  rw [List.getD_eq_getElem _ _ (by simpa using hj)]
  simp

/-! ### rounds 0-3 -/

def outSt : GOut → GSt
  | .go st _ _ => st
  | .done st _ _ _ => st

theorem xa_step0 (ins : List PartyIn) (i : Nat) (st : GSt) (I : Inbox) (xr : Rv) (ops : List Op)
    (h : rvDeal (st.env G) (tagX st.n) false st.sfb (wbit (pinOf ins i).weak 10)
      (Cgjkr.coefA (pinOf ins i).strong 0 st.t) (Cgjkr.coefB (pinOf ins i).strong 0 st.t) = .ok (xr, ops)) :
    ∃ st', genStepC G ins 0 i st I = .ok (st', I, ops, .run) ∧ st'.xr = xr ∧ st'.n = st.n ∧ st'.t = st.t ∧
      st'.i = st.i ∧ st'.sfb = st.sfb ∧ st'.strong = (pinOf ins i).strong := by
  refine ⟨{ st with r := (List.range 10).map (fun k => wbit (pinOf ins i).weak k),
                      rndX := wbit (pinOf ins i).weak 10, rndD := wbit (pinOf ins i).weak 11,
                      strong := (pinOf ins i).strong, xr := xr,
                      A := zeros st.n, B := zeros st.n, T := zeros st.n, Tp := zeros st.n, di := zeros st.n,
                      dpi := zeros st.n, zi := zeros st.n }, ?_, rfl, rfl, rfl, rfl, rfl, rfl⟩
  unfold genStepC genRound
  simp only [pinOf] at h
  simp only [if_true, h, bind, Except.bind, pure, Except.pure]
  rfl

theorem xa_step1 (ins : List PartyIn) (i : Nat) (st : GSt) (I I1 : Inbox) (xr : Rv) (ops : List Op)
    (h : rvVerify (st.env G) (tagX st.n) st.xr I = .ok (xr, I1, ops)) :
    genStepC G ins 1 i st I = .ok ({ st with xr := xr }, I1, ops, .run) := by
  unfold genStepC genRound
  simp [h, bind, Except.bind, pure, Except.pure]

theorem xa_step2 (ins : List PartyIn) (i : Nat) (st : GSt) (I I1 : Inbox) (xr : Rv) (ops : List Op)
    (h : rvCollect (st.env G) (tagX st.n) st.xr I = (xr, I1, ops)) :
    genStepC G ins 2 i st I = .ok ({ st with xr := xr }, I1, ops, .run) := by
  unfold genStepC genRound
  simp [h, bind, Except.bind, pure, Except.pure]

theorem xa_step3 (hG : ValidGrp G) (ins : List PartyIn) (i : Nat) (st : GSt) (I I1 : Inbox) (xr : Rv)
    (h : rvResolve (st.env G) (tagX st.n) st.xr I = .ok (xr, I1)) (hsfb : st.sfb = false)
    (hz : xr.z.natAbs < G.q.natAbs) (hzp : xr.zp.natAbs < G.q.natAbs)
    (hri : (getI st.strong (2 * (st.t + 1))).natAbs < G.q.natAbs)
    (hrpi : (getI st.strong (2 * (st.t + 1) + 1)).natAbs < G.q.natAbs) :
    ∃ st' ops status, genStepC G ins 3 i st I = .ok (st', I1, ops, status) ∧ st'.xr = xr := by
  obtain ⟨a0, ha0, -⟩ := fspowm_g hG xr.z hz
  obtain ⟨bi, hbi, -⟩ := fspowm_h hG xr.zp hzp
  obtain ⟨ti, hti, -⟩ := fspowm_g hG _ hri
  obtain ⟨tpi, htpi, -⟩ := fspowm_h hG _ hrpi
  unfold genStepC genRound
  simp only [h, hsfb, bind, Except.bind, pure, Except.pure, Bool.false_and, Bool.false_eq_true, if_false,
    show ¬ (3 = 0) by decide, show ¬ (3 = 1) by decide, show ¬ (3 = 2) by decide, if_true]
  by_cases hret : (xr.ret != some true) = true
  · simp only [hret, if_true]
    exact ⟨_, _, _, rfl, rfl⟩
  · simp only [hret, ha0, hbi, hti, htpi]
    exact ⟨_, _, _, rfl, rfl⟩

/-! ### rounds ≥ 4 leave `xr` alone -/

theorem xa_genStep5_xr (st : GSt) (I : Inbox) (ops : List Op) (out : GOut)
    (h : genRound.genStep5 G st I ops = .ok out) : (outSt out).xr = st.xr := by
  unfold genRound.genStep5 at h
  split at h
  · injection h with h
    rw [← h]
    rfl
  · injection h with h
    rw [← h]
    rfl

set_option linter.unusedTactic false in
set_option linter.unreachableTactic false in
set_option linter.unnecessarySeqFocus false in
theorem xa_genRound_xr (weak : List Nat) (strong : List Int) (k : Nat) (hk : 4 ≤ k) (st : GSt) (I : Inbox)
    (out : GOut) (h : genRound G weak strong k st I = .ok out) : (outSt out).xr = st.xr := by
  unfold genRound at h
  simp only [show ¬ k = 0 by omega, show ¬ k = 1 by omega, show ¬ k = 2 by omega, show ¬ k = 3 by omega,
    if_false, bind, Except.bind, pure, Except.pure] at h
  by_cases h4 : k = 4
  · rw [if_pos h4] at h
    repeat' split at h
    all_goals first | (cases h <;> rfl) | exact (xa_genStep5_xr _ _ _ _ h).trans rfl
  rw [if_neg h4] at h
  by_cases h5 : k = 5
  · rw [if_pos h5] at h
    repeat' split at h
    all_goals first | (cases h <;> rfl) | exact (xa_genStep5_xr _ _ _ _ h).trans rfl
  rw [if_neg h5] at h
  by_cases h6 : k = 6
  · rw [if_pos h6] at h
    repeat' split at h
    all_goals first | (cases h <;> rfl) | exact (xa_genStep5_xr _ _ _ _ h).trans rfl
  rw [if_neg h6] at h
  by_cases h7 : k = 7
  · rw [if_pos h7] at h
    repeat' split at h
    all_goals first | (cases h <;> rfl) | exact (xa_genStep5_xr _ _ _ _ h).trans rfl
  rw [if_neg h7] at h
  by_cases h8t : k < 8 + st.t ∨ k = 8
  · rw [if_pos h8t] at h
    by_cases h8 : k = 8
    · rw [if_pos h8] at h
      rcases hg : gReadStep4 G st (List.range st.n) I st.di st.dpi [] with e | v
      · simp only [hg] at h
        cases h
      · simp only [hg] at h
        repeat' split at h
        all_goals first | (cases h <;> rfl) | exact (xa_genStep5_xr _ _ _ _ h).trans rfl
    · rw [if_neg h8] at h
      simp only at h
      repeat' split at h
      all_goals first | (cases h <;> rfl) | exact (xa_genStep5_xr _ _ _ _ h).trans rfl
  rw [if_neg h8t] at h
  by_cases h8e : k = 8 + st.t
  · rw [if_pos h8e] at h
    repeat' split at h
    all_goals first | (cases h <;> rfl) | exact (xa_genStep5_xr _ _ _ _ h).trans rfl
  rw [if_neg h8e] at h
  by_cases h9 : k = 9 + st.t
  · rw [if_pos h9] at h
    repeat' split at h
    all_goals first | (cases h <;> rfl) | exact (xa_genStep5_xr _ _ _ _ h).trans rfl
  rw [if_neg h9] at h
  by_cases h10 : k = 10 + st.t
  · simp only [if_pos h10] at h
    repeat' split at h
    all_goals first | (cases h <;> rfl) | exact (xa_genStep5_xr _ _ _ _ h).trans rfl
  · simp only [if_neg h10] at h
    repeat' split at h
    all_goals first | (cases h <;> rfl) | exact (xa_genStep5_xr _ _ _ _ h).trans rfl

theorem xa_genStepC_xr (ins : List PartyIn) (k i : Nat) (hk : 4 ≤ k) (st st' : GSt) (I I' : Inbox)
    (ops : List Op) (s : Status) (h : genStepC G ins k i st I = .ok (st', I', ops, s)) : st'.xr = st.xr := by
  unfold genStepC at h
  obtain ⟨out, h1, h⟩ := ag_bind_ok _ _ _ h
  have hx := xa_genRound_xr _ _ k hk st I out h1
  cases out with
  | go st1 I1 ops1 =>
    injection h with h
    injection h with h
    rw [← h]
    exact hx
  | done st1 I1 ops1 b =>
    injection h with h
    injection h with h
    rw [← h]
    exact hx

theorem xa_runRound_xr (ins : List PartyIn) (k : Nat) (hk : 4 ≤ k) (ps : List (Party GSt)) (i : Nat) :
    ((runRound (genStepC G ins k) ps)[i]?).map (fun P => P.st.xr) = (ps[i]?).map (fun P => P.st.xr) := by
  cases hP : ps[i]? with
  | none =>
    have : (runRound (genStepC G ins k) ps)[i]? = none := by
      rw [List.getElem?_eq_none_iff, ag_runRound_length]
      exact List.getElem?_eq_none_iff.mp hP
    rw [this]
  | some P =>
    obtain ⟨P', hP', hd⟩ := ag_runRound_party (genStepC G ins k) ps i P hP
    rw [hP']
    simp only [Option.map_some, hd.st]
    congr 1
    rcases ag_stepParty_st ps.length (genStepC G ins k i) P with h | ⟨I, ops, status, h⟩
    · rw [h]
    · exact xa_genStepC_xr ins k i hk _ _ _ _ _ _ h

theorem xa_runRounds_xr (ins : List PartyIn) (l : List Nat) (hl : ∀ k ∈ l, 4 ≤ k)
    (ps : List (Party GSt)) (i : Nat) :
    ((runRounds (genStepC G ins) l ps)[i]?).map (fun P => P.st.xr) = (ps[i]?).map (fun P => P.st.xr) := by
  induction l generalizing ps with
  | nil => rfl
  | cons k l ih =>
    simp only [runRounds]
    rw [ih (fun k hk => hl k (List.mem_cons_of_mem _ hk)), xa_runRound_xr ins k (hl k (by simp))]

end Tmcg.CgjkrP
