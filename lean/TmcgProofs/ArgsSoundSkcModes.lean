import TmcgProofs.ArgsSoundSkc
/-
  C04 for Groth's shuffle argument, part 3: the shuffle of known content in the interactive and the
  non-interactive mode, honest prover algorithm with a witness that need not fit; the exceptional
  challenges and their number.
-/
namespace Tmcg.Args
open Tmcg Tmcg.Powm Tmcg.Vtmf Tmcg.Grp Tmcg.Sigma Tmcg.SigmaComplete Tmcg.CoinFlip Tmcg.ArgsSound
variable {G : Group} [Fact (Nat.Prime G.p.natAbs)] [Fact (Nat.Prime G.q.natAbs)]
set_option linter.unusedVariables false
set_option linter.unusedSectionVars false

theorem run_bind_ok {α} {m : M α} {f : α → M Bool} {s s' : St} {a : α} (h : m s = .ok a s') :
    run (m >>= f) s = run (f a) s' := by
  simp only [run, bind_ok h]

/-! ### the exceptional challenges -/

/-- `x` is a root (modulo `q`) of the permutation polynomial `Π (m_{π(j)} - X) - Π (m_j - X)` -/
def SkcRoot (G : Group) (pi : List ℕ) (m : List ℤ) (x : ℤ) : Prop :=
  ∏ j ∈ Finset.range m.length, (toQ G (m.getD (pi.getD j 0) 0) - toQ G x) =
    ∏ j ∈ Finset.range m.length, (toQ G (m.getD j 0) - toQ G x)

/-- the index map `pi` does not permute the messages: `(m_{π(j)})_j` and `(m_j)_j` differ as
    multisets of residues modulo `q` (a duplicated and a dropped message) -/
def NotPermuted (G : Group) (pi : List ℕ) (m : List ℤ) : Prop :=
  ((pi.map fun j => toQ G (m.getD j 0) : List (Fq G)) : Multiset (Fq G)) ≠
    ((m.map (toQ G) : List (Fq G)) : Multiset (Fq G))

theorem prod_range_list {K : Type*} [CommMonoid K] (l : List K) (d : K) (f : K → K) :
    ∏ j ∈ Finset.range l.length, f (l.getD j d) = (l.map f).prod := by
  conv_rhs => rw [list_eq_map_range l d l.length rfl]
  rw [List.map_map, prod_map_range]
  rfl

theorem skcRoot_iff (pi : List ℕ) (m : List ℤ) (lpi : pi.length = m.length) (x : ℤ) :
    SkcRoot G pi m x ↔
      ((pi.map fun j => toQ G (m.getD j 0)).map fun c => c - toQ G x).prod =
        ((m.map (toQ G)).map fun c => c - toQ G x).prod := by
  unfold SkcRoot
  rw [← prod_range_list (pi.map fun j => toQ G (m.getD j 0)) 0 (fun c => c - toQ G x),
    ← prod_range_list (m.map (toQ G)) 0 (fun c => c - toQ G x)]
  simp only [List.length_map, lpi]
  have e1 : ∀ j ∈ Finset.range m.length, toQ G (m.getD (pi.getD j 0) 0) - toQ G x =
      (pi.map fun j => toQ G (m.getD j 0)).getD j 0 - toQ G x := by
    intro j hj
    rw [getD_map (fun j => toQ G (m.getD j 0)) pi j 0 0 (by have := Finset.mem_range.mp hj; omega)]
  have e2 : ∀ j ∈ Finset.range m.length, toQ G (m.getD j 0) - toQ G x =
      (m.map (toQ G)).getD j 0 - toQ G x := by
    intro j hj
    rw [getD_map (toQ G) m j 0 0 (by have := Finset.mem_range.mp hj; omega)]
  rw [Finset.prod_congr rfl e1, Finset.prod_congr rfl e2]

/-- **at most `n` exceptional challenges `x`**: among integers that are pairwise different modulo
    `q`, at most `n` are roots of the permutation polynomial of a non-permuting `pi` -/
theorem skcRoot_count (pi : List ℕ) (m : List ℤ) (lpi : pi.length = m.length)
    (hne : NotPermuted G pi m) (T : Finset ℤ)
    (hT : ∀ a ∈ T, ∀ b ∈ T, toQ G a = toQ G b → a = b) (acc : ℤ → Prop) [DecidablePred acc]
    (h : ∀ x ∈ T, acc x → SkcRoot G pi m x) : (T.filter acc).card ≤ m.length := by
  classical
  have hinj : Set.InjOn (toQ G) (T.filter acc : Set ℤ) := by
    intro a ha b hb hab
    simp only [Finset.coe_filter, Set.mem_ofPred_eq] at ha hb
    exact hT a ha.1 b hb.1 hab
  rw [← Finset.card_image_of_injOn hinj]
  have hsub : (T.filter acc).image (toQ G) ⊆ (T.image (toQ G)).filter fun y =>
      ((pi.map fun j => toQ G (m.getD j 0)).map fun c => c - y).prod =
        ((m.map (toQ G)).map fun c => c - y).prod := by
    intro y hy
    obtain ⟨x, hx, rfl⟩ := Finset.mem_image.mp hy
    rw [Finset.mem_filter] at hx
    rw [Finset.mem_filter]
    exact ⟨Finset.mem_image_of_mem _ hx.1, (skcRoot_iff pi m lpi x).mp (h x hx.1 hx.2)⟩
  refine (Finset.card_le_card hsub).trans ?_
  have := perm_poly_bound (pi.map fun j => toQ G (m.getD j 0)) (m.map (toQ G))
    (by simp [lpi]) hne (T.image (toQ G))
  simpa [lpi] using this

/-- a commitment `c` that differs from the one the prover's values open (the verifier tested
    `c ∈ C_ck`: last conjunct of `SkcExc`): the commitment equation holds only for `α ≡ 0 (mod q)` -/
theorem skcExc_alpha (hG : ValidGroup G) {P : GrothPub} (hP : PubOk G P) (pi : List ℕ) (m : List ℤ)
    (hcg : m.length ≤ P.cg.length) (rho c : ℤ) (fprime : List ℤ) (x e alpha : ℤ)
    (h : SkcExc G P pi m rho c fprime x e alpha)
    (hne : toF G c ≠ comVal G P m.length (fun i => m.getD (pi.getD i 0) 0 - fprime.getD i 0) rho) :
    toQ G alpha = 0 := by
  obtain ⟨he, -, hc, hsub⟩ := h
  set cs := comVal G P m.length (fun i => m.getD (pi.getD i 0) 0 - fprime.getD i 0) rho with hcs
  have hcs0 : cs ≠ 0 := comVal_ne_zero hG hP _ hcg _ _
  have hcsq : cs ^ G.q.natAbs = 1 := comVal_sub hG hP _ hcg _ _
  have hD : (toF G c / cs) ^ G.q.natAbs = 1 := by rw [div_pow, hsub, hcsq, div_one]
  have hD1 : toF G c / cs ≠ 1 := by
    intro h1; exact hne ((div_eq_one_iff_eq hcs0).mp h1)
  have hz : (toF G c / cs) ^ (e * alpha) = (toF G c / cs) ^ (0 : ℤ) := by
    rw [div_zpow, hc, div_self (zpow_ne_zero _ hcs0), zpow_zero]
  have := zpow_eq_imp_modEq G.q.natAbs hG.q_prime _ hD hD1 _ _ hz
  have h2 : toQ G (e * alpha) = 0 := by
    unfold toQ; rw [this]; simp
  rw [toQ_mul] at h2
  rcases mul_eq_zero.mp h2 with h3 | h3
  · exact absurd h3 he
  · exact h3

/-! ### interactive mode -/

/-- **shuffle of known content, interactive mode, honest algorithm with any witness**: the prover
    runs `skcProve` with an index map `pi` (of the right length, not necessarily a permutation),
    messages `m` and randomiser `rho`; the verifier holds `c`, `f'`, `m`, tests `c ∈ C_ck` and draws `x`, `e ≠ 0`
    (`ℓ_e`-bit values) and the batching coin `α`.  The prover finishes, and if the verifier accepts
    what it wrote, the exceptional event `SkcExc` occurred. -/
theorem skc_sound_interactive (hG : ValidGroup G) {P : GrothPub} (hP : PubOk G P) (pi : List ℕ)
    (m : List ℤ) (lpi : pi.length = m.length) (hn : 2 ≤ m.length) (hcg : m.length ≤ P.cg.length)
    (rho : ℤ) (x ev : ℤ) (hx : 0 ≤ x ∧ x < (2 : ℤ) ^ P.le) (hev : 0 ≤ ev ∧ ev < (2 : ℤ) ^ P.le)
    (hev1 : ev ≠ 0)
    (rd rDelta : ℤ) (d mid : List ℤ) (ra : ℤ) (rest : List ℤ)
    (hrd : 0 ≤ rd ∧ rd < G.q) (hrD : 0 ≤ rDelta ∧ rDelta < G.q) (hd : InQ G.q d)
    (hmid : InQ G.q mid) (hra : 0 ≤ ra ∧ ra < G.q) (ld : d.length = m.length)
    (lmid : mid.length = m.length - 2)
    (c alpha : ℤ) (fprime : List ℤ) (lfp : fprime.length = m.length) :
    ∃ sentP,
      run (done (skcProve .inter P pi rho m))
        ⟨[some x, some ev], rd :: rDelta :: (d ++ (mid ++ (ra :: rest))), [], false⟩ =
        .ok ⟨sentP, true, false⟩ ∧
      ∀ o : PcOutcome, o.result = true →
        run (done (skcVerify .inter P c fprime m)) ⟨sentP.map some, [x, ev, alpha], [], false⟩ = .ok o →
        SkcExc G P pi m rho c fprime x ev alpha := by
  obtain ⟨a, resp, la, hPr, hV⟩ := skc_sound_modes hG .inter hP pi m lpi hn hcg rho (srcInter x)
    (srcInter ev) (gsrcInter_ok P x hx false (by simp)) (gsrcInter_ok P ev hev true (fun _ => hev1))
    rd rDelta d mid ra rest hrd hrD hd hmid hra ld lmid c alpha fprime lfp [] [] false
  refine ⟨a ++ resp, ?_, ?_⟩
  · have : run (done (skcProve .inter P pi rho m))
        ⟨[some x, some ev], rd :: rDelta :: (d ++ (mid ++ (ra :: rest))), [], false⟩ =
        run (pure true) ⟨[], rest, [] ++ (srcInter x).pSent ++ a ++ (srcInter ev).pSent ++ resp, false⟩ := by
      exact run_bind_ok hPr
    rw [this]
    simp [run, pure_apply, srcInter]
  · intro o ho hrun
    have := hV [] [] [] (pure true) o ho (by
      simpa [srcInter, done] using hrun)
    exact this.1

/-! ### non-interactive mode -/

/-- **shuffle of known content, non-interactive mode**: the challenges are the hash values
    `x = H(ck, m, p, q, h)` and `e = H(ck, m, x, c_d, c_Δ, c_a)` cut to `2ℓ_e` bits; if the verifier
    accepts the proof written by the honest algorithm run with any witness, the oracle's answer `x`
    is exceptional (`SkcExc`). -/
theorem skc_sound_noninteractive (hG : ValidGroup G) (H : Hash) {P : GrothPub} (hP : PubOk G P)
    (pi : List ℕ)
    (m : List ℤ) (lpi : pi.length = m.length) (hn : 2 ≤ m.length) (hcg : m.length ≤ P.cg.length)
    (rho : ℤ)
    (rd rDelta : ℤ) (d mid : List ℤ) (ra : ℤ) (rest : List ℤ)
    (hrd : 0 ≤ rd ∧ rd < G.q) (hrD : 0 ≤ rDelta ∧ rDelta < G.q) (hd : InQ G.q d)
    (hmid : InQ G.q mid) (hra : 0 ≤ ra ∧ ra < G.q) (ld : d.length = m.length)
    (lmid : mid.length = m.length - 2)
    (c alpha : ℤ) (fprime : List ℤ) (lfp : fprime.length = m.length) :
    ∃ (a resp : List ℤ), a.length = 3 ∧
      run (done (skcProve (.ni H) P pi rho m))
        ⟨[], rd :: rDelta :: (d ++ (mid ++ (ra :: rest))), [], false⟩ = .ok ⟨a ++ resp, true, false⟩ ∧
      ∀ o : PcOutcome, o.result = true →
        run (done (skcVerify (.ni H) P c fprime m)) ⟨(a ++ resp).map some, [alpha], [], false⟩ = .ok o →
        SkcExc G P pi m rho c fprime
          (tdivR2exp (H (shashInput (P.cg ++ m ++ comPqh P))) P.lnizk)
          (tdivR2exp (H (shashInput (P.cg ++ m ++
            tdivR2exp (H (shashInput (P.cg ++ m ++ comPqh P))) P.lnizk :: a))) P.lnizk) alpha := by
  obtain ⟨a, resp, la, hPr, hV⟩ := skc_sound_modes hG (.ni H) hP pi m lpi hn hcg rho (gsrcNi H P)
    (gsrcNi H P) (gsrcNi_ok H P false) (gsrcNi_ok H P true)
    rd rDelta d mid ra rest hrd hrD hd hmid hra ld lmid c alpha fprime lfp [] [] false
  refine ⟨a, resp, la, ?_, ?_⟩
  · have : run (done (skcProve (.ni H) P pi rho m))
        ⟨[], rd :: rDelta :: (d ++ (mid ++ (ra :: rest))), [], false⟩ =
        run (pure true) ⟨[], rest, [] ++ (gsrcNi H P).pSent ++ a ++ (gsrcNi H P).pSent ++ resp, false⟩ := by
      exact run_bind_ok hPr
    rw [this]
    simp [run, pure_apply, gsrcNi]
  · intro o ho hrun
    have := hV [] [] [] (pure true) o ho (by
      simpa [gsrcNi, done] using hrun)
    exact this.1

end Tmcg.Args
