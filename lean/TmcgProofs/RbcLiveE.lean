import TmcgProofs.RbcLiveD
/-
  C14 liveness, part E: per-party invariants on the stored payloads (`mbar`).
-/
namespace Tmcg.Rbc
variable {H : Int → Int} {T : Tag → Int} {c : Cfg}

theorem dob_outcome (p : Party) (msg : Msg) :
    (aGet p.mbar msg.tag = none ∧ (deliverOrBuffer p msg []).out = .threw) ∨
    (∃ m, aGet p.mbar msg.tag = some m ∧
      (deliverOrBuffer p msg []).out = .delivered msg.sender.toNat m) ∨
    ((deliverOrBuffer p msg []).out = .idle ∧ msg ∈ (deliverOrBuffer p msg []).party.deliverBuf) := by
  rcases dob_cases p msg with ⟨_, _, hm, heq⟩ | ⟨m, _, _, hm, heq⟩ | ⟨_, heq⟩
  · exact Or.inl ⟨hm, by rw [heq]⟩
  · exact Or.inr (Or.inl ⟨m, hm, by rw [heq]⟩)
  · refine Or.inr (Or.inr ⟨by rw [heq], ?_⟩)
    rw [heq]; exact List.mem_append_right _ (List.mem_singleton.2 rfl)

/-- an echo quorum for a tag of an honest sender carries the hash of a broadcast value -/
theorem EQ_bc (hy : Hyp H c) {s : Sys} (hI : Inv H c s) {τ : Tag} {v : Int}
    (h : EQ c s.log τ (H v)) {k : Nat} (hk : c.honest k) (hs : τ.sender = (k : Int)) :
    (k, τ, v) ∈ s.bc := by
  obtain ⟨e, dst, m, _, hm, ha, ht, hp⟩ := EQ.honest hy h
  obtain ⟨v', hv', hlog⟩ := hI.echoH e dst m hm ha
  have hsender : m.sender = (k : Int) := by rw [← hs, ← ht]; rfl
  have hto : m.sender.toNat = k := by rw [hsender]; simp
  rw [hto] at hlog
  obtain ⟨hbc, _⟩ := hI.rsend k e _ (hlog hk.2) rfl
  have hvv : v = v' := hy.inj (by rw [← hv', hp])
  have htag : (⟨m.id, m.sender, m.seq, rSend, v'⟩ : Msg).tag = τ := by rw [← ht]; rfl
  rw [htag] at hbc
  rw [hvv]; exact hbc

/-- a payload stored for a slot of an honest sender on the channel was broadcast by that sender -/
def MbarOk (c : Cfg) (s : Sys) : Prop :=
  ∀ i, c.honest i → ∀ τ mb, aGet (s.st i).mbar τ = some mb → τ.id = c.ID →
    ∀ k, c.honest k → τ.sender = (k : Int) → (k, τ, mb) ∈ s.bc

theorem mbarOk_step (hy : Hyp H c) {s s' : Sys} (hI : Inv H c s) (hI' : Inv H c s')
    (hm : Micro H T c s s') (ih : MbarOk c s) : MbarOk c s' := by
  have hfr := hm.frame
  intro j hj τ mb hmb hid k hk hs
  -- the case in which the stored payloads of `j` are unchanged
  have same : (s'.st j).mbar = (s.st j).mbar → (k, τ, mb) ∈ s'.bc := by
    intro h; rw [h] at hmb
    exact hfr.2.2 _ (ih j hj τ mb hmb hid k hk hs)
  have updSame : ∀ (i : Nat) (q' : Party), q'.mbar = (s.st i).mbar →
      (upd s.st i q' j).mbar = (s.st j).mbar := by
    intro i q' h
    by_cases hji : j = i
    · subst hji; rw [upd_same]; exact h
    · rw [upd_ne _ _ _ _ hji]
  cases hm with
  | hk i hi R s0 hff hR hs0 => exact same (updSame i _ rfl)
  | bufDel i hi e rest m hff hm' => exact same (updSame i _ rfl)
  | bcast i hi v rnd => exact same (updSame i _ rfl)
  | disp i hi l msg hl hin q' sd o hD =>
    by_cases hji : j = i
    swap
    · exact same (by show (upd s.st i q' j).mbar = _; rw [upd_ne _ _ _ _ hji])
    subst hji
    have hmb' : aGet q'.mbar τ = some mb := by
      have : (upd s.st j q' j) = q' := upd_same _ _ _
      rw [← this]; exact hmb
    rcases hD.mbar_change with h | ⟨x, hx, hwhy⟩
    · exact same (by show (upd s.st j q' j).mbar = _; rw [upd_same]; exact h)
    · by_cases hτ : τ = msg.tag
      swap
      · rw [hx, aGet_aSet_ne _ _ _ _ hτ] at hmb'
        exact hfr.2.2 _ (ih j hj τ mb hmb' hid k hk hs)
      subst hτ
      rw [hx, aGet_aSet_self] at hmb'
      cases hmb'
      rcases hwhy with ⟨ha, hl', rfl, _⟩ | ⟨ha, rfl, hdb⟩ | ⟨ha, i0, hq', ho, hmset⟩
      · -- r-send from the honest sender itself
        have hlk : l = k := by
          have : (l : Int) = (k : Int) := by rw [← hl']; exact hs
          exact_mod_cast this
        subst hlk
        rcases hin with hb | hlog
        · exact absurd hb hk.2
        · exact (hI.rsend l j msg hlog ha).1
      · -- r-answer matching the agreed digest
        have hEQ := (hI.parties j hj).dbarEQ msg.tag _ hdb
        exact EQ_bc hy hI hEQ hk hs
      · -- decided l-deliver: the slot is delivered or buffered afterwards
        have hP' := hI'.parties j hj
        have hst : (upd s.st j q' j) = q' := upd_same _ _ _
        have hgoodpre : (∃ e ∈ q'.deliverBuf, e.tag = msg.tag) ∨
            (∃ v, (j, msg.tag, v) ∈ dlAfter s.dl j msg.tag o) := by
          rcases dob_outcome (ldelDec (s.st j) l msg i0) msg with ⟨hn, _⟩ | ⟨m, _, hout⟩ | ⟨_, hin'⟩
          · rw [hmset, aGet_aSet_self] at hn; cases hn
          · right
            rw [ho, hout]
            exact ⟨m, List.mem_append_right _ (List.mem_singleton.2 rfl)⟩
          · left
            rw [hq']; exact ⟨msg, hin', rfl⟩
        obtain ⟨v, hv, hEQ⟩ := hP'.good msg.tag hid (by
          show (∃ e ∈ (upd s.st j q' j).deliverBuf, e.tag = msg.tag) ∨ _
          rw [hst]; exact hgoodpre)
        have hv' : aGet q'.mbar msg.tag = some v := by rw [← hst]; exact hv
        rw [hx, aGet_aSet_self] at hv'
        cases hv'
        exact EQ_bc hy hI' hEQ hk hs

/-- a stored payload of the channel persists; it is only ever replaced by a payload whose hash
    has an echo quorum -/
theorem mbar_keeps {s s' : Sys} (hI : Inv H c s) (hI' : Inv H c s')
    (hm : Micro H T c s s') {j : Nat} (hj : c.honest j) {τ : Tag} {v : Int} (hid : τ.id = c.ID)
    (h : aGet (s.st j).mbar τ = some v) :
    ∃ v', aGet (s'.st j).mbar τ = some v' ∧ (v' = v ∨ EQ c s'.log τ (H v')) := by
  have same : (s'.st j).mbar = (s.st j).mbar →
      ∃ v', aGet (s'.st j).mbar τ = some v' ∧ (v' = v ∨ EQ c s'.log τ (H v')) := by
    intro h'; rw [h']; exact ⟨v, h, Or.inl rfl⟩
  have updSame : ∀ (i : Nat) (q' : Party), q'.mbar = (s.st i).mbar →
      (upd s.st i q' j).mbar = (s.st j).mbar := by
    intro i q' h
    by_cases hji : j = i
    · subst hji; rw [upd_same]; exact h
    · rw [upd_ne _ _ _ _ hji]
  cases hm with
  | hk i hi R s0 hff hR hs0 => exact same (updSame i _ rfl)
  | bufDel i hi e rest m hff hm' => exact same (updSame i _ rfl)
  | bcast i hi v rnd => exact same (updSame i _ rfl)
  | disp i hi l msg hl hin q' sd o hD =>
    by_cases hji : j = i
    swap
    · exact same (by show (upd s.st i q' j).mbar = _; rw [upd_ne _ _ _ _ hji])
    subst hji
    have hst : (upd s.st j q' j) = q' := upd_same _ _ _
    rcases hD.mbar_change with h' | ⟨x, hx, hwhy⟩
    · exact same (by show (upd s.st j q' j).mbar = _; rw [hst]; exact h')
    · show ∃ v', aGet (upd s.st j q' j).mbar τ = some v' ∧ _
      rw [hst]
      by_cases hτ : τ = msg.tag
      swap
      · rw [hx, aGet_aSet_ne _ _ _ _ hτ]; exact ⟨v, h, Or.inl rfl⟩
      subst hτ
      rw [hx, aGet_aSet_self]
      refine ⟨x, rfl, ?_⟩
      rcases hwhy with ⟨_, _, _, hnone⟩ | ⟨ha, rfl, hdb⟩ | ⟨ha, i0, hq', ho, hmset⟩
      · rw [hnone] at h; cases h
      · right
        exact ((hI.parties j hj).dbarEQ msg.tag _ hdb).mono (fun y hy => List.mem_append_left _ hy)
      · right
        have hP' := hI'.parties j hj
        have hgoodpre : (∃ e ∈ q'.deliverBuf, e.tag = msg.tag) ∨
            (∃ v, (j, msg.tag, v) ∈ dlAfter s.dl j msg.tag o) := by
          rcases dob_outcome (ldelDec (s.st j) l msg i0) msg with ⟨hn, _⟩ | ⟨m, _, hout⟩ | ⟨_, hin'⟩
          · rw [hmset, aGet_aSet_self] at hn; cases hn
          · right
            rw [ho, hout]
            exact ⟨m, List.mem_append_right _ (List.mem_singleton.2 rfl)⟩
          · left
            rw [hq']; exact ⟨msg, hin', rfl⟩
        obtain ⟨v2, hv2, hEQ⟩ := hP'.good msg.tag hid (by
          show (∃ e ∈ (upd s.st j q' j).deliverBuf, e.tag = msg.tag) ∨ _
          rw [hst]; exact hgoodpre)
        have hv' : aGet q'.mbar msg.tag = some v2 := by rw [← hst]; exact hv2
        rw [hx, aGet_aSet_self] at hv'
        cases hv'
        exact hEQ

/-- an honest party that echoed a digest for a slot of the channel holds a payload for the slot:
    one with that digest, or one whose digest has an echo quorum -/
def EchoHold (H : Int → Int) (c : Cfg) (s : Sys) : Prop :=
  ∀ j, c.honest j → ∀ dst m, (j, dst, m) ∈ s.log → m.action = rEcho → m.id = c.ID →
    ∃ v, aGet (s.st j).mbar m.tag = some v ∧ (H v = m.payload ∨ EQ c s.log m.tag (H v))

theorem echoHold_step {s s' : Sys} (hI : Inv H c s) (hI' : Inv H c s')
    (hm : Micro H T c s s') (ih : EchoHold H c s) : EchoHold H c s' := by
  have hfr := hm.frame
  intro j hj dst m hlog ha hid
  have old : (j, dst, m) ∈ s.log →
      ∃ v, aGet (s'.st j).mbar m.tag = some v ∧ (H v = m.payload ∨ EQ c s'.log m.tag (H v)) := by
    intro h
    obtain ⟨v, hv, hor⟩ := ih j hj dst m h ha hid
    obtain ⟨v', hv', hor'⟩ := mbar_keeps hI hI' hm hj (τ := m.tag) hid hv
    refine ⟨v', hv', ?_⟩
    rcases hor' with rfl | h'
    · rcases hor with h1 | h1
      · exact Or.inl h1
      · exact Or.inr (h1.mono hfr.1)
    · exact Or.inr h'
  cases hm with
  | hk i hi R s0 hff hR hs0 =>
    rcases List.mem_append.1 hlog with h | h
    · exact old h
    · obtain ⟨_, h2⟩ := mem_tagMsgs.1 h
      have := hs0 _ h2
      rw [ha] at this; exact absurd this (by decide)
  | bufDel i hi e rest m' hff hm' => exact old hlog
  | bcast i hi v rnd =>
    rcases List.mem_append.1 hlog with h | h
    · exact old h
    · obtain ⟨_, h2⟩ := mem_tagMsgs.1 h
      rw [broadcast_snd] at h2
      have := (mem_sendAll_iff.1 h2).2
      simp only at this
      rw [this] at ha
      exact absurd ha (by simp only [bcMsg]; decide)
  | disp i hi l msg hl hin q' sd o hD =>
    rcases List.mem_append.1 hlog with h | h
    · exact old h
    · obtain ⟨rfl, h2⟩ := mem_tagMsgs.1 h
      have hst : (upd s.st j q' j) = q' := upd_same _ _ _
      show ∃ v, aGet (upd s.st j q' j).mbar m.tag = some v ∧ _
      rw [hst]
      rcases hD.send_change with ⟨_, hno⟩ | ⟨_, _, _, _, ⟨hnil, _⟩ | ⟨hsd, _, hmb⟩⟩
      · exact absurd ha (hno _ h2)
      · rw [hnil] at h2; cases h2
      · rw [hsd] at h2
        have hm2 := (mem_sendAll_iff.1 h2).2
        simp only at hm2
        subst hm2
        exact ⟨msg.payload, hmb, Or.inl rfl⟩

/-- the sender `k` broadcast one value under the tag `τ` -/
def UniqTag (bc : List (Nat × Tag × Int)) (k : Nat) (τ : Tag) : Prop :=
  ∀ v v', (k, τ, v) ∈ bc → (k, τ, v') ∈ bc → v = v'

def echoMsg (τ : Tag) (d : Int) : Msg := ⟨τ.id, τ.sender, τ.seq, rEcho, d⟩
def readyMsg (τ : Tag) (d : Int) : Msg := ⟨τ.id, τ.sender, τ.seq, rReady, d⟩

/-- `j` has sent `m` to everybody -/
def SentAll (c : Cfg) (s : Sys) (j : Nat) (m : Msg) : Prop := ∀ d < c.n, (j, d, m) ∈ s.log

/-- if the sender never reuses a tag: an honest party that consumed the r-send of an honest
    sender has echoed the hash of the value broadcast under that tag -/
def SendEcho (H : Int → Int) (c : Cfg) (s : Sys) : Prop :=
  ∀ i, c.honest i → ∀ k, c.honest k → ∀ τ, UniqTag s.bc k τ → fHas (s.st i).send k τ = true →
    τ.sender = (k : Int) → ∃ v, (k, τ, v) ∈ s.bc ∧ SentAll c s i (echoMsg τ (H v))

theorem sendEcho_step {s s' : Sys} (hI : Inv H c s)
    (hm : Micro H T c s s') (hM : MbarOk c s) (hB : BcLog c s) (ih : SendEcho H c s) :
    SendEcho H c s' := by
  have hfr := hm.frame
  intro i hi k hk τ hu' hfl hs
  have hu : UniqTag s.bc k τ := fun v v' h h' => hu' v v' (hfr.2.2 _ h) (hfr.2.2 _ h')
  have old : fHas (s.st i).send k τ = true →
      ∃ v, (k, τ, v) ∈ s'.bc ∧ SentAll c s' i (echoMsg τ (H v)) := by
    intro h
    obtain ⟨v, h1, h2⟩ := ih i hi k hk τ hu h hs
    exact ⟨v, hfr.2.2 _ h1, fun d hd => hfr.1 _ (h2 d hd)⟩
  have old' : (s'.st i).send = (s.st i).send →
      ∃ v, (k, τ, v) ∈ s'.bc ∧ SentAll c s' i (echoMsg τ (H v)) := by
    intro h; exact old (by rw [← h]; exact hfl)
  have updSame : ∀ (i0 : Nat) (q' : Party), q'.send = (s.st i0).send →
      (upd s.st i0 q' i).send = (s.st i).send := by
    intro i0 q' h
    by_cases hji : i = i0
    · subst hji; rw [upd_same]; exact h
    · rw [upd_ne _ _ _ _ hji]
  cases hm with
  | hk i0 hi0 R s0 hff hR hs0 => exact old' (updSame i0 _ rfl)
  | bufDel i0 hi0 e rest m' hff hm' => exact old' (updSame i0 _ rfl)
  | bcast i0 hi0 v rnd => exact old' (updSame i0 _ rfl)
  | disp i0 hi0 l msg hl hin q' sd o hD =>
    by_cases hji : i = i0
    swap
    · exact old (by
        have : (upd s.st i0 q' i) = s.st i := upd_ne _ _ _ _ hji
        rw [← this]; exact hfl)
    subst hji
    have hst : (upd s.st i q' i) = q' := upd_same _ _ _
    have hfl' : fHas q'.send k τ = true := by rw [← hst]; exact hfl
    rcases hD.send_change with ⟨hsame, _⟩ | ⟨hsend, ha, wf, hnew, hwhat⟩
    · exact old (by rw [← hsame]; exact hfl')
    · rw [hsend] at hfl'
      rcases (fHas_fIns _ _ _ _ _).1 hfl' with ⟨rfl, rfl⟩ | h
      swap
      · exact old h
      rcases hin with hb | hlog
      · exact absurd hb hk.2
      obtain ⟨hbc, hsender⟩ := hI.rsend k i msg hlog ha
      rcases hwhat with ⟨_, hbad⟩ | ⟨hsd, _, _⟩
      · exfalso
        rcases hbad with hne | ⟨mb, hmb, hne⟩
        · exact hne hsender
        · have hid := (hB k _ _ hbc).2.1
          have := hM i hi msg.tag mb hmb hid k hk hs
          exact hne (hu _ _ this hbc)
      · refine ⟨msg.payload, hfr.2.2 _ hbc, fun d hd => ?_⟩
        refine List.mem_append_right _ (mem_tagMsgs.2 ⟨rfl, ?_⟩)
        rw [hsd]
        exact mem_sendAll_iff.2 ⟨by rw [(hI.parties i hi).cn]; exact hd, rfl⟩

end Tmcg.Rbc
