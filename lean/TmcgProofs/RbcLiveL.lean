import TmcgProofs.RbcLiveK
/-
  C14 liveness, part L: all the auxiliary invariants hold in every reachable state.
-/
namespace Tmcg.Rbc
variable {H : Int → Int} {T : Tag → Int} {c : Cfg}

structure LInv (H : Int → Int) (T : Tag → Int) (c : Cfg) (s : Sys) : Prop where
  allTo : AllTo c s
  bcLog : BcLog c s
  fifoBc : FifoBc c s
  mbarOk : MbarOk c s
  echoHold : EchoHold H c s
  sendEcho : SendEcho H c s
  flEcho : FlagLogFor c (·.echo) rEcho s
  flReady : FlagLogFor c (·.ready) rReady s
  flReq : FlagLogFor c (·.request) rRequest s
  flAns : FlagLogFor c (·.answer) rAnswer s
  cntE : CntFor c T (·.echo) rEcho (·.eD) s
  cntR : CntFor c T (·.ready) rReady (·.rD) s
  readySent : ReadySent c s
  dbarLen : DbarLen T c s
  cntDbar : CntDbar c s
  dbarProg : DbarProg c s
  dSPos : DSPos c s
  reqDbar : ReqDbar c s
  ansReq : AnsReq c s
  reqAns : ReqAns H c s
  tot : TotInv c s

theorem cnt_nil (k : Tag × Int) : cnt [] k = 0 := rfl

theorem linv_init (hy : Hyp H c) : LInv H T c (Sys.init c) where
  allTo := by intro j dst m h; cases h
  bcLog := by intro k τ v h; cases h
  fifoBc := fifoBc_init c
  mbarOk := by intro i _ τ mb h; cases h
  echoHold := by intro j _ dst m h; cases h
  sendEcho := by intro i _ k _ τ _ h; cases h
  flEcho := by intro j _ l _ τ h; cases h
  flReady := by intro j _ l _ τ h; cases h
  flReq := by intro j _ l _ τ h; cases h
  flAns := by intro j _ l _ τ h; cases h
  cntE := by
    intro j _ τ d _ S hS
    have : S = ∅ := Finset.eq_empty_of_forall_notMem (fun l hl => by
      have := (hS l hl).2.2; cases this)
    rw [this]; simp
  cntR := by
    intro j _ τ d _ S hS
    have : S = ∅ := Finset.eq_empty_of_forall_notMem (fun l hl => by
      have := (hS l hl).2.2; cases this)
    rw [this]; simp
  readySent := by
    intro j _ τ d h
    have hn := hy.hn
    have e1 : cnt (Sys.init c |>.st j).eD (τ, d) = 0 := rfl
    have e2 : cnt (Sys.init c |>.st j).rD (τ, d) = 0 := rfl
    rw [e1, e2] at h
    omega
  dbarLen := by intro j _ τ d h; cases h
  cntDbar := by
    intro j _ τ d h
    have e2 : cnt (Sys.init c |>.st j).rD (τ, d) = 0 := rfl
    rw [e2] at h; omega
  dbarProg := by intro j _ τ d h; cases h
  dSPos := dSPos_init c
  reqDbar := by intro i _ dst m h; cases h
  ansReq := by intro j _ i m h; cases h
  reqAns := by intro i _ τ h; cases h
  tot := totInv_init c

theorem linv_step (hy : Hyp H c) {s s' : Sys} (hI : Inv H c s) (hI' : Inv H c s')
    (hm : Micro H T c s s') (ih : LInv H T c s) : LInv H T c s' where
  allTo := allTo_step hI hm ih.allTo
  bcLog := bcLog_step hI hm ih.bcLog
  fifoBc := fifoBc_step hI hm ih.fifoBc
  mbarOk := mbarOk_step hy hI hI' hm ih.mbarOk
  echoHold := echoHold_step hI hI' hm ih.echoHold
  sendEcho := sendEcho_step hI hm ih.mbarOk ih.bcLog ih.sendEcho
  flEcho := flagLogFor_step filterFor_echo hm ih.flEcho
  flReady := flagLogFor_step filterFor_ready hm ih.flReady
  flReq := flagLogFor_step filterFor_request hm ih.flReq
  flAns := flagLogFor_step filterFor_answer hm ih.flAns
  cntE := cntFor_step countFor_echo hm ih.flEcho (uniqPay_echo hI') ih.cntE
  cntR := cntFor_step countFor_ready hm ih.flReady (uniqPay_ready hy hI') ih.cntR
  readySent := readySent_step hI hm ih.readySent
  dbarLen := dbarLen_step hm ih.dbarLen
  cntDbar := cntDbar_step hy hI hI' hm ih.cntDbar
  dbarProg := dbarProg_step hy hI hI' hm ih.dbarProg
  dSPos := dSPos_step hI hm ih.dSPos
  reqDbar := reqDbar_step hm ih.reqDbar
  ansReq := ansReq_step hm ih.ansReq
  reqAns := reqAns_step hy hI hI' hm ih.echoHold ih.flReq ih.flAns ih.reqDbar ih.ansReq ih.reqAns
  tot := totInv_step hy hI hI' hm ih.tot

theorem reach_linv (hy : Hyp H c) {s : Sys} (hr : Reach H T c s) : LInv H T c s :=
  live_induction hy (LInv H T c) (linv_init hy) (fun _ _ hI hI' hm ih => linv_step hy hI hI' hm ih) hr

end Tmcg.Rbc
