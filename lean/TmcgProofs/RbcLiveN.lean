import TmcgProofs.RbcLiveM
/-
  C14 liveness, part N: the argument on the final state of a run in which every message between
  honest parties was consumed and no honest party has a deliverable buffered message.
-/
namespace Tmcg.Rbc
variable {H : Int → Int} {T : Tag → Int} {c : Cfg}

/-- every message an honest party sent to an honest party was consumed by its destination -/
def AllConsumed (H : Int → Int) (T : Tag → Int) (c : Cfg) (evs : List Event) (s : Sys) : Prop :=
  ∀ src dst msg, (src, dst, msg) ∈ s.log → c.honest src → c.honest dst →
    (src, dst, msg) ∈ consumed H T c evs

structure Final (H : Int → Int) (T : Tag → Int) (c : Cfg) (evs : List Event) (s : Sys) : Prop where
  hy : Hyp H c
  hrun : run H T c evs = some s
  hall : AllConsumed H T c evs s
  quiet : ∀ j, c.honest j → findFirst (deliverable (s.st j)) (s.st j).deliverBuf = none

variable {evs : List Event} {s : Sys}

theorem Final.reach (F : Final H T c evs s) : Reach H T c s := run_reach _ _ _ _ _ F.hrun
theorem Final.inv (F : Final H T c evs s) : Inv H c s := reach_inv F.hy F.reach
theorem Final.linv (F : Final H T c evs s) : LInv H T c s := reach_linv F.hy F.reach

/-- a logged well-formed message between honest parties has set its filter entry -/
theorem Final.flag (F : Final H T c evs s) {src dst : Nat} {msg : Msg}
    (h : (src, dst, msg) ∈ s.log) (hs : c.honest src) (hd : c.honest dst) (hwf : WFc c msg) :
    Flagged (s.st dst) src msg :=
  consumed_flagged F.hy F.hrun (F.hall src dst msg h hs hd) hd hwf

/-- well-formed tag of the channel -/
def WFt (c : Cfg) (τ : Tag) : Prop := 0 ≤ τ.sender ∧ τ.sender ≤ (c.n : Int) - 1 ∧ 1 ≤ τ.seq

/-- the honest parties -/
noncomputable def honestSet (c : Cfg) : Finset Nat := Finset.range c.n \ c.byz

theorem mem_honestSet {c : Cfg} {l : Nat} : l ∈ honestSet c ↔ c.honest l := by
  unfold honestSet Cfg.honest
  rw [Finset.mem_sdiff, Finset.mem_range]

theorem honestSet_card (hy : Hyp H c) : c.n - c.t ≤ (honestSet c).card := by
  unfold honestSet
  have := Finset.le_card_sdiff c.byz (Finset.range c.n)
  rw [Finset.card_range] at this
  have := hy.hb
  omega

/-- counting consumed r-ready messages -/
theorem Final.ready_count (F : Final H T c evs s) {τ : Tag} {d : Int} (hτ : WFt c τ)
    (hlen : LenOk T τ d) (S : Finset Nat)
    (hS : ∀ l ∈ S, c.honest l ∧ SentAll c s l (readyMsg τ d)) {j : Nat} (hj : c.honest j) :
    S.card ≤ cnt (s.st j).rD (τ, d) := by
  refine F.linv.cntR j hj τ d hlen S (fun l hl => ?_)
  obtain ⟨h1, h2⟩ := hS l hl
  have hlog := h2 j hj.1
  exact ⟨h1, (F.flag hlog h1 hj hτ).2.2.1 rfl, hlog⟩

theorem Final.echo_count (F : Final H T c evs s) {τ : Tag} {d : Int} (hτ : WFt c τ)
    (hlen : LenOk T τ d) (S : Finset Nat)
    (hS : ∀ l ∈ S, c.honest l ∧ SentAll c s l (echoMsg τ d)) {j : Nat} (hj : c.honest j) :
    S.card ≤ cnt (s.st j).eD (τ, d) := by
  refine F.linv.cntE j hj τ d hlen S (fun l hl => ?_)
  obtain ⟨h1, h2⟩ := hS l hl
  have hlog := h2 j hj.1
  exact ⟨h1, (F.flag hlog h1 hj hτ).2.1 rfl, hlog⟩

/-- if every honest party has an echo quorum or `t+1` readies, every honest party gets `2t+1`
    readies -/
theorem Final.spread (F : Final H T c evs s) {τ : Tag} {d : Int} (hτ : WFt c τ)
    (hlen : LenOk T τ d)
    (hall : ∀ j, c.honest j →
      c.n - c.t ≤ cnt (s.st j).eD (τ, d) ∨ c.t + 1 ≤ cnt (s.st j).rD (τ, d))
    {i : Nat} (hi : c.honest i) : 2 * c.t + 1 ≤ cnt (s.st i).rD (τ, d) := by
  have hn := F.hy.hn
  by_cases ht : c.t = 0
  · rcases F.linv.readySent i hi τ d (hall i hi) with h | ⟨_, h⟩
    · have := F.ready_count hτ hlen {i} (fun l hl => by
        rw [Finset.mem_singleton] at hl; subst hl; exact ⟨hi, h⟩) hi
      rw [Finset.card_singleton] at this
      omega
    · omega
  · have hS : ∀ l ∈ honestSet c, c.honest l ∧ SentAll c s l (readyMsg τ d) := by
      intro l hl
      have hl' := mem_honestSet.1 hl
      rcases F.linv.readySent l hl' τ d (hall l hl') with h | ⟨h, _⟩
      · exact ⟨hl', h⟩
      · exact absurd h ht
    have := F.ready_count hτ hlen (honestSet c) hS hi
    have := honestSet_card F.hy
    omega

theorem findFirst_none {α} (q : α → Bool) : ∀ (l : List α), findFirst q l = none →
    ∀ x ∈ l, q x = false := by
  intro l
  induction l with
  | nil => intro _ x hx; cases hx
  | cons y ys ih =>
    intro h x hx
    unfold findFirst at h
    by_cases hq : q y = true
    · rw [if_pos hq] at h; cases h
    · rw [if_neg hq] at h
      cases hr : findFirst q ys with
      | some zr => rw [hr] at h; cases h
      | none =>
        rcases List.mem_cons.1 hx with rfl | hx
        · simpa using hq
        · exact ih hr x hx

/-- in the final state no tag of the channel is awaited: the r-request reached an honest holder
    of the payload, and its r-answer came back -/
theorem Final.not_awaited (F : Final H T c evs s) {j : Nat} (hj : c.honest j) {τ : Tag}
    (hid : τ.id = c.ID) : τ ∉ (s.st j).awaited := by
  intro haw
  obtain ⟨j', d, w⟩ := F.linv.reqAns j hj τ haw hid
  have h1 := (F.flag w.req hj w.jh w.wf).2.2.2.1 rfl
  obtain ⟨v, _, hv⟩ := w.ans h1
  have h2 := (F.flag hv w.jh hj w.wf).2.2.2.2 rfl
  have h3 : fHas (s.st j).answer j' τ = true := h2
  rw [w.noAns] at h3; cases h3

/-- with `2t+1` counted readies the slot is delivered, or (FIFO mode) buffered behind a gap -/
theorem Final.tail (F : Final H T c evs s) {j : Nat} (hj : c.honest j) {τ : Tag} {d : Int}
    (hid : τ.id = c.ID) (hcnt : 2 * c.t + 1 ≤ cnt (s.st j).rD (τ, d)) :
    (∃ v, (j, τ, v) ∈ s.dl) ∨
    (c.fifo = true ∧ (s.st j).dS τ.sender.toNat < τ.seq) := by
  have hP := F.inv.parties j hj
  have hdb := F.linv.cntDbar j hj τ d hcnt
  rcases F.linv.dbarProg j hj τ d hdb with h | h | ⟨e, he, het⟩
  · exact absurd h (F.not_awaited hj hid)
  · exact Or.inl h
  · have hnd := findFirst_none _ _ (F.quiet j hj) e he
    unfold deliverable at hnd
    have heid : e.id = (s.st j).ID := by
      have : e.tag.id = τ.id := by rw [het]
      exact this.trans (hid.trans hP.cID.symm)
    simp only [heid, decide_true, Bool.true_and, Bool.or_eq_false_iff, Bool.not_eq_false',
      decide_eq_false_iff_not] at hnd
    obtain ⟨hff, hne⟩ := hnd
    have hfifo : c.fifo = true := hP.cfifo.symm.trans hff
    have hs : e.sender = τ.sender := by rw [← het]; rfl
    have hq : e.seq = τ.seq := by rw [← het]; rfl
    rw [hs, hq] at hne
    by_cases hlt : τ.seq < (s.st j).dS τ.sender.toNat
    · left
      obtain ⟨w0, w1, w2⟩ := hP.bufWF e he
      rw [hP.cn] at w1
      rw [hs] at w0 w1
      rw [hq] at w2
      exact hP.fifoDel hfifo τ hid w0 w1 w2 hlt
    · right
      exact ⟨hfifo, by omega⟩

/-- the value delivered for a tag whose digest an honest party has fixed -/
theorem Final.value (F : Final H T c evs s) {j i : Nat} (hi : c.honest i) {τ : Tag} {v v' : Int}
    (hdl : (j, τ, v') ∈ s.dl) (hdb : aGet (s.st i).dbar τ = some (H v)) : v' = v := by
  have e1 := F.inv.dlEQ j τ v' hdl
  have e2 := (F.inv.parties i hi).dbarEQ τ _ hdb
  exact F.hy.inj (EQ.unique F.hy F.inv e1 e2)

/-- a broadcast of an honest sender (tag used once, positive sequence number, digest passes the
    length check) collects `2t+1` readies at every honest party -/
theorem Final.valid_core (F : Final H T c evs s) {k : Nat} (hk : c.honest k) {τ : Tag} {v : Int}
    (hb : (k, τ, v) ∈ s.bc) (hseq : 1 ≤ τ.seq) (hu : UniqTag s.bc k τ)
    (hlen : LenOk T τ (H v)) {i : Nat} (hi : c.honest i) :
    2 * c.t + 1 ≤ cnt (s.st i).rD (τ, H v) ∧ τ.id = c.ID := by
  obtain ⟨_, hid, hsender, hsent⟩ := F.linv.bcLog k τ v hb
  have hτ : WFt c τ := by
    refine ⟨by rw [hsender]; omega, ?_, hseq⟩
    rw [hsender]
    have := hk.1
    omega
  -- every honest party echoes
  have hecho : ∀ j, c.honest j → SentAll c s j (echoMsg τ (H v)) := by
    intro j hj
    have hfl := (F.flag (hsent j hj.1) hk hj hτ).1 rfl
    obtain ⟨v', hv', hs'⟩ := F.linv.sendEcho j hj k hk τ hu hfl hsender
    rw [hu v v' hb hv']; exact hs'
  refine ⟨F.spread hτ hlen (fun j hj => Or.inl ?_) hi, hid⟩
  have := F.echo_count hτ hlen (honestSet c) (fun l hl =>
    ⟨mem_honestSet.1 hl, hecho l (mem_honestSet.1 hl)⟩) hj
  have := honestSet_card F.hy
  omega

/-- a delivered slot collects `2t+1` readies at every honest party -/
theorem Final.tot_core (F : Final H T c evs s) {i : Nat} {τ : Tag} {v : Int}
    (hd : (i, τ, v) ∈ s.dl) {j : Nat} (hj : c.honest j) :
    2 * c.t + 1 ≤ cnt (s.st j).rD (τ, H v) := by
  obtain ⟨_, hid, w0, w1, w2⟩ := F.inv.dlWF i τ v hd
  have hτ : WFt c τ := ⟨w0, w1, w2⟩
  obtain ⟨i', d, hi', hdb⟩ := F.linv.tot.dl i τ v hd
  have hP' := F.inv.parties i' hi'
  have hdv : d = H v :=
    (EQ.unique F.hy F.inv (F.inv.dlEQ i τ v hd) (hP'.dbarEQ τ d hdb)).symm
  subst hdv
  have hlen := F.linv.dbarLen i' hi' τ _ hdb
  have hc := hP'.dbarCnt τ _ hdb
  obtain ⟨S, hS1, hS2⟩ := hP'.rQ τ (H v)
  -- the honest members of the witness set have sent their r-ready to everybody
  have hSh : ∀ l ∈ S \ c.byz, c.honest l ∧ SentAll c s l (readyMsg τ (H v)) := by
    intro l hl
    obtain ⟨hlS, hlb⟩ := Finset.mem_sdiff.1 hl
    obtain ⟨hln, _, hmsg⟩ := hS2 l hlS
    obtain ⟨m, hm1, hm2, hm3, hm4⟩ := hmsg hlb
    have hmeq : m = readyMsg τ (H v) := msg_eq_actMsg m rReady _ _ hm2 hm3 hm4
    rw [hmeq] at hm1
    exact ⟨⟨hln, hlb⟩, fun x hx => F.linv.allTo l i' _ hm1 (Or.inr rfl) x hx⟩
  have hcard : c.t + 1 ≤ (S \ c.byz).card := by
    have := Finset.le_card_sdiff c.byz S
    have := F.hy.hb
    omega
  refine F.spread hτ hlen (fun j' hj' => Or.inr ?_) hj
  exact le_trans hcard (F.ready_count hτ hlen _ hSh hj')

theorem Final.totality (F : Final H T c evs s) {i j : Nat} (hi : c.honest i) (hj : c.honest j) :
    ∀ {τ : Tag} {v : Int}, (i, τ, v) ∈ s.dl → (j, τ, v) ∈ s.dl := by
  have hPi := F.inv.parties i hi
  have hPj := F.inv.parties j hj
  have key : ∀ n : Nat, ∀ (τ : Tag) (v : Int), τ.seq.toNat = n → (i, τ, v) ∈ s.dl →
      (j, τ, v) ∈ s.dl := by
    intro n
    induction n using Nat.strong_induction_on with
    | _ n ih =>
      intro τ v hn hd
      obtain ⟨_, hid, w0, w1, w2⟩ := F.inv.dlWF i τ v hd
      have hcnt := F.tot_core hd hj
      rcases F.tail hj hid hcnt with ⟨v', hv'⟩ | ⟨hf, hgap⟩
      · have := F.value hj hv' (F.linv.cntDbar j hj τ _ hcnt)
        rw [← this]; exact hv'
      · exfalso
        have hw : τ.sender.toNat < c.n := by omega
        have hσ1 := F.linv.dSPos j hj _ hw
        have hlt := hPi.fifoLt hf τ v hd
        obtain ⟨v', hv'⟩ := hPi.fifoDel hf ⟨c.ID, τ.sender, (s.st j).dS τ.sender.toNat⟩ rfl w0 w1 hσ1
          (by show (s.st j).dS τ.sender.toNat < (s.st i).dS τ.sender.toNat; omega)
        have := ih ((s.st j).dS τ.sender.toNat).toNat (by omega) _ v' rfl hv'
        have := hPj.fifoLt hf _ v' this
        simp only at this
        omega
  intro τ v hd
  exact key _ τ v rfl hd

theorem Final.validity (F : Final H T c evs s) {k : Nat} (hk : c.honest k) {i : Nat}
    (hi : c.honest i) {τ : Tag} {v : Int} (hb : (k, τ, v) ∈ s.bc)
    (hlen : LenOk T τ (H v))
    (hlenF : c.fifo = true → ∀ τ' v', (k, τ', v') ∈ s.bc → τ'.seq < τ.seq → LenOk T τ' (H v'))
    (hnf : c.fifo = false → 1 ≤ τ.seq ∧ UniqTag s.bc k τ) : (i, τ, v) ∈ s.dl := by
  have hPi := F.inv.parties i hi
  cases hf : c.fifo with
  | false =>
    obtain ⟨hseq, hu⟩ := hnf hf
    obtain ⟨hcnt, hid⟩ := F.valid_core hk hb hseq hu hlen hi
    rcases F.tail hi hid hcnt with ⟨v', hv'⟩ | ⟨hf', _⟩
    · have := F.value hi hv' (F.linv.cntDbar i hi τ _ hcnt)
      rw [← this]; exact hv'
    · rw [hf] at hf'; cases hf'
  | true =>
    obtain ⟨_, hB1, hB2, hB3⟩ := F.linv.fifoBc hf k hk
    have key : ∀ n : Nat, ∀ (τ : Tag) (v : Int), τ.seq.toNat = n → (k, τ, v) ∈ s.bc →
        (∀ τ' v', (k, τ', v') ∈ s.bc → τ'.seq ≤ τ.seq → LenOk T τ' (H v')) →
        (i, τ, v) ∈ s.dl := by
      intro n
      induction n using Nat.strong_induction_on with
      | _ n ih =>
        intro τ v hn hb hl
        obtain ⟨hs1, hs2⟩ := hB1 τ v hb
        obtain ⟨hcnt, hid⟩ := F.valid_core hk hb hs1 (fun a b => hB3 τ a b)
          (hl τ v hb (le_refl _)) hi
        rcases F.tail hi hid hcnt with ⟨v', hv'⟩ | ⟨_, hgap⟩
        · have := F.value hi hv' (F.linv.cntDbar i hi τ _ hcnt)
          rw [← this]; exact hv'
        · exfalso
          obtain ⟨_, _, hsender, _⟩ := F.linv.bcLog k τ v hb
          have hto : τ.sender.toNat = k := by rw [hsender]; simp
          rw [hto] at hgap
          have hσ1 := F.linv.dSPos i hi k hk.1
          obtain ⟨v', hv'⟩ := hB2 ((s.st i).dS k) hσ1 (by omega)
          have := ih ((s.st i).dS k).toNat (by omega) _ v' rfl hv'
            (fun τ' w hw hle => hl τ' w hw (by
              have : τ'.seq ≤ (s.st i).dS k := hle
              omega))
          have := hPi.fifoLt hf _ v' this
          simp only [Int.toNat_natCast] at this
          omega
    refine key _ τ v rfl hb (fun τ' v' hb' hle => ?_)
    rcases lt_or_eq_of_le hle with h | h
    · exact hlenF hf τ' v' hb' h
    · -- the same slot: the same tag, hence the same value
      obtain ⟨_, hid', hsd', _⟩ := F.linv.bcLog k τ' v' hb'
      obtain ⟨_, hid, hsd, _⟩ := F.linv.bcLog k τ v hb
      have : τ' = τ := by
        cases τ; cases τ'
        simp only at hid hid' hsd hsd' h
        subst hid hid' hsd hsd' h; rfl
      subst this
      rw [hB3 τ' v' v hb' hb]; exact hlen

end Tmcg.Rbc
