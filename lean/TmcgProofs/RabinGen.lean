import Tmcg.Model.RabinGen
import TmcgProofs.Rabin
import Mathlib.NumberTheory.LucasPrimality
import Mathlib.FieldTheory.Finite.Basic
/-
  C10 / C03 (prover side): key generation `generate` — the generated key is a Blum key with a
  non-residue `y`, it satisfies the preconditions of `sign`/`encrypt`, and key validation
  `check` accepts it (completeness of the three NIZK stages).
-/
namespace Tmcg.RabinGenProofs
open Tmcg Tmcg.Rabin Tmcg.RabinGen Tmcg.RabinProofs
open NumberTheorySymbols

/-- the primality oracle never calls a composite number prime (`mpz_probab_prime_p` is right) -/
def OracleSound (isPrime : Int → Bool) : Prop := ∀ n : Nat, isPrime (n : Int) = true → n.Prime

/-! ### step 4 of [CS00]: `q` prime and `2^q ≡ ±1 (mod 2q+1)` make `2q+1` prime (Lucas) -/

theorem safe_prime (q : Nat) (hq : q.Prime) (hodd : q % 2 = 1)
    (h : 2 ^ q % (2 * q + 1) = 1 ∨ 2 ^ q % (2 * q + 1) = 2 * q) : (2 * q + 1).Prime := by
  have hq2 : 2 ≤ q := hq.two_le
  have hq3 : 3 ≤ q := by omega
  set p := 2 * q + 1 with hp
  have : Fact (2 < p) := ⟨by omega⟩
  have hpm1 : p - 1 = 2 * q := by omega
  have h2q : ((2 : ZMod p)) ^ q = ((2 ^ q % p : Nat) : ZMod p) := by
    rw [ZMod.natCast_mod]; push_cast; rfl
  have h4 : (4 : ZMod p) ≠ 1 := by
    intro e
    have : ((3 : Nat) : ZMod p) = 0 := by
      have : (4 : ZMod p) - 1 = 0 := by rw [e]; ring
      have e3 : (4 : ZMod p) - 1 = 3 := by norm_num
      rw [e3] at this; exact_mod_cast this
    rw [ZMod.natCast_eq_zero_iff] at this
    have := Nat.le_of_dvd (by norm_num) this
    omega
  have hdiv : ∀ r : Nat, r.Prime → r ∣ p - 1 → r = 2 ∨ r = q := by
    intro r hr hd
    rw [hpm1] at hd
    rcases (Nat.Prime.dvd_mul hr).mp hd with h1 | h1
    · exact .inl ((Nat.prime_dvd_prime_iff_eq hr Nat.prime_two).mp h1)
    · exact .inr ((Nat.prime_dvd_prime_iff_eq hr hq).mp h1)
  have hqodd : Odd q := Nat.odd_iff.mpr hodd
  have e2 : (2 * q) / 2 = q := by omega
  have eq' : (2 * q) / q = 2 := Nat.mul_div_cancel _ (by omega)
  rcases h with h | h
  · -- 2^q = 1: use the base -2
    have h1 : (2 : ZMod p) ^ q = 1 := by rw [h2q, h]; simp
    have hneg : (-2 : ZMod p) ^ q = -1 := by rw [Odd.neg_pow hqodd, h1]
    refine lucas_primality p (-2) ?_ ?_
    · rw [hpm1, mul_comm, pow_mul, hneg]; norm_num
    · intro r hr hd
      rw [hpm1]
      rcases hdiv r hr hd with rfl | rfl
      · rw [e2, hneg]; exact ZMod.neg_one_ne_one
      · rw [eq']; norm_num; exact h4
  · -- 2^q = -1
    have h1 : (2 : ZMod p) ^ q = -1 := by
      rw [h2q, h]
      have : ((2 * q + 1 : Nat) : ZMod p) = 0 := by rw [← hp]; exact ZMod.natCast_self p
      push_cast at this ⊢
      exact eq_neg_of_add_eq_zero_left this
    refine lucas_primality p 2 ?_ ?_
    · rw [hpm1, mul_comm, pow_mul, h1]; norm_num
    · intro r hr hd
      rw [hpm1]
      rcases hdiv r hr hd with rfl | rfl
      · rw [e2, h1]; exact ZMod.neg_one_ne_one
      · rw [eq']; norm_num; exact h4

/-! ### the prime search -/

theorem candidateOk_spec (isPrime : Int → Bool) (q : Nat) (h : candidateOk isPrime q = true) :
    (2 * q + 1) % 4 = 3 ∧ (2 ^ q % (2 * q + 1) = 1 ∨ 2 ^ q % (2 * q + 1) = 2 * q) ∧ isPrime (q : Int) = true := by
  unfold candidateOk at h
  simp only [Bool.and_eq_true, decide_eq_true_eq, powm_eq] at h
  obtain ⟨⟨⟨⟨⟨-, h4⟩, -⟩, -⟩, hy⟩, hp⟩ := h
  refine ⟨h4, ?_, hp⟩
  rcases hy with hy | hy
  · exact .inl hy
  · right; rw [hy]; omega

theorem searchSafe_spec (isPrime : Int → Bool) : ∀ (f q0 q : Nat), searchSafe isPrime f q0 = some q →
    candidateOk isPrime q = true
  | 0, _, _, h => by simp [searchSafe] at h
  | f+1, q0, q, h => by
    unfold searchSafe at h
    split at h
    · rename_i hc
      simp only [Option.some.injEq] at h
      rw [← h]; exact hc
    · exact searchSafe_spec isPrime f _ q h

/-- what `tmcg_mpz_sprime3mod4` returns when the oracle is right: a safe prime `≡ 3 (mod 4)` -/
structure SafePrime (p : Nat) : Prop where
  prime : p.Prime
  mod4 : p % 4 = 3
  half : ∃ q : Nat, q.Prime ∧ p = 2 * q + 1

theorem sprime3mod4_spec (isPrime : Int → Bool) (hO : OracleSound isPrime) (psize fuel : Nat) (coins : List Bytes)
    (p : Nat) (rest : List Bytes) (h : sprime3mod4 isPrime psize fuel coins = .ok (p, rest)) : SafePrime p := by
  unfold sprime3mod4 at h
  simp only at h
  split at h
  · simp at h
  · cases hd : drawSized (psize - 1) fuel coins with
    | error e => rw [hd] at h; simp at h
    | ok v =>
      obtain ⟨q0, rest0⟩ := v
      rw [hd] at h
      simp only at h
      cases hs : searchSafe isPrime fuel (if q0 % 2 = 0 then q0 + 1 else q0) with
      | none => rw [hs] at h; simp at h
      | some q =>
        rw [hs] at h
        simp only [Except.ok.injEq, Prod.mk.injEq] at h
        obtain ⟨h4, hy, hp⟩ := candidateOk_spec isPrime q (searchSafe_spec isPrime _ _ q hs)
        have hq := hO q hp
        rw [← h.1]
        exact ⟨safe_prime q hq (by omega) hy, h4, q, hq, rfl⟩

theorem drawQ_spec (isPrime : Int → Bool) (hO : OracleSound isPrime) (psize fuel p : Nat) :
    ∀ (f : Nat) (coins : List Bytes) (q : Nat) (rest : List Bytes),
      drawQ isPrime psize fuel p f coins = .ok (q, rest) → SafePrime q ∧ p % 8 ≠ q % 8
  | 0, _, _, _, h => by simp [drawQ] at h
  | f+1, coins, q, rest, h => by
    unfold drawQ at h
    cases hs : sprime3mod4 isPrime psize fuel coins with
    | error e => rw [hs] at h; simp at h
    | ok v =>
      obtain ⟨q1, rest1⟩ := v
      rw [hs] at h
      simp only at h
      split at h
      · exact drawQ_spec isPrime hO psize fuel p f rest1 q rest h
      · rename_i hne
        simp only [Except.ok.injEq, Prod.mk.injEq] at h
        rw [← h.1]
        exact ⟨sprime3mod4_spec isPrime hO _ _ _ _ _ hs, hne⟩

theorem genPrimes_spec (isPrime : Int → Bool) (hO : OracleSound isPrime) (keysize fuel : Nat) :
    ∀ (f : Nat) (coins : List Bytes) (p q : Nat) (rest : List Bytes),
      genPrimes isPrime keysize fuel f coins = .ok (p, q, rest) →
      SafePrime p ∧ SafePrime q ∧ p % 8 ≠ q % 8 ∧
        keysize + 1 ≤ bitlen ((p * q : Nat) : Int) ∧ p * q < 2 ^ (keysize + 1) + 2 ^ keysize
  | 0, _, _, _, _, h => by simp [genPrimes] at h
  | f+1, coins, p, q, rest, h => by
    unfold genPrimes at h
    cases hs : sprime3mod4 isPrime (keysize / 2 + 1) fuel coins with
    | error e => rw [hs] at h; simp at h
    | ok v =>
      obtain ⟨p1, rest1⟩ := v
      rw [hs] at h
      simp only at h
      cases hq : drawQ isPrime (keysize / 2 + 1) fuel p1 fuel rest1 with
      | error e => rw [hq] at h; simp at h
      | ok w =>
        obtain ⟨q1, rest2⟩ := w
        rw [hq] at h
        simp only at h
        split at h
        · exact genPrimes_spec isPrime hO keysize fuel f rest2 p q rest h
        · rename_i hsz
          simp only [Except.ok.injEq, Prod.mk.injEq] at h
          obtain ⟨rfl, rfl, -⟩ := h
          obtain ⟨sq, hne⟩ := drawQ_spec isPrime hO _ _ _ _ _ _ _ hq
          refine ⟨sprime3mod4_spec isPrime hO _ _ _ _ _ hs, sq, hne, ?_, ?_⟩ <;> omega

theorem chooseY_spec (m p q : Int) : ∀ (f : Nat) (y0 y : Int), chooseY m p q f y0 = some y →
    jacobi y m.natAbs = 1 ∧ qrmn y p q = false ∧ y0 < y
  | 0, _, _, h => by simp [chooseY] at h
  | f+1, y0, y, h => by
    unfold chooseY at h
    simp only at h
    split at h
    · obtain ⟨a, b, c⟩ := chooseY_spec m p q f _ y h
      exact ⟨a, b, by omega⟩
    · rename_i hc
      simp only [Option.some.injEq] at h
      rw [← h]
      simp only [not_or, not_not, Bool.not_eq_true] at hc
      exact ⟨hc.1, hc.2, by omega⟩

/-! ### the generated key -/

/-- a key as `generate` makes it -/
structure GenKey (K : SecKey) : Prop where
  blum : BlumKey K
  mod8 : K.p % 8 ≠ K.q % 8
  jy : jacobi K.y K.m.natAbs = 1
  ynq : qrmn K.y K.p K.q = false
  ypos : 1 < K.y
  safe_p : ∃ p' : Nat, p'.Prime ∧ K.p = 2 * (p' : Int) + 1
  safe_q : ∃ q' : Nat, q'.Prime ∧ K.q = 2 * (q' : Int) + 1

/-- the pieces `generate` assembles (`precompute`, proof text, signature) for later use -/
theorem generate_parts (O : Oracles) (isPrime : Int → Bool) (name email : Text) (keysize : Nat) (nizk : Bool)
    (fuel : Nat) (coins : List Bytes) (K : SecKey)
    (h : generate O isPrime name email keysize nizk fuel coins = .ok K) :
    ∃ (p q : Nat) (coins1 rest : List Bytes) (P : Pre) (sig0 : Text),
      genPrimes isPrime keysize fuel fuel coins = .ok (p, q, coins1) ∧
      K.p = p ∧ K.q = q ∧ K.m = (p : Int) * q ∧ K.name = name ∧ K.email = email ∧ K.type = typeText keysize nizk ∧
      chooseY K.m K.p K.q fuel 1 = some K.y ∧
      precompute K = some P ∧
      nizkProve O { K with nizk := [], sig := [] } P nizk fuel = .ok K.nizk ∧
      signCoins O { K with sig := [] } P (bytesOf (selfData K.pub)) coins1 = .ok (sig0, rest) ∧
      replaceKeyid sig0 = .ok K.sig := by
  unfold generate at h
  split at h
  · simp at h
  cases h1 : genPrimes isPrime keysize fuel fuel coins with
  | error e => rw [h1] at h; simp at h
  | ok v =>
    obtain ⟨p, q, coins1⟩ := v
    rw [h1] at h
    simp only at h
    cases h2 : chooseY ((p : Int) * q) p q fuel 1 with
    | none => rw [h2] at h; simp at h
    | some y =>
      rw [h2] at h
      simp only at h
      cases h3 : precompute ⟨name, email, typeText keysize nizk, (p : Int) * q, y, p, q, [], []⟩ with
      | none => rw [h3] at h; simp at h
      | some P =>
        rw [h3] at h
        simp only at h
        cases h4 : nizkProve O ⟨name, email, typeText keysize nizk, (p : Int) * q, y, p, q, [], []⟩ P nizk fuel with
        | error e => rw [h4] at h; simp at h
        | ok nz =>
          rw [h4] at h
          simp only at h
          cases h5 : signCoins O ⟨name, email, typeText keysize nizk, (p : Int) * q, y, p, q, nz, []⟩ P
              (bytesOf (selfData (SecKey.pub ⟨name, email, typeText keysize nizk, (p : Int) * q, y, p, q, nz, []⟩))) coins1 with
          | error e => rw [h5] at h; simp at h
          | ok v5 =>
            obtain ⟨sig0, rest⟩ := v5
            rw [h5] at h
            simp only at h
            cases h6 : replaceKeyid sig0 with
            | error e => rw [h6] at h; simp at h
            | ok sig1 =>
              rw [h6] at h
              simp only [Except.ok.injEq] at h
              subst h
              refine ⟨p, q, coins1, rest, P, sig0, rfl, rfl, rfl, rfl, rfl, rfl, rfl, h2, ?_, h4, h5, h6⟩
              exact h3

/-- **`generate_blum`**: with a sound primality oracle, every key `generate` returns has
    `m = p·q` for distinct safe primes `p ≡ q ≡ 3 (mod 4)` with `p ≢ q (mod 8)`, the modulus has
    the requested size (`keysize + 1 ≤ bitlen m`, `m < 2^(keysize+1) + 2^keysize`), and `y > 1` has
    Jacobi symbol `+1` modulo `m` without being a quadratic residue. -/
theorem generate_blum (O : Oracles) (isPrime : Int → Bool) (hO : OracleSound isPrime) (name email : Text)
    (keysize : Nat) (nizk : Bool) (fuel : Nat) (coins : List Bytes) (K : SecKey)
    (h : generate O isPrime name email keysize nizk fuel coins = .ok K) :
    GenKey K ∧ keysize + 1 ≤ bitlen K.m ∧ K.m < 2 ^ (keysize + 1) + 2 ^ keysize := by
  obtain ⟨p, q, coins1, rest, P, sig0, hg, hp, hq, hm, -, -, -, hy, -⟩ :=
    generate_parts O isPrime name email keysize nizk fuel coins K h
  obtain ⟨sp, sq, hne, hb, hlt⟩ := genPrimes_spec isPrime hO keysize fuel fuel coins p q coins1 hg
  obtain ⟨jy, ynq, ypos⟩ := chooseY_spec _ _ _ _ _ _ hy
  obtain ⟨p', hp', ep⟩ := sp.half
  obtain ⟨q', hq', eq⟩ := sq.half
  have hp0 := sp.prime.pos
  have hq0 := sq.prime.pos
  refine ⟨⟨⟨by rw [hp]; exact_mod_cast hp0, by rw [hq]; exact_mod_cast hq0,
      by rw [hp]; simpa using sp.prime, by rw [hq]; simpa using sq.prime,
      by rw [hp]; have := sp.mod4; omega, by rw [hq]; have := sq.mod4; omega,
      by rw [hp, hq]; intro e; have : p = q := by exact_mod_cast e
         exact hne (by rw [this]), by rw [hm, hp, hq]⟩,
      by rw [hp, hq]; omega, jy, ynq, ypos,
      ⟨p', hp', by rw [hp, ep]; push_cast; ring⟩, ⟨q', hq', by rw [hq, eq]; push_cast; ring⟩⟩, ?_, ?_⟩
  · rw [hm]; exact_mod_cast hb
  · rw [hm]; exact_mod_cast hlt

/-! ### the self-signature and the key identifier -/

theorem selfid_sigText (kid : Text) (hk : '|' ∉ kid) (v : Int) : selfid (sigText kid v) = str62 v := by
  have e : sigText kid v = "sig".toList ++ '|' :: (kid ++ '|' :: (str62 v ++ '|' :: [])) := by
    unfold sigText bar; simp [txt, List.append_assoc]
  unfold selfid
  rw [e]
  simp only [List.append_eq_nil_iff, reduceCtorEq, and_false, if_false]
  rw [Codec.cm_split "sig" _ '|' (by decide)]
  simp only
  rw [Codec.nx_split _ _ '|' hk]
  simp only
  have hb : '|' ∉ str62 v := Codec.bar_notMem_str62 v
  rw [Codec.gs_split (str62 v) [] '|' hb]

theorem keyid_congr (a b : Text) (h : selfid a = selfid b) (n : Nat) : keyid a n = keyid b n := by
  unfold keyid; rw [h]

theorem kid0_eq : keyid [] Gen.TMCG_KEYID_SIZE = "ID8^-SELFSIG".toList := by decide

/-- `generate`'s replacement of the provisional identifier: the final signature text carries the
    key's own identifier and the same value -/
theorem replaceKeyid_sigText (v : Int) :
    replaceKeyid (sigText (keyid [] Gen.TMCG_KEYID_SIZE) v) =
      .ok (sigText (keyid (sigText (keyid [] Gen.TMCG_KEYID_SIZE) v) Gen.TMCG_KEYID_SIZE) v) := by
  rw [kid0_eq]
  have e : sigText "ID8^-SELFSIG".toList v =
      's' :: 'i' :: 'g' :: '|' :: 'I' :: 'D' :: '8' :: '^' :: '-' :: 'S' :: 'E' :: 'L' :: 'F' :: 'S' :: 'I' :: 'G' :: '|' ::
        (str62 v ++ ['|']) := by
    unfold sigText bar; simp [txt, List.append_assoc]
  have hpat : txt "ID" ++ dec Gen.TMCG_KEYID_SIZE ++ hat = ['I', 'D', '8', '^'] := by decide
  unfold replaceKeyid
  simp only [hpat]
  have hf : findSub ['I', 'D', '8', '^'] (sigText "ID8^-SELFSIG".toList v) = some 4 := by
    rw [e]
    simp [findSub, List.isPrefixOf]
  rw [hf]
  simp only
  congr 1
  generalize keyid (sigText "ID8^-SELFSIG".toList v) Gen.TMCG_KEYID_SIZE = kid
  rw [e]
  unfold sigText bar
  simp [txt, List.append_assoc, Gen.TMCG_KEYID_SIZE]

/-- the signature text of a generated key: `sig|<own key id>|<root>|` -/
theorem generate_sig (O : Oracles) (isPrime : Int → Bool) (hO : OracleSound isPrime) (name email : Text)
    (keysize : Nat) (nizk : Bool) (fuel : Nat) (coins : List Bytes) (K : SecKey)
    (h : generate O isPrime name email keysize nizk fuel coins = .ok K) :
    ∃ (P : Pre) (r : Bytes) (root : Int), precompute K = some P ∧ PreOk K P ∧
      K.sig = sigText (keyid K.sig Gen.TMCG_KEYID_SIZE) root ∧ selfid K.sig = str62 root ∧
      bitlen K.m > bitlen K.m / 8 * 8 ∧ bitlen K.m / 8 > mdsize + K0 ∧
      padValue O (bitlen K.m / 8) (bytesOf (selfData K.pub)) r ≠ 0 ∧
      root * root ≡ (padValue O (bitlen K.m / 8) (bytesOf (selfData K.pub)) r : Int) [ZMOD K.m] := by
  obtain ⟨hG, -, -⟩ := generate_blum O isPrime hO name email keysize nizk fuel coins K h
  obtain ⟨p, q, coins1, rest, P, sig0, -, -, -, -, -, -, -, -, hpre, -, hsign, hrep⟩ :=
    generate_parts O isPrime name email keysize nizk fuel coins K h
  have hP := precompute_ok K P hpre
  -- the key with the empty signature is the same Blum key
  have hK' : BlumKey { K with sig := [] } :=
    ⟨hG.blum.p_pos, hG.blum.q_pos, hG.blum.p_prime, hG.blum.q_prime, hG.blum.p3, hG.blum.q3, hG.blum.ne, hG.blum.m_eq⟩
  have hP' : PreOk { K with sig := [] } P := ⟨hP.up0, hP.up1, hP.vq1, hP.vq0, hP.pa, hP.qa⟩
  unfold signCoins at hsign
  simp only at hsign
  split at hsign
  · simp at hsign
  split at hsign
  · simp at hsign
  cases hq : qrPrefix O K.p K.q (bitlen K.m / 8) (bytesOf (selfData K.pub)) coins1 with
  | none => rw [hq] at hsign; simp at hsign
  | some v =>
    obtain ⟨rs, rest1⟩ := v
    rw [hq] at hsign
    simp only at hsign
    cases rest1 with
    | nil => simp at hsign
    | cons w rest2 =>
      simp only at hsign
      cases hs : sign O { K with sig := [] } P (bytesOf (selfData K.pub)) rs (leVal w % 4) with
      | error e => rw [hs] at hsign; simp at hsign
      | ok s0 =>
        rw [hs] at hsign
        simp only [Except.ok.injEq, Prod.mk.injEq] at hsign
        obtain ⟨hL, hmn, r, root, hs0, hne, hsq⟩ := sign_spec O _ P hK' hP' _ rs _ s0 hs
        have hsig0 : sig0 = sigText (keyid [] Gen.TMCG_KEYID_SIZE) root := by rw [← hsign.1, hs0]
        rw [hsig0, replaceKeyid_sigText] at hrep
        simp only [Except.ok.injEq] at hrep
        have hk0 : '|' ∉ keyid (sigText (keyid [] Gen.TMCG_KEYID_SIZE) root) Gen.TMCG_KEYID_SIZE := keyid_no_bar _ _
        have hself : selfid K.sig = str62 root := by rw [← hrep]; exact selfid_sigText _ hk0 root
        have hself0 : selfid (sigText (keyid [] Gen.TMCG_KEYID_SIZE) root) = str62 root :=
          selfid_sigText _ (keyid_no_bar _ _) root
        refine ⟨P, r, root, hpre, hP, ?_, hself, hL, hmn, hne, hsq⟩
        rw [keyid_congr K.sig _ (hself.trans hself0.symm)]
        exact hrep.symm

/-- the self-signature of a generated key verifies (the `KeyIdOk` hypothesis excludes a root with
    fewer than 8 base-62 digits) -/
theorem generate_selfsig (O : Oracles) (isPrime : Int → Bool) (hO : OracleSound isPrime) (name email : Text)
    (keysize : Nat) (nizk : Bool) (fuel : Nat) (coins : List Bytes) (K : SecKey)
    (h : generate O isPrime name email keysize nizk fuel coins = .ok K) (hid : KeyIdOk K.sig) :
    verify O K.m K.sig (bytesOf (selfData K.pub)) K.sig = true := by
  obtain ⟨hG, -, -⟩ := generate_blum O isPrime hO name email keysize nizk fuel coins K h
  obtain ⟨P, r, root, -, -, hsig, -, hL, hmn, hne, hsq⟩ := generate_sig O isPrime hO name email keysize nizk fuel coins K h
  have hmpos : 0 < K.m := by rw [hG.blum.m_eq]; exact Int.mul_pos hG.blum.p_pos hG.blum.q_pos
  have := verify_of_root O K.m hmpos K.sig hid (bytesOf (selfData K.pub)) r root hL hmn hne hsq
  rw [← hsig] at this
  exact this

/-- **preconditions**: every generated key is a Blum key whose `precompute` succeeds with well-formed
    values; with `KeyIdOk` these are the hypotheses of `verify_sign` and `decrypt_encrypt`. -/
theorem generate_preconditions (O : Oracles) (isPrime : Int → Bool) (hO : OracleSound isPrime) (name email : Text)
    (keysize : Nat) (nizk : Bool) (fuel : Nat) (coins : List Bytes) (K : SecKey)
    (h : generate O isPrime name email keysize nizk fuel coins = .ok K) :
    BlumKey K ∧ ∃ P, precompute K = some P ∧ PreOk K P ∧
      (KeyIdOk K.sig ↔ ∃ root : Int, selfid K.sig = str62 root ∧
        (str62 root = ERROR ∨ Gen.TMCG_KEYID_SIZE ≤ (str62 root).length)) := by
  obtain ⟨hG, -, -⟩ := generate_blum O isPrime hO name email keysize nizk fuel coins K h
  obtain ⟨P, r, root, hpre, hP, -, hself, -⟩ := generate_sig O isPrime hO name email keysize nizk fuel coins K h
  refine ⟨hG.blum, P, hpre, hP, ?_⟩
  unfold KeyIdOk
  rw [hself]
  constructor
  · intro hk; exact ⟨root, rfl, hk⟩
  · rintro ⟨root', e, hk⟩; rw [e]; exact hk

/-- signatures made with a generated key verify (`verify_sign` instantiated) -/
theorem generated_verify_sign (O : Oracles) (isPrime : Int → Bool) (hO : OracleSound isPrime) (name email : Text)
    (keysize : Nat) (nizk : Bool) (fuel : Nat) (coins : List Bytes) (K : SecKey)
    (h : generate O isPrime name email keysize nizk fuel coins = .ok K) (hid : KeyIdOk K.sig)
    (P : Pre) (hP : precompute K = some P) (data : Bytes) (rs : List Bytes) (idx : Nat) (s : Text)
    (hs : sign O K P data rs idx = .ok s) : verify O K.m K.sig data s = true := by
  obtain ⟨hG, -, -⟩ := generate_blum O isPrime hO name email keysize nizk fuel coins K h
  exact verify_sign O K P hG.blum (precompute_ok K P hP) hid data rs idx s hs

/-- decryption inverts encryption for a generated key (`decrypt_encrypt` instantiated; the bit
    length of a generated modulus is never a multiple of 8 because `generate` signs) -/
theorem generated_decrypt_encrypt (O : Oracles) (isPrime : Int → Bool) (hO : OracleSound isPrime) (name email : Text)
    (keysize : Nat) (nizk : Bool) (fuel : Nat) (coins : List Bytes) (K : SecKey)
    (h : generate O isPrime name email keysize nizk fuel coins = .ok K) (hid : KeyIdOk K.sig)
    (P : Pre) (hP : precompute K = some P) (value r : Bytes) (c : Text)
    (he : encrypt O K.m K.sig value r = .ok c)
    (hcop : Int.gcd (saepValue O (bitlen K.m / 8 - 2 * S0) value r : Int) K.m = 1)
    (hU : ∀ (ρ : Int) (x : Bytes),
      ρ * ρ ≡ (saepValue O (bitlen K.m / 8 - 2 * S0) value r : Int) * (saepValue O (bitlen K.m / 8 - 2 * S0) value r : Int) [ZMOD K.m] →
      saepOpen O (bitlen K.m / 8 - 2 * S0) ρ = some x → x = fit S0 value) :
    decrypt O K P c = some (fit S0 value) := by
  obtain ⟨hG, -, -⟩ := generate_blum O isPrime hO name email keysize nizk fuel coins K h
  obtain ⟨-, -, -, -, -, -, -, hL, -⟩ := generate_sig O isPrime hO name email keysize nizk fuel coins K h
  exact decrypt_encrypt O K P hG.blum (precompute_ok K P hP) hid value r c he hL hcop hU

/-! ### Jacobi-symbol algebra for the model's `jacobi` -/

theorem jacobi_mul (a b : Int) (n : Nat) (hn : n % 2 = 1) : jacobi (a * b) n = jacobi a n * jacobi b n := by
  rw [TmcgOpen.jacobi_eq_jacobiSym _ n hn, TmcgOpen.jacobi_eq_jacobiSym _ n hn,
    TmcgOpen.jacobi_eq_jacobiSym _ n hn, jacobiSym.mul_left]

theorem jacobi_mul_right (a : Int) (p q : Nat) (hp : p % 2 = 1) (hq : q % 2 = 1) :
    jacobi a (p * q) = jacobi a p * jacobi a q := by
  have hpq : (p * q) % 2 = 1 := by rw [Nat.mul_mod, hp, hq]
  rw [TmcgOpen.jacobi_eq_jacobiSym _ _ hpq, TmcgOpen.jacobi_eq_jacobiSym _ p hp,
    TmcgOpen.jacobi_eq_jacobiSym _ q hq]
  exact jacobiSym.mul_right' a (by omega) (by omega)

theorem jacobi_neg_one (p : Nat) (h4 : p % 4 = 3) : jacobi (-1) p = -1 := by
  rw [TmcgOpen.jacobi_eq_jacobiSym _ p (by omega), jacobiSym.at_neg_one (Nat.odd_iff.mpr (by omega)),
    ZMod.χ₄_nat_three_mod_four h4]

theorem jacobi_two (p : Nat) (hodd : p % 2 = 1) : jacobi 2 p = if p % 8 = 1 ∨ p % 8 = 7 then 1 else -1 := by
  rw [TmcgOpen.jacobi_eq_jacobiSym _ p hodd, jacobiSym.at_two (Nat.odd_iff.mpr hodd),
    ZMod.χ₈_nat_eq_if_mod_eight, if_neg (by omega)]

theorem jacobi_pm (a : Int) (p : Nat) (hodd : p % 2 = 1) (hg : Int.gcd a p = 1) : jacobi a p = 1 ∨ jacobi a p = -1 := by
  rw [TmcgOpen.jacobi_eq_jacobiSym _ p hodd]; exact jacobiSym.eq_one_or_neg_one hg

theorem jacobi_tri (a : Int) (p : Nat) (hodd : p % 2 = 1) : jacobi a p = 0 ∨ jacobi a p = 1 ∨ jacobi a p = -1 := by
  rw [TmcgOpen.jacobi_eq_jacobiSym _ p hodd]; exact jacobiSym.trichotomy a p

theorem jacobi_neg (a : Int) (p : Nat) (h4 : p % 4 = 3) : jacobi (-a) p = - jacobi a p := by
  have : -a = -1 * a := by ring
  rw [this, jacobi_mul _ _ p (by omega), jacobi_neg_one p h4]; ring

/-- product 1 of two symbols: both `+1` or both `−1` -/
theorem both_of_mul_one (s t : Int) (hs : s = 0 ∨ s = 1 ∨ s = -1) (ht : t = 0 ∨ t = 1 ∨ t = -1) (h : s * t = 1) :
    (s = 1 ∧ t = 1) ∨ (s = -1 ∧ t = -1) := by
  rcases hs with rfl | rfl | rfl <;> rcases ht with rfl | rfl | rfl <;> simp at h ⊢

/-! ### facts about a generated key used by the prover -/

/-- natural-number view of a generated key -/
theorem GenKey.nat (K : SecKey) (hG : GenKey K) :
    ∃ p q : Nat, K.p = p ∧ K.q = q ∧ K.m = ((p * q : Nat) : Int) ∧ p.Prime ∧ q.Prime ∧ p ≠ q ∧ p % 4 = 3 ∧ q % 4 = 3 ∧
      p % 8 ≠ q % 8 := by
  have ep : K.p = (K.p.natAbs : Int) := (Int.natAbs_of_nonneg hG.blum.p_pos.le).symm
  have eq : K.q = (K.q.natAbs : Int) := (Int.natAbs_of_nonneg hG.blum.q_pos.le).symm
  refine ⟨K.p.natAbs, K.q.natAbs, ep, eq, ?_, hG.blum.p_prime, hG.blum.q_prime, ?_, ?_, ?_, ?_⟩
  · have : ((K.p.natAbs * K.q.natAbs : Nat) : Int) = (K.p.natAbs : Int) * (K.q.natAbs : Int) := Nat.cast_mul _ _
    rw [this, ← ep, ← eq]; exact hG.blum.m_eq
  · intro e; apply hG.blum.ne; rw [ep, eq, e]
  · have := hG.blum.p3; omega
  · have := hG.blum.q3; omega
  · have := hG.mod8; omega

/-- `y` is a non-residue modulo both primes -/
theorem GenKey.y_both (K : SecKey) (hG : GenKey K) (p q : Nat) (hp : K.p = p) (hq : K.q = q)
    (hm : K.m = ((p * q : Nat) : Int)) (hp2 : p % 2 = 1) (hq2 : q % 2 = 1) :
    jacobi K.y p = -1 ∧ jacobi K.y q = -1 := by
  have h1 := hG.jy
  rw [hm, Int.natAbs_natCast, jacobi_mul_right _ p q hp2 hq2] at h1
  have h2 := hG.ynq
  rw [hp, hq] at h2
  rcases both_of_mul_one _ _ (jacobi_tri _ p hp2) (jacobi_tri _ q hq2) h1 with ⟨a, b⟩ | ⟨a, b⟩
  · exfalso
    have : qrmn K.y (p : Int) (q : Int) = true := by rw [qrmn_iff]; simpa using ⟨a, b⟩
    rw [this] at h2; exact absurd h2 (by decide)
  · exact ⟨a, b⟩

theorem drawCommon_spec (O : Oracles) (m : Int) (hm : 0 < m) (mnsize : Nat) (jac : Bool) :
    ∀ (f : Nat) (input : Text) (foo : Int) (input' : Text) (f' : Nat),
      drawCommon O m mnsize jac f input = .ok (foo, input', f') →
      0 ≤ foo ∧ foo < m ∧ (if jac then jacobi foo m.natAbs = 1 else Int.gcd foo m = 1)
  | 0, _, _, _, _, h => by simp [drawCommon] at h
  | f+1, input, foo, input', f', h => by
    unfold drawCommon at h
    simp only at h
    cases jac with
    | false =>
      simp only [Bool.false_eq_true, if_false] at h ⊢
      by_cases hok : ((beVal (fit mnsize (O.g (bytesOf input) mnsize)) : Int) % m).gcd m = 1
      · simp only [hok, beq_self_eq_true, if_true, Except.ok.injEq, Prod.mk.injEq] at h
        rw [← h.1]
        exact ⟨Int.emod_nonneg _ (ne_of_gt hm), Int.emod_lt_of_pos _ hm, hok⟩
      · have hb : ((((beVal (fit mnsize (O.g (bytesOf input) mnsize)) : Int) % m).gcd m == 1) = true) = False := by
          simp [hok]
        simp only [hb, if_false] at h
        have := drawCommon_spec O m hm mnsize false f _ foo input' f' h
        simpa using this
    | true =>
      simp only [if_true] at h ⊢
      by_cases hok : jacobi ((beVal (fit mnsize (O.g (bytesOf input) mnsize)) : Int) % m) m.natAbs = 1
      · simp only [hok, beq_self_eq_true, if_true, Except.ok.injEq, Prod.mk.injEq] at h
        rw [← h.1]
        exact ⟨Int.emod_nonneg _ (ne_of_gt hm), Int.emod_lt_of_pos _ hm, hok⟩
      · have hb : ((jacobi ((beVal (fit mnsize (O.g (bytesOf input) mnsize)) : Int) % m) m.natAbs == 1) = true) = False := by
          simp [hok]
        simp only [hb, if_false] at h
        have := drawCommon_spec O m hm mnsize true f _ foo input' f' h
        simpa using this

/-- helper: from `x ≡ y` to the shape `roundOk` tests -/
theorem emod_sub_zero {m x y : Int} (h : x ≡ y [ZMOD m]) : (x % m - y) % m = 0 := by
  have h1 : x % m ≡ y [ZMOD m] := (Int.mod_modEq x m).trans h
  exact Int.emod_eq_zero_of_dvd (Int.ModEq.dvd h1.symm)

theorem emod_add_zero {m x y : Int} (h : x ≡ -y [ZMOD m]) : (x % m + y) % m = 0 := by
  have := emod_sub_zero h
  rwa [sub_neg_eq_add] at this

/-- the square root the prover takes (`tmcg_mpz_sqrtmn_r`) squares to its argument -/
theorem rootOf_sq (K : SecKey) (hG : GenKey K) (a b : Int) (hqr : qrmn a K.p K.q = true) (h : rootOf K a = .ok b) :
    b * b ≡ a [ZMOD K.m] := by
  obtain ⟨p, q, hp, hq, hm, pp, pq, hne, h4p, h4q, -⟩ := GenKey.nat K hG
  unfold rootOf at h
  cases hs : sqrtmnR a K.p K.q K.m [] with
  | error e => rw [hs] at h; simp at h
  | ok v =>
    obtain ⟨r, rest⟩ := v
    rw [hs] at h
    simp only [Except.ok.injEq] at h
    rw [← h]
    rw [qrmn_iff, hp, hq] at hqr
    simp only [Int.natAbs_natCast] at hqr
    rw [hp, hq, hm] at hs
    rw [hm]
    push_cast at hs ⊢
    exact sqrtmnR_sq p q pp pq hne (by omega) (by omega) a hqr.1 hqr.2 [] r rest hs

/-! ### completeness of the three NIZK stages: the prover's answer passes the verifier's test -/

open Nat in
theorem euler_inverse (p q : Nat) (hp : p.Prime) (hq : q.Prime) (hne : p ≠ q) (F e : Nat)
    (hF : Nat.Coprime F (p * q)) (he : (p * q * e) % ((p - 1) * (q - 1)) = 1) :
    F ^ (e * (p * q)) ≡ F [MOD p * q] := by
  have hφ : φ (p * q) = (p - 1) * (q - 1) := by
    rw [Nat.totient_mul ((Nat.coprime_primes hp hq).mpr hne), Nat.totient_prime hp, Nat.totient_prime hq]
  have hsplit := Nat.div_add_mod (p * q * e) ((p - 1) * (q - 1))
  rw [he] at hsplit
  have : e * (p * q) = (p - 1) * (q - 1) * (p * q * e / ((p - 1) * (q - 1))) + 1 := by
    rw [hsplit]; ring
  rw [this, pow_succ, pow_mul, ← hφ]
  have h1 := (Nat.ModEq.pow_totient hF).pow (p * q * e / φ (p * q))
  rw [one_pow] at h1
  have := h1.mul_right F
  rwa [one_mul] at this

/-- stage 1 (`m` square free): `bar = foo^(m⁻¹ mod φ(m))` satisfies `bar^m ≡ foo` -/
theorem response_ok1 (K : SecKey) (hG : GenKey K) (P : Pre) (hpre : precompute K = some P) (foo b : Int)
    (h0 : 0 ≤ foo) (hlt : foo < K.m) (hg : Int.gcd foo K.m = 1) (h : response K P 1 foo = .ok b) :
    roundOk 1 K.m K.y foo b = true := by
  obtain ⟨p, q, hp, hq, hm, pp, pq, hne, h4p, h4q, -⟩ := GenKey.nat K hG
  have hmpos : 0 < K.m := by rw [hG.blum.m_eq]; exact Int.mul_pos hG.blum.p_pos hG.blum.q_pos
  -- the exponent
  have hinv : ∃ e : Nat, P.m1pq = e ∧ (p * q * e) % ((p - 1) * (q - 1)) = 1 := by
    unfold precompute at hpre
    cases h1 : invm K.y K.m with
    | none => simp [h1] at hpre
    | some y1 =>
      cases h2 : invm K.m (K.m - K.p - K.q + 1) with
      | none => simp [h1, h2] at hpre
      | some m1 =>
        rcases hgc : gcdext K.p K.q with ⟨g, u, v⟩
        simp only [h1, h2, hgc] at hpre
        by_cases hg1 : g = 1
        · simp only [hg1, ne_eq, not_true_eq_false, if_false, Option.some.injEq] at hpre
          subst hpre
          obtain ⟨a0, -, ac⟩ := invm_some h2
          refine ⟨m1.toNat, (Int.toNat_of_nonneg a0).symm, ?_⟩
          have h2p := pp.two_le; have h2q := pq.two_le
          have hφ : K.m - K.p - K.q + 1 = (((p - 1) * (q - 1) : Nat) : Int) := by
            rw [hm, hp, hq]; push_cast [Nat.cast_sub (by omega : 1 ≤ p), Nat.cast_sub (by omega : 1 ≤ q)]; ring
          rw [hφ, hm] at ac
          have e1 : ((p * q : Nat) : Int) * m1 = ((p * q * m1.toNat : Nat) : Int) := by
            push_cast; rw [Int.toNat_of_nonneg a0]
          rw [e1] at ac
          have ac' : p * q * m1.toNat ≡ 1 [MOD (p - 1) * (q - 1)] := by
            have : ((p * q * m1.toNat : Nat) : Int) ≡ ((1 : Nat) : Int) [ZMOD (((p - 1) * (q - 1) : Nat) : Int)] := by
              simpa using ac
            exact Int.natCast_modEq_iff.mp this
          have hbig : 1 < (p - 1) * (q - 1) := by
            have : 2 ≤ p - 1 := by omega
            have : 2 ≤ q - 1 := by omega
            nlinarith
          rw [Nat.ModEq, Nat.mod_eq_of_lt hbig] at ac'
          exact ac'
        · simp [hg1] at hpre
  obtain ⟨e, he, hinv⟩ := hinv
  unfold response at h
  simp only [if_true] at h
  rw [he, mpzPowm_ok _ _ _ hmpos (by omega)] at h
  simp only [Except.ok.injEq, Int.toNat_natCast] at h
  unfold roundOk
  simp only [if_true]
  rw [mpzPowm_ok _ _ _ hmpos hmpos.le, ← h]
  simp only [beq_iff_eq]
  -- foo = (foo^e % m)^m % m
  have hmn : K.m.toNat = p * q := by rw [hm]; exact Int.toNat_natCast _
  rw [hmn]
  have hF : Nat.Coprime foo.toNat (p * q) := by
    have : Int.gcd foo K.m = Nat.gcd foo.toNat (p * q) := by
      rw [hm]
      conv_lhs => rw [← Int.toNat_of_nonneg h0]
      exact Int.gcd_natCast_natCast _ _
    rw [this] at hg; exact hg
  have hE := euler_inverse p q pp pq hne foo.toNat e hF hinv
  have hEi : ((foo.toNat ^ (e * (p * q)) : Nat) : Int) ≡ ((foo.toNat : Nat) : Int) [ZMOD ((p * q : Nat) : Int)] :=
    Int.natCast_modEq_iff.mpr hE
  rw [← hm] at hEi
  push_cast at hEi
  rw [Int.toNat_of_nonneg h0] at hEi
  have hpow : (foo ^ e % K.m) ^ (p * q) ≡ foo ^ (e * (p * q)) [ZMOD K.m] := by
    rw [pow_mul foo e (p * q)]; exact (Int.mod_modEq _ _).pow _
  have := (hpow.trans hEi)
  rw [Int.ModEq, Int.emod_eq_of_lt h0 hlt] at this
  exact this.symm

theorem gcd_prime_of_gcd (foo : Int) (p q : Nat) (h : Int.gcd foo ((p * q : Nat) : Int) = 1) :
    Int.gcd foo (p : Int) = 1 ∧ Int.gcd foo (q : Int) = 1 := by
  have h' : Int.gcd foo ((p : Int) * (q : Int)) = 1 := by rw [← Nat.cast_mul]; exact h
  exact ⟨TmcgOpen.gcd_of_gcd_mul_left h', TmcgOpen.gcd_of_gcd_mul_right h'⟩

/-- stage 2 (`m` a product of two prime powers): one of `±foo`, `±2foo` is a square, because `−1` is a
    non-residue modulo both primes and 2 is a residue modulo exactly one of them (`p ≢ q (mod 8)`);
    the prover's root of it passes the verifier's test -/
theorem response_ok2 (K : SecKey) (hG : GenKey K) (P : Pre) (foo b : Int)
    (hg : Int.gcd foo K.m = 1) (h : response K P 2 foo = .ok b) :
    roundOk 2 K.m K.y foo b = true := by
  obtain ⟨p, q, hp, hq, hm, pp, pq, hne, h4p, h4q, h8⟩ := GenKey.nat K hG
  have hp2 : p % 2 = 1 := by omega
  have hq2 : q % 2 = 1 := by omega
  rw [hm] at hg
  obtain ⟨gp, gq⟩ := gcd_prime_of_gcd foo p q hg
  have hs := jacobi_pm foo p hp2 gp
  have ht := jacobi_pm foo q hq2 gq
  have j2p := jacobi_two p hp2
  have j2q := jacobi_two q hq2
  have qi : ∀ x : Int, qrmn x K.p K.q = true ↔ jacobi x p = 1 ∧ jacobi x q = 1 := by
    intro x; rw [qrmn_iff, hp, hq]; simp
  have n1p : jacobi (-foo) p = - jacobi foo p := jacobi_neg foo p h4p
  have n1q : jacobi (-foo) q = - jacobi foo q := jacobi_neg foo q h4q
  have n2p : jacobi (-foo * 2) p = - jacobi foo p * jacobi 2 p := by rw [jacobi_mul _ _ p hp2, n1p]
  have n2q : jacobi (-foo * 2) q = - jacobi foo q * jacobi 2 q := by rw [jacobi_mul _ _ q hq2, n1q]
  have p2p : jacobi (foo * 2) p = jacobi foo p * jacobi 2 p := jacobi_mul _ _ p hp2
  have p2q : jacobi (foo * 2) q = jacobi foo q * jacobi 2 q := jacobi_mul _ _ q hq2
  unfold response at h
  simp only [show ¬ ((2 : Nat) = 1) by decide, if_false, if_true] at h
  unfold roundOk
  simp only [show ¬ ((2 : Nat) = 1) by decide, if_false, if_true, Bool.or_eq_true, beq_iff_eq]
  by_cases c1 : qrmn foo K.p K.q = true
  · rw [if_pos c1] at h
    exact .inl (.inl (.inl (emod_sub_zero (rootOf_sq K hG _ b c1 h))))
  rw [if_neg c1] at h
  by_cases c2 : qrmn (-foo) K.p K.q = true
  · rw [if_pos c2] at h
    exact .inl (.inl (.inr (emod_add_zero (rootOf_sq K hG _ b c2 h))))
  rw [if_neg c2] at h
  by_cases c3 : qrmn (-foo * 2) K.p K.q = true
  · rw [if_pos c3] at h
    have := rootOf_sq K hG _ b c3 h
    rw [show -foo * 2 = -(2 * foo) by ring] at this
    exact .inl (.inr (emod_add_zero this))
  rw [if_neg c3] at h
  by_cases c4 : qrmn (foo * 2) K.p K.q = true
  · rw [if_pos c4] at h
    have := rootOf_sq K hG _ b c4 h
    rw [show foo * 2 = 2 * foo by ring] at this
    exact .inr (emod_sub_zero this)
  -- impossible: one of the four is a residue
  exfalso
  rw [qi] at c1 c2 c3 c4
  rw [n1p, n1q] at c2
  rw [n2p, n2q] at c3
  rw [p2p, p2q] at c4
  have hp8 : p % 8 = 3 ∨ p % 8 = 7 := by omega
  have hq8 : q % 8 = 3 ∨ q % 8 = 7 := by omega
  rcases hp8 with e1 | e1 <;> rcases hq8 with e2 | e2
  · exact h8 (by rw [e1, e2])
  · rw [if_neg (by omega)] at j2p; rw [if_pos (by omega)] at j2q
    rw [j2p, j2q] at c3 c4
    rcases hs with s | s <;> rcases ht with t | t <;> simp only [s, t] at c1 c2 c3 c4 <;> revert c1 c2 c3 c4 <;> norm_num
  · rw [if_pos (by omega)] at j2p; rw [if_neg (by omega)] at j2q
    rw [j2p, j2q] at c3 c4
    rcases hs with s | s <;> rcases ht with t | t <;> simp only [s, t] at c1 c2 c3 c4 <;> revert c1 c2 c3 c4 <;> norm_num
  · exact h8 (by rw [e1, e2])

/-- stage 3 (`y` a non-residue with Jacobi symbol 1): `foo` or `foo·y` is a square -/
theorem response_ok3 (K : SecKey) (hG : GenKey K) (P : Pre) (foo b : Int)
    (hj : jacobi foo K.m.natAbs = 1) (h : response K P 3 foo = .ok b) :
    roundOk 3 K.m K.y foo b = true := by
  obtain ⟨p, q, hp, hq, hm, pp, pq, hne, h4p, h4q, h8⟩ := GenKey.nat K hG
  have hp2 : p % 2 = 1 := by omega
  have hq2 : q % 2 = 1 := by omega
  obtain ⟨yp, yq⟩ := GenKey.y_both K hG p q hp hq hm hp2 hq2
  rw [hm, Int.natAbs_natCast, jacobi_mul_right _ p q hp2 hq2] at hj
  have qi : ∀ x : Int, qrmn x K.p K.q = true ↔ jacobi x p = 1 ∧ jacobi x q = 1 := by
    intro x; rw [qrmn_iff, hp, hq]; simp
  unfold response at h
  simp only [show ¬ ((3 : Nat) = 1) by decide, show ¬ ((3 : Nat) = 2) by decide, if_false] at h
  unfold roundOk
  simp only [show ¬ ((3 : Nat) = 1) by decide, show ¬ ((3 : Nat) = 2) by decide, if_false, Bool.or_eq_true, beq_iff_eq]
  by_cases c1 : qrmn foo K.p K.q = true
  · rw [if_pos c1] at h
    exact .inl (emod_sub_zero (rootOf_sq K hG _ b c1 h))
  · rw [if_neg c1] at h
    right
    have hboth : jacobi foo p = -1 ∧ jacobi foo q = -1 := by
      rcases both_of_mul_one _ _ (jacobi_tri _ p hp2) (jacobi_tri _ q hq2) hj with ⟨a, b'⟩ | ⟨a, b'⟩
      · exact absurd ((qi foo).mpr ⟨a, b'⟩) c1
      · exact ⟨a, b'⟩
    have c2 : qrmn (foo * K.y % K.m) K.p K.q = true := by
      rw [qi]
      have dp : (p : Int) ∣ K.m := by rw [hm]; push_cast; exact dvd_mul_right _ _
      have dq : (q : Int) ∣ K.m := by rw [hm]; push_cast; exact dvd_mul_left _ _
      rw [jacobi_emod_dvd _ _ _ dp, jacobi_emod_dvd _ _ _ dq, jacobi_mul _ _ p hp2, jacobi_mul _ _ q hq2,
        hboth.1, hboth.2, yp, yq]
      norm_num
    exact emod_sub_zero (rootOf_sq K hG _ b c2 h)

/-! ### the proof text is read back by the verifier -/

theorem response_ok (O : Oracles) (K : SecKey) (hG : GenKey K) (P : Pre) (hpre : precompute K = some P)
    (mnsize kind : Nat) (hk : kind = 1 ∨ kind = 2 ∨ kind = 3) (fuel : Nat) (input : Text)
    (foo : Int) (input' : Text) (fuel' : Nat) (b : Int)
    (hd : drawCommon O K.m mnsize (kind == 3) fuel input = .ok (foo, input', fuel'))
    (hr : response K P kind foo = .ok b) : roundOk kind K.m K.y foo b = true := by
  have hmpos : 0 < K.m := by rw [hG.blum.m_eq]; exact Int.mul_pos hG.blum.p_pos hG.blum.q_pos
  obtain ⟨h0, hlt, hprop⟩ := drawCommon_spec O K.m hmpos mnsize _ fuel input foo input' fuel' hd
  rcases hk with rfl | rfl | rfl
  · exact response_ok1 K hG P hpre foo b h0 hlt (by simpa using hprop) hr
  · exact response_ok2 K hG P foo b (by simpa using hprop) hr
  · exact response_ok3 K hG P foo b (by simpa using hprop) hr

theorem intField_str62 (b : Int) (rest : Text) : intField (str62 b ++ '^' :: rest) '^' = some (b, rest) := by
  have hb : '^' ∉ str62 b := Codec.hat_notMem_str62 b
  unfold intField field
  rw [Codec.gs_split _ _ '^' hb, Codec.nx_split _ _ '^' hb]
  simp only
  have : parse62 (str62 b) = some b := by
    unfold parse62 str62
    have : String.ofList (Codec.str62 b).toList = Codec.str62 b := by simp
    rw [this, Codec.parse62_str62]
  rw [this]

/-- the rounds the prover appends are accepted by the verifier, which ends in the same state -/
theorem proveRounds_complete (O : Oracles) (K : SecKey) (hG : GenKey K) (P : Pre) (hpre : precompute K = some P)
    (mnsize kind : Nat) (hk : kind = 1 ∨ kind = 2 ∨ kind = 3) :
    ∀ (n fuel : Nat) (input acc acc' input' : Text) (fuel' : Nat),
      proveRounds O K P mnsize kind n fuel input acc = .ok (acc', input', fuel') →
      ∃ Δ : Text, acc' = acc ++ Δ ∧ ∀ tail : Text,
        stageRounds O K.m K.y mnsize kind n fuel (Δ ++ tail) input = .ok (some (tail, input', fuel'))
  | 0, fuel, input, acc, acc', input', fuel', h => by
    simp only [proveRounds, Except.ok.injEq, Prod.mk.injEq] at h
    obtain ⟨rfl, rfl, rfl⟩ := h
    exact ⟨[], by simp, fun tail => by simp [stageRounds]⟩
  | n+1, fuel, input, acc, acc', input', fuel', h => by
    unfold proveRounds at h
    cases hd : drawCommon O K.m mnsize (kind == 3) fuel input with
    | error e => rw [hd] at h; simp at h
    | ok v =>
      obtain ⟨foo, input1, fuel1⟩ := v
      rw [hd] at h
      simp only at h
      cases hr : response K P kind foo with
      | error e => rw [hr] at h; simp at h
      | ok b =>
        rw [hr] at h
        simp only at h
        obtain ⟨Δ', hacc, hst⟩ := proveRounds_complete O K hG P hpre mnsize kind hk n fuel1 input1 _ acc' input' fuel' h
        refine ⟨str62 b ++ '^' :: Δ', by rw [hacc]; simp [List.append_assoc], fun tail => ?_⟩
        unfold stageRounds
        rw [hd]
        simp only
        have e : str62 b ++ '^' :: Δ' ++ tail = str62 b ++ '^' :: (Δ' ++ tail) := by simp [List.append_assoc]
        rw [e, intField_str62]
        simp only
        rw [if_pos (response_ok O K hG P hpre mnsize kind hk fuel input foo input1 fuel1 b hd hr)]
        exact hst tail

theorem field_dec (n : Nat) (rest : Text) : field (dec n ++ '^' :: rest) '^' = some (dec n, rest) := by
  have hb : '^' ∉ dec n := Codec.hat_notMem_toString n
  unfold field
  rw [Codec.gs_split _ _ '^' hb, Codec.nx_split _ _ '^' hb]

/-- a complete stage: the count field followed by exactly the required number of rounds -/
theorem stage_complete (O : Oracles) (K : SecKey) (hG : GenKey K) (P : Pre) (hpre : precompute K = some P)
    (mnsize kind : Nat) (hk : kind = 1 ∨ kind = 2 ∨ kind = 3) (n : Nat) (hn0 : 0 < n) (hn : n < 2 ^ 64)
    (fuel : Nat) (input acc acc' input' : Text) (fuel' : Nat)
    (h : proveRounds O K P mnsize kind n fuel input (acc ++ dec n ++ hat) = .ok (acc', input', fuel')) :
    ∃ Δ : Text, acc' = acc ++ (dec n ++ '^' :: Δ) ∧ ∀ tail : Text,
      stage O K.m K.y mnsize kind n fuel (dec n ++ '^' :: (Δ ++ tail)) input = .ok (some (tail, input', fuel')) := by
  obtain ⟨Δ, hacc, hst⟩ := proveRounds_complete O K hG P hpre mnsize kind hk n fuel input _ acc' input' fuel' h
  refine ⟨Δ, by rw [hacc]; simp [hat, List.append_assoc], fun tail => ?_⟩
  unfold stage stageSize
  rw [field_dec]
  simp only
  have : Codec.strtoulFull (dec n) = some n := Codec.strtoulFull_toString n hn
  rw [this]
  simp only
  rw [if_neg (by omega)]
  exact hst tail

/-- **completeness of the key NIZK** (C03, prover side): the proof text the prover of `generate`
    writes for a key of the NIZK type passes all three stages of the verifier in `check` -/
theorem checkNizk_complete (O : Oracles) (K : SecKey) (hG : GenKey K) (P : Pre) (hpre : precompute K = some P)
    (fuel : Nat) (nz : Text)
    (h : nizkProve O { K with nizk := [], sig := [] } P true fuel = .ok nz) :
    checkNizk O { K.pub with nizk := nz } fuel = .ok true := by
  have hG' : GenKey { K with nizk := [], sig := [] } :=
    ⟨⟨hG.blum.p_pos, hG.blum.q_pos, hG.blum.p_prime, hG.blum.q_prime, hG.blum.p3, hG.blum.q3, hG.blum.ne, hG.blum.m_eq⟩,
      hG.mod8, hG.jy, hG.ynq, hG.ypos, hG.safe_p, hG.safe_q⟩
  have hpre' : precompute { K with nizk := [], sig := [] } = some P := hpre
  unfold nizkProve at h
  simp only [if_true] at h
  cases h1 : proveRounds O { K with nizk := [], sig := [] } P (bitlen K.m / 8) 1 Gen.TMCG_KEY_NIZK_STAGE1 fuel
      (str62 K.m ++ hat ++ str62 K.y) (txt "nzk^" ++ dec Gen.TMCG_KEY_NIZK_STAGE1 ++ hat) with
  | error e => rw [h1] at h; simp at h
  | ok v1 =>
    obtain ⟨t1, i1, f1⟩ := v1
    rw [h1] at h
    simp only at h
    cases h2 : proveRounds O { K with nizk := [], sig := [] } P (bitlen K.m / 8) 2 Gen.TMCG_KEY_NIZK_STAGE2 f1 i1
        (t1 ++ dec Gen.TMCG_KEY_NIZK_STAGE2 ++ hat) with
    | error e => rw [h2] at h; simp at h
    | ok v2 =>
      obtain ⟨t2, i2, f2⟩ := v2
      rw [h2] at h
      simp only at h
      cases h3 : proveRounds O { K with nizk := [], sig := [] } P (bitlen K.m / 8) 3 Gen.TMCG_KEY_NIZK_STAGE3 f2 i2
          (t2 ++ dec Gen.TMCG_KEY_NIZK_STAGE3 ++ hat) with
      | error e => rw [h3] at h; simp at h
      | ok v3 =>
        obtain ⟨t3, i3, f3⟩ := v3
        rw [h3] at h
        simp only [Except.ok.injEq] at h
        obtain ⟨Δ1, a1, s1⟩ := stage_complete O _ hG' P hpre' (bitlen K.m / 8) 1 (.inl rfl) _ (by decide) (by decide)
          fuel _ (txt "nzk^") t1 i1 f1 h1
        obtain ⟨Δ2, a2, s2⟩ := stage_complete O _ hG' P hpre' (bitlen K.m / 8) 2 (.inr (.inl rfl)) _ (by decide) (by decide)
          f1 _ t1 t2 i2 f2 h2
        obtain ⟨Δ3, a3, s3⟩ := stage_complete O _ hG' P hpre' (bitlen K.m / 8) 3 (.inr (.inr rfl)) _ (by decide) (by decide)
          f2 _ t2 t3 i3 f3 h3
        have hnz : nz = "nzk".toList ++ '^' :: (dec Gen.TMCG_KEY_NIZK_STAGE1 ++ '^' :: (Δ1 ++
            (dec Gen.TMCG_KEY_NIZK_STAGE2 ++ '^' :: (Δ2 ++ (dec Gen.TMCG_KEY_NIZK_STAGE3 ++ '^' :: (Δ3 ++ [])))))) := by
          rw [← h, a3, a2, a1]; simp [txt, List.append_assoc]
        unfold checkNizk
        simp only
        rw [hnz, Codec.cm_split "nzk" _ '^' (by decide)]
        simp only
        have em : K.pub.m = K.m := rfl
        have ey : K.pub.y = K.y := rfl
        simp only [em, ey]
        have e0 : str62 K.m ++ ['^'] ++ str62 K.y = str62 K.m ++ hat ++ str62 K.y := rfl
        rw [e0]
        have s1' := s1 (dec Gen.TMCG_KEY_NIZK_STAGE2 ++ '^' :: (Δ2 ++ (dec Gen.TMCG_KEY_NIZK_STAGE3 ++ '^' :: (Δ3 ++ []))))
        have s2' := s2 (dec Gen.TMCG_KEY_NIZK_STAGE3 ++ '^' :: (Δ3 ++ []))
        have s3' := s3 []
        simp only at s1' s2' s3'
        rw [s1']
        simp only
        rw [s2']
        simp only
        rw [s3']

/-! ### `check (generate …) = true` -/

theorem hasNizk_digits : ∀ ds : Text, (∀ c ∈ ds, c ≠ 'N') → hasNizk ds = false
  | [], _ => rfl
  | c :: cs, h => by
    have hc : c ≠ 'N' := h c (by simp)
    have ih := hasNizk_digits cs (fun x hx => h x (by simp [hx]))
    unfold hasNizk
    rw [ih]
    simp [txt, List.isPrefixOf, Ne.symm hc]

theorem dec_no_N (n : Nat) : ∀ c ∈ dec n, c ≠ 'N' := by
  intro c hc
  unfold dec at hc
  rw [Codec.toString_toList] at hc
  obtain ⟨d, hd, rfl⟩ := (Codec.toDigits10_spec n).1 c hc
  have := (Codec.digitChar_facts d hd).2.1
  intro e; rw [e] at this; exact absurd this (by decide)

theorem hasNizk_type_false (n : Nat) : hasNizk (typeText n false) = false := by
  have hd := hasNizk_digits (dec n) (dec_no_N n)
  unfold typeText
  simp only [Bool.false_eq_true, if_false, List.append_nil]
  have e : txt "TMCG/RABIN_" ++ dec n =
      'T' :: 'M' :: 'C' :: 'G' :: '/' :: 'R' :: 'A' :: 'B' :: 'I' :: 'N' :: '_' :: dec n := rfl
  rw [e]
  simp [hasNizk, txt, List.isPrefixOf, hd]

theorem hasNizk_append (a b : Text) : hasNizk (a ++ (txt "NIZK" ++ b)) = true := by
  induction a with
  | nil =>
    have : txt "NIZK" ++ b = 'N' :: 'I' :: 'Z' :: 'K' :: b := rfl
    rw [List.nil_append, this]
    simp [hasNizk, txt, List.isPrefixOf]
  | cons c cs ih =>
    rw [List.cons_append]
    unfold hasNizk
    rw [ih]; simp

theorem hasNizk_type_true (n : Nat) : hasNizk (typeText n true) = true := by
  unfold typeText
  simp only [if_true]
  have : txt "TMCG/RABIN_" ++ dec n ++ txt "_NIZK" = (txt "TMCG/RABIN_" ++ dec n ++ ['_']) ++ (txt "NIZK" ++ []) := by
    simp [txt, List.append_assoc]
  rw [this]; exact hasNizk_append _ _

/-- **`check_generate`** (completeness of key validation): with a sound primality oracle, every key
    `generate` returns — of the plain and of the NIZK type, for every coin stream on which
    generation terminates and arbitrary hash oracles — passes `check`, run with the same fuel.
    (`KeyIdOk`: the self-signature value has at least 8 base-62 digits; otherwise the key id
    `generate` writes is shorter than it declares and the real `check` refuses the key as well.) -/
theorem check_generate (O : Oracles) (isPrime : Int → Bool) (hO : OracleSound isPrime) (name email : Text)
    (keysize : Nat) (nizk : Bool) (fuel : Nat) (coins : List Bytes) (K : SecKey)
    (h : generate O isPrime name email keysize nizk fuel coins = .ok K) (hid : KeyIdOk K.sig) :
    check O isPrime K.pub fuel = .ok true := by
  obtain ⟨hG, -, -⟩ := generate_blum O isPrime hO name email keysize nizk fuel coins K h
  obtain ⟨p0, q0, coins1, rest, P, sig0, -, -, -, -, -, -, htype, -, hpre, hnz, -, -⟩ :=
    generate_parts O isPrime name email keysize nizk fuel coins K h
  obtain ⟨p, q, hp, hq, hm, pp, pq, hne, h4p, h4q, -⟩ := GenKey.nat K hG
  have hmpos : 0 < K.m := by rw [hG.blum.m_eq]; exact Int.mul_pos hG.blum.p_pos hG.blum.q_pos
  have hsig := generate_selfsig O isPrime hO name email keysize nizk fuel coins K h hid
  have em : K.pub.m = K.m := rfl
  have ey : K.pub.y = K.y := rfl
  have es : K.pub.sig = K.sig := rfl
  have et : K.pub.type = K.type := rfl
  unfold check
  rw [em, ey, es, et]
  have c1 : ¬ (K.m % 2 = 0) := by
    rw [hm]
    have : (p * q) % 2 = 1 := by rw [Nat.mul_mod]; have : p % 2 = 1 := by omega
                                 have : q % 2 = 1 := by omega
                                 simp [*]
    omega
  have c2 : ¬ (kronecker K.y K.m ≠ 1) := by
    unfold kronecker
    rw [if_neg (by omega)]
    simpa using hG.jy
  have c3 : ¬ (isPrime K.m = true) := by
    intro hpr
    rw [hm] at hpr
    have := hO (p * q) hpr
    exact Nat.not_prime_mul (by have := pp.two_le; omega) (by have := pq.two_le; omega) this
  have c4 : ¬ (¬ verify O K.m K.sig (bytesOf (selfData K.pub)) K.sig = true) := by simpa using hsig
  have c5 : ¬ (fermatReject K.m = true) := by rw [fermatReject_false K.m hmpos]; simp
  have c0 : ¬ (K.m ≤ 0) := by omega
  rw [if_neg c0, if_neg c1, if_neg c2, if_neg c3, if_neg c4, if_neg c5]
  cases nizk with
  | false =>
    have : hasNizk K.type = false := by rw [htype]; exact hasNizk_type_false keysize
    simp [this]
  | true =>
    have : hasNizk K.type = true := by rw [htype]; exact hasNizk_type_true keysize
    simp only [this, not_true_eq_false, if_false]
    have := checkNizk_complete O K hG P hpre fuel K.nizk hnz
    exact this

end Tmcg.RabinGenProofs
