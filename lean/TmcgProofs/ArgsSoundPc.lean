import TmcgProofs.ArgsSoundCount
import TmcgProofs.ArgsSoundVrhe
/-
  C04 for the shuffle and rotation arguments, part 7: the public-coin mode (every challenge is a
  two-party coin flip `JareckiLysyanskayaEDCF::Flip_twoparty` in the group of a CRS `C`), honest
  prover algorithm with a witness that need not fit.  The challenge values are
  `(c_P + c_V) mod q'` of the two parties' shares, cut to `ℓ_e` bits (Groth) resp. reduced modulo `q`
  (rotation argument).
-/
namespace Tmcg.Args
open Tmcg Tmcg.Powm Tmcg.Vtmf Tmcg.Grp Tmcg.Sigma Tmcg.SigmaComplete Tmcg.CoinFlip Tmcg.CoinProofs Tmcg.ArgsSound
variable {G : Group} [Fact (Nat.Prime G.p.natAbs)] [Fact (Nat.Prime G.q.natAbs)]
set_option linter.unusedVariables false
set_option linter.unusedSectionVars false

/-- the flipped value of one coin, cut to `ℓ_e` bits -/
def pcVal (P : GrothPub) (C : Crs) (y : (ℤ × ℤ) × (ℤ × ℤ)) : ℤ := tdivR2exp ((y.1.1 + y.2.1) % C.q) P.le

theorem tVals_const (P : GrothPub) (e E : List Card) (c cd : ℤ) (Ed : Card) :
    ∀ (A : List ChalSrc) (L : List ℤ) (i : ℕ) (prev : ℤ),
    (∀ hin, A.map (fun d => d.val hin) = L) → tVals P e E c cd Ed A i prev = L
  | [], L, i, prev, h => by have := h (fun _ => []); simp at this; subst this; rfl
  | d :: ds, L, i, prev, h => by
    match L, h with
    | [], h => have := h (fun _ => []); simp at this
    | l0 :: L', h =>
      have h0 : ∀ hin, d.val hin = l0 := fun hin => by have := h hin; simp at this; exact this.1
      have h1 : ∀ hin, ds.map (fun d => d.val hin) = L' := fun hin => by
        have := h hin; simp at this; exact this.2
      simp only [tVals, h0]
      rw [tVals_const P e E c cd Ed ds L' _ _ h1]

/-- **shuffle of known content, public-coin mode, honest algorithm with any witness** -/
theorem skc_sound_publiccoin (hG : ValidGroup G) {P : GrothPub} (hP : PubOk G P) (C : Crs)
    (hC : ValidCrs C) (pi : List ℕ)
    (m : List ℤ) (lpi : pi.length = m.length) (hn : 2 ≤ m.length) (hcg : m.length ≤ P.cg.length)
    (rho : ℤ) (pX vX pE vE : ℤ × ℤ)
    (hpX : InQ2 C.q [pX]) (hvX : InQ2 C.q [vX]) (hpE : InQ2 C.q [pE]) (hvE : InQ2 C.q [vE])
    (rd rDelta : ℤ) (d mid : List ℤ) (ra : ℤ) (rest : List ℤ)
    (hrd : 0 ≤ rd ∧ rd < G.q) (hrD : 0 ≤ rDelta ∧ rDelta < G.q) (hd : InQ G.q d)
    (hmid : InQ G.q mid) (hra : 0 ≤ ra ∧ ra < G.q) (ld : d.length = m.length)
    (lmid : mid.length = m.length - 2)
    (c alpha : ℤ) (fprime : List ℤ) (lfp : fprime.length = m.length) :
    ∃ (sentP sentV : List ℤ),
      run (done (skcProve (.pc C) P pi rho m))
        ⟨sentV.map some, flat2 [pX] ++ (rd :: rDelta :: (d ++ (mid ++ (ra :: (flat2 [pE] ++ rest))))), [], false⟩ =
        .ok ⟨sentP, true, false⟩ ∧
      ∀ o : PcOutcome, o.result = true →
        run (done (skcVerify (.pc C) P c fprime m))
          ⟨sentP.map some, flat2 [vX] ++ (flat2 [vE] ++ [alpha]), [], false⟩ = .ok o →
        SkcExc G P pi m rho c fprime (pcVal P C (pX, vX)) (pcVal P C (pE, vE)) alpha := by
  have : Fact (Nat.Prime (grp C).p.natAbs) := ⟨hC.valid.p_prime⟩
  obtain ⟨Xl, lX, hX, x1, x2, x3⟩ := gsrcPc_list P C hC false [pX] [vX] rfl hpX hvX
  obtain ⟨El, lE, hE, q1, q2, q3⟩ := gsrcPc_list P C hC true [pE] [vE] rfl hpE hvE
  match Xl, lX, hX, x1, x2, x3, El, lE, hE, q1, q2, q3 with
  | [dX], _, hX, x1, x2, x3, [dE], _, hE, q1, q2, q3 =>
    have hxv : ∀ hin, dX.val hin = pcVal P C (pX, vX) := by
      intro hin; have := x3 hin; simpa [pcVal] using this
    have hev : ∀ hin, dE.val hin = pcVal P C (pE, vE) := by
      intro hin; have := q3 hin; simpa [pcVal] using this
    have x1' : dX.pCoins = flat2 [pX] := by simpa using x1
    have x2' : dX.vCoins = flat2 [vX] := by simpa using x2
    have q1' : dE.pCoins = flat2 [pE] := by simpa using q1
    have q2' : dE.vCoins = flat2 [vE] := by simpa using q2
    obtain ⟨a, resp, la, hPr, hV⟩ := skc_sound_modes hG (.pc C) hP pi m lpi hn hcg rho dX dE
      (hX dX (by simp)) (hE dE (by simp))
      rd rDelta d mid ra rest hrd hrD hd hmid hra ld lmid c alpha fprime lfp [] [] false
    refine ⟨dX.pSent ++ a ++ dE.pSent ++ resp, dX.pPeer ++ dE.pPeer, ?_, ?_⟩
    · rw [← x1', ← q1']
      have e : (dX.pPeer ++ dE.pPeer).map some = dX.pPeer.map some ++ (dE.pPeer.map some ++ []) := by simp
      rw [e]
      have : run (done (skcProve (.pc C) P pi rho m))
          ⟨dX.pPeer.map some ++ (dE.pPeer.map some ++ []),
            dX.pCoins ++ (rd :: rDelta :: (d ++ (mid ++ (ra :: (dE.pCoins ++ rest))))), [], false⟩ =
          run (pure true) ⟨[], rest, [] ++ dX.pSent ++ a ++ dE.pSent ++ resp, false⟩ := run_bind_ok hPr
      rw [this]
      simp [run, pure_apply]
    · intro o ho hrun
      rw [← x2', ← q2'] at hrun
      have := hV [] [] [] (pure true) o ho (by simpa [done] using hrun)
      rw [hxv, hev] at this
      exact this.1

/-- **shuffle argument, public-coin mode, honest algorithm with any witness**: the challenges are
    the flipped coins `t_i`, `λ`, `x`, `e` (cut to `ℓ_e` bits) -/
theorem groth_sound_publiccoin (hG : ValidGroup G) {P : GrothPub} (hP : PubOk G P) (C : Crs)
    (hC : ValidCrs C) (pi : List ℕ) (R : List ℤ) (e E : List Card) (st : ShufAlg G P pi R e E)
    (pT vT : List (ℤ × ℤ)) (pL vL pX vX pE vE : ℤ × ℤ)
    (lpT : pT.length = pi.length) (lvT : vT.length = pi.length)
    (hpT : InQ2 C.q pT) (hvT : InQ2 C.q vT) (hpL : InQ2 C.q [pL]) (hvL : InQ2 C.q [vL])
    (hpX : InQ2 C.q [pX]) (hvX : InQ2 C.q [vX]) (hpE : InQ2 C.q [pE]) (hvE : InQ2 C.q [vE])
    (r Rd : ℤ) (d : List ℤ) (rd rd' rD' : ℤ) (d' mid : List ℤ) (ra : ℤ) (rest : List ℤ) (alpha : ℤ)
    (hr : 0 ≤ r ∧ r < G.q) (hRd : 0 ≤ Rd ∧ Rd < G.q) (hd : InQ G.q d) (hrd : 0 ≤ rd ∧ rd < G.q)
    (hrd' : 0 ≤ rd' ∧ rd' < G.q) (hrD' : 0 ≤ rD' ∧ rD' < G.q) (hd' : InQ G.q d') (hmid : InQ G.q mid)
    (hra : 0 ≤ ra ∧ ra < G.q) (ld : d.length = pi.length) (ld' : d'.length = pi.length)
    (lmid : mid.length = pi.length - 2) :
    ∃ (sentP sentV : List ℤ),
      run (done (grothProve (.pc C) P pi R e E))
        ⟨sentV.map some, r :: Rd :: (d ++ (rd :: (flat2 pT ++ (flat2 [pL] ++ (flat2 [pX] ++
          (rd' :: rD' :: (d' ++ (mid ++ (ra :: (flat2 [pE] ++ rest)))))))))), [], false⟩ =
        .ok ⟨sentP, true, false⟩ ∧
      ∀ o : PcOutcome, o.result = true →
        run (grothVerify (.pc C) P e E)
          ⟨sentP.map some, flat2 vT ++ (flat2 [vL] ++ (flat2 [vX] ++ (flat2 [vE] ++ [alpha]))), [], false⟩ =
          .ok o →
        GrothRel G P pi R e E ((pT.zip vT).map (pcVal P C)) ∧ toQ G (pcVal P C (pE, vE)) ≠ 0 ∧
          SkcRoot G pi (grothMsgs G.q (pcVal P C (pL, vL)) ((pT.zip vT).map (pcVal P C))) (pcVal P C (pX, vX)) := by
  have : Fact (Nat.Prime (grp C).p.natAbs) := ⟨hC.valid.p_prime⟩
  obtain ⟨T, lTT, hT, t1, t2, t3⟩ := gsrcPc_list P C hC false pT vT (by rw [lpT, lvT]) hpT hvT
  obtain ⟨Ll, lL, hL, l1, l2, l3⟩ := gsrcPc_list P C hC false [pL] [vL] rfl hpL hvL
  obtain ⟨Xl, lX, hX, x1, x2, x3⟩ := gsrcPc_list P C hC false [pX] [vX] rfl hpX hvX
  obtain ⟨El, lE, hE, q1, q2, q3⟩ := gsrcPc_list P C hC true [pE] [vE] rfl hpE hvE
  match Ll, lL, hL, l1, l2, l3, Xl, lX, hX, x1, x2, x3, El, lE, hE, q1, q2, q3 with
  | [dL], _, hL, l1, l2, l3, [dX], _, hX, x1, x2, x3, [dE], _, hE, q1, q2, q3 =>
    have hlv : ∀ hin, dL.val hin = pcVal P C (pL, vL) := by
      intro hin; have := l3 hin; simpa [pcVal] using this
    have hxv : ∀ hin, dX.val hin = pcVal P C (pX, vX) := by
      intro hin; have := x3 hin; simpa [pcVal] using this
    have hev : ∀ hin, dE.val hin = pcVal P C (pE, vE) := by
      intro hin; have := q3 hin; simpa [pcVal] using this
    obtain ⟨c, cd, Ed, f, Z, a, resp, t, msgs, lambda, x', ev', la, lf, lt, et, elam, emsgs, ex, eev, hPr, hV⟩ :=
      groth_sound_modes hG (.pc C) hP pi R e E st T (by rw [lTT, lpT]) hT dL dX dE
      (hL dL (by simp)) (hX dX (by simp)) (hE dE (by simp))
      r Rd d rd rd' rD' d' mid ra rest alpha hr hRd hd hrd hrd' hrD' hd' hmid hra ld ld' lmid
    have et' : t = (pT.zip vT).map (pcVal P C) := by
      rw [et]; exact tVals_const P e E c cd Ed T _ 0 _ (fun hin => by rw [t3 hin]; rfl)
    rw [hlv] at elam
    rw [hxv] at ex
    rw [hev] at eev
    subst et' elam
    subst emsgs ex eev
    refine ⟨[c, cd, Ed.c1, Ed.c2] ++ (T.flatMap ChalSrc.pSent ++ (f ++ (Z :: (dL.pSent ++ (dX.pSent ++
      (a ++ (dE.pSent ++ resp))))))), gVerifierLines T dL dX dE, ?_, ?_⟩
    · have : gProverCoins T dL dX dE r Rd d rd rd' rD' d' mid ra rest =
          r :: Rd :: (d ++ (rd :: (flat2 pT ++ (flat2 [pL] ++ (flat2 [pX] ++
          (rd' :: rD' :: (d' ++ (mid ++ (ra :: (flat2 [pE] ++ rest)))))))))) := by
        simp only [gProverCoins, t1, ← l1, ← x1, ← q1, List.flatMap_cons, List.flatMap_nil, List.append_nil]
      rw [← this]; exact hPr
    · have : gVerifierCoins T dL dX dE alpha =
          flat2 vT ++ (flat2 [vL] ++ (flat2 [vX] ++ (flat2 [vE] ++ [alpha]))) := by
        simp only [gVerifierCoins, t2, ← l2, ← x2, ← q2, List.flatMap_cons, List.flatMap_nil, List.append_nil]
      rw [← this]; exact hV

/-! ### the rotation argument -/

/-- the flipped value of one coin, reduced modulo `q` -/
def pcValQ (q : ℤ) (C : Crs) (y : (ℤ × ℤ) × (ℤ × ℤ)) : ℤ := (y.1.1 + y.2.1) % C.q % q

omit [Fact (Nat.Prime G.p.natAbs)] [Fact (Nat.Prime G.q.natAbs)] in
theorem srcPc_list_vals (q : ℤ) (hq : 0 < q) (C : Crs) [Fact (Nat.Prime (grp C).p.natAbs)] (hC : ValidCrs C) :
    ∀ (pcs vcs : List (ℤ × ℤ)), pcs.length = vcs.length → InQ2 C.q pcs → InQ2 C.q vcs →
    ∃ A : List ChalSrc, A.length = pcs.length ∧ (∀ d ∈ A, ChalOk (.pc C) q d) ∧
      A.flatMap ChalSrc.pCoins = flat2 pcs ∧ A.flatMap ChalSrc.vCoins = flat2 vcs ∧
      ∀ hin, A.map (fun d => d.val hin) = (pcs.zip vcs).map (pcValQ q C)
  | [], [], _, _, _ => ⟨[], rfl, by simp, rfl, rfl, fun _ => rfl⟩
  | x :: pcs, y :: vcs, hl, hp, hv => by
    obtain ⟨A, lA, hA, e1, e2, e3⟩ := srcPc_list_vals q hq C hC pcs vcs (by simpa using hl)
      (fun z hz => hp z (by simp [hz])) (fun z hz => hv z (by simp [hz]))
    obtain ⟨C0, C1, -, -, hd⟩ := srcPc_ok q hq C hC x.1 x.2 y.1 y.2 (hp x (by simp)).1 (hp x (by simp)).2
      (hv y (by simp)).1 (hv y (by simp)).2
    refine ⟨srcPc q C C0 C1 x.1 x.2 y.1 y.2 :: A, by simp [lA], ?_, ?_, ?_, ?_⟩
    · intro d hd'
      rcases List.mem_cons.mp hd' with rfl | h
      · exact hd
      · exact hA d h
    · simp [flat2, srcPc, e1, List.flatMap_cons] at *
    · simp [flat2, srcPc, e2, List.flatMap_cons] at *
    · intro hin; simp [srcPc, pcValQ, e3 hin]

omit [Fact (Nat.Prime G.p.natAbs)] [Fact (Nat.Prime G.q.natAbs)] in
theorem chainVals_const (base : List ℤ) : ∀ (A : List ChalSrc) (L : List ℤ) (i : ℕ) (prev : ℤ),
    (∀ hin, A.map (fun d => d.val hin) = L) → chainVals base A i prev = L
  | [], L, i, prev, h => by have := h (fun _ => []); simp at this; subst this; rfl
  | d :: ds, L, i, prev, h => by
    match L, h with
    | [], h => have := h (fun _ => []); simp at this
    | l0 :: L', h =>
      have h0 : ∀ hin, d.val hin = l0 := fun hin => by have := h hin; simp at this; exact this.1
      have h1 : ∀ hin, ds.map (fun d => d.val hin) = L' := fun hin => by
        have := h hin; simp at this; exact this.2
      simp only [chainVals, h0]
      rw [chainVals_const base ds L' _ _ h1]

omit [Fact (Nat.Prime G.q.natAbs)] in
/-- **rotation argument, public-coin mode, honest algorithm with any output stack**: the challenges
    `α_i` are the flipped coins reduced modulo `q` -/
theorem vrhe_sound_publiccoin (hG : ValidGroup G) (S : State) (hS : StateOk G S)
    (C : Crs) (hC : ValidCrs C)
    (r : ℕ) (s : List ℤ) (X Y : List Card) (st : RotAlg G S r s X Y)
    (pA vA : List (ℤ × ℤ)) (pL vL : ℤ × ℤ) (pB vB : List (ℤ × ℤ)) (pL2 vL2 : ℤ × ℤ)
    (lpA : pA.length = s.length) (lvA : vA.length = s.length)
    (lpB : pB.length = s.length) (lvB : vB.length = s.length)
    (hpA : InQ2 C.q pA) (hvA : InQ2 C.q vA) (hpL : InQ2 C.q [pL]) (hvL : InQ2 C.q [vL])
    (hpB : InQ2 C.q pB) (hvB : InQ2 C.q vB) (hpL2 : InQ2 C.q [pL2]) (hvL2 : InQ2 C.q [vL2])
    (ut opm : List ℤ) (u : ℤ) (lt rest : List ℤ)
    (hut : InQ G.q ut) (hopm : InQ G.q opm) (hu : 0 ≤ u ∧ u < G.q) (hlt : InQ G.q lt)
    (lut : ut.length = 2 * s.length) (lopm : opm.length = 3 * s.length)
    (llt : lt.length = 2 * (s.length - 1)) :
    ∃ (sentP sentV : List ℤ),
      run (done (vrheProve (.pc C) S r s X Y))
        ⟨sentV.map some, flat2 pA ++ (ut ++ (opm ++ (flat2 [pL] ++ (flat2 pB ++
          (u :: (lt ++ (flat2 [pL2] ++ rest))))))), [], false⟩ = .ok ⟨sentP, true, false⟩ ∧
      ∀ o : PcOutcome, o.result = true →
        run (vrheVerify (.pc C) S X Y)
          ⟨sentP.map some, flat2 vA ++ (flat2 [vL] ++ (flat2 vB ++ flat2 [vL2])), [], false⟩ = .ok o →
        RotRel G S r s X Y ((pA.zip vA).map (pcValQ S.G.q C)) := by
  have : Fact (Nat.Prime (grp C).p.natAbs) := ⟨hC.valid.p_prime⟩
  have hq : 0 < S.G.q := by rw [hS.grp]; exact hG.q_pos
  obtain ⟨A, lA, hA, a1, a2, a3⟩ := srcPc_list_vals S.G.q hq C hC pA vA (by rw [lpA, lvA]) hpA hvA
  obtain ⟨B, lB, hB, b1, b2⟩ := srcPc_list S.G.q hq C hC pB vB (by rw [lpB, lvB]) hpB hvB
  obtain ⟨L, lL, hL, c1, c2⟩ := srcPc_list S.G.q hq C hC [pL] [vL] rfl hpL hvL
  obtain ⟨L2, lL2, hL2, d1, d2⟩ := srcPc_list S.G.q hq C hC [pL2] [vL2] rfl hpL2 hvL2
  match L, lL, hL, c1, c2, L2, lL2, hL2, d1, d2 with
  | [dL], _, hL, c1, c2, [dL2], _, hL2, d1, d2 =>
    obtain ⟨sentP, hP, hV⟩ := vrhe_sound_modes hG (.pc C) S hS r s X Y st A (by rw [lA, lpA]) hA dL
      (hL dL (by simp)) B (by rw [lB, lpB]) hB dL2 (hL2 dL2 (by simp))
      ut opm u lt rest hut hopm hu hlt lut lopm llt
    rw [chainVals_const _ A _ 0 0 a3] at hV
    refine ⟨sentP, verifierLines A dL B dL2, ?_, ?_⟩
    · have : proverCoins A dL B dL2 ut opm u lt rest = flat2 pA ++ (ut ++ (opm ++ (flat2 [pL] ++
          (flat2 pB ++ (u :: (lt ++ (flat2 [pL2] ++ rest))))))) := by
        simp only [proverCoins, a1, b1, ← c1, ← d1, List.flatMap_cons, List.flatMap_nil, List.append_nil]
      rw [← this]; exact hP
    · have : verifierCoins A dL B dL2 = flat2 vA ++ (flat2 [vL] ++ (flat2 vB ++ flat2 [vL2])) := by
        simp only [verifierCoins, a2, b2, ← c2, ← d2, List.flatMap_cons, List.flatMap_nil, List.append_nil]
      rw [← this]; exact hV

end Tmcg.Args
