import TmcgProofs.RbcLiveL
/-
  C14 liveness, part M: which `recv` events really consume their message, and what a consumed
  message leaves in the state of the receiver.
-/
namespace Tmcg.Rbc
variable {H : Int → Int} {T : Tag → Int} {c : Cfg}

/-- A `recv` event hands its message to `dispatch` only if the `Deliver` iteration gets as far as
    reading the link, i.e. if no buffered message is let out of `deliver_buf` first (then
    `aiou->Receive` is not called at all in that iteration and the message stays in the link
    layer).  `drawsPermutation` of the model is exactly this condition. -/
def consumedBy (s : Sys) : Event → List (Nat × Nat × Msg)
  | .recv i src msg _ => if drawsPermutation (s.st i) then [(src, i, msg)] else []
  | _ => []

/-- the messages (source, destination, message) consumed in the run `evs` from `s` -/
def consumedFrom (H : Int → Int) (T : Tag → Int) (s : Sys) : List Event → List (Nat × Nat × Msg)
  | [] => []
  | ev :: rest => consumedBy s ev ++ consumedFrom H T (s.apply H T ev) rest

def consumed (H : Int → Int) (T : Tag → Int) (c : Cfg) (evs : List Event) : List (Nat × Nat × Msg) :=
  consumedFrom H T (Sys.init c) evs

theorem draws_iff (p : Party) :
    drawsPermutation p = true ↔ findFirst (deliverable p) p.deliverBuf = none := by
  unfold drawsPermutation phaseBuffer
  cases h : findFirst (deliverable p) p.deliverBuf with
  | none => simp
  | some er =>
    obtain ⟨e, rest⟩ := er
    simp only []
    cases aGet p.mbar e.tag <;> simp

/-- range conditions of a message, relative to the configuration -/
def WFc (c : Cfg) (msg : Msg) : Prop :=
  0 ≤ msg.sender ∧ msg.sender ≤ (c.n : Int) - 1 ∧ 1 ≤ msg.seq

/-- every consumed well-formed message has its first-time filter entry set at the receiver -/
def Flags (c : Cfg) (s : Sys) (cons : List (Nat × Nat × Msg)) : Prop :=
  ∀ src dst msg, (src, dst, msg) ∈ cons → c.honest dst → WFc c msg → Flagged (s.st dst) src msg

theorem event_flags (hy : Hyp H c) {s : Sys} (hr : Reach H T c s) (ev : Event) (hv : ev.Valid c s)
    {cons : List (Nat × Nat × Msg)} (ih : Flags c s cons) :
    Flags c (s.apply H T ev) (cons ++ consumedBy s ev) := by
  have hI := reach_inv hy hr
  -- filters only grow over the whole event
  have mono : ∀ j, FMono (s.st j) ((s.apply H T ev).st j) := by
    intro j
    cases ev with
    | bcast i v rnd => exact micro_fmono (Micro.bcast (H := H) (T := T) (c := c) s i hv v rnd) j
    | tick i pi =>
      rcases stepSys_micro (T := T) hI hv pi none (by intro l m h; cases h) with ⟨_, hm⟩ |
        ⟨_, s1, hm1, _, ⟨_, heq⟩ | ⟨l, msg, q', sd, o, h, _⟩⟩
      · exact micro_fmono hm j
      · show FMono (s.st j) ((stepSys H T s i pi none).st j)
        rw [heq]; exact micro_fmono hm1 j
      · cases h
    | recv i src msg pi =>
      obtain ⟨hi, hsrc, hin⟩ := hv
      rcases stepSys_micro (T := T) hI hi pi (some (src, msg)) (valid_input ⟨hsrc, hin⟩) with
        ⟨_, hm⟩ | ⟨_, s1, hm1, _, ⟨h, _⟩ | ⟨l, m, q', sd, o, _, _, hm2, _⟩⟩
      · exact micro_fmono hm j
      · cases h
      · exact (micro_fmono hm1 j).trans (micro_fmono hm2 j)
  intro src dst msg hmem hdst hwf
  rcases List.mem_append.1 hmem with h | h
  · exact (ih src dst msg h hdst hwf).mono (mono dst)
  · cases ev with
    | bcast i v rnd => cases h
    | tick i pi => cases h
    | recv i src0 msg0 pi =>
      obtain ⟨hi, hsrc, hin⟩ := hv
      have h : (src, dst, msg) ∈ (if drawsPermutation (s.st i) then [(src0, i, msg0)] else []) := h
      split_ifs at h with hdraw
      swap
      · cases h
      simp only [List.mem_singleton, Prod.mk.injEq] at h
      obtain ⟨rfl, rfl, rfl⟩ := h
      have hff := (draws_iff _).1 hdraw
      rcases stepSys_micro (T := T) hI hi pi (some (src, msg)) (valid_input ⟨hsrc, hin⟩) with
        ⟨hne, _⟩ | ⟨_, s1, hm1, hI1, ⟨h, _⟩ | ⟨l, m, q', sd, o, hinp, hD, _, heq⟩⟩
      · exact absurd hff hne
      · cases h
      · simp only [Option.some.injEq, Prod.mk.injEq] at hinp
        obtain ⟨rfl, rfl⟩ := hinp
        show Flagged ((stepSys H T s dst pi (some (src, msg))).st dst) src msg
        rw [heq]
        show Flagged (upd s1.st dst q' dst) src msg
        rw [upd_same]
        refine hD.flagged ?_
        obtain ⟨w0, w1, w2⟩ := hwf
        exact ⟨w0, by rw [(hI1.parties dst hi).cn]; exact w1, w2⟩

theorem runFrom_flags (hy : Hyp H c) : ∀ (evs : List Event) (s s' : Sys)
    (cons : List (Nat × Nat × Msg)), Reach H T c s → Flags c s cons →
    runFrom H T c s evs = some s' → Flags c s' (cons ++ consumedFrom H T s evs) := by
  intro evs
  induction evs with
  | nil =>
    intro s s' cons _ hf h
    simp only [runFrom, Option.some.injEq] at h
    subst h
    simpa [consumedFrom] using hf
  | cons ev rest ih =>
    intro s s' cons hr hf h
    unfold runFrom at h
    by_cases hv : ev.Valid c s
    · rw [if_pos hv] at h
      have := ih _ s' _ (Reach.step s ev hr hv) (event_flags hy hr ev hv hf) h
      unfold consumedFrom
      rw [← List.append_assoc]; exact this
    · rw [if_neg hv] at h; cases h

/-- in the final state of a run every consumed well-formed message has left its filter entry -/
theorem consumed_flagged (hy : Hyp H c) {evs : List Event} {s : Sys}
    (hrun : run H T c evs = some s) {src dst : Nat} {msg : Msg}
    (h : (src, dst, msg) ∈ consumed H T c evs) (hdst : c.honest dst) (hwf : WFc c msg) :
    Flagged (s.st dst) src msg := by
  have := runFrom_flags (T := T) hy evs (Sys.init c) s [] Reach.init
    (by intro _ _ _ h; cases h) hrun
  exact this src dst msg (by simpa [consumed] using h) hdst hwf

end Tmcg.Rbc
