import TmcgProofs.JlInv
import TmcgProofs.JlArith
import TmcgProofs.JlT0
/-
  C17, multi-party part: transition round 4 (jlResolve) of the run invariants (TmcgProofs/JlInv.lean).
-/
namespace Tmcg.JlProofs
open Tmcg Tmcg.Powm Tmcg.Vtmf Tmcg.Grp Tmcg.Jl

variable {G : Jl.Grp} {ins : List PartyIn} {n t : Nat}

namespace T4
set_option linter.unusedSectionVars false

theorem t4_popQ_head (tag : Tag) (v : Int) (r : List (Tag × Int)) :
    popQ tag ((tag, v) :: r) = (some v, r) := by
  simp [popQ, removeFirst_head]

theorem t4_absLt_zero (hG : ValidGrp G) : AbsLt G 0 := by
  unfold AbsLt
  have := q_pos hG
  omega

theorem t4_absLt_clip (hG : ValidGrp G) (v : Int) : AbsLt G (if absGe v G.q then 0 else v) := by
  cases h : absGe v G.q
  · simpa using (absGe_false_iff G v).1 h
  · simpa using t4_absLt_zero hG

theorem t4_check (hG : ValidGrp G) [Fact (Nat.Prime (grp G).p.natAbs)] (foo bar : Int)
    (hf : AbsLt G foo) (hb : AbsLt G bar) (row : List Int) (x : Nat) :
    ∃ lhs rhs, pedF G foo bar = .ok lhs ∧ commitProd G.p x row = .ok rhs ∧
      ((lhs != rhs) = false ↔ com G foo bar = rowF G row x) := by
  obtain ⟨lhs, h1, l0, l1, lv⟩ := pedF_val hG foo bar hf hb
  obtain ⟨rhs, h2, r0, r1, rv⟩ := commitProd_val hG x row
  refine ⟨lhs, rhs, h1, h2, ?_⟩
  constructor
  · intro h
    have : lhs = rhs := by simpa using h
    rw [← lv, ← rv, this]
  · intro h
    have : lhs = rhs := eq_of_toF_eq (G := grp G) hG.valid ⟨l0, l1⟩ ⟨r0, r1⟩ (by rw [lv, rv, h])
    simp [this]


theorem t4_parseAns_succ (n : Nat) (row : List Int) (me f : Nat) (q : List (Tag × Int)) (s sp : Int) (bad : Bool)
    (ans : List Nat) :
    parseAns G n row me (f + 1) q s sp bad ans =
    match popQ tagShare q with
    | (none, q1) => .ok (q1, s, sp, true, ans)
    | (some w, q1) =>
      if getUi w ≥ n then .ok (q1, s, sp, bad, ans)
      else
        match popQ tagShare q1 with
        | (none, q2) => .ok (q2, s, sp, true, ans ++ [getUi w])
        | (some foo0, q2) =>
          match popQ tagShare q2 with
          | (none, q3) => .ok (q3, s, sp, true, ans ++ [getUi w])
          | (some bar0, q3) =>
            (pedF G (if absGe foo0 G.q then 0 else foo0) (if absGe bar0 G.q then 0 else bar0)).bind fun lhs =>
            (commitProd G.p (getUi w + 1) row).bind fun rhs =>
            if lhs != rhs then parseAns G n row me f q3 s sp true (ans ++ [getUi w])
            else if getUi w = me then parseAns G n row me f q3 (if absGe foo0 G.q then 0 else foo0) (if absGe bar0 G.q then 0 else bar0) (bad || absGe foo0 G.q || absGe bar0 G.q) (ans ++ [getUi w])
            else parseAns G n row me f q3 s sp (bad || absGe foo0 G.q || absGe bar0 G.q) (ans ++ [getUi w]) := by
  rfl


/-- (a)–(d): the run of `parseAns` on a queue; what is left of the queue, the fault flag and the
    list of answered complaints do not depend on the reader -/
theorem t4_parseAns_spec (hG : ValidGrp G) [Fact (Nat.Prime (grp G).p.natAbs)] (n : Nat) (row : List Int) :
    ∀ (f : Nat) (q : List (Tag × Int)) (bad : Bool) (ans : List Nat),
    ∃ q' bad' ans', (bad = true → bad' = true) ∧ (∀ c ∈ ans, c ∈ ans') ∧
      ∀ (me : Nat) (s sp : Int), AbsLt G s → AbsLt G sp →
        ∃ s' sp', parseAns G n row me f q s sp bad ans = .ok (q', s', sp', bad', ans') ∧
          AbsLt G s' ∧ AbsLt G sp' ∧
          ((s' = s ∧ sp' = sp) ∨ com G s' sp' = rowF G row (me + 1)) ∧
          (bad' = false → me ∈ ans' → me ∉ ans → com G s' sp' = rowF G row (me + 1)) := by
  intro f
  induction f with
  | zero =>
    intro q bad ans
    exact ⟨q, bad, ans, id, fun _ h => h, fun me s sp hs hsp =>
      ⟨s, sp, rfl, hs, hsp, Or.inl ⟨rfl, rfl⟩, fun _ h1 h2 => absurd h1 h2⟩⟩
  | succ f ih =>
    intro q bad ans
    rcases h1 : popQ tagShare q with ⟨_ | w, q1⟩
    · refine ⟨q1, true, ans, fun _ => rfl, fun _ h => h, fun me s sp hs hsp =>
        ⟨s, sp, ?_, hs, hsp, Or.inl ⟨rfl, rfl⟩, fun h => by simp at h⟩⟩
      rw [t4_parseAns_succ, h1]
    by_cases hw : getUi w ≥ n
    · refine ⟨q1, bad, ans, id, fun _ h => h, fun me s sp hs hsp =>
        ⟨s, sp, ?_, hs, hsp, Or.inl ⟨rfl, rfl⟩, fun _ h1 h2 => absurd h1 h2⟩⟩
      rw [t4_parseAns_succ, h1]
      simp only [hw, if_true]
    rcases h2 : popQ tagShare q1 with ⟨_ | foo0, q2⟩
    · refine ⟨q2, true, ans ++ [getUi w], fun _ => rfl, fun c h => List.mem_append_left _ h, fun me s sp hs hsp =>
        ⟨s, sp, ?_, hs, hsp, Or.inl ⟨rfl, rfl⟩, fun h => by simp at h⟩⟩
      rw [t4_parseAns_succ, h1]
      simp only [hw, if_false, h2]
    rcases h3 : popQ tagShare q2 with ⟨_ | bar0, q3⟩
    · refine ⟨q3, true, ans ++ [getUi w], fun _ => rfl, fun c h => List.mem_append_left _ h, fun me s sp hs hsp =>
        ⟨s, sp, ?_, hs, hsp, Or.inl ⟨rfl, rfl⟩, fun h => by simp at h⟩⟩
      rw [t4_parseAns_succ, h1]
      simp only [hw, if_false, h2, h3]
    have hfoo := t4_absLt_clip hG foo0
    have hbar := t4_absLt_clip hG bar0
    obtain ⟨lhs, rhs, hl, hr, hchk⟩ := t4_check hG _ _ hfoo hbar row (getUi w + 1)
    have hunf : ∀ me s sp, parseAns G n row me (f + 1) q s sp bad ans =
        if lhs != rhs then parseAns G n row me f q3 s sp true (ans ++ [getUi w])
        else if getUi w = me then parseAns G n row me f q3 (if absGe foo0 G.q then 0 else foo0)
          (if absGe bar0 G.q then 0 else bar0) (bad || absGe foo0 G.q || absGe bar0 G.q) (ans ++ [getUi w])
        else parseAns G n row me f q3 s sp (bad || absGe foo0 G.q || absGe bar0 G.q) (ans ++ [getUi w]) := by
      intro me s sp
      rw [t4_parseAns_succ, h1]
      simp only [hw, if_false, h2, h3, hl, hr, Except.bind]
    by_cases hc : (lhs != rhs) = true
    · obtain ⟨q', bad', ans', hb, ha, H⟩ := ih q3 true (ans ++ [getUi w])
      refine ⟨q', bad', ans', fun _ => hb rfl, fun c h => ha c (List.mem_append_left _ h), fun me s sp hs hsp => ?_⟩
      obtain ⟨s', sp', he, a1, a2, a3, -⟩ := H me s sp hs hsp
      refine ⟨s', sp', ?_, a1, a2, a3, fun h => ?_⟩
      · rw [hunf, if_pos hc, he]
      · rw [hb rfl] at h
        simp at h
    · have hc' : (lhs != rhs) = false := by simpa using hc
      have hcom := hchk.1 hc'
      obtain ⟨q', bad', ans', hb, ha, H⟩ := ih q3 (bad || absGe foo0 G.q || absGe bar0 G.q) (ans ++ [getUi w])
      refine ⟨q', bad', ans', fun h => hb (by simp [h]), fun c h => ha c (List.mem_append_left _ h),
        fun me s sp hs hsp => ?_⟩
      by_cases hme : getUi w = me
      · obtain ⟨s', sp', he, a1, a2, a3, -⟩ := H me _ _ hfoo hbar
        have hv : com G s' sp' = rowF G row (me + 1) := by
          rcases a3 with ⟨e1, e2⟩ | a3
          · rw [e1, e2, hcom, hme]
          · exact a3
        refine ⟨s', sp', ?_, a1, a2, Or.inr hv, fun _ _ _ => hv⟩
        rw [hunf, if_neg hc, if_pos hme, he]
      · obtain ⟨s', sp', he, a1, a2, a3, a4⟩ := H me s sp hs hsp
        refine ⟨s', sp', ?_, a1, a2, a3, fun h1 h2 h3 => a4 h1 h2 ?_⟩
        · rw [hunf, if_neg hc, if_neg hme, he]
        · intro hm
          rcases List.mem_append.1 hm with hm | hm
          · exact h3 hm
          · simp at hm
            exact hme hm.symm


theorem t4_getUi_nat (c : Nat) (h : c < 2 ^ 64) : getUi (c : Int) = c := by
  unfold getUi
  rw [Int.natAbs_natCast, Nat.mod_eq_of_lt h]

/-- (e): the answers of an honest dealer are consumed completely and are not faulty -/
theorem t4_parseAns_honest (hG : ValidGrp G) [Fact (Nat.Prime (grp G).p.natAbs)] (n : Nat) (hn : n < 2 ^ 64)
    (row : List Int) (me : Nat) (a b : Nat → Int) (s sp : Int) (bad : Bool) :
    ∀ (l : List Nat) (f : Nat) (ans : List Nat),
      (∀ c ∈ l, c < n ∧ InRange G (a c) ∧ InRange G (b c) ∧ com G (a c) (b c) = rowF G row (c + 1)) →
      l.length < f → me ∉ l →
      parseAns G n row me f
        (l.flatMap (fun (c : Nat) => [(tagShare, (c : Int)), (tagShare, a c), (tagShare, b c)]) ++ [(tagShare, (n : Int))])
        s sp bad ans = .ok ([], s, sp, bad, ans ++ l) := by
  intro l
  induction l with
  | nil =>
    intro f ans _ hf _
    obtain ⟨f', rfl⟩ : ∃ f', f = f' + 1 := ⟨f - 1, by simp at hf; omega⟩
    rw [t4_parseAns_succ]
    simp only [List.flatMap_nil, List.nil_append, t4_popQ_head, t4_getUi_nat n hn, ge_iff_le, le_refl, if_true,
      List.append_nil]
  | cons c l ih =>
    intro f ans hall hf hme
    obtain ⟨f', rfl⟩ : ∃ f', f = f' + 1 := ⟨f - 1, by simp at hf; omega⟩
    obtain ⟨hcn, hra, hrb, hcom⟩ := hall c List.mem_cons_self
    have ha : absGe (a c) G.q = false := (absGe_false_iff G _).2 hra.absLt
    have hb : absGe (b c) G.q = false := (absGe_false_iff G _).2 hrb.absLt
    obtain ⟨lhs, rhs, hl, hr, hchk⟩ := t4_check hG (a c) (b c) hra.absLt hrb.absLt row (c + 1)
    have hc' : (lhs != rhs) = false := hchk.2 hcom
    have hcme : ¬ c = me := fun e => hme (e ▸ List.mem_cons_self)
    have hcn' : ¬ c ≥ n := by omega
    rw [t4_parseAns_succ]
    simp only [List.flatMap_cons, List.cons_append, List.nil_append, t4_popQ_head,
      t4_getUi_nat c (Nat.lt_trans hcn hn), hcn', if_false, ha, hb, Bool.false_eq_true, hl, hr, Except.bind, hc',
      hcme, Bool.or_false]
    rw [ih f' (ans ++ [c]) (fun c' hc' => hall c' (List.mem_cons_of_mem _ hc')) (by simp at hf; omega)
      (fun h => hme (List.mem_cons_of_mem _ h))]
    simp


/-! ### the public verdict -/

section pub
variable (G) (n t)

/-- the run of `parseAns` on the common queue of sender `j` (reader-independent components: 1, 4, 5) -/
def t4_pubRes (CH : List (List Int)) (Q : Nat → List (Tag × Int)) (j : Nat) :
    List (Tag × Int) × Int × Int × Bool × List Nat :=
  match parseAns G n (getRow CH j) n (n + 1) (Q j) 0 0 false [] with
  | .ok r => r
  | .error _ => ([], 0, 0, false, [])

/-- `j` is disqualified by the answers -/
def t4_excl (CH : List (List Int)) (Q : Nat → List (Tag × Int)) (T : Nat → List Nat) (CNT : List Nat) (j : Nat) : Bool :=
  decide (getN CNT j > t) ||
    ((t4_pubRes G n CH Q j).2.2.2.1 ||
      (List.range n).any (fun c => (T c).contains j && !(t4_pubRes G n CH Q j).2.2.2.2.contains c))

def t4_qual (CH : List (List Int)) (Q : Nat → List (Tag × Int)) (T : Nat → List Nat) (BadC : Nat → Bool)
    (CNT : List Nat) : List Nat :=
  (List.range n).filter (fun j => !(BadC j || t4_excl G n t CH Q T CNT j))

/-- what every honest reader leaves of `Q j` -/
def t4_left (CH : List (List Int)) (Q : Nat → List (Tag × Int)) (CNT : List Nat) (j : Nat) : List (Tag × Int) :=
  if getN CNT j > t then Q j else (t4_pubRes G n CH Q j).1

end pub

theorem t4_pubRes_spec (hG : ValidGrp G) [Fact (Nat.Prime (grp G).p.natAbs)] (n : Nat) (CH : List (List Int))
    (Q : Nat → List (Tag × Int)) (j me : Nat) (s sp : Int) (hs : AbsLt G s) (hsp : AbsLt G sp) :
    ∃ s' sp', parseAns G n (getRow CH j) me (n + 1) (Q j) s sp false [] =
        .ok ((t4_pubRes G n CH Q j).1, s', sp', (t4_pubRes G n CH Q j).2.2.2.1, (t4_pubRes G n CH Q j).2.2.2.2) ∧
      AbsLt G s' ∧ AbsLt G sp' ∧
      ((s' = s ∧ sp' = sp) ∨ com G s' sp' = rowF G (getRow CH j) (me + 1)) ∧
      ((t4_pubRes G n CH Q j).2.2.2.1 = false → me ∈ (t4_pubRes G n CH Q j).2.2.2.2 →
        com G s' sp' = rowF G (getRow CH j) (me + 1)) := by
  obtain ⟨q', bad', ans', -, -, H⟩ := t4_parseAns_spec hG n (getRow CH j) (n + 1) (Q j) false []
  obtain ⟨s0, sp0, h0, -⟩ := H n 0 0 (t4_absLt_zero hG) (t4_absLt_zero hG)
  have hp : t4_pubRes G n CH Q j = (q', s0, sp0, bad', ans') := by
    unfold t4_pubRes
    rw [h0]
  obtain ⟨s', sp', he, a1, a2, a3, a4⟩ := H me s sp hs hsp
  rw [hp]
  exact ⟨s', sp', he, a1, a2, a3, fun h1 h2 => a4 h1 h2 (by simp)⟩

theorem t4_getD_map_range {α : Type} (f : Nat → α) (n j : Nat) (hj : j < n) (d : α) :
    ((List.range n).map f).getD j d = f j := by
  rw [List.getD_eq_getElem?_getD, List.getElem?_map, List.getElem?_range hj]
  rfl

section inv
variable [Fact (Nat.Prime (grp G).p.natAbs)]
  {Q : Nat → List (Tag × Int)} {CH : List (List Int)} {Flag : Nat → Bool} {T : Nat → List Nat}
  {BadC : Nat → Bool} {CNT : List Nat}

theorem t4_cnt_get (h : Inv4 G ins n t Q CH Flag T BadC CNT) (j : Nat) (hj : j < n) :
    getN CNT j = List.countP (fun c => (T c).contains j) (List.range n) := by
  rw [h.cnt_eq]
  unfold getN
  rw [t4_getD_map_range _ _ _ hj, List.countP_eq_length_filter]

theorem t4_honCount (hS : Setup G ins n t) :
    n - t ≤ List.countP (fun k => (pinOf ins k).dev.honest) (List.range n) := by
  have h1 := List.length_eq_countP_add_countP (fun k => (pinOf ins k).dev.honest) (l := List.range n)
  have h2 := hS.hdev
  rw [← List.countP_eq_length_filter] at h2
  have h3 : List.countP (fun a => decide ¬(pinOf ins a).dev.honest = true) (List.range n) =
      List.countP (fun k => !(pinOf ins k).dev.honest) (List.range n) := by
    congr 1
    funext a
    cases (pinOf ins a).dev.honest <;> rfl
  rw [h3, List.length_range] at h1
  omega

/-- at most `t` parties accuse an honest one -/
theorem t4_cnt_hon (hS : Setup G ins n t) (h : Inv4 G ins n t Q CH Flag T BadC CNT) (j : Nat)
    (hj : HonIdx ins n j) : getN CNT j ≤ t := by
  rw [t4_cnt_get h j hj.1]
  refine Nat.le_trans (List.countP_mono_left ?_) (by
    have := hS.hdev
    rwa [← List.countP_eq_length_filter] at this)
  intro c hc hcj
  have hcn : c < n := List.mem_range.1 hc
  cases hh : (pinOf ins c).dev.honest
  · rfl
  · exfalso
    exact ((h.t_hon c ⟨hcn, hh⟩).2.1 j (List.contains_iff_mem.1 hcj)).2 hj

/-- a party whose commitments did not arrive is accused by every honest party -/
theorem t4_cnt_flag (hS : Setup G ins n t) (h : Inv4 G ins n t Q CH Flag T BadC CNT) (j : Nat) (hj : j < n)
    (hf : Flag j = true) : t < getN CNT j := by
  rw [t4_cnt_get h j hj]
  have h1 := t4_honCount hS
  have h2 : List.countP (fun k => (pinOf ins k).dev.honest) (List.range n) ≤
      List.countP (fun c => (T c).contains j) (List.range n) := by
    refine List.countP_mono_left ?_
    intro c hc hh
    exact List.contains_iff_mem.2 ((h.t_hon c ⟨List.mem_range.1 hc, hh⟩).2.2.1 j hj hf)
  have := hS.hnt
  omega

/-- the answers of an honest dealer as every reader sees them -/
theorem t4_pubRes_hon (hS : Setup G ins n t) (h : Inv4 G ins n t Q CH Flag T BadC CNT) (j : Nat)
    (hj : HonIdx ins n j) :
    t4_pubRes G n CH Q j = ([], 0, 0, false, (List.range n).filter (fun c => (T c).contains j)) := by
  obtain ⟨hrow, hlen, -⟩ := h.ch_hon j hj
  have hcl : (cOf ins t j).length = t + 1 := by simp [cOf]
  have hhl : (hcOf ins t j).length = t + 1 := by simp [hcOf]
  have := t4_parseAns_honest hS.hG n hS.hn64 (getRow CH j) n (fun c => shareOf G ins t j c)
    (fun c => hshareOf G ins t j c) 0 0 false ((List.range n).filter (fun c => (T c).contains j)) (n + 1) []
    (by
      intro c hc
      refine ⟨List.mem_range.1 (List.mem_filter.1 hc).1, evalShare_range hS.hG _ _, evalShare_range hS.hG _ _, ?_⟩
      exact (rowF_commit hS.hG (cOf ins t j) (hcOf ins t j) (getRow CH j) (c + 1) (by rw [hcl, hlen])
        (by rw [hhl, hlen]) (fun k hk => (hrow.2 k hk).2)).symm)
    (by
      have := List.length_filter_le (fun c => (T c).contains j) (List.range n)
      rw [List.length_range] at this
      omega)
    (by
      intro hm
      have := List.mem_range.1 (List.mem_filter.1 hm).1
      omega)
  unfold t4_pubRes
  rw [h.q_hon j hj, this]
  simp

theorem t4_excl_hon (hS : Setup G ins n t) (h : Inv4 G ins n t Q CH Flag T BadC CNT) (j : Nat)
    (hj : HonIdx ins n j) : t4_excl G n t CH Q T CNT j = false := by
  unfold t4_excl
  rw [t4_pubRes_hon hS h j hj]
  have h1 : decide (getN CNT j > t) = false := by
    have := t4_cnt_hon hS h j hj
    simp
    omega
  rw [h1]
  simp only [Bool.false_or]
  rw [List.any_eq_false]
  intro c hc
  cases hcj : (T c).contains j
  · simp
  · have : c ∈ (List.range n).filter (fun c => (T c).contains j) := List.mem_filter.2 ⟨hc, hcj⟩
    rw [List.contains_iff_mem.2 this]
    simp

theorem t4_left_hon (hS : Setup G ins n t) (h : Inv4 G ins n t Q CH Flag T BadC CNT) (j : Nat)
    (hj : HonIdx ins n j) : t4_left G n t CH Q CNT j = [] := by
  unfold t4_left
  have := t4_cnt_hon hS h j hj
  rw [if_neg (by omega), t4_pubRes_hon hS h j hj]

theorem t4_mem_qual (j : Nat) : j ∈ t4_qual G n t CH Q T BadC CNT ↔
    j < n ∧ BadC j = false ∧ t4_excl G n t CH Q T CNT j = false := by
  unfold t4_qual
  rw [List.mem_filter, List.mem_range]
  simp

theorem t4_qualOk (hS : Setup G ins n t) (h : Inv4 G ins n t Q CH Flag T BadC CNT) :
    QualOk G ins n t CH (t4_qual G n t CH Q T BadC CNT) := by
  refine ⟨h.ch_len, fun j hj => ⟨(h.ch_hon j hj).1, (h.ch_hon j hj).2.1⟩, List.Pairwise.filter _ List.pairwise_lt_range,
    fun j hj => ((t4_mem_qual j).1 hj).1,
    fun j hj => (t4_mem_qual j).2 ⟨hj.1, (h.t_hon j hj).2.2.2, t4_excl_hon hS h j hj⟩, ?_⟩
  intro j hj
  obtain ⟨hjn, -, hex⟩ := (t4_mem_qual j).1 hj
  refine h.ch_ok j hjn ?_
  cases hf : Flag j
  · rfl
  · exfalso
    have := t4_cnt_flag hS h j hjn hf
    unfold t4_excl at hex
    simp at hex
    omega

theorem t4_qual_len (hS : Setup G ins n t) (h : Inv4 G ins n t Q CH Flag T BadC CNT) :
    t < (t4_qual G n t CH Q T BadC CNT).length := by
  unfold t4_qual
  rw [← List.countP_eq_length_filter]
  have h1 := t4_honCount hS
  have h2 : List.countP (fun k => (pinOf ins k).dev.honest) (List.range n) ≤
      List.countP (fun j => !(BadC j || t4_excl G n t CH Q T CNT j)) (List.range n) := by
    refine List.countP_mono_left ?_
    intro c hc hh
    have hc' : HonIdx ins n c := ⟨List.mem_range.1 hc, hh⟩
    rw [(h.t_hon c hc').2.2.2, t4_excl_hon hS h c hc']
    rfl
  have := hS.hnt
  omega

end inv

/-! ### the step of an honest reader -/

theorem t4_mapE_spec {α β : Type} [Inhabited α] (f : α → Except Err β) (P : α → β → Prop) :
    ∀ (l : List α), (∀ a ∈ l, ∃ b, f a = .ok b ∧ P a b) →
      ∃ bs, mapE f l = .ok bs ∧ bs.length = l.length ∧ ∀ i, i < l.length → ∀ d d', P (l.getD i d') (bs.getD i d) := by
  intro l
  induction l with
  | nil => intro _; exact ⟨[], rfl, rfl, fun i hi => by simp at hi⟩
  | cons a l ih =>
    intro h
    obtain ⟨b, hb, hP⟩ := h a List.mem_cons_self
    obtain ⟨bs, hbs, hl, hPs⟩ := ih (fun a' ha' => h a' (List.mem_cons_of_mem _ ha'))
    refine ⟨b :: bs, ?_, by simp [hl], ?_⟩
    · simp only [mapE, hb, hbs, bind, Except.bind]
    · intro i hi d d'
      cases i with
      | zero => simpa using hP
      | succ i =>
        simp only [List.getD_cons_succ]
        exact hPs i (by simpa using hi) d d'

theorem t4_mapE_range {β : Type} (f : Nat → Except Err β) (n : Nat) (P : Nat → β → Prop)
    (h : ∀ j, j < n → ∃ b, f j = .ok b ∧ P j b) :
    ∃ bs, mapE f (List.range n) = .ok bs ∧ bs.length = n ∧ ∀ j, j < n → ∀ d, P j (bs.getD j d) := by
  obtain ⟨bs, h1, h2, h3⟩ := t4_mapE_spec f P (List.range n) (fun a ha => h a (List.mem_range.1 ha))
  rw [List.length_range] at h2 h3
  refine ⟨bs, h1, h2, fun j hj d => ?_⟩
  have := h3 j hj d 0
  rwa [List.getD_eq_getElem?_getD, List.getElem?_range hj] at this

/-- the complaint list and Qual computed from the verdicts `res` -/
def t4_cm (st : St) (res : List (List (Tag × Int) × Int × Int × Bool)) : List Nat :=
  st.compl ++ (List.range st.n).filter (fun j => (res.getD j ([], 0, 0, false)).2.2.2)

def t4_ql (st : St) (res : List (List (Tag × Int) × Int × Int × Bool)) : List Nat :=
  (List.range st.n).filter (fun j => !(t4_cm st res).contains j)

/-- the state after `jlResolve` when it goes on to the opening -/
def t4_st' (G : Jl.Grp) (st : St) (res : List (List (Tag × Int) × Int × Int × Bool)) : St :=
  { st with
    s := res.map (fun r => r.2.1), sp := res.map (fun r => r.2.2.1), compl := [], qual := t4_ql st res,
    alpha := sumMod G.q (res.map (fun r => r.2.1)) (t4_ql st res),
    halpha := sumMod G.q (res.map (fun r => r.2.2.1)) (t4_ql st res),
    a := st.a.set st.i (getI st.c 0), ha := st.ha.set st.i (getI st.hc 0) }

theorem t4_jlResolve_ok (st : St) (I : Inbox) (res : List (List (Tag × Int) × Int × Int × Bool))
    (hres : mapE (resolveOne G st I) (List.range st.n) = .ok res)
    (hq1 : (t4_ql st res).contains st.i = true) (hq2 : st.t < (t4_ql st res).length) (hsfb : st.sfb = false) :
    jlResolve G st I = .ok (t4_st' G st res, { I with b := res.map (fun r => r.1) },
      [Op.bc tagFlip (getI st.c 0), Op.bc tagFlip (getI st.hc 0)], .run) := by
  have hq2' : ¬ (t4_ql st res).length ≤ st.t := by omega
  unfold t4_ql t4_cm at hq1 hq2'
  unfold jlResolve
  simp only [hres, bind, Except.bind, pure, Except.pure, hq1, hq2', Bool.not_true, Bool.false_eq_true, if_false,
    openOps, hsfb, Bool.false_and]
  unfold t4_st' t4_ql t4_cm
  simp only [hsfb]


theorem t4_getD_map {α β : Type} (f : α → β) (l : List α) (j : Nat) (hj : j < l.length) (d : α) (d' : β) :
    (l.map f).getD j d' = f (l.getD j d) := by
  rw [List.getD_eq_getElem?_getD, List.getD_eq_getElem?_getD, List.getElem?_map, List.getElem?_eq_getElem hj]
  rfl

/-- what `Inv4.party` says about the state and the inbox of honest `x` -/
structure Reader (G : Jl.Grp) [Fact (Nat.Prime (grp G).p.natAbs)] (ins : List PartyIn) (n t : Nat)
    (Q : Nat → List (Tag × Int)) (CH : List (List Int)) (T : Nat → List Nat) (BadC : Nat → Bool) (CNT : List Nat)
    (x : Nat) (st : St) (I : Inbox) : Prop where
  core : Core ins n t x st
  held : Held G ins n t CH x st
  cnt : st.cnt = CNT
  cmem : ∀ w c, w < n → (c ∈ st.complainers.getD w [] ↔ Accuses n T c w)
  compl : ∀ k, k ∈ st.compl ↔ k < n ∧ BadC k = true
  valid : ∀ j, j < n → ¬ (T x).contains j → ValidShare G (getRow CH j) x (getI st.s j) (getI st.sp j)
  boxes : Boxes n x I Q

section reader
variable [Fact (Nat.Prime (grp G).p.natAbs)]
  {Q : Nat → List (Tag × Int)} {CH : List (List Int)} {Flag : Nat → Bool} {T : Nat → List Nat}
  {BadC : Nat → Bool} {CNT : List Nat} {x : Nat} {st : St} {I : Inbox}

/-- a complaint left without an answer, in public terms -/
theorem t4_unans (R : Reader G ins n t Q CH T BadC CNT x st I) (j : Nat) (hj : j < n) (ans : List Nat) :
    (st.complainers.getD j []).any (fun c => !ans.contains c) =
      (List.range n).any (fun c => (T c).contains j && !ans.contains c) := by
  rw [Bool.eq_iff_iff, List.any_eq_true, List.any_eq_true]
  constructor
  · rintro ⟨c, hc, hc2⟩
    obtain ⟨h1, h2⟩ := (R.cmem j c hj).1 hc
    exact ⟨c, List.mem_range.2 h1, by rw [h2, hc2]; rfl⟩
  · rintro ⟨c, hc, hc2⟩
    rw [Bool.and_eq_true] at hc2
    exact ⟨c, (R.cmem j c hj).2 ⟨List.mem_range.1 hc, hc2.1⟩, hc2.2⟩

/-- the verdict of honest `x` on dealer `j` is the public one; the pair it holds afterwards is valid
    when `j` is not disqualified -/
theorem t4_resolveOne (hS : Setup G ins n t) (h : Inv4 G ins n t Q CH Flag T BadC CNT) (hx : HonIdx ins n x)
    (R : Reader G ins n t Q CH T BadC CNT x st I) (j : Nat) (hj : j < n) :
    ∃ r, resolveOne G st I j = .ok r ∧ (j ≠ x → r.1 = t4_left G n t CH Q CNT j) ∧
      r.2.2.2 = t4_excl G n t CH Q T CNT j ∧ AbsLt G r.2.1 ∧ AbsLt G r.2.2.1 ∧
      (t4_excl G n t CH Q T CNT j = false → com G r.2.1 r.2.2.1 = rowF G (getRow CH j) (x + 1)) := by
  obtain ⟨hs1, hs2⟩ := R.held.s_abs j hj
  unfold resolveOne
  rw [R.cnt, R.core.t_eq, R.core.i_eq, R.core.n_eq, R.held.C_eq]
  by_cases h1 : getN CNT j > t
  · rw [if_pos h1]
    refine ⟨_, rfl, fun hne => ?_, ?_, hs1, hs2, fun he => ?_⟩
    · show I.bq j = _
      unfold t4_left
      rw [if_pos h1, R.boxes.bq_eq j hj hne]
    · show true = _
      unfold t4_excl
      simp [h1]
    · exfalso
      unfold t4_excl at he
      simp [h1] at he
  · rw [if_neg h1]
    have hd : decide (getN CNT j > t) = false := decide_eq_false h1
    by_cases h2 : j = x
    · subst h2
      rw [if_pos rfl]
      have hnot : ¬ (T j).contains j = true := fun hc =>
        ((h.t_hon j hx).2.1 j (List.contains_iff_mem.1 hc)).2 hx
      exact ⟨_, rfl, fun hne => absurd rfl hne, (t4_excl_hon hS h j hx).symm, hs1, hs2,
        fun _ => (R.valid j hj hnot).2.2⟩
    · rw [if_neg h2]
      obtain ⟨s', sp', he, a1, a2, a3, a4⟩ := t4_pubRes_spec hS.hG n CH Q j x _ _ hs1 hs2
      rw [R.boxes.bq_eq j hj h2, he]
      simp only [bind, Except.bind]
      refine ⟨_, rfl, fun _ => ?_, ?_, a1, a2, fun hex => ?_⟩
      · show _ = t4_left G n t CH Q CNT j
        unfold t4_left
        rw [if_neg h1]
      · show (_ || _) = t4_excl G n t CH Q T CNT j
        unfold t4_excl
        rw [hd, Bool.false_or, t4_unans R j hj]
      · show com G s' sp' = _
        unfold t4_excl at hex
        rw [hd, Bool.false_or, Bool.or_eq_false_iff] at hex
        obtain ⟨hb, hany⟩ := hex
        by_cases hacc : (T x).contains j = true
        · have := List.any_eq_false.1 hany x (List.mem_range.2 hx.1)
          rw [hacc] at this
          have hm : x ∈ (t4_pubRes G n CH Q j).2.2.2.2 := by
            by_contra hm
            apply this
            have : (t4_pubRes G n CH Q j).2.2.2.2.contains x = false := by
              rw [← Bool.not_eq_true, List.contains_iff_mem]
              exact hm
            rw [this]
            rfl
          exact a4 hb hm
        · rcases a3 with ⟨e1, e2⟩ | a3
          · rw [e1, e2]
            exact (R.valid j hj hacc).2.2
          · exact a3

/-- `jlResolve` of honest `x` -/
theorem t4_step (hS : Setup G ins n t) (h : Inv4 G ins n t Q CH Flag T BadC CNT) (hx : HonIdx ins n x)
    (R : Reader G ins n t Q CH T BadC CNT x st I) :
    ∃ st' I', jlResolve G st I = .ok (st', I',
        [Op.bc tagFlip (getI (cOf ins t x) 0), Op.bc tagFlip (getI (hcOf ins t x) 0)], .run) ∧
      Core ins n t x st' ∧ Shared G ins n t CH (t4_qual G n t CH Q T BadC CNT) x st' ∧
      I'.b.length = n ∧ I'.p.length = n ∧ ∀ j, j < n → j ≠ x → I'.b.getD j [] = t4_left G n t CH Q CNT j := by
  obtain ⟨res, hres, hlen, hP⟩ := t4_mapE_range (resolveOne G st I) n
    (fun j r => (j ≠ x → r.1 = t4_left G n t CH Q CNT j) ∧
      r.2.2.2 = t4_excl G n t CH Q T CNT j ∧ AbsLt G r.2.1 ∧ AbsLt G r.2.2.1 ∧
      (t4_excl G n t CH Q T CNT j = false → com G r.2.1 r.2.2.1 = rowF G (getRow CH j) (x + 1)))
    (fun j hj => t4_resolveOne hS h hx R j hj)
  have hql : t4_ql st res = t4_qual G n t CH Q T BadC CNT := by
    unfold t4_ql t4_qual t4_cm
    rw [R.core.n_eq]
    apply List.filter_congr
    intro j hj
    have hjn := List.mem_range.1 hj
    have hflag := (hP j hjn ([], 0, 0, false)).2.1
    congr 1
    rw [Bool.eq_iff_iff, List.contains_iff_mem, List.mem_append, R.compl, List.mem_filter, List.mem_range, hflag,
      Bool.or_eq_true]
    constructor
    · rintro (⟨_, hb⟩ | ⟨_, he⟩)
      · exact Or.inl hb
      · exact Or.inr he
    · rintro (hb | he)
      · exact Or.inl ⟨hjn, hb⟩
      · exact Or.inr ⟨hjn, he⟩
  have hq1 : (t4_ql st res).contains st.i = true := by
    rw [hql, R.core.i_eq]
    exact List.contains_iff_mem.2 ((t4_qualOk hS h).hon_mem x hx)
  have hq2 : st.t < (t4_ql st res).length := by
    rw [hql, R.core.t_eq]
    exact t4_qual_len hS h
  have hok := t4_jlResolve_ok st I res (by rw [R.core.n_eq]; exact hres) hq1 hq2 R.core.sfb_eq
  have hops : [Op.bc tagFlip (getI st.c 0), Op.bc tagFlip (getI st.hc 0)] =
      [Op.bc tagFlip (getI (cOf ins t x) 0), Op.bc tagFlip (getI (hcOf ins t x) 0)] := by
    rw [R.core.c_eq, R.core.hc_eq]
  rw [hops] at hok
  have han : (zeros n).length = n := by simp [zeros]
  refine ⟨_, _, hok, ⟨R.core.n_eq, R.core.t_eq, R.core.i_eq, R.core.sfb_eq, R.core.c_eq, R.core.hc_eq⟩,
    ⟨R.held.C_eq, hql, ?_, ?_, ?_, ?_, ?_, ?_, ?_⟩, ?_, R.boxes.plen, ?_⟩
  · show (res.map _).length = n
    rw [List.length_map, hlen]
  · show (res.map _).length = n
    rw [List.length_map, hlen]
  · intro j hj
    obtain ⟨hjn, -, hex⟩ := (t4_mem_qual j).1 hj
    obtain ⟨-, -, b1, b2, b3⟩ := hP j hjn ([], 0, 0, false)
    have e1 : getI (res.map (fun r => r.2.1)) j = (res.getD j ([], 0, 0, false)).2.1 :=
      t4_getD_map _ res j (by rw [hlen]; exact hjn) _ _
    have e2 : getI (res.map (fun r => r.2.2.1)) j = (res.getD j ([], 0, 0, false)).2.2.1 :=
      t4_getD_map _ res j (by rw [hlen]; exact hjn) _ _
    show ValidShare G (getRow CH j) x (getI (res.map (fun r => r.2.1)) j) (getI (res.map (fun r => r.2.2.1)) j)
    rw [e1, e2]
    exact ⟨b1, b2, b3 hex⟩
  · show (st.a.set st.i _).length = n
    rw [List.length_set, R.held.a_eq, han]
  · show (st.ha.set st.i _).length = n
    rw [List.length_set, R.held.ha_eq, han]
  · show getI (st.a.set st.i (getI st.c 0)) x = _
    unfold getI
    rw [glue_getD_set, R.core.i_eq, if_pos ⟨rfl, by rw [R.held.a_eq, han]; exact hx.1⟩, R.core.c_eq]
  · show getI (st.ha.set st.i (getI st.hc 0)) x = _
    unfold getI
    rw [glue_getD_set, R.core.i_eq, if_pos ⟨rfl, by rw [R.held.ha_eq, han]; exact hx.1⟩, R.core.hc_eq]
  · show (res.map _).length = n
    rw [List.length_map, hlen]
  · intro j hj hjx
    show (res.map (fun r => r.1)).getD j [] = _
    rw [t4_getD_map _ res j (by rw [hlen]; exact hj) ([], 0, 0, false)]
    exact (hP j hj _).1 hjx

/-- honest `x` after round 4 -/
theorem t4_party (hS : Setup G ins n t) (h : Inv4 G ins n t Q CH Flag T BadC CNT) (x : Nat) (hx : HonIdx ins n x) :
    bOut G ins n t 4 x = [(tagFlip, getI (cOf ins t x) 0), (tagFlip, getI (hcOf ins t x) 0)] ∧
    ∃ P', (cfg G ins n t 5)[x]? = some P' ∧ Alive P' ∧ Core ins n t x P'.st ∧
      Shared G ins n t CH (t4_qual G n t CH Q T BadC CNT) x P'.st ∧
      Boxes n x P'.inbox (fun j => t4_left G n t CH Q CNT j ++ bOut G ins n t 4 j) := by
  obtain ⟨P, hP, hal, hcore, hheld, hcnt, -, hcmem, hcompl, hvalid, hbox⟩ := h.party x hx
  have R : Reader G ins n t Q CH T BadC CNT x P.st P.inbox := ⟨hcore, hheld, hcnt, hcmem, hcompl, hvalid, hbox⟩
  obtain ⟨st', I', hstep, hcore', hshared, hb, hp, hq⟩ := t4_step hS h hx R
  have hlen := cfg_length G ins n t 4 hS.hlen
  have hxl : x < (cfg G ins n t 4).length := by rw [hlen]; exact hx.1
  have hPx : (cfg G ins n t 4)[x] = P := by
    rw [List.getElem?_eq_getElem hxl] at hP
    exact Option.some.inj hP
  have hlive := live_of_alive hal
  have hstep' : flipStep G ins n t 4 x P.st P.inbox = .ok (st', I',
      [Op.bc tagFlip (getI (cOf ins t x) 0), Op.bc tagFlip (getI (hcOf ins t x) 0)], .run) := hstep
  obtain ⟨fs', hsp, hfs⟩ := stepParty_honest (cfg G ins n t 4).length (flipStep G ins n t 4 x) P hal.dev hlive
    st' I' _ .run hstep'
  have hout : bOut G ins n t 4 x = [(tagFlip, getI (cOf ins t x) 0), (tagFlip, getI (hcOf ins t x) 0)] := by
    unfold bOut
    rw [dif_pos hxl]
    unfold outOf
    rw [hPx, hsp]
    rfl
  obtain ⟨P', hP', d1, d2, d3, d4, d5, d6, d7, d8, -⟩ :=
    runRound_get (flipStep G ins n t 4) (cfg G ins n t 4) x hxl
  have hstepped : stepped (flipStep G ins n t 4) (cfg G ins n t 4) x hxl =
      { P with st := st', inbox := I', fs := fs', status := .run } := by
    unfold stepped
    rw [hPx, hsp]
  rw [hstepped] at d1 d2 d3 d4 d5 d6 d7 d8
  refine ⟨hout, P', by rw [cfg_succ]; exact hP', ⟨d1.trans hal.dev, by rw [d2]; exact hfs, d4, d5.trans hal.noErr⟩,
    by rw [d3]; exact hcore', by rw [d3]; exact hshared, ⟨d6.trans hb, d7.trans hp, ?_⟩⟩
  intro j hj hjx
  have hjl : j < (cfg G ins n t 4).length := by rw [hlen]; exact hj
  unfold Inbox.bq
  rw [d8 j (by show j < I'.b.length; rw [hb]; exact hj)]
  show I'.b.getD j [] ++ _ = _
  rw [hq j hj hjx, dif_pos ⟨hjx, hjl⟩]
  unfold bOut
  rw [dif_pos hjl]

end reader

end T4

open T4 in
/-- after round 4 (`Share` is over) the honest parties agree on Qual, hold a valid share of every
    member of Qual and have broadcast their openings -/
theorem inv5 [Fact (Nat.Prime (grp G).p.natAbs)] (hS : Setup G ins n t)
    {Q : Nat → List (Tag × Int)} {CH : List (List Int)} {Flag : Nat → Bool} {T : Nat → List Nat}
    {BadC : Nat → Bool} {CNT : List Nat} (h : Inv4 G ins n t Q CH Flag T BadC CNT) :
    ∃ Q' QL, Inv5 G ins n t Q' CH QL := by
  refine ⟨fun j => t4_left G n t CH Q CNT j ++ bOut G ins n t 4 j, t4_qual G n t CH Q T BadC CNT,
    t4_qualOk hS h, fun x hx => ?_, fun x hx => (t4_party hS h x hx).2⟩
  show t4_left G n t CH Q CNT x ++ bOut G ins n t 4 x = _
  rw [t4_left_hon hS h x hx, (t4_party hS h x hx).1, List.nil_append]

end Tmcg.JlProofs
