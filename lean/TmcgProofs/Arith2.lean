import Tmcg.Model.Arith2
import TmcgProofs.Base
import Mathlib.Data.ZMod.Basic
import Mathlib.Algebra.Field.ZMod
import Mathlib.LinearAlgebra.Lagrange
import Mathlib.NumberTheory.LegendreSymbol.QuadraticReciprocity
import Mathlib.GroupTheory.OrderOfElement
import Mathlib.FieldTheory.Finite.Basic
/-
  C09, area "arith2": proofs about the models of Tmcg/Model/Arith2.lean.

    * `interp_reproduces_points`   for a prime modulus and abscissae that are pairwise distinct modulo
                                   it, `tmcg_interpolate_polynom` succeeds and the returned coefficient
                                   list (entries in [0, q)) evaluates to b_k at every a_k (mod q)
    * `interp_collision_refused`   two abscissae congruent modulo the prime: the function returns false
    * `interp_bad_arguments`       the argument check
    * `primeRelOk_safe`, `primeRelOk_safe2g`, `primeRelOk_blum`, `primeRelOk_schnorr`, `primeRelOk_prefix`,
      `primeRelOk_ordinary`        what the decision function used by the correspondence run means
    * `sprime2g_two_generates`     for an accepted `sprime2g` tuple 2 generates the subgroup of order q
    * `mpiRoundtrip_lossless`      the conversion model is the identity wherever it answers, and it
                                   answers for every integer of at most 16368 bits
    * `bigint_backend_independent` whenever neither back end refuses a call, the wrapper model gives the
                                   same outcome for both (the model has ONE value semantics; the run
                                   compares both back ends of the real class with it)
    * `bigintSeq_backend_independent`

  The loop-invariant proof follows the one for the copy of the routine in the DKG model
  (TmcgProofs/DkgLagrange.lean); it is repeated here for this area's own model and extended by the
  failure case.
-/
namespace Tmcg.Arith2P
open Tmcg Tmcg.Arith2

variable {q : Int} [Fact (Nat.Prime q.natAbs)]

set_option linter.unusedSectionVars false
set_option linter.unusedVariables false

/-! ### casts into `ZMod q` -/

theorem natAbs_q (hq : 0 < q) : ((q.natAbs : Nat) : Int) = q := Int.natAbs_of_nonneg hq.le

theorem cast_emod (hq : 0 < q) (a : Int) :
    (((a % q : Int)) : ZMod q.natAbs) = (a : ZMod q.natAbs) := by
  have := ZMod.intCast_mod a q.natAbs
  rwa [natAbs_q hq] at this

theorem emod_bounds (hq : 0 < q) (a : Int) : 0 ≤ a % q ∧ a % q < q :=
  ⟨Int.emod_nonneg _ (ne_of_gt hq), Int.emod_lt_of_pos _ hq⟩

theorem eq_of_cast_eq (hq : 0 < q) {a b : Int} (ha : 0 ≤ a ∧ a < q) (hb : 0 ≤ b ∧ b < q)
    (h : (a : ZMod q.natAbs) = (b : ZMod q.natAbs)) : a = b := by
  rw [ZMod.intCast_eq_intCast_iff, natAbs_q hq] at h
  have h' : a % q = b % q := h
  rwa [Int.emod_eq_of_lt ha.1 ha.2, Int.emod_eq_of_lt hb.1 hb.2] at h'

theorem invm_val_q (hq : 0 < q) (a : Int) (ha : (a : ZMod q.natAbs) ≠ 0) :
    ∃ r, invm a q = some r ∧ 0 ≤ r ∧ r < q ∧ (r : ZMod q.natAbs) = (a : ZMod q.natAbs)⁻¹ := by
  have hg : Int.gcd a q = 1 := by
    rw [Int.gcd_comm, Int.gcd_def]
    refine (Nat.Prime.coprime_iff_not_dvd (Fact.out)).mpr ?_
    intro hd
    apply ha
    rw [ZMod.intCast_zmod_eq_zero_iff_dvd]
    exact Int.natCast_dvd.mpr hd
  obtain ⟨r, hr⟩ := invm_isSome_of_coprime (ne_of_gt hq) hg
  obtain ⟨h0, h1, hc⟩ := invm_some hr
  rw [abs_of_pos hq] at h1
  refine ⟨r, hr, h0, h1, ?_⟩
  have : ((a * r : Int) : ZMod q.natAbs) = ((1 : Int) : ZMod q.natAbs) := by
    rw [ZMod.intCast_eq_intCast_iff, natAbs_q hq]; exact hc
  push_cast at this
  exact eq_inv_of_mul_eq_one_right this

/-! ### list access -/

theorem getI_map_range (n : Nat) (g : Nat → Int) (i : Nat) :
    getI ((List.range n).map g) i = if i < n then g i else 0 := by
  unfold getI
  by_cases h : i < n
  · simp [List.getD_eq_getElem?_getD, h]
  · simp [List.getD_eq_getElem?_getD, h]

theorem getI_set (l : List Int) (k : Nat) (x : Int) (i : Nat) :
    getI (l.set k x) i = if i = k ∧ k < l.length then x else getI l i := by
  unfold getI
  rw [List.getD_eq_getElem?_getD, List.getD_eq_getElem?_getD, List.getElem?_set]
  by_cases h : k = i
  · subst h
    by_cases h2 : k < l.length
    · simp [h2]
    · simp [h2]
  · have : ¬ i = k := fun e => h e.symm
    simp [h, this]

theorem getI_of_le (l : List Int) (i : Nat) (h : l.length ≤ i) : getI l i = 0 := by
  unfold getI
  simp [List.getD_eq_getElem?_getD, h]

theorem getI_replicate (n i : Nat) : getI (List.replicate n (0 : Int)) i = 0 := by
  unfold getI
  by_cases h : i < n
  · simp [List.getD_eq_getElem?_getD, h]
  · simp [List.getD_eq_getElem?_getD, h]

/-! ### the loops as polynomial operations -/

theorem hornerDown_cast (hq : 0 < q) (aa : Int) (v : List Int) : ∀ (k : Nat) (t : Int),
    ((hornerDown q aa v k t : Int) : ZMod q.natAbs) =
      (t : ZMod q.natAbs) * (aa : ZMod q.natAbs) ^ k +
        ∑ i ∈ Finset.range k, (getI v i : ZMod q.natAbs) * (aa : ZMod q.natAbs) ^ i := by
  intro k
  induction k with
  | zero => intro t; simp [hornerDown]
  | succ k ih =>
    intro t
    rw [hornerDown, ih, cast_emod hq, Int.cast_add, cast_emod hq, Int.cast_mul,
      Finset.sum_range_succ]
    ring

open Polynomial in
theorem eval_of_degree_lt {F : Type} [Field F] (p : F[X]) (k : Nat) (h : p.degree < k) (x : F) :
    p.eval x = ∑ i ∈ Finset.range k, p.coeff i * x ^ i := by
  by_cases hp : p = 0
  · subst hp; simp
  · exact Polynomial.eval_eq_sum_range' ((Polynomial.natDegree_lt_iff_degree_lt hp).mpr h) x

open Polynomial in
theorem eval_nodal_range {F : Type} [Field F] (v : Nat → F) (k : Nat) (x : F) :
    (Lagrange.nodal (Finset.range k) v).eval x =
      x ^ k + ∑ i ∈ Finset.range k, (Lagrange.nodal (Finset.range k) v).coeff i * x ^ i := by
  have hd : (Lagrange.nodal (Finset.range k) v).natDegree = k := by
    rw [Lagrange.natDegree_nodal, Finset.card_range]
  have hm : (Lagrange.nodal (Finset.range k) v).coeff k = 1 := by
    have := (Lagrange.nodal_monic (s := Finset.range k) (v := v)).coeff_natDegree
    rwa [hd] at this
  rw [Polynomial.eval_eq_sum_range, hd, Finset.sum_range_succ, hm, one_mul, add_comm]

open Polynomial in
theorem nodal_succ {F : Type} [Field F] (v : Nat → F) (k : Nat) :
    Lagrange.nodal (Finset.range (k + 1)) v = (X - C (v k)) * Lagrange.nodal (Finset.range k) v := by
  rw [Finset.range_add_one, Lagrange.nodal_insert_eq_nodal Finset.notMem_range_self]

open Polynomial in
theorem eval_nodal_ne_zero {F : Type} [Field F] (v : Nat → F) (k : Nat)
    (hv : Set.InjOn v (Finset.range (k + 1) : Set Nat)) :
    (Lagrange.nodal (Finset.range k) v).eval (v k) ≠ 0 := by
  apply Lagrange.eval_nodal_not_at_node
  intro i hi h
  have hi' : i < k := Finset.mem_range.mp hi
  have := hv (by simp) (by simp; omega) h
  omega

open Polynomial in
theorem interp_succ {F : Type} [Field F] (v r : Nat → F) (k : Nat)
    (hv : Set.InjOn v (Finset.range (k + 1) : Set Nat)) :
    Lagrange.interpolate (Finset.range (k + 1)) v r =
      Lagrange.interpolate (Finset.range k) v r +
        C ((r k - (Lagrange.interpolate (Finset.range k) v r).eval (v k)) /
            (Lagrange.nodal (Finset.range k) v).eval (v k)) * Lagrange.nodal (Finset.range k) v := by
  have hvk : Set.InjOn v (Finset.range k : Set Nat) := by
    intro i hi j hj h
    exact hv (by simp at hi ⊢; omega) (by simp at hj ⊢; omega) h
  symm
  apply Lagrange.eq_interpolate_of_eval_eq r hv
  · rw [Finset.card_range]
    have h1 : (Lagrange.interpolate (Finset.range k) v r).degree < ((k + 1 : Nat) : WithBot Nat) := by
      have := Lagrange.degree_interpolate_lt r hvk
      rw [Finset.card_range] at this
      exact lt_trans this (by exact_mod_cast Nat.lt_succ_self k)
    have h2 : (C ((r k - (Lagrange.interpolate (Finset.range k) v r).eval (v k)) /
            (Lagrange.nodal (Finset.range k) v).eval (v k)) * Lagrange.nodal (Finset.range k) v).degree
          < ((k + 1 : Nat) : WithBot Nat) := by
      refine lt_of_le_of_lt (Polynomial.degree_mul_le _ _) ?_
      rw [Lagrange.degree_nodal, Finset.card_range]
      refine lt_of_le_of_lt (add_le_add Polynomial.degree_C_le le_rfl) ?_
      rw [zero_add]
      exact_mod_cast Nat.lt_succ_self k
    exact lt_of_le_of_lt (Polynomial.degree_add_le _ _) (max_lt h1 h2)
  · intro i hi
    have hi' : i < k + 1 := Finset.mem_range.mp hi
    rw [Polynomial.eval_add, Polynomial.eval_mul, Polynomial.eval_C]
    by_cases hik : i = k
    · subst hik
      rw [div_mul_cancel₀ _ (eval_nodal_ne_zero v i hv)]
      ring
    · have hlt : i ∈ Finset.range k := Finset.mem_range.mpr (by omega)
      rw [Lagrange.eval_nodal_at_node hlt, mul_zero, add_zero,
        Lagrange.eval_interpolate_at_node r hvk hlt]

/-- update of `res` in one round of `interpGo` -/
theorem res_step (hq : 0 < q) (res prod : List Int) (k m : Nat) (t1' : Int) (hk : k < m)
    (hlen : res.length = m) (P M : Polynomial (ZMod q.natAbs))
    (hPk : ∀ i, k ≤ i → P.coeff i = 0) (hMk : M.coeff k = 1) (hMgt : ∀ i, k < i → M.coeff i = 0)
    (hres : ∀ i, ((getI res i : Int) : ZMod q.natAbs) = P.coeff i)
    (hprod : ∀ i, i < k → ((getI prod i : Int) : ZMod q.natAbs) = M.coeff i)
    (hb : ∀ i, 0 ≤ getI res i ∧ getI res i < q) (ht : 0 ≤ t1' ∧ t1' < q) :
    ((addScaled q t1' k res prod).set k t1').length = m ∧
    (∀ i, 0 ≤ getI ((addScaled q t1' k res prod).set k t1') i ∧
      getI ((addScaled q t1' k res prod).set k t1') i < q) ∧
    ∀ i, ((getI ((addScaled q t1' k res prod).set k t1') i : Int) : ZMod q.natAbs) =
      P.coeff i + (t1' : ZMod q.natAbs) * M.coeff i := by
  have hlen' : (addScaled q t1' k res prod).length = m := by simp [addScaled, hlen]
  have hget : ∀ i, getI ((addScaled q t1' k res prod).set k t1') i =
      if i = k then t1' else if i < k then (getI res i + getI prod i * t1' % q) % q
        else getI res i := by
    intro i
    rw [getI_set, hlen']
    by_cases hik : i = k
    · simp [hik, hk]
    · simp only [hik, false_and, if_false]
      unfold addScaled
      rw [getI_map_range, hlen]
      by_cases him : i < m
      · simp [him]
      · have h1 : ¬ i < k := by omega
        simp [him, h1, getI_of_le res i (by omega)]
  refine ⟨by rw [List.length_set, hlen'], ?_, ?_⟩
  · intro i
    rw [hget]
    by_cases hik : i = k
    · simp only [hik, if_true]; exact ht
    · by_cases hlt : i < k
      · simp only [hik, hlt, if_false, if_true]; exact emod_bounds hq _
      · simp only [hik, hlt, if_false]; exact hb i
  · intro i
    rw [hget]
    by_cases hik : i = k
    · subst hik
      simp only [if_true]
      rw [hPk i le_rfl, hMk, zero_add, mul_one]
    · by_cases hlt : i < k
      · simp only [hik, hlt, if_false, if_true]
        rw [cast_emod hq, Int.cast_add, cast_emod hq, Int.cast_mul, hres, hprod i hlt]
        ring
      · simp only [hik, hlt, if_false]
        rw [hres, hMgt i (by omega), mul_zero, add_zero]

/-- update of `prod` in one round of `interpGo` -/
theorem prod_step (hq : 0 < q) (prod : List Int) (k m : Nat) (aa : Int) (hk : k < m)
    (hlen : prod.length = m) (M M' : Polynomial (ZMod q.natAbs))
    (hM0 : M'.coeff 0 = - (aa : ZMod q.natAbs) * M.coeff 0)
    (hMs : ∀ i, M'.coeff (i + 1) = M.coeff i - (aa : ZMod q.natAbs) * M.coeff (i + 1))
    (hMk : M.coeff k = 1)
    (hprod : ∀ i, i < k → ((getI prod i : Int) : ZMod q.natAbs) = M.coeff i)
    (h0 : k = 0 → ((getI prod 0 : Int) : ZMod q.natAbs) = (aa : ZMod q.natAbs)) :
    (updProd q aa k prod).length = m ∧
    ∀ i, i < k + 1 → ((getI (updProd q aa k prod) i : Int) : ZMod q.natAbs) = M'.coeff i := by
  unfold updProd
  by_cases hk0 : k = 0
  · subst hk0
    simp only [if_true]
    refine ⟨by rw [List.length_set, hlen], ?_⟩
    intro i hi
    have : i = 0 := by omega
    subst this
    rw [getI_set, hlen]
    simp only [hk, and_self, if_true]
    rw [Int.cast_neg, h0 rfl, hM0, hMk, mul_one]
  · simp only [hk0, if_false]
    refine ⟨by simp [hlen], ?_⟩
    intro i hi
    rw [getI_map_range, hlen]
    have him : i < m := by omega
    simp only [him, if_true]
    by_cases hi0 : i = 0
    · subst hi0
      simp only [if_true]
      rw [cast_emod hq, Int.cast_mul, Int.cast_neg, hprod 0 (by omega), hM0]
      ring
    · obtain ⟨i', rfl⟩ : ∃ i', i = i' + 1 := ⟨i - 1, by omega⟩
      simp only [hi0, if_false]
      by_cases hlt : i' + 1 < k
      · simp only [hlt, if_true, Nat.add_sub_cancel]
        rw [cast_emod hq, Int.cast_add, cast_emod hq, Int.cast_mul, Int.cast_neg,
          hprod _ hlt, hprod i' (by omega), hMs]
        ring
      · have hik : i' + 1 = k := by omega
        subst hik
        simp only [hlt, if_false, if_true, Nat.add_sub_cancel]
        rw [cast_emod hq, Int.cast_add, Int.cast_neg, hprod i' (by omega), hMs, hMk]
        ring

open Polynomial in
theorem nodal_succ_coeff_zero {F : Type} [Field F] (v : Nat → F) (k : Nat) :
    (Lagrange.nodal (Finset.range (k + 1)) v).coeff 0 =
      - v k * (Lagrange.nodal (Finset.range k) v).coeff 0 := by
  rw [nodal_succ, sub_mul, coeff_sub, coeff_C_mul, Polynomial.coeff_X_mul_zero]; ring

open Polynomial in
theorem nodal_succ_coeff_succ {F : Type} [Field F] (v : Nat → F) (k i : Nat) :
    (Lagrange.nodal (Finset.range (k + 1)) v).coeff (i + 1) =
      (Lagrange.nodal (Finset.range k) v).coeff i -
        v k * (Lagrange.nodal (Finset.range k) v).coeff (i + 1) := by
  rw [nodal_succ, sub_mul, coeff_sub, coeff_C_mul, coeff_X_mul]

/-- abscissae / ordinates of the input lists as field elements -/
abbrev va (q : Int) (a : List Int) (i : Nat) : ZMod q.natAbs := ((getI a i : Int) : ZMod q.natAbs)

/-- the interpolant through the first `k` points -/
noncomputable abbrev PP (q : Int) [Fact (Nat.Prime q.natAbs)] (a b : List Int) (k : Nat) :
    Polynomial (ZMod q.natAbs) :=
  Lagrange.interpolate (Finset.range k) (va q a) (va q b)

/-- `∏_{i<k} (X - a_i)` -/
noncomputable abbrev MM (q : Int) [Fact (Nat.Prime q.natAbs)] (a : List Int) (k : Nat) :
    Polynomial (ZMod q.natAbs) :=
  Lagrange.nodal (Finset.range k) (va q a)

/-! ### the main loop -/

theorem interpGo_succ (a b : List Int) (m fuel k : Nat) (prod res : List Int) :
    interpGo q a b m (fuel + 1) k prod res =
      match invm (hornerDown q (getI a k) prod k 1) q with
      | none => none
      | some t1i =>
        interpGo q a b m fuel (k + 1) (if k + 1 < m then updProd q (getI a k) k prod else prod)
          ((addScaled q (t1i * ((getI b k - hornerDown q (getI a k) res k 0) % q) % q) k res prod).set k
            (t1i * ((getI b k - hornerDown q (getI a k) res k 0) % q) % q)) := rfl

/-- the loop invariant entering round `k`: `res` holds the coefficients of the interpolant through the
    first `k` points and (while another round follows) `prod` the low `k` coefficients of
    `∏_{i<k} (X - a_i)` -/
structure Inv (q : Int) [Fact (Nat.Prime q.natAbs)] (a b : List Int) (m k : Nat)
    (prod res : List Int) : Prop where
  plen : prod.length = m
  rlen : res.length = m
  bnd : ∀ i, 0 ≤ getI res i ∧ getI res i < q
  hres : ∀ i, ((getI res i : Int) : ZMod q.natAbs) = (PP q a b k).coeff i
  hprod : k < m → ∀ i, i < k → ((getI prod i : Int) : ZMod q.natAbs) = (MM q a k).coeff i
  h0 : k = 0 → ((getI prod 0 : Int) : ZMod q.natAbs) = va q a 0

theorem inv_init (hq : 0 < q) (a b : List Int) :
    Inv q a b a.length 0 a (List.replicate a.length 0) where
  plen := rfl
  rlen := by simp
  bnd := fun i => by rw [getI_replicate]; exact ⟨le_rfl, hq⟩
  hres := fun i => by rw [getI_replicate]; simp [PP]
  hprod := fun _ i hi => by omega
  h0 := fun _ => rfl

/-- the value inverted in round `k` is `∏_{i<k} (a_k - a_i)` -/
theorem t1_val (hq : 0 < q) (a b : List Int) (m k : Nat) (prod res : List Int)
    (hI : Inv q a b m k prod res) (hkm : k < m) :
    ((hornerDown q (getI a k) prod k 1 : Int) : ZMod q.natAbs) = (MM q a k).eval (va q a k) := by
  rw [hornerDown_cast hq, Int.cast_one, one_mul, eval_nodal_range]
  congr 1
  apply Finset.sum_congr rfl
  intro i hi
  rw [hI.hprod hkm i (Finset.mem_range.mp hi)]

/-- one round with abscissae distinct so far: the inversion succeeds and the invariant is kept -/
theorem round_ok (hq : 0 < q) (a b : List Int) (m k : Nat) (prod res : List Int)
    (hI : Inv q a b m k prod res) (hkm : k < m)
    (hvk1 : Set.InjOn (va q a) (Finset.range (k + 1) : Set Nat)) :
    ∃ t1i, invm (hornerDown q (getI a k) prod k 1) q = some t1i ∧
      Inv q a b m (k + 1) (if k + 1 < m then updProd q (getI a k) k prod else prod)
        ((addScaled q (t1i * ((getI b k - hornerDown q (getI a k) res k 0) % q) % q) k res prod).set k
          (t1i * ((getI b k - hornerDown q (getI a k) res k 0) % q) % q)) := by
  obtain ⟨hpl, hrl, hb, hres, hprod, h0⟩ := hI
  have hvk : Set.InjOn (va q a) (Finset.range k : Set Nat) := by
    intro i hi j hj h
    exact hvk1 (by simp at hi ⊢; omega) (by simp at hj ⊢; omega) h
  have hPdeg : (PP q a b k).degree < (k : WithBot Nat) := by
    have := Lagrange.degree_interpolate_lt (va q b) hvk
    rwa [Finset.card_range] at this
  have hPk : ∀ i, k ≤ i → (PP q a b k).coeff i = 0 := by
    intro i hi
    exact Polynomial.coeff_eq_zero_of_degree_lt (lt_of_lt_of_le hPdeg (by exact_mod_cast hi))
  have hMd : (MM q a k).natDegree = k := by
    rw [Lagrange.natDegree_nodal, Finset.card_range]
  have hMk : (MM q a k).coeff k = 1 := by
    have := (Lagrange.nodal_monic (s := Finset.range k) (v := va q a)).coeff_natDegree
    rwa [hMd] at this
  have hMgt : ∀ i, k < i → (MM q a k).coeff i = 0 := by
    intro i hi
    exact Polynomial.coeff_eq_zero_of_natDegree_lt (by rw [hMd]; exact hi)
  have ht1 := t1_val hq a b m k prod res ⟨hpl, hrl, hb, hres, hprod, h0⟩ hkm
  have ht2 : ((hornerDown q (getI a k) res k 0 : Int) : ZMod q.natAbs) =
      (PP q a b k).eval (va q a k) := by
    rw [hornerDown_cast hq, Int.cast_zero, zero_mul, zero_add, eval_of_degree_lt _ k hPdeg]
    apply Finset.sum_congr rfl
    intro i hi
    rw [hres i]
  have hne : ((hornerDown q (getI a k) prod k 1 : Int) : ZMod q.natAbs) ≠ 0 := by
    rw [ht1]; exact eval_nodal_ne_zero (va q a) k hvk1
  obtain ⟨t1i, hinv, hi0, hi1, hiv⟩ := invm_val_q hq _ hne
  refine ⟨t1i, hinv, ?_⟩
  generalize ht1'def : t1i * ((getI b k - hornerDown q (getI a k) res k 0) % q) % q = t1'
  have hbt : 0 ≤ t1' ∧ t1' < q := by rw [← ht1'def]; exact emod_bounds hq _
  have ht1' : ((t1' : Int) : ZMod q.natAbs) =
      (va q b k - (PP q a b k).eval (va q a k)) / (MM q a k).eval (va q a k) := by
    rw [← ht1'def, cast_emod hq, Int.cast_mul, cast_emod hq, Int.cast_sub, hiv, ht1, ht2,
      div_eq_inv_mul]
  obtain ⟨hl', hb', hres'⟩ := res_step hq res prod k m t1' hkm hrl (PP q a b k) (MM q a k)
    hPk hMk hMgt hres (hprod hkm) hb hbt
  have hPsucc : ∀ i, (PP q a b (k + 1)).coeff i =
      (PP q a b k).coeff i + (t1' : ZMod q.natAbs) * (MM q a k).coeff i := by
    intro i
    rw [PP, interp_succ (va q a) (va q b) k hvk1, Polynomial.coeff_add, Polynomial.coeff_C_mul,
      ht1']
  obtain ⟨hpl', hprod'⟩ := prod_step hq prod k m (getI a k) hkm hpl (MM q a k) (MM q a (k + 1))
    (nodal_succ_coeff_zero (va q a) k) (nodal_succ_coeff_succ (va q a) k) hMk (hprod hkm)
    (fun hk0 => by subst hk0; exact h0 rfl)
  refine ⟨?_, hl', hb', fun i => by rw [hres', hPsucc], ?_, fun h => by omega⟩
  · by_cases hk1 : k + 1 < m
    · simp only [hk1, if_true]; exact hpl'
    · simp only [hk1, if_false]; exact hpl
  · intro hk1 i hi
    simp only [hk1, if_true]
    exact hprod' i hi

/-- one round whose abscissa repeats an earlier one: the inversion fails -/
theorem round_fail (hq : 0 < q) (a b : List Int) (m k : Nat) (prod res : List Int)
    (hI : Inv q a b m k prod res) (hkm : k < m)
    (hcol : ∃ i, i < k ∧ va q a i = va q a k) :
    invm (hornerDown q (getI a k) prod k 1) q = none := by
  obtain ⟨i, hik, hva⟩ := hcol
  have ht1 := t1_val hq a b m k prod res hI hkm
  have hz : ((hornerDown q (getI a k) prod k 1 : Int) : ZMod q.natAbs) = 0 := by
    rw [ht1, ← hva]
    exact Lagrange.eval_nodal_at_node (Finset.mem_range.mpr hik)
  have hp1 : 1 < q.natAbs := (Fact.out : Nat.Prime q.natAbs).one_lt
  rw [invm_eq_none_iff hp1]
  intro hg
  rw [ZMod.intCast_zmod_eq_zero_iff_dvd, natAbs_q hq] at hz
  have hd : q ∣ ((Int.gcd (hornerDown q (getI a k) prod k 1) q : Nat) : Int) :=
    Int.dvd_coe_gcd hz (dvd_refl q)
  rw [hg] at hd
  have : q.natAbs ∣ 1 := by
    have := Int.natAbs_dvd_natAbs.mpr hd
    simpa using this
  have := Nat.le_of_dvd Nat.one_pos this
  omega

theorem interpGo_ok (hq : 0 < q) (a b : List Int) (m : Nat)
    (hv : Set.InjOn (va q a) (Finset.range m : Set Nat)) :
    ∀ (fuel k : Nat) (prod res : List Int), fuel + k = m → Inv q a b m k prod res →
      ∃ c, interpGo q a b m fuel k prod res = some c ∧ c.length = m ∧
        (∀ i, 0 ≤ getI c i ∧ getI c i < q) ∧
        (∀ i, ((getI c i : Int) : ZMod q.natAbs) = (PP q a b m).coeff i) := by
  intro fuel
  induction fuel with
  | zero =>
    intro k prod res hfk hI
    have : k = m := by omega
    subst this
    exact ⟨res, rfl, hI.rlen, hI.bnd, hI.hres⟩
  | succ f ih =>
    intro k prod res hfk hI
    have hkm : k < m := by omega
    have hvk1 : Set.InjOn (va q a) (Finset.range (k + 1) : Set Nat) := by
      intro i hi j hj h
      exact hv (by simp at hi ⊢; omega) (by simp at hj ⊢; omega) h
    obtain ⟨t1i, hinv, hI'⟩ := round_ok hq a b m k prod res hI hkm hvk1
    rw [interpGo_succ, hinv]
    exact ih (k + 1) _ _ (by omega) hI'

theorem interpGo_fail (hq : 0 < q) (a b : List Int) (m : Nat) :
    ∀ (fuel k : Nat) (prod res : List Int), fuel + k = m → Inv q a b m k prod res →
      Set.InjOn (va q a) (Finset.range k : Set Nat) →
      (∃ j i, k ≤ j ∧ j < m ∧ i < j ∧ va q a i = va q a j) →
      interpGo q a b m fuel k prod res = none := by
  intro fuel
  induction fuel with
  | zero =>
    intro k prod res hfk _ _ hcol
    obtain ⟨j, i, h1, h2, _, _⟩ := hcol
    omega
  | succ f ih =>
    intro k prod res hfk hI hvk hcol
    have hkm : k < m := by omega
    by_cases hck : ∃ i, i < k ∧ va q a i = va q a k
    · rw [interpGo_succ, round_fail hq a b m k prod res hI hkm hck]
    · have hvk1 : Set.InjOn (va q a) (Finset.range (k + 1) : Set Nat) := by
        intro x hx y hy h
        have hx' : x < k + 1 := by simpa using hx
        have hy' : y < k + 1 := by simpa using hy
        by_cases hxk : x = k
        · by_cases hyk : y = k
          · omega
          · exfalso; apply hck
            exact ⟨y, by omega, by rw [← h, hxk]⟩
        · by_cases hyk : y = k
          · exfalso; apply hck
            exact ⟨x, by omega, by rw [h, hyk]⟩
          · exact hvk (by simp; omega) (by simp; omega) h
      obtain ⟨t1i, hinv, hI'⟩ := round_ok hq a b m k prod res hI hkm hvk1
      rw [interpGo_succ, hinv]
      apply ih (k + 1) _ _ (by omega) hI' hvk1
      obtain ⟨j, i, h1, h2, h3, h4⟩ := hcol
      have hjk : j ≠ k := by
        intro e; subst e; exact hck ⟨i, h3, h4⟩
      exact ⟨j, i, by omega, h2, h3, h4⟩

/-! ### the statements -/

theorem va_eq_iff (hq : 0 < q) (a : List Int) (i j : Nat) :
    va q a i = va q a j ↔ (getI a i - getI a j) % q = 0 := by
  show ((getI a i : Int) : ZMod q.natAbs) = ((getI a j : Int) : ZMod q.natAbs) ↔ _
  rw [ZMod.intCast_eq_intCast_iff, natAbs_q hq]
  constructor
  · intro h; exact Int.emod_eq_zero_of_dvd (Int.ModEq.dvd h.symm)
  · intro h; exact (Int.modEq_of_dvd (Int.dvd_of_emod_eq_zero h)).symm

/-- **Interpolation reproduces the interpolated points.**  For a prime modulus `q` and abscissae that
    are pairwise distinct modulo `q` (they need not lie in `[0, q)`), `tmcg_interpolate_polynom`
    returns `true` and the coefficients `f` it stores (one per point, each in `[0, q)`) satisfy
    `Σ_i f_i · a_k^i ≡ b_k (mod q)` for every point `(a_k, b_k)`. -/
theorem interp_reproduces_points (q : Int) (hprime : Nat.Prime q.natAbs) (hq : 0 < q)
    (a b : List Int)
    (hdist : ∀ i j, i < a.length → j < a.length → (getI a i - getI a j) % q = 0 → i = j) :
    ∃ f, interpolate a b q = some f ∧ f.length = a.length ∧
      (∀ i, i < f.length → 0 ≤ getI f i ∧ getI f i < q) ∧
      ∀ k, k < a.length →
        (∑ i ∈ Finset.range f.length, getI f i * getI a k ^ i) % q = getI b k % q := by
  have : Fact (Nat.Prime q.natAbs) := ⟨hprime⟩
  have hv : Set.InjOn (va q a) (Finset.range a.length : Set Nat) := by
    intro i hi j hj h
    exact hdist i j (by simpa using hi) (by simpa using hj) ((va_eq_iff hq a i j).mp h)
  obtain ⟨c, hc, hcl, hcb, hcv⟩ := interpGo_ok hq a b a.length hv a.length 0 a
    (List.replicate a.length 0) (by omega) (inv_init hq a b)
  refine ⟨c, hc, hcl, fun i _ => hcb i, ?_⟩
  intro k hk
  have hdeg : (PP q a b a.length).degree < (a.length : WithBot Nat) := by
    have := Lagrange.degree_interpolate_lt (va q b) hv
    rwa [Finset.card_range] at this
  have heval : (PP q a b a.length).eval (va q a k) = va q b k :=
    Lagrange.eval_interpolate_at_node (va q b) hv (Finset.mem_range.mpr hk)
  rw [eval_of_degree_lt _ _ hdeg] at heval
  have hcast : (((∑ i ∈ Finset.range c.length, getI c i * getI a k ^ i : Int)) : ZMod q.natAbs) =
      ((getI b k : Int) : ZMod q.natAbs) := by
    rw [hcl, Int.cast_sum]
    refine Eq.trans ?_ heval
    apply Finset.sum_congr rfl
    intro i _
    rw [Int.cast_mul, Int.cast_pow, hcv i]
  rw [ZMod.intCast_eq_intCast_iff, natAbs_q hq] at hcast
  exact hcast

/-- the same with the model's Horner evaluation -/
theorem evalPoly_eq_sum (f : List Int) (x : Int) :
    evalPoly f x = ∑ i ∈ Finset.range f.length, getI f i * x ^ i := by
  induction f with
  | nil => simp [evalPoly]
  | cons c f ih =>
    have h : evalPoly (c :: f) x = c + x * evalPoly f x := rfl
    rw [h, ih, List.length_cons, Finset.sum_range_succ', Finset.mul_sum]
    have h0 : getI (c :: f) 0 = c := rfl
    have hs : ∀ i, getI (c :: f) (i + 1) = getI f i := fun i => rfl
    rw [h0, pow_zero, mul_one, add_comm]
    congr 1
    apply Finset.sum_congr rfl
    intro i _
    rw [hs, pow_succ]; ring

theorem interp_reproduces_points_eval (q : Int) (hprime : Nat.Prime q.natAbs) (hq : 0 < q)
    (a b : List Int)
    (hdist : ∀ i j, i < a.length → j < a.length → (getI a i - getI a j) % q = 0 → i = j) :
    ∃ f, interpolate a b q = some f ∧ f.length = a.length ∧
      ∀ k, k < a.length → evalPoly f (getI a k) % q = getI b k % q := by
  obtain ⟨f, h1, h2, _, h4⟩ := interp_reproduces_points q hprime hq a b hdist
  exact ⟨f, h1, h2, fun k hk => by rw [evalPoly_eq_sum]; exact h4 k hk⟩

/-- **Colliding abscissae are refused.**  If two abscissae are congruent modulo the prime `q`, the
    function returns `false` (in the round of the first abscissa that repeats an earlier one the
    product `∏ (a_k - a_i)` is not invertible). -/
theorem interp_collision_refused (q : Int) (hprime : Nat.Prime q.natAbs) (hq : 0 < q)
    (a b : List Int) (i j : Nat) (hij : i < j) (hj : j < a.length)
    (hc : (getI a i - getI a j) % q = 0) :
    interpolate a b q = none := by
  have : Fact (Nat.Prime q.natAbs) := ⟨hprime⟩
  apply interpGo_fail hq a b a.length a.length 0 a (List.replicate a.length 0) (by omega)
    (inv_init hq a b)
  · intro x hx; simp at hx
  · exact ⟨j, i, Nat.zero_le _, hj, hij, (va_eq_iff hq a i j).mpr hc⟩

/-- the argument check in front of the loops -/
theorem interp_bad_arguments (a b : List Int) (q : Int) (fsize : Nat)
    (h : b.length ≠ a.length ∨ a.length = 0 ∨ fsize ≠ a.length ∨ q = 0) :
    interpolateE a b q fsize = .error .invalidArgument := by
  unfold interpolateE; rw [if_pos h]

theorem interp_good_arguments (a b : List Int) (q : Int) (fsize : Nat)
    (h : ¬ (b.length ≠ a.length ∨ a.length = 0 ∨ fsize ≠ a.length ∨ q = 0)) :
    interpolateE a b q fsize = .ok (interpolate a b q) := by
  unfold interpolateE; rw [if_neg h]

/-- non-vacuity: the line through (1,3), (2,5) modulo 7 is 1 + 2X; a repeated abscissa is refused -/
example : interpolate [1, 2] [3, 5] 7 = some [1, 2] ∧ interpolate [1, 8] [3, 5] 7 = none ∧
    interpolate [9, -5, 3] [3, 5, 0] 7 = none := by decide

/-! ### B. the decision function for generated primes -/

theorem le_bitlen_iff (x : Int) (hx : x ≠ 0) (s : Nat) : s + 1 ≤ bitlen x ↔ 2 ^ s ≤ x.natAbs := by
  unfold bitlen
  have h : x.natAbs ≠ 0 := by simpa using hx
  simp only [h, if_false]
  rw [Nat.add_le_add_iff_right, Nat.le_log2 h]

/-- the five plain safe-prime generators -/
def safeFns : List GenFn := [.sprime, .smprime, .sprimeNaive, .smprimeNaive, .sprimeNoninc]

theorem primeRelOk_safe (fn : GenFn) (hfn : fn ∈ safeFns) (p q k : Int) (psize qsize : Nat)
    (kin : Int) (pp qp : Bool) :
    primeRelOk fn p q k psize qsize kin pp qp = true ↔
      (pp = true ∧ qp = true ∧ 0 < q ∧ p = 2 * q + 1 ∧ qsize ≤ bitlen q ∧ psize ≤ bitlen p) := by
  simp only [safeFns, List.mem_cons, List.not_mem_nil, or_false] at hfn
  rcases hfn with h | h | h | h | h <;> subst h <;> simp [primeRelOk] <;> tauto

theorem primeRelOk_safe2g (p q k : Int) (psize qsize : Nat) (kin : Int) (pp qp : Bool) :
    primeRelOk .sprime2g p q k psize qsize kin pp qp = true ↔
      (pp = true ∧ qp = true ∧ 0 < q ∧ p = 2 * q + 1 ∧ qsize ≤ bitlen q ∧ psize ≤ bitlen p ∧
        p % 8 = 7) := by
  simp [primeRelOk]; tauto

theorem primeRelOk_blum (p q k : Int) (psize qsize : Nat) (kin : Int) (pp qp : Bool) :
    primeRelOk .sprime3mod4 p q k psize qsize kin pp qp = true ↔
      (pp = true ∧ 0 < p ∧ p % 4 = 3 ∧ psize ≤ bitlen p) := by
  simp [primeRelOk]; tauto

theorem primeRelOk_schnorr (p q k : Int) (psize qsize : Nat) (kin : Int) (pp qp : Bool) :
    primeRelOk .lprime p q k psize qsize kin pp qp = true ↔
      (pp = true ∧ qp = true ∧ 0 < p ∧ 0 < q ∧ 0 < k ∧ p = k * q + 1 ∧ Int.gcd k q = 1 ∧
        k % 2 = 0 ∧ psize ≤ bitlen p ∧ qsize ≤ bitlen q) := by
  simp [primeRelOk]; tauto

theorem primeRelOk_prefix (p q k : Int) (psize qsize : Nat) (kin : Int) (pp qp : Bool) :
    primeRelOk .lprimePrefix p q k psize qsize kin pp qp = true ↔
      (pp = true ∧ qp = true ∧ 0 < p ∧ 0 < q ∧ 0 < k ∧ p = k * q + 1 ∧ Int.gcd k q = 1 ∧
        k % 2 = 0 ∧ psize ≤ bitlen p ∧ qsize ≤ bitlen q ∧
        0 < kin ∧ qsize ≤ psize ∧ k = prefixK kin psize qsize) := by
  simp [primeRelOk]; tauto

theorem primeRelOk_ordinary (fn : GenFn) (hfn : fn = .oprime ∨ fn = .oprimeNoninc) (p q k : Int)
    (psize qsize : Nat) (kin : Int) (pp qp : Bool) :
    primeRelOk fn p q k psize qsize kin pp qp = true ↔
      (pp = true ∧ 0 < p ∧ p % 2 = 1 ∧ psize ≤ bitlen p) := by
  rcases hfn with h | h <;> subst h <;> simp [primeRelOk] <;> tauto

/-- "at least the requested size", in numbers: a positive `p` accepted for `psize ≥ 1` is at least
    `2^(psize-1)` -/
theorem size_ok_iff (p : Int) (hp : 0 < p) (psize : Nat) :
    psize + 1 ≤ bitlen p ↔ (2 : Int) ^ psize ≤ p := by
  rw [le_bitlen_iff p (ne_of_gt hp)]
  constructor
  · intro h
    have : ((2 ^ psize : Nat) : Int) ≤ (p.natAbs : Int) := by exact_mod_cast h
    rw [Int.natAbs_of_nonneg hp.le] at this
    exact_mod_cast this
  · intro h
    have h' : ((2 ^ psize : Nat) : Int) ≤ (p.natAbs : Int) := by
      rw [Int.natAbs_of_nonneg hp.le]; exact_mod_cast h
    exact_mod_cast h'

/-- the cofactor derived from a prefix: `prefixGo` multiplies by 62 until the size is reached -/
theorem prefixGo_spec (need : Nat) : ∀ (fuel : Nat) (k : Int),
    ∃ j, prefixGo need fuel k = k * 62 ^ j := by
  intro fuel
  induction fuel with
  | zero => intro k; exact ⟨0, by simp [prefixGo]⟩
  | succ f ih =>
    intro k
    unfold prefixGo
    by_cases h : bitlen k < need
    · simp only [h, if_true]
      obtain ⟨j, hj⟩ := ih (k * 62)
      exact ⟨j + 1, by rw [hj, pow_succ]; ring⟩
    · simp only [h, if_false]
      exact ⟨0, by simp⟩

theorem prefixK_spec (kin : Int) (psize qsize : Nat) :
    ∃ j, prefixK kin psize qsize = kin * 62 ^ j ∨ prefixK kin psize qsize = kin * 62 ^ j + 1 := by
  obtain ⟨j, hj⟩ := prefixGo_spec (psize - qsize) (psize - qsize + 1) kin
  refine ⟨j, ?_⟩
  unfold prefixK
  simp only [hj]
  by_cases h : kin * 62 ^ j % 2 = 1
  · right; simp [h]
  · left; simp [h]

/-- why `tmcg_mpz_sprime2g` insists on `p ≡ 7 (mod 8)`: for a safe prime `p = 2q + 1` of that shape,
    2 is a quadratic residue and generates the subgroup of prime order `q` -/
theorem two_generates (p q : Nat) (hp : p.Prime) (hq : q.Prime) (hpq : p = 2 * q + 1)
    (h8 : p % 8 = 7) : orderOf (2 : ZMod p) = q := by
  have : Fact p.Prime := ⟨hp⟩
  have hp2 : p ≠ 2 := by omega
  obtain ⟨y, hy⟩ := (ZMod.exists_sq_eq_two_iff hp2).mpr (Or.inr h8)
  have hy0 : y ≠ 0 := by
    intro h
    rw [h, mul_zero] at hy
    have h2 : ((2 : Nat) : ZMod p) = 0 := by exact_mod_cast hy
    rw [ZMod.natCast_eq_zero_iff] at h2
    have := Nat.le_of_dvd (by norm_num) h2
    omega
  have hpow : (2 : ZMod p) ^ q = 1 := by
    rw [hy, ← pow_two, ← pow_mul]
    have h := ZMod.pow_card_sub_one_eq_one hy0
    have e : p - 1 = 2 * q := by omega
    rwa [e] at h
  have hdvd := orderOf_dvd_of_pow_eq_one hpow
  rcases (Nat.dvd_prime hq).mp hdvd with h1 | h1
  · exfalso
    rw [orderOf_eq_one_iff] at h1
    have h3 : ((1 : Nat) : ZMod p) = 0 := by
      have : (2 : ZMod p) - 1 = 0 := by rw [h1]; ring
      have h4 : (2 : ZMod p) - 1 = 1 := by ring
      rw [h4] at this
      exact_mod_cast this
    rw [ZMod.natCast_eq_zero_iff] at h3
    have := Nat.le_of_dvd (by norm_num) h3
    omega
  · exact h1

/-- a tuple accepted for `tmcg_mpz_sprime2g` with truthful primality answers: 2 has order `q` mod `p` -/
theorem sprime2g_two_generates (p q k : Int) (psize qsize : Nat) (kin : Int)
    (h : primeRelOk .sprime2g p q k psize qsize kin true true = true)
    (hpp : Nat.Prime p.natAbs) (hqp : Nat.Prime q.natAbs) :
    orderOf (2 : ZMod p.natAbs) = q.natAbs := by
  obtain ⟨_, _, hq0, hpq, _, _, h8⟩ := (primeRelOk_safe2g p q k psize qsize kin true true).mp h
  exact two_generates p.natAbs q.natAbs hpp hqp (by omega) (by omega)

/-! ### C. conversion between the back ends -/

/-- wherever the conversion model answers, nothing is lost -/
theorem mpiRoundtrip_lossless (v w : Int) (h : mpiRoundtrip v = some w) : w = v := by
  unfold mpiRoundtrip at h
  by_cases hc : mpiHexLen v ≤ Gen.TMCG_MAX_VALUE_CHARS - 1
  · rw [if_pos hc] at h; exact (Option.some.inj h).symm
  · rw [if_neg hc] at h; cases h

/-- and it answers for every non-negative integer of at most 16368 bits (`TMCG_MAX_KEYBITS - 16`) and
    every negative one of at most 16360 bits -/
theorem mpiRoundtrip_total (v : Int) (h : bitlen v ≤ 16360 ∨ (0 ≤ v ∧ bitlen v ≤ 16368)) :
    mpiRoundtrip v = some v := by
  unfold mpiRoundtrip
  rw [if_pos]
  unfold mpiHexLen
  have hc : Gen.TMCG_MAX_VALUE_CHARS = 4096 := rfl
  rw [hc]
  by_cases h0 : v = 0
  · subst h0; simp
  · simp only [h0, if_false, false_or]
    rcases h with h | ⟨hv, h⟩
    · split_ifs <;> omega
    · have : ¬ v < 0 := by omega
      simp only [this, if_false]
      split_ifs <;> omega

/-! ### C. the wrapper -/

/-- **One value semantics for both back ends.**  Whenever neither of two modes refuses a call
    (`std::invalid_argument`), the model's outcome is the same; in particular the secure back end
    (mode 1) agrees with the plain one (mode 0) on every call it offers.  The correspondence run
    compares BOTH back ends of the real class with this one model. -/
theorem bigint_backend_independent (m1 m2 : Nat) (op : Op) (a b c : Int)
    (h1 : refused m1 op b = false) (h2 : refused m2 op b = false) :
    bigint m1 op a b c = bigint m2 op a b c := by
  simp [bigint, h1, h2]

/-- the plain back end offers every call -/
theorem plain_never_refuses (op : Op) (b : Int) : refused 0 op b = false := by
  cases op <;> simp [refused, thisSecure, operandSecure]

theorem bigint_secure_eq_plain (op : Op) (a b c : Int) (h : refused 1 op b = false) :
    bigint 1 op a b c = bigint 0 op a b c :=
  bigint_backend_independent 1 0 op a b c h (plain_never_refuses op b)

/-- the calls the secure back end does not offer -/
theorem secure_refuses_iff (op : Op) (b : Int) :
    refused 1 op b = true ↔
      (op ∈ [Op.divUi, .assignSi, .eqUi, .neUi, .eqSi, .neSi, .div2exp, .uiPowUi, .spowm] ∨
        (op = .size ∧ b ≠ 2)) := by
  cases op <;> simp [refused, thisSecure, operandSecure]

theorem bigintSeq_backend_independent (m1 m2 : Nat) (a0 : Int) (ops : List (String × Int)) :
    bigintSeq m1 a0 ops = bigintSeq m2 a0 ops := rfl

/-- on non-negative operands the wrapper's division and remainder are the mathematical ones
    (quotient rounded down, remainder in `[0, b)`) -/
theorem div_mod_nonneg (a b : Int) (ha : 0 ≤ a) (hb : 0 < b) :
    opValue .div a b 0 = .val (a / b) ∧ opValue .mod a b 0 = .val (a % b) ∧
      0 ≤ a % b ∧ a % b < b ∧ b * (a / b) + a % b = a := by
  have hb0 : b ≠ 0 := ne_of_gt hb
  refine ⟨?_, ?_, Int.emod_nonneg _ hb0, Int.emod_lt_of_pos _ hb, Int.mul_ediv_add_emod a b⟩
  · simp [opValue, hb0, Int.tdiv_eq_ediv_of_nonneg ha]
  · simp [opValue, hb0]

/-- non-vacuity of the wrapper model -/
example : bigint 0 .div 17 5 0 = .val 3 ∧ bigint 1 .div 17 5 0 = .val 3 ∧
    bigint 1 .divUi 17 5 0 = .err .invalidArgument ∧ bigint 0 .div 17 0 0 = .domain ∧
    bigint 1 .powm 4 13 497 = .val 445 ∧ bigint 0 .powm 4 13 497 = .val 445 := by decide

end Tmcg.Arith2P
