import TmcgProofs.RbcLiveI
/-
  C14 liveness, part J: the witness of an awaited tag is preserved / created (`ReqAns`).
-/
namespace Tmcg.Rbc
variable {H : Int → Int} {T : Tag → Int} {c : Cfg}

theorem mkMsg_ans (msg : Msg) (v : Int) : mkMsg msg rAnswer v = ansMsg msg.tag v := rfl
theorem mkMsg_req (msg : Msg) (v : Int) : mkMsg msg rRequest v = reqMsg msg.tag v := rfl

theorem reqW_frame {s s' : Sys} {i j : Nat} {τ : Tag} {d : Int} (w : ReqW H c s i τ j d)
    (hlog : ∀ x ∈ s.log, x ∈ s'.log) (hdb : aGet (s'.st i).dbar τ = some d)
    (hreq : fHas (s'.st j).request i τ = true → fHas (s.st j).request i τ = true)
    (hans : fHas (s'.st i).answer j τ = fHas (s.st i).answer j τ)
    (hnew : ∀ m, (j, i, m) ∈ s'.log → m.action = rAnswer → (j, i, m) ∈ s.log) :
    ReqW H c s' i τ j d where
  jle := w.jle
  jh := w.jh
  wf := w.wf
  dbar := hdb
  echo := by obtain ⟨dst, h⟩ := w.echo; exact ⟨dst, hlog _ h⟩
  req := hlog _ w.req
  ans := by
    intro h
    obtain ⟨v, h1, h2⟩ := w.ans (hreq h)
    exact ⟨v, h1, hlog _ h2⟩
  ansOk := fun m h ha ht => w.ansOk m (hnew m h ha) ha ht
  noAns := by rw [hans]; exact w.noAns

/-- preservation of the witness while the tag stays awaited -/
theorem reqW_keep (hy : Hyp H c) {s s' : Sys} (hI : Inv H c s) (hm : Micro H T c s s')
    (hE : EchoHold H c s) {i j : Nat} {τ : Tag} {d : Int} (hi : c.honest i) (hid : τ.id = c.ID)
    (w : ReqW H c s i τ j d) (haw : τ ∈ (s.st i).awaited) (haw' : τ ∈ (s'.st i).awaited) :
    ReqW H c s' i τ j d := by
  have hfr := hm.frame
  have hdb' := dbar_keeps hm w.dbar
  obtain ⟨dst0, hecho⟩ := w.echo
  obtain ⟨v0, hv0, hHv0⟩ := echo_holds hy hI hE hi w.jh hid w.dbar hecho
  cases hm with
  | hk i0 hi0 R s0 hff hR hs0 =>
    refine reqW_frame w hfr.1 hdb' ?_ ?_ ?_
    · intro h; rw [← upd_field (·.request) s.st i0 (hkParty (s.st i0) R) j rfl]; exact h
    · show fHas (upd s.st i0 (hkParty (s.st i0) R) i).answer j τ = _
      rw [upd_field (·.answer) s.st i0 (hkParty (s.st i0) R) i rfl]
    · intro m h ha
      rcases List.mem_append.1 h with h | h
      · exact h
      · have := hs0 _ (mem_tagMsgs.1 h).2
        rw [ha] at this; exact absurd this (by decide)
  | bufDel i0 hi0 e rest m' hff hm' =>
    refine reqW_frame w hfr.1 hdb' ?_ ?_ (fun m h _ => h)
    · intro h
      have := upd_field (·.request) s.st i0 { s.st i0 with
          deliverS := (s.st i0).deliverS.set e.sender.toNat ((s.st i0).dS e.sender.toNat + 1),
          deliverBuf := rest } j rfl
      simp only at this
      rw [← this]; exact h
    · have := upd_field (·.answer) s.st i0 { s.st i0 with
          deliverS := (s.st i0).deliverS.set e.sender.toNat ((s.st i0).dS e.sender.toNat + 1),
          deliverBuf := rest } i rfl
      simp only at this
      show fHas (upd s.st i0 _ i).answer j τ = _
      rw [this]
  | bcast i0 hi0 v rnd =>
    refine reqW_frame w hfr.1 hdb' ?_ ?_ ?_
    · intro h
      have := upd_field (·.request) s.st i0 (broadcast (s.st i0) v rnd).1 j rfl
      rw [← this]; exact h
    · have := upd_field (·.answer) s.st i0 (broadcast (s.st i0) v rnd).1 i rfl
      show fHas (upd s.st i0 _ i).answer j τ = _
      rw [this]
    · intro m h ha
      rcases List.mem_append.1 h with h | h
      · exact h
      · obtain ⟨_, h2⟩ := mem_tagMsgs.1 h
        rw [broadcast_snd] at h2
        have := (mem_sendAll_iff.1 h2).2
        simp only at this
        rw [this] at ha
        exact absurd ha (by simp only [bcMsg]; decide)
  | disp i0 hi0 l msg hl hin q' sd o hD =>
    obtain ⟨r1, r2, r3, r4, r5⟩ := hD.req_ans
    have stj : j ≠ i0 → (upd s.st i0 q' j) = s.st j := fun h => upd_ne _ _ _ _ h
    have sti : i ≠ i0 → (upd s.st i0 q' i) = s.st i := fun h => upd_ne _ _ _ _ h
    -- a new r-answer from `j` to `i` for `τ` carries the payload held by `j`
    have newAns : ∀ m, (i, m) ∈ sd → j = i0 → m.action = rAnswer → m.tag = τ →
        m = ansMsg τ v0 := by
      intro m hm hj0 ha ht
      subst hj0
      rcases r2 with hno | ⟨mb, _, hmb, hsd, _⟩
      · exact absurd ha (hno _ hm)
      · rw [hsd, List.mem_singleton] at hm
        simp only [Prod.mk.injEq] at hm
        obtain ⟨_, rfl⟩ := hm
        have htag : msg.tag = τ := ht
        rw [htag, hv0] at hmb
        cases hmb
        rw [mkMsg_ans, htag]
    refine
      { jle := w.jle, jh := w.jh, wf := w.wf, dbar := hdb',
        echo := ⟨dst0, hfr.1 _ hecho⟩, req := hfr.1 _ w.req, ans := ?_, ansOk := ?_, noAns := ?_ }
    · -- ans
      intro hfl'
      by_cases hfl : fHas (s.st j).request i τ = true
      · obtain ⟨v, h1, h2⟩ := w.ans hfl
        exact ⟨v, h1, hfr.1 _ h2⟩
      · by_cases hj0 : j = i0
        swap
        · exfalso; apply hfl
          have := stj hj0
          have h2 : fHas (upd s.st i0 q' j).request i τ = true := hfl'
          rw [this] at h2; exact h2
        subst hj0
        have h2 : fHas q'.request i τ = true := by
          have : fHas (upd s.st j q' j).request i τ = true := hfl'
          rw [upd_same] at this; exact this
        rcases r3 with h | ⟨h, _, _, hwhat⟩
        · rw [h] at h2; exact absurd h2 hfl
        · rw [h] at h2
          rcases (fHas_fIns _ _ _ _ _).1 h2 with ⟨rfl, rfl⟩ | h3
          swap
          · exact absurd h3 hfl
          rcases hwhat with ⟨mb, hmb, hsd⟩ | hn
          · rw [hv0] at hmb; cases hmb
            refine ⟨v0, hHv0, List.mem_append_right _ (mem_tagMsgs.2 ⟨rfl, ?_⟩)⟩
            rw [hsd, mkMsg_ans]; exact List.mem_singleton.2 rfl
          · rw [hv0] at hn; cases hn
    · -- ansOk
      intro m hlog ha ht
      rcases List.mem_append.1 hlog with h | h
      · exact w.ansOk m h ha ht
      · obtain ⟨hj0, h2⟩ := mem_tagMsgs.1 h
        rw [newAns m h2 hj0 ha ht]
        exact hHv0
    · -- noAns
      by_cases hi0' : i = i0
      swap
      · show fHas (upd s.st i0 q' i).answer j τ = false
        rw [sti hi0']; exact w.noAns
      subst hi0'
      show fHas (upd s.st i q' i).answer j τ = false
      rw [upd_same]
      rcases r4 with h | ⟨h, ha, hwhat⟩
      · rw [h]; exact w.noAns
      · rw [h]
        cases hf : fHas (fIns (s.st i).answer l msg.tag) j τ with
        | false => rfl
        | true =>
          exfalso
          rcases (fHas_fIns _ _ _ _ _).1 hf with ⟨rfl, rfl⟩ | h3
          swap
          · rw [w.noAns] at h3; cases h3
          rcases hwhat with hbad | herase
          · rcases hbad with hn | hc | ⟨db, hdb, hne⟩
            · rw [w.dbar] at hn; cases hn
            · have : (s.st i).awaited.contains msg.tag = true := by simpa using haw
              rw [this] at hc; cases hc
            · rw [w.dbar] at hdb; cases hdb
              rcases hin with hb | hlog
              · exact w.jh.2 hb
              · exact hne (w.ansOk msg hlog ha rfl)
          · have h4 : msg.tag ∈ q'.awaited := by
              have : msg.tag ∈ (upd s.st i q' i).awaited := haw'
              rw [upd_same] at this; exact this
            rw [herase] at h4
            exact (List.Nodup.mem_erase_iff (hI.parties i hi).awNodup).1 h4 |>.1 rfl

theorem reqAns_step (hy : Hyp H c) {s s' : Sys} (hI : Inv H c s) (hI' : Inv H c s')
    (hm : Micro H T c s s') (hE : EchoHold H c s)
    (hFq : FlagLogFor c (·.request) rRequest s) (hFa : FlagLogFor c (·.answer) rAnswer s)
    (hRD : ReqDbar c s) (hAR : AnsReq c s) (ih : ReqAns H c s) : ReqAns H c s' := by
  intro i hi τ haw' hid
  by_cases haw : τ ∈ (s.st i).awaited
  · obtain ⟨j, d, w⟩ := ih i hi τ haw hid
    exact ⟨j, d, reqW_keep hy hI hm hE hi hid w haw haw'⟩
  -- the tag becomes awaited in this step
  have hP := hI.parties i hi
  have hP' := hI'.parties i hi
  cases hm with
  | hk i0 hi0 R s0 hff hR hs0 =>
    exfalso; apply haw
    rw [← upd_field (·.awaited) s.st i0 (hkParty (s.st i0) R) i rfl]; exact haw'
  | bufDel i0 hi0 e rest m' hff hm' =>
    exfalso; apply haw
    have := upd_field (·.awaited) s.st i0 { s.st i0 with
        deliverS := (s.st i0).deliverS.set e.sender.toNat ((s.st i0).dS e.sender.toNat + 1),
        deliverBuf := rest } i rfl
    simp only at this
    rw [← this]; exact haw'
  | bcast i0 hi0 v rnd =>
    exfalso; apply haw
    have := upd_field (·.awaited) s.st i0 (broadcast (s.st i0) v rnd).1 i rfl
    rw [← this]; exact haw'
  | disp i0 hi0 l msg hl hin q' sd o hD =>
    by_cases hi0' : i = i0
    swap
    · exfalso; apply haw
      have : (upd s.st i0 q' i) = s.st i := upd_ne _ _ _ _ hi0'
      rw [← this]; exact haw'
    subst hi0'
    have hst : (upd s.st i q' i) = q' := upd_same _ _ _
    have haw2 : τ ∈ q'.awaited := by rw [← hst]; exact haw'
    obtain ⟨r1, r2, r3, r4, r5⟩ := hD.req_ans
    rcases r5 τ haw2 with h | ⟨hτ, hsd, hact⟩
    · exact absurd h haw
    subst hτ
    rcases r1 with hno | ⟨_, wf, _, _, hdb', hr, hrq, han⟩
    · exfalso
      refine hno (0, mkMsg msg rRequest msg.payload) ?_ rfl
      rw [hsd]; unfold reqList
      exact List.mem_map.2 ⟨0, List.mem_range.2 (by omega), rfl⟩
    -- before the step no digest was fixed, so no r-request had been sent
    have hnone : aGet (s.st i).dbar msg.tag = none := by
      cases hd0 : aGet (s.st i).dbar msg.tag with
      | none => rfl
      | some d0 =>
        exfalso
        have h1 := hP.dbarCnt msg.tag d0 hd0
        have h2 : aGet q'.dbar msg.tag = some d0 := by
          have := dbar_keeps (Micro.disp s i hi l msg hl hin q' sd o hD) (j := i) hd0
          rw [← hst]; exact this
        rw [hdb'] at h2; cases h2
        rw [hP.ct] at hr; omega
    have noReq : ∀ dst m, (i, dst, m) ∈ s.log → m.action = rRequest → m.tag ≠ msg.tag := by
      intro dst m h ha ht
      have := hRD i hi dst m h ha
      rw [ht, hnone] at this; cases this
    have noFlag : ∀ j, c.honest j → fHas (s.st j).request i msg.tag = false := by
      intro j hj
      cases hf : fHas (s.st j).request i msg.tag with
      | false => rfl
      | true =>
        obtain ⟨m, h1, h2, h3⟩ := hFq j hj i hi msg.tag hf
        exact absurd h3 (noReq j m h1 h2)
    have noAnsLog : ∀ j, c.honest j → ∀ m, (j, i, m) ∈ s.log → m.action = rAnswer →
        m.tag ≠ msg.tag := by
      intro j hj m h ha ht
      have := hAR j hj i m h ha
      rw [ht, noFlag j hj] at this; cases this
    -- the echo quorum of the fixed digest
    have hEQ : EQ c (s.log ++ tagMsgs i sd) msg.tag msg.payload := by
      refine hP'.dbarEQ msg.tag msg.payload ?_
      show aGet (upd s.st i q' i).dbar msg.tag = some msg.payload
      rw [hst]; exact hdb'
    obtain ⟨S, hS1, hS2, hS3⟩ := hEQ
    obtain ⟨j, hjS, hj1, hjb⟩ := quorum_pick hy S hS1 hS2
    have hj : c.honest j := ⟨Finset.mem_range.1 (hS1 hjS), hjb⟩
    obtain ⟨dst, m, hm1, hm2, hm3, hm4⟩ := hS3 j hjS hjb
    have hmeq : m = echoMsg msg.tag msg.payload := msg_eq_actMsg m rEcho _ _ hm2 hm3 hm4
    have stj : (upd s.st i q' j).request = (s.st j).request := upd_field (·.request) _ _ _ _ hrq
    refine ⟨j, msg.payload,
      { jle := hj1, jh := hj, wf := ?_, dbar := by show aGet (upd s.st i q' i).dbar _ = _; rw [hst]; exact hdb',
        echo := ⟨dst, by rw [← hmeq]; exact hm1⟩, req := ?_, ans := ?_, ansOk := ?_, noAns := ?_ }⟩
    · obtain ⟨w0, w1, w2⟩ := wf
      rw [hP.cn] at w1
      exact ⟨w0, w1, w2⟩
    · refine List.mem_append_right _ (mem_tagMsgs.2 ⟨rfl, ?_⟩)
      rw [hsd]; unfold reqList
      refine List.mem_map.2 ⟨j, List.mem_range.2 (by rw [hP.ct]; exact hj1), ?_⟩
      rw [mkMsg_req]
    · intro hfl
      have h2 : fHas (upd s.st i q' j).request i msg.tag = true := hfl
      rw [stj, noFlag j hj] at h2; cases h2
    · intro m' hlog ha ht
      exfalso
      rcases List.mem_append.1 hlog with h | h
      · exact noAnsLog j hj m' h ha ht
      · obtain ⟨_, h2⟩ := mem_tagMsgs.1 h
        rw [hsd] at h2; unfold reqList at h2
        obtain ⟨x, _, hx⟩ := List.mem_map.1 h2
        simp only [Prod.mk.injEq] at hx
        rw [← hx.2] at ha
        exact absurd ha (by actdec)
    · show fHas (upd s.st i q' i).answer j msg.tag = false
      rw [hst, han]
      cases hf : fHas (s.st i).answer j msg.tag with
      | false => rfl
      | true =>
        obtain ⟨m', h1, h2, h3⟩ := hFa i hi j hj msg.tag hf
        exact absurd h3 (noAnsLog j hj m' h1 h2)

end Tmcg.Rbc
