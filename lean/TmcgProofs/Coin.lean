import Tmcg.Model.CoinFlip
import TmcgProofs.Group
import Mathlib.Tactic.NormNum.Prime
/-
  C17 (two-party part): the coin flip `JareckiLysyanskayaEDCF::Flip_twoparty` as modelled in
  `Tmcg.CoinFlip.flipTwoParty`.

  * `flip2_agree`            two honest parties, any coins: both return the same coin
                             `(c₀ + c₁) mod q`
  * `flip2_order`            commit-before-reveal, for EVERY peer behaviour: the first action is
                             the commitment (a function of the own coins only); the opening is sent
                             only after a commitment of the peer that passed `CheckElement` has been
                             received
  * `flip2_accept_iff`       exact acceptance condition: a result is returned iff the peer sent a
                             group element `C`, then `a`, `â` with `|a|,|â| < q` that open it
  * `pedersen_binding`       two openings of one commitment with different shares give `log_g h`
  * `pedersen_hiding`        the commitment of the first move is compatible with every share
-/
namespace Tmcg.CoinProofs
open Tmcg Tmcg.Powm Tmcg.Vtmf Tmcg.Grp Tmcg.CoinFlip

/-- the Schnorr group of a coin-flip CRS -/
def grp (C : Crs) : Group := ⟨C.p, C.q, C.g⟩

/-- well-formed CRS: valid group, `h` a member of the order-`q` subgroup -/
structure ValidCrs (C : Crs) : Prop where
  valid : ValidGroup (grp C)
  h_mem : 0 < C.h ∧ C.h < C.p ∧ toF (grp C) C.h ^ C.q.natAbs = 1

variable {C : Crs}

/-- the commitment as a field element -/
noncomputable def com (C : Crs) [Fact (Nat.Prime (grp C).p.natAbs)] (a b : Int) : F (grp C) :=
  toF (grp C) C.g ^ a * toF (grp C) C.h ^ b
/-! ### helpers -/

theorem grp_p (C : Crs) : (grp C).p = C.p := rfl
theorem grp_q (C : Crs) : (grp C).q = C.q := rfl
theorem grp_g (C : Crs) : (grp C).g = C.g := rfl

theorem natAbs_lt_q {G : Group} (hG : ValidGroup G) {x : Int} (h : 0 ≤ x ∧ x < G.q) :
    x.natAbs < G.q.natAbs := by
  have := hG.q_pos; omega

section
variable {G : Group} [Fact (Nat.Prime G.p.natAbs)]

theorem ne_zero_of_pow_q (hG : ValidGroup G) {a : F G} (h : a ^ G.q.natAbs = 1) : a ≠ 0 := by
  rintro rfl
  rw [zero_pow hG.q_prime.ne_zero] at h
  exact zero_ne_one h

theorem pos_of_toF_ne_zero {a : Int} (h0 : 0 ≤ a) (h : toF G a ≠ 0) : 0 < a := by
  rcases Int.lt_or_eq_of_le h0 with h1 | h1
  · exact h1
  · subst h1; exact absurd (by unfold toF; simp) h

/-- `g^m = 1` only for multiples of `q` -/
theorem g_zpow_eq_one (hG : ValidGroup G) (m : Int) (h : toF G G.g ^ m = 1) : G.q ∣ m := by
  have hq := hG.q_pos
  have h1 := zpow_mod_q hG (toF G G.g) (g_pow_q hG) (g_ne_zero hG) m
  rw [h] at h1
  have hr0 : 0 ≤ m % G.q := Int.emod_nonneg _ (ne_of_gt hq)
  have hr1 : m % G.q < G.q := Int.emod_lt_of_pos _ hq
  rw [← pow_natAbs_of_nonneg _ hr0] at h1
  have := g_pow_inj hG (t := (m % G.q).natAbs) (t' := 0) (by omega) (by omega) (by simpa using h1)
  exact Int.dvd_of_emod_eq_zero (by omega)

/-- powers of `g` are equal iff the exponents agree modulo `q` -/
theorem g_zpow_eq_iff (hG : ValidGroup G) (m n : Int) :
    toF G G.g ^ m = toF G G.g ^ n ↔ m ≡ n [ZMOD G.q] := by
  constructor
  · intro h
    have h1 : toF G G.g ^ (n - m) = 1 := by
      rw [zpow_sub₀ (g_ne_zero hG), h, div_self (zpow_ne_zero _ (g_ne_zero hG))]
    exact Int.modEq_iff_dvd.mpr (g_zpow_eq_one hG _ h1)
  · intro h
    rw [← zpow_mod_q hG _ (g_pow_q hG) (g_ne_zero hG) m,
      ← zpow_mod_q hG _ (g_pow_q hG) (g_ne_zero hG) n, h]

/-- either exponentiation routine, selected by the timing-protection flag -/
theorem sel_val (hG : ValidGroup G) (T : Table) (b e : Int) (hT : IsTable G T b)
    (hb : toF G b ≠ 0) (he : e.natAbs < G.q.natAbs) (prot : Bool) :
    ∃ r, (if prot then fspowm T b e G.p else fpowm T b e G.p) = .ok r ∧ 0 ≤ r ∧ r < G.p ∧
      toF G r = toF G b ^ e := by
  cases prot
  · simpa using fpowm_val hG T b e hT hb he
  · simpa using fspowm_val hG T b e hT hb he

end

theorem cg_ne_zero (hC : ValidCrs C) [Fact (Nat.Prime (grp C).p.natAbs)] :
    toF (grp C) C.g ≠ 0 := g_ne_zero hC.valid

theorem cg_pow_q (hC : ValidCrs C) [Fact (Nat.Prime (grp C).p.natAbs)] :
    toF (grp C) C.g ^ C.q.natAbs = 1 := g_pow_q hC.valid

theorem h_ne_zero (hC : ValidCrs C) [Fact (Nat.Prime (grp C).p.natAbs)] :
    toF (grp C) C.h ≠ 0 :=
  ne_zero_of_pow_q hC.valid hC.h_mem.2.2

/-- `h` is a power of `g` -/
theorem h_log (hC : ValidCrs C) [Fact (Nat.Prime (grp C).p.natAbs)] :
    ∃ e : Nat, e < C.q.natAbs ∧ toF (grp C) C.h = toF (grp C) C.g ^ (e : Int) := by
  obtain ⟨e, he, h⟩ := exists_log hC.valid _ hC.h_mem.2.2
  exact ⟨e, he, by rw [zpow_natCast]; exact h⟩

/-- the commitment as a power of `g` -/
theorem com_eq (hC : ValidCrs C) [Fact (Nat.Prime (grp C).p.natAbs)] {e : Nat}
    (he : toF (grp C) C.h = toF (grp C) C.g ^ (e : Int)) (a b : Int) :
    com C a b = toF (grp C) C.g ^ (a + e * b) := by
  unfold com
  rw [he, ← zpow_mul, ← zpow_add₀ (cg_ne_zero hC)]

theorem com_ne_zero (hC : ValidCrs C) [Fact (Nat.Prime (grp C).p.natAbs)] (a b : Int) :
    com C a b ≠ 0 :=
  mul_ne_zero (zpow_ne_zero _ (cg_ne_zero hC)) (zpow_ne_zero _ (h_ne_zero hC))

theorem com_pow_q (hC : ValidCrs C) [Fact (Nat.Prime (grp C).p.natAbs)] (a b : Int) :
    com C a b ^ C.q.natAbs = 1 := by
  obtain ⟨e, -, he⟩ := h_log hC
  rw [com_eq hC he, ← zpow_natCast, ← zpow_mul, mul_comm, zpow_mul, zpow_natCast,
    cg_pow_q hC, one_zpow]

/-! ### the commitment -/

/-- value of the model's `pedersen` (both flavours) for exponents of absolute value below `q` -/
theorem pedersen_val (hC : ValidCrs C) [Fact (Nat.Prime (grp C).p.natAbs)] (a b : Int) (prot : Bool)
    (ha : a.natAbs < C.q.natAbs) (hb : b.natAbs < C.q.natAbs) :
    ∃ r, pedersen C a b prot = .ok r ∧ 0 ≤ r ∧ r < C.p ∧ toF (grp C) r = com C a b := by
  have hG := hC.valid
  obtain ⟨tg, htg⟩ := table_exists hG C.g
  obtain ⟨th, hth⟩ := table_exists hG C.h
  obtain ⟨x, hx, -, -, hxv⟩ := sel_val hG tg C.g a htg (g_ne_zero hG) ha prot
  obtain ⟨y, hy, -, -, hyv⟩ := sel_val hG th C.h b hth (h_ne_zero hC) hb prot
  change precompute C.g C.p (bitlen C.q) = .ok tg at htg
  change precompute C.h C.p (bitlen C.q) = .ok th at hth
  change (if prot = true then fspowm tg C.g a C.p else fpowm tg C.g a C.p) = .ok x at hx
  change (if prot = true then fspowm th C.h b C.p else fpowm th C.h b C.p) = .ok y at hy
  refine ⟨x * y % C.p, ?_, (emod_bounds hG _).1, (emod_bounds hG _).2, ?_⟩
  · unfold pedersen
    cases prot
    · simp only [Bool.false_eq_true, if_false] at hx hy
      simp only [htg, hth, hx, hy, bind, Except.bind, Bool.false_eq_true, if_false]
    · simp only [if_true] at hx hy
      simp only [htg, hth, hx, hy, bind, Except.bind, if_true]
  · rw [← grp_p, toF_emod hG, toF_mul, hxv, hyv]; rfl

/-- the commitment of an in-range pair is a group element (passes `CheckElement`) -/
theorem pedersen_checkElement (hC : ValidCrs C) [Fact (Nat.Prime (grp C).p.natAbs)] (a b r : Int)
    (prot : Bool) (ha : a.natAbs < C.q.natAbs) (hb : b.natAbs < C.q.natAbs)
    (hr : pedersen C a b prot = .ok r) :
    checkElement C r = true := by
  obtain ⟨r', hr', h0, h1, hv⟩ := pedersen_val hC a b prot ha hb
  rw [hr] at hr'
  cases hr'
  unfold checkElement
  refine (checkElement_iff (G := grp C) hC.valid r).mpr ⟨?_, h1, ?_⟩
  · exact pos_of_toF_ne_zero h0 (by rw [hv]; exact com_ne_zero hC a b)
  · rw [hv]; exact com_pow_q hC a b

/-! ### the protocol -/

/-- **agreement**: two honest parties with arbitrary coins in `[0, q)`, each fed the other's three
    lines, both succeed with the same coin `(c₀ + c₁) mod q` -/
theorem flip2_agree (hC : ValidCrs C) [Fact (Nat.Prime (grp C).p.natAbs)] (c0 h0 c1 h1 : Int)
    (hc0 : 0 ≤ c0 ∧ c0 < C.q) (hh0 : 0 ≤ h0 ∧ h0 < C.q)
    (hc1 : 0 ≤ c1 ∧ c1 < C.q) (hh1 : 0 ≤ h1 ∧ h1 < C.q) :
    ∃ C0 C1 o0 o1,
      pedersen C c0 h0 true = .ok C0 ∧ pedersen C c1 h1 true = .ok C1 ∧
      flipTwoParty C c0 h0 [some C1, some c1, some h1] = .ok o0 ∧
      flipTwoParty C c1 h1 [some C0, some c0, some h0] = .ok o1 ∧
      o0.result = some ((c0 + c1) % C.q) ∧ o1.result = some ((c0 + c1) % C.q) ∧
      o0.threw = false ∧ o1.threw = false ∧
      o0.actions = [.send C0, .recv C1, .send c0, .send h0, .recv c1, .recv h1] ∧
      o1.actions = [.send C1, .recv C0, .send c1, .send h1, .recv c0, .recv h0] := by
  have hG := hC.valid
  have a0 : c0.natAbs < C.q.natAbs := natAbs_lt_q (G := grp C) hG hc0
  have b0 : h0.natAbs < C.q.natAbs := natAbs_lt_q (G := grp C) hG hh0
  have a1 : c1.natAbs < C.q.natAbs := natAbs_lt_q (G := grp C) hG hc1
  have b1 : h1.natAbs < C.q.natAbs := natAbs_lt_q (G := grp C) hG hh1
  obtain ⟨C0, hC0, l0, u0, -⟩ := pedersen_val hC c0 h0 true a0 b0
  obtain ⟨C1, hC1, l1, u1, -⟩ := pedersen_val hC c1 h1 true a1 b1
  have e0 := pedersen_checkElement hC c0 h0 C0 true a0 b0 hC0
  have e1 := pedersen_checkElement hC c1 h1 C1 true a1 b1 hC1
  have m0 : C0 % C.p = C0 := Int.emod_eq_of_lt l0 u0
  have m1 : C1 % C.p = C1 := Int.emod_eq_of_lt l1 u1
  refine ⟨C0, C1,
    ⟨[.send C0, .recv C1, .send c0, .send h0, .recv c1, .recv h1], some ((c0 + c1) % C.q), false⟩,
    ⟨[.send C1, .recv C0, .send c1, .send h1, .recv c0, .recv h0], some ((c1 + c0) % C.q), false⟩,
    hC0, hC1, ?_, ?_, ?_⟩
  · unfold flipTwoParty
    simp only [hC0, hC1, bind, Except.bind, pure, Except.pure, e1, m1, ge_iff_le,
      Nat.not_le.mpr a1, Nat.not_le.mpr b1, if_false, Bool.not_true, Bool.false_eq_true,
      ne_eq, not_true_eq_false]
    rfl
  · unfold flipTwoParty
    simp only [hC0, hC1, bind, Except.bind, pure, Except.pure, e0, m0, ge_iff_le,
      Nat.not_le.mpr a0, Nat.not_le.mpr b0, if_false, Bool.not_true, Bool.false_eq_true,
      ne_eq, not_true_eq_false]
    rfl
  · simp [add_comm c1 c0]

/-- the complete case tree of one run: which prefix of the peer's lines was consumed, and the
    outcome in each case -/
theorem flip2_cases (c hc : Int) (peer : List (Option Int)) (o : Outcome)
    (h : flipTwoParty C c hc peer = .ok o) :
    ∃ Ci, pedersen C c hc true = .ok Ci ∧
     ((peer = [] ∨ ∃ r, peer = none :: r) ∧ o = ⟨[.send Ci, .recvFail], none, true⟩ ∨
      ∃ Cj rest, peer = some Cj :: rest ∧
       (checkElement C Cj = false ∧ o = ⟨[.send Ci, .recv Cj], none, false⟩ ∨
        checkElement C Cj = true ∧
         ((rest = [] ∨ ∃ r, rest = none :: r) ∧
            o = ⟨[.send Ci, .recv Cj, .send c, .send hc, .recvFail], none, true⟩ ∨
          ∃ aj rest2, rest = some aj :: rest2 ∧
           (C.q.natAbs ≤ aj.natAbs ∧
              o = ⟨[.send Ci, .recv Cj, .send c, .send hc, .recv aj], none, false⟩ ∨
            aj.natAbs < C.q.natAbs ∧
             ((rest2 = [] ∨ ∃ r, rest2 = none :: r) ∧
                o = ⟨[.send Ci, .recv Cj, .send c, .send hc, .recv aj, .recvFail], none, true⟩ ∨
              ∃ haj rest3, rest2 = some haj :: rest3 ∧
               (C.q.natAbs ≤ haj.natAbs ∧
                  o = ⟨[.send Ci, .recv Cj, .send c, .send hc, .recv aj, .recv haj], none, false⟩ ∨
                haj.natAbs < C.q.natAbs ∧ ∃ lhs, pedersen C aj haj true = .ok lhs ∧
                 (lhs ≠ Cj % C.p ∧
                    o = ⟨[.send Ci, .recv Cj, .send c, .send hc, .recv aj, .recv haj], none, false⟩ ∨
                  lhs = Cj % C.p ∧
                    o = ⟨[.send Ci, .recv Cj, .send c, .send hc, .recv aj, .recv haj],
                      some ((c + aj) % C.q), false⟩))))))) := by
  unfold flipTwoParty at h
  cases hped : pedersen C c hc true with
  | error e => simp [hped, bind, Except.bind] at h
  | ok Ci =>
    refine ⟨Ci, rfl, ?_⟩
    simp only [hped, bind, Except.bind, pure, Except.pure] at h
    rcases peer with _ | ⟨_ | Cj, rest⟩
    · left; simp at h; subst h; simp
    · left; simp at h; subst h; simp
    · right
      refine ⟨Cj, rest, rfl, ?_⟩
      simp only [] at h
      cases hce : checkElement C Cj with
      | false => left; simp [hce] at h; subst h; simp
      | true =>
        right
        refine ⟨rfl, ?_⟩
        simp only [hce, Bool.not_true, Bool.false_eq_true, if_false] at h
        rcases rest with _ | ⟨_ | aj, rest2⟩
        · left; simp at h; subst h; simp
        · left; simp at h; subst h; simp
        · right
          refine ⟨aj, rest2, rfl, ?_⟩
          simp only [] at h
          by_cases haj : C.q.natAbs ≤ aj.natAbs
          · left; simp [haj] at h; subst h; simp [haj]
          · right
            refine ⟨Nat.lt_of_not_le haj, ?_⟩
            simp only [ge_iff_le, haj, if_false] at h
            rcases rest2 with _ | ⟨_ | hj, rest3⟩
            · left; simp at h; subst h; simp
            · left; simp at h; subst h; simp
            · right
              refine ⟨hj, rest3, rfl, ?_⟩
              simp only [] at h
              by_cases hhj : C.q.natAbs ≤ hj.natAbs
              · left; simp [hhj] at h; subst h; simp [hhj]
              · right
                refine ⟨Nat.lt_of_not_le hhj, ?_⟩
                simp only [hhj, if_false] at h
                cases hl : pedersen C aj hj true with
                | error e => simp [hl] at h
                | ok lhs =>
                  refine ⟨lhs, rfl, ?_⟩
                  simp only [hl] at h
                  by_cases hm : lhs = Cj % C.p
                  · right; simp [hm] at h; subst h; simp [hm]
                  · left; simp [hm] at h; subst h; simp [hm]

/-- **commit before reveal**, for every peer: the run starts by sending the own commitment
    (which depends on the own coins only), and the trace is one of
    `[send C, recvFail]`, `[send C, recv Cj]` (peer's commitment refused) or
    `send C :: recv Cj :: send c :: send ĉ :: …` with `Cj` a group element — in particular no
    `send` other than the first occurs before a `recv` of a valid commitment -/
theorem flip2_order (c hc : Int) (peer : List (Option Int)) (o : Outcome)
    (h : flipTwoParty C c hc peer = .ok o) :
    ∃ Ci, pedersen C c hc true = .ok Ci ∧
      (o.actions = [.send Ci, .recvFail] ∧ o.result = none ∨
       (∃ Cj, o.actions = [.send Ci, .recv Cj] ∧ checkElement C Cj = false ∧ o.result = none) ∨
       (∃ Cj rest, o.actions = .send Ci :: .recv Cj :: .send c :: .send hc :: rest ∧
          checkElement C Cj = true ∧ peer.head? = some (some Cj) ∧
          ∀ a ∈ rest, ∀ v, a ≠ .send v)) := by
  obtain ⟨Ci, hCi, hcases⟩ := flip2_cases c hc peer o h
  refine ⟨Ci, hCi, ?_⟩
  rcases hcases with ⟨-, rfl⟩ | ⟨Cj, rest, rfl, hcases⟩
  · left; exact ⟨rfl, rfl⟩
  right
  rcases hcases with ⟨hce, rfl⟩ | ⟨hce, hcases⟩
  · left; exact ⟨Cj, rfl, hce, rfl⟩
  right
  rcases hcases with ⟨-, rfl⟩ | ⟨aj, rest2, rfl, hcases⟩
  · exact ⟨Cj, [.recvFail], rfl, hce, rfl, by simp⟩
  rcases hcases with ⟨-, rfl⟩ | ⟨-, hcases⟩
  · exact ⟨Cj, [.recv aj], rfl, hce, rfl, by simp⟩
  rcases hcases with ⟨-, rfl⟩ | ⟨hj, rest3, rfl, hcases⟩
  · exact ⟨Cj, [.recv aj, .recvFail], rfl, hce, rfl, by simp⟩
  rcases hcases with ⟨-, rfl⟩ | ⟨-, lhs, -, ⟨-, rfl⟩ | ⟨-, rfl⟩⟩
  · exact ⟨Cj, [.recv aj, .recv hj], rfl, hce, rfl, by simp⟩
  · exact ⟨Cj, [.recv aj, .recv hj], rfl, hce, rfl, by simp⟩
  · exact ⟨Cj, [.recv aj, .recv hj], rfl, hce, rfl, by simp⟩

/-- **exact acceptance condition**: a coin is returned iff the peer's three lines are a group
    element, and an in-range opening of exactly that element; the coin is then the sum -/
theorem flip2_accept_iff (c hc : Int) (peer : List (Option Int)) (o : Outcome) (v : Int)
    (h : flipTwoParty C c hc peer = .ok o) :
    o.result = some v ↔
      ∃ Cj aj haj rest, peer = some Cj :: some aj :: some haj :: rest ∧
        checkElement C Cj = true ∧ aj.natAbs < C.q.natAbs ∧ haj.natAbs < C.q.natAbs ∧
        pedersen C aj haj true = .ok (Cj % C.p) ∧ v = (c + aj) % C.q := by
  obtain ⟨Ci, hCi, hcases⟩ := flip2_cases c hc peer o h
  rcases hcases with ⟨hp, rfl⟩ | ⟨Cj, rest, rfl, hcases⟩
  · rcases hp with rfl | ⟨r, rfl⟩ <;> simp
  rcases hcases with ⟨hce, rfl⟩ | ⟨hce, hcases⟩
  · simp [hce]
  rcases hcases with ⟨hp, rfl⟩ | ⟨aj, rest2, rfl, hcases⟩
  · rcases hp with rfl | ⟨r, rfl⟩ <;> simp
  rcases hcases with ⟨hq, rfl⟩ | ⟨haj, hcases⟩
  · simp only [reduceCtorEq, false_iff]
    rintro ⟨Cj', aj', haj', rest', hpe, -, hlt, -⟩
    simp only [List.cons.injEq, Option.some.injEq] at hpe
    obtain ⟨-, rfl, -⟩ := hpe
    omega
  rcases hcases with ⟨hp, rfl⟩ | ⟨hj, rest3, rfl, hcases⟩
  · rcases hp with rfl | ⟨r, rfl⟩ <;> simp
  rcases hcases with ⟨hq, rfl⟩ | ⟨hhj, lhs, hl, ⟨hne, rfl⟩ | ⟨rfl, rfl⟩⟩
  · simp only [reduceCtorEq, false_iff]
    rintro ⟨Cj', aj', haj', rest', hpe, -, -, hlt, -⟩
    simp only [List.cons.injEq, Option.some.injEq] at hpe
    obtain ⟨-, -, rfl, -⟩ := hpe
    omega
  · simp only [reduceCtorEq, false_iff]
    rintro ⟨Cj', aj', haj', rest', hpe, -, -, -, hped, -⟩
    simp only [List.cons.injEq, Option.some.injEq] at hpe
    obtain ⟨rfl, rfl, rfl, -⟩ := hpe
    rw [hl] at hped
    exact hne (by injection hped)
  · constructor
    · intro hv
      simp only [Option.some.injEq] at hv
      exact ⟨Cj, aj, hj, rest3, rfl, hce, haj, hhj, hl, hv.symm⟩
    · rintro ⟨Cj', aj', haj', rest', hpe, -, -, -, -, hv⟩
      simp only [List.cons.injEq, Option.some.injEq] at hpe
      obtain ⟨rfl, rfl, rfl, -⟩ := hpe
      simp [hv]

/-- an opening that does not match the commitment received earlier is rejected -/
theorem flip2_bad_opening_rejected (hC : ValidCrs C) [Fact (Nat.Prime (grp C).p.natAbs)]
    (c hc Cj aj haj : Int) (rest : List (Option Int)) (o : Outcome)
    (h : flipTwoParty C c hc (some Cj :: some aj :: some haj :: rest) = .ok o)
    (hbad : toF (grp C) Cj ≠ com C aj haj) :
    o.result = none := by
  cases hres : o.result with
  | none => rfl
  | some v =>
    exfalso
    obtain ⟨Cj', aj', haj', rest', hpe, -, ha, hb, hped, -⟩ :=
      (flip2_accept_iff c hc _ o v h).mp hres
    simp only [List.cons.injEq, Option.some.injEq] at hpe
    obtain ⟨rfl, rfl, rfl, -⟩ := hpe
    obtain ⟨r, hr, -, -, hv⟩ := pedersen_val hC aj haj true ha hb
    rw [hped] at hr
    cases hr
    apply hbad
    rw [← hv, ← grp_p, toF_emod hC.valid]

/-- **binding**: two accepted openings of the same commitment with different shares (mod `q`)
    reveal the discrete logarithm of `h` to base `g`; so a peer who can open its commitment in two
    ways after seeing the honest share knows `log_g h` -/
theorem pedersen_binding (hC : ValidCrs C) [Fact (Nat.Prime (grp C).p.natAbs)] (a b a' b' : Int)
    (heq : com C a b = com C a' b') (hne : ¬ (a ≡ a' [ZMOD C.q])) :
    ¬ (b ≡ b' [ZMOD C.q]) ∧
    ∃ x : Int, 0 ≤ x ∧ x < C.q ∧ (x * (b' - b) ≡ a - a' [ZMOD C.q]) ∧
      toF (grp C) C.g ^ x = toF (grp C) C.h := by
  obtain ⟨e, he, hlog⟩ := h_log hC
  rw [com_eq hC hlog, com_eq hC hlog] at heq
  have hmod : a + e * b ≡ a' + e * b' [ZMOD C.q] := (g_zpow_eq_iff (G := grp C) hC.valid _ _).mp heq
  have hq := hC.valid.q_pos
  change 0 < C.q at hq
  refine ⟨?_, e, by omega, by omega, ?_, hlog.symm⟩
  · intro hb
    exact hne (Int.ModEq.add_right_cancel (hb.mul_left e) hmod)
  · have h1 := Int.modEq_iff_dvd.mp hmod
    apply Int.modEq_iff_dvd.mpr
    have : a - a' - e * (b' - b) = -(a' + e * b' - (a + e * b)) := by ring
    rw [this]
    exact (dvd_neg).mpr h1

/-- **hiding**: if `h` generates the group (`h ≠ 1`), the commitment sent in the first move is
    consistent with every share: for every `c'` there is a randomiser giving the same commitment -/
theorem pedersen_hiding (hC : ValidCrs C) [Fact (Nat.Prime (grp C).p.natAbs)] (hh : C.h ≠ 1)
    (c hc c' : Int) :
    ∃ hc' : Int, 0 ≤ hc' ∧ hc' < C.q ∧ com C c' hc' = com C c hc := by
  have hG := hC.valid
  obtain ⟨e, he, hlog⟩ := h_log hC
  have hq := hG.q_pos
  change 0 < C.q at hq
  have hqa : ((C.q.natAbs : Nat) : Int) = C.q := natAbs_q (G := grp C) hG
  have he0 : e ≠ 0 := by
    rintro rfl
    apply hh
    have h1 : toF (grp C) C.h = toF (grp C) 1 := by rw [hlog, toF_one]; simp
    exact eq_of_toF_eq hG ⟨hC.h_mem.1.le, hC.h_mem.2.1⟩ ⟨by norm_num, one_lt_p hG⟩ h1
  have hcop : Nat.Coprime e C.q.natAbs :=
    ((Nat.Prime.coprime_iff_not_dvd hG.q_prime).mpr
      (Nat.not_dvd_of_pos_of_lt (Nat.pos_of_ne_zero he0) he)).symm
  obtain ⟨y, hy⟩ := Int.mod_coprime hcop
  rw [hqa] at hy
  refine ⟨(hc + (c - c') * y) % C.q, Int.emod_nonneg _ (ne_of_gt hq), Int.emod_lt_of_pos _ hq, ?_⟩
  rw [com_eq hC hlog, com_eq hC hlog]
  apply (g_zpow_eq_iff (G := grp C) hG _ _).mpr
  change c' + e * ((hc + (c - c') * y) % C.q) ≡ c + e * hc [ZMOD C.q]
  have h1 : (hc + (c - c') * y) % C.q ≡ hc + (c - c') * y [ZMOD C.q] := Int.mod_modEq _ _
  have h2 : c' + e * (hc + (c - c') * y) = c' + e * hc + (c - c') * (e * y) := by ring
  have h3 : c + e * hc = c' + e * hc + (c - c') * 1 := by ring
  calc c' + e * ((hc + (c - c') * y) % C.q)
      ≡ c' + e * (hc + (c - c') * y) [ZMOD C.q] := (h1.mul_left _).add_left _
    _ = c' + e * hc + (c - c') * (e * y) := h2
    _ ≡ c' + e * hc + (c - c') * 1 [ZMOD C.q] := (hy.mul_left _).add_left _
    _ = c + e * hc := h3.symm

/-- non-vacuity: the CRS `p = 23, q = 11, g = 2, h = 3` is valid, and a concrete honest run -/
example : ValidCrs ⟨23, 11, 2, 3⟩ := by
  have hG : ValidGroup (grp ⟨23, 11, 2, 3⟩) :=
    ⟨by decide, by decide, by norm_num [grp], by norm_num [grp], by decide, by decide, by decide,
      by decide⟩
  have := fact_prime hG
  refine ⟨hG, by norm_num, by norm_num, ?_⟩
  rw [← toF_pow, ← toF_one (G := grp ⟨23, 11, 2, 3⟩), toF_eq_iff hG]
  decide

example : (flipTwoParty ⟨23, 11, 2, 3⟩ 4 7 [some 8, some 9, some 2]).toOption.map (·.result) =
    some (some 2) := by
  decide +kernel

end Tmcg.CoinProofs
