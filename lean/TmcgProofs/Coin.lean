import Tmcg.Model.CoinFlip
import TmcgProofs.Group
/-
  C17 (two-party part): the coin flip `JareckiLysyanskayaEDCF::Flip_twoparty` as modelled in
  `Tmcg.CoinFlip.flipTwoParty`.

  * `flip2_agree`            two honest parties, any coins: both return the same coin
                             `(c₀ + c₁) mod q`
  * `flip2_order`            commit-before-reveal, for EVERY peer behaviour: the first action is
                             the commitment (a function of the own coins only); the opening is sent
                             only after a commitment of the peer that passed `CheckElement` has been
                             received
  * `flip2_accept_iff`       exact acceptance condition: a result is returned iff the peer sent a
                             group element `C`, then `a`, `â` with `|a|,|â| < q` that open it
  * `pedersen_binding`       two openings of one commitment with different shares give `log_g h`
  * `pedersen_hiding`        the commitment of the first move is compatible with every share
-/
namespace Tmcg.CoinProofs
open Tmcg Tmcg.Powm Tmcg.Vtmf Tmcg.Grp Tmcg.CoinFlip

/-- the Schnorr group of a coin-flip CRS -/
def grp (C : Crs) : Group := ⟨C.p, C.q, C.g⟩

/-- well-formed CRS: valid group, `h` a member of the order-`q` subgroup -/
structure ValidCrs (C : Crs) : Prop where
  valid : ValidGroup (grp C)
  h_mem : 0 < C.h ∧ C.h < C.p ∧ toF (grp C) C.h ^ C.q.natAbs = 1

variable {C : Crs}

/-- the commitment as a field element -/
noncomputable def com (C : Crs) [Fact (Nat.Prime (grp C).p.natAbs)] (a b : Int) : F (grp C) :=
  toF (grp C) C.g ^ a * toF (grp C) C.h ^ b

/-- value of the model's `pedersen` (both flavours) for exponents of absolute value below `q` -/
theorem pedersen_val (hC : ValidCrs C) [Fact (Nat.Prime (grp C).p.natAbs)] (a b : Int) (prot : Bool)
    (ha : a.natAbs < C.q.natAbs) (hb : b.natAbs < C.q.natAbs) :
    ∃ r, pedersen C a b prot = .ok r ∧ 0 ≤ r ∧ r < C.p ∧ toF (grp C) r = com C a b := by
  sorry

/-- the commitment of an in-range pair is a group element (passes `CheckElement`) -/
theorem pedersen_checkElement (hC : ValidCrs C) [Fact (Nat.Prime (grp C).p.natAbs)] (a b r : Int)
    (prot : Bool) (ha : a.natAbs < C.q.natAbs) (hb : b.natAbs < C.q.natAbs)
    (hr : pedersen C a b prot = .ok r) :
    checkElement C r = true := by
  sorry

/-- **agreement**: two honest parties with arbitrary coins in `[0, q)`, each fed the other's three
    lines, both succeed with the same coin `(c₀ + c₁) mod q` -/
theorem flip2_agree (hC : ValidCrs C) [Fact (Nat.Prime (grp C).p.natAbs)] (c0 h0 c1 h1 : Int)
    (hc0 : 0 ≤ c0 ∧ c0 < C.q) (hh0 : 0 ≤ h0 ∧ h0 < C.q)
    (hc1 : 0 ≤ c1 ∧ c1 < C.q) (hh1 : 0 ≤ h1 ∧ h1 < C.q) :
    ∃ C0 C1 o0 o1,
      pedersen C c0 h0 true = .ok C0 ∧ pedersen C c1 h1 true = .ok C1 ∧
      flipTwoParty C c0 h0 [some C1, some c1, some h1] = .ok o0 ∧
      flipTwoParty C c1 h1 [some C0, some c0, some h0] = .ok o1 ∧
      o0.result = some ((c0 + c1) % C.q) ∧ o1.result = some ((c0 + c1) % C.q) ∧
      o0.threw = false ∧ o1.threw = false ∧
      o0.actions = [.send C0, .recv C1, .send c0, .send h0, .recv c1, .recv h1] ∧
      o1.actions = [.send C1, .recv C0, .send c1, .send h1, .recv c0, .recv h0] := by
  sorry

/-- **commit before reveal**, for every peer: the run starts by sending the own commitment
    (which depends on the own coins only), and the trace is one of
    `[send C, recvFail]`, `[send C, recv Cj]` (peer's commitment refused) or
    `send C :: recv Cj :: send c :: send ĉ :: …` with `Cj` a group element — in particular no
    `send` other than the first occurs before a `recv` of a valid commitment -/
theorem flip2_order (c hc : Int) (peer : List (Option Int)) (o : Outcome)
    (h : flipTwoParty C c hc peer = .ok o) :
    ∃ Ci, pedersen C c hc true = .ok Ci ∧
      (o.actions = [.send Ci, .recvFail] ∧ o.result = none ∨
       (∃ Cj, o.actions = [.send Ci, .recv Cj] ∧ checkElement C Cj = false ∧ o.result = none) ∨
       (∃ Cj rest, o.actions = .send Ci :: .recv Cj :: .send c :: .send hc :: rest ∧
          checkElement C Cj = true ∧ peer.head? = some (some Cj) ∧
          ∀ a ∈ rest, ∀ v, a ≠ .send v)) := by
  sorry

/-- **exact acceptance condition**: a coin is returned iff the peer's three lines are a group
    element, and an in-range opening of exactly that element; the coin is then the sum -/
theorem flip2_accept_iff (c hc : Int) (peer : List (Option Int)) (o : Outcome) (v : Int)
    (h : flipTwoParty C c hc peer = .ok o) :
    o.result = some v ↔
      ∃ Cj aj haj rest, peer = some Cj :: some aj :: some haj :: rest ∧
        checkElement C Cj = true ∧ aj.natAbs < C.q.natAbs ∧ haj.natAbs < C.q.natAbs ∧
        pedersen C aj haj true = .ok (Cj % C.p) ∧ v = (c + aj) % C.q := by
  sorry

/-- an opening that does not match the commitment received earlier is rejected -/
theorem flip2_bad_opening_rejected (hC : ValidCrs C) [Fact (Nat.Prime (grp C).p.natAbs)]
    (c hc Cj aj haj : Int) (rest : List (Option Int)) (o : Outcome)
    (h : flipTwoParty C c hc (some Cj :: some aj :: some haj :: rest) = .ok o)
    (hbad : toF (grp C) Cj ≠ com C aj haj) :
    o.result = none := by
  sorry

/-- **binding**: two accepted openings of the same commitment with different shares (mod `q`)
    reveal the discrete logarithm of `h` to base `g`; so a peer who can open its commitment in two
    ways after seeing the honest share knows `log_g h` -/
theorem pedersen_binding (hC : ValidCrs C) [Fact (Nat.Prime (grp C).p.natAbs)] (a b a' b' : Int)
    (heq : com C a b = com C a' b') (hne : ¬ (a ≡ a' [ZMOD C.q])) :
    ¬ (b ≡ b' [ZMOD C.q]) ∧
    ∃ x : Int, 0 ≤ x ∧ x < C.q ∧ (x * (b' - b) ≡ a - a' [ZMOD C.q]) ∧
      toF (grp C) C.g ^ x = toF (grp C) C.h := by
  sorry

/-- **hiding**: if `h` generates the group (`h ≠ 1`), the commitment sent in the first move is
    consistent with every share: for every `c'` there is a randomiser giving the same commitment -/
theorem pedersen_hiding (hC : ValidCrs C) [Fact (Nat.Prime (grp C).p.natAbs)] (hh : C.h ≠ 1)
    (c hc c' : Int) :
    ∃ hc' : Int, 0 ≤ hc' ∧ hc' < C.q ∧ com C c' hc' = com C c hc := by
  sorry

/-- non-vacuity: the CRS `p = 23, q = 11, g = 2, h = 3` is valid, and a concrete honest run -/
example : ValidCrs ⟨23, 11, 2, 3⟩ := by
  sorry

example : (flipTwoParty ⟨23, 11, 2, 3⟩ 4 7 [some 8, some 9, some 2]).toOption.map (·.result) =
    some (some 2) := by
  sorry

end Tmcg.CoinProofs
