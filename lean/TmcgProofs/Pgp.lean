import Tmcg.Model.Pgp
import Mathlib.Tactic.Ring
import Mathlib.Tactic.Linarith
import Mathlib.Data.List.Basic
import Mathlib.Data.List.Induction
import Mathlib.Data.List.Infix
/-
  C19: the OpenPGP encodings of Tmcg/Model/Pgp.lean conform to RFC 4880 and round-trip:
  radix-64 (round trip, line length), CRC-24 (the byte-wise loop is the polynomial remainder),
  packet body lengths (round trip, disjoint forms, partial lengths), MPIs (round trip below
  2^65535, failure beyond), ASCII armor (round trip, rejection of a wrong checksum).
-/
set_option linter.unusedSimpArgs false
set_option linter.unusedSectionVars false

namespace Tmcg.Pgp
open Tmcg.Gen

/-! ### radix-64 -/

theorem alpha_facts : ∀ i, i < 64 →
    isRadix64Char (alpha i) = true ∧ inv (alpha i) = i ∧ alpha i ≠ CR ∧ alpha i ≠ LF ∧
    alpha i ≠ '-' ∧ alpha i ≠ '=' ∧ alpha i ≠ ' ' ∧ alpha i ≠ '\t' := by decide

theorem misc_char_facts : isRadix64Char CR = false ∧ isRadix64Char LF = false ∧ isRadix64Char '=' = false := by decide

theorem filter_breakLines (c : Nat) (t : Text) :
    (breakLines c t).filter isRadix64Char = t.filter isRadix64Char := by
  induction c, t using breakLines.induct with
  | case1 c => simp [breakLines]
  | case2 c x => simp [breakLines]
  | case3 c x y rest h ih =>
    rw [breakLines, if_pos h]
    simp only [List.filter_cons, misc_char_facts.1, misc_char_facts.2.1] at ih ⊢
    simp [ih]
  | case4 c x y rest h ih =>
    rw [breakLines, if_neg h]
    simp only [List.filter_cons] at ih ⊢
    simp [ih]

/-- the radix-64 digits (6-bit values) of an octet string -/
def sextets : Octets → List Nat
  | a :: b :: c :: rest => a / 4 :: (a % 4 * 16 + b / 16) :: (b % 16 * 4 + c / 64) :: c % 64 :: sextets rest
  | [a, b] => [a / 4, a % 4 * 16 + b / 16, b % 16 * 4]
  | [a] => [a / 4, a % 4 * 16]
  | [] => []

def IsOctets (d : Octets) : Prop := ∀ x ∈ d, x < 256

theorem filter_inv_alpha (i : Nat) (h : i < 64) (t : Text) :
    ((alpha i :: t).filter isRadix64Char).map inv = i :: (t.filter isRadix64Char).map inv := by
  simp [List.filter_cons, (alpha_facts i h).1, (alpha_facts i h).2.1]

theorem filter_encGroups (d : Octets) (hd : IsOctets d) :
    ((encGroups d).filter isRadix64Char).map inv = sextets d := by
  induction d using encGroups.induct with
  | case1 a b c rest ih =>
    have ha : a < 256 := hd a (by simp)
    have hb : b < 256 := hd b (by simp)
    have hc : c < 256 := hd c (by simp)
    have hr : IsOctets rest := fun x hx => hd x (by simp [hx])
    rw [encGroups, sextets, filter_inv_alpha _ (by omega), filter_inv_alpha _ (by omega),
      filter_inv_alpha _ (by omega), filter_inv_alpha _ (by omega), ih hr]
  | case2 a b =>
    have ha : a < 256 := hd a (by simp)
    have hb : b < 256 := hd b (by simp)
    rw [encGroups, sextets, filter_inv_alpha _ (by omega), filter_inv_alpha _ (by omega),
      filter_inv_alpha _ (by omega)]
    simp [List.filter_cons, misc_char_facts.2.2]
  | case3 a =>
    have ha : a < 256 := hd a (by simp)
    rw [encGroups, sextets, filter_inv_alpha _ (by omega), filter_inv_alpha _ (by omega)]
    simp [List.filter_cons, misc_char_facts.2.2]
  | case4 => simp [encGroups, sextets]

theorem decQuads_sextets (d : Octets) (hd : IsOctets d) : decQuads (sextets d) = d := by
  induction d using encGroups.induct with
  | case1 a b c rest ih =>
    have ha : a < 256 := hd a (by simp)
    have hb : b < 256 := hd b (by simp)
    have hc : c < 256 := hd c (by simp)
    have hr : IsOctets rest := fun x hx => hd x (by simp [hx])
    rw [sextets, decQuads, ih hr, quad, if_pos (by omega), if_pos (by omega), if_pos (by omega)]
    have e1 : a / 4 % 64 * 4 + (a % 4 * 16 + b / 16) / 16 % 4 = a := by omega
    have e2 : (a % 4 * 16 + b / 16) % 16 * 16 + (b % 16 * 4 + c / 64) / 4 % 16 = b := by omega
    have e3 : (b % 16 * 4 + c / 64) % 4 * 64 + c % 64 % 64 = c := by omega
    rw [e1, e2, e3]; rfl
  | case2 a b =>
    have ha : a < 256 := hd a (by simp)
    have hb : b < 256 := hd b (by simp)
    rw [sextets, decQuads, quad, if_pos (by omega), if_pos (by omega), if_neg (by omega)]
    have e1 : a / 4 % 64 * 4 + (a % 4 * 16 + b / 16) / 16 % 4 = a := by omega
    have e2 : (a % 4 * 16 + b / 16) % 16 * 16 + (b % 16 * 4) / 4 % 16 = b := by omega
    rw [e1, e2]; rfl
  | case3 a =>
    have ha : a < 256 := hd a (by simp)
    rw [sextets, decQuads, quad, if_pos (by omega), if_neg (by omega), if_neg (by omega)]
    have e1 : a / 4 % 64 * 4 + (a % 4 * 16) / 16 % 4 = a := by omega
    rw [e1]; rfl
  | case4 => rfl

/-- C19: radix-64 decoding inverts the encoding, with and without line breaks -/
theorem radix64_roundtrip (lb : Bool) (data : Octets) (hd : IsOctets data) :
    radix64Decode (radix64Encode lb data) = data := by
  unfold radix64Decode radix64Encode
  cases lb
  · simp only [Bool.false_eq_true, if_false]; rw [filter_encGroups data hd, decQuads_sextets data hd]
  · simp only [if_true]; rw [filter_breakLines, filter_encGroups data hd, decQuads_sextets data hd]



/-- the lines of a text whose line delimiter is CR LF -/
def splitCRLF : Text → List Text
  | [] => [[]]
  | [c] => [[c]]
  | c :: t@(d :: rest) =>
    if c = CR ∧ d = LF then [] :: splitCRLF rest
    else match splitCRLF t with
      | l :: ls => (c :: l) :: ls
      | [] => [[c]]

theorem splitCRLF_cons_ne (x : Char) (R : Text) (hx : x ≠ CR) :
    splitCRLF (x :: R) = match splitCRLF R with
      | l :: ls => (x :: l) :: ls
      | [] => [[x]] := by
  cases R with
  | nil => simp [splitCRLF]
  | cons d rest => rw [splitCRLF, if_neg (by simp [hx])]

theorem splitCRLF_crlf (R : Text) : splitCRLF (CR :: LF :: R) = [] :: splitCRLF R := by
  rw [splitCRLF, if_pos ⟨rfl, rfl⟩]

/-- characters the encoder produces before line breaking -/
def IsR64Out (c : Char) : Prop := (∃ i, i < 64 ∧ c = alpha i) ∨ c = '='

theorem IsR64Out.ne_cr {c : Char} (h : IsR64Out c) : c ≠ CR := by
  rcases h with ⟨i, hi, rfl⟩ | rfl
  · exact (alpha_facts i hi).2.2.1
  · decide

theorem encGroups_out (d : Octets) (hd : IsOctets d) : ∀ c ∈ encGroups d, IsR64Out c := by
  induction d using encGroups.induct with
  | case1 a b c rest ih =>
    have ha : a < 256 := hd a (by simp)
    have hb : b < 256 := hd b (by simp)
    have hc : c < 256 := hd c (by simp)
    have hr : IsOctets rest := fun x hx => hd x (by simp [hx])
    intro x hx
    rw [encGroups] at hx
    simp only [List.mem_cons] at hx
    rcases hx with rfl | rfl | rfl | rfl | hx
    · exact Or.inl ⟨_, by omega, rfl⟩
    · exact Or.inl ⟨_, by omega, rfl⟩
    · exact Or.inl ⟨_, by omega, rfl⟩
    · exact Or.inl ⟨_, by omega, rfl⟩
    · exact ih hr x hx
  | case2 a b =>
    have ha : a < 256 := hd a (by simp)
    have hb : b < 256 := hd b (by simp)
    intro x hx
    rw [encGroups] at hx
    simp only [List.mem_cons, List.not_mem_nil, or_false] at hx
    rcases hx with rfl | rfl | rfl | rfl
    · exact Or.inl ⟨_, by omega, rfl⟩
    · exact Or.inl ⟨_, by omega, rfl⟩
    · exact Or.inl ⟨_, by omega, rfl⟩
    · exact Or.inr rfl
  | case3 a =>
    have ha : a < 256 := hd a (by simp)
    intro x hx
    rw [encGroups] at hx
    simp only [List.mem_cons, List.not_mem_nil, or_false] at hx
    rcases hx with rfl | rfl | rfl | rfl
    · exact Or.inl ⟨_, by omega, rfl⟩
    · exact Or.inl ⟨_, by omega, rfl⟩
    · exact Or.inr rfl
    · exact Or.inr rfl
  | case4 => simp [encGroups]

/-- room left in the current line when the next character gets counter value `c` -/
def room (c : Nat) : Nat := TMCG_OPENPGP_RADIX64_MC - (c - 1) % TMCG_OPENPGP_RADIX64_MC

theorem breakLines_lines (c : Nat) (t : Text) (hc : 1 ≤ c) (ht : ∀ x ∈ t, x ≠ CR) :
    ∃ h tl, splitCRLF (breakLines c t) = h :: tl ∧ h.length ≤ room c ∧
      ∀ l ∈ tl, l.length ≤ TMCG_OPENPGP_RADIX64_MC := by
  induction c, t using breakLines.induct with
  | case1 c => exact ⟨[], [], by simp [breakLines, splitCRLF], by simp, by simp⟩
  | case2 c x =>
    refine ⟨[x], [], by simp [breakLines, splitCRLF], ?_, by simp⟩
    simp only [room, TMCG_OPENPGP_RADIX64_MC, List.length_singleton]; omega
  | case3 c x y rest h ih =>
    obtain ⟨h', tl', e, hl, htl⟩ := ih (by omega) (fun z hz => ht z (by simp [hz]))
    rw [breakLines, if_pos h, splitCRLF_cons_ne _ _ (ht x (by simp)), splitCRLF_crlf, e]
    refine ⟨[x], h' :: tl', rfl, ?_, ?_⟩
    · simp only [room, TMCG_OPENPGP_RADIX64_MC, List.length_singleton]; omega
    · intro l hl'
      simp only [List.mem_cons] at hl'
      rcases hl' with rfl | hl'
      · simp only [room, TMCG_OPENPGP_RADIX64_MC] at hl ⊢; omega
      · exact htl l hl'
  | case4 c x y rest h ih =>
    obtain ⟨h', tl', e, hl, htl⟩ := ih (by omega) (fun z hz => ht z (by simp [hz]))
    rw [breakLines, if_neg h, splitCRLF_cons_ne _ _ (ht x (by simp)), e]
    refine ⟨x :: h', tl', rfl, ?_, htl⟩
    simp only [room, TMCG_OPENPGP_RADIX64_MC, List.length_cons] at hl h ⊢
    omega

/-- C19: no line of the radix-64 text is longer than `TMCG_OPENPGP_RADIX64_MC` = 64 ≤ 76
    characters -/
theorem radix64_lines_le_76 (data : Octets) (hd : IsOctets data) :
    ∀ l ∈ splitCRLF (radix64Encode true data),
      l.length ≤ TMCG_OPENPGP_RADIX64_MC ∧ TMCG_OPENPGP_RADIX64_MC ≤ 76 := by
  intro l hl
  obtain ⟨h, tl, e, hh, htl⟩ := breakLines_lines 1 (encGroups data) (by omega)
    (fun x hx => (encGroups_out data hd x hx).ne_cr)
  simp only [radix64Encode, if_true] at hl
  rw [e] at hl
  refine ⟨?_, by decide⟩
  simp only [List.mem_cons] at hl
  rcases hl with rfl | hl
  · simp only [room, TMCG_OPENPGP_RADIX64_MC] at hh ⊢; omega
  · exact htl l hl


/-! ### CRC-24 -/

/-- polynomials over GF(2) are written as natural numbers: bit `i` is the coefficient of `X^i`,
    `^^^` is addition, `2 * ·` is multiplication by `X`.  The generator of RFC 4880 §6.1 is
    `0x1864CFB` (degree 24).  `reduce t`, for `t` of degree at most 24, subtracts the generator
    when the degree is 24. -/
def reduce (t : Nat) : Nat := if t.testBit 24 then t ^^^ TMCG_OPENPGP_CRC24_POLY else t

/-- remainder of the division of the polynomial `x` by the generator, by the schoolbook
    long division (most significant coefficient first): the remainder of the leading
    coefficients `x / 2` is multiplied by `X`, the next coefficient `x % 2` is brought down, and
    the generator is subtracted when the degree reaches 24 -/
def polyRem (x : Nat) : Nat :=
  if h : x = 0 then 0 else reduce (2 * polyRem (x / 2) + x % 2)
decreasing_by omega

/-- CRC-24 of RFC 4880 §6.1 as a polynomial remainder: the register preset `0xB704CE` followed by
    the message (most significant bit first) followed by 24 zero coefficients, i.e.
    `init · X^(8n) + M · X^24`, reduced modulo the generator -/
def crc24Spec (data : Octets) : Nat :=
  polyRem ((2 ^ (8 * data.length) * TMCG_OPENPGP_CRC24_INIT) ^^^ (2 ^ 24 * fromBE data))

theorem reduce_zero : reduce 0 = 0 := by simp [reduce]

theorem polyRem_eq (x : Nat) : polyRem x = reduce (2 * polyRem (x / 2) + x % 2) := by
  by_cases h : x = 0
  · subst h; rw [polyRem]; simp [reduce_zero]
  · rw [polyRem, dif_neg h]

theorem poly_facts : TMCG_OPENPGP_CRC24_POLY.testBit 24 = true ∧ TMCG_OPENPGP_CRC24_POLY < 2 ^ 25 ∧
    TMCG_OPENPGP_CRC24_INIT < 2 ^ 24 := by decide

theorem reduce_lt (t : Nat) (ht : t < 2 ^ 25) : reduce t < 2 ^ 24 := by
  unfold reduce
  apply Nat.lt_pow_two_of_testBit
  intro i hi
  split
  · rename_i hb
    rw [Nat.testBit_xor]
    rcases Nat.eq_or_lt_of_le hi with rfl | hi'
    · rw [hb, poly_facts.1]; rfl
    · have h25 : (2:Nat) ^ 25 ≤ 2 ^ i := Nat.pow_le_pow_right (by omega) hi'
      rw [Nat.testBit_lt_two_pow (lt_of_lt_of_le ht h25),
        Nat.testBit_lt_two_pow (lt_of_lt_of_le poly_facts.2.1 h25)]; rfl
  · rename_i hb
    rcases Nat.eq_or_lt_of_le hi with rfl | hi'
    · simpa using hb
    · have h25 : (2:Nat) ^ 25 ≤ 2 ^ i := Nat.pow_le_pow_right (by omega) hi'
      exact Nat.testBit_lt_two_pow (lt_of_lt_of_le ht h25)

theorem polyRem_lt (x : Nat) : polyRem x < 2 ^ 24 := by
  induction x using Nat.strong_induction_on with
  | _ x ih =>
    rw [polyRem_eq]
    apply reduce_lt
    by_cases h : x = 0
    · subst h; rw [polyRem]; simp
    · have := ih (x / 2) (by omega)
      omega

theorem reduce_xor (s t : Nat) : reduce (s ^^^ t) = reduce s ^^^ reduce t := by
  unfold reduce
  rw [Nat.testBit_xor]
  cases hs : s.testBit 24 <;> cases ht : t.testBit 24 <;> simp <;>
    (apply Nat.eq_of_testBit_eq; intro i; simp only [Nat.testBit_xor]
     cases s.testBit i <;> cases t.testBit i <;> cases TMCG_OPENPGP_CRC24_POLY.testBit i <;> rfl)

theorem eq_of_div2_mod2 {u v : Nat} (h1 : u / 2 = v / 2) (h2 : u % 2 = v % 2) : u = v := by omega

theorem xor_mod_two (a b : Nat) : (a ^^^ b) % 2 = (a % 2) ^^^ (b % 2) := by
  have := @Nat.xor_mod_two_pow a b 1
  simpa using this

theorem bit_xor_lt (c d : Nat) (hc : c < 2) (hd : d < 2) : c ^^^ d < 2 := by
  have := @Nat.xor_lt_two_pow c d 1 (by simpa using hc) (by simpa using hd)
  simpa using this

theorem two_mul_add_xor (a b c d : Nat) (hc : c < 2) (hd : d < 2) :
    (2 * a + c) ^^^ (2 * b + d) = 2 * (a ^^^ b) + (c ^^^ d) := by
  have hcd := bit_xor_lt c d hc hd
  apply eq_of_div2_mod2
  · rw [Nat.xor_div_two]
    have e1 : (2 * a + c) / 2 = a := by omega
    have e2 : (2 * b + d) / 2 = b := by omega
    have e3 : (2 * (a ^^^ b) + (c ^^^ d)) / 2 = a ^^^ b := by omega
    rw [e1, e2, e3]
  · rw [xor_mod_two]
    have e1 : (2 * a + c) % 2 = c := by omega
    have e2 : (2 * b + d) % 2 = d := by omega
    have e3 : (2 * (a ^^^ b) + (c ^^^ d)) % 2 = c ^^^ d := by omega
    rw [e1, e2, e3]

/-- the remainder is additive -/
theorem polyRem_xor (x y : Nat) : polyRem (x ^^^ y) = polyRem x ^^^ polyRem y := by
  induction x using Nat.strong_induction_on generalizing y with
  | _ x ih =>
    by_cases hx : x = 0
    · subst hx
      have h0 : polyRem 0 = 0 := by rw [polyRem]; simp
      rw [Nat.zero_xor, h0, Nat.zero_xor]
    · rw [polyRem_eq (x ^^^ y), polyRem_eq x, polyRem_eq y, Nat.xor_div_two, ih (x / 2) (by omega),
        xor_mod_two, ← reduce_xor, two_mul_add_xor _ _ _ _ (by omega) (by omega)]

/-- polynomials of degree below 24 are their own remainder -/
theorem polyRem_of_lt (x : Nat) (hx : x < 2 ^ 24) : polyRem x = x := by
  induction x using Nat.strong_induction_on with
  | _ x ih =>
    by_cases h0 : x = 0
    · subst h0; rw [polyRem]; simp
    · rw [polyRem_eq, ih (x / 2) (by omega) (by omega)]
      have e : 2 * (x / 2) + x % 2 = x := by omega
      rw [e, reduce, if_neg]
      rw [Nat.testBit_lt_two_pow hx]; simp

theorem polyRem_two_mul (x : Nat) : polyRem (2 * x) = reduce (2 * polyRem x) := by
  rw [polyRem_eq]
  have e1 : 2 * x / 2 = x := by omega
  have e2 : 2 * x % 2 = 0 := by omega
  rw [e1, e2, Nat.add_zero]

/-- the generator and its multiples by powers of `X` leave no remainder -/
theorem polyRem_poly_mul (k : Nat) : polyRem (2 ^ k * TMCG_OPENPGP_CRC24_POLY) = 0 := by
  induction k with
  | zero =>
    rw [pow_zero, one_mul]
    have h : polyRem TMCG_OPENPGP_CRC24_POLY = reduce TMCG_OPENPGP_CRC24_POLY := by
      rw [polyRem_eq, polyRem_of_lt _ (by decide)]
      rfl
    rw [h, reduce, if_pos poly_facts.1, Nat.xor_self]
  | succ k ih =>
    rw [pow_succ, mul_comm (2 ^ k) 2, mul_assoc, polyRem_two_mul, ih]; rfl

theorem crcStep_eq (s : Nat) : crcStep s = reduce (2 * s) := by
  unfold crcStep reduce
  simp only [Nat.testBit_eq_decide_div_mod_eq, decide_eq_true_eq, mul_comm s 2]

theorem crcStep_polyRem (x : Nat) : crcStep (polyRem x) = polyRem (2 * x) := by
  rw [crcStep_eq, polyRem_two_mul]

theorem mul_add_eq_xor (i a b : Nat) (h : b < 2 ^ i) : 2 ^ i * a + b = (2 ^ i * a) ^^^ b := by
  apply Nat.eq_of_testBit_eq
  intro j
  rw [Nat.testBit_two_pow_mul_add a h, Nat.testBit_xor, Nat.testBit_two_pow_mul]
  by_cases hj : j < i
  · simp [hj, Nat.not_le.mpr hj]
  · have : b < 2 ^ j := lt_of_lt_of_le h (Nat.pow_le_pow_right (by omega) (by omega))
    simp [hj, Nat.le_of_not_lt hj, Nat.testBit_lt_two_pow this]

theorem two_pow_mul_xor (k a b : Nat) : 2 ^ k * (a ^^^ b) = (2 ^ k * a) ^^^ (2 ^ k * b) := by
  have := @Nat.shiftLeft_xor_distrib k a b
  simpa [Nat.shiftLeft_eq, mul_comm] using this

theorem fromBE_append (l : Octets) (b : Nat) : fromBE (l ++ [b]) = fromBE l * 256 + b := by
  simp [fromBE, List.foldl_append]

theorem crcByte_polyRem (x b : Nat) (hb : b < 256) :
    crcByte (polyRem x) b = polyRem (2 ^ 8 * (x ^^^ (b * 0x10000))) := by
  unfold crcByte
  have hb' : b * 0x10000 < 2 ^ 24 := by omega
  rw [← polyRem_of_lt (b * 0x10000) hb', ← polyRem_xor]
  rw [polyRem_of_lt (b * 0x10000) hb']
  simp only [crcStep_polyRem]
  congr 1
  ring

theorem foldl_crcByte (data : Octets) (hd : IsOctets data) :
    data.foldl crcByte TMCG_OPENPGP_CRC24_INIT = crc24Spec data := by
  induction data using List.reverseRecOn with
  | nil =>
    simp only [List.foldl_nil, crc24Spec, List.length_nil, fromBE]
    simp [polyRem_of_lt _ poly_facts.2.2]
  | append_singleton l b ih =>
    have hb : b < 256 := hd b (by simp)
    have hl : IsOctets l := fun x hx => hd x (by simp [hx])
    rw [List.foldl_append, List.foldl_cons, List.foldl_nil, ih hl, crc24Spec, crcByte_polyRem _ _ hb,
      crc24Spec, fromBE_append, List.length_append, List.length_singleton]
    congr 1
    rw [two_pow_mul_xor, two_pow_mul_xor, Nat.xor_assoc]
    congr 1
    · rw [← mul_assoc, ← pow_add]; congr 2; omega
    · have e : fromBE l * 256 + b = 2 ^ 8 * fromBE l + b := by ring
      rw [e, mul_add_eq_xor 8 _ _ (by simpa using hb), two_pow_mul_xor]
      congr 1
      · ring
      · ring

/-- C19: the byte-wise shift-and-xor loop of `CRC24Compute` computes the CRC-24 of RFC 4880 §6.1,
    the remainder of `init · X^(8n) + M · X^24` modulo the generator polynomial -/
theorem crc24_spec (data : Octets) (hd : IsOctets data) : crc24Value data = crc24Spec data := by
  unfold crc24Value
  rw [foldl_crcByte data hd]
  exact Nat.mod_eq_of_lt (polyRem_lt _)


/-! ### packet lengths -/

/-- C19: the body length written by `PacketLengthEncode` is read back by `PacketLengthDecode`
    (new format), whatever follows -/
theorem len_roundtrip (n : Nat) (hn : n < 2 ^ 32) (rest : Octets) (lentype : Nat) :
    packetLengthDecode true lentype (packetLengthEncode n ++ rest) =
      ((packetLengthEncode n).length, n, false) := by
  unfold packetLengthEncode
  split
  · rename_i h
    simp [packetLengthDecode, h]
  · split
    · rename_i h1 h2
      have a1 : ¬ ((n - 192) / 256 + 192 < 192) := by omega
      have a2 : (n - 192) / 256 + 192 < 224 := by omega
      simp only [packetLengthDecode, List.cons_append, List.nil_append, if_true, a1, a2, if_false,
        List.length_cons, List.length_nil]
      refine Prod.ext rfl (Prod.ext ?_ rfl)
      simp only
      omega
    · rename_i h1 h2
      simp only [packetLengthDecode, List.cons_append, List.nil_append, if_true,
        show ¬ ((255:Nat) < 192) by omega, show ¬ ((255:Nat) < 224) by omega, if_false,
        List.length_cons, List.length_nil]
      refine Prod.ext rfl (Prod.ext ?_ rfl)
      simp only
      omega

/-- the four new-format length forms of RFC 4880 §4.2.2 -/
inductive LenForm where
  | f1 | f2 | f5 | fp
  deriving DecidableEq, Repr

/-- the form is a function of the first octet alone -/
def lenForm (a : Nat) : LenForm :=
  if a < 192 then .f1 else if a < 224 then .f2 else if a = 255 then .f5 else .fp

def LenForm.octets : LenForm → Nat
  | .f1 => 1 | .f2 => 2 | .f5 => 5 | .fp => 1

/-- what the decoder does is determined by the first octet: it either fails (too few octets) or
    uses the number of octets of the form of the first octet, and reports a partial length
    exactly for the first octets 224..254 -/
theorem len_decode_form (a : Nat) (rest : Octets) (lentype : Nat) :
    let r := packetLengthDecode true lentype (a :: rest)
    r = (0, 0, false) ∨ (r.1 = (lenForm a).octets ∧ (r.2.2 = true ↔ lenForm a = .fp)) := by
  simp only [packetLengthDecode, lenForm, if_true]
  by_cases h1 : a < 192
  · simp [h1, LenForm.octets]
  · by_cases h2 : a < 224
    · cases rest with
      | nil => simp [h1, h2]
      | cons b r => simp [h1, h2, LenForm.octets]
    · by_cases h3 : a = 255
      · match rest with
        | [] => simp [h1, h2, h3]
        | [_] => simp [h1, h2, h3]
        | [_, _] => simp [h1, h2, h3]
        | [_, _, _] => simp [h1, h2, h3]
        | b :: c :: d :: e :: r => simp [h1, h2, h3, LenForm.octets]
      · simp [h1, h2, h3, LenForm.octets]

/-- C19: the forms are disjoint: two inputs with the same first octet that both decode use the
    same number of octets and agree on the partial flag -/
theorem len_forms_disjoint (a : Nat) (r1 r2 : Octets) (t1 t2 : Nat)
    (h1 : (packetLengthDecode true t1 (a :: r1)).1 ≠ 0)
    (h2 : (packetLengthDecode true t2 (a :: r2)).1 ≠ 0) :
    (packetLengthDecode true t1 (a :: r1)).1 = (packetLengthDecode true t2 (a :: r2)).1 ∧
    (packetLengthDecode true t1 (a :: r1)).2.2 = (packetLengthDecode true t2 (a :: r2)).2.2 := by
  have f1 := len_decode_form a r1 t1
  have f2 := len_decode_form a r2 t2
  simp only at f1 f2
  rcases f1 with f1 | ⟨f1, g1⟩
  · rw [f1] at h1; exact absurd rfl h1
  rcases f2 with f2 | ⟨f2, g2⟩
  · rw [f2] at h2; exact absurd rfl h2
  refine ⟨by rw [f1, f2], ?_⟩
  have : ((packetLengthDecode true t1 (a :: r1)).2.2 = true ↔
      (packetLengthDecode true t2 (a :: r2)).2.2 = true) := by rw [g1, g2]
  cases hx : (packetLengthDecode true t1 (a :: r1)).2.2 <;>
    cases hy : (packetLengthDecode true t2 (a :: r2)).2.2 <;> simp_all

/-- the encoder uses the shortest form: one octet below 192, two octets below 8384, five octets
    otherwise, never a partial length; the value ranges of the forms do not overlap -/
theorem len_encode_form (n : Nat) (hn : n < 2 ^ 32) :
    ∃ a rest, packetLengthEncode n = a :: rest ∧
      lenForm a = (if n < 192 then .f1 else if n < 8384 then .f2 else .f5) := by
  unfold packetLengthEncode
  by_cases h1 : n < 192
  · exact ⟨n, [], by simp [h1], by simp [lenForm, h1]⟩
  · by_cases h2 : n < 8384
    · refine ⟨(n - 192) / 256 + 192, [(n - 192) % 256], by simp [h1, h2], ?_⟩
      have a1 : ¬ ((n - 192) / 256 + 192 < 192) := by omega
      have a2 : (n - 192) / 256 + 192 < 224 := by omega
      simp [lenForm, h1, h2, a2]
    · exact ⟨255, [n / 16777216 % 256, n / 65536 % 256, n / 256 % 256, n % 256], by simp [h1, h2], by simp [lenForm, h1, h2]⟩

/-- the ranges of the decoded lengths by form (octets `< 256`) -/
theorem len_decode_range (a : Nat) (rest : Octets) (lentype : Nat) (ha : a < 256)
    (hr : IsOctets rest) (hu : (packetLengthDecode true lentype (a :: rest)).1 ≠ 0) :
    let len := (packetLengthDecode true lentype (a :: rest)).2.1
    match lenForm a with
    | .f1 => len < 192
    | .f2 => 192 ≤ len ∧ len < 8384
    | .f5 => len < 2 ^ 32
    | .fp => ∃ k, k ≤ 30 ∧ len = 2 ^ k := by
  simp only [packetLengthDecode, lenForm, if_true] at hu ⊢
  by_cases h1 : a < 192
  · simp [h1]
  · by_cases h2 : a < 224
    · cases rest with
      | nil => simp [h1, h2] at hu
      | cons b r =>
        have hb : b < 256 := hr b (by simp)
        simp only [h1, h2, if_false, if_true]
        omega
    · by_cases h3 : a = 255
      · match rest, hr, hu with
        | [], _, hu => simp [h1, h2, h3] at hu
        | [_], _, hu => simp [h1, h2, h3] at hu
        | [_, _], _, hu => simp [h1, h2, h3] at hu
        | [_, _, _], _, hu => simp [h1, h2, h3] at hu
        | b :: c :: d :: e :: r, hr, _ =>
          have hb : b < 256 := hr b (by simp)
          have hc : c < 256 := hr c (by simp)
          have hd : d < 256 := hr d (by simp)
          have he : e < 256 := hr e (by simp)
          simp only [h1, h2, h3, if_false, if_true]
          show b * 16777216 + c * 65536 + d * 256 + e < 4294967296
          omega
      · simp only [h1, h2, h3, if_false]
        exact ⟨a % 32, by omega, rfl⟩

/-- C19: a partial body length (first octet 224..254) is one octet long and denotes the power of
    two `1 << (octet & 0x1F)`, between 1 and 2^30 -/
theorem partial_len_pow2 (a : Nat) (rest : Octets) (lentype : Nat) (h1 : 224 ≤ a) (h2 : a < 255) :
    packetLengthDecode true lentype (a :: rest) = (1, 1 <<< (a &&& 0x1F), true) ∧
    (a &&& 0x1F) ≤ 30 ∧ 1 ≤ 1 <<< (a &&& 0x1F) ∧ 1 <<< (a &&& 0x1F) ≤ 2 ^ 30 := by
  have e : a &&& 0x1F = a % 32 := by
    have := @Nat.and_two_pow_sub_one_eq_mod a 5
    simpa using this
  have hk : a % 32 ≤ 30 := by omega
  rw [e, Nat.one_shiftLeft]
  refine ⟨?_, hk, Nat.one_le_two_pow, Nat.pow_le_pow_right (by omega) hk⟩
  simp only [packetLengthDecode, if_true]
  rw [if_neg (by omega), if_neg (by omega), if_neg (by omega)]


/-! ### multiprecision integers -/

theorem length_toBE (k v : Nat) : (toBE k v).length = k := by
  induction k generalizing v with
  | zero => rfl
  | succ k ih => simp [toBE, ih]

theorem toBE_octets (k v : Nat) : IsOctets (toBE k v) := by
  induction k generalizing v with
  | zero => intro x hx; simp [toBE] at hx
  | succ k ih =>
    intro x hx
    simp only [toBE, List.mem_append, List.mem_singleton] at hx
    rcases hx with hx | rfl
    · exact ih _ x hx
    · omega

theorem fromBE_toBE (k v : Nat) : fromBE (toBE k v) = v % 256 ^ k := by
  induction k generalizing v with
  | zero => simp [toBE, fromBE, Nat.mod_one]
  | succ k ih =>
    rw [toBE, fromBE_append, ih, pow_succ, mul_comm (256 ^ k) 256, Nat.mod_mul]
    ring

theorem lt_two_pow_nbits (v : Nat) : v < 2 ^ nbits v := by
  unfold nbits
  split
  · omega
  · exact Nat.lt_log2_self

theorem nbits_le_iff (v n : Nat) : nbits v ≤ n ↔ v < 2 ^ n := by
  unfold nbits
  split
  · rename_i h; subst h; simp
  · rename_i h
    rw [← Nat.log2_lt h]
    omega

theorem lt_pow_bytes (v : Nat) : v < 256 ^ ((nbits v + 7) / 8) := by
  have h := lt_two_pow_nbits v
  have e : (256:Nat) ^ ((nbits v + 7) / 8) = 2 ^ (8 * ((nbits v + 7) / 8)) := by
    rw [pow_mul]; rfl
  rw [e]
  exact lt_of_lt_of_le h (Nat.pow_le_pow_right (by omega) (by omega))

theorem sumOctets_append (s : Nat) (x y : Octets) :
    sumOctets s (x ++ y) = sumOctets (sumOctets s x) y := by
  simp [sumOctets, List.foldl_append]

/-- the checksum is the sum of the octets modulo 65536 -/
theorem sumOctets_eq (s : Nat) (l : Octets) : sumOctets s l % 65536 = (s + l.sum) % 65536 := by
  induction l generalizing s with
  | nil => simp [sumOctets]
  | cons b l ih =>
    have : sumOctets s (b :: l) = sumOctets ((s + b) % 65536) l := rfl
    rw [this, ih, List.sum_cons]
    omega

/-- C19: every number below 2^65535 (bit count representable in two octets) is read back from its
    MPI encoding, whatever follows it; all octets of the encoding are consumed and enter the
    checksum -/
theorem mpi_roundtrip (v : Nat) (hv : v < 2 ^ 65535) (rest : Octets) (sum : Nat) :
    mpiDecode (mpiEncode v ++ rest) sum =
      ((mpiEncode v).length, some v, sumOctets sum (mpiEncode v)) := by
  have hb : nbits v ≤ 65535 := (nbits_le_iff v 65535).2 hv
  unfold mpiEncode
  simp only [List.cons_append, List.nil_append, mpiDecode]
  have e1 : nbits v / 256 % 256 * 256 + nbits v % 256 = nbits v := by omega
  rw [e1, if_neg (by simp [length_toBE])]
  have e2 : (toBE ((nbits v + 7) / 8) v ++ rest).take ((nbits v + 7) / 8) =
      toBE ((nbits v + 7) / 8) v := by
    rw [List.take_append_of_le_length (by simp [length_toBE])]
    exact List.take_of_length_le (by simp [length_toBE])
  rw [e2, fromBE_toBE, Nat.mod_eq_of_lt (lt_pow_bytes v)]
  refine Prod.ext ?_ (Prod.ext rfl ?_)
  · simp [length_toBE]; omega
  · show sumOctets (sumOctets sum [nbits v / 256 % 256, nbits v % 256]) _ = _
    rw [← sumOctets_append]; rfl

/-- the encoding is canonical: the bit count is exact (no leading zero bits are counted) -/
theorem mpi_encode_minimal (v : Nat) (hv : v < 2 ^ 65535) (h0 : v ≠ 0) :
    ∃ a b body, mpiEncode v = a :: b :: body ∧ a * 256 + b = nbits v ∧
      2 ^ (nbits v - 1) ≤ v ∧ v < 2 ^ nbits v ∧ body.length = (nbits v + 7) / 8 := by
  have hb : nbits v ≤ 65535 := (nbits_le_iff v 65535).2 hv
  refine ⟨_, _, _, rfl, by omega, ?_, lt_two_pow_nbits v, length_toBE _ _⟩
  unfold nbits
  rw [if_neg h0]
  simpa using Nat.log2_self_le h0

theorem take_toBE (k j v : Nat) (h : j ≤ k) : (toBE k v).take j = toBE j (v / 256 ^ (k - j)) := by
  induction k generalizing v with
  | zero => have : j = 0 := by omega
            subst this; simp [toBE]
  | succ k ih =>
    rcases Nat.eq_or_lt_of_le h with rfl | hlt
    · rw [List.take_of_length_le (by simp [length_toBE])]; simp
    · rw [toBE, List.take_append_of_le_length (by simp [length_toBE]; omega), ih _ (by omega)]
      congr 1
      rw [Nat.div_div_eq_div_mul]
      congr 1
      have : k + 1 - j = (k - j) + 1 := by omega
      rw [this, pow_succ, mul_comm]

/-- beyond: a number of 65536 or more bits is written with its bit count cut to 16 bits
    (libgcrypt does not refuse), and is not read back -/
theorem mpi_beyond (v : Nat) (hv : 2 ^ 65535 ≤ v) (rest : Octets) (sum : Nat) :
    (mpiDecode (mpiEncode v ++ rest) sum).2.1 ≠ some v := by
  have hb : 65536 ≤ nbits v := by
    by_contra h
    have := (nbits_le_iff v 65535).1 (by omega)
    omega
  have hpos : 0 < v := lt_of_lt_of_le (by positivity) hv
  unfold mpiEncode
  simp only [List.cons_append, List.nil_append, mpiDecode]
  have e1 : nbits v / 256 % 256 * 256 + nbits v % 256 = nbits v % 65536 := by omega
  rw [e1]
  set k := (nbits v + 7) / 8 with hk
  set j := (nbits v % 65536 + 7) / 8 with hj
  have hjk : j < k := by omega
  rw [if_neg (by simp [length_toBE]; omega)]
  simp only
  rw [List.take_append_of_le_length (by simp [length_toBE]; omega), take_toBE k j v (by omega),
    fromBE_toBE]
  intro h
  have h' := Option.some.inj h
  have h1 : v / 256 ^ (k - j) % 256 ^ j ≤ v / 256 ^ (k - j) := Nat.mod_le _ _
  have h2 : v / 256 ^ (k - j) < v := by
    apply Nat.div_lt_self hpos
    have : 1 ≤ k - j := by omega
    calc 1 < 256 ^ 1 := by norm_num
      _ ≤ 256 ^ (k - j) := Nat.pow_le_pow_right (by omega) this
  omega



/-! ### `std::string::find` -/

theorem findFrom_off (P S : Text) (off : Nat) :
    findFrom P S off = (findFrom P S 0).map (· + off) := by
  induction S generalizing off with
  | nil => unfold findFrom; split <;> simp
  | cons c cs ih =>
    unfold findFrom
    split
    · simp
    · rw [ih (off + 1), ih (0 + 1)]
      cases findFrom P cs 0 <;> simp
      omega

theorem findFrom_nil (P : Text) (hP : P ≠ []) (off : Nat) : findFrom P [] off = none := by
  unfold findFrom
  cases P with
  | nil => exact absurd rfl hP
  | cons => simp

/-- the pattern occurs at the front -/
theorem findFrom_prefix (P R : Text) (hP : P ≠ []) (off : Nat) : findFrom P (P ++ R) off = some off := by
  cases P with
  | nil => exact absurd rfl hP
  | cons p P' =>
    rw [List.cons_append, findFrom, if_pos]
    rw [← List.cons_append, List.isPrefixOf_iff_prefix]
    exact List.prefix_append _ _

/-- a stretch without the first character of the pattern is skipped -/
theorem findFrom_skip (p : Char) (P' A B : Text) (off : Nat) (hA : ∀ c ∈ A, c ≠ p) :
    findFrom (p :: P') (A ++ B) off = findFrom (p :: P') B (off + A.length) := by
  induction A generalizing off with
  | nil => simp
  | cons a A ih =>
    have ha : a ≠ p := hA a (by simp)
    rw [List.cons_append, findFrom, if_neg, ih (off + 1) (fun c hc => hA c (by simp [hc]))]
    · simp only [List.length_cons]; congr 1; omega
    · rw [List.isPrefixOf_cons_cons]
      simp [Ne.symm ha]

theorem isPrefixOf_append_of_not_mem (P X Y : Text) (c : Char) (hc : c ∉ P) :
    P.isPrefixOf (X ++ c :: Y) = P.isPrefixOf X := by
  induction P generalizing X with
  | nil => simp
  | cons p P ih =>
    have hpc : p ≠ c := fun h => hc (by simp [h])
    have hc' : c ∉ P := fun h => hc (by simp [h])
    cases X with
    | nil => simp [List.isPrefixOf_cons_cons, hpc]
    | cons x X => simp [List.isPrefixOf_cons_cons, ih X hc']

/-- a character that is not in the pattern separates the search -/
theorem findFrom_sep (P X Y : Text) (c : Char) (off : Nat) (hP : P ≠ []) (hc : c ∉ P) :
    findFrom P (X ++ c :: Y) off =
      (findFrom P X off).orElse (fun _ => findFrom P Y (off + X.length + 1)) := by
  induction X generalizing off with
  | nil =>
    cases P with
    | nil => exact absurd rfl hP
    | cons p P' =>
      have hpc : p ≠ c := fun h => hc (by simp [h])
      simp [findFrom, List.isPrefixOf_cons_cons, hpc]
  | cons x X ih =>
    rw [List.cons_append, findFrom, findFrom, ← List.cons_append, isPrefixOf_append_of_not_mem _ _ _ _ hc]
    split
    · simp
    · rw [ih (off + 1)]
      simp only [List.length_cons]
      congr 1
      funext _
      congr 1
      omega

theorem findFrom_eq_none_iff (P X : Text) (off : Nat) : findFrom P X off = none ↔ ¬ P <:+: X := by
  induction X generalizing off with
  | nil =>
    unfold findFrom
    cases P <;> simp
  | cons c cs ih =>
    rw [findFrom, List.infix_cons_iff]
    split
    · rename_i h; simp [List.isPrefixOf_iff_prefix.1 h]
    · rename_i h
      rw [ih]
      have : ¬ P <+: c :: cs := fun hp => h (List.isPrefixOf_iff_prefix.2 hp)
      simp [this]

/-- a line without the pattern, ended by a character foreign to the pattern, is skipped -/
theorem findFrom_line (P X Y : Text) (c : Char) (off : Nat) (hP : P ≠ []) (hc : c ∉ P)
    (hX : ¬ P <:+: X) : findFrom P (X ++ c :: Y) off = findFrom P Y (off + X.length + 1) := by
  rw [findFrom_sep P X Y c off hP hc, (findFrom_eq_none_iff P X off).2 hX]; rfl

/-- searching from a position at or before the first occurrence finds the first occurrence -/
theorem find_mono (P S : Text) (e p : Nat) (h : findFrom P S 0 = some e) (hp : p ≤ e) :
    find P S p = some e := by
  induction S generalizing e p with
  | nil =>
    unfold findFrom at h
    split at h
    · have : e = 0 := by simpa using h.symm
      subst this
      have : p = 0 := by omega
      subst this
      simp [find, findFrom, *]
    · simp at h
  | cons c cs ih =>
    cases p with
    | zero => simpa [find] using h
    | succ p =>
      rw [findFrom] at h
      split at h
      · have : e = 0 := by simpa using h.symm
        omega
      · rw [findFrom_off] at h
        cases hq : findFrom P cs 0 with
        | none => rw [hq] at h; simp at h
        | some e' =>
          rw [hq] at h
          have he : e = e' + 1 := by simpa using h.symm
          have := ih e' p hq (by omega)
          unfold find at this ⊢
          have hlen : p + 1 ≤ (c :: cs).length ↔ p ≤ cs.length := by simp
          simp only [hlen, List.drop_succ_cons]
          by_cases hl : p ≤ cs.length
          · rw [if_pos hl, findFrom_off] at this ⊢
            cases hr : findFrom P (List.drop p cs) 0 with
            | none => rw [hr] at this; simp at this
            | some r =>
              rw [hr] at this
              simp only [Option.map_some, Option.some.injEq] at this ⊢
              omega
          · rw [if_neg hl] at this; simp at this

/-- `find` from the start -/
theorem find_zero (P S : Text) : find P S 0 = findFrom P S 0 := by simp [find]


/-! ### ASCII armor -/

/-- removal of blanks, tabs and carriage returns (second stage of `ArmorDecode`) -/
def strip (t : Text) : Text := t.filter (fun c => !isArmorBlank c)
def dash5 : Text := "-----".toList

theorem strip_append (a b : Text) : strip (a ++ b) = strip a ++ strip b := by simp [strip]

theorem strip_eq_self (t : Text) (h : ∀ c ∈ t, isArmorBlank c = false) : strip t = t := by
  unfold strip
  rw [List.filter_eq_self]
  intro c hc; simp [h c hc]

theorem IsR64Out.facts {c : Char} (h : IsR64Out c) :
    c ≠ CR ∧ c ≠ LF ∧ c ≠ '-' ∧ isArmorBlank c = false := by
  rcases h with ⟨i, hi, rfl⟩ | rfl
  · have f := alpha_facts i hi
    refine ⟨f.2.2.1, f.2.2.2.1, f.2.2.2.2.1, ?_⟩
    simp [isArmorBlank, f.2.2.2.2.2.2.1, f.2.2.2.2.2.2.2, f.2.2.1]
  · decide

theorem breakLines_ne (n : Nat) (x y : Char) (r : Text) (h : n % TMCG_OPENPGP_RADIX64_MC ≠ 0) :
    breakLines n (x :: y :: r) = x :: breakLines (n + 1) (y :: r) := by
  rw [breakLines, if_neg h]
theorem breakLines_eq (n : Nat) (x y : Char) (r : Text) (h : n % TMCG_OPENPGP_RADIX64_MC = 0) :
    breakLines n (x :: y :: r) = x :: CR :: LF :: breakLines (n + 1) (y :: r) := by
  rw [breakLines, if_pos h]

theorem breakLines_mem (n : Nat) (t : Text) : ∀ c ∈ breakLines n t, c ∈ t ∨ c = CR ∨ c = LF := by
  induction n, t using breakLines.induct with
  | case1 n => simp [breakLines]
  | case2 n x => simp [breakLines]
  | case3 n x y rest h ih =>
    rw [breakLines_eq _ _ _ _ h]
    intro c hc
    simp only [List.mem_cons] at hc ih ⊢
    rcases hc with rfl | rfl | rfl | hc
    · simp
    · simp
    · simp
    · rcases ih c hc with h | h | h <;> simp [h]
  | case4 n x y rest h ih =>
    rw [breakLines_ne _ _ _ _ h]
    intro c hc
    simp only [List.mem_cons] at hc ih ⊢
    rcases hc with rfl | hc
    · simp
    · rcases ih c hc with h | h | h <;> simp [h]

theorem breakLines_length_ge (n : Nat) (t : Text) : t.length ≤ (breakLines n t).length := by
  induction n, t using breakLines.induct with
  | case1 n => simp [breakLines]
  | case2 n x => simp [breakLines]
  | case3 n x y rest h ih => rw [breakLines_eq _ _ _ _ h]; simp only [List.length_cons] at ih ⊢; omega
  | case4 n x y rest h ih => rw [breakLines_ne _ _ _ _ h]; simp only [List.length_cons] at ih ⊢; omega

/-- no line feed is followed by `=` -/
def okLE : Text → Prop
  | c :: t@(d :: _) => ¬ (c = LF ∧ d = '=') ∧ okLE t
  | _ => True

theorem okLE_cons_ne (x : Char) (t : Text) (hx : x ≠ LF) (ht : okLE t) : okLE (x :: t) := by
  cases t with
  | nil => simp [okLE]
  | cons d r => rw [okLE]; exact ⟨fun h => hx h.1, ht⟩

theorem okLE_cons_cons (x d : Char) (t : Text) (hd : d ≠ '=') (ht : okLE (d :: t)) : okLE (x :: d :: t) := by
  rw [okLE]; exact ⟨fun h => hd h.2, ht⟩

theorem findFrom_okLE (W rest : Text) (off : Nat) (h : okLE W) :
    findFrom [LF, '='] (W ++ LF :: '=' :: rest) off = some (off + W.length) := by
  induction W generalizing off with
  | nil => simp [findFrom, List.isPrefixOf_cons_cons]
  | cons c t ih =>
    have hn : ¬ List.isPrefixOf [LF, '='] (c :: t ++ LF :: '=' :: rest) = true := by
      cases t with
      | nil =>
        simp only [List.cons_append, List.nil_append, List.isPrefixOf_cons_cons]
        have : ('=' == LF) = false := by decide
        simp [this]
      | cons d r =>
        rw [okLE] at h
        simp only [List.cons_append, List.isPrefixOf_cons_cons]
        intro hh
        simp only [Bool.and_eq_true, beq_iff_eq] at hh
        exact h.1 ⟨hh.1.symm, hh.2.1.symm⟩
    have ht : okLE t := by
      cases t with
      | nil => simp [okLE]
      | cons d r => rw [okLE] at h; exact h.2
    rw [List.cons_append, findFrom, if_neg (by simpa using hn), ih (off + 1) ht]
    simp only [List.length_cons]; congr 1; omega

theorem encGroups_ne_nil (d : Octets) (h : d ≠ []) : encGroups d ≠ [] := by
  match d, h with
  | [_], _ => simp [encGroups]
  | [_, _], _ => simp [encGroups]
  | _ :: _ :: _ :: _, _ => simp [encGroups]

theorem strip_r64 (c : Char) (t : Text) (hc : IsR64Out c) : strip (c :: t) = c :: strip t := by
  simp [strip, hc.facts.2.2.2]
theorem strip_crlf (t : Text) : strip (CR :: LF :: t) = LF :: strip t := by
  have h1 : isArmorBlank CR = true := by decide
  have h2 : isArmorBlank LF = false := by decide
  simp [strip, h1, h2]

/-- shape of the radix-64 text after the carriage returns are gone -/
theorem b64_shape (n : Nat) (d : Octets) (hn : n % 4 = 1) (hd : IsOctets d) :
    okLE (strip (breakLines n (encGroups d))) ∧
    (d ≠ [] → ∃ i t, i < 64 ∧ strip (breakLines n (encGroups d)) = alpha i :: t) := by
  induction d using encGroups.induct generalizing n with
  | case1 a b c rest ih =>
    have ha : a < 256 := hd a (by simp)
    have hb : b < 256 := hd b (by simp)
    have hc : c < 256 := hd c (by simp)
    have hr : IsOctets rest := fun x hx => hd x (by simp [hx])
    have o1 : IsR64Out (alpha (a / 4)) := Or.inl ⟨_, by omega, rfl⟩
    have o2 : IsR64Out (alpha (a % 4 * 16 + b / 16)) := Or.inl ⟨_, by omega, rfl⟩
    have o3 : IsR64Out (alpha (b % 16 * 4 + c / 64)) := Or.inl ⟨_, by omega, rfl⟩
    have o4 : IsR64Out (alpha (c % 64)) := Or.inl ⟨_, by omega, rfl⟩
    have m1 : n % TMCG_OPENPGP_RADIX64_MC ≠ 0 := by simp only [TMCG_OPENPGP_RADIX64_MC]; omega
    have m2 : (n + 1) % TMCG_OPENPGP_RADIX64_MC ≠ 0 := by simp only [TMCG_OPENPGP_RADIX64_MC]; omega
    have m3 : (n + 1 + 1) % TMCG_OPENPGP_RADIX64_MC ≠ 0 := by simp only [TMCG_OPENPGP_RADIX64_MC]; omega
    rw [encGroups, breakLines_ne _ _ _ _ m1, breakLines_ne _ _ _ _ m2, breakLines_ne _ _ _ _ m3,
      strip_r64 _ _ o1, strip_r64 _ _ o2, strip_r64 _ _ o3]
    have key : okLE (strip (breakLines (n + 1 + 1 + 1) (alpha (c % 64) :: encGroups rest))) := by
      by_cases hrest : rest = []
      · subst hrest
        simp only [encGroups, breakLines]
        rw [strip_r64 _ _ o4]
        exact okLE_cons_ne _ _ o4.facts.2.1 (by simp [strip, okLE])
      · obtain ⟨y, E, hE⟩ := List.exists_cons_of_ne_nil (encGroups_ne_nil rest hrest)
        obtain ⟨ok, hh⟩ := ih (n + 1 + 1 + 1 + 1) (by omega) hr
        obtain ⟨j, t', hj, ht'⟩ := hh hrest
        rw [hE] at ok ht' ⊢
        by_cases m4 : (n + 1 + 1 + 1) % TMCG_OPENPGP_RADIX64_MC = 0
        · rw [breakLines_eq _ _ _ _ m4, strip_r64 _ _ o4, strip_crlf, ht']
          rw [ht'] at ok
          exact okLE_cons_ne _ _ o4.facts.2.1 (okLE_cons_cons _ _ _ (alpha_facts j hj).2.2.2.2.2.1 ok)
        · rw [breakLines_ne _ _ _ _ m4, strip_r64 _ _ o4]
          exact okLE_cons_ne _ _ o4.facts.2.1 ok
    refine ⟨okLE_cons_ne _ _ o1.facts.2.1 (okLE_cons_ne _ _ o2.facts.2.1 (okLE_cons_ne _ _ o3.facts.2.1 key)),
      fun _ => ⟨_, _, ?_, rfl⟩⟩
    omega
  | case2 a b =>
    have ha : a < 256 := hd a (by simp)
    have hb : b < 256 := hd b (by simp)
    have o1 : IsR64Out (alpha (a / 4)) := Or.inl ⟨_, by omega, rfl⟩
    have o2 : IsR64Out (alpha (a % 4 * 16 + b / 16)) := Or.inl ⟨_, by omega, rfl⟩
    have o3 : IsR64Out (alpha (b % 16 * 4)) := Or.inl ⟨_, by omega, rfl⟩
    have o4 : IsR64Out '=' := Or.inr rfl
    have m1 : n % TMCG_OPENPGP_RADIX64_MC ≠ 0 := by simp only [TMCG_OPENPGP_RADIX64_MC]; omega
    have m2 : (n + 1) % TMCG_OPENPGP_RADIX64_MC ≠ 0 := by simp only [TMCG_OPENPGP_RADIX64_MC]; omega
    have m3 : (n + 1 + 1) % TMCG_OPENPGP_RADIX64_MC ≠ 0 := by simp only [TMCG_OPENPGP_RADIX64_MC]; omega
    rw [encGroups, breakLines_ne _ _ _ _ m1, breakLines_ne _ _ _ _ m2, breakLines_ne _ _ _ _ m3,
      strip_r64 _ _ o1, strip_r64 _ _ o2, strip_r64 _ _ o3]
    simp only [breakLines]
    rw [strip_r64 _ _ o4]
    refine ⟨okLE_cons_ne _ _ o1.facts.2.1 (okLE_cons_ne _ _ o2.facts.2.1 (okLE_cons_ne _ _ o3.facts.2.1
      (okLE_cons_ne _ _ o4.facts.2.1 (by simp [strip, okLE])))), fun _ => ⟨_, _, ?_, rfl⟩⟩
    omega
  | case3 a =>
    have ha : a < 256 := hd a (by simp)
    have o1 : IsR64Out (alpha (a / 4)) := Or.inl ⟨_, by omega, rfl⟩
    have o2 : IsR64Out (alpha (a % 4 * 16)) := Or.inl ⟨_, by omega, rfl⟩
    have o4 : IsR64Out '=' := Or.inr rfl
    have m1 : n % TMCG_OPENPGP_RADIX64_MC ≠ 0 := by simp only [TMCG_OPENPGP_RADIX64_MC]; omega
    have m2 : (n + 1) % TMCG_OPENPGP_RADIX64_MC ≠ 0 := by simp only [TMCG_OPENPGP_RADIX64_MC]; omega
    have m3 : (n + 1 + 1) % TMCG_OPENPGP_RADIX64_MC ≠ 0 := by simp only [TMCG_OPENPGP_RADIX64_MC]; omega
    rw [encGroups, breakLines_ne _ _ _ _ m1, breakLines_ne _ _ _ _ m2, breakLines_ne _ _ _ _ m3,
      strip_r64 _ _ o1, strip_r64 _ _ o2, strip_r64 _ _ o4]
    simp only [breakLines]
    rw [strip_r64 _ _ o4]
    refine ⟨okLE_cons_ne _ _ o1.facts.2.1 (okLE_cons_ne _ _ o2.facts.2.1 (okLE_cons_ne _ _ o4.facts.2.1
      (okLE_cons_ne _ _ o4.facts.2.1 (by simp [strip, okLE])))), fun _ => ⟨_, _, ?_, rfl⟩⟩
    omega
  | case4 => exact ⟨by simp [encGroups, breakLines, strip, okLE], fun h => absurd rfl h⟩

/-- the checksum line: `=` and four radix-64 digits -/
theorem crc24Encode_shape (d : Octets) :
    ∃ i1 i2 i3 i4, i1 < 64 ∧ i2 < 64 ∧ i3 < 64 ∧ i4 < 64 ∧
      crc24Encode d = ['=', alpha i1, alpha i2, alpha i3, alpha i4] := by
  unfold crc24Encode crc24 radix64Encode
  simp only [if_true, encGroups]
  have m1 : 1 % TMCG_OPENPGP_RADIX64_MC ≠ 0 := by decide
  have m2 : (1 + 1) % TMCG_OPENPGP_RADIX64_MC ≠ 0 := by decide
  have m3 : (1 + 1 + 1) % TMCG_OPENPGP_RADIX64_MC ≠ 0 := by decide
  rw [breakLines_ne _ _ _ _ m1, breakLines_ne _ _ _ _ m2, breakLines_ne _ _ _ _ m3]
  simp only [breakLines]
  exact ⟨_, _, _, _, by omega, by omega, by omega, by omega, rfl⟩

theorem r64_not_blank (c : Char) (h : isRadix64Char c = true) : isArmorBlank c = false := by
  cases hb : isArmorBlank c with
  | false => rfl
  | true =>
    exfalso
    simp only [isArmorBlank, Bool.or_eq_true, beq_iff_eq] at hb
    rcases hb with (rfl | rfl) | rfl <;> revert h <;> decide

theorem radix64Decode_strip (t : Text) : radix64Decode (strip t) = radix64Decode t := by
  unfold radix64Decode strip
  rw [List.filter_filter]
  congr 2
  apply List.filter_congr
  intro c _
  cases h : isRadix64Char c with
  | false => simp
  | true => simp [r64_not_blank c h]


/-! #### transparent stretches -/

/-- a stretch of text in which (and across whose end) the pattern cannot start -/
def Transp (P A : Text) : Prop :=
  ∀ B off, findFrom P (A ++ B) off = findFrom P B (off + A.length)

theorem Transp.nil (P : Text) : Transp P [] := fun B off => by simp

theorem Transp.append {P A B : Text} (ha : Transp P A) (hb : Transp P B) : Transp P (A ++ B) := by
  intro X off
  rw [List.append_assoc, ha, hb, List.length_append]; congr 1; omega

theorem transp_skip (p : Char) (P' A : Text) (hA : ∀ c ∈ A, c ≠ p) : Transp (p :: P') A :=
  fun B off => findFrom_skip p P' A B off hA

theorem transp_line (P X : Text) (c : Char) (hP : P ≠ []) (hc : c ∉ P) (hX : ¬ P <:+: X) :
    Transp P (X ++ [c]) := by
  intro B off
  rw [List.append_assoc, List.singleton_append, findFrom_line P X B c off hP hc hX,
    List.length_append, List.length_singleton]
  congr 1

theorem transp_flatten (P : Text) (ls : List Text) (h : ∀ l ∈ ls, Transp P l) : Transp P ls.flatten := by
  induction ls with
  | nil => exact Transp.nil P
  | cons l ls ih =>
    rw [List.flatten_cons]
    exact (h l (by simp)).append (ih fun x hx => h x (by simp [hx]))

/-- `LF q` cannot start at the line feed before a line whose first character is not `q` -/
theorem transp_lf_line (q c : Char) (l : Text) (hc : c ≠ q) (hl : ∀ x ∈ c :: l, x ≠ LF) :
    Transp [LF, q] (LF :: c :: l) := by
  intro B off
  rw [List.cons_append, findFrom, if_neg, findFrom_skip LF [q] (c :: l) B (off + 1) hl]
  · simp only [List.length_cons]; congr 1; omega
  · simp [List.isPrefixOf_cons_cons, Ne.symm hc]

/-! #### patterns that start with five dashes -/

def DashPat (P : Text) : Prop :=
  P.head? = some '-' ∧ dash5.isPrefixOf P = true ∧ CR ∉ P ∧ LF ∉ P

instance (P : Text) : Decidable (DashPat P) := by unfold DashPat; infer_instance

theorem DashPat.head {P : Text} (h : DashPat P) : P.head? = some '-' := h.1
theorem DashPat.pre {P : Text} (h : DashPat P) : dash5.isPrefixOf P = true := h.2.1
theorem DashPat.noCR {P : Text} (h : DashPat P) : CR ∉ P := h.2.2.1
theorem DashPat.noLF {P : Text} (h : DashPat P) : LF ∉ P := h.2.2.2

theorem DashPat.ne_nil {P : Text} (h : DashPat P) : P ≠ [] := by
  intro e; have := h.head; rw [e] at this; simp at this

theorem DashPat.cons {P : Text} (h : DashPat P) : ∃ P', P = '-' :: P' := by
  cases P with
  | nil => exact absurd rfl h.ne_nil
  | cons p P' => have := h.head; simp at this; exact ⟨P', by rw [this]⟩

theorem DashPat.not_infix {P X : Text} (h : DashPat P) (hX : ¬ dash5 <:+: X) : ¬ P <:+: X := by
  intro hp
  exact hX ((List.isPrefixOf_iff_prefix.1 h.pre).isInfix.trans hp)

theorem DashPat.transp_free {P A : Text} (h : DashPat P) (hA : ∀ c ∈ A, c ≠ '-') : Transp P A := by
  obtain ⟨P', rfl⟩ := h.cons
  exact transp_skip '-' P' A hA

theorem dash5_pat : DashPat dash5 := ⟨by decide, by decide, by decide, by decide⟩

/-- the pattern does not occur in a concrete line -/
theorem not_infix_of_find {P X : Text} (h : findFrom P X 0 = none) : ¬ P <:+: X :=
  (findFrom_eq_none_iff P X 0).1 h

/-! #### header lines -/

/-- conditions on the free texts of the armor headers (comment, version): no line feed, and no
    five dashes in a row once blanks, tabs and carriage returns are removed -/
def TextOK (t : Text) : Prop := LF ∉ t ∧ ¬ dash5 <:+: strip t

/-- what the decoder needs of a header line -/
def HdrOK (h : Text) : Prop :=
  LF ∉ h ∧ ¬ dash5 <:+: strip h ∧ ∃ c l, strip h = c :: l ∧ c ≠ '='

theorem mem_strip {c : Char} {t : Text} (h : c ∈ strip t) : c ∈ t := by
  unfold strip at h; exact (List.mem_filter.1 h).1

theorem strip_dash5_infix {t : Text} (h : dash5 <:+: t) : dash5 <:+: strip t := by
  obtain ⟨a, b, rfl⟩ := h
  rw [strip_append, strip_append]
  have : strip dash5 = dash5 := by decide
  rw [this]
  exact ⟨strip a, strip b, rfl⟩

theorem hdrOK_of (lit lit' : Text) (t : Text) (ht : TextOK t) (h1 : strip lit = lit') (h2 : LF ∉ lit)
    (h3 : ∀ c ∈ lit', c ≠ '-') (h4 : ∃ c l, lit' = c :: l ∧ c ≠ '=') : HdrOK (lit ++ t) := by
  refine ⟨?_, ?_, ?_⟩
  · simp only [List.mem_append, not_or]; exact ⟨h2, ht.1⟩
  · rw [strip_append, h1, ← findFrom_eq_none_iff _ _ 0]
    obtain ⟨P', hP⟩ := dash5_pat.cons
    rw [hP, findFrom_skip '-' P' lit' (strip t) 0 h3, ← hP, findFrom_eq_none_iff]
    exact ht.2
  · obtain ⟨c, l, rfl, hc⟩ := h4
    exact ⟨c, l ++ strip t, by rw [strip_append, h1]; rfl, hc⟩

/-- the header lines `ArmorEncode` writes -/
def hdrLines (comment : Text) (version : Option Text) : List Text :=
  (match version with
   | some v => ["Version: LibTMCG ".toList ++ v]
   | none => []) ++
  (if comment.isEmpty then [] else ["Comment: ".toList ++ comment])

theorem hdrLines_ok (comment : Text) (version : Option Text) (hc : TextOK comment)
    (hv : ∀ v, version = some v → TextOK v) : ∀ h ∈ hdrLines comment version, HdrOK h := by
  intro h hh
  unfold hdrLines at hh
  rw [List.mem_append] at hh
  rcases hh with hh | hh
  · cases version with
    | none => simp at hh
    | some v =>
      simp only [List.mem_singleton] at hh
      subst hh
      exact hdrOK_of _ "Version:LibTMCG".toList v (hv v rfl) (by decide) (by decide) (by decide)
        ⟨'V', "ersion:LibTMCG".toList, by decide, by decide⟩
  · by_cases he : comment.isEmpty
    · simp [he] at hh
    · simp only [he, Bool.false_eq_true, if_false, List.mem_singleton] at hh
      subst hh
      exact hdrOK_of _ "Comment:".toList comment hc (by decide) (by decide) (by decide)
        ⟨'C', "omment:".toList, by decide, by decide⟩

/-- the armor text with its parts named: header line, header lines, radix-64 text, checksum
    line, tail line -/
def armorText (bl el : Text) (hs : List Text) (B C : Text) : Text :=
  bl ++ CRLF ++ (hs.map (· ++ CRLF)).flatten ++ CRLF ++ B ++ CRLF ++ C ++ CRLF ++ el ++ CRLF

theorem armorBody_eq (comment : Text) (version : Option Text) (B C : Text) :
    armorBody comment version B C =
      ((hdrLines comment version).map (· ++ CRLF)).flatten ++ CRLF ++ B ++ CRLF ++ C ++ CRLF := by
  unfold armorBody hdrLines
  cases version <;> by_cases he : comment.isEmpty <;> simp [he]

theorem armorAssemble_eq (type : Nat) (k : ArmorKind) (hk : encodeKind type = some k)
    (comment : Text) (version : Option Text) (B C : Text) :
    armorAssemble type comment version B C =
      armorText k.beginLine k.endLine (hdrLines comment version) B C := by
  unfold armorAssemble armorText
  rw [hk, armorBody_eq]
  simp only [List.append_assoc]

/-! #### the kinds -/

/-- the decidable facts about a kind the proof uses; `pre` are the kinds `ArmorDecode` tries
    first -/
structure KindOK (k : ArmorKind) (pre post : List ArmorKind) : Prop where
  dk : decodeKinds = pre ++ k :: post
  sb : strip k.beginLine = k.beginBare
  se : strip k.endLine = k.endBare
  len : 25 ≤ k.beginBare.length ∧ k.beginBare.length ≤ 33
  blne : k.beginLine ≠ []
  bbne : k.beginBare ≠ []
  bbLF : ∀ c ∈ k.beginBare, c ≠ LF
  elPat : DashPat k.endLine
  ebPat : DashPat k.endBare
  el_bl : findFrom k.endLine k.beginLine 0 = none
  eb_bb : findFrom k.endBare k.beginBare 0 = none
  pres : ∀ k' ∈ pre, DashPat k'.beginLine ∧ findFrom k'.beginLine k.beginLine 0 = none ∧
    findFrom k'.beginLine k.endLine 0 = none

theorem kMessage_ok : KindOK kMessage [] [kSignature, kPrivate, kPublic, kFile] :=
  ⟨rfl, by decide, by decide, by decide, by decide, by decide, by decide, by decide, by decide,
    by decide, by decide, by decide⟩
theorem kSignature_ok : KindOK kSignature [kMessage] [kPrivate, kPublic, kFile] :=
  ⟨rfl, by decide, by decide, by decide, by decide, by decide, by decide, by decide, by decide,
    by decide, by decide, by decide⟩
theorem kPrivate_ok : KindOK kPrivate [kMessage, kSignature] [kPublic, kFile] :=
  ⟨rfl, by decide, by decide, by decide, by decide, by decide, by decide, by decide, by decide,
    by decide, by decide, by decide⟩
theorem kPublic_ok : KindOK kPublic [kMessage, kSignature, kPrivate] [kFile] :=
  ⟨rfl, by decide, by decide, by decide, by decide, by decide, by decide, by decide, by decide,
    by decide, by decide, by decide⟩

/-- what the proof needs of the radix-64 text and of the checksum line -/
def B64OK (B : Text) : Prop :=
  (∀ c ∈ B, c ≠ '-') ∧ okLE (strip B) ∧ ∃ i t, i < 64 ∧ strip B = alpha i :: t

def ChkOK (C : Text) : Prop :=
  ∃ i1 i2 i3 i4, i1 < 64 ∧ i2 < 64 ∧ i3 < 64 ∧ i4 < 64 ∧
    C = ['=', alpha i1, alpha i2, alpha i3, alpha i4]

theorem ChkOK.facts {C : Text} (h : ChkOK C) :
    C.length = 5 ∧ (∀ c ∈ C, c ≠ '-') ∧ strip C = C ∧ ∃ C', C = '=' :: C' := by
  obtain ⟨i1, i2, i3, i4, h1, h2, h3, h4, rfl⟩ := h
  have out : ∀ c ∈ ['=', alpha i1, alpha i2, alpha i3, alpha i4], IsR64Out c := by
    intro c hc
    simp only [List.mem_cons, List.not_mem_nil, or_false] at hc
    rcases hc with rfl | rfl | rfl | rfl | rfl
    · exact Or.inr rfl
    · exact Or.inl ⟨_, h1, rfl⟩
    · exact Or.inl ⟨_, h2, rfl⟩
    · exact Or.inl ⟨_, h3, rfl⟩
    · exact Or.inl ⟨_, h4, rfl⟩
  exact ⟨rfl, fun c hc => (out c hc).facts.2.2.1,
    strip_eq_self _ (fun c hc => (out c hc).facts.2.2.2), ⟨_, rfl⟩⟩

/-! #### first stage: which kind -/

theorem detectKind_of (T : Text) (pre : List ArmorKind) (k : ArmorKind) (post : List ArmorKind)
    (hpre : ∀ k' ∈ pre, find k'.beginLine T 0 = none) (hb : find k.beginLine T 0 = some 0)
    (he : ∃ e, find k.endLine T 0 = some e ∧ 0 < e) : detectKind T (pre ++ k :: post) = some k := by
  induction pre with
  | nil =>
    obtain ⟨e, he1, he2⟩ := he
    simp only [List.nil_append, detectKind, hb, he1]
    simp [he2]
  | cons k' pre ih =>
    rw [List.cons_append, detectKind, hpre k' (by simp)]
    exact ih (fun x hx => hpre x (by simp [hx]))

theorem transp_hdrs_raw (P : Text) (hP : DashPat P) (hs : List Text) (hhs : ∀ h ∈ hs, HdrOK h) :
    Transp P (hs.map (· ++ CRLF)).flatten := by
  apply transp_flatten
  intro l hl
  obtain ⟨h, hh, rfl⟩ := List.mem_map.1 hl
  have e : h ++ CRLF = (h ++ [CR]) ++ [LF] := by simp [CRLF]
  rw [e]
  refine (transp_line P h CR hP.ne_nil hP.noCR ?_).append (hP.transp_free (by decide))
  exact hP.not_infix (fun hd => (hhs h hh).2.1 (strip_dash5_infix hd))

theorem crlf_free : ∀ c ∈ CRLF, c ≠ '-' := by decide

section stage1
variable {k : ArmorKind} {pre post : List ArmorKind} (hk : KindOK k pre post)
  {hs : List Text} (hhs : ∀ h ∈ hs, HdrOK h) {B C : Text}
  (hB : ∀ c ∈ B, c ≠ '-') (hC : ∀ c ∈ C, c ≠ '-')
include hhs hB hC

/-- up to the tail line the text is transparent for every pattern that is not in the header
    line -/
theorem transp_upto_tail (P : Text) (hP : DashPat P) (h1 : findFrom P k.beginLine 0 = none) :
    Transp P (k.beginLine ++ CRLF ++ (hs.map (· ++ CRLF)).flatten ++ CRLF ++ B ++ CRLF ++ C ++ CRLF) := by
  have e : k.beginLine ++ CRLF = (k.beginLine ++ [CR]) ++ [LF] := by simp [CRLF]
  rw [e]
  exact ((((((((transp_line P _ CR hP.ne_nil hP.noCR (not_infix_of_find h1)).append
    (hP.transp_free (by decide))).append (transp_hdrs_raw P hP hs hhs)).append
    (hP.transp_free crlf_free)).append (hP.transp_free hB)).append (hP.transp_free crlf_free)).append
    (hP.transp_free hC)).append (hP.transp_free crlf_free))

theorem stage1_none (P : Text) (hP : DashPat P) (h1 : findFrom P k.beginLine 0 = none)
    (h2 : findFrom P k.endLine 0 = none) :
    find P (armorText k.beginLine k.endLine hs B C) 0 = none := by
  rw [find_zero]
  unfold armorText
  have e : k.endLine ++ CRLF = (k.endLine ++ [CR]) ++ [LF] := by simp [CRLF]
  have t := ((transp_upto_tail hhs hB hC P hP h1).append
    ((transp_line P _ CR hP.ne_nil hP.noCR (not_infix_of_find h2)).append
      (hP.transp_free (A := [LF]) (by decide))))
  have := t [] 0
  rw [List.append_nil] at this
  rw [List.append_assoc _ k.endLine CRLF, e, this]
  exact findFrom_nil P hP.ne_nil _

include hk
theorem stage1_end : ∃ e, find k.endLine (armorText k.beginLine k.endLine hs B C) 0 = some e ∧ 0 < e := by
  rw [find_zero]
  unfold armorText
  rw [List.append_assoc _ k.endLine CRLF, transp_upto_tail hhs hB hC k.endLine hk.elPat hk.el_bl,
    findFrom_prefix _ _ hk.elPat.ne_nil]
  refine ⟨_, rfl, ?_⟩
  have : 0 < k.beginLine.length := List.length_pos_of_ne_nil hk.blne
  simp only [List.length_append]
  omega

theorem stage1_begin : find k.beginLine (armorText k.beginLine k.endLine hs B C) 0 = some 0 := by
  rw [find_zero]
  unfold armorText
  simp only [List.append_assoc]
  exact findFrom_prefix _ _ hk.blne 0

theorem stage1 : detectKind (armorText k.beginLine k.endLine hs B C) decodeKinds = some k := by
  rw [hk.dk]
  apply detectKind_of
  · intro k' hk'
    obtain ⟨p1, p2, p3⟩ := hk.pres k' hk'
    exact stage1_none hhs hB hC _ p1 p2 p3
  · exact stage1_begin hk hhs hB hC
  · exact stage1_end hk hhs hB hC
end stage1

/-! #### second stage: positions in the text without blanks -/

theorem strip_flatten_map (hs : List Text) :
    strip (hs.map (· ++ CRLF)).flatten = (hs.map (strip · ++ [LF])).flatten := by
  induction hs with
  | nil => rfl
  | cons h hs ih =>
    simp only [List.map_cons, List.flatten_cons, strip_append, ih]
    have : strip CRLF = [LF] := by decide
    rw [this]

theorem strip_armorText (k : ArmorKind) (hs : List Text) (B C : Text)
    (sb : strip k.beginLine = k.beginBare) (se : strip k.endLine = k.endBare) (sc : strip C = C) :
    strip (armorText k.beginLine k.endLine hs B C) =
      k.beginBare ++ LF :: ((hs.map (strip · ++ [LF])).flatten ++
        LF :: (strip B ++ LF :: (C ++ LF :: (k.endBare ++ [LF])))) := by
  have hcrlf : strip CRLF = [LF] := by decide
  unfold armorText
  simp only [strip_append, strip_flatten_map, hcrlf, sb, se, sc, List.append_assoc,
    List.singleton_append]

/-- the line feeds moved from the end of each header line to its front -/
theorem lines_reassoc (ls : List Text) (X : Text) :
    LF :: ((ls.map (· ++ [LF])).flatten ++ X) = (ls.map (LF :: ·)).flatten ++ LF :: X := by
  induction ls with
  | nil => rfl
  | cons l ls ih =>
    simp only [List.map_cons, List.flatten_cons, List.append_assoc, List.cons_append,
      List.singleton_append, List.nil_append]
    rw [ih]

theorem find_append_shift (P X S : Text) (p : Nat) :
    find P (X ++ S) (X.length + p) = (find P S p).map (· + X.length) := by
  unfold find
  simp only [List.length_append, Nat.add_le_add_iff_left]
  by_cases h : p ≤ S.length
  · have hd : List.drop (X.length + p) (X ++ S) = List.drop p S := by
      rw [List.drop_append, List.drop_eq_nil_of_le (by omega), List.nil_append]
      congr 1; omega
    rw [if_pos h, if_pos h, hd, findFrom_off P _ (X.length + p), findFrom_off P _ p]
    cases findFrom P (List.drop p S) 0 with
    | none => rfl
    | some r => simp only [Option.map_some]; congr 1; omega
  · rw [if_neg h, if_neg h]; rfl

theorem substr_mid (X Y Z : Text) : substr (X ++ Y ++ Z) X.length Y.length = Y := by
  unfold substr
  rw [List.append_assoc, List.drop_left, List.take_left]

section stage2
variable {k : ArmorKind} {pre post : List ArmorKind} (hk : KindOK k pre post)
  {hs : List Text} (hhs : ∀ h ∈ hs, HdrOK h) {B' C : Text}
  (hB1 : ∀ c ∈ B', c ≠ '-') (hB2 : okLE B') (hB3 : ∃ i t, i < 64 ∧ B' = alpha i :: t) (hC : ChkOK C)

/-- the text before the blank line (without the line feed that ends its last line) -/
def front (k : ArmorKind) (hs : List Text) : Text :=
  k.beginBare ++ (hs.map (fun h => LF :: strip h)).flatten

/-- the text without blanks, second form -/
def bare (k : ArmorKind) (hs : List Text) (B' C : Text) : Text :=
  front k hs ++ LF :: LF :: (B' ++ LF :: (C ++ LF :: (k.endBare ++ [LF])))

theorem bare_eq (k : ArmorKind) (hs : List Text) (B' C : Text) :
    k.beginBare ++ LF :: ((hs.map (strip · ++ [LF])).flatten ++
        LF :: (B' ++ LF :: (C ++ LF :: (k.endBare ++ [LF])))) = bare k hs B' C := by
  unfold bare front
  have := lines_reassoc (hs.map strip) (LF :: (B' ++ LF :: (C ++ LF :: (k.endBare ++ [LF]))))
  simp only [List.map_map] at this
  rw [List.append_assoc]
  exact congrArg (k.beginBare ++ ·) this

include hk in
theorem front_len : 25 ≤ (front k hs).length := by
  unfold front; rw [List.length_append]; have := hk.len.1; omega

include hhs in
theorem transp_front_lines (q : Char) (hq : q = LF ∨ q = '=') :
    Transp [LF, q] (hs.map (fun h => LF :: strip h)).flatten := by
  apply transp_flatten
  intro l hl
  obtain ⟨h, hh, rfl⟩ := List.mem_map.1 hl
  obtain ⟨h1, _, c, l', e, hc⟩ := hhs h hh
  rw [e]
  have hnl : ∀ x ∈ c :: l', x ≠ LF := by
    intro x hx hxe
    rw [← e] at hx
    exact h1 (hxe ▸ mem_strip hx)
  apply transp_lf_line q c l' _ hnl
  rcases hq with rfl | rfl
  · exact hnl c (by simp)
  · exact hc

include hk hhs in
theorem transp_front (q : Char) (hq : q = LF ∨ q = '=') : Transp [LF, q] (front k hs) :=
  (transp_skip LF [q] _ hk.bbLF).append (transp_front_lines hhs q hq)

include hk hhs in
/-- `rpos` -/
theorem find_sep : find [LF, LF] (bare k hs B' C) 0 = some (front k hs).length := by
  rw [find_zero]
  unfold bare
  rw [transp_front hk hhs LF (Or.inl rfl)]
  have := findFrom_prefix [LF, LF] (B' ++ LF :: (C ++ LF :: (k.endBare ++ [LF]))) (by simp)
    (0 + (front k hs).length)
  simpa using this

include hk hhs hB2 hB3 hC in
/-- `cpos` -/
theorem find_chk : find [LF, '='] (bare k hs B' C) 0 = some ((front k hs).length + 2 + B'.length) := by
  rw [find_zero]
  unfold bare
  obtain ⟨C', rfl⟩ := hC.facts.2.2.2
  obtain ⟨i, t, hi, rfl⟩ := hB3
  rw [transp_front hk hhs '=' (Or.inr rfl)]
  have hW : okLE (LF :: LF :: alpha i :: t) :=
    okLE_cons_cons _ _ _ (by decide) (okLE_cons_cons _ _ _ (alpha_facts i hi).2.2.2.2.2.1 hB2)
  have := findFrom_okLE (LF :: LF :: alpha i :: t) (C' ++ LF :: (k.endBare ++ [LF]))
    (0 + (front k hs).length) hW
  simp only [List.cons_append, List.length_cons] at this ⊢
  rw [this]
  congr 1
  omega

theorem transp_hdrs_bare (P : Text) (hP : DashPat P) (hs : List Text) (hhs : ∀ h ∈ hs, HdrOK h) :
    Transp P (hs.map (strip · ++ [LF])).flatten := by
  apply transp_flatten
  intro l hl
  obtain ⟨h, hh, rfl⟩ := List.mem_map.1 hl
  exact transp_line P (strip h) LF hP.ne_nil hP.noLF (hP.not_infix (hhs h hh).2.1)

/-- the text after the header line, first form, up to the tail line -/
def middle (hs : List Text) (B' C : Text) : Text :=
  [LF] ++ (hs.map (strip · ++ [LF])).flatten ++ (LF :: (B' ++ LF :: (C ++ [LF])))

theorem bare_eq' (k : ArmorKind) (hs : List Text) (B' C : Text) :
    bare k hs B' C = k.beginBare ++ (middle hs B' C ++ (k.endBare ++ [LF])) := by
  rw [← bare_eq]
  unfold middle
  simp only [List.append_assoc, List.cons_append, List.nil_append]

include hhs hB1 hC in
theorem transp_middle (P : Text) (hP : DashPat P) : Transp P (middle hs B' C) := by
  unfold middle
  refine ((hP.transp_free (by decide)).append (transp_hdrs_bare P hP hs hhs)).append
    (hP.transp_free ?_)
  intro c hc
  simp only [List.mem_cons, List.mem_append, List.not_mem_nil, or_false] at hc
  rcases hc with rfl | hc | rfl | hc | rfl
  · decide
  · exact hB1 c hc
  · decide
  · exact hC.facts.2.1 c hc
  · decide

theorem middle_len (hs : List Text) (B' C : Text) (hC : ChkOK C) :
    (middle hs B' C).length + k.beginBare.length = (front k hs).length + 2 + B'.length + 7 := by
  have h1 := congrArg List.length (bare_eq' k hs B' C)
  unfold bare at h1
  simp only [List.length_append, List.length_cons, List.length_nil, hC.facts.1] at h1
  omega

include hk hhs hB1 hC in
/-- `epos` -/
theorem find_end :
    find k.endBare (bare k hs B' C) 0 = some ((front k hs).length + 2 + B'.length + 7) := by
  rw [find_zero, bare_eq']
  have t1 : Transp k.endBare (k.beginBare ++ [LF]) :=
    transp_line _ _ LF hk.ebPat.ne_nil hk.ebPat.noLF (not_infix_of_find hk.eb_bb)
  have e : k.beginBare ++ (middle hs B' C ++ (k.endBare ++ [LF])) =
      k.beginBare ++ middle hs B' C ++ (k.endBare ++ [LF]) := by simp
  have tm := transp_middle hhs hB1 hC k.endBare hk.ebPat
  -- the header line: its line feed is the first character of `middle`
  have t2 : Transp k.endBare (k.beginBare ++ middle hs B' C) := by
    unfold middle at tm ⊢
    intro X off
    have e2 : k.beginBare ++ ([LF] ++ (hs.map (strip · ++ [LF])).flatten ++ (LF :: (B' ++ LF :: (C ++ [LF])))) ++ X
        = (k.beginBare ++ [LF]) ++ ((hs.map (strip · ++ [LF])).flatten ++ (LF :: (B' ++ LF :: (C ++ [LF]))) ++ X) := by
      simp
    rw [e2, t1]
    have t3 : Transp k.endBare ((hs.map (strip · ++ [LF])).flatten ++ (LF :: (B' ++ LF :: (C ++ [LF])))) := by
      refine (transp_hdrs_bare _ hk.ebPat hs hhs).append (hk.ebPat.transp_free ?_)
      intro c hc
      simp only [List.mem_cons, List.mem_append, List.not_mem_nil, or_false] at hc
      rcases hc with rfl | hc | rfl | hc | rfl
      · decide
      · exact hB1 c hc
      · decide
      · exact hC.facts.2.1 c hc
      · decide
    rw [t3]
    simp only [List.length_append, List.length_cons, List.length_nil]
    congr 1
    omega
  rw [e, t2, findFrom_prefix _ _ hk.ebPat.ne_nil]
  congr 1
  have := middle_len (k := k) hs B' C hC
  simp only [List.length_append]
  omega

include hk hhs hB1 hC in
/-- the test for a nested block: the first five dashes from position 33 on are the tail line -/
theorem find_nested :
    find dash5 (bare k hs B' C) (0 + 33) = some ((front k hs).length + 2 + B'.length + 7) := by
  rw [bare_eq']
  have h33 : 0 + 33 = k.beginBare.length + (33 - k.beginBare.length) := by have := hk.len.2; omega
  rw [h33, find_append_shift]
  have hm : findFrom dash5 (middle hs B' C ++ (k.endBare ++ [LF])) 0 = some (middle hs B' C).length := by
    rw [transp_middle hhs hB1 hC dash5 dash5_pat]
    obtain ⟨r, hr⟩ := List.isPrefixOf_iff_prefix.1 hk.ebPat.pre
    rw [← hr, List.append_assoc, findFrom_prefix _ _ dash5_pat.ne_nil]
    simp
  have hlen := middle_len (k := k) hs B' C hC
  have hf := front_len hk (hs := hs)
  rw [find_mono _ _ _ _ hm (by have := hk.len; omega)]
  simp only [Option.map_some]
  exact congrArg some hlen
end stage2

/-! #### the decoder on an armor text -/

theorem armorDecode_eval (input s : Text) (k : ArmorKind) (spos epos rpos cpos : Nat)
    (h0 : detectKind input decodeKinds = some k)
    (hs : input.filter (fun c => !isArmorBlank c) = s)
    (h1 : find k.beginBare s 0 = some spos) (h2 : find k.endBare s 0 = some epos)
    (h3 : find [LF, LF] s spos = some rpos) (h4 : find [LF, '='] s spos = some cpos)
    (h5 : find "-----".toList s (spos + 33) = some epos)
    (c1 : spos + 24 < rpos) (c2 : rpos + 2 < cpos) (c3 : cpos + 6 < epos) :
    armorDecode input =
      if crc24Encode (radix64Decode (substr s (rpos + 2) (cpos - rpos - 2))) = substr s (cpos + 1) 5
      then (k.type, radix64Decode (substr s (rpos + 2) (cpos - rpos - 2))) else (0, []) := by
  unfold armorDecode
  simp only [h0, hs, h1, h2, h3, h4, h5, c1, Nat.le_of_lt c2, c3, ne_eq, not_true_eq_false, if_false, and_self,
    if_true, true_and]
  by_cases hc : crc24Encode (radix64Decode (substr s (rpos + 2) (cpos - rpos - 2))) = substr s (cpos + 1) 5
  · simp [hc]
  · simp [hc]

theorem find_begin (k : ArmorKind) (hs : List Text) (B' C : Text) (h : k.beginBare ≠ []) :
    find k.beginBare (bare k hs B' C) 0 = some 0 := by
  rw [find_zero]
  unfold bare front
  simp only [List.append_assoc]
  exact findFrom_prefix _ _ h 0

theorem substr_b64 (k : ArmorKind) (hs : List Text) (B' C : Text) :
    substr (bare k hs B' C) ((front k hs).length + 2) B'.length = B' := by
  have e : bare k hs B' C = (front k hs ++ [LF, LF]) ++ B' ++ (LF :: (C ++ LF :: (k.endBare ++ [LF]))) := by
    unfold bare; simp
  have l : (front k hs ++ [LF, LF]).length = (front k hs).length + 2 := by simp
  rw [e, ← l, substr_mid]

theorem substr_chk (k : ArmorKind) (hs : List Text) (B' C : Text) (hC : C.length = 5) :
    substr (bare k hs B' C) ((front k hs).length + 2 + B'.length + 1) 5 = C := by
  have e : bare k hs B' C = (front k hs ++ LF :: LF :: (B' ++ [LF])) ++ C ++ (LF :: (k.endBare ++ [LF])) := by
    unfold bare; simp
  have l : (front k hs ++ LF :: LF :: (B' ++ [LF])).length = (front k hs).length + 2 + B'.length + 1 := by
    simp; omega
  rw [e, ← l, ← hC, substr_mid]

/-- `ArmorDecode` on a text of the shape `ArmorEncode` writes: the radix-64 text is decoded, and
    accepted exactly when the checksum line is the CRC-24 of what was decoded -/
theorem armorDecode_text {k : ArmorKind} {pre post : List ArmorKind} (hk : KindOK k pre post)
    {hs : List Text} (hhs : ∀ h ∈ hs, HdrOK h) {B C : Text} (hB : B64OK B) (hC : ChkOK C) :
    armorDecode (armorText k.beginLine k.endLine hs B C) =
      if crc24Encode (radix64Decode (strip B)) = C then (k.type, radix64Decode (strip B))
      else (0, []) := by
  have hB1 : ∀ c ∈ strip B, c ≠ '-' := fun c hc => hB.1 c (mem_strip hc)
  have hs1 := stage1 hk hhs hB.1 hC.facts.2.1
  have e : (armorText k.beginLine k.endLine hs B C).filter (fun c => !isArmorBlank c) =
      bare k hs (strip B) C := by
    change strip _ = _
    rw [strip_armorText k hs B C hk.sb hk.se hC.facts.2.2.1, bare_eq]
  obtain ⟨i, t, hi, ht⟩ := hB.2.2
  have hlen : 1 ≤ (strip B).length := by rw [ht]; simp
  have f25 := front_len hk (hs := hs)
  have hn := find_nested hk hhs hB1 hC
  have := armorDecode_eval _ _ k 0 _ _ _ hs1 e (find_begin k hs _ C hk.bbne)
    (find_end hk hhs hB1 hC) (find_sep hk hhs) (find_chk hk hhs hB.2.1 hB.2.2 hC) hn
    (by omega) (by omega) (by omega)
  rw [this]
  have e1 : (front k hs).length + 2 + (strip B).length - (front k hs).length - 2 = (strip B).length := by
    omega
  rw [e1, substr_b64, substr_chk _ _ _ _ hC.facts.1]

theorem b64OK_encode (data : Octets) (hd : IsOctets data) (hne : data ≠ []) :
    B64OK (radix64Encode true data) := by
  simp only [radix64Encode, if_true]
  refine ⟨?_, (b64_shape 1 data (by decide) hd).1, ?_⟩
  · intro c hc
    rcases breakLines_mem _ _ c hc with h | rfl | rfl
    · exact (encGroups_out data hd c h).facts.2.2.1
    · decide
    · decide
  · obtain ⟨i, t, hi, ht⟩ := (b64_shape 1 data (by decide) hd).2 hne
    exact ⟨i, t, hi, ht⟩

theorem encodeKind_cases (type : Nat) (ht : type = 1 ∨ type = 2 ∨ type = 5 ∨ type = 6) :
    ∃ k pre post, encodeKind type = some k ∧ k.type = type ∧ KindOK k pre post := by
  rcases ht with rfl | rfl | rfl | rfl
  · exact ⟨kMessage, _, _, rfl, rfl, kMessage_ok⟩
  · exact ⟨kSignature, _, _, rfl, rfl, kSignature_ok⟩
  · exact ⟨kPrivate, _, _, rfl, rfl, kPrivate_ok⟩
  · exact ⟨kPublic, _, _, rfl, rfl, kPublic_ok⟩

/-- C19: `ArmorDecode` returns the type and the octets `ArmorEncode` was given, for the four types
    the encoder knows and non-empty data, provided the comment (and the version text, when the
    version header is requested) contains no line feed and, after removal of blanks, tabs and
    carriage returns, no five dashes in a row.  (For empty data the library's decoder refuses its
    own encoder's output: see `armor_empty_rejected`.) -/
theorem armor_roundtrip (type : Nat) (ht : type = 1 ∨ type = 2 ∨ type = 5 ∨ type = 6)
    (comment : Text) (version : Option Text) (data : Octets) (hd : IsOctets data) (hne : data ≠ [])
    (hc : TextOK comment) (hv : ∀ v, version = some v → TextOK v) :
    armorDecode (armorEncode type comment version data) = (type, data) := by
  obtain ⟨k, pre, post, hk1, hk2, hk⟩ := encodeKind_cases type ht
  unfold armorEncode
  rw [armorAssemble_eq type k hk1,
    armorDecode_text hk (hdrLines_ok comment version hc hv) (b64OK_encode data hd hne)
      (crc24Encode_shape data),
    radix64Decode_strip, radix64_roundtrip true data hd, if_pos rfl, hk2]

/-- C19: an armor whose checksum line (`=` and four radix-64 digits) is not the CRC-24 of the
    radix-64 data is refused -/
theorem armor_rejects_bad_checksum (type : Nat) (ht : type = 1 ∨ type = 2 ∨ type = 5 ∨ type = 6)
    (comment : Text) (version : Option Text) (data : Octets) (hd : IsOctets data) (hne : data ≠ [])
    (hc : TextOK comment) (hv : ∀ v, version = some v → TextOK v)
    (chk : Text) (hchk : ChkOK chk) (hbad : chk ≠ crc24Encode data) :
    armorDecode (armorAssemble type comment version (radix64Encode true data) chk) = (0, []) := by
  obtain ⟨k, pre, post, hk1, hk2, hk⟩ := encodeKind_cases type ht
  rw [armorAssemble_eq type k hk1,
    armorDecode_text hk (hdrLines_ok comment version hc hv) (b64OK_encode data hd hne) hchk,
    radix64Decode_strip, radix64_roundtrip true data hd, if_neg (fun h => hbad h.symm)]

/-- in particular a checksum that belongs to other data is refused -/
theorem armor_rejects_foreign_checksum (type : Nat) (ht : type = 1 ∨ type = 2 ∨ type = 5 ∨ type = 6)
    (comment : Text) (version : Option Text) (data other : Octets) (hd : IsOctets data)
    (hne : data ≠ []) (hc : TextOK comment) (hv : ∀ v, version = some v → TextOK v)
    (hbad : crc24Encode other ≠ crc24Encode data) :
    armorDecode (armorAssemble type comment version (radix64Encode true data) (crc24Encode other)) =
      (0, []) :=
  armor_rejects_bad_checksum type ht comment version data hd hne hc hv _ (crc24Encode_shape other) hbad

/-- the armor of an EMPTY octet string (three line ends in a row, checksum `=twTO`) decodes to the
    empty string (repair of finding F14: the body may be empty, `rpos + 2 ≤ cpos`): instances for the
    four armor types, without headers, with a comment and with a version line.  (The general theorem
    `armor_roundtrip` covers all non-empty data.) -/
theorem armor_empty_roundtrip_instances :
    armorDecode (armorEncode 1 [] none []) = (1, []) ∧ armorDecode (armorEncode 2 [] none []) = (2, []) ∧
    armorDecode (armorEncode 5 [] none []) = (5, []) ∧ armorDecode (armorEncode 6 [] none []) = (6, []) ∧
    armorDecode (armorEncode 1 "a comment".toList none []) = (1, []) ∧
    armorDecode (armorEncode 6 "a comment".toList (some "v1".toList) []) = (6, []) := by
  decide


/-! ### smaller facts: known answer, tags, scalars, strings, S2K count -/

/-- the check value of CRC-24/OPENPGP: the CRC of "123456789" is 0x21CF02 -/
theorem crc24_check : crc24 [0x31, 0x32, 0x33, 0x34, 0x35, 0x36, 0x37, 0x38, 0x39] = [0x21, 0xCF, 0x02] := by
  decide +kernel

/-- the CRC of the empty string is the preset value 0xB704CE -/
theorem crc24_nil : crc24 [] = [0xB7, 0x04, 0xCE] := by decide

/-- packet tags are written in the new format: bits 7 and 6 set, the tag in bits 5..0 -/
theorem packetTagEncode_new : ∀ tag, tag < 64 → packetTagEncode tag = [192 + tag] := by decide

theorem scalarFour_value (n : Nat) : fromBE (scalarFourEncode n) = n % 2 ^ 32 := by
  simp only [scalarFourEncode, fromBE, List.foldl_cons, List.foldl_nil]
  omega

theorem scalarEight_value (n : Nat) : fromBE (scalarEightEncode n) = n % 2 ^ 64 := by
  simp only [scalarEightEncode, scalarFourEncode, fromBE, List.cons_append, List.nil_append,
    List.foldl_cons, List.foldl_nil]
  omega

theorem timeEncode_value (t : Nat) (ht : t < 2 ^ 32) : fromBE (timeEncode t) = t := by
  rw [timeEncode, scalarFour_value, Nat.mod_eq_of_lt ht]

/-- a non-empty string shorter than 2^32 is read back; the empty string is written as a single
    zero octet, which `PacketStringDecode` refuses -/
theorem string_roundtrip (s rest : Octets) (h0 : s ≠ []) (hl : s.length < 2 ^ 32) :
    stringDecode (stringEncode s ++ rest) = ((stringEncode s).length, s) := by
  unfold stringDecode stringEncode
  rw [List.append_assoc, len_roundtrip s.length hl (s ++ rest) 0xFF]
  have hpos : s.length ≠ 0 := fun h => h0 (List.length_eq_zero_iff.1 h)
  have hle : 1 ≤ (packetLengthEncode s.length).length := by
    unfold packetLengthEncode; split <;> [simp; (split <;> simp)]
  have h42 : (packetLengthEncode s.length).length ≠ 42 := by
    unfold packetLengthEncode; split <;> [simp; (split <;> simp)]
  simp only [Bool.false_eq_true, false_or, hpos, if_false, List.length_append]
  rw [if_neg (by omega), if_neg (by omega)]
  refine Prod.ext (by simp only; omega) ?_
  simp only
  rw [List.drop_left, List.take_left]

theorem string_empty_refused (rest : Octets) : stringDecode (stringEncode [] ++ rest) = (0, []) := by
  simp [stringDecode, stringEncode, packetLengthEncode, packetLengthDecode]

/-- the coded count octet of the iterated and salted S2K: the table of all 256 values agrees with
    mantissa and exponent, `(16 + (c mod 16)) · 2^(c div 16 + 6)`, between 1024 and 65011712 -/
theorem s2kCount_table : ∀ c, c < 256 →
    s2kCountDecode c = (16 + c % 16) * 2 ^ (c / 16 + 6) ∧
    1024 ≤ s2kCountDecode c ∧ s2kCountDecode c ≤ 65011712 := by decide +kernel

/-! ### iterated and salted S2K: the octets fed to the hash contexts -/

theorem s2kCycle_length (input : List Nat) (n i : Nat) : (s2kCycle input n i).length = n := by
  induction n generalizing i with
  | zero => rfl
  | succ n ih => simp [s2kCycle, ih]

theorem s2kCycle_getElem (input : List Nat) (n i k : Nat) (hk : k < n) :
    (s2kCycle input n i)[k]? = some (input.getD ((i + k) % input.length) 0) := by
  induction n generalizing i k with
  | zero => omega
  | succ n ih =>
    cases k with
    | zero => simp [s2kCycle]
    | succ k =>
      simp only [s2kCycle, List.getElem?_cons_succ]
      rw [ih (i + 1) k (by omega)]; congr 3; omega

theorem s2kFeed_length (input : List Nat) (cnt : Nat) :
    (s2kFeed input cnt).length = max input.length cnt := by
  simp [s2kFeed, s2kCycle_length]; omega

theorem s2kFeed_prefix (input : List Nat) (cnt : Nat) : input <+: s2kFeed input cnt := by
  simp [s2kFeed]

theorem s2kFeed_periodic (input : List Nat) (cnt k : Nat) (hk : k < max input.length cnt) :
    (s2kFeed input cnt)[k]? = some (input.getD (k % input.length) 0) := by
  unfold s2kFeed
  by_cases h : k < input.length
  · rw [List.getElem?_append_left h, Nat.mod_eq_of_lt h]; simp [List.getD, h]
  · rw [List.getElem?_append_right (by omega), s2kCycle_getElem _ _ _ _ (by omega)]
    congr 3; omega


theorem flatten_length_const {α} (l : List (List α)) (n : Nat) (h : ∀ x ∈ l, x.length = n) :
    l.flatten.length = l.length * n := by
  induction l with
  | nil => simp
  | cons a l ih =>
    simp only [List.flatten_cons, List.length_append, List.length_cons]
    rw [ih (fun x hx => h x (List.mem_cons_of_mem _ hx)), h a List.mem_cons_self]
    rw [Nat.add_mul]; omega

/-- the key has exactly the requested length (for a digest function with `hashlen` octets of output) -/
theorem s2kKey_length (H : List Nat → List Nat) (hashlen sklen : Nat) (salt pw : List Nat)
    (iterated : Bool) (c : Nat) (hH : ∀ x, (H x).length = hashlen) (hs : salt.length = 8)
    (hl : 0 < hashlen) : (s2kKey H hashlen sklen salt pw iterated c).length = sklen := by
  unfold s2kKey s2kStreams
  rw [if_neg (by omega), List.length_take, flatten_length_const _ hashlen]
  · simp only [List.length_map, List.length_range]
    have := Nat.lt_div_mul_add hl (a := sklen)
    have h2 : (sklen / hashlen + 1) * hashlen = sklen / hashlen * hashlen + hashlen := by
      rw [Nat.add_mul]; omega
    omega
  · intro x hx; simp only [List.mem_map] at hx
    obtain ⟨_, _, rfl⟩ := hx; exact hH _

/-- context `j` hashes `j` zero octets, then the feed of `salt ‖ passphrase` -/
theorem s2kStreams_getElem (hashlen sklen : Nat) (salt pw : List Nat) (iterated : Bool) (c j : Nat)
    (hs : salt.length = 8) (hl : 0 < hashlen) (hj : j < sklen / hashlen + 1) :
    (s2kStreams hashlen sklen salt pw iterated c)[j]? =
      some (List.replicate j 0 ++ s2kFeed (salt ++ pw) (if iterated then s2kCountDecode c else 0)) := by
  unfold s2kStreams
  rw [if_neg (by omega)]
  simp [hj, s2kStream]


end Tmcg.Pgp

