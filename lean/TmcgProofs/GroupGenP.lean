import TmcgProofs.GroupGenD
/-
  C06, first clause — PedersenCommitmentScheme (GrothSKC, GrothVSSHE), SetupGenerators_publiccoin,
  HooghSchoenmakersSkoricVillegasVRHE, NaorPinkasEOTP, and the trapdoor scheme fed from a VTMF instance.
-/
namespace Tmcg.GroupGenProofs
open Tmcg Tmcg.Rabin Tmcg.RabinGen Tmcg.PrimeGen Tmcg.GroupCheck Tmcg.GroupGen Tmcg.PrimeGenProofs

/-- BarnettSmartVTMF_dlog → PedersenTrapdoorCommitmentScheme(p, q, k, g): accepted iff the trapdoor is not 0 or 1 -/
theorem vtmf_pt_iff (isPrime : Oracle) (H : Hash) (canonical : Bool) (fsize gsize fuel : Nat) (coins : Coins)
    (P P2 : Params) (sigma : Int) (rest coins2 rest2 : Coins)
    (hpr : PrimeOracleOk (primeOf isPrime))
    (hsound : canonical = false → primeOf isPrime P.p = true → P.p.natAbs.Prime)
    (hgen : vtmfGen isPrime H canonical fsize gsize fuel coins = .ok (P, rest))
    (h : ptFrom P.p P.q P.k P.g coins2 = .ok ((P2, sigma), rest2)) :
    (checkGroup .PT fsize gsize (primeOf isPrime) H fuel P2 = .ok true ↔ (P2.h ≠ 1 ∧ P2.h ≠ P2.g)) ∧
      (P2.h ≠ 1 → checkElement false P2.p P2.q P2.h = .ok true) := by
  obtain ⟨p, q, k, ep, eq, ek, L, hg, -⟩ := vtmfGen_spec isPrime H canonical fsize gsize fuel coins P rest hpr hsound hgen
  have hp2 : (2 : Int) < P.p := by rw [ep]; have := L.pbig; omega
  have hq0 : (0 : Int) < P.q := by rw [eq]; have := L.qpos; omega
  have hodd : P.q % 2 = 1 := by rw [eq]; have := L.qodd; omega
  obtain ⟨hiff, e1, e2, -, hh⟩ := ptFrom_iff fsize gsize fuel _ H hpr P.p P.q P.k P.g coins2 rest2 P2 sigma
    (by rw [ep, eq, ek]; exact L.pre) hp2 hodd hg h
  exact ⟨hiff, fun h1 => by rw [e1, e2]; exact genOk_checkElement _ _ _ hp2 hq0 (hh h1)⟩

/-! ### PedersenCommitmentScheme -/

/-- the Pedersen check on a set whose generators are all of order `q`: only coincidences are refused -/
theorem checkP_iff (fsize gsize fuel : Nat) (prime : Int → Bool) (H : Hash) (hpr : PrimeOracleOk prime) (P : Params)
    (hpre : PrefixOk fsize gsize prime P.p P.q P.k) (hgs : ∀ x ∈ P.gs, GenOk x P.p P.q) :
    checkGroup .P fsize gsize prime H fuel P = .ok true ↔ (GenOk P.h P.p P.q ∧ (P.h :: P.gs).Nodup) := by
  rw [GroupCheck.checkGroup_P_iff fsize gsize _ H fuel hpr, List.nodup_cons]
  constructor
  · rintro ⟨-, h1, h2, h3⟩
    exact ⟨h1, fun hm => (h2 _ hm).2 rfl, h3⟩
  · rintro ⟨h1, h2, h3⟩
    exact ⟨hpre, h1, fun x hx => ⟨hgs x hx, fun e => h2 (e ▸ hx)⟩, h3⟩

theorem splitLast_spec : ∀ (ts : List Int), ts ≠ [] → ts = (splitLast ts).1 ++ [(splitLast ts).2]
  | [], h => absurd rfl h
  | [x], _ => by simp [splitLast]
  | x :: y :: ys, _ => by
    have ih := splitLast_spec (y :: ys) (by simp)
    simp only [splitLast] at ih ⊢
    simp only [List.cons_append, List.cons.injEq, true_and]
    exact ih

/-- PedersenCommitmentScheme(n, fieldsize, subgroupsize) (and GrothSKC(n, …), which wraps it): the generated set
    passes CheckGroup iff the `n + 1` independently drawn generators are pairwise different -/
theorem pedersenGen_iff (isPrime : Oracle) (H : Hash) (n fsize gsize fuel : Nat) (coins : Coins)
    (P : Params) (rest : Coins)
    (hpr : PrimeOracleOk (primeOf isPrime))
    (hsound : primeOf isPrime P.p = true → P.p.natAbs.Prime)
    (h : pedersenGen isPrime n fsize gsize fuel coins = .ok (P, rest)) :
    (checkGroup .P fsize gsize (primeOf isPrime) H fuel P = .ok true ↔ (P.h :: P.gs).Nodup) ∧
      P.gs.length = n ∧
      checkElement false P.p P.q P.h = .ok true ∧ ∀ x ∈ P.gs, checkElement false P.p P.q x = .ok true := by
  unfold pedersenGen at h
  cases hl : lprime isPrime fsize gsize MR fuel coins with
  | error e => rw [hl] at h; simp at h
  | ok v =>
    obtain ⟨⟨p, q, k⟩, rest0⟩ := v
    rw [hl] at h
    simp only at h
    have L := lprime_prefix isPrime fsize gsize fuel coins p q k rest0 hpr hl
    cases hr : randElems (p : Int) (k : Int) fuel (n + 1) rest0 with
    | error e => rw [hr] at h; simp at h
    | ok w =>
      obtain ⟨ts, rest1⟩ := w
      rw [hr] at h
      simp only [Except.ok.injEq, Prod.mk.injEq] at h
      obtain ⟨rfl, -⟩ := h
      have hp2 : (2 : Int) < p := by have := L.pbig; omega
      have hq0 : (0 : Int) < q := by have := L.qpos; omega
      have hpP : p.Prime := by
        have := hsound L.pre.2.2.2.2.1
        simpa using this
      obtain ⟨hlen, hall⟩ := randElems_spec (p : Int) (k : Int) fuel (fun t => GenOk t p q)
        (fun c t r hc => randElem_genOk p q k hpP L.e fuel c t r hc) (n + 1) rest0 ts rest1 hr
      have hne : ts ≠ [] := by intro e; rw [e] at hlen; simp at hlen
      have hsp := splitLast_spec ts hne
      have hgs : ∀ x ∈ (splitLast ts).1, GenOk x p q := fun x hx => hall x (by rw [hsp]; simp [hx])
      have hh : GenOk (splitLast ts).2 p q := hall _ (by
        have : (splitLast ts).2 ∈ (splitLast ts).1 ++ [(splitLast ts).2] := by simp
        rwa [← hsp] at this)
      have hl2 : (splitLast ts).1.length = n := by
        have := congrArg List.length hsp
        simp at this; omega
      refine ⟨?_, hl2, genOk_checkElement _ _ _ hp2 hq0 hh, fun x hx => genOk_checkElement _ _ _ hp2 hq0 (hgs x hx)⟩
      rw [checkP_iff fsize gsize fuel _ H hpr _ L.pre hgs]
      exact ⟨fun h => h.2, fun h => ⟨hh, h⟩⟩

/-- PedersenCommitmentScheme(n, p, q, k, h, …) on a valid group with an accepted `h` -/
theorem pedersenFrom_iff (fsize gsize fuel : Nat) (prime : Int → Bool) (H : Hash) (hpr : PrimeOracleOk prime)
    (p q k : Nat) (hv : Int) (n : Nat) (coins rest : Coins) (P : Params)
    (hpre : PrefixOk fsize gsize prime (p : Int) (q : Int) (k : Int)) (hpP : p.Prime) (e : p = q * k + 1) (hq : 0 < q)
    (h : pedersenFrom (p : Int) (q : Int) (k : Int) hv n fuel coins = .ok (P, rest)) :
    (checkGroup .P fsize gsize prime H fuel P = .ok true ↔ (GenOk hv p q ∧ (P.h :: P.gs).Nodup)) ∧
      P.p = p ∧ P.q = q ∧ P.h = hv ∧ P.gs.length = n ∧ ∀ x ∈ P.gs, checkElement false P.p P.q x = .ok true := by
  unfold pedersenFrom at h
  cases hr : randElems (p : Int) (k : Int) fuel n coins with
  | error e => rw [hr] at h; simp at h
  | ok w =>
    obtain ⟨ts, rest1⟩ := w
    rw [hr] at h
    simp only [Except.ok.injEq, Prod.mk.injEq] at h
    obtain ⟨rfl, -⟩ := h
    obtain ⟨hlen, hall⟩ := randElems_spec (p : Int) (k : Int) fuel (fun t => GenOk t p q)
      (fun c t r hc => randElem_genOk p q k hpP e fuel c t r hc) n coins ts rest1 hr
    have hp2 : (2 : Int) < p := by
      have : 2 < p := by
        rcases Nat.lt_or_ge 2 p with h | h
        · exact h
        · exfalso
          have h2 := hpP.two_le
          have : p = 2 := by omega
          have hk : q * k = 1 := by omega
          have hq1 : q = 1 := Nat.eq_one_of_mul_eq_one_right hk
          have := hpr _ hpre.2.2.2.2.2.1
          omega
      omega
    refine ⟨checkP_iff fsize gsize fuel _ H hpr _ hpre hall, rfl, rfl, rfl, hlen,
      fun x hx => genOk_checkElement x (p : Int) (q : Int) hp2 (by omega) (hall x hx)⟩

/-- BarnettSmartVTMF_dlog → PedersenCommitmentScheme(n, p, q, k, h, …) and GrothVSSHE(n, p, q, k, g, h, …) (whose
    commitment scheme is exactly this one): accepted iff the common key is not 1 and `h, g_1, …, g_n` are pairwise
    different; GrothVSSHE::CheckGroup additionally wants `|q| ≥ 2 l_e` (precondition `2 l_e ≤ subgroupsize`) -/
theorem vtmf_pedersen_iff (isPrime : Oracle) (H : Hash) (canonical : Bool) (fsize gsize fuel : Nat) (coins : Coins)
    (P P' P2 : Params) (x : Int) (rest rest' coins3 rest3 : Coins) (n le : Nat)
    (hpr : PrimeOracleOk (primeOf isPrime))
    (hsound : primeOf isPrime P.p = true → P.p.natAbs.Prime)
    (hle : le * 2 ≤ gsize)
    (hgen : vtmfGen isPrime H canonical fsize gsize fuel coins = .ok (P, rest))
    (hkey : vtmfKey P rest = .ok ((P', x), rest'))
    (h : pedersenFrom P'.p P'.q P'.k P'.h n fuel coins3 = .ok (P2, rest3)) :
    (checkGroup .P fsize gsize (primeOf isPrime) H fuel P2 = .ok true ↔ (P'.h ≠ 1 ∧ (P2.h :: P2.gs).Nodup)) ∧
    (vssheCheck le fsize gsize (primeOf isPrime) H fuel P2 = .ok true ↔ (P'.h ≠ 1 ∧ (P2.h :: P2.gs).Nodup)) ∧
      P2.h = P'.h ∧ P2.gs.length = n ∧ ∀ y ∈ P2.gs, checkElement false P2.p P2.q y = .ok true := by
  obtain ⟨p, q, k, ep, eq, ek, L, hg, -⟩ := vtmfGen_spec isPrime H canonical fsize gsize fuel coins P rest hpr
    (fun _ => hsound) hgen
  have hp2 : (2 : Int) < P.p := by rw [ep]; have := L.pbig; omega
  have hq0 : (0 : Int) < P.q := by rw [eq]; have := L.qpos; omega
  have hodd : P.q % 2 = 1 := by rw [eq]; have := L.qodd; omega
  obtain ⟨hx0, -, rfl⟩ := vtmfKey_spec P P' x rest rest' (by omega) hq0 hkey
  simp only at h ⊢
  have hpP : p.Prime := by
    have := hsound (by rw [ep]; exact L.pre.2.2.2.2.1)
    rw [ep] at this; simpa using this
  rw [ep, eq, ek] at h
  obtain ⟨hiff, e1, e2, e3, e4, e5⟩ := pedersenFrom_iff fsize gsize fuel _ H hpr p q k _ n coins3 rest3 P2 L.pre hpP L.e L.qpos h
  have hGen : GenOk (P.g ^ x.toNat % (p : Int)) (p : Int) (q : Int) ↔ P.g ^ x.toNat % (p : Int) ≠ 1 := by
    rw [← ep, ← eq]
    exact ⟨genOk_ne_one _ _ _, pow_genOk P.g P.p P.q hp2 hq0 hodd hg _⟩
  have hmain : checkGroup .P fsize gsize (primeOf isPrime) H fuel P2 = .ok true ↔
      (P.g ^ x.toNat % P.p ≠ 1 ∧ (P2.h :: P2.gs).Nodup) := by
    rw [hiff, hGen, ep]
  refine ⟨hmain, ?_, by rw [e3, ep], e4, e5⟩
  unfold vssheCheck
  have hb : gsize ≤ bitlen P2.q := by rw [e2]; exact L.pre.2.1
  have hno : ¬ ((decide (bitlen P2.q < le) || decide (bitlen P2.q < le * 2)) = true) := by
    simp only [Bool.or_eq_true, decide_eq_true_eq, not_or, not_lt]
    omega
  rw [if_neg hno]
  exact hmain

/-! ### HooghSchoenmakersSkoricVillegasVRHE, NaorPinkasEOTP -/

/-- HooghSchoenmakersSkoricVillegasVRHE(fieldsize, subgroupsize): accepted iff the two independently drawn
    generators differ -/
theorem vrheGen_iff (isPrime : Oracle) (H : Hash) (fsize gsize fuel : Nat) (coins : Coins) (P : Params) (rest : Coins)
    (hpr : PrimeOracleOk (primeOf isPrime))
    (hsound : primeOf isPrime P.p = true → P.p.natAbs.Prime)
    (h : vrheGen isPrime fsize gsize fuel coins = .ok (P, rest)) :
    (checkGroup .G fsize gsize (primeOf isPrime) H fuel P = .ok true ↔ P.g ≠ P.h) ∧
      checkElement false P.p P.q P.g = .ok true ∧ checkElement false P.p P.q P.h = .ok true := by
  unfold vrheGen at h
  cases hl : lprime isPrime fsize gsize MR fuel coins with
  | error e => rw [hl] at h; simp at h
  | ok v =>
    obtain ⟨⟨p, q, k⟩, rest0⟩ := v
    rw [hl] at h
    simp only at h
    have L := lprime_prefix isPrime fsize gsize fuel coins p q k rest0 hpr hl
    cases hg : randElem (p : Int) (k : Int) fuel rest0 with
    | error e => rw [hg] at h; simp at h
    | ok w =>
      obtain ⟨g, rest1⟩ := w
      rw [hg] at h
      simp only at h
      cases hh : randElem (p : Int) (k : Int) fuel rest1 with
      | error e => rw [hh] at h; simp at h
      | ok w2 =>
        obtain ⟨hv, rest2⟩ := w2
        rw [hh] at h
        simp only [Except.ok.injEq, Prod.mk.injEq] at h
        obtain ⟨rfl, -⟩ := h
        have hp2 : (2 : Int) < p := by have := L.pbig; omega
        have hq0 : (0 : Int) < q := by have := L.qpos; omega
        have hpP : p.Prime := by
          have := hsound L.pre.2.2.2.2.1
          simpa using this
        have hgOk := randElem_genOk p q k hpP L.e fuel rest0 g rest1 hg
        have hhOk := randElem_genOk p q k hpP L.e fuel rest1 hv rest2 hh
        refine ⟨?_, genOk_checkElement _ _ _ hp2 hq0 hgOk, genOk_checkElement _ _ _ hp2 hq0 hhOk⟩
        rw [GroupCheck.checkGroup_G_iff fsize gsize _ H fuel hpr _ .G (.inl rfl)]
        simp only
        rw [L.fdiv]
        exact ⟨fun h => h.2.2.2, fun h => ⟨L.pre, hhOk, hgOk, h⟩⟩

/-- NaorPinkasEOTP(fieldsize, subgroupsize): always accepted -/
theorem eotpGen_passes (isPrime : Oracle) (H : Hash) (fsize gsize fuel : Nat) (coins : Coins) (P : Params) (rest : Coins)
    (hpr : PrimeOracleOk (primeOf isPrime))
    (hsound : primeOf isPrime P.p = true → P.p.natAbs.Prime)
    (h : eotpGen isPrime fsize gsize fuel coins = .ok (P, rest)) :
    checkGroup .NP fsize gsize (primeOf isPrime) H fuel P = .ok true ∧ checkElement false P.p P.q P.g = .ok true := by
  unfold eotpGen at h
  cases hl : lprime isPrime fsize gsize MR fuel coins with
  | error e => rw [hl] at h; simp at h
  | ok v =>
    obtain ⟨⟨p, q, k⟩, rest0⟩ := v
    rw [hl] at h
    simp only at h
    have L := lprime_prefix isPrime fsize gsize fuel coins p q k rest0 hpr hl
    cases hg : randElem (p : Int) (k : Int) fuel rest0 with
    | error e => rw [hg] at h; simp at h
    | ok w =>
      obtain ⟨g, rest1⟩ := w
      rw [hg] at h
      simp only [Except.ok.injEq, Prod.mk.injEq] at h
      obtain ⟨rfl, -⟩ := h
      have hp2 : (2 : Int) < p := by have := L.pbig; omega
      have hq0 : (0 : Int) < q := by have := L.qpos; omega
      have hpP : p.Prime := by
        have := hsound L.pre.2.2.2.2.1
        simpa using this
      have hgOk := randElem_genOk p q k hpP L.e fuel rest0 g rest1 hg
      refine ⟨?_, genOk_checkElement _ _ _ hp2 hq0 hgOk⟩
      rw [GroupCheck.checkGroup_NP_iff fsize gsize _ H fuel hpr]
      simp only
      rw [L.fdiv]
      exact ⟨L.pre, hgOk⟩

end Tmcg.GroupGenProofs
