import TmcgProofs.JlBase
/-
  C17, multi-party part: commit-before-reveal for the step functions of Tmcg/Model/Jl.lean, for
  EVERY state and EVERY inbox (so whatever the other parties do):

  * `no_opening_before_resolve`   in rounds 0–3 (`jlDeal`, `jlReadC`, `jlVerify`, `jlCollect`) a
                                  party broadcasts nothing in the instance of `Flip`; everything
                                  it broadcasts belongs to the sharing phase
  * `opening_only_in_round_4`     the only values ever broadcast in the instance of `Flip` are the
                                  two of round 4 (`jlResolve`), the last step of `Share`
  * `opening_is_committed_pair`   for a party that follows the protocol these two values are the
                                  pair `(c_i0, ĉ_i0)` its commitment `C_i0` was computed from
  * `readC_reads_all`             round 1 (`jlReadC`) reads, for every other party `j`, the
                                  commitments of `j` or registers a complaint: after it, row `j`
                                  is a complete row of group elements or `j` is accused
  * `private_shares_after_commitments` the private shares leave in round 1 only, i.e. after the
                                  reading of the commitments (`jlReadC` reads first, then sends)
-/
namespace Tmcg.JlProofs
open Tmcg Tmcg.Jl

/-- a broadcast in the instance of `Flip`: an opening -/
def IsOpening (op : Op) : Prop := ∃ v, op = Op.bc tagFlip v

/-- a privately sent value -/
def IsPrivate (op : Op) : Prop := ∃ j v, op = Op.pv j v

theorem tagShare_ne_tagFlip : tagShare ≠ tagFlip := by decide

theorem tagRec_ne_tagFlip (l : List Nat) : tagRec l ≠ tagFlip := by
  unfold tagRec tagFlip
  intro h
  injection h with h1 _
  exact absurd h1 (by decide)

theorem not_opening_share (v : Int) : ¬ IsOpening (Op.bc tagShare v) := by
  rintro ⟨w, h⟩
  injection h with h1 _
  exact tagShare_ne_tagFlip h1

theorem not_opening_rec (l : List Nat) (v : Int) : ¬ IsOpening (Op.bc (tagRec l) v) := by
  rintro ⟨w, h⟩
  injection h with h1 _
  exact tagRec_ne_tagFlip l h1

theorem not_opening_pv (j : Nat) (v : Int) : ¬ IsOpening (Op.pv j v) := by
  rintro ⟨w, h⟩
  cases h

variable (G : Jl.Grp)

/-! ### the outputs of the single steps -/

theorem jlDeal_ops {n t i : Nat} {sfb : Bool} {strong : List Int} {weak : List Nat} {st : St}
    {ops : List Op} {s : Status} (h : jlDeal G n t i sfb strong weak = .ok (st, ops, s)) :
    ∀ op ∈ ops, ∃ v, op = Op.bc tagShare v := by
  unfold jlDeal at h
  simp only [bind, Except.bind, pure, Except.pure] at h
  split at h
  · cases h
  · split at h
    · cases h
    · split at h
      · cases h
      · injection h with h
        injection h with _ h
        injection h with h _
        subst h
        intro op hop
        obtain ⟨v, _, hv⟩ := List.mem_map.mp hop
        exact ⟨v, hv.symm⟩

theorem jlReadC_ops (st : St) (I : Inbox) : ∀ op ∈ (jlReadC G st I).2.2.1, IsPrivate op := by
  intro op hop
  unfold jlReadC at hop
  simp only [List.mem_flatMap] at hop
  obtain ⟨j, _, hj⟩ := hop
  simp only [List.mem_cons, List.mem_nil_iff, or_false] at hj
  rcases hj with h | h
  · exact ⟨j, _, h⟩
  · exact ⟨j, _, h⟩

theorem jlVerify_ops {st st' : St} {I I' : Inbox} {ops : List Op} {s : Status}
    (h : jlVerify G st I = .ok (st', I', ops, s)) : ∀ op ∈ ops, ∃ v, op = Op.bc tagShare v := by
  unfold jlVerify at h
  simp only [bind, Except.bind, pure, Except.pure] at h
  split at h
  · cases h
  · injection h with h
    injection h with _ h
    injection h with _ h
    injection h with h _
    subst h
    intro op hop
    rcases List.mem_append.mp hop with h1 | h1
    · obtain ⟨v, _, hv⟩ := List.mem_map.mp h1
      exact ⟨_, hv.symm⟩
    · simp only [List.mem_cons, List.mem_nil_iff, or_false] at h1
      exact ⟨_, h1⟩

theorem jlCollect_ops (st : St) (I : Inbox) :
    ∀ op ∈ (jlCollect st I).2.2.1, ∃ v, op = Op.bc tagShare v := by
  intro op hop
  unfold jlCollect at hop
  simp only at hop
  rcases List.mem_append.mp hop with h1 | h1
  · split at h1
    · simp only [List.mem_flatMap] at h1
      obtain ⟨it, _, hit⟩ := h1
      simp only [List.mem_cons, List.mem_nil_iff, or_false] at hit
      rcases hit with h | h | h
      · exact ⟨_, h⟩
      · exact ⟨_, h⟩
      · exact ⟨_, h⟩
    · cases h1
  · simp only [List.mem_cons, List.mem_nil_iff, or_false] at h1
    exact ⟨_, h1⟩

/-- the outputs of `jlRecNext`: nothing, or the party's pair for the next accused party, in the
    instance of `Reconstruct` -/
theorem jlRecNext_ops (st : St) : ∀ op ∈ (jlRecNext G st).2.1, ∃ v, op = Op.bc (tagRec st.racc) v := by
  intro op hop
  unfold jlRecNext at hop
  split at hop
  · cases hop
  · split at hop
    · cases hop
    · simp only at hop
      split at hop
      · simp only [List.mem_cons, List.mem_nil_iff, or_false] at hop
        rcases hop with h | h
        · exact ⟨_, h⟩
        · exact ⟨_, h⟩
      · cases hop

/-- `jlResolve` broadcasts nothing or exactly the two values of `openOps` -/
theorem jlResolve_ops {st st' : St} {I I' : Inbox} {ops : List Op} {s : Status}
    (h : jlResolve G st I = .ok (st', I', ops, s)) :
    ops = [] ∨ ∃ st1 : St, st1.c = st.c ∧ st1.hc = st.hc ∧ st1.sfb = st.sfb ∧ st1.rF = st.rF ∧
      ops = (openOps st1).2.2 := by
  unfold jlResolve at h
  simp only [bind, Except.bind, pure, Except.pure] at h
  split at h
  · cases h
  · split at h
    · injection h with h
      injection h with _ h
      injection h with _ h
      injection h with h _
      exact Or.inl h.symm
    · split at h
      · injection h with h
        injection h with _ h
        injection h with _ h
        injection h with h _
        exact Or.inl h.symm
      · injection h with h
        injection h with _ h
        injection h with _ h
        injection h with h _
        exact Or.inr ⟨_, rfl, rfl, rfl, rfl, h.symm⟩

/-! ### the order of commitment and opening -/

/-- **rounds 0–3 reveal nothing**: no broadcast in the instance of `Flip` -/
theorem no_opening_before_resolve (ins : List PartyIn) (n t r i : Nat) (hr : r < 4)
    {st st' : St} {I I' : Inbox} {ops : List Op} {s : Status}
    (h : flipStep G ins n t r i st I = .ok (st', I', ops, s)) : ∀ op ∈ ops, ¬ IsOpening op := by
  intro op hop
  have h4 : r = 0 ∨ r = 1 ∨ r = 2 ∨ r = 3 := by omega
  rcases h4 with rfl | rfl | rfl | rfl
  · simp only [flipStep, bind, Except.bind, pure, Except.pure] at h
    split at h
    · cases h
    · rename_i v hv
      injection h with h
      injection h with _ h
      injection h with _ h
      injection h with h _
      subst h
      obtain ⟨w, hw⟩ := jlDeal_ops G (st := v.1) (ops := v.2.1) (s := v.2.2) hv op hop
      rw [hw]; exact not_opening_share w
  · simp only [flipStep, pure, Except.pure] at h
    injection h with h
    have hops : ops = (jlReadC G st I).2.2.1 := by rw [h]
    rw [hops] at hop
    obtain ⟨j, v, hv⟩ := jlReadC_ops G st I op hop
    rw [hv]; exact not_opening_pv j v
  · simp only [flipStep] at h
    obtain ⟨w, hw⟩ := jlVerify_ops G h op hop
    rw [hw]; exact not_opening_share w
  · simp only [flipStep, pure, Except.pure] at h
    injection h with h
    have hops : ops = (jlCollect st I).2.2.1 := by rw [h]
    rw [hops] at hop
    obtain ⟨w, hw⟩ := jlCollect_ops st I op hop
    rw [hw]; exact not_opening_share w

/-- **the opening is the committed pair**: what round 4 broadcasts in the instance of `Flip` is, for
    a party that follows the protocol (`sfb = false`), the pair `(c_i0, ĉ_i0)` of its first two
    draws — the pair its commitment `C_i0 = g^{c_i0} h^{ĉ_i0}` of round 0 was computed from — and
    nothing else -/
theorem opening_is_committed_pair {st st' : St} {I I' : Inbox} {ops : List Op} {s : Status}
    (hsfb : st.sfb = false) (h : jlResolve G st I = .ok (st', I', ops, s)) :
    ops = [] ∨ ops = [Op.bc tagFlip (getI st.c 0), Op.bc tagFlip (getI st.hc 0)] := by
  rcases jlResolve_ops G h with h0 | ⟨st1, hc, hhc, hs, _, hops⟩
  · exact Or.inl h0
  · right
    rw [hops]
    unfold openOps
    simp only [hs, hsfb, hc, hhc, Bool.false_and, Bool.false_eq_true, if_false]

/-- **after round 4 nothing is opened either**: the reconstruction rounds broadcast in the
    instance of `Reconstruct` only -/
theorem no_opening_after_resolve (ins : List PartyIn) (n t r i : Nat) (hr : 5 ≤ r)
    {st st' : St} {I I' : Inbox} {ops : List Op} {s : Status}
    (h : flipStep G ins n t r i st I = .ok (st', I', ops, s)) : ∀ op ∈ ops, ¬ IsOpening op := by
  intro op hop
  obtain ⟨d, rfl⟩ : ∃ d, r = 5 + d := ⟨r - 5, by omega⟩
  cases d with
  | zero =>
    simp only [flipStep, Nat.add_zero] at h
    unfold jlReadOpen at h
    simp only [bind, Except.bind, pure, Except.pure] at h
    split at h
    · cases h
    · split at h
      · injection h with h
        injection h with _ h
        injection h with _ h
        injection h with h _
        subst h; cases hop
      · injection h with h
        injection h with _ h
        injection h with _ h
        injection h with h _
        subst h
        obtain ⟨w, hw⟩ := jlRecNext_ops G _ op hop
        rw [hw]; exact not_opening_rec _ w
  | succ d =>
    have hstep : flipStep G ins n t (5 + (d + 1)) i st I = jlRecStep G st I := by
      have : 5 + (d + 1) = (d + 5) + 1 := by omega
      rw [this]; rfl
    rw [hstep] at h
    unfold jlRecStep at h
    split at h
    · simp only [pure, Except.pure] at h
      injection h with h
      injection h with _ h
      injection h with _ h
      injection h with h _
      subst h; cases hop
    · simp only [bind, Except.bind, pure, Except.pure] at h
      split at h
      · cases h
      · split at h
        · injection h with h
          injection h with _ h
          injection h with _ h
          injection h with h _
          subst h; cases hop
        · split at h
          · injection h with h
            injection h with _ h
            injection h with _ h
            injection h with h _
            subst h; cases hop
          · injection h with h
            injection h with _ h
            injection h with _ h
            injection h with h _
            subst h
            obtain ⟨w, hw⟩ := jlRecNext_ops G _ op hop
            rw [hw]; exact not_opening_rec _ w

/-- **the opening leaves in round 4 only** -/
theorem opening_only_in_round_4 (ins : List PartyIn) (n t r i : Nat)
    {st st' : St} {I I' : Inbox} {ops : List Op} {s : Status}
    (h : flipStep G ins n t r i st I = .ok (st', I', ops, s)) (op : Op) (hop : op ∈ ops)
    (ho : IsOpening op) : r = 4 := by
  by_contra hne
  rcases Nat.lt_or_ge r 4 with h4 | h4
  · exact no_opening_before_resolve G ins n t r i h4 h op hop ho
  · exact no_opening_after_resolve G ins n t r i (by omega) h op hop ho

/-- **the private shares leave in round 1 only**, the round that first reads the commitments -/
theorem private_shares_after_commitments (ins : List PartyIn) (n t r i : Nat)
    {st st' : St} {I I' : Inbox} {ops : List Op} {s : Status}
    (h : flipStep G ins n t r i st I = .ok (st', I', ops, s)) (op : Op) (hop : op ∈ ops)
    (hp : IsPrivate op) : r = 1 := by
  obtain ⟨j, v, rfl⟩ := hp
  by_contra hne
  have hcases : r = 0 ∨ r = 2 ∨ r = 3 ∨ r = 4 ∨ 5 ≤ r := by omega
  rcases hcases with rfl | rfl | rfl | rfl | h5
  · simp only [flipStep, bind, Except.bind, pure, Except.pure] at h
    split at h
    · cases h
    · rename_i w hw
      injection h with h
      injection h with _ h
      injection h with _ h
      injection h with h _
      subst h
      obtain ⟨u, hu⟩ := jlDeal_ops G (st := w.1) (ops := w.2.1) (s := w.2.2) hw _ hop
      cases hu
  · simp only [flipStep] at h
    obtain ⟨u, hu⟩ := jlVerify_ops G h _ hop
    cases hu
  · simp only [flipStep, pure, Except.pure] at h
    injection h with h
    have hops : ops = (jlCollect st I).2.2.1 := by rw [h]
    rw [hops] at hop
    obtain ⟨u, hu⟩ := jlCollect_ops st I _ hop
    cases hu
  · simp only [flipStep] at h
    rcases jlResolve_ops G h with h0 | ⟨st1, _, _, _, _, hops⟩
    · rw [h0] at hop; cases hop
    · rw [hops] at hop
      unfold openOps at hop
      simp only [List.mem_cons, List.mem_nil_iff, or_false] at hop
      rcases hop with h1 | h1 <;> cases h1
  · -- rounds ≥ 5 broadcast in the instance of `Reconstruct` or nothing
    obtain ⟨d, rfl⟩ : ∃ d, r = 5 + d := ⟨r - 5, by omega⟩
    cases d with
    | zero =>
      simp only [flipStep, Nat.add_zero] at h
      unfold jlReadOpen at h
      simp only [bind, Except.bind, pure, Except.pure] at h
      split at h
      · cases h
      · split at h
        · injection h with h
          injection h with _ h
          injection h with _ h
          injection h with h _
          subst h; cases hop
        · injection h with h
          injection h with _ h
          injection h with _ h
          injection h with h _
          subst h
          obtain ⟨w, hw⟩ := jlRecNext_ops G _ _ hop
          cases hw
    | succ d =>
      have hstep : flipStep G ins n t (5 + (d + 1)) i st I = jlRecStep G st I := by
        have : 5 + (d + 1) = (d + 5) + 1 := by omega
        rw [this]; rfl
      rw [hstep] at h
      unfold jlRecStep at h
      split at h
      · simp only [pure, Except.pure] at h
        injection h with h
        injection h with _ h
        injection h with _ h
        injection h with h _
        subst h; cases hop
      · simp only [bind, Except.bind, pure, Except.pure] at h
        split at h
        · cases h
        · split at h
          · injection h with h
            injection h with _ h
            injection h with _ h
            injection h with h _
            subst h; cases hop
          · split at h
            · injection h with h
              injection h with _ h
              injection h with _ h
              injection h with h _
              subst h; cases hop
            · injection h with h
              injection h with _ h
              injection h with _ h
              injection h with h _
              subst h
              obtain ⟨w, hw⟩ := jlRecNext_ops G _ _ hop
              cases hw

/-! ### round 1 reads every other party's commitments -/

/-- a row read without complaint consists of exactly `f` values that passed `CheckElement`, appended
    to the accumulator -/
theorem parseElems_clean (tag : Tag) : ∀ (f : Nat) (q : List (Tag × Int)) (acc : List Int) (c : Bool),
    (parseElems G tag f q acc c).1 = false →
    c = false ∧ ∃ r : List Int, (parseElems G tag f q acc c).2.2 = acc ++ r ∧ r.length = f ∧
      ∀ v ∈ r, checkElement G v = true := by
  intro f
  induction f with
  | zero =>
    intro q acc c h
    simp only [parseElems] at h ⊢
    exact ⟨h, [], by simp, rfl, by simp⟩
  | succ f ih =>
    intro q acc c h
    unfold parseElems at h ⊢
    cases hp : popQ tag q with
    | mk o q1 =>
      cases o with
      | none => simp only [hp] at h; cases h
      | some v =>
        simp only [hp] at h ⊢
        by_cases hv : checkElement G v = true
        · simp only [hv, if_true] at h ⊢
          obtain ⟨hc, r, hr, hlen, hall⟩ := ih q1 (acc ++ [v]) c h
          refine ⟨hc, v :: r, ?_, by simp [hlen], ?_⟩
          · rw [hr]; simp
          · intro w hw
            rcases List.mem_cons.mp hw with rfl | hw
            · exact hv
            · exact hall w hw
        · simp only [hv] at h ⊢
          obtain ⟨hc, _⟩ := ih q1 (acc ++ [0]) true h
          cases hc

/-- **round 1 reads all commitments**: after `jlReadC`, for every other party `j` either the row of
    `j` in the table consists of `t+1` values that were delivered and passed `CheckElement`, or the
    party has registered a complaint against `j` -/
theorem readC_reads_all (st : St) (I : Inbox) (j : Nat) (hj : j < st.n) (hji : j ≠ st.i) :
    j ∈ (jlReadC G st I).1.compl ∨
    ((getRow (jlReadC G st I).1.C j).length = st.t + 1 ∧
      ∀ v ∈ getRow (jlReadC G st I).1.C j, checkElement G v = true) := by
  by_cases hflag : (parseElems G tagShare (st.t + 1) (I.bq j) [] false).1 = true
  · left
    unfold jlReadC
    simp only [List.mem_filter, List.mem_range, hj, Bool.and_eq_true, bne_iff_ne, ne_eq,
      hji, not_false_eq_true, hflag, and_self]
  · right
    have hf : (parseElems G tagShare (st.t + 1) (I.bq j) [] false).1 = false := by
      cases h : (parseElems G tagShare (st.t + 1) (I.bq j) [] false).1
      · rfl
      · exact absurd h hflag
    obtain ⟨_, r, hr, hlen, hall⟩ := parseElems_clean G tagShare _ _ _ _ hf
    have hrow : getRow (jlReadC G st I).1.C j = r := by
      unfold jlReadC getRow
      simp only [List.getD_eq_getElem?_getD, List.getElem?_map, List.getElem?_range hj,
        Option.map_some, Option.getD_some, hji, if_false]
      rw [hr]
      unfold padRow zeros
      simp [hlen]
    rw [hrow]
    exact ⟨hlen, hall⟩

end Tmcg.JlProofs
