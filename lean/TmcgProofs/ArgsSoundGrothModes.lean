import TmcgProofs.ArgsSoundGroth
/-
  C04 for Groth's shuffle argument, part 5: the interactive and the non-interactive mode of the
  shuffle argument played by the honest algorithm with a non-fitting witness, and the number of
  challenge vectors / challenges on which such a run can be accepted.
-/
namespace Tmcg.Args
open Tmcg Tmcg.Powm Tmcg.Vtmf Tmcg.Grp Tmcg.Sigma Tmcg.SigmaComplete Tmcg.CoinFlip Tmcg.ArgsSound
variable {G : Group} [Fact (Nat.Prime G.p.natAbs)] [Fact (Nat.Prime G.q.natAbs)]
set_option linter.unusedVariables false
set_option linter.unusedSectionVars false

theorem tVals_inter (P : GrothPub) (e E : List Card) (c cd : ℤ) (Ed : Card) :
    ∀ (ts : List ℤ) (i : ℕ) (prev : ℤ), tVals P e E c cd Ed (ts.map srcInter) i prev = ts
  | [], _, _ => rfl
  | x :: ts, i, prev => by
    simp only [List.map_cons, tVals]
    rw [tVals_inter P e E c cd Ed ts]
    rfl

/-- **shuffle argument, interactive mode, honest algorithm with any witness**: the prover runs
    `grothProve` with an index map `pi`, randomisers `R` and stacks `e`, `E` of subgroup elements
    (`ShufAlg`: no claim that `E` is the shuffle of `e`); the verifier draws `t_1 … t_n, λ, x, e ≠ 0`
    (`ℓ_e`-bit values) and the batching coin `α`.  If it accepts, the challenges satisfy the linear
    relation `GrothRel`, and `x` is a root of the permutation polynomial of the messages
    `m_i = i λ + t_i` of the inner shuffle of known content. -/
theorem groth_sound_interactive (hG : ValidGroup G) {P : GrothPub} (hP : PubOk G P)
    (pi : List ℕ) (R : List ℤ) (e E : List Card) (st : ShufAlg G P pi R e E)
    (ts : List ℤ) (lam x ev : ℤ) (lts : ts.length = pi.length)
    (hts : ∀ v ∈ ts, 0 ≤ v ∧ v < (2 : ℤ) ^ P.le) (hlam : 0 ≤ lam ∧ lam < (2 : ℤ) ^ P.le)
    (hx : 0 ≤ x ∧ x < (2 : ℤ) ^ P.le) (hev : 0 ≤ ev ∧ ev < (2 : ℤ) ^ P.le) (hev1 : ev ≠ 0)
    (r Rd : ℤ) (d : List ℤ) (rd rd' rD' : ℤ) (d' mid : List ℤ) (ra : ℤ) (rest : List ℤ) (alpha : ℤ)
    (hr : 0 ≤ r ∧ r < G.q) (hRd : 0 ≤ Rd ∧ Rd < G.q) (hd : InQ G.q d) (hrd : 0 ≤ rd ∧ rd < G.q)
    (hrd' : 0 ≤ rd' ∧ rd' < G.q) (hrD' : 0 ≤ rD' ∧ rD' < G.q) (hd' : InQ G.q d') (hmid : InQ G.q mid)
    (hra : 0 ≤ ra ∧ ra < G.q) (ld : d.length = pi.length) (ld' : d'.length = pi.length)
    (lmid : mid.length = pi.length - 2) :
    ∃ sentP,
      run (done (grothProve .inter P pi R e E))
        ⟨(ts ++ [lam] ++ [x] ++ [ev]).map some,
          r :: Rd :: (d ++ (rd :: rd' :: rD' :: (d' ++ (mid ++ (ra :: rest))))), [], false⟩ =
        .ok ⟨sentP, true, false⟩ ∧
      ∀ o : PcOutcome, o.result = true →
        run (grothVerify .inter P e E) ⟨sentP.map some, ts ++ [lam] ++ [x] ++ [ev] ++ [alpha], [], false⟩ =
          .ok o →
        GrothRel G P pi R e E ts ∧ toQ G ev ≠ 0 ∧ SkcRoot G pi (grothMsgs G.q lam ts) x := by
  obtain ⟨c, cd, Ed, f, Z, a, resp, t, msgs, lambda, x', ev', la, lf, lt, et, elam, emsgs, ex, eev, hPr, hV⟩ :=
    groth_sound_modes hG .inter hP pi R e E st
    (ts.map srcInter) (by simp [lts])
    (fun d hd => by
      obtain ⟨c, hc, rfl⟩ := List.mem_map.mp hd
      exact gsrcInter_ok P c (hts c hc) false (by simp))
    (srcInter lam) (srcInter x) (srcInter ev) (gsrcInter_ok P lam hlam false (by simp))
    (gsrcInter_ok P x hx false (by simp)) (gsrcInter_ok P ev hev true (fun _ => hev1))
    r Rd d rd rd' rD' d' mid ra rest alpha hr hRd hd hrd hrd' hrD' hd' hmid hra ld ld' lmid
  have p1 : ∀ l : List ℤ, (l.map srcInter).flatMap ChalSrc.pPeer = l := by
    intro l; rw [flatMap_map_single srcInter ChalSrc.pPeer id (fun _ => rfl)]; simp
  have p2 : ∀ l : List ℤ, (l.map srcInter).flatMap ChalSrc.vCoins = l := by
    intro l; rw [flatMap_map_single srcInter ChalSrc.vCoins id (fun _ => rfl)]; simp
  have p3 : ∀ l : List ℤ, (l.map srcInter).flatMap ChalSrc.pCoins = [] :=
    fun l => flatMap_map_nil srcInter ChalSrc.pCoins (fun _ => rfl) l
  have e1 : gVerifierLines (ts.map srcInter) (srcInter lam) (srcInter x) (srcInter ev) =
      ts ++ [lam] ++ [x] ++ [ev] := by
    simp only [gVerifierLines, p1]; rfl
  have e2 : gProverCoins (ts.map srcInter) (srcInter lam) (srcInter x) (srcInter ev)
      r Rd d rd rd' rD' d' mid ra rest = r :: Rd :: (d ++ (rd :: rd' :: rD' :: (d' ++ (mid ++ (ra :: rest))))) := by
    simp only [gProverCoins, p3]; rfl
  have e3 : gVerifierCoins (ts.map srcInter) (srcInter lam) (srcInter x) (srcInter ev) alpha =
      ts ++ [lam] ++ [x] ++ [ev] ++ [alpha] := by
    simp only [gVerifierCoins, p2]; simp [srcInter]
  rw [e1, e2] at hPr
  rw [e3] at hV
  rw [tVals_inter] at et
  have elam' : lambda = lam := elam
  have ex' : x' = x := ex
  have eev' : ev' = ev := eev
  subst et
  rw [elam'] at emsgs
  subst emsgs
  rw [ex', eev'] at hV
  exact ⟨_, hPr, hV⟩

/-- **shuffle argument, non-interactive mode**: all challenges are oracle answers; the theorem
    exposes the proof's parts and the answers `t`, `λ`, `x`, `e` as the verifier recomputes them.
    If the verifier accepts the proof written by the honest algorithm run with any witness, the
    answers `t` satisfy `GrothRel` and the answer `x` is a root of the permutation polynomial. -/
theorem groth_sound_noninteractive (hG : ValidGroup G) (H : Hash) {P : GrothPub} (hP : PubOk G P)
    (pi : List ℕ) (R : List ℤ) (e E : List Card) (st : ShufAlg G P pi R e E)
    (r Rd : ℤ) (d : List ℤ) (rd rd' rD' : ℤ) (d' mid : List ℤ) (ra : ℤ) (rest : List ℤ) (alpha : ℤ)
    (hr : 0 ≤ r ∧ r < G.q) (hRd : 0 ≤ Rd ∧ Rd < G.q) (hd : InQ G.q d) (hrd : 0 ≤ rd ∧ rd < G.q)
    (hrd' : 0 ≤ rd' ∧ rd' < G.q) (hrD' : 0 ≤ rD' ∧ rD' < G.q) (hd' : InQ G.q d') (hmid : InQ G.q mid)
    (hra : 0 ≤ ra ∧ ra < G.q) (ld : d.length = pi.length) (ld' : d'.length = pi.length)
    (lmid : mid.length = pi.length - 2) :
    ∃ (c cd : ℤ) (Ed : Card) (f : List ℤ) (Z : ℤ) (a resp t msgs : List ℤ) (lambda x ev : ℤ),
      a.length = 3 ∧ f.length = pi.length ∧ t.length = pi.length ∧
      t = tVals P e E c cd Ed (List.replicate pi.length (gsrcNi H P)) 0 (P.lnizk : ℤ) ∧
      lambda = tdivR2exp (H (shashInput (grothHashL P e E t f Z))) P.lnizk ∧
      msgs = grothMsgs G.q lambda t ∧
      x = tdivR2exp (H (shashInput (P.cg ++ msgs ++ comPqh P))) P.lnizk ∧
      ev = tdivR2exp (H (shashInput (P.cg ++ msgs ++ x :: a))) P.lnizk ∧
      run (done (grothProve (.ni H) P pi R e E))
        ⟨[], r :: Rd :: (d ++ (rd :: rd' :: rD' :: (d' ++ (mid ++ (ra :: rest))))), [], false⟩ =
        .ok ⟨[c, cd, Ed.c1, Ed.c2] ++ (f ++ (Z :: (a ++ resp))), true, false⟩ ∧
      ∀ o : PcOutcome, o.result = true →
        run (grothVerify (.ni H) P e E)
          ⟨([c, cd, Ed.c1, Ed.c2] ++ (f ++ (Z :: (a ++ resp)))).map some, [alpha], [], false⟩ = .ok o →
        GrothRel G P pi R e E t ∧ toQ G ev ≠ 0 ∧ SkcRoot G pi msgs x := by
  have hs := fun nz => gsrcNi_ok H P nz
  obtain ⟨c, cd, Ed, f, Z, a, resp, t, msgs, lambda, x', ev', la, lf, lt, et, elam, emsgs, ex, eev, hPr, hV⟩ :=
    groth_sound_modes hG (.ni H) hP pi R e E st
    (List.replicate pi.length (gsrcNi H P)) (by simp)
    (fun x hx => by rw [List.eq_of_mem_replicate hx]; exact hs false)
    (gsrcNi H P) (gsrcNi H P) (gsrcNi H P) (hs false) (hs false) (hs true)
    r Rd d rd rd' rD' d' mid ra rest alpha hr hRd hd hrd hrd' hrD' hd' hmid hra ld ld' lmid
  have e1 : gVerifierLines (List.replicate pi.length (gsrcNi H P)) (gsrcNi H P) (gsrcNi H P) (gsrcNi H P) = [] := by
    simp only [gVerifierLines, flatMap_replicate_nil ChalSrc.pPeer (gsrcNi H P) _ rfl]; rfl
  have e2 : gProverCoins (List.replicate pi.length (gsrcNi H P)) (gsrcNi H P) (gsrcNi H P) (gsrcNi H P)
      r Rd d rd rd' rD' d' mid ra rest = r :: Rd :: (d ++ (rd :: rd' :: rD' :: (d' ++ (mid ++ (ra :: rest))))) := by
    simp only [gProverCoins, flatMap_replicate_nil ChalSrc.pCoins (gsrcNi H P) _ rfl]; rfl
  have e3 : gVerifierCoins (List.replicate pi.length (gsrcNi H P)) (gsrcNi H P) (gsrcNi H P) (gsrcNi H P) alpha =
      [alpha] := by
    simp only [gVerifierCoins, flatMap_replicate_nil ChalSrc.vCoins (gsrcNi H P) _ rfl]; rfl
  have e4 : (List.replicate pi.length (gsrcNi H P)).flatMap ChalSrc.pSent = [] :=
    flatMap_replicate_nil ChalSrc.pSent (gsrcNi H P) _ rfl
  rw [e1, e2, e4] at hPr
  rw [e3, e4] at hV
  refine ⟨c, cd, Ed, f, Z, a, resp, t, msgs, lambda, x', ev', la, lf, lt, et, elam, emsgs, ex, eev, ?_, ?_⟩
  · simpa [gsrcNi] using hPr
  · intro o ho hrun
    exact hV o ho (by simpa [gsrcNi] using hrun)

end Tmcg.Args
