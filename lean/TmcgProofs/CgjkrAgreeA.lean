import TmcgProofs.DkgAgree
import Tmcg.Model.Cgjkr
/-
  Auxiliary material for TmcgProofs/CgjkrAgree.lean (agreement on `x_rvss->QUAL` in `runGenC`):
  the readers of the joint sharing `RVSS::Share` (`rvReadC`, `rvReadShares`, `rvReadComplaints`,
  `rvReadAnswers`) as functions of ONE sender's stream under a broadcast tag, the loops over the senders,
  and the specifications of the four step functions `rvDeal`, `rvVerify`, `rvCollect`, `rvResolve`.

  This is the adaptation of sections (4)-(7) of TmcgProofs/DkgAgree.lean (whose generic parts — round
  glue, output filter, `bsOf`/`setB`/`popS`, `reS`, `bumpL`, `shOne`, … — are imported and reused) to
    * an explicit environment `E : Env` (evaluation points `E.pt`),
    * an arbitrary broadcast tag,
    * `rvReadComplaints` maintaining the `complainers` lists itself (`cpsL`),
    * `rvReadAnswers` returning the answered complaints itself (`anT`), `rvResolveGo` reading the answers
      of every dealer.
  All names carry the prefix `xa_`.
-/
namespace Tmcg.CgjkrP
open Tmcg Tmcg.Powm Tmcg.Dkg Tmcg.Grp Tmcg.DkgL Tmcg.DkgP Tmcg.Cgjkr

set_option linter.unusedSectionVars false
set_option linter.unusedVariables false

/-! ### (4) the readers as functions of one sender's stream -/

theorem xa_popS_cons (tag : Tag) (v : Int) (r : List (Tag × Int)) :
    popS tag ((tag, v) :: r) = (some v, r) := by
  simp [popS, removeFirst]

/-- one sender's complaint list (step 1(c)) on its stream: the new distinct valid complaints, the
    number of times the sender is put on the complaint list, the rest of the stream -/
def rcT (tag : Tag) (n : Nat) : Nat → Nat → List Nat → List (Tag × Int) → List Nat × Nat × List (Tag × Int)
  | 0, _, _, s => ([], 0, s)
  | f + 1, it, dup, s =>
    match popS tag s with
    | (none, s1) => ([], 1, s1)
    | (some v, s1) =>
      let who := getUi v
      if who < n ∧ ¬ dup.contains who then
        if it + 1 ≤ n then
          let r := rcT tag n f (it + 1) (dup ++ [who]) s1
          (who :: r.1, r.2.1, r.2.2)
        else ([who], 0, s1)
      else if who < n then
        if it + 1 ≤ n then
          let r := rcT tag n f (it + 1) dup s1
          (r.1, r.2.1 + 1, r.2.2)
        else ([], 1, s1)
      else ([], 0, s1)

/-- `complainers[who] += [j]` for every `who` of the list -/
def cpsL (j : Nat) (ws : List Nat) (cps : List (List Nat)) : List (List Nat) :=
  ws.foldl (fun c who => c.set who (c.getD who [] ++ [j])) cps

theorem xa_rvReadComplaints (E : Env) (tag : Tag) (j : Nat) (f : Nat) (it : Nat) (dup : List Nat) (I : Inbox)
    (hj : j < I.b.length) (cnt cf cm : List Nat) (cps : List (List Nat)) :
    rvReadComplaints E tag j f it dup I cnt cf cm cps =
      (setB I j (rcT tag E.n f it dup (bsOf I j)).2.2, bumpL cnt (rcT tag E.n f it dup (bsOf I j)).1,
        cf ++ ((rcT tag E.n f it dup (bsOf I j)).1.filter (fun w => w = E.i)).map (fun _ => j),
        cm ++ List.replicate (rcT tag E.n f it dup (bsOf I j)).2.1 j,
        cpsL j (rcT tag E.n f it dup (bsOf I j)).1 cps) := by
  induction f generalizing it dup I cnt cf cm cps with
  | zero => simp [rvReadComplaints, rcT, ag_setB_self, bumpL, cpsL]
  | succ f ih =>
    unfold rvReadComplaints rcT
    rw [ag_popB]
    rcases hp : popS tag (bsOf I j) with ⟨_ | v, s1⟩
    · simp [bumpL, cpsL]
    · simp only
      by_cases h1 : getUi v < E.n ∧ ¬ dup.contains (getUi v) = true
      · simp only [h1, if_true, true_and]
        by_cases h2 : it + 1 ≤ E.n
        · simp only [h2, if_true]
          rw [ih _ _ (setB I j s1) (by simpa using hj), ag_bsOf_setB_self I j s1 hj, ag_setB_setB]
          by_cases h3 : getUi v = E.i
          · simp [bumpL, cpsL, h3]
          · simp [bumpL, cpsL, h3]
        · simp only [h2, if_false]
          by_cases h3 : getUi v = E.i
          · simp [bumpL, cpsL, h3]
          · simp [bumpL, cpsL, h3]
      · simp only [h1, if_false]
        by_cases h4 : getUi v < E.n
        · simp only [h4, if_true]
          by_cases h2 : it + 1 ≤ E.n
          · simp only [h2, if_true]
            rw [ih _ _ (setB I j s1) (by simpa using hj), ag_bsOf_setB_self I j s1 hj, ag_setB_setB]
            simp [List.replicate_succ]
          · simp only [h2, if_false]
            simp [bumpL, cpsL]
        · simp [h4, bumpL, cpsL]

/-- the answers of one dealer (step 1(d)) on its stream: the number of times the dealer is put on
    the complaint list, the rest of the stream -/
def raT (E : Env) (tag : Tag) (Cj : List Int) : Nat → List (Tag × Int) → Except Err (Nat × List (Tag × Int))
  | 0, s => .ok (0, s)
  | f + 1, s =>
    match popS tag s with
    | (none, s1) => .ok (1, s1)
    | (some w, s1) =>
      if getUi w ≥ E.n then .ok (0, s1)
      else
        match popS tag s1 with
        | (none, s2) => .ok (1, s2)
        | (some foo0, s2) =>
          match popS tag s2 with
          | (none, s3) => .ok ((if absGe foo0 E.G.q then 1 else 0) + 1, s3)
          | (some bar0, s3) =>
            match pedF E.G (if absGe foo0 E.G.q then 0 else foo0) (if absGe bar0 E.G.q then 0 else bar0) with
            | .error e => .error e
            | .ok lhs =>
              match commitProd E.G.p (E.pt (getUi w)) Cj with
              | .error e => .error e
              | .ok rhs =>
                match raT E tag Cj f s3 with
                | .error e => .error e
                | .ok r =>
                  .ok ((if absGe foo0 E.G.q then 1 else 0) + (if absGe bar0 E.G.q then 1 else 0) +
                    (if lhs != rhs then 1 else 0) + r.1, r.2)

/-- the complainers whose complaint the dealer answered: the first entries of the triples
    `rvReadAnswers` reads (an entry counts as soon as it is read) -/
def anT (tag : Tag) (n : Nat) : Nat → List (Tag × Int) → List Nat → List Nat
  | 0, _, acc => acc
  | f + 1, s, acc =>
    match popS tag s with
    | (none, _) => acc
    | (some w, s1) =>
      if getUi w ≥ n then acc
      else
        match popS tag s1 with
        | (none, _) => acc ++ [getUi w]
        | (some _, s2) =>
          match popS tag s2 with
          | (none, _) => acc ++ [getUi w]
          | (some _, s3) => anT tag n f s3 (acc ++ [getUi w])

theorem xa_rvReadAnswers (E : Env) (tag : Tag) (C : List (List Int)) (j : Nat) (f : Nat) (I : Inbox)
    (hj : j < I.b.length) (s sp : List Int) (cm an : List Nat) :
    match raT E tag (getRow C j) f (bsOf I j) with
    | .ok (bad, rest) => ∃ s' sp', rvReadAnswers E tag C j f I s sp cm an =
        .ok (setB I j rest, s', sp', cm ++ List.replicate bad j, anT tag E.n f (bsOf I j) an)
    | .error e => rvReadAnswers E tag C j f I s sp cm an = .error e := by
  induction f generalizing I s sp cm an with
  | zero => simp [rvReadAnswers, raT, anT, ag_setB_self]
  | succ f ih =>
    unfold rvReadAnswers raT anT
    rw [ag_popB]
    rcases hp1 : popS tag (bsOf I j) with ⟨_ | w, s1⟩
    · exact ⟨s, sp, by simp⟩
    · simp only
      by_cases hw : getUi w ≥ E.n
      · simp only [hw, if_true]
        exact ⟨s, sp, by simp⟩
      · simp only [hw, if_false]
        rw [ag_popB, ag_bsOf_setB_self I j s1 hj, ag_setB_setB]
        rcases hp2 : popS tag s1 with ⟨_ | foo0, s2⟩
        · exact ⟨s, sp, by simp⟩
        · simp only
          rw [ag_popB, ag_bsOf_setB_self I j s2 hj, ag_setB_setB]
          rcases hp3 : popS tag s2 with ⟨_ | bar0, s3⟩
          · simp only
            cases absGe foo0 E.G.q
            · exact ⟨s, sp, by simp⟩
            · exact ⟨s, sp, by simp [List.replicate_succ]⟩
          · simp only
            have hj3 : j < (setB I j s3).b.length := by simpa using hj
            have hb3 : bsOf (setB I j s3) j = s3 := ag_bsOf_setB_self I j s3 hj
            have ihh := fun s sp cm an => ih (setB I j s3) hj3 s sp cm an
            rw [hb3] at ihh
            simp only [ag_ite_pair, ag_ite_cm]
            generalize (if absGe foo0 E.G.q = true then (0 : Int) else foo0) = foo
            generalize (if absGe bar0 E.G.q = true then (0 : Int) else bar0) = bar
            generalize (if absGe foo0 E.G.q = true then 1 else 0) = a1
            generalize (if absGe bar0 E.G.q = true then 1 else 0) = a2
            simp only [ag_setB_setB] at ihh
            cases hl : pedF E.G foo bar with
            | error e => simp [bind, Except.bind]
            | ok lhs =>
              cases hr : commitProd E.G.p (E.pt (getUi w)) (getRow C j) with
              | error e => simp [bind, Except.bind]
              | ok rhs =>
                simp only [bind, Except.bind]
                cases hrec : raT E tag (getRow C j) f s3 with
                | error e =>
                  simp only [hrec] at ihh
                  simp only
                  split <;> (try split) <;> exact ihh _ _ _ _
                | ok r =>
                  obtain ⟨bad, rest⟩ := r
                  simp only [hrec] at ihh
                  simp only
                  by_cases hne : (lhs != rhs) = true
                  · simp only [hne, if_true]
                    obtain ⟨s', sp', h⟩ := ihh s sp (cm ++ List.replicate a1 j ++ List.replicate a2 j ++ [j])
                      (an ++ [getUi w])
                    refine ⟨s', sp', ?_⟩
                    rw [h, ag_rep1]
                  · simp only [hne]
                    by_cases hwi : getUi w = E.i
                    · simp only [hwi, if_true]
                      obtain ⟨s', sp', h⟩ := ihh (s.set j foo) (sp.set j bar)
                        (cm ++ List.replicate a1 j ++ List.replicate a2 j) (an ++ [E.i])
                      refine ⟨s', sp', ?_⟩
                      rw [h, ag_rep0]
                      simp
                    · simp only [hwi, if_false]
                      obtain ⟨s', sp', h⟩ := ihh s sp (cm ++ List.replicate a1 j ++ List.replicate a2 j)
                        (an ++ [getUi w])
                      refine ⟨s', sp', ?_⟩
                      rw [h, ag_rep0]
                      simp

/-! ### (5) the loops over the senders -/

variable (E : Env) [Fact (Nat.Prime E.G.p.natAbs)]


/-- step 1(b), the commitments: lengths -/
theorem xa_rvReadC_glob (tag : Tag) (L : List Nat) (I : Inbox) (hI : ∀ j ∈ L, j < I.b.length)
    (C : List (List Int)) (cm : List Nat) :
    (rvReadC E tag L I C cm).1.b.length = I.b.length ∧ (rvReadC E tag L I C cm).1.p = I.p ∧
    (rvReadC E tag L I C cm).2.1.length = C.length := by
  induction L generalizing I C cm with
  | nil => simp [rvReadC]
  | cons j rest ih =>
    unfold rvReadC
    by_cases hji : j = E.i
    · simp only [hji, if_true]
      exact ih I (fun k hk => hI k (List.mem_cons_of_mem _ hk)) C cm
    · simp only [hji, if_false]
      rw [ag_readElems tag j (E.t + 1) I (hI j (by simp))]
      simp only
      have := ih (setB I j (reS E.G tag (E.t + 1) (bsOf I j) [] false).2.1)
        (fun k hk => by simpa using hI k (List.mem_cons_of_mem _ hk))
        (C.set j (padRow E.t (reS E.G tag (E.t + 1) (bsOf I j) [] false).2.2))
        (if (reS E.G tag (E.t + 1) (bsOf I j) [] false).1 = true then cm ++ [j] else cm)
      simpa using this

/-- step 1(b), the commitments: a sender that is not read -/
theorem xa_rvReadC_frame (tag : Tag) (k : Nat) (L : List Nat) (I : Inbox) (hI : ∀ j ∈ L, j < I.b.length)
    (C : List (List Int)) (cm : List Nat) (hk : k ∉ L ∨ k = E.i) :
    bsOf (rvReadC E tag L I C cm).1 k = bsOf I k ∧ getRow (rvReadC E tag L I C cm).2.1 k = getRow C k ∧
    (k ∈ (rvReadC E tag L I C cm).2.2 ↔ k ∈ cm) := by
  induction L generalizing I C cm with
  | nil => simp [rvReadC]
  | cons j rest ih =>
    unfold rvReadC
    have hk' : k ∉ rest ∨ k = E.i := by
      rcases hk with h | h
      · exact Or.inl (fun hh => h (List.mem_cons_of_mem _ hh))
      · exact Or.inr h
    by_cases hji : j = E.i
    · simp only [hji, if_true]
      exact ih I (fun k hk => hI k (List.mem_cons_of_mem _ hk)) C cm hk'
    · simp only [hji, if_false]
      rw [ag_readElems tag j (E.t + 1) I (hI j (by simp))]
      simp only
      have hkj : j ≠ k := by
        rintro rfl
        rcases hk with h | h
        · exact h (by simp)
        · exact hji h
      obtain ⟨h1, h2, h3⟩ := ih (setB I j (reS E.G tag (E.t + 1) (bsOf I j) [] false).2.1)
        (fun k hk => by simpa using hI k (List.mem_cons_of_mem _ hk))
        (C.set j (padRow E.t (reS E.G tag (E.t + 1) (bsOf I j) [] false).2.2))
        (if (reS E.G tag (E.t + 1) (bsOf I j) [] false).1 = true then cm ++ [j] else cm) hk'
      refine ⟨by rw [h1, ag_bsOf_setB_ne _ _ _ _ hkj], by rw [h2, ag_getRow_set]; simp [hkj], ?_⟩
      rw [h3]
      split
      · simp [List.mem_append, Ne.symm hkj]
      · rfl

/-- step 1(b), the commitments: a sender that is read -/
theorem xa_rvReadC_hit (tag : Tag) (k : Nat) (L : List Nat) (hL : L.Nodup) (I : Inbox)
    (hI : ∀ j ∈ L, j < I.b.length) (C : List (List Int)) (cm : List Nat) (hk : k ∈ L) (hki : k ≠ E.i) :
    bsOf (rvReadC E tag L I C cm).1 k = (reS E.G tag (E.t + 1) (bsOf I k) [] false).2.1 ∧
    (k < C.length → getRow (rvReadC E tag L I C cm).2.1 k =
      padRow E.t (reS E.G tag (E.t + 1) (bsOf I k) [] false).2.2) ∧
    (k ∈ (rvReadC E tag L I C cm).2.2 ↔ k ∈ cm ∨ (reS E.G tag (E.t + 1) (bsOf I k) [] false).1 = true) := by
  induction L generalizing I C cm with
  | nil => simp at hk
  | cons j rest ih =>
    have hnd := List.nodup_cons.mp hL
    unfold rvReadC
    by_cases hji : j = E.i
    · simp only [hji, if_true]
      have hk2 : k ∈ rest := by
        rcases List.mem_cons.mp hk with h | h
        · exact absurd (h.trans hji) hki
        · exact h
      exact ih hnd.2 I (fun k hk => hI k (List.mem_cons_of_mem _ hk)) C cm hk2
    · simp only [hji, if_false]
      rw [ag_readElems tag j (E.t + 1) I (hI j (by simp))]
      simp only
      have hI' : ∀ k ∈ rest, k < (setB I j (reS E.G tag (E.t + 1) (bsOf I j) [] false).2.1).b.length :=
        fun k hk => by simpa using hI k (List.mem_cons_of_mem _ hk)
      rcases List.mem_cons.mp hk with h | h
      · subst h
        obtain ⟨h1, h2, h3⟩ := xa_rvReadC_frame E tag k rest
          (setB I k (reS E.G tag (E.t + 1) (bsOf I k) [] false).2.1) hI'
          (C.set k (padRow E.t (reS E.G tag (E.t + 1) (bsOf I k) [] false).2.2))
          (if (reS E.G tag (E.t + 1) (bsOf I k) [] false).1 = true then cm ++ [k] else cm) (Or.inl hnd.1)
        refine ⟨by rw [h1, ag_bsOf_setB_self _ _ _ (hI k (by simp))], ?_, ?_⟩
        · intro hkC
          rw [h2, ag_getRow_set]
          simp [hkC]
        · rw [h3]
          split
          · rename_i hc
            simp [hc]
          · rename_i hc
            simp [hc]
      · have hkj : j ≠ k := by
          rintro rfl
          exact hnd.1 h
        obtain ⟨h1, h2, h3⟩ := ih hnd.2 (setB I j (reS E.G tag (E.t + 1) (bsOf I j) [] false).2.1) hI'
          (C.set j (padRow E.t (reS E.G tag (E.t + 1) (bsOf I j) [] false).2.2))
          (if (reS E.G tag (E.t + 1) (bsOf I j) [] false).1 = true then cm ++ [j] else cm) h
        rw [ag_bsOf_setB_ne _ _ _ _ hkj] at h1 h2 h3
        refine ⟨h1, ?_, ?_⟩
        · intro hkC
          exact h2 (by simpa using hkC)
        · rw [h3]
          split
          · simp [List.mem_append, Ne.symm hkj]
          · rfl

/-- a `GenSt` with the index of the environment: `rvReadShares` is `genReadShares` for it -/
def gstOf (E : Env) : GenSt := { n := E.n, t := E.t, i := E.i, sfb := false }

theorem xa_rvReadShares_eq (L : List Nat) (I : Inbox) (s sp : List Int) (cm : List Nat) :
    rvReadShares E L I s sp cm = genReadShares E.G.q (gstOf E) L I s sp cm := by
  induction L generalizing I s sp cm with
  | nil => rfl
  | cons j rest ih =>
    unfold rvReadShares genReadShares
    simp only [gstOf, ih]
    rfl

/-! arithmetic never fails on the values the readers feed to it -/

theorem xa_raT_total (hG : ValidGrp E.G) (tag : Tag) (Cj : List Int) (f : Nat) (s : List (Tag × Int)) :
    ∃ r, raT E tag Cj f s = .ok r := by
  induction f generalizing s with
  | zero => exact ⟨_, rfl⟩
  | succ f ih =>
    unfold raT
    rcases popS tag s with ⟨_ | w, s1⟩
    · exact ⟨_, rfl⟩
    · simp only
      split
      · exact ⟨_, rfl⟩
      · rcases popS tag s1 with ⟨_ | foo0, s2⟩
        · exact ⟨_, rfl⟩
        · simp only
          rcases popS tag s2 with ⟨_ | bar0, s3⟩
          · exact ⟨_, rfl⟩
          · simp only
            obtain ⟨l, hl⟩ := ag_pedF_total hG foo0 bar0
            obtain ⟨r, hr⟩ := ag_commitProd_total hG (E.pt (getUi w)) Cj
            obtain ⟨r3, hr3⟩ := ih s3
            rw [hl, hr, hr3]
            exact ⟨_, rfl⟩

/-- whether the answers of a dealer (stream `s`, commitments `Cj`) put it on the complaint list -/
def raBadT (E : Env) (tag : Tag) (Cj : List Int) (s : List (Tag × Int)) : Bool :=
  match raT E tag Cj (E.n + 1) s with
  | .ok r => decide (0 < r.1)
  | .error _ => true

/-- the shares stored in step 1(d) are in range -/
theorem xa_rvReadAnswers_InR (hq : 0 < E.G.q) (tag : Tag) (C : List (List Int)) (j : Nat) (f : Nat) (I : Inbox)
    (s sp : List Int) (cm an : List Nat) (r : Inbox × List Int × List Int × List Nat × List Nat)
    (h : rvReadAnswers E tag C j f I s sp cm an = .ok r) (hs : InR E.G.q s) : InR E.G.q r.2.1 := by
  induction f generalizing I s sp cm an with
  | zero =>
    simp only [rvReadAnswers] at h
    injection h with h
    rw [← h]; exact hs
  | succ f ih =>
    unfold rvReadAnswers at h
    rcases hp1 : I.popB tag j with ⟨_ | w, I1⟩
    · rw [hp1] at h
      injection h with h
      rw [← h]; exact hs
    · rw [hp1] at h
      simp only at h
      split at h
      · injection h with h
        rw [← h]; exact hs
      · rcases hp2 : I1.popB tag j with ⟨_ | foo0, I2⟩
        · rw [hp2] at h
          injection h with h
          rw [← h]; exact hs
        · rw [hp2] at h
          simp only at h
          rcases hp3 : I2.popB tag j with ⟨_ | bar0, I3⟩
          · rw [hp3] at h
            injection h with h
            rw [← h]; exact hs
          · rw [hp3] at h
            simp only [ag_ite_pair] at h
            obtain ⟨lhs, -, h⟩ := ag_bind_ok _ _ _ h
            obtain ⟨rhs, -, h⟩ := ag_bind_ok _ _ _ h
            split at h
            · exact ih _ _ _ _ _ h hs
            · split at h
              · exact ih _ _ _ _ _ h (ag_InR_set E.G.q s j _ hs (ag_absGe_range E.G.q hq foo0))
              · exact ih _ _ _ _ _ h hs

/-- whether dealer `k` (stream `s`) left a complainer without an answer -/
def unBT (E : Env) (tag : Tag) (rv : Rv) (k : Nat) (s : List (Tag × Int)) : Bool :=
  (rv.complainers.getD k []).any (fun c => !(anT tag E.n (E.n + 1) s []).contains c)

/-- step 1(d): the loop over the dealers -/
theorem xa_rvResolveGo (hG : ValidGrp E.G) (tag : Tag) (rv : Rv) (L : List Nat) (hL : L.Nodup) (I : Inbox)
    (hI : ∀ j ∈ L, j < I.b.length) (s sp : List Int) (cm : List Nat) :
    ∃ I' s' sp' cm', rvResolveGo E tag rv L I s sp cm = .ok (I', s', sp', cm') ∧
      (InR E.G.q s → InR E.G.q s') ∧
      ∀ k, k ∈ cm' ↔ k ∈ cm ∨ (k ∈ L ∧ (E.t < getN rv.cnt k ∨
        (k ≠ E.i ∧ (raBadT E tag (getRow rv.C k) (bsOf I k) = true ∨ unBT E tag rv k (bsOf I k) = true)))) := by
  induction L generalizing I s sp cm with
  | nil => exact ⟨I, s, sp, cm, rfl, id, by simp⟩
  | cons j rest ih =>
    have hnd := List.nodup_cons.mp hL
    have hIr : ∀ k ∈ rest, k < I.b.length := fun k hk => hI k (List.mem_cons_of_mem _ hk)
    unfold rvResolveGo
    by_cases hji : j = E.i
    · subst hji
      simp only [if_true]
      obtain ⟨I', s', sp', cm', h, hin, hm⟩ := ih hnd.2 I hIr s sp
        (if getN rv.cnt E.i > E.t then cm ++ [E.i] else cm)
      refine ⟨I', s', sp', cm', h, hin, ?_⟩
      intro k
      rw [hm k]
      by_cases hkj : k = E.i
      · have : k ∉ rest := by rw [hkj]; exact hnd.1
        subst hkj
        by_cases hc : getN rv.cnt E.i > E.t
        · simp [hc]
        · have hc' : ¬ E.t < getN rv.cnt E.i := hc
          simp [hc', this]
      · by_cases hc : getN rv.cnt E.i > E.t
        · simp [hc, hkj]
        · simp [hc, hkj]
    · simp only [hji, if_false]
      obtain ⟨⟨bad, rst⟩, hr⟩ := xa_raT_total E hG tag (getRow rv.C j) (E.n + 1) (bsOf I j)
      have hra := xa_rvReadAnswers E tag rv.C j (E.n + 1) I (hI j (by simp)) s sp
        (if getN rv.cnt j > E.t then cm ++ [j] else cm) []
      rw [hr] at hra
      obtain ⟨s1, sp1, hra⟩ := hra
      obtain ⟨I', s', sp', cm', h, hin, hm⟩ := ih hnd.2 (setB I j rst)
        (fun k hk => by simpa using hIr k hk) s1 sp1
        ((if getN rv.cnt j > E.t then cm ++ [j] else cm) ++ List.replicate bad j ++
          ((rv.complainers.getD j []).filter (fun c => !(anT tag E.n (E.n + 1) (bsOf I j) []).contains c)).map
            (fun _ => j))
      have hin1 : InR E.G.q s → InR E.G.q s1 := fun hs =>
        xa_rvReadAnswers_InR E hG.vg.q_pos tag rv.C j (E.n + 1) I s sp _ [] _ hra hs
      refine ⟨I', s', sp', cm', ?_, fun hs => hin (hin1 hs), ?_⟩
      · simp only [hra, bind, Except.bind]
        exact h
      · intro k
        rw [hm k]
        by_cases hkj : k = j
        · subst hkj
          have : k ∉ rest := hnd.1
          by_cases hc : getN rv.cnt k > E.t
          · simp [hc]
          · have hc' : ¬ E.t < getN rv.cnt k := hc
            simp [this, hc, hji, raBadT, unBT, hr, List.mem_replicate, Nat.pos_iff_ne_zero]
            tauto
        · have hb : bsOf (setB I j rst) k = bsOf I k := ag_bsOf_setB_ne _ _ _ _ (Ne.symm hkj)
          by_cases hc : getN rv.cnt j > E.t
          · simp [hkj, hb, hc, List.mem_replicate]
          · simp [hkj, hb, hc, List.mem_replicate]

/-- the test of equation (1) for dealer `k` (no sharing of zero) -/
def chkT (E : Env) (C : List (List Int)) (s sp : List Int) (k : Nat) : Bool :=
  match pedS E.G (getI s k) (getI sp k), commitProd E.G.p (E.pt E.i) (getRow C k) with
  | .ok lhs, .ok rhs => lhs.2 != rhs
  | _, _ => true

/-- step 1(b), equation (1): the loop over the dealers -/
theorem xa_rvCheck (hG : ValidGrp E.G) (C : List (List Int)) (s sp : List Int)
    (hs : InR E.G.q s) (hsp : InR E.G.q sp) (L : List Nat) (cm : List Nat) :
    ∃ cm', rvCheck E false C s sp L cm = .ok cm' ∧
      ∀ k, k ∈ cm' ↔ k ∈ cm ∨ (k ∈ L ∧ chkT E C s sp k = true) := by
  induction L generalizing cm with
  | nil => exact ⟨cm, rfl, by simp⟩
  | cons j rest ih =>
    obtain ⟨a, l, hped, -⟩ := pedS_val hG (getI s j) (getI sp j)
      (ag_getI_InR E.G.q hG.vg.q_pos s hs j) (ag_getI_InR E.G.q hG.vg.q_pos sp hsp j)
    obtain ⟨r, hr⟩ := ag_commitProd_total hG (E.pt E.i) (getRow C j)
    obtain ⟨cm', h, hm⟩ := ih (if (l != r) = true then cm ++ [j] else cm)
    refine ⟨cm', ?_, ?_⟩
    · unfold rvCheck
      simp only [hped, hr, bind, Except.bind, Bool.false_and, Bool.false_eq_true, if_false]
      exact h
    · intro k
      rw [hm k]
      by_cases hkj : k = j
      · subst hkj
        by_cases hlr : (l != r) = true
        · simp [chkT, hped, hr, hlr]
        · simp [chkT, hped, hr, hlr]
      · split <;> simp [hkj]

/-! the complaint counters -/

def rcNewsT (tag : Tag) (n : Nat) (s : List (Tag × Int)) : List Nat := (rcT tag n (n + 1) 0 [] s).1
def rcBadT (tag : Tag) (n : Nat) (s : List (Tag × Int)) : Bool := decide (0 < (rcT tag n (n + 1) 0 [] s).2.1)
def rcRestT (tag : Tag) (n : Nat) (s : List (Tag × Int)) : List (Tag × Int) := (rcT tag n (n + 1) 0 [] s).2.2

theorem xa_rvCollectGo_cons (tag : Tag) (j : Nat) (rest : List Nat) (I : Inbox) (hj : j < I.b.length)
    (hji : j ≠ E.i) (cnt cf cm : List Nat) (cps : List (List Nat)) :
    rvCollectGo E tag (j :: rest) I cnt cf cm cps =
      rvCollectGo E tag rest (setB I j (rcRestT tag E.n (bsOf I j))) (bumpL cnt (rcNewsT tag E.n (bsOf I j)))
        (cf ++ ((rcNewsT tag E.n (bsOf I j)).filter (fun w => w = E.i)).map (fun _ => j))
        (cm ++ List.replicate (rcT tag E.n (E.n + 1) 0 [] (bsOf I j)).2.1 j)
        (cpsL j (rcNewsT tag E.n (bsOf I j)) cps) := by
  rw [rvCollectGo]
  simp only [hji, if_false]
  rw [xa_rvReadComplaints E tag j (E.n + 1) 0 [] I hj]
  rfl

theorem xa_cpsL_length (j : Nat) (ws : List Nat) (cps : List (List Nat)) : (cpsL j ws cps).length = cps.length := by
  induction ws generalizing cps with
  | nil => rfl
  | cons w ws ih =>
    simp only [cpsL, List.foldl_cons] at ih ⊢
    rw [ih]
    simp

/-- step 1(c): lengths -/
theorem xa_rvCollectGo_glob (tag : Tag) (L : List Nat) (I : Inbox) (hI : ∀ j ∈ L, j < I.b.length)
    (cnt cf cm : List Nat) (cps : List (List Nat)) :
    (rvCollectGo E tag L I cnt cf cm cps).1.b.length = I.b.length ∧ (rvCollectGo E tag L I cnt cf cm cps).1.p = I.p ∧
    (rvCollectGo E tag L I cnt cf cm cps).2.1.length = cnt.length ∧
    (rvCollectGo E tag L I cnt cf cm cps).2.2.2.2.length = cps.length := by
  induction L generalizing I cnt cf cm cps with
  | nil => simp [rvCollectGo]
  | cons j rest ih =>
    by_cases hji : j = E.i
    · rw [rvCollectGo]
      simp only [hji, if_true]
      exact ih I (fun k hk => hI k (List.mem_cons_of_mem _ hk)) cnt cf cm cps
    · rw [xa_rvCollectGo_cons E tag j rest I (hI j (by simp)) hji]
      obtain ⟨h1, h2, h3, h4⟩ := ih (setB I j (rcRestT tag E.n (bsOf I j)))
        (fun k hk => by simpa using hI k (List.mem_cons_of_mem _ hk))
        (bumpL cnt (rcNewsT tag E.n (bsOf I j)))
        (cf ++ ((rcNewsT tag E.n (bsOf I j)).filter (fun w => w = E.i)).map (fun _ => j))
        (cm ++ List.replicate (rcT tag E.n (E.n + 1) 0 [] (bsOf I j)).2.1 j)
        (cpsL j (rcNewsT tag E.n (bsOf I j)) cps)
      exact ⟨by rw [h1]; simp, by rw [h2]; rfl, by rw [h3, ag_bumpL_length], by rw [h4, xa_cpsL_length]⟩

/-- step 1(c): a sender that is not read -/
theorem xa_rvCollectGo_frame (tag : Tag) (k : Nat) (L : List Nat) (I : Inbox) (hI : ∀ j ∈ L, j < I.b.length)
    (cnt cf cm : List Nat) (cps : List (List Nat)) (hk : k ∉ L ∨ k = E.i) :
    bsOf (rvCollectGo E tag L I cnt cf cm cps).1 k = bsOf I k ∧
    (k ∈ (rvCollectGo E tag L I cnt cf cm cps).2.2.2.1 ↔ k ∈ cm) := by
  induction L generalizing I cnt cf cm cps with
  | nil => simp [rvCollectGo]
  | cons j rest ih =>
    have hk' : k ∉ rest ∨ k = E.i := by
      rcases hk with h | h
      · exact Or.inl (fun hh => h (List.mem_cons_of_mem _ hh))
      · exact Or.inr h
    by_cases hji : j = E.i
    · rw [rvCollectGo]
      simp only [hji, if_true]
      exact ih I (fun k hk => hI k (List.mem_cons_of_mem _ hk)) cnt cf cm cps hk'
    · rw [xa_rvCollectGo_cons E tag j rest I (hI j (by simp)) hji]
      have hkj : j ≠ k := by
        rintro rfl
        rcases hk with h | h
        · exact h (by simp)
        · exact hji h
      obtain ⟨h1, h2⟩ := ih (setB I j (rcRestT tag E.n (bsOf I j)))
        (fun k hk => by simpa using hI k (List.mem_cons_of_mem _ hk))
        (bumpL cnt (rcNewsT tag E.n (bsOf I j)))
        (cf ++ ((rcNewsT tag E.n (bsOf I j)).filter (fun w => w = E.i)).map (fun _ => j))
        (cm ++ List.replicate (rcT tag E.n (E.n + 1) 0 [] (bsOf I j)).2.1 j)
        (cpsL j (rcNewsT tag E.n (bsOf I j)) cps) hk'
      refine ⟨by rw [h1, ag_bsOf_setB_ne _ _ _ _ hkj], ?_⟩
      rw [h2]
      simp [List.mem_append, List.mem_replicate, Ne.symm hkj]

/-- step 1(c): a sender that is read -/
theorem xa_rvCollectGo_hit (tag : Tag) (k : Nat) (L : List Nat) (hL : L.Nodup) (I : Inbox)
    (hI : ∀ j ∈ L, j < I.b.length) (cnt cf cm : List Nat) (cps : List (List Nat)) (hk : k ∈ L) (hki : k ≠ E.i) :
    bsOf (rvCollectGo E tag L I cnt cf cm cps).1 k = rcRestT tag E.n (bsOf I k) ∧
    (k ∈ (rvCollectGo E tag L I cnt cf cm cps).2.2.2.1 ↔ k ∈ cm ∨ rcBadT tag E.n (bsOf I k) = true) := by
  induction L generalizing I cnt cf cm cps with
  | nil => simp at hk
  | cons j rest ih =>
    have hnd := List.nodup_cons.mp hL
    by_cases hji : j = E.i
    · rw [rvCollectGo]
      simp only [hji, if_true]
      have hk2 : k ∈ rest := by
        rcases List.mem_cons.mp hk with h | h
        · exact absurd (h.trans hji) hki
        · exact h
      exact ih hnd.2 I (fun k hk => hI k (List.mem_cons_of_mem _ hk)) cnt cf cm cps hk2
    · rw [xa_rvCollectGo_cons E tag j rest I (hI j (by simp)) hji]
      have hI' : ∀ k ∈ rest, k < (setB I j (rcRestT tag E.n (bsOf I j))).b.length :=
        fun k hk => by simpa using hI k (List.mem_cons_of_mem _ hk)
      rcases List.mem_cons.mp hk with h | h
      · subst h
        obtain ⟨h1, h2⟩ := xa_rvCollectGo_frame E tag k rest _ hI'
          (bumpL cnt (rcNewsT tag E.n (bsOf I k)))
          (cf ++ ((rcNewsT tag E.n (bsOf I k)).filter (fun w => w = E.i)).map (fun _ => k))
          (cm ++ List.replicate (rcT tag E.n (E.n + 1) 0 [] (bsOf I k)).2.1 k)
          (cpsL k (rcNewsT tag E.n (bsOf I k)) cps) (Or.inl hnd.1)
        refine ⟨by rw [h1, ag_bsOf_setB_self _ _ _ (hI k (by simp))], ?_⟩
        rw [h2]
        simp [List.mem_append, List.mem_replicate, rcBadT, Nat.pos_iff_ne_zero]
      · have hkj : j ≠ k := by
          rintro rfl
          exact hnd.1 h
        obtain ⟨h1, h2⟩ := ih hnd.2 (setB I j (rcRestT tag E.n (bsOf I j))) hI'
          (bumpL cnt (rcNewsT tag E.n (bsOf I j)))
          (cf ++ ((rcNewsT tag E.n (bsOf I j)).filter (fun w => w = E.i)).map (fun _ => j))
          (cm ++ List.replicate (rcT tag E.n (E.n + 1) 0 [] (bsOf I j)).2.1 j)
          (cpsL j (rcNewsT tag E.n (bsOf I j)) cps) h
        rw [ag_bsOf_setB_ne _ _ _ _ hkj] at h1 h2
        refine ⟨h1, ?_⟩
        rw [h2]
        simp [List.mem_append, List.mem_replicate, Ne.symm hkj]

/-- step 1(c): the counters after the loop -/
theorem xa_rvCollectGo_cnt (tag : Tag) (L : List Nat) (hL : L.Nodup) (I : Inbox)
    (hI : ∀ j ∈ L, j < I.b.length) (cnt cf cm : List Nat) (cps : List (List Nat)) (w : Nat) (hw : w < cnt.length) :
    getN (rvCollectGo E tag L I cnt cf cm cps).2.1 w =
      getN cnt w + ((L.filter (fun x => x ≠ E.i)).map (fun x => (rcNewsT tag E.n (bsOf I x)).count w)).sum := by
  induction L generalizing I cnt cf cm cps with
  | nil => simp [rvCollectGo]
  | cons j rest ih =>
    have hnd := List.nodup_cons.mp hL
    by_cases hji : j = E.i
    · rw [rvCollectGo]
      simp only [hji, if_true]
      rw [ih hnd.2 I (fun k hk => hI k (List.mem_cons_of_mem _ hk)) cnt cf cm cps hw]
      simp
    · rw [xa_rvCollectGo_cons E tag j rest I (hI j (by simp)) hji]
      rw [ih hnd.2 (setB I j (rcRestT tag E.n (bsOf I j)))
        (fun k hk => by simpa using hI k (List.mem_cons_of_mem _ hk)) _ _ _ _ (by rw [ag_bumpL_length]; exact hw)]
      rw [ag_bumpL_getN _ _ _ hw]
      have hcongr : ((rest.filter (fun x => x ≠ E.i)).map
            (fun x => (rcNewsT tag E.n (bsOf (setB I j (rcRestT tag E.n (bsOf I j))) x)).count w)) =
          ((rest.filter (fun x => x ≠ E.i)).map (fun x => (rcNewsT tag E.n (bsOf I x)).count w)) := by
        apply List.map_congr_left
        intro x hx
        have hxr : x ∈ rest := (List.mem_filter.mp hx).1
        have hjx : j ≠ x := by
          rintro rfl
          exact hnd.1 hxr
        rw [ag_bsOf_setB_ne _ _ _ _ hjx]
      rw [hcongr]
      simp [hji]
      omega

/-- step 1(c): who complained against `k` -/
theorem xa_rvCollectGo_cps (tag : Tag) (L : List Nat) (hL : L.Nodup) (I : Inbox)
    (hI : ∀ j ∈ L, j < I.b.length) (cnt cf cm : List Nat) (cps : List (List Nat)) (k x : Nat)
    (hk : k < cps.length) :
    x ∈ (rvCollectGo E tag L I cnt cf cm cps).2.2.2.2.getD k [] ↔
      x ∈ cps.getD k [] ∨ (x ∈ L ∧ x ≠ E.i ∧ k ∈ rcNewsT tag E.n (bsOf I x)) := by
  induction L generalizing I cnt cf cm cps with
  | nil => simp [rvCollectGo]
  | cons j rest ih =>
    have hnd := List.nodup_cons.mp hL
    by_cases hji : j = E.i
    · rw [rvCollectGo]
      simp only [hji, if_true]
      rw [ih hnd.2 I (fun k hk => hI k (List.mem_cons_of_mem _ hk)) cnt cf cm cps hk]
      constructor
      · rintro (h | ⟨h3, h4, h5⟩)
        · exact Or.inl h
        · exact Or.inr ⟨List.mem_cons_of_mem _ h3, h4, h5⟩
      · rintro (h | ⟨h3, h4, h5⟩)
        · exact Or.inl h
        · rcases List.mem_cons.mp h3 with e | e
          · exact absurd e h4
          · exact Or.inr ⟨e, h4, h5⟩
    · rw [xa_rvCollectGo_cons E tag j rest I (hI j (by simp)) hji]
      obtain ⟨f1, f2⟩ := ag_cpsFold_mem j (rcNewsT tag E.n (bsOf I j)) cps k x hk
      rw [ih hnd.2 (setB I j (rcRestT tag E.n (bsOf I j)))
        (fun k hk => by simpa using hI k (List.mem_cons_of_mem _ hk)) _ _ _ _
        (by rw [xa_cpsL_length]; exact hk)]
      have hfr : ∀ y, y ∈ rest → bsOf (setB I j (rcRestT tag E.n (bsOf I j))) y = bsOf I y := by
        intro y hy
        have hjy : j ≠ y := by
          rintro rfl
          exact hnd.1 hy
        exact ag_bsOf_setB_ne _ _ _ _ hjy
      have f2' : x ∈ (cpsL j (rcNewsT tag E.n (bsOf I j)) cps).getD k [] ↔
          x ∈ cps.getD k [] ∨ (x = j ∧ k ∈ rcNewsT tag E.n (bsOf I j)) := f2
      rw [f2']
      constructor
      · rintro ((h | ⟨rfl, h⟩) | ⟨h3, h4, h5⟩)
        · exact Or.inl h
        · exact Or.inr ⟨by simp, hji, h⟩
        · rw [hfr x h3] at h5
          exact Or.inr ⟨List.mem_cons_of_mem _ h3, h4, h5⟩
      · rintro (h | ⟨h3, h4, h5⟩)
        · exact Or.inl (Or.inl h)
        · rcases List.mem_cons.mp h3 with e | e
          · subst e
            exact Or.inl (Or.inr ⟨rfl, h5⟩)
          · rw [← hfr x e] at h5
            exact Or.inr ⟨e, h4, h5⟩

/-- step 1(c): the senders that complained against the reader -/
theorem xa_rvCollectGo_cf (tag : Tag) (L : List Nat) (hL : L.Nodup) (I : Inbox)
    (hI : ∀ j ∈ L, j < I.b.length) (cnt cf cm : List Nat) (cps : List (List Nat)) (x : Nat) :
    x ∈ (rvCollectGo E tag L I cnt cf cm cps).2.2.1 ↔
      x ∈ cf ∨ (x ∈ L ∧ x ≠ E.i ∧ E.i ∈ rcNewsT tag E.n (bsOf I x)) := by
  induction L generalizing I cnt cf cm cps with
  | nil => simp [rvCollectGo]
  | cons j rest ih =>
    have hnd := List.nodup_cons.mp hL
    by_cases hji : j = E.i
    · rw [rvCollectGo]
      simp only [hji, if_true]
      rw [ih hnd.2 I (fun k hk => hI k (List.mem_cons_of_mem _ hk)) cnt cf cm cps]
      constructor
      · rintro (h | ⟨h3, h4, h5⟩)
        · exact Or.inl h
        · exact Or.inr ⟨List.mem_cons_of_mem _ h3, h4, h5⟩
      · rintro (h | ⟨h3, h4, h5⟩)
        · exact Or.inl h
        · rcases List.mem_cons.mp h3 with e | e
          · exact absurd e h4
          · exact Or.inr ⟨e, h4, h5⟩
    · rw [xa_rvCollectGo_cons E tag j rest I (hI j (by simp)) hji]
      rw [ih hnd.2 (setB I j (rcRestT tag E.n (bsOf I j)))
        (fun k hk => by simpa using hI k (List.mem_cons_of_mem _ hk))]
      have hfr : ∀ y, y ∈ rest → bsOf (setB I j (rcRestT tag E.n (bsOf I j))) y = bsOf I y := by
        intro y hy
        have hjy : j ≠ y := by
          rintro rfl
          exact hnd.1 hy
        exact ag_bsOf_setB_ne _ _ _ _ hjy
      simp only [List.mem_append, List.mem_map, List.mem_filter, decide_eq_true_eq]
      constructor
      · rintro ((h | ⟨a, ⟨h1, h2⟩, rfl⟩) | ⟨h3, h4, h5⟩)
        · exact Or.inl h
        · exact Or.inr ⟨by simp, hji, by rw [← h2]; exact h1⟩
        · rw [hfr x h3] at h5
          exact Or.inr ⟨List.mem_cons_of_mem _ h3, h4, h5⟩
      · rintro (h | ⟨h3, h4, h5⟩)
        · exact Or.inl (Or.inl h)
        · rcases List.mem_cons.mp h3 with e | e
          · subst e
            exact Or.inl (Or.inr ⟨E.i, ⟨h5, rfl⟩, rfl⟩)
          · rw [← hfr x e] at h5
            exact Or.inr ⟨e, h4, h5⟩

/-! ### (6) the readers on the streams of a party that follows the protocol -/

theorem xa_reS_honest (tag : Tag) (C : List Int) (hC : ∀ c ∈ C, Dkg.checkElement E.G c = true)
    (rest : List (Tag × Int)) (acc : List Int) (c : Bool) :
    reS E.G tag C.length (C.map (fun v => (tag, v)) ++ rest) acc c = (c, rest, acc ++ C) := by
  induction C generalizing acc with
  | nil => simp [reS]
  | cons v C ih =>
    simp only [List.length_cons, List.map_cons, List.cons_append, reS, xa_popS_cons,
      hC v (by simp), if_true]
    rw [ih (fun c hc => hC c (List.mem_cons_of_mem _ hc))]
    simp

theorem xa_rcT_honest (tag : Tag) (n : Nat) (hn : n < 2 ^ 64) (D : List Nat) (f it : Nat) (dup : List Nat)
    (hf : D.length + 1 ≤ f) (hit : it + D.length ≤ n) (hD : ∀ x ∈ D, x < n) (hnd : D.Nodup)
    (hdup : ∀ x ∈ D, x ∉ dup) :
    rcT tag n f it dup (D.map (fun (j : Nat) => (tag, (j : Int))) ++ [(tag, (n : Int))]) = (D, 0, []) := by
  induction D generalizing f it dup with
  | nil =>
    obtain ⟨f, rfl⟩ : ∃ f', f = f' + 1 := ⟨f - 1, by simp at hf; omega⟩
    simp [rcT, xa_popS_cons, ag_getUi_nat n hn]
  | cons x D ih =>
    obtain ⟨f, rfl⟩ : ∃ f', f = f' + 1 := ⟨f - 1, by simp at hf; omega⟩
    have hx : x < n := hD x (by simp)
    have hxd : x ∉ dup := hdup x (by simp)
    have hnd' := List.nodup_cons.mp hnd
    simp only [List.length_cons] at hf hit
    have hrec := ih f (it + 1) (dup ++ [x]) (by omega) (by omega)
      (fun y hy => hD y (List.mem_cons_of_mem _ hy)) hnd'.2
      (fun y hy => by
        simp only [List.mem_append, List.mem_singleton, not_or]
        exact ⟨hdup y (List.mem_cons_of_mem _ hy), fun e => hnd'.1 (e ▸ hy)⟩)
    simp only [List.map_cons, List.cons_append, rcT, xa_popS_cons, ag_getUi_nat x (by omega)]
    have h1 : (x < n ∧ ¬ dup.contains x = true) := ⟨hx, by simpa using hxd⟩
    have h2 : it + 1 ≤ n := by omega
    simp only [h1, if_true, h2, hrec]
    simp

/-- a well-formed answer list: one verifying triple per entry, then the end marker -/
theorem xa_raT_honest (tag : Tag) (hn : E.n < 2 ^ 64) (Cj : List Int) (σ τ : Nat → Int) (cfs : List Nat) (f : Nat)
    (hf : cfs.length + 1 ≤ f)
    (hcfs : ∀ it ∈ cfs, it < E.n ∧ absGe (σ it) E.G.q = false ∧ absGe (τ it) E.G.q = false ∧
      ∃ l, pedF E.G (σ it) (τ it) = .ok l ∧ commitProd E.G.p (E.pt it) Cj = .ok l) :
    raT E tag Cj f (cfs.flatMap (fun (it : Nat) => [(tag, (it : Int)), (tag, σ it), (tag, τ it)]) ++
      [(tag, (E.n : Int))]) = .ok (0, []) := by
  induction cfs generalizing f with
  | nil =>
    obtain ⟨f, rfl⟩ : ∃ f', f = f' + 1 := ⟨f - 1, by simp at hf; omega⟩
    simp [raT, xa_popS_cons, ag_getUi_nat E.n hn]
  | cons x cfs ih =>
    obtain ⟨f, rfl⟩ : ∃ f', f = f' + 1 := ⟨f - 1, by simp at hf; omega⟩
    obtain ⟨hx, h1, h2, l, hl, hr⟩ := hcfs x (by simp)
    simp only [List.length_cons] at hf
    have hrec := ih f (by omega) (fun y hy => hcfs y (List.mem_cons_of_mem _ hy))
    have hnx : ¬ x ≥ E.n := by omega
    simp only [List.flatMap_cons, List.cons_append, List.nil_append, raT, xa_popS_cons,
      ag_getUi_nat x (by omega), hnx, if_false, h1, h2, Bool.false_eq_true, hl, hr, hrec]
    simp

/-- the answered complainers of a well-formed answer list -/
theorem xa_anT_honest (tag : Tag) (n : Nat) (hn : n < 2 ^ 64) (σ τ : Nat → Int) (cfs : List Nat) (f : Nat)
    (hf : cfs.length + 1 ≤ f) (hcfs : ∀ it ∈ cfs, it < n) (acc : List Nat) :
    anT tag n f (cfs.flatMap (fun (it : Nat) => [(tag, (it : Int)), (tag, σ it), (tag, τ it)]) ++
      [(tag, (n : Int))]) acc = acc ++ cfs := by
  induction cfs generalizing f acc with
  | nil =>
    obtain ⟨f, rfl⟩ : ∃ f', f = f' + 1 := ⟨f - 1, by simp at hf; omega⟩
    simp [anT, xa_popS_cons, ag_getUi_nat n hn]
  | cons x cfs ih =>
    obtain ⟨f, rfl⟩ : ∃ f', f = f' + 1 := ⟨f - 1, by simp at hf; omega⟩
    have hx : x < n := hcfs x (by simp)
    simp only [List.length_cons] at hf
    have hnx : ¬ x ≥ n := by omega
    simp only [List.flatMap_cons, List.cons_append, List.nil_append, anT, xa_popS_cons,
      ag_getUi_nat x (by omega), hnx, if_false]
    rw [ih f (by omega) (fun y hy => hcfs y (List.mem_cons_of_mem _ hy))]
    simp

theorem xa_rcT_nodup (tag : Tag) (n : Nat) (f it : Nat) (dup : List Nat) (s : List (Tag × Int)) :
    (rcT tag n f it dup s).1.Nodup ∧ ∀ x ∈ (rcT tag n f it dup s).1, x ∉ dup := by
  induction f generalizing it dup s with
  | zero => simp [rcT]
  | succ f ih =>
    unfold rcT
    rcases popS tag s with ⟨_ | v, s1⟩
    · simp
    · simp only
      split
      · rename_i h1
        split
        · obtain ⟨i1, i2⟩ := ih (it + 1) (dup ++ [getUi v]) s1
          simp only [List.nodup_cons, List.mem_cons]
          refine ⟨⟨fun hm => ?_, i1⟩, ?_⟩
          · have := i2 _ hm
            simp at this
          · rintro x (rfl | hx)
            · simpa using h1.2
            · have := i2 x hx
              simp only [List.mem_append, not_or] at this
              exact this.1
        · simp only [List.nodup_cons, List.not_mem_nil, not_false_eq_true, List.nodup_nil, and_self,
            List.mem_singleton, true_and]
          rintro x rfl
          simpa using h1.2
      · split
        · split
          · exact ih (it + 1) dup s1
          · simp
        · simp

theorem xa_rcNewsT_count_le (tag : Tag) (n : Nat) (s : List (Tag × Int)) (w : Nat) : (rcNewsT tag n s).count w ≤ 1 :=
  List.nodup_iff_count_le_one.mp (xa_rcT_nodup tag n (n + 1) 0 [] s).1 w

/-! ### (7) the step functions of a party that follows the protocol -/

/-- the sharing after step 1(a), as far as the later steps look at it (`n t i` are those of the
    environment, the evaluation points are `j + 1`) -/
structure DealtC (G : Grp) (n t i : Nat) (pin : PartyIn) (rv : Rv) : Prop where
  zero : rv.zero = false
  C : rv.C = (zeroRows n t).set i (comOf G t pin)
  s : rv.s = (zeros n).set i (shA G t pin i)
  sp : rv.sp = (zeros n).set i (shB G t pin i)
  srow : rv.srow = (List.range n).map (shA G t pin)
  sprow : rv.sprow = (List.range n).map (shB G t pin)
  z : rv.z.natAbs < G.q.natAbs
  zp : rv.zp.natAbs < G.q.natAbs

theorem xa_coefA_eq (t : Nat) (pin : PartyIn) : Cgjkr.coefA pin.strong 0 t = DkgP.coefA t pin := by
  simp [Cgjkr.coefA, DkgP.coefA]

theorem xa_coefB_eq (t : Nat) (pin : PartyIn) : Cgjkr.coefB pin.strong 0 t = DkgP.coefB t pin := by
  simp [Cgjkr.coefB, DkgP.coefB]

theorem xa_getI_mem_or (l : List Int) (k : Nat) : getI l k ∈ l ∨ getI l k = 0 := by
  unfold getI
  by_cases hk : k < l.length
  · rw [List.getD_eq_getElem _ _ hk]
    exact Or.inl (List.getElem_mem hk)
  · rw [List.getD_eq_default _ _ (by omega)]
    exact Or.inr rfl

theorem xa_rvDeal_honest (hG : ValidGrp E.G) (hpt : ∀ j, j < E.n → E.pt j = j + 1) (tag : Tag) (rnd : Bool)
    (pin : PartyIn) (hc : goodCoins E.G E.t pin) (hi : E.i < E.n) :
    ∃ rv, rvDeal E tag false false rnd (Cgjkr.coefA pin.strong 0 E.t) (Cgjkr.coefB pin.strong 0 E.t) =
        .ok (rv, (comOf E.G E.t pin).map (Op.bc tag) ++ ((List.range E.n).filter (· ≠ E.i)).flatMap
          (fun j => [Op.pv j (getI rv.srow j), Op.pv j (getI rv.sprow j)])) ∧
      DealtC E.G E.n E.t E.i pin rv := by
  obtain ⟨ha, hb, hla, hlb⟩ := ag_coef_range (G := E.G) E.t pin hc
  obtain ⟨ga, hb', h1, h2, h3⟩ := ag_ga_hb_commit hG (DkgP.coefA E.t pin) (DkgP.coefB E.t pin) (hla.trans hlb.symm) ha hb
  have hcom := (ag_comOf_spec hG E.t pin hc).1
  rw [h3] at hcom
  injection hcom with hcom
  rw [xa_coefA_eq, xa_coefB_eq]
  unfold rvDeal
  simp only [h1, h2, bind, Except.bind, pure, Except.pure, hcom]
  refine ⟨_, rfl, ?_⟩
  have hsA : (List.range E.n).map (fun j => evalShare E.G.q (DkgP.coefA E.t pin) (E.pt j)) =
      (List.range E.n).map (shA E.G E.t pin) := by
    apply List.map_congr_left
    intro j hj
    rw [hpt j (List.mem_range.mp hj)]
    rfl
  have hsB : (List.range E.n).map (fun j => evalShare E.G.q (DkgP.coefB E.t pin) (E.pt j)) =
      (List.range E.n).map (shB E.G E.t pin) := by
    apply List.map_congr_left
    intro j hj
    rw [hpt j (List.mem_range.mp hj)]
    rfl
  have hz : ∀ l : List Int, (∀ c ∈ l, 0 ≤ c ∧ c < E.G.q) → (getI l 0).natAbs < E.G.q.natAbs := by
    intro l hl
    rcases xa_getI_mem_or l 0 with h | h
    · exact natAbs_lt_of_range (hl _ h)
    · rw [h]
      have hq0 : 0 < E.G.q := hG.vg.q_pos
      omega
  constructor
  · rfl
  · rfl
  · simp [hsA, ag_getI_map_range _ _ E.i hi]
  · simp [hsB, ag_getI_map_range _ _ E.i hi]
  · simp [hsA]
  · simp [hsB]
  · exact hz _ ha
  · exact hz _ hb

/-- step 1(b) for a party whose stored shares are in range -/
theorem xa_rvVerify_spec (hG : ValidGrp E.G) (tag : Tag) (rv : Rv) (I : Inbox) (hz : rv.zero = false)
    (hb : I.b.length = E.n) (hp : I.p.length = E.n) (hC : rv.C.length = E.n) (hs : rv.s.length = E.n)
    (hsp : rv.sp.length = E.n) (hsr : InR E.G.q rv.s) (hspr : InR E.G.q rv.sp) :
    ∃ (rv' : Rv) (I' : Inbox) (D : List Nat), rvVerify E tag rv I =
        .ok (rv', I', D.map (fun (j : Nat) => Op.bc tag (j : Int)) ++ [Op.bc tag (E.n : Int)]) ∧
      rv'.srow = rv.srow ∧ rv'.sprow = rv.sprow ∧ rv'.z = rv.z ∧ rv'.zp = rv.zp ∧
      D.Nodup ∧ (∀ x ∈ D, x < E.n) ∧
      rv'.cnt = (List.range E.n).map (fun j => if D.contains j then 1 else 0) ∧
      I'.b.length = E.n ∧ rv'.C.length = E.n ∧
      (∀ k, k < E.n → k ≠ E.i →
        bsOf I' k = (reS E.G tag (E.t + 1) (bsOf I k) [] false).2.1 ∧
        getRow rv'.C k = padRow E.t (reS E.G tag (E.t + 1) (bsOf I k) [] false).2.2) ∧
      bsOf I' E.i = bsOf I E.i ∧ getRow rv'.C E.i = getRow rv.C E.i ∧
      (∀ k v w a l, k < E.n → k ≠ E.i → (reS E.G tag (E.t + 1) (bsOf I k) [] false).1 = false →
        psOf I k = [v, w] → absGe v E.G.q = false → absGe w E.G.q = false → pedS E.G v w = .ok (a, l) →
        commitProd E.G.p (E.pt E.i) (padRow E.t (reS E.G tag (E.t + 1) (bsOf I k) [] false).2.2) = .ok l →
        k ∉ D) ∧
      (∀ a l, pedS E.G (getI rv.s E.i) (getI rv.sp E.i) = .ok (a, l) →
        commitProd E.G.p (E.pt E.i) (getRow rv.C E.i) = .ok l → E.i ∉ D) ∧
      rv'.complainers = (List.range E.n).map (fun j => if D.contains j then [E.i] else []) ∧
      InR E.G.q rv'.s := by
  have hq : 0 < E.G.q := hG.vg.q_pos
  have hIb : ∀ j ∈ List.range E.n, j < I.b.length := fun j hj => by rw [hb]; exact List.mem_range.mp hj
  obtain ⟨g1, g2, g3⟩ := xa_rvReadC_glob E tag (List.range E.n) I hIb rv.C []
  rcases h1 : rvReadC E tag (List.range E.n) I rv.C [] with ⟨I1, C, cm1⟩
  rw [h1] at g1 g2 g3
  simp only at g1 g2 g3
  have hIp : ∀ j ∈ List.range E.n, j < I1.p.length := fun j hj => by
    rw [g2, hp]; exact List.mem_range.mp hj
  obtain ⟨k1, k2, k3, k4, k5⟩ := ag_genReadShares_glob E.G.q hq (gstOf E) (List.range E.n) I1 hIp rv.s rv.sp cm1
  rw [← xa_rvReadShares_eq] at k1 k2 k3 k4 k5
  rcases h2 : rvReadShares E (List.range E.n) I1 rv.s rv.sp cm1 with ⟨I2, s, sp, cm2⟩
  rw [h2] at k1 k2 k3 k4 k5
  simp only at k1 k2 k3 k4 k5
  obtain ⟨cm3, h3, hm3⟩ := xa_rvCheck E hG C s sp (k4 hsr) (k5 hspr) (List.range E.n) cm2
  refine ⟨{ rv with C := C, s := s, sp := sp, cnt := (List.range E.n).map (fun j => if (sortUniq E.n cm3).contains j then 1 else 0), complainers := (List.range E.n).map (fun j => if (sortUniq E.n cm3).contains j then [E.i] else []), compl := [] },
    I2, sortUniq E.n cm3, ?_, rfl, rfl, rfl, rfl, ag_sortUniq_nodup _ _,
    fun x hx => ((ag_mem_sortUniq _ _ _).mp hx).1, rfl, ?_, ?_, ?_, ?_, ?_, ?_, ?_, rfl, k4 hsr⟩
  · unfold rvVerify
    simp only [h1, h2, hz, h3, bind, Except.bind, pure, Except.pure]
  · rw [show I2.b = I1.b from k1, g1, hb]
  · exact g3.trans hC
  · intro k hk hki
    have := xa_rvReadC_hit E tag k (List.range E.n) List.nodup_range I hIb rv.C []
      (List.mem_range.mpr hk) hki
    rw [h1] at this
    obtain ⟨t1, t2, -⟩ := this
    refine ⟨?_, t2 (by rw [hC]; exact hk)⟩
    show I2.b.getD k [] = _
    rw [k1]
    exact t1
  · have := xa_rvReadC_frame E tag E.i (List.range E.n) I hIb rv.C [] (Or.inr rfl)
    rw [h1] at this
    show I2.b.getD E.i [] = _
    rw [k1]
    exact this.1
  · have := xa_rvReadC_frame E tag E.i (List.range E.n) I hIb rv.C [] (Or.inr rfl)
    rw [h1] at this
    exact this.2.1
  · intro k v w a l hk hki hre hps hv hw hped hcp hkD
    have hkm := ((ag_mem_sortUniq _ _ _).mp hkD).2
    have c1 := xa_rvReadC_hit E tag k (List.range E.n) List.nodup_range I hIb rv.C []
      (List.mem_range.mpr hk) hki
    rw [h1] at c1
    obtain ⟨-, c12, c13⟩ := c1
    simp only at c12 c13
    have hps1 : psOf I1 k = [v, w] := by
      show I1.p.getD k [] = _
      rw [g2]
      exact hps
    have c2 := ag_genReadShares_hit E.G.q (gstOf E) k (List.range E.n) List.nodup_range I1 hIp rv.s rv.sp cm1
      (List.mem_range.mpr hk) hki v w hps1 hv hw (by rw [hs]; exact hk) (by rw [hsp]; exact hk)
    rw [← xa_rvReadShares_eq, h2] at c2
    obtain ⟨c21, c22, c23⟩ := c2
    simp only at c21 c22 c23
    rcases (hm3 k).mp hkm with h | ⟨-, h⟩
    · rw [c23, c13] at h
      simp [hre] at h
    · simp [chkT, c21, c22, hped, c12 (by rw [hC]; exact hk), hcp] at h
  · intro a l hped hcp hkD
    have hkm := ((ag_mem_sortUniq _ _ _).mp hkD).2
    have c1 := xa_rvReadC_frame E tag E.i (List.range E.n) I hIb rv.C [] (Or.inr rfl)
    rw [h1] at c1
    obtain ⟨-, c12, c13⟩ := c1
    simp only at c12 c13
    have c2 := ag_genReadShares_frame E.G.q (gstOf E) E.i (List.range E.n) I1 hIp rv.s rv.sp cm1 (Or.inr rfl)
    rw [← xa_rvReadShares_eq, h2] at c2
    obtain ⟨c21, c22, c23⟩ := c2
    simp only at c21 c22 c23
    rcases (hm3 E.i).mp hkm with h | ⟨-, h⟩
    · rw [c23, c13] at h
      simp at h
    · simp [chkT, c21, c22, hped, c12, hcp] at h

/-- step 1(c) -/
theorem xa_rvCollect_spec (tag : Tag) (rv : Rv) (I : Inbox) (hb : I.b.length = E.n) (hcnt : rv.cnt.length = E.n) :
    ∃ (rv' : Rv) (I' : Inbox) (cfs : List Nat), rvCollect E tag rv I =
        (rv', I', (if getN rv'.cnt E.i > 0 then cfs.flatMap (fun (it : Nat) =>
            [Op.bc tag (it : Int), Op.bc tag (getI rv.srow it), Op.bc tag (getI rv.sprow it)]) else []) ++
          [Op.bc tag (E.n : Int)]) ∧
      rv'.C = rv.C ∧ rv'.z = rv.z ∧ rv'.zp = rv.zp ∧
      cfs.length ≤ E.n ∧ (∀ x ∈ cfs, x < E.n) ∧ I'.b.length = E.n ∧ rv'.cnt.length = E.n ∧
      (∀ k, k < E.n → k ≠ E.i → bsOf I' k = rcRestT tag E.n (bsOf I k)) ∧
      (∀ w, w < E.n → getN rv'.cnt w = getN rv.cnt w +
        (((List.range E.n).filter (fun x => x ≠ E.i)).map (fun x => (rcNewsT tag E.n (bsOf I x)).count w)).sum) ∧
      (∀ k, k ∈ rv'.compl ↔ k < E.n ∧ k ≠ E.i ∧ rcBadT tag E.n (bsOf I k) = true) ∧
      rv'.complainers.length = rv.complainers.length ∧
      (∀ k x, k < rv.complainers.length → (x ∈ rv'.complainers.getD k [] ↔
        x ∈ rv.complainers.getD k [] ∨ (x < E.n ∧ x ≠ E.i ∧ k ∈ rcNewsT tag E.n (bsOf I x)))) ∧
      (∀ x, x ∈ cfs ↔ x < E.n ∧ x ≠ E.i ∧ E.i ∈ rcNewsT tag E.n (bsOf I x)) ∧ rv'.s = rv.s := by
  have hIb : ∀ j ∈ List.range E.n, j < I.b.length := fun j hj => by rw [hb]; exact List.mem_range.mp hj
  obtain ⟨g1, g2, g3, g4⟩ := xa_rvCollectGo_glob E tag (List.range E.n) I hIb rv.cnt [] [] rv.complainers
  have hcn := fun w (hw : w < E.n) => xa_rvCollectGo_cnt E tag (List.range E.n) List.nodup_range I hIb rv.cnt [] []
    rv.complainers w (by rw [hcnt]; exact hw)
  have hhit := fun k (hk : k < E.n) (hki : k ≠ E.i) => xa_rvCollectGo_hit E tag k (List.range E.n)
    List.nodup_range I hIb rv.cnt [] [] rv.complainers (List.mem_range.mpr hk) hki
  have hfr := fun k (hk : k ∉ List.range E.n ∨ k = E.i) => xa_rvCollectGo_frame E tag k (List.range E.n) I hIb
    rv.cnt [] [] rv.complainers hk
  have hcps := fun k x (hk : k < rv.complainers.length) => xa_rvCollectGo_cps E tag (List.range E.n)
    List.nodup_range I hIb rv.cnt [] [] rv.complainers k x hk
  have hcf := fun x => xa_rvCollectGo_cf E tag (List.range E.n) List.nodup_range I hIb rv.cnt [] [] rv.complainers x
  rcases h1 : rvCollectGo E tag (List.range E.n) I rv.cnt [] [] rv.complainers with ⟨I1, cnt, cf, cm, cps⟩
  rw [h1] at g1 g2 g3 g4 hcn hhit hfr hcps hcf
  simp only at g1 g2 g3 g4 hcn hhit hfr hcps hcf
  refine ⟨{ rv with cnt := cnt, cfrom := sortUniq E.n cf, complainers := cps, compl := cm }, I1, sortUniq E.n cf, ?_,
    rfl, rfl, rfl, ag_sortUniq_length _ _, fun x hx => ((ag_mem_sortUniq _ _ _).mp hx).1, g1.trans hb,
    g3.trans hcnt, fun k hk hki => (hhit k hk hki).1, hcn, ?_, g4, ?_, ?_, rfl⟩
  · unfold rvCollect
    simp only [h1]
  · intro k
    show k ∈ cm ↔ _
    by_cases hk : k < E.n
    · by_cases hki : k = E.i
      · have := (hfr k (Or.inr hki)).2
        rw [this]
        simp [hki]
      · have := (hhit k hk hki).2
        simp [this, hk, hki]
    · have := (hfr k (Or.inl (by simpa using hk))).2
      simp [this, hk]
  · intro k x hk
    have := hcps k x hk
    simpa using this
  · intro x
    rw [ag_mem_sortUniq, hcf x]
    simp only [List.not_mem_nil, false_or, List.mem_range]
    constructor
    · rintro ⟨h1, -, h2, h3⟩
      exact ⟨h1, h2, h3⟩
    · rintro ⟨h1, h2, h3⟩
      exact ⟨h1, h1, h2, h3⟩

/-- steps 1(d) and 2: the set QUAL -/
theorem xa_rvResolve_spec (hG : ValidGrp E.G) (tag : Tag) (rv : Rv) (I : Inbox) (hb : I.b.length = E.n)
    (hs : InR E.G.q rv.s) :
    ∃ (rv' : Rv) (I' : Inbox), rvResolve E tag rv I = .ok (rv', I') ∧ rv'.z = rv.z ∧ rv'.zp = rv.zp ∧
      (∃ p : Nat → Bool, rv'.qual = (List.range E.n).filter p) ∧
      ∀ k, k ∈ rv'.qual ↔ k < E.n ∧ ¬ (k ∈ rv.compl ∨ E.t < getN rv.cnt k ∨
        (k ≠ E.i ∧ (raBadT E tag (getRow rv.C k) (bsOf I k) = true ∨ unBT E tag rv k (bsOf I k) = true))) := by
  have hIb : ∀ j ∈ List.range E.n, j < I.b.length := fun j hj => by rw [hb]; exact List.mem_range.mp hj
  obtain ⟨I1, s, sp, cm, h1, hin, hm⟩ := xa_rvResolveGo E hG tag rv (List.range E.n) List.nodup_range I hIb
    rv.s rv.sp rv.compl
  have hq : ∀ k, k ∈ (List.range E.n).filter (fun j => !cm.contains j) ↔ k < E.n ∧ ¬ (k ∈ rv.compl ∨
      E.t < getN rv.cnt k ∨ (k ≠ E.i ∧ (raBadT E tag (getRow rv.C k) (bsOf I k) = true ∨
        unBT E tag rv k (bsOf I k) = true))) := by
    intro k
    simp only [List.mem_filter, List.mem_range, Bool.not_eq_true', List.contains_eq_mem,
      decide_eq_false_iff_not, hm k]
    constructor
    · rintro ⟨hk, h⟩
      refine ⟨hk, fun h2 => h ?_⟩
      rcases h2 with h2 | h2 | h2
      · exact Or.inl h2
      · exact Or.inr ⟨hk, Or.inl h2⟩
      · exact Or.inr ⟨hk, Or.inr h2⟩
    · rintro ⟨hk, h⟩
      refine ⟨hk, fun h2 => h ?_⟩
      rcases h2 with h2 | ⟨-, h2 | h2⟩
      · exact Or.inl h2
      · exact Or.inr (Or.inl h2)
      · exact Or.inr (Or.inr h2)
  unfold rvResolve
  simp only [h1, bind, Except.bind, pure, Except.pure]
  exact ⟨_, _, rfl, rfl, rfl, ⟨_, rfl⟩, hq⟩

end Tmcg.CgjkrP
