import TmcgProofs.DkgAgree
import Tmcg.Model.Cgjkr
/-
  Auxiliary material for TmcgProofs/CgjkrAgree.lean (agreement on `x_rvss->QUAL` in `runGenC`):
  the readers of the joint sharing `RVSS::Share` (`rvReadC`, `rvReadShares`, `rvReadComplaints`,
  `rvReadAnswers`) as functions of ONE sender's stream under a broadcast tag, the loops over the senders,
  and the specifications of the four step functions `rvDeal`, `rvVerify`, `rvCollect`, `rvResolve`.

  This is the adaptation of sections (4)-(7) of TmcgProofs/DkgAgree.lean (whose generic parts — round
  glue, output filter, `bsOf`/`setB`/`popS`, `reS`, `bumpL`, `shOne`, … — are imported and reused) to
    * an explicit environment `E : Env` (evaluation points `E.pt`),
    * an arbitrary broadcast tag,
    * `rvReadComplaints` maintaining the `complainers` lists itself (`cpsL`),
    * `rvReadAnswers` returning the answered complaints itself (`anT`), `rvResolveGo` reading the answers
      of every dealer.
  All names carry the prefix `xa_`.
-/
namespace Tmcg.CgjkrP
open Tmcg Tmcg.Powm Tmcg.Dkg Tmcg.Grp Tmcg.DkgL Tmcg.DkgP Tmcg.Cgjkr

set_option linter.unusedSectionVars false
set_option linter.unusedVariables false

/-! ### (4) the readers as functions of one sender's stream -/

theorem xa_popS_cons (tag : Tag) (v : Int) (r : List (Tag × Int)) :
    popS tag ((tag, v) :: r) = (some v, r) := by
  simp [popS, removeFirst]

/-- one sender's complaint list (step 1(c)) on its stream: the new distinct valid complaints, the
    number of times the sender is put on the complaint list, the rest of the stream -/
def rcT (tag : Tag) (n : Nat) : Nat → Nat → List Nat → List (Tag × Int) → List Nat × Nat × List (Tag × Int)
  | 0, _, _, s => ([], 0, s)
  | f + 1, it, dup, s =>
    match popS tag s with
    | (none, s1) => ([], 1, s1)
    | (some v, s1) =>
      let who := getUi v
      if who < n ∧ ¬ dup.contains who then
        if it + 1 ≤ n then
          let r := rcT tag n f (it + 1) (dup ++ [who]) s1
          (who :: r.1, r.2.1, r.2.2)
        else ([who], 0, s1)
      else if who < n then
        if it + 1 ≤ n then
          let r := rcT tag n f (it + 1) dup s1
          (r.1, r.2.1 + 1, r.2.2)
        else ([], 1, s1)
      else ([], 0, s1)

/-- `complainers[who] += [j]` for every `who` of the list -/
def cpsL (j : Nat) (ws : List Nat) (cps : List (List Nat)) : List (List Nat) :=
  ws.foldl (fun c who => c.set who (c.getD who [] ++ [j])) cps

theorem xa_rvReadComplaints (E : Env) (tag : Tag) (j : Nat) (f : Nat) (it : Nat) (dup : List Nat) (I : Inbox)
    (hj : j < I.b.length) (cnt cf cm : List Nat) (cps : List (List Nat)) :
    rvReadComplaints E tag j f it dup I cnt cf cm cps =
      (setB I j (rcT tag E.n f it dup (bsOf I j)).2.2, bumpL cnt (rcT tag E.n f it dup (bsOf I j)).1,
        cf ++ ((rcT tag E.n f it dup (bsOf I j)).1.filter (fun w => w = E.i)).map (fun _ => j),
        cm ++ List.replicate (rcT tag E.n f it dup (bsOf I j)).2.1 j,
        cpsL j (rcT tag E.n f it dup (bsOf I j)).1 cps) := by
  induction f generalizing it dup I cnt cf cm cps with
  | zero => simp [rvReadComplaints, rcT, ag_setB_self, bumpL, cpsL]
  | succ f ih =>
    unfold rvReadComplaints rcT
    rw [ag_popB]
    rcases hp : popS tag (bsOf I j) with ⟨_ | v, s1⟩
    · simp [bumpL, cpsL]
    · simp only
      by_cases h1 : getUi v < E.n ∧ ¬ dup.contains (getUi v) = true
      · simp only [h1, if_true, true_and]
        by_cases h2 : it + 1 ≤ E.n
        · simp only [h2, if_true]
          rw [ih _ _ (setB I j s1) (by simpa using hj), ag_bsOf_setB_self I j s1 hj, ag_setB_setB]
          by_cases h3 : getUi v = E.i
          · simp [bumpL, cpsL, h3]
          · simp [bumpL, cpsL, h3]
        · simp only [h2, if_false]
          by_cases h3 : getUi v = E.i
          · simp [bumpL, cpsL, h3]
          · simp [bumpL, cpsL, h3]
      · simp only [h1, if_false]
        by_cases h4 : getUi v < E.n
        · simp only [h4, if_true, true_and]
          by_cases h2 : it + 1 ≤ E.n
          · simp only [h2, if_true]
            rw [ih _ _ (setB I j s1) (by simpa using hj), ag_bsOf_setB_self I j s1 hj, ag_setB_setB]
            simp [List.replicate_succ]
          · simp only [h2, if_false]
            simp [bumpL, cpsL]
        · simp [h4, bumpL, cpsL]

/-- the answers of one dealer (step 1(d)) on its stream: the number of times the dealer is put on
    the complaint list, the rest of the stream -/
def raT (E : Env) (tag : Tag) (Cj : List Int) : Nat → List (Tag × Int) → Except Err (Nat × List (Tag × Int))
  | 0, s => .ok (0, s)
  | f + 1, s =>
    match popS tag s with
    | (none, s1) => .ok (1, s1)
    | (some w, s1) =>
      if getUi w ≥ E.n then .ok (0, s1)
      else
        match popS tag s1 with
        | (none, s2) => .ok (1, s2)
        | (some foo0, s2) =>
          match popS tag s2 with
          | (none, s3) => .ok ((if absGe foo0 E.G.q then 1 else 0) + 1, s3)
          | (some bar0, s3) =>
            match pedF E.G (if absGe foo0 E.G.q then 0 else foo0) (if absGe bar0 E.G.q then 0 else bar0) with
            | .error e => .error e
            | .ok lhs =>
              match commitProd E.G.p (E.pt (getUi w)) Cj with
              | .error e => .error e
              | .ok rhs =>
                match raT E tag Cj f s3 with
                | .error e => .error e
                | .ok r =>
                  .ok ((if absGe foo0 E.G.q then 1 else 0) + (if absGe bar0 E.G.q then 1 else 0) +
                    (if lhs != rhs then 1 else 0) + r.1, r.2)

/-- the complainers whose complaint the dealer answered: the first entries of the triples
    `rvReadAnswers` reads (an entry counts as soon as it is read) -/
def anT (tag : Tag) (n : Nat) : Nat → List (Tag × Int) → List Nat → List Nat
  | 0, _, acc => acc
  | f + 1, s, acc =>
    match popS tag s with
    | (none, _) => acc
    | (some w, s1) =>
      if getUi w ≥ n then acc
      else
        match popS tag s1 with
        | (none, _) => acc ++ [getUi w]
        | (some _, s2) =>
          match popS tag s2 with
          | (none, _) => acc ++ [getUi w]
          | (some _, s3) => anT tag n f s3 (acc ++ [getUi w])

theorem xa_rvReadAnswers (E : Env) (tag : Tag) (C : List (List Int)) (j : Nat) (f : Nat) (I : Inbox)
    (hj : j < I.b.length) (s sp : List Int) (cm an : List Nat) :
    match raT E tag (getRow C j) f (bsOf I j) with
    | .ok (bad, rest) => ∃ s' sp', rvReadAnswers E tag C j f I s sp cm an =
        .ok (setB I j rest, s', sp', cm ++ List.replicate bad j, anT tag E.n f (bsOf I j) an)
    | .error e => rvReadAnswers E tag C j f I s sp cm an = .error e := by
  induction f generalizing I s sp cm an with
  | zero => simp [rvReadAnswers, raT, anT, ag_setB_self]
  | succ f ih =>
    unfold rvReadAnswers raT anT
    rw [ag_popB]
    rcases hp1 : popS tag (bsOf I j) with ⟨_ | w, s1⟩
    · exact ⟨s, sp, by simp⟩
    · simp only
      by_cases hw : getUi w ≥ E.n
      · simp only [hw, if_true]
        exact ⟨s, sp, by simp⟩
      · simp only [hw, if_false]
        rw [ag_popB, ag_bsOf_setB_self I j s1 hj, ag_setB_setB]
        rcases hp2 : popS tag s1 with ⟨_ | foo0, s2⟩
        · exact ⟨s, sp, by simp⟩
        · simp only
          rw [ag_popB, ag_bsOf_setB_self I j s2 hj, ag_setB_setB]
          rcases hp3 : popS tag s2 with ⟨_ | bar0, s3⟩
          · simp only
            cases absGe foo0 E.G.q
            · exact ⟨s, sp, by simp⟩
            · exact ⟨s, sp, by simp [List.replicate_succ]⟩
          · simp only
            have hj3 : j < (setB I j s3).b.length := by simpa using hj
            have hb3 : bsOf (setB I j s3) j = s3 := ag_bsOf_setB_self I j s3 hj
            have ihh := fun s sp cm an => ih (setB I j s3) hj3 s sp cm an
            rw [hb3] at ihh
            simp only [ag_ite_pair, ag_ite_cm]
            generalize (if absGe foo0 E.G.q = true then (0 : Int) else foo0) = foo
            generalize (if absGe bar0 E.G.q = true then (0 : Int) else bar0) = bar
            generalize (if absGe foo0 E.G.q = true then 1 else 0) = a1
            generalize (if absGe bar0 E.G.q = true then 1 else 0) = a2
            simp only [ag_setB_setB] at ihh
            cases hl : pedF E.G foo bar with
            | error e => simp [bind, Except.bind]
            | ok lhs =>
              cases hr : commitProd E.G.p (E.pt (getUi w)) (getRow C j) with
              | error e => simp [bind, Except.bind]
              | ok rhs =>
                simp only [bind, Except.bind]
                cases hrec : raT E tag (getRow C j) f s3 with
                | error e =>
                  simp only [hrec] at ihh
                  simp only
                  split <;> (try split) <;> exact ihh _ _ _ _
                | ok r =>
                  obtain ⟨bad, rest⟩ := r
                  simp only [hrec] at ihh
                  simp only
                  by_cases hne : (lhs != rhs) = true
                  · simp only [hne, if_true]
                    obtain ⟨s', sp', h⟩ := ihh s sp (cm ++ List.replicate a1 j ++ List.replicate a2 j ++ [j])
                      (an ++ [getUi w])
                    refine ⟨s', sp', ?_⟩
                    rw [h, ag_rep1]
                  · simp only [hne]
                    by_cases hwi : getUi w = E.i
                    · simp only [hwi, if_true]
                      obtain ⟨s', sp', h⟩ := ihh (s.set j foo) (sp.set j bar)
                        (cm ++ List.replicate a1 j ++ List.replicate a2 j) (an ++ [E.i])
                      refine ⟨s', sp', ?_⟩
                      rw [h, ag_rep0]
                      simp
                    · simp only [hwi, if_false]
                      obtain ⟨s', sp', h⟩ := ihh s sp (cm ++ List.replicate a1 j ++ List.replicate a2 j)
                        (an ++ [getUi w])
                      refine ⟨s', sp', ?_⟩
                      rw [h, ag_rep0]
                      simp

end Tmcg.CgjkrP
