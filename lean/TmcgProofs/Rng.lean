import Tmcg.Model.Rng
import TmcgProofs.Base
import Mathlib.Data.Int.CardIntervalMod
import Mathlib.Data.Nat.Count
/-
  Lemmas about the bounded sampler of src/mpz_srandom.cc (C07).
-/
namespace Tmcg.Rng

/-- the acceptance limit: the largest multiple of `m` not exceeding `2^64` -/
def limitL (m : Nat) : Nat := W / m * m

theorem limitL_dvd (m : Nat) : m ∣ limitL m := Dvd.intro_left _ rfl
theorem limitL_le (m : Nat) : limitL m ≤ W := Nat.div_mul_le_self W m
theorem limitL_pos (m : Nat) (hm : 0 < m) (hmW : m ≤ W) : 0 < limitL m := by
  unfold limitL
  have : 0 < W / m := Nat.div_pos hmW hm
  exact Nat.mul_pos this hm

theorem nmbDiv_eq (m : Nat) (hm : 0 < m) (hmW' : m < W) : nmbDiv m + 1 = W / m := by
  have hmW : m ≤ W := le_of_lt hmW'
  unfold nmbDiv
  have h1 : W - 1 - m + 1 = W - m := by
    have aux : ∀ w : Nat, 0 < m → m < w → w - 1 - m + 1 = w - m := by intro w h1 h2; omega
    exact aux W hm hmW'
  rw [h1]
  have : (W - m) / m = W / m - 1 := by
    have := Nat.sub_mul_div W m 1
    simpa using this
  have hpos : 0 < W / m := Nat.div_pos hmW hm
  omega

theorem nmbMax_eq (m : Nat) (hm : 2 ≤ m) (hmW : m < W) : nmbMax m + 1 = limitL m := by
  unfold nmbMax
  rw [nmbDiv_eq m (by omega) hmW]
  change (limitL m % W + W - 1) % W + 1 = limitL m
  have hle := limitL_le m
  have hpos := limitL_pos m (by omega) (le_of_lt hmW)
  have hW : 1 ≤ W := Nat.one_le_two_pow
  by_cases hEq : limitL m = W
  · rw [hEq, Nat.mod_self]
    have : (0 + W - 1) % W = W - 1 := Nat.mod_eq_of_lt (by omega)
    rw [this]; omega
  · have hlt : limitL m < W := lt_of_le_of_ne hle hEq
    rw [Nat.mod_eq_of_lt hlt]
    have : limitL m + W - 1 = (limitL m - 1) + W := by omega
    rw [this, Nat.add_mod_right, Nat.mod_eq_of_lt (by omega)]
    omega

/-- a raw word is accepted iff it lies below the limit -/
theorem accepts_iff (m u : Nat) (hm : 2 ≤ m) (hmW : m < W) : accepts m u = true ↔ u < limitL m := by
  unfold accepts
  rw [decide_eq_true_iff, ← nmbMax_eq m hm hmW]
  omega

/-- number of accepted words that reduce to the residue `v`: exactly `L / m`, whatever `v` -/
theorem card_residue (m v : Nat) (hm : 2 ≤ m) (hmW : m < W) (hv : v < m) :
    ((Finset.range W).filter (fun u => accepts m u = true ∧ u % m = v)).card = limitL m / m := by
  have hmpos : 0 < m := by omega
  have hset : (Finset.range W).filter (fun u => accepts m u = true ∧ u % m = v)
      = (Finset.range (limitL m)).filter (fun u => u ≡ v [MOD m]) := by
    ext u
    simp only [Finset.mem_filter, Finset.mem_range, accepts_iff m u hm hmW, Nat.ModEq,
      Nat.mod_eq_of_lt hv]
    have := limitL_le m
    constructor
    · rintro ⟨_, h1, h2⟩; exact ⟨h1, h2⟩
    · rintro ⟨h1, h2⟩; exact ⟨by omega, h1, h2⟩
  rw [hset, ← Nat.count_eq_card_filter_range, Nat.count_modEq_card (limitL m) hmpos v]
  have h0 : limitL m % m = 0 := Nat.mod_eq_zero_of_dvd (limitL_dvd m)
  simp [h0]

/-- number of accepted words -/
theorem card_accepted (m : Nat) (hm : 2 ≤ m) (hmW : m < W) :
    ((Finset.range W).filter (fun u => accepts m u = true)).card = limitL m := by
  have hset : (Finset.range W).filter (fun u => accepts m u = true) = Finset.range (limitL m) := by
    ext u
    simp only [Finset.mem_filter, Finset.mem_range, accepts_iff m u hm hmW]
    have := limitL_le m
    omega
  rw [hset, Finset.card_range]

end Tmcg.Rng
