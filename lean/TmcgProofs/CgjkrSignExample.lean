import Tmcg.Model.CgjkrSign
import Tmcg.Model.Tsig
/-
  C16, honest-run completeness of the step-by-step model of `DSS::Sign` on a CONCRETE instance, checked by
  the kernel (`decide`, no `native_decide`): the group `p = 23`, `q = 11`, `g = 2`, `h = 8`, three parties,
  `t = 1`, fixed coins, message 7.  Key generation (`Cgjkr.runGenC`) followed by `CgjkrSign.runSign`:
  every party returns `true`, all hold the same `(r, s) = (7, 4)`, and the model of the library's verifier
  accepts it under the generated key `y = 16`.

  Why only an instance: "with no deviation `Sign` returns `true`" is NOT true unconditionally — the call
  fails when `mu = k·a ≡ 0 (mod q)` (`mpz_invert(mu)`), and it returns `true` with `s = 0` or `r = 0` (a pair
  `Verify` refuses) with probability about `2/q` each; in this group of order 11 such coin choices are easy
  to find (the same function with the seeds 3, 4, 10 returns `false` everywhere, with the seeds 2, 6, 8 it
  returns `s = 0`).  A general completeness theorem needs these events excluded by hypothesis.
-/
namespace Tmcg.CgjkrSignEx
open Tmcg Tmcg.Dkg Tmcg.Cgjkr Tmcg.CgjkrSign

def coins (seed k : Nat) : List Int :=
  (List.range k).map (fun i => (((seed * 7919 + i * 104729 + i * i * 31 + 5) % 10007) % 11 : Nat))

/-- key generation, then `Sign(7)` by all three parties: `(returned true, r, s, y)` per party -/
def tinyRun (seed : Nat) : Option (List (Bool × Int × Int × Int)) :=
  match mkGrp 23 11 2 8 with
  | .error _ => none
  | .ok G =>
    let ins : List PartyIn := (List.range 3).map (fun i => ⟨coins (seed + i) 10, [], {}, {}⟩)
    let gen := runGenC G 3 1 ins
    let sins : List SignIn := gen.map (fun P =>
      ⟨P.st.x, P.st.xp, P.st.xr.C, P.st.xr.qual, coins (seed + 50 + P.st.i) 60, {}, []⟩)
    let y := (gen.map (fun P => P.st.y)).headD 0
    let sg := runSign G 1 7 [0, 1, 2] sins
    some (sg.map (fun P => (P.status == .ret true, P.st.r, P.st.s, y)))

set_option maxRecDepth 100000 in
set_option maxHeartbeats 4000000 in
/-- an honest run completes at every party with one and the same signature -/
theorem sign_honest_example : tinyRun 0 = some [(true, 7, 4, 16), (true, 7, 4, 16), (true, 7, 4, 16)] := by
  decide

set_option maxRecDepth 100000 in
/-- … which the model of `DSS::Verify` accepts under the generated key -/
theorem sign_honest_example_verifies :
    (match Tsig.dssVerify ⟨23, 11, 2⟩ 16 7 7 4 with | .ok b => b | .error _ => false) = true := by
  decide

end Tmcg.CgjkrSignEx
