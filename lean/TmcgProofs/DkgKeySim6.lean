import TmcgProofs.DkgKeySim5
/-
  C15, key agreement with reconstruction, part 6: the sub-rounds of `Reconstruct` (rounds ≥ 6): every
  honest party reconstructs the polynomial of the next accused party; after `|Rc| ≤ t` sub-rounds
  every honest party has finished `Generate` with `true`.
-/
namespace Tmcg.DkgP
open Tmcg Tmcg.Powm Tmcg.Dkg Tmcg.Grp Tmcg.DkgL

variable {G : Dkg.Grp} [Fact (Nat.Prime G.p.natAbs)]

set_option linter.unusedSectionVars false

theorem kg_popS_cons_tag (tag : Tag) (v : Int) (r : List (Tag × Int)) : popS tag ((tag, v) :: r) = (some v, r) := by
  simp [popS, removeFirst]

/-- collecting the shares for the accused party `it` -/
theorem kg_genRecCollect_spec (hG : ValidGrp G) (st : GenSt) (it : Nat) (Good : Nat → Int → Prop)
    (L : List Nat) (hL : L.Nodup) (I : Inbox) (hI : ∀ j ∈ L, j < I.b.length) (parties : List Nat)
    (shares : List Int) (hsl : ∀ j ∈ L, j < shares.length)
    (hgood : ∀ jt ∈ L, ∀ foo bar, (∃ tag, (tag, foo) ∈ bsOf I jt) → (∃ tag, (tag, bar) ∈ bsOf I jt) →
      foo.natAbs < G.q.natAbs → bar.natAbs < G.q.natAbs → Eq4 G jt (getRow st.C it) foo bar → Good jt foo) :
    ∃ I' parties' shares' added, genRecCollect G st it L I parties shares = .ok (I', parties', shares') ∧
      I'.b.length = I.b.length ∧ shares'.length = shares.length ∧
      parties' = parties ++ added ∧ added.Sublist L ∧
      (∀ jt ∈ added, jt ≠ st.i ∧ st.racc.contains jt = false ∧ Good jt (getI shares' jt)) ∧
      (∀ k, k ∉ L → getI shares' k = getI shares k) ∧ getI shares' st.i = getI shares st.i ∧
      (∀ k, k ∉ L → bsOf I' k = bsOf I k) ∧
      (∀ jt ∈ L, jt ≠ st.i → st.racc.contains jt = false → ∀ a b,
        bsOf I jt = [(some st.racc, a), (some st.racc, b)] → a.natAbs < G.q.natAbs → b.natAbs < G.q.natAbs →
        Eq4 G jt (getRow st.C it) a b → jt ∈ added ∧ bsOf I' jt = []) := by
  induction L generalizing I parties shares with
  | nil =>
    exact ⟨I, parties, shares, [], rfl, rfl, rfl, by simp, List.Sublist.refl _, by simp, fun _ _ => rfl, rfl,
      fun _ _ => rfl, by simp⟩
  | cons jt rest ih =>
    have hnd := List.nodup_cons.mp hL
    have hIr : ∀ k ∈ rest, k < I.b.length := fun k hk => hI k (List.mem_cons_of_mem _ hk)
    have hjI : jt < I.b.length := hI jt (by simp)
    have hslr : ∀ k ∈ rest, k < shares.length := fun k hk => hsl k (List.mem_cons_of_mem _ hk)
    have hgr : ∀ k ∈ rest, ∀ foo bar, (∃ tag, (tag, foo) ∈ bsOf I k) → (∃ tag, (tag, bar) ∈ bsOf I k) →
        foo.natAbs < G.q.natAbs → bar.natAbs < G.q.natAbs → Eq4 G k (getRow st.C it) foo bar → Good k foo :=
      fun k hk => hgood k (List.mem_cons_of_mem _ hk)
    -- the recursive call on an inbox that differs from `I` only at `jt`
    have hrec : ∀ (s' : List (Tag × Int)) (parties1 : List Nat) (shares1 : List Int),
        shares1.length = shares.length →
        ∃ I' parties' shares' added, genRecCollect G st it rest (setB I jt s') parties1 shares1 =
            .ok (I', parties', shares') ∧
          I'.b.length = I.b.length ∧ shares'.length = shares.length ∧
          parties' = parties1 ++ added ∧ added.Sublist rest ∧
          (∀ k ∈ added, k ≠ st.i ∧ st.racc.contains k = false ∧ Good k (getI shares' k)) ∧
          (∀ k, k ∉ rest → getI shares' k = getI shares1 k) ∧ getI shares' st.i = getI shares1 st.i ∧
          (∀ k, k ∉ jt :: rest → bsOf I' k = bsOf I k) ∧
          (∀ k ∈ rest, k ≠ st.i → st.racc.contains k = false → ∀ a b,
            bsOf I k = [(some st.racc, a), (some st.racc, b)] → a.natAbs < G.q.natAbs → b.natAbs < G.q.natAbs →
            Eq4 G k (getRow st.C it) a b → k ∈ added ∧ bsOf I' k = []) ∧
          bsOf I' jt = s' := by
      intro s' parties1 shares1 hl1
      have hfr : ∀ k, k ≠ jt → bsOf (setB I jt s') k = bsOf I k := fun k hk =>
        ag_bsOf_setB_ne _ _ _ _ (Ne.symm hk)
      have hfr' : ∀ k ∈ rest, bsOf (setB I jt s') k = bsOf I k := fun k hk =>
        hfr k (fun e => hnd.1 (e ▸ hk))
      obtain ⟨I', parties', shares', added, h, a1, a2, a3, a4, a5, a6, a7, a9, a8⟩ := ih hnd.2 (setB I jt s')
        (fun k hk => by simpa using hIr k hk) parties1 shares1 (fun k hk => by rw [hl1]; exact hslr k hk)
        (fun k hk foo bar h1 h2 => by rw [hfr' k hk] at h1 h2; exact hgr k hk foo bar h1 h2)
      refine ⟨I', parties', shares', added, h, by rw [a1]; simp, a2.trans hl1, a3, a4, a5, a6, a7, ?_, ?_, ?_⟩
      · intro k hk
        have hkj : k ≠ jt := fun e => hk (by simp [e])
        rw [a9 k (fun e => hk (List.mem_cons_of_mem _ e)), hfr k hkj]
      · intro k hk h1 h2 a b hb
        rw [← hfr' k hk] at hb
        exact a8 k hk h1 h2 a b hb
      · rw [a9 jt hnd.1, ag_bsOf_setB_self I jt s' hjI]
    -- the shapes of the results
    have hskip : ∀ (s' : List (Tag × Int)),
        (∀ a b, bsOf I jt = [(some st.racc, a), (some st.racc, b)] → jt ≠ st.i → st.racc.contains jt = false →
          a.natAbs < G.q.natAbs → b.natAbs < G.q.natAbs → Eq4 G jt (getRow st.C it) a b → False) →
        ∃ I' parties' shares' added, genRecCollect G st it rest (setB I jt s') parties shares =
            .ok (I', parties', shares') ∧
          I'.b.length = I.b.length ∧ shares'.length = shares.length ∧
          parties' = parties ++ added ∧ added.Sublist (jt :: rest) ∧
          (∀ jt ∈ added, jt ≠ st.i ∧ st.racc.contains jt = false ∧ Good jt (getI shares' jt)) ∧
          (∀ k, k ∉ jt :: rest → getI shares' k = getI shares k) ∧ getI shares' st.i = getI shares st.i ∧
          (∀ k, k ∉ jt :: rest → bsOf I' k = bsOf I k) ∧
          (∀ k ∈ jt :: rest, k ≠ st.i → st.racc.contains k = false → ∀ a b,
            bsOf I k = [(some st.racc, a), (some st.racc, b)] → a.natAbs < G.q.natAbs → b.natAbs < G.q.natAbs →
            Eq4 G k (getRow st.C it) a b → k ∈ added ∧ bsOf I' k = []) := by
      intro s' hno
      obtain ⟨I', parties', shares', added, h, a1, a2, a3, a4, a5, a6, a7, a9, a8, -⟩ := hrec s' parties shares rfl
      refine ⟨I', parties', shares', added, h, a1, a2, a3, a4.trans (List.sublist_cons_self _ _), a5,
        fun k hk => a6 k (fun e => hk (List.mem_cons_of_mem _ e)), a7, a9, ?_⟩
      intro k hk h1 h2 a b hb ha hb' he
      rcases List.mem_cons.mp hk with e | e
      · subst e
        exact (hno a b hb h1 h2 ha hb' he).elim
      · exact a8 k e h1 h2 a b hb ha hb' he
    unfold genRecCollect
    by_cases hsk : jt = st.i ∨ st.racc.contains jt = true
    · simp only [hsk, if_true]
      have := hskip (bsOf I jt) (by
        intro a b _ h1 h2
        rcases hsk with e | e
        · exact absurd e h1
        · rw [e] at h2; cases h2)
      rw [ag_setB_self] at this
      exact this
    · simp only [hsk, if_false]
      have hji : jt ≠ st.i := fun e => hsk (Or.inl e)
      have hjr : st.racc.contains jt = false := by
        cases h : st.racc.contains jt
        · rfl
        · exact absurd (Or.inr h) hsk
      rw [ag_popB]
      rcases hp1 : popS (some st.racc) (bsOf I jt) with ⟨_ | foo, s1⟩
      · simp only
        refine hskip s1 ?_
        intro a b hb
        rw [hb, kg_popS_cons_tag] at hp1
        cases hp1
      · simp only
        obtain ⟨f1, m1⟩ := kg_popS_mem _ _ _ _ hp1
        rw [ag_popB, ag_bsOf_setB_self I jt s1 hjI, ag_setB_setB]
        rcases hp2 : popS (some st.racc) s1 with ⟨_ | bar, s2⟩
        · simp only
          refine hskip s2 ?_
          intro a b hb
          rw [hb, kg_popS_cons_tag] at hp1
          simp only [Prod.mk.injEq, Option.some.injEq] at hp1
          rw [← hp1.2, kg_popS_cons_tag] at hp2
          cases hp2
        · simp only
          obtain ⟨b1, m2⟩ := kg_popS_mem _ _ _ _ hp2
          by_cases habs : (absGe foo G.q || absGe bar G.q) = true
          · simp only [habs, if_true]
            refine hskip s2 ?_
            intro a b hb _ _ ha hb'
            rw [hb, kg_popS_cons_tag] at hp1
            simp only [Prod.mk.injEq, Option.some.injEq] at hp1
            rw [← hp1.2, kg_popS_cons_tag] at hp2
            simp only [Prod.mk.injEq, Option.some.injEq] at hp2
            rw [← hp1.1, ← hp2.1, kg_absGe_false _ _ ha, kg_absGe_false _ _ hb'] at habs
            simp at habs
          · simp only [habs, Bool.false_eq_true, if_false]
            have hfr : foo.natAbs < G.q.natAbs := by
              have : absGe foo G.q = false := by
                cases h : absGe foo G.q
                · rfl
                · simp [h] at habs
              simpa [absGe] using this
            have hbr : bar.natAbs < G.q.natAbs := by
              have : absGe bar G.q = false := by
                cases h : absGe bar G.q
                · rfl
                · simp [h] at habs
              simpa [absGe] using this
            obtain ⟨l, hl, l0, l1, lv⟩ := pedF_val hG foo bar hfr hbr
            obtain ⟨r, hr, r0, r1, rv⟩ := kg_commitProd_val hG (jt + 1) (getRow st.C it)
            simp only [hl, hr, bind, Except.bind]
            obtain ⟨I', parties', shares', added, h, a1, a2, a3, a4, a5, a6, a7, a9, a8, a10⟩ :=
              hrec s2 (if (l == r) = true then parties ++ [jt] else parties) (shares.set jt foo) (by simp)
            have hset : getI shares' jt = foo := by
              rw [a6 jt hnd.1, getI_set_self _ _ _ (hsl jt (by simp))]
            have hfr2 : ∀ k, k ∉ jt :: rest → getI shares' k = getI shares k := by
              intro k hk
              have hkj : k ≠ jt := fun e => hk (by simp [e])
              rw [a6 k (fun e => hk (List.mem_cons_of_mem _ e)), getI_set_ne _ _ _ _ hkj]
            have hown : getI shares' st.i = getI shares st.i := by
              rw [a7, getI_set_ne _ _ _ _ (Ne.symm hji)]
            by_cases hlr : l = r
            · -- verified
              have hE : Eq4 G jt (getRow st.C it) foo bar := by
                unfold Eq4
                rw [← lv, ← rv, hlr]
              have hG' : Good jt foo := hgood jt (by simp) foo bar ⟨_, f1⟩ ⟨_, m1 _ b1⟩ hfr hbr hE
              refine ⟨I', parties', shares', jt :: added, h, a1, a2, ?_, a4.cons_cons jt, ?_, hfr2, hown, a9, ?_⟩
              · rw [a3]; simp [hlr]
              · intro k hk
                rcases List.mem_cons.mp hk with e | e
                · subst e
                  exact ⟨hji, hjr, by rw [hset]; exact hG'⟩
                · exact a5 k e
              · intro k hk h1 h2 a b hb ha hb' he
                rcases List.mem_cons.mp hk with e | e
                · subst e
                  refine ⟨by simp, ?_⟩
                  rw [a10]
                  rw [hb, kg_popS_cons_tag] at hp1
                  simp only [Prod.mk.injEq, Option.some.injEq] at hp1
                  rw [← hp1.2, kg_popS_cons_tag] at hp2
                  simp only [Prod.mk.injEq, Option.some.injEq] at hp2
                  exact hp2.2.symm
                · obtain ⟨c1, c2⟩ := a8 k e h1 h2 a b hb ha hb' he
                  exact ⟨List.mem_cons_of_mem _ c1, c2⟩
            · refine ⟨I', parties', shares', added, h, a1, a2, ?_, a4.trans (List.sublist_cons_self _ _), a5, hfr2,
                hown, a9, ?_⟩
              · rw [a3]; simp [hlr]
              · intro k hk h1 h2 a b hb ha hb' he
                rcases List.mem_cons.mp hk with e | e
                · subst e
                  exfalso
                  rw [hb, kg_popS_cons_tag] at hp1
                  simp only [Prod.mk.injEq, Option.some.injEq] at hp1
                  rw [← hp1.2, kg_popS_cons_tag] at hp2
                  simp only [Prod.mk.injEq, Option.some.injEq] at hp2
                  apply hlr
                  apply cp_inj hG ⟨l0, l1⟩ ⟨r0, r1⟩
                  rw [lv, rv, ← hp1.1, ← hp2.1]
                  exact he
                · exact a8 k e h1 h2 a b hb ha hb' he

theorem kg_genStep_ge6 (ins : List PartyIn) (n t m i : Nat) (st : GenSt) (I : Inbox) :
    genStep G ins n t (m + 6) i st I = genRecStep G st I := rfl

theorem kg_genRecStep_eq (st : GenSt) (I I1 : Inbox) (it : Nat) (rest parties : List Nat) (shares : List Int)
    (zv : Int) (f : List Int) (htodo : st.todo = it :: rest)
    (hcol : genRecCollect G st it st.qual I [st.i] ((zeros st.n).set st.i (getI st.s it)) = .ok (I1, parties, shares))
    (hlen : st.t < parties.length)
    (hlag : lagrange0 G.q (parties.take (st.t + 1)) (getI shares) = some zv)
    (hint : interpolatePolynom G.q ((parties.take (st.t + 1)).map (fun (j : Nat) => ((j : Int) + 1)))
      ((parties.take (st.t + 1)).map (getI shares)) = some f) :
    genRecStep G st I =
      match genRecNext G { st with z := st.z.set it zv, aik := st.aik.set it f, todo := rest } with
      | .ok r => .ok (r.1, I1, r.2.1, r.2.2)
      | .error e => .error e := by
  unfold genRecStep
  rw [htodo]
  simp only [hcol, bind, Except.bind]
  rw [if_neg (by omega)]
  simp only [hlag, hint]
  cases genRecNext G { st with z := st.z.set it zv, aik := st.aik.set it f, todo := rest } with
  | error e => rfl
  | ok r => rfl

/-- the state after the reconstruction of `it` -/
noncomputable def st2Of (G : Grp) (fam : Nat → Polynomial (ZMod G.q.natAbs)) (t : Nat) (st : GenSt) (it : Nat)
    (zv : Int) (rest : List Nat) : GenSt :=
  { st with z := st.z.set it zv, aik := st.aik.set it (clOf G fam t it), todo := rest }

/-- one sub-round of `Reconstruct` for one honest party: the polynomial of the accused party
    `Rc[m]` is reconstructed -/
theorem kg_subround_party {n t : Nat} {ins : List PartyIn} (S : SetupK G n t ins)
    (fam : Nat → Polynomial (ZMod G.q.natAbs)) (Q : List Nat) (Cc Ac : Nat → List Int) (Rc : List Nat)
    (k4 : K4 G n t ins Q Cc (cfgGen G n t ins 4)) (hR : RcP n t ins Q Rc)
    (hbind : ∀ j, j < n → BindsRunG G n t ins (Cc j) (fam j)) (m : Nat) (hm : m < Rc.length)
    (hJ : JL G n t ins fam Q Cc Ac Rc m (cfgGen G n t ins (m + 6))) (i : Nat) (hi : i ∈ honestIdx ins) :
    ∃ P I1 zv, (cfgGen G n t ins (m + 6))[i]? = some P ∧ HL P ∧ I1.b.length = n ∧
      (∀ j, j ∈ honestIdx ins → j ≠ i → bsOf I1 j = []) ∧
      genStep G ins n t (m + 6) i P.st P.inbox =
        (match genRecNext G (st2Of G fam t P.st (Rc.getD m 0) zv (Rc.drop (m + 1))) with
          | .ok r => .ok (r.1, I1, r.2.1, r.2.2)
          | .error e => .error e) ∧
      T6 G n t ins fam Q Cc Ac Rc (m + 1) i (st2Of G fam t P.st (Rc.getD m 0) zv (Rc.drop (m + 1))) := by
  have hG := S.hG
  have hq : 0 < G.q := hG.vg.q_pos
  have : Fact (Nat.Prime G.q.natAbs) := fact_q hG
  obtain ⟨hHl, hHnd, hHlt⟩ := kg_honest_nonempty S
  obtain ⟨P, hP, hl, bl, t6, hstr⟩ := hJ i hi
  have c := t6.core
  have hi1 := hHlt i hi
  set it := Rc.getD m 0 with hit
  have hitR : it ∈ Rc := by rw [hit, List.getD_eq_getElem _ _ hm]; exact List.getElem_mem hm
  have hitQ : it ∈ Q := hR.inQ it hitR
  have hitn : it < n := k4.qlt it hitQ
  have hiR : i ∉ Rc := fun h => hR.notH i h hi
  have hiti : it ≠ i := fun e => hiR (e ▸ hitR)
  have htodo : P.st.todo = it :: Rc.drop (m + 1) := by
    rw [t6.todo, List.drop_eq_getElem_cons hm, hit, List.getD_eq_getElem _ _ hm]
  have hrow : getRow P.st.C it = Cc it := c.C it hitn
  have hocc := occAt_cfg (G := G) n t ins (m + 6)
  -- collecting
  obtain ⟨I1, parties, shares, added, hcol, b1, b2, b3, b4, b5, b6, b7, b8, b9⟩ :=
    kg_genRecCollect_spec hG P.st it (fun jt foo => cq G foo = (fam it).eval (pt G.q jt)) P.st.qual
      (by rw [c.qual]; exact k4.qnd) P.inbox (fun j hj => by rw [bl]; rw [c.qual] at hj; exact k4.qlt j hj)
      [P.st.i] ((zeros P.st.n).set P.st.i (getI P.st.s it))
      (fun j hj => by rw [c.qual] at hj; simp [zeros, c.hn]; exact k4.qlt j hj)
      (by
        intro jt hjt foo bar ⟨tg1, h1⟩ ⟨tg2, h2⟩ hfr hbr he
        rw [c.qual] at hjt
        rw [hrow] at he
        exact (hbind it hitn).2 jt (k4.qlt jt hjt) foo bar
          (hocc i P hP hi foo (Or.inr (Or.inr (Or.inr (Or.inr ⟨jt, Or.inl ⟨tg1, h1⟩⟩)))))
          (hocc i P hP hi bar (Or.inr (Or.inr (Or.inr (Or.inr ⟨jt, Or.inl ⟨tg2, h2⟩⟩))))) hfr hbr he)
  simp only [c.hi, c.hn] at b3 b5 b7 hcol
  rw [c.qual] at b4
  -- the honest parties' shares are all accepted
  have hhon : ∀ j, j ∈ honestIdx ins → j ≠ i → j ∈ added ∧ bsOf I1 j = [] := by
    intro j hj hji
    obtain ⟨Pj, hPj, -, -, tj, -⟩ := hJ j hj
    have hjR : P.st.racc.contains j = false := by
      rw [t6.racc]
      have : j ∉ Rc := fun h => hR.notH j h hj
      simpa using this
    have := b9 j (by rw [c.qual]; exact k4.qh j hj) (by rw [c.hi]; exact hji) hjR _ _
      (by rw [t6.racc]; exact hstr j hj hji Pj hPj)
      (ag_getI_InR G.q hq _ tj.core.sIn it) (ag_getI_InR G.q hq _ tj.core.spIn it)
      (by rw [hrow]; exact tj.core.opn it hitQ)
    exact this
  have hsub : ∀ j ∈ honestIdx ins, j ∈ parties := by
    intro j hj
    rw [b3]
    by_cases hji : j = i
    · simp [hji]
    · exact List.mem_append_right _ (hhon j hj hji).1
  have hlen : t < parties.length := lt_of_lt_of_le hHl (kg_sublist_length hHnd hsub)
  have haddQ : ∀ j ∈ added, j ∈ Q := fun j hj => b4.subset hj
  have hpnd : parties.Nodup := by
    rw [b3]
    refine List.nodup_append.mpr ⟨by simp, b4.nodup k4.qnd, ?_⟩
    intro a ha b hb hab
    simp only [List.mem_singleton] at ha
    exact (b5 b hb).1 (hab ▸ ha)
  have hplt : ∀ j ∈ parties, j < n := by
    intro j hj
    rw [b3] at hj
    rcases List.mem_append.mp hj with h | h
    · simp only [List.mem_singleton] at h; rw [h]; exact hi1
    · exact k4.qlt j (haddQ j h)
  have hps : GoodParties G.q (parties.take (t + 1)) :=
    kg_goodParties_range S.hnq _ (hpnd.sublist (List.take_sublist _ _))
      (fun j hj => hplt j (List.mem_of_mem_take hj))
  have hpslen : (parties.take (t + 1)).length = t + 1 := by
    rw [List.length_take]; omega
  have hB1 := kg_share_on_fam S fam Q Cc hbind k4.qlt _ hocc i hi P hP c.sIn c.spIn c.slen c.splen c.opn
  have hshare : ∀ j ∈ parties.take (t + 1), ((getI shares j : Int) : ZMod G.q.natAbs) = (fam it).eval (pt G.q j) := by
    intro j hj
    have hj' := List.mem_of_mem_take hj
    rw [b3] at hj'
    rcases List.mem_append.mp hj' with h | h
    · simp only [List.mem_singleton] at h
      rw [h, b7, getI_set_self _ _ _ (by simp [zeros, hi1])]
      exact hB1 it hitQ
    · exact (b5 j h).2.2
  have hdeg : (fam it).degree < ((parties.take (t + 1)).length : WithBot Nat) := by
    rw [hpslen]; exact (hbind it hitn).1
  obtain ⟨zv, hzv, -⟩ := lagrange0_val hq _ hps (fam it) hdeg (getI shares) hshare
  obtain ⟨cl, hcl, hcll, hclv⟩ := interpolatePolynom_val hq _ hps
    (by intro h; rw [h] at hpslen; simp at hpslen) (fam it) hdeg (getI shares) hshare
  have hclu : cl = clOf G fam t it := kg_clOf_unique hG fam t it cl (hcll.trans hpslen) hclv
  subst hclu
  refine ⟨P, I1, zv, hP, hl, b1.trans bl, fun j hj hji => (hhon j hj hji).2, ?_, ?_⟩
  · rw [kg_genStep_ge6]
    exact kg_genRecStep_eq P.st P.inbox I1 it _ parties shares zv _ htodo
      (by rw [c.hi, c.hn]; exact hcol) (by rw [c.ht]; exact hlen) (by rw [c.ht]; exact hzv)
      (by rw [c.ht]; exact hcl)
  · refine ⟨⟨c.hn, c.ht, c.hi, c.qual, c.C, c.slen, c.splen, c.sIn, c.spIn, c.gs, c.opn, c.sown, c.ga, c.x⟩,
      t6.Alen, t6.Arow, t6.racc, rfl, by simp [st2Of, t6.aiklen], ?_, t6.vi, t6.yi, ?_⟩
    · intro it' hit'
      simp only [st2Of]
      rw [List.take_add_one, List.getElem?_eq_getElem hm] at hit'
      simp only [Option.toList_some, List.mem_append, List.mem_singleton] at hit'
      rcases hit' with h | h
      · have hne : it' ≠ it := by
          intro e
          have h1 : it' ∈ Rc.take m := h
          have h2 : it ∈ Rc.drop m := by rw [t6.todo.symm.trans htodo]; simp
          have hd := (List.nodup_append.mp (by rw [List.take_append_drop]; exact hR.nd : (Rc.take m ++ Rc.drop m).Nodup)).2.2
          exact hd it' h1 it h2 e
        rw [getRow_set_ne _ _ _ _ hne]
        exact t6.aik it' h
      · have : it' = it := by rw [h, hit, List.getD_eq_getElem _ _ hm]
        rw [this, getRow_set_self _ _ _ (by rw [t6.aiklen]; exact hitn)]
    · simp only [st2Of]
      rw [getI_set_ne _ _ _ _ (Ne.symm hiti)]
      exact t6.zi

/-- one sub-round of `Reconstruct` -/
theorem kg_subround {n t : Nat} {ins : List PartyIn} (S : SetupK G n t ins)
    (fam : Nat → Polynomial (ZMod G.q.natAbs)) (Q : List Nat) (Cc Ac : Nat → List Int) (Rc : List Nat)
    (k4 : K4 G n t ins Q Cc (cfgGen G n t ins 4)) (hR : RcP n t ins Q Rc)
    (hbind : ∀ j, j < n → BindsRunG G n t ins (Cc j) (fam j)) (m : Nat) (hm : m < Rc.length)
    (hJ : JL G n t ins fam Q Cc Ac Rc m (cfgGen G n t ins (m + 6))) :
    (m + 1 < Rc.length → JL G n t ins fam Q Cc Ac Rc (m + 1) (cfgGen G n t ins (m + 1 + 6))) ∧
    (m + 1 = Rc.length → JF G n t ins fam Q Cc Ac Rc (cfgGen G n t ins (m + 1 + 6))) := by
  have hG := S.hG
  obtain ⟨hHl, hHnd, hHlt⟩ := kg_honest_nonempty S
  have hcfg : cfgGen G n t ins (m + 1 + 6) = runRound (genStep G ins n t (m + 6)) (cfgGen G n t ins (m + 6)) := by
    rw [show m + 1 + 6 = m + 6 + 1 by omega, cfgGen_succ]
  constructor
  · intro hlt
    have hdrop : Rc.drop (m + 1) = Rc.getD (m + 1) 0 :: Rc.drop (m + 1 + 1) := by
      rw [List.drop_eq_getElem_cons hlt, List.getD_eq_getElem _ _ hlt]
    have hit2R : Rc.getD (m + 1) 0 ∈ Rc := by
      rw [List.getD_eq_getElem _ _ hlt]; exact List.getElem_mem hlt
    have hparty : ∀ i, i ∈ honestIdx ins → ∃ P I1 zv P', (cfgGen G n t ins (m + 6))[i]? = some P ∧
        (∀ j, j ∈ honestIdx ins → j ≠ i → bsOf I1 j = []) ∧
        (cfgGen G n t ins (m + 1 + 6))[i]? = some P' ∧ HL P' ∧ P'.inbox.b.length = n ∧
        P'.st = st2Of G fam t P.st (Rc.getD m 0) zv (Rc.drop (m + 1)) ∧
        T6 G n t ins fam Q Cc Ac Rc (m + 1) i P'.st ∧
        outOf (genStep G ins n t (m + 6)) (cfgGen G n t ins (m + 6)) i =
          ([(some Rc, getI P'.st.s (Rc.getD (m + 1) 0)), (some Rc, getI P'.st.sp (Rc.getD (m + 1) 0))], []) ∧
        (∀ k, k < n → bsOf P'.inbox k = bsOf I1 k ++
          (if k = i then [] else (outOf (genStep G ins n t (m + 6)) (cfgGen G n t ins (m + 6)) k).1)) := by
      intro i hi
      obtain ⟨P, I1, zv, hP, hl, b1, b2, hs, t6'⟩ := kg_subround_party S fam Q Cc Ac Rc k4 hR hbind m hm hJ i hi
      have c := t6'.core
      have hiQ : i ∈ Q := k4.qh i hi
      rw [kg_genRecNext_cons _ _ _ hdrop
        (by rw [c.qual]; simpa using hR.inQ _ hit2R)
        (by rw [t6'.racc, c.hi]
            have : i ∉ Rc := fun h => hR.notH i h hi
            simpa using this)
        (by rw [c.hi, c.qual]; simpa using hiQ)] at hs
      obtain ⟨hout, P', hP', e1, e2, e3, e4, e5, e6, e7, e8, e9⟩ :=
        ag_honest_round (genStep G ins n t (m + 6)) _ i P hP hl _ _ _ _ hs
      rw [← hcfg] at hP'
      refine ⟨P, I1, zv, P', hP, b2, hP', ⟨by rw [e4]; exact hl.1, e5, e3, e2⟩, e6.trans b1, e1,
        by rw [e1]; exact t6', ?_, fun k hk => e8 k (by rw [b1]; exact hk)⟩
      rw [hout, e1, t6'.racc]
      simp [bcs, pvs]
    intro i hi
    obtain ⟨P, I1, zv, P', hP, b2, hP', hl', bl', st', t6', out', in'⟩ := hparty i hi
    refine ⟨P', hP', hl', bl', t6', ?_⟩
    intro j hj hji Pj hPj
    obtain ⟨Pj0, Ij, zvj, Pj', -, -, hPj', -, -, -, -, outj, -⟩ := hparty j hj
    rw [Option.some.inj (hPj.symm.trans hPj')]
    rw [in' j (hHlt j hj), b2 j hj hji, outj]
    simp [hji]
  · intro heq
    have hdrop : Rc.drop (m + 1) = [] := by rw [heq]; simp
    intro i hi
    obtain ⟨P, I1, zv, hP, hl, b1, b2, hs, t6'⟩ := kg_subround_party S fam Q Cc Ac Rc k4 hR hbind m hm hJ i hi
    have t6'' : T6 G n t ins fam Q Cc Ac Rc Rc.length i
        (st2Of G fam t P.st (Rc.getD m 0) zv (Rc.drop (m + 1))) := by
      rw [← heq]; exact t6'
    obtain ⟨st3, hfin⟩ := kg_genFinish_total hG fam Q Cc Ac Rc i _ t6''
    rw [kg_genRecNext_nil _ (by simp [st2Of, hdrop]), hfin] at hs
    obtain ⟨-, P', hP', e1, e2, -⟩ := ag_honest_round (genStep G ins n t (m + 6)) _ i P hP hl _ _ _ _ hs
    rw [← hcfg] at hP'
    exact ⟨P', hP', e2, _, t6'', by rw [e1]; exact hfin⟩

/-- after `|Rc|` sub-rounds every honest party has finished -/
theorem kg_reach_JF {n t : Nat} {ins : List PartyIn} (S : SetupK G n t ins)
    (fam : Nat → Polynomial (ZMod G.q.natAbs)) (Q : List Nat) (Cc Ac : Nat → List Int) (Rc : List Nat)
    (k4 : K4 G n t ins Q Cc (cfgGen G n t ins 4)) (hR : RcP n t ins Q Rc)
    (hbind : ∀ j, j < n → BindsRunG G n t ins (Cc j) (fam j))
    (hF0 : Rc = [] → JF G n t ins fam Q Cc Ac Rc (cfgGen G n t ins 6))
    (hJ0 : Rc ≠ [] → JL G n t ins fam Q Cc Ac Rc 0 (cfgGen G n t ins 6)) :
    JF G n t ins fam Q Cc Ac Rc (cfgGen G n t ins (Rc.length + 6)) := by
  by_cases hnil : Rc = []
  · have := hF0 hnil
    rw [hnil] at this ⊢
    exact this
  · have hpos : 0 < Rc.length := List.length_pos_iff.mpr hnil
    have hall : ∀ m, m < Rc.length → JL G n t ins fam Q Cc Ac Rc m (cfgGen G n t ins (m + 6)) := by
      intro m
      induction m with
      | zero => intro _; exact hJ0 hnil
      | succ m ih =>
        intro hm
        exact (kg_subround S fam Q Cc Ac Rc k4 hR hbind m (by omega) (ih (by omega))).1 hm
    have := (kg_subround S fam Q Cc Ac Rc k4 hR hbind (Rc.length - 1) (by omega) (hall _ (by omega))).2 (by omega)
    rw [show Rc.length - 1 + 1 + 6 = Rc.length + 6 by omega] at this
    exact this

/-- finished parties stay finished -/
theorem kg_JF_later {n t : Nat} {ins : List PartyIn}
    (fam : Nat → Polynomial (ZMod G.q.natAbs)) (Q : List Nat) (Cc Ac : Nat → List Int) (Rc : List Nat)
    (r k : Nat) (h : JF G n t ins fam Q Cc Ac Rc (cfgGen G n t ins r)) :
    JF G n t ins fam Q Cc Ac Rc (cfgGen G n t ins (r + k)) := by
  intro i hi
  obtain ⟨P, hP, hst, st, t6, hfin⟩ := h i hi
  rw [cfgGen_add]
  obtain ⟨P', hP', e1, e2⟩ := ra_notlive_rounds (genStep G ins n t) (List.range' r k) _ i P hP
    (by simp [Party.live, hst])
  exact ⟨P', hP', e2.trans hst, st, t6, by rw [e1]; exact hfin⟩

/-- every honest party finishes `Generate` with `true`, in a state `genFinish` computed from a state
    with all the invariants of the reconstruction phase -/
theorem kg_final {n t : Nat} {ins : List PartyIn} (S : SetupK G n t ins)
    (fam : Nat → Polynomial (ZMod G.q.natAbs)) (hB : BindingHypG G n t ins fam) :
    ∃ Q Cc Ac Rc, K4 G n t ins Q Cc (cfgGen G n t ins 4) ∧ RcP n t ins Q Rc ∧
      (∀ j, j < n → BindsRunG G n t ins (Cc j) (fam j)) ∧
      (∀ j, j ∈ honestIdx ins → fam j = polyOf ((coefA t (pinOf ins j)).map (cq G))) ∧
      K5 G n t ins Q Cc Ac (cfgGen G n t ins 5) ∧
      (∀ m, m ∈ honestIdx ins → ∀ P5, (cfgGen G n t ins 5)[m]? = some P5 → ∀ j ∈ P5.st.compl, j ∈ Rc) ∧
      JF G n t ins fam Q Cc Ac Rc (runGen G n t ins) := by
  obtain ⟨Q, Cc, k4⟩ := kg_round3 S
  obtain ⟨hbind, hfamH⟩ := kg_bind S fam hB Q Cc k4
  obtain ⟨Ac, k5⟩ := kg_round4 S fam Q Cc k4 hbind hfamH
  obtain ⟨Rc, hR, hcR, hF0, hJ0⟩ := kg_round5 S fam Q Cc Ac k4 k5 hbind hfamH
  refine ⟨Q, Cc, Ac, Rc, k4, hR, hbind, hfamH, k5, hcR, ?_⟩
  have h1 := kg_reach_JF S fam Q Cc Ac Rc k4 hR hbind hF0 hJ0
  have h2 := kg_JF_later fam Q Cc Ac Rc (Rc.length + 6) (t + 1 - Rc.length) h1
  have hlen := hR.len
  rw [show Rc.length + 6 + (t + 1 - Rc.length) = 6 + t + 1 by omega] at h2
  rw [cfgGen_final]
  exact h2

end Tmcg.DkgP
