import Tmcg.Model.StackEq
import TmcgProofs.Stack
import TmcgProofs.Codec
import TmcgProofs.Group
import TmcgProofs.SigmaComplete
import TmcgProofs.SigmaSound
import TmcgProofs.VtmfOpen
import Mathlib.Logic.Equiv.List
/-
  C03 / C04 for the cut-and-choose proof of stack equality (shuffle and rotation) of
  Tmcg/Model/StackEq.lean, discrete-log encoding.

  Main statements (all proved):
  * `mix_glue`                 mix(mix(s, a), b) = mix(s, glue a b), exactly, as canonical residues
  * `stackeq_round_extract`    both challenge bits answerable for one commitment ⇒ explicit
                               collision of `H` or a witness (special soundness of one round)
  * `stackeq_two_challenges`, `stackeq_soundness_bound`, `stackeq_soundness_prob`
                               at most one of the `2^κ` challenge vectors is accepted (`≤ 2^-κ`)
  * `stackeq_complete`         the honest transcript is accepted (shuffle and rotation)
  * non-vacuity examples on `p = 23, q = 11, g = 2`, and the counterexample for the original
    verifier rule without the range test of the exponents (finding F26).

  Where the model forces a deviation from the informal statements, the docstring of the theorem
  says so: bijectivity of the responses comes from the importer (not from `verifyRound`), the
  importer bounds the stack size by `1 … TMCG_MAX_CARDS`, a missing response reads as the empty
  text (refused), the membership test is the Schnorr-group one in the completeness theorem.
-/
namespace Tmcg.CutChoose
open Tmcg Tmcg.Powm Tmcg.Vtmf Tmcg.Grp Tmcg.Sigma Tmcg.Stack Tmcg.StackEq Tmcg.SigmaComplete

variable {G : Group}

set_option linter.unusedSectionVars false

/-! ### exponents that fit the fixed-base tables -/

/-- the exponent has at most as many bits as `q`: exactly the exponents for which the fixed-base
    tables (built with `|q|` entries) are complete.  Every `|r| < q` fits. -/
def Fits (G : Group) (r : Int) : Prop := bitlen r ≤ bitlen G.q

theorem bitlen_pos (x : Int) : 1 ≤ bitlen x := by
  unfold bitlen
  simp only
  split <;> omega

theorem tableSize_eq (hG : ValidGroup G) : tableSize (tableLen G) = bitlen G.q := by
  have h1 := hG.q_fits
  have h2 := bitlen_pos G.q
  unfold tableSize tableLen
  omega

theorem fits_of_lt (hG : ValidGroup G) {r : Int} (h : r.natAbs < G.q.natAbs) : Fits G r := by
  have := bitlen_le_tableSize hG r h
  rwa [tableSize_eq hG] at this

theorem fits_of_range (hG : ValidGroup G) {r : Int} (h : 0 ≤ r ∧ r < G.q) : Fits G r :=
  fits_of_lt hG (by have := hG.q_pos; omega)

/-! ### the commitment text determines the stack -/

theorem cardsChars_injective : ∀ a b : List Card, Codec.cardsChars a = Codec.cardsChars b → a = b := by
  intro a
  induction a with
  | nil =>
    intro b h
    cases b with
    | nil => rfl
    | cons c cs => simp [Codec.cardsChars] at h
  | cons c cs ih =>
    intro b h
    cases b with
    | nil => simp [Codec.cardsChars] at h
    | cons c' cs' =>
      simp only [Codec.cardsChars] at h
      obtain ⟨h1, h2⟩ := SigmaSound.append_sep_inj '^' _ _ _ _ (Codec.hat_notMem_cardText c)
        (Codec.hat_notMem_cardText c') h
      have h3 := Codec.importCard_cardText c
      rw [h1, Codec.importCard_cardText c'] at h3
      injection h3 with h3
      rw [h3, ih _ h2]

/-- the hashed text (`ost << s4 << std::endl`) determines the stack -/
theorem stackText_nl_injective (a b : List Card)
    (h : Codec.stackText a ++ "\n" = Codec.stackText b ++ "\n") : a = b := by
  have h1 := congrArg String.toList h
  rw [String.toList_append, String.toList_append, Codec.stackText_toList, Codec.stackText_toList] at h1
  have h2 := List.append_cancel_right h1
  have h3 := List.append_cancel_left h2
  have h4 : (toString a.length).toList ++ '^' :: Codec.cardsChars a =
      (toString b.length).toList ++ '^' :: Codec.cardsChars b := by
    injection h3
  exact cardsChars_injective a b (SigmaSound.append_sep_inj '^' _ _ _ _
    (Codec.hat_notMem_toString _) (Codec.hat_notMem_toString _) h4).2

section field
variable [Fact (Nat.Prime G.p.natAbs)]

theorem fpowm_fits (hG : ValidGroup G) (T : Table) (b e : Int) (hT : IsTable G T b)
    (hb : toF G b ≠ 0) (he : Fits G e) :
    ∃ r, fpowm T b e G.p = .ok r ∧ 0 ≤ r ∧ r < G.p ∧ toF G r = toF G b ^ e := by
  rw [fpowm_spec b G.p (tableLen G) (one_lt_p hG) T hT e (by rw [tableSize_eq hG]; exact he)]
  by_cases h0 : 0 ≤ e
  · rw [if_pos h0]
    refine ⟨_, rfl, (emod_bounds hG _).1, (emod_bounds hG _).2, ?_⟩
    rw [toF_emod hG, toF_pow, pow_natAbs_of_nonneg _ h0]
  · rw [if_neg h0]
    have hne : toF G (b ^ e.natAbs % G.p) ≠ 0 := by
      rw [toF_emod hG, toF_pow]; exact pow_ne_zero _ hb
    obtain ⟨r, hr, hr0, hr1, hv⟩ := invm_val hG _ hne
    refine ⟨r, by rw [hr], hr0, hr1, ?_⟩
    rw [hv, toF_emod hG, toF_pow, inv_pow_natAbs_of_neg _ (not_le.mp h0)]

theorem fspowm_fits (hG : ValidGroup G) (T : Table) (b e : Int) (hT : IsTable G T b)
    (hb : toF G b ≠ 0) (he : Fits G e) :
    ∃ r, fspowm T b e G.p = .ok r ∧ 0 ≤ r ∧ r < G.p ∧ toF G r = toF G b ^ e := by
  rw [fspowm_spec b G.p (tableLen G) (one_lt_p hG) T hT e (by rw [tableSize_eq hG]; exact he)]
  have hne : toF G (b ^ e.natAbs % G.p) ≠ 0 := by
    rw [toF_emod hG, toF_pow]; exact pow_ne_zero _ hb
  obtain ⟨r, hr, hr0, hr1, hv⟩ := invm_val hG _ hne
  simp only [hr]
  by_cases h0 : 0 ≤ e
  · simp only [h0, if_true]
    refine ⟨_, rfl, (emod_bounds hG _).1, (emod_bounds hG _).2, ?_⟩
    rw [toF_emod hG, toF_pow, pow_natAbs_of_nonneg _ h0]
  · simp only [h0, if_false]
    refine ⟨r, rfl, hr0, hr1, ?_⟩
    rw [hv, toF_emod hG, toF_pow, inv_pow_natAbs_of_neg _ (not_le.mp h0)]

/-! ### canonical residues and the re-masking function -/

/-- the canonical residue of a field element -/
def rep (x : F G) : Int := ((ZMod.val x : Nat) : Int)

theorem toF_rep (x : F G) : toF G (rep x) = x := by
  unfold toF rep
  rw [Int.cast_natCast, ZMod.natCast_zmod_val]

theorem rep_range (hG : ValidGroup G) (x : F G) : 0 ≤ rep x ∧ rep x < G.p := by
  unfold rep
  refine ⟨Int.natCast_nonneg _, ?_⟩
  have h1 := ZMod.val_lt x
  have h2 := natAbs_p hG
  omega

theorem rep_toF (hG : ValidGroup G) {a : Int} (h : 0 ≤ a ∧ a < G.p) : rep (toF G a) = a :=
  eq_of_toF_eq hG (rep_range hG _) h (toF_rep _)

/-- a card in canonical form -/
def Reduced (G : Group) (c : Card) : Prop := (0 ≤ c.c1 ∧ c.c1 < G.p) ∧ (0 ≤ c.c2 ∧ c.c2 < G.p)

/-- equality of cards as pairs of field elements -/
def CardEq (G : Group) (c c' : Card) : Prop := toF G c.c1 = toF G c'.c1 ∧ toF G c.c2 = toF G c'.c2

theorem CardEq.eq_of_reduced (hG : ValidGroup G) {c c' : Card} (h : CardEq G c c')
    (hc : Reduced G c) (hc' : Reduced G c') : c = c' := by
  cases c; cases c'
  simp only [Card.mk.injEq]
  exact ⟨eq_of_toF_eq hG hc.1 hc'.1 h.1, eq_of_toF_eq hG hc.2 hc'.2 h.2⟩

/-- what `VerifiableRemaskingProtocol_Remask` computes for an exponent that fits the tables:
    `(g^r c_1, h^r c_2)` as canonical residues -/
def remaskP (G : Group) [Fact (Nat.Prime G.p.natAbs)] (h : Int) (c : Card) (r : Int) : Card :=
  ⟨rep (toF G G.g ^ r * toF G c.c1), rep (toF G h ^ r * toF G c.c2)⟩

theorem remaskP_reduced (hG : ValidGroup G) (h : Int) (c : Card) (r : Int) :
    Reduced G (remaskP G h c r) := ⟨rep_range hG _, rep_range hG _⟩

/-- re-masking never fails on an exponent that fits, and its result does not depend on the
    timing-attack protection flag -/
theorem remask_eq (hG : ValidGroup G) {S : State} (hS : StateOk G S) (c : Card) (r : Int)
    (hr : Fits G r) (tap : Bool) : remask S c r tap = .ok (remaskP G S.h c r) := by
  have hh0 : toF G S.h ≠ 0 := hS.mem_h.ne_zero hG
  have hgrp := hS.grp
  have key : ∀ a b : Int, toF G a = toF G G.g ^ r → toF G b = toF G S.h ^ r →
      (⟨a * c.c1 % G.p, b * c.c2 % G.p⟩ : Card) = remaskP G S.h c r := by
    intro a b ha hb
    unfold remaskP
    congr 1
    · exact eq_of_toF_eq hG (emod_bounds hG _) (rep_range hG _)
        (by rw [toF_emod hG, toF_mul, ha, toF_rep])
    · exact eq_of_toF_eq hG (emod_bounds hG _) (rep_range hG _)
        (by rw [toF_emod hG, toF_mul, hb, toF_rep])
  cases tap with
  | true =>
    obtain ⟨a, ha, _, _, hav⟩ := fspowm_fits hG S.tabG G.g r hS.tabG (g_ne_zero hG) hr
    obtain ⟨b, hb, _, _, hbv⟩ := fspowm_fits hG S.tabH S.h r hS.tabH hh0 hr
    unfold remask
    simp only [if_true, hgrp, ha, hb, bind, Except.bind]
    rw [key a b hav hbv]
  | false =>
    obtain ⟨a, ha, _, _, hav⟩ := fpowm_fits hG S.tabG G.g r hS.tabG (g_ne_zero hG) hr
    obtain ⟨b, hb, _, _, hbv⟩ := fpowm_fits hG S.tabH S.h r hS.tabH hh0 hr
    unfold remask
    simp only [Bool.false_eq_true, if_false, hgrp, ha, hb, bind, Except.bind]
    rw [key a b hav hbv]

/-! ### mixing as a total function on exponents that fit -/

/-- the total masking function used to apply the generic lemmas of `TmcgProofs/Stack.lean` -/
def maskT (G : Group) [Fact (Nat.Prime G.p.natAbs)] (h : Int) (c : Card) (r : Int) :
    Except Err Card := .ok (remaskP G h c r)

/-- all exponents of a stack secret fit the tables -/
def FitsAll (G : Group) (ss : StackSecret Int) : Prop := ∀ e ∈ ss, Fits G e.2

/-- all exponents of a stack secret are canonical (`0 ≤ r < q`) -/
def ExpRange (G : Group) (ss : StackSecret Int) : Prop := ∀ e ∈ ss, 0 ≤ e.2 ∧ e.2 < G.q

theorem ExpRange.fits (hG : ValidGroup G) {ss : StackSecret Int} (h : ExpRange G ss) :
    FitsAll G ss := fun e he => fits_of_range hG (h e he)

/-- the index component is a bijection of the positions `0 … n-1` -/
def IsPerm (n : Nat) (ss : StackSecret Int) : Prop := (ss.map Prod.fst).Perm (List.range n)

instance (n : Nat) (ss : StackSecret Int) : Decidable (IsPerm n ss) := by
  unfold IsPerm; infer_instance

theorem mix_eq_total (hG : ValidGroup G) {S : State} (hS : StateOk G S) (tap : Bool)
    (s : List Card) (ss : StackSecret Int) (hf : FitsAll G ss) :
    vtmfMix S tap s ss = mixStack (maskT G S.h) s ss := by
  unfold vtmfMix mixStack
  split
  · rfl
  · apply mapM_congr'
    intro i _
    cases h1 : ss[i]? with
    | none => rfl
    | some e =>
      obtain ⟨j, x⟩ := e
      simp only
      cases h2 : s[j]? with
      | none => rfl
      | some c =>
        cases h3 : ss[j]? with
        | none => rfl
        | some e' =>
          obtain ⟨k, sec⟩ := e'
          simp only
          have hm : (k, sec) ∈ ss := List.mem_of_getElem? h3
          exact remask_eq hG hS c sec (hf _ hm) tap

theorem remaskP_law (hG : ValidGroup G) {h : Int} (hh : toF G h ^ G.q.natAbs = 1) (c : Card)
    (a b : Int) : remaskP G h (remaskP G h c a) b = remaskP G h c ((a + b) % G.q) := by
  have hg0 := g_ne_zero hG
  have hh0 : toF G h ≠ 0 := ne_zero_of_pow_eq_one (q_natAbs_ne_zero hG) hh
  unfold remaskP
  simp only [toF_rep]
  rw [zpow_mod_q hG _ (g_pow_q hG) hg0, zpow_mod_q hG _ hh hh0, zpow_add₀ hg0, zpow_add₀ hh0]
  congr 2 <;> ring

theorem glue_range (hG : ValidGroup G) (a b g : StackSecret Int)
    (hl : a.length = b.length) (hpa : IsPerm a.length a) (hb : ∀ e ∈ b, e.1 < a.length)
    (hg : vtmfGlue G.q a b = .ok g) : ExpRange G g := by
  obtain ⟨g', hg', hlen, hspec⟩ := glue_ok (fun x y => (x + y) % G.q) a b hl hpa hb
  unfold vtmfGlue at hg
  rw [hg] at hg'
  injection hg' with hg'
  subst hg'
  intro e he
  obtain ⟨i, hi, rfl⟩ := List.getElem_of_mem he
  have hia : i < a.length := hlen ▸ hi
  have hf := (findPosition_spec a hpa i hia).1
  rw [hspec i hi hia (hl ▸ hia) (hl ▸ hf) (hb _ (List.getElem_mem (hl ▸ hia)))]
  exact ⟨Int.emod_nonneg _ (ne_of_gt hG.q_pos), Int.emod_lt_of_pos _ hG.q_pos⟩

/-- **mix ∘ mix = mix ∘ glue** for the discrete-log encoding.  Mixing `s` with `a` and the result
    with `b` yields *exactly* (as lists of canonical residues — `vtmfMix` reduces every
    component modulo `p`) the stack obtained by mixing `s` with `vtmfGlue q a b`, whatever the
    timing-protection flags.  Needed: equal sizes, `a` a bijection, the indices of `b` in range,
    all exponents fitting the tables (in particular every `|r| < q`), a well-formed state.
    The cards themselves may be arbitrary integers (membership in the group is not needed). -/
theorem mix_glue (hG : ValidGroup G) {St : State} (hS : StateOk G St) (s : List Card)
    (a b : StackSecret Int) (t1 t2 t3 : Bool)
    (hla : a.length = s.length) (hlb : b.length = s.length)
    (hpa : IsPerm s.length a) (hib : ∀ e ∈ b, e.1 < s.length)
    (hfa : FitsAll G a) (hfb : FitsAll G b) :
    ∃ g s1 s3, vtmfGlue G.q a b = .ok g ∧ vtmfMix St t1 s a = .ok s1 ∧
      vtmfMix St t2 s1 b = .ok s3 ∧ vtmfMix St t3 s g = .ok s3 ∧
      g.length = s.length ∧ s1.length = s.length ∧ s3.length = s.length ∧
      g.map Prod.fst = b.map (fun e => (a.map Prod.fst).getD e.1 0) ∧ ExpRange G g := by
  obtain ⟨g, s1, hg, hs1, heq, hfst⟩ := Stack.mix_glue (maskT G St.h) (remaskP G St.h)
    (fun x y => (x + y) % G.q) (fun _ _ => rfl) (remaskP_law hG hS.h_mem) s a b hla hlb hpa hib
  have hs1len : s1.length = s.length := (mixStack_spec _ _ _ _ hs1).1
  obtain ⟨s3, hs3, hs3len, -⟩ := mixStack_ok (maskT G St.h) (remaskP G St.h) (fun _ _ => rfl)
    s1 b (hlb.trans hs1len.symm) (fun e he => hs1len ▸ hib e he)
  have hgr : ExpRange G g := glue_range hG a b g (hla.trans hlb.symm) (hla ▸ hpa)
    (fun e he => hla ▸ hib e he) hg
  have hglen : g.length = s.length := by
    have := congrArg List.length hfst
    simpa [hlb] using this
  refine ⟨g, s1, s3, hg, ?_, ?_, ?_, hglen, hs1len, hs3len.trans hs1len, hfst, hgr⟩
  · rw [mix_eq_total hG hS t1 s a hfa, hs1]
  · rw [mix_eq_total hG hS t2 s1 b hfb, hs3]
  · rw [mix_eq_total hG hS t3 s g (hgr.fits hG), heq, hs3]

/-! ### the total mix in functional form -/

theorem mixT_spec {h : Int} {s : List Card} {ss : StackSecret Int} {s' : List Card}
    (hm : mixStack (maskT G h) s ss = .ok s') :
    s'.length = s.length ∧ ss.length = s.length ∧ ∀ i, i < s.length →
      (ss.getD i (0, 0)).1 < s.length ∧
      s'.getD i ⟨0, 0⟩ = remaskP G h (s.getD (ss.getD i (0, 0)).1 ⟨0, 0⟩)
        (ss.getD (ss.getD i (0, 0)).1 (0, 0)).2 := by
  obtain ⟨h1, h2, h3⟩ := mixStack_spec _ _ _ _ hm
  refine ⟨h1, h2, fun i hi => ?_⟩
  obtain ⟨j, sec, c, k, sec', e1, e2, e3, e4⟩ := h3 i (h1 ▸ hi)
  have hj : j < s.length := by
    by_contra hcon
    rw [List.getElem?_eq_none (by omega)] at e2
    cases e2
  unfold maskT at e4
  injection e4 with e4
  simp only [List.getD_eq_getElem?_getD, e1, e2, e3, Option.getD_some]
  refine ⟨hj, ?_⟩
  rw [List.getElem?_eq_getElem (h1 ▸ hi), Option.getD_some, e4]

theorem mixT_ok (h : Int) (s : List Card) (ss : StackSecret Int) (hl : ss.length = s.length)
    (hr : ∀ e ∈ ss, e.1 < s.length) : ∃ s', mixStack (maskT G h) s ss = .ok s' := by
  obtain ⟨s', h1, -⟩ := mixStack_ok (maskT G h) (remaskP G h) (fun _ _ => rfl) s ss hl hr
  exact ⟨s', h1⟩

theorem forall₂_of_getD {α β : Type} (R : α → β → Prop) (l : List α) (l' : List β) (a : α) (b : β)
    (hl : l.length = l'.length) (h : ∀ i, i < l.length → R (l.getD i a) (l'.getD i b)) :
    List.Forall₂ R l l' := by
  rw [List.forall₂_iff_get]
  refine ⟨hl, fun i h1 h2 => ?_⟩
  have := h i h1
  rwa [List.getD_eq_getElem _ _ h1, List.getD_eq_getElem _ _ h2] at this

theorem eq_of_forall₂_eq {α : Type} {l l' : List α} (h : List.Forall₂ (fun a b => a = b) l l') :
    l = l' := by
  induction h with
  | nil => rfl
  | cons h1 _ ih => rw [h1, ih]

theorem eq_of_forall₂_of {α : Type} {R : α → α → Prop} {P Q : α → Prop} {l l' : List α}
    (h : List.Forall₂ R l l') (hP : ∀ a ∈ l, P a) (hQ : ∀ a ∈ l', Q a)
    (hR : ∀ a b, R a b → P a → Q b → a = b) : l = l' := by
  induction h with
  | nil => rfl
  | cons h1 _ ih =>
    rw [hR _ _ h1 (hP _ (by simp)) (hQ _ (by simp)),
      ih (fun a ha => hP a (by simp [ha])) (fun a ha => hQ a (by simp [ha]))]

/-! ### `find_position` inverts a bijective index component -/

omit [Fact (Nat.Prime G.p.natAbs)] in
theorem IsPerm.lt {n : Nat} {B : StackSecret Int} (hp : IsPerm n B) : ∀ e ∈ B, e.1 < n :=
  fun _ he => List.mem_range.1 (hp.mem_iff.1 (List.mem_map_of_mem he))

omit [Fact (Nat.Prime G.p.natAbs)] in
theorem IsPerm.length_eq {n : Nat} {B : StackSecret Int} (hp : IsPerm n B) : B.length = n := by
  have := List.Perm.length_eq hp
  simpa using this

theorem findPosition_getD (B : StackSecret Int) (hp : IsPerm B.length B) (k : Nat)
    (hk : k < B.length) :
    findPosition B k < B.length ∧ (B.getD (findPosition B k) (0, 0)).1 = k := by
  obtain ⟨h1, h2⟩ := findPosition_spec B hp k hk
  refine ⟨h1, ?_⟩
  rw [List.getElem?_map, List.getElem?_eq_getElem h1] at h2
  rw [List.getD_eq_getElem _ _ h1]
  simpa using h2

theorem findPosition_of_getD (B : StackSecret Int) (hp : IsPerm B.length B) (j : Nat)
    (hj : j < B.length) : findPosition B (B.getD j (0, 0)).1 = j := by
  have hnd : (B.map Prod.fst).Nodup := hp.nodup_iff.2 List.nodup_range
  have := hnd.idxOf_getElem j (by simpa using hj)
  rw [List.getD_eq_getElem _ _ hj]
  simpa [findPosition] using this

/-! ### the inverse of a stack secret -/

/-- the secret undoing `B`: position `i` carries the index `find_position_B(i)` and the exponent
    `-r_{B[i].first}` (reduced) -/
def invSecret (q : Int) (B : StackSecret Int) : StackSecret Int :=
  (List.range B.length).map fun i =>
    (findPosition B i, (-(B.getD (B.getD i (0, 0)).1 (0, 0)).2) % q)

theorem invSecret_length (q : Int) (B : StackSecret Int) : (invSecret q B).length = B.length := by
  simp [invSecret]

theorem invSecret_getD (q : Int) (B : StackSecret Int) (i : Nat) (hi : i < B.length) :
    (invSecret q B).getD i (0, 0) =
      (findPosition B i, (-(B.getD (B.getD i (0, 0)).1 (0, 0)).2) % q) := by
  rw [List.getD_eq_getElem _ _ (by rw [invSecret_length]; exact hi)]
  simp [invSecret]

theorem invSecret_fst (q : Int) (B : StackSecret Int) :
    (invSecret q B).map Prod.fst = (List.range B.length).map (findPosition B) := by
  simp [invSecret, List.map_map, Function.comp_def]

theorem invSecret_perm (q : Int) (B : StackSecret Int) (hp : IsPerm B.length B) :
    IsPerm B.length (invSecret q B) := by
  unfold IsPerm
  rw [invSecret_fst]
  have := perm_range_of_surj ((List.range B.length).map (findPosition B)) (by
    intro j hj
    simp only [List.length_map, List.length_range] at hj
    rw [List.mem_map]
    exact ⟨(B.getD j (0, 0)).1, List.mem_range.2 (hp.lt _ (by
      rw [List.getD_eq_getElem _ _ hj]; exact List.getElem_mem hj)),
      findPosition_of_getD B hp j hj⟩)
  simpa using this

theorem invSecret_range (hG : ValidGroup G) (B : StackSecret Int) : ExpRange G (invSecret G.q B) := by
  intro e he
  unfold invSecret at he
  rw [List.mem_map] at he
  obtain ⟨i, -, rfl⟩ := he
  exact ⟨Int.emod_nonneg _ (ne_of_gt hG.q_pos), Int.emod_lt_of_pos _ hG.q_pos⟩

theorem remaskP_inv (hG : ValidGroup G) {h : Int} (hh : toF G h ^ G.q.natAbs = 1) (c : Card)
    (a : Int) : CardEq G (remaskP G h (remaskP G h c a) (-a % G.q)) c := by
  rw [remaskP_law hG hh]
  have : (a + -a % G.q) % G.q = 0 := by
    rw [Int.add_emod_emod]; simp
  rw [this]
  unfold remaskP CardEq
  simp [toF_rep]

/-- mixing with `B` and then with its inverse gives back the stack (as group elements; exactly,
    when the stack was in canonical form) -/
theorem mix_inv (hG : ValidGroup G) {h : Int} (hh : toF G h ^ G.q.natAbs = 1)
    (s2 s4 s3 : List Card) (B : StackSecret Int) (hp : IsPerm B.length B)
    (hm1 : mixStack (maskT G h) s2 B = .ok s4)
    (hm2 : mixStack (maskT G h) s4 (invSecret G.q B) = .ok s3) :
    List.Forall₂ (CardEq G) s3 s2 ∧ ∀ c ∈ s3, Reduced G c := by
  obtain ⟨l1, l2, sp1⟩ := mixT_spec hm1
  obtain ⟨l3, l4, sp2⟩ := mixT_spec hm2
  have key : ∀ k, k < s2.length → s3.getD k ⟨0, 0⟩ =
      remaskP G h (remaskP G h (s2.getD k ⟨0, 0⟩) (B.getD k (0, 0)).2)
        (-(B.getD k (0, 0)).2 % G.q) := by
    intro k hk
    have hkB : k < B.length := l2 ▸ hk
    obtain ⟨f1, f2⟩ := findPosition_getD B hp k hkB
    have e1 := (sp2 k (l1 ▸ hk)).2
    rw [invSecret_getD _ _ _ hkB] at e1
    simp only at e1
    rw [invSecret_getD _ _ _ f1, f2] at e1
    have e2 := (sp1 (findPosition B k) (l2 ▸ f1)).2
    rw [f2] at e2
    rw [e1, e2]
  constructor
  · apply forall₂_of_getD (CardEq G) s3 s2 ⟨0, 0⟩ ⟨0, 0⟩ (l3.trans l1)
    intro k hk
    rw [key k (by rw [← l1, ← l3]; exact hk)]
    exact remaskP_inv hG hh _ _
  · intro c hc
    obtain ⟨k, hk, rfl⟩ := List.getElem_of_mem hc
    have := key k (by rw [← l1, ← l3]; exact hk)
    rw [List.getD_eq_getElem _ _ hk] at this
    rw [this]
    exact remaskP_reduced hG _ _ _

/-! ### cyclic shifts -/

theorem isCyclic_iff (idx : List Nat) : isCyclic idx = true ↔
    ∀ j, j < idx.length → idx.getD j 0 = (idx.getD 0 0 + j) % idx.length := by
  cases idx with
  | nil => simp [isCyclic]
  | cons c0 rest =>
    simp only [isCyclic, List.all_eq_true, List.mem_range, beq_iff_eq]
    simp

/-- the composition of a cyclic shift with the inverse of a cyclic shift is a cyclic shift -/
theorem cyclic_comp_inv (q : Int) (A B : StackSecret Int) (hl : A.length = B.length)
    (hpB : IsPerm B.length B)
    (hcA : isCyclic (A.map Prod.fst) = true) (hcB : isCyclic (B.map Prod.fst) = true) :
    isCyclic ((invSecret q B).map (fun e => (A.map Prod.fst).getD e.1 0)) = true := by
  rw [isCyclic_iff] at hcA hcB ⊢
  simp only [List.length_map] at hcA hcB ⊢
  rw [invSecret_length]
  have hL : ∀ k, k < B.length →
      ((invSecret q B).map (fun e => (A.map Prod.fst).getD e.1 0)).getD k 0 =
        (A.map Prod.fst).getD (findPosition B k) 0 := by
    intro k hk
    rw [List.getD_eq_getElem _ _ (by simpa [invSecret_length] using hk)]
    simp [invSecret]
  have hB : ∀ k, k < B.length → ((B.map Prod.fst).getD 0 0 + findPosition B k) % B.length = k := by
    intro k hk
    obtain ⟨f1, f2⟩ := findPosition_getD B hpB k hk
    rw [← hcB _ f1]
    rw [List.getD_eq_getElem _ _ (by simpa using f1)]
    rw [List.getD_eq_getElem _ _ f1] at f2
    simpa using f2
  intro k hk
  have h0 : 0 < B.length := by omega
  have fk := (findPosition_getD B hpB k hk).1
  have f0 := (findPosition_getD B hpB 0 h0).1
  have ak := hcA (findPosition B k) (by rw [hl]; exact fk)
  have a0' := hcA (findPosition B 0) (by rw [hl]; exact f0)
  rw [hL k hk, hL 0 h0, ak, a0', hl]
  clear ak a0' hL
  generalize (A.map Prod.fst).getD 0 0 = a0
  have h1 := hB k hk
  have h2 := hB 0 h0
  generalize (B.map Prod.fst).getD 0 0 = b0 at h1 h2
  generalize findPosition B k = pk at h1 ⊢
  generalize findPosition B 0 = p0 at h2 ⊢
  generalize B.length = n at *
  show (a0 + pk) ≡ ((a0 + p0) % n + k) [MOD n]
  have g1 : b0 + pk ≡ k [MOD n] := by
    show (b0 + pk) % n = k % n
    rw [h1, Nat.mod_eq_of_lt hk]
  have g2 : b0 + p0 ≡ 0 [MOD n] := by
    show (b0 + p0) % n = 0 % n
    rw [h2, Nat.zero_mod]
  have g3 : (a0 + p0) % n + k ≡ a0 + p0 + k [MOD n] := (Nat.mod_modEq _ _).add_right k
  refine Nat.ModEq.trans ?_ g3.symm
  apply Nat.ModEq.add_left_cancel' b0
  have e1 : b0 + (a0 + pk) = a0 + (b0 + pk) := by omega
  have e2 : b0 + (a0 + p0 + k) = a0 + ((b0 + p0) + k) := by omega
  rw [e1, e2]
  exact (g1.add_left a0).trans (by simpa using ((g2.add_right k).add_left a0).symm)

/-! ### one verifier round -/

omit [Fact (Nat.Prime G.p.natAbs)] in
theorem verifyRound_ok_iff (H : Hash) (St : State) (s s2 : List Card) (cyclic : Bool) (commit : Int)
    (b : Bool) (ss : StackSecret Int) :
    verifyRound H St s s2 cyclic commit b ss = .ok true ↔
      ss.length = s.length ∧ (∀ e ∈ ss, e.2.natAbs < St.G.q.natAbs) ∧
      ∃ s4, vtmfMix St false (if b then s2 else s) ss = .ok s4 ∧
        commitment H s4 = commit ∧ (cyclic = true → isCyclic (ss.map Prod.fst) = true) := by
  have hne : (Except.ok false : Except Err Bool) ≠ .ok true := by
    intro h; injection h with h; cases h
  by_cases hl : ss.length = s.length
  swap
  · have hv : verifyRound H St s s2 cyclic commit b ss = .ok false := by
      unfold verifyRound; simp [hl, pure, Except.pure]
    rw [hv]
    exact ⟨fun h => absurd h hne, fun h => absurd h.1 hl⟩
  by_cases hr : (ss.any fun e => decide (e.2.natAbs ≥ St.G.q.natAbs)) = true
  · have hv : verifyRound H St s s2 cyclic commit b ss = .ok false := by
      unfold verifyRound; simp [hl, hr, pure, Except.pure]
    rw [hv]
    refine ⟨fun h => absurd h hne, fun h => ?_⟩
    exfalso
    rw [List.any_eq_true] at hr
    obtain ⟨e, he, h1⟩ := hr
    have := h.2.1 e he
    simp only [ge_iff_le, decide_eq_true_eq] at h1
    omega
  have hr' : ∀ e ∈ ss, e.2.natAbs < St.G.q.natAbs := by
    intro e he
    by_contra hcon
    exact hr (List.any_eq_true.2 ⟨e, he, by simpa using hcon⟩)
  cases hm : vtmfMix St false (if b = true then s2 else s) ss with
  | error e =>
    have hv : verifyRound H St s s2 cyclic commit b ss = .error e := by
      unfold verifyRound; simp [hl, hr, hm, bind, Except.bind]
    rw [hv]
    refine ⟨fun h => (by cases h), fun h => ?_⟩
    obtain ⟨-, -, s4, h1, -⟩ := h
    cases h1
  | ok s4 =>
    by_cases hc : commitment H s4 = commit
    swap
    · have hv : verifyRound H St s s2 cyclic commit b ss = .ok false := by
        unfold verifyRound; simp [hl, hr, hm, bind, Except.bind, hc, pure, Except.pure]
      rw [hv]
      refine ⟨fun h => absurd h hne, fun h => ?_⟩
      obtain ⟨-, -, s4', h1, h2, -⟩ := h
      injection h1 with h1
      exact absurd (h1 ▸ h2) hc
    by_cases hy : cyclic = true ∧ (!isCyclic (ss.map Prod.fst)) = true
    · have hv : verifyRound H St s s2 cyclic commit b ss = .ok false := by
        unfold verifyRound
        simp [hl, hr, hm, bind, Except.bind, hc, pure, Except.pure, hy.1]
        simpa using hy.2
      rw [hv]
      refine ⟨fun h => absurd h hne, fun h => ?_⟩
      obtain ⟨-, -, s4', -, -, h3⟩ := h
      have := h3 hy.1
      simp [this] at hy
    · have hcy : cyclic = true → isCyclic (ss.map Prod.fst) = true := by
        intro h1
        by_contra h2
        exact hy ⟨h1, by simpa using h2⟩
      have hv : verifyRound H St s s2 cyclic commit b ss = .ok true := by
        unfold verifyRound
        simp only [hl, hr, hm, bind, Except.bind, hc, pure, Except.pure, ne_eq, not_true_eq_false,
          if_false, Bool.false_eq_true]
        rw [if_neg hy]
      rw [hv]
      exact ⟨fun _ => ⟨hl, hr', s4, rfl, hc, hcy⟩, fun _ => rfl⟩

/-- **C04, soundness core.**  If for ONE commitment value both challenge bits are answerable,
    then either the two hashed stack texts form an explicit collision of `H`, or `s2` is a
    re-masked permutation of `s` (a cyclic shift when `cyclic`): the witness `ss` is extracted
    as `glue ssA (ssB⁻¹)`.

    The index components of both responses must be bijections — `verifyRound` itself does not
    test this, `Codec.importStackSecret` (through which `verify` obtains every response) does
    (`Codec.importStackSecret_bijection`), so `verify` supplies these hypotheses.

    The proof uses the range test `|r| < q` of `verifyRound` (repair of finding F26).  With the
    original rule (no test) the statement is FALSE: an exponent with more than `|q|` bits makes
    `tmcg_mpz_fpowm` multiply with a table entry that was never computed (zero), so every mixed
    card is `(0, 0)` whatever the input stack, and both challenges are answerable for any pair of
    stacks (see the section "the original rule" at the end of this file). -/
theorem stackeq_round_extract (hG : ValidGroup G) {St : State} (hS : StateOk G St) (H : Hash)
    (s s2 : List Card) (cyclic : Bool) (commit : Int) (ssA ssB : StackSecret Int)
    (hpA : IsPerm ssA.length ssA) (hpB : IsPerm ssB.length ssB)
    (hA : verifyRound H St s s2 cyclic commit false ssA = .ok true)
    (hB : verifyRound H St s s2 cyclic commit true ssB = .ok true) :
    (∃ sA sB, vtmfMix St false s ssA = .ok sA ∧ vtmfMix St false s2 ssB = .ok sB ∧
        Codec.stackText sA ++ "\n" ≠ Codec.stackText sB ++ "\n" ∧
        H (Codec.stackText sA ++ "\n") = H (Codec.stackText sB ++ "\n")) ∨
    (∃ ss s2', IsPerm s.length ss ∧ ExpRange G ss ∧
        (cyclic = true → isCyclic (ss.map Prod.fst) = true) ∧
        vtmfMix St false s ss = .ok s2' ∧ List.Forall₂ (CardEq G) s2' s2 ∧
        ((∀ c ∈ s2, Reduced G c) → s2' = s2)) := by
  rw [verifyRound_ok_iff] at hA hB
  obtain ⟨lA, rA, s4, mA, cA, yA⟩ := hA
  obtain ⟨lB, rB, s4', mB, cB, yB⟩ := hB
  rw [hS.grp] at rA rB
  have hfA : FitsAll G ssA := fun e he => fits_of_lt hG (rA e he)
  have hfB : FitsAll G ssB := fun e he => fits_of_lt hG (rB e he)
  simp only [Bool.false_eq_true, if_false] at mA
  simp only [if_true] at mB
  by_cases ht : Codec.stackText s4 ++ "\n" = Codec.stackText s4' ++ "\n"
  swap
  · left
    refine ⟨s4, s4', mA, mB, ht, ?_⟩
    unfold commitment at cA cB
    rw [cA, cB]
  right
  have := stackText_nl_injective _ _ ht
  subst this
  have mB' := mB
  rw [mix_eq_total hG hS false s2 ssB hfB] at mB'
  obtain ⟨l41, l2B, -⟩ := mixT_spec mB'
  have hs2 : s2.length = s.length := l2B.symm.trans lB
  have hIl : (invSecret G.q ssB).length = s.length := by rw [invSecret_length, lB]
  have hIp : IsPerm s.length (invSecret G.q ssB) := lB ▸ invSecret_perm G.q ssB hpB
  have hIr := invSecret_range hG ssB
  obtain ⟨g, s1, s3, hg, hs1, hs3, hgs, hgl, -, hs3l, hfst, hgr⟩ :=
    mix_glue hG hS s ssA (invSecret G.q ssB) false false false lA hIl (lA ▸ hpA) hIp.lt hfA
      (hIr.fits hG)
  rw [mA] at hs1
  injection hs1 with hs1
  subst hs1
  have hgp : IsPerm s.length g := by
    have := glue_perm (fun x y => (x + y) % G.q) ssA (invSecret G.q ssB) g (lA.trans hIl.symm)
      hpA (by rw [hIl]; exact hIp) hg
    rwa [hgl] at this
  rw [mix_eq_total hG hS false s4 _ (hIr.fits hG)] at hs3
  obtain ⟨hF, hR⟩ := mix_inv hG hS.h_mem s2 s4 s3 ssB hpB mB' hs3
  refine ⟨g, s3, hgp, hgr, ?_, hgs, hF, ?_⟩
  · intro hc
    rw [hfst]
    exact cyclic_comp_inv G.q ssA ssB (lA.trans lB.symm) hpB (yA hc) (yB hc)
  · intro hred
    exact eq_of_forall₂_of hF hR hred (fun c c' h1 h2 h3 => h1.eq_of_reduced hG h2 h3)

/-! ### the whole verifier -/

omit [Fact (Nat.Prime G.p.natAbs)] in
theorem go_ok_iff (H : Hash) (St : State) (s s2 : List Card) (cyclic : Bool) :
    ∀ rs : List (Int × Bool × String), verify.go H St s s2 cyclic rs = .ok true ↔
      ∀ r ∈ rs, ∃ ss, Codec.importStackSecret r.2.2 = some ss ∧
        verifyRound H St s s2 cyclic r.1 r.2.1 ss = .ok true := by
  intro rs
  induction rs with
  | nil => simp [verify.go]
  | cons r rest ih =>
    obtain ⟨commit, b, txt⟩ := r
    have hne : (Except.ok false : Except Err Bool) ≠ .ok true := by
      intro h; injection h with h; cases h
    unfold verify.go
    cases himp : Codec.importStackSecret txt with
    | none =>
      simp only [pure, Except.pure]
      refine ⟨fun h => absurd h hne, fun h => ?_⟩
      obtain ⟨ss, h1, -⟩ := h (commit, b, txt) (by simp)
      rw [himp] at h1
      cases h1
    | some ss =>
      simp only
      cases hv : verifyRound H St s s2 cyclic commit b ss with
      | error e =>
        simp only [bind, Except.bind]
        refine ⟨fun h => (by cases h), fun h => ?_⟩
        obtain ⟨ss', h1, h2⟩ := h (commit, b, txt) (by simp)
        rw [himp] at h1
        injection h1 with h1
        subst h1
        rw [hv] at h2
        cases h2
      | ok ok =>
        cases ok with
        | false =>
          simp only [bind, Except.bind, Bool.false_eq_true, if_false, pure, Except.pure]
          refine ⟨fun h => absurd h hne, fun h => ?_⟩
          obtain ⟨ss', h1, h2⟩ := h (commit, b, txt) (by simp)
          rw [himp] at h1
          injection h1 with h1
          subst h1
          rw [hv] at h2
          exact absurd h2 hne
        | true =>
          simp only [bind, Except.bind, if_true]
          rw [ih]
          constructor
          · intro h r hr
            rcases List.mem_cons.1 hr with rfl | hr
            · exact ⟨ss, himp, hv⟩
            · exact h r hr
          · intro h r hr
            exact h r (List.mem_cons_of_mem _ hr)

omit [Fact (Nat.Prime G.p.natAbs)] in
theorem verify_ok_iff (H : Hash) (kind : Kind) (St : State) (s s2 : List Card) (cyclic : Bool)
    (rs : List (Int × Bool × String)) :
    verify H kind St s s2 cyclic rs = .ok true ↔
      s.length = s2.length ∧
      (s2.all fun c => checkElement kind St.G c.c1 && checkElement kind St.G c.c2) = true ∧
      verify.go H St s s2 cyclic rs = .ok true := by
  have hne : (Except.ok false : Except Err Bool) ≠ .ok true := by
    intro h; injection h with h; cases h
  unfold verify
  generalize (s2.all fun c => checkElement kind St.G c.c1 && checkElement kind St.G c.c2) = chk
  by_cases hl : s.length = s2.length
  swap
  · rw [if_pos hl]
    exact ⟨fun h => absurd h hne, fun h => absurd h.1 hl⟩
  rw [if_neg (not_not.2 hl)]
  cases chk with
  | false =>
    simp only [pure, Except.pure, Bool.not_false, if_true]
    exact ⟨fun h => absurd h hne, fun h => by simp at h⟩
  | true =>
    simp only [pure, Except.pure, Bool.not_true, Bool.false_eq_true, if_false]
    exact ⟨fun h => ⟨hl, trivial, h⟩, fun h => h.2.2⟩

omit [Fact (Nat.Prime G.p.natAbs)] in
theorem checkElement_range (kind : Kind) (G : Group) (a : Int) (h : checkElement kind G a = true) :
    0 ≤ a ∧ a < G.p := by
  unfold checkElement at h
  split at h
  · cases h
  · omega

/-- the transcript of `κ` rounds as the verifier sees it: the commitments were fixed first, the
    challenge bits are `bs`, the responses the texts `txts`.  A missing response reads as the
    empty text, which the importer refuses (the C++ verifier fails on the exhausted stream). -/
def rounds {κ : Nat} (commits : List Int) (bs : Fin κ → Bool) (txts : List String) :
    List (Int × Bool × String) :=
  List.ofFn fun i : Fin κ => (commits.getD i 0, bs i, txts.getD i "")

/-- no two different stack texts have the same hash value -/
def NoStackCollision (H : Hash) : Prop :=
  ∀ a b : List Card, H (Codec.stackText a ++ "\n") = H (Codec.stackText b ++ "\n") →
    Codec.stackText a ++ "\n" = Codec.stackText b ++ "\n"

omit [Fact (Nat.Prime G.p.natAbs)] in
theorem noStackCollision_of_injective {H : Hash} (h : Function.Injective H) : NoStackCollision H :=
  fun _ _ e => h e

/-- `s2` is a re-masked permutation of `s` (a re-masked cyclic shift when `cyclic`): some stack
    secret with bijective index component and canonical exponents mixes `s` into exactly `s2` -/
def Remasked (G : Group) (St : State) (cyclic : Bool) (s s2 : List Card) : Prop :=
  ∃ ss : StackSecret Int, IsPerm s.length ss ∧ ExpRange G ss ∧
    (cyclic = true → isCyclic (ss.map Prod.fst) = true) ∧ vtmfMix St false s ss = .ok s2

/-- two accepted transcripts with the same commitments and different challenge vectors yield a
    witness (or a collision of `H`, excluded here) -/
theorem stackeq_two_challenges (hG : ValidGroup G) {St : State} (hS : StateOk G St) (H : Hash)
    (hH : NoStackCollision H) (kind : Kind) (s s2 : List Card) (cyclic : Bool) {κ : Nat}
    (commits : List Int) (bs bs' : Fin κ → Bool) (txts txts' : List String) (hne : bs ≠ bs')
    (h1 : verify H kind St s s2 cyclic (rounds commits bs txts) = .ok true)
    (h2 : verify H kind St s s2 cyclic (rounds commits bs' txts') = .ok true) :
    Remasked G St cyclic s s2 := by
  rw [verify_ok_iff, go_ok_iff] at h1 h2
  obtain ⟨-, hmem, g1⟩ := h1
  obtain ⟨-, -, g2⟩ := h2
  have hred : ∀ c ∈ s2, Reduced G c := by
    intro c hc
    rw [List.all_eq_true] at hmem
    have := hmem c hc
    rw [Bool.and_eq_true, hS.grp] at this
    exact ⟨checkElement_range _ _ _ this.1, checkElement_range _ _ _ this.2⟩
  obtain ⟨i, hi⟩ := Function.ne_iff.1 hne
  obtain ⟨ssX, iX, vX⟩ := g1 (commits.getD i 0, bs i, txts.getD i "")
    (by unfold rounds; rw [List.mem_ofFn]; exact ⟨i, rfl⟩)
  obtain ⟨ssY, iY, vY⟩ := g2 (commits.getD i 0, bs' i, txts'.getD i "")
    (by unfold rounds; rw [List.mem_ofFn]; exact ⟨i, rfl⟩)
  simp only at iX vX iY vY
  have pX := (Codec.importStackSecret_bijection _ _ iX).2.2
  have pY := (Codec.importStackSecret_bijection _ _ iY).2.2
  have fin : ∀ ssA ssB, IsPerm ssA.length ssA → IsPerm ssB.length ssB →
      verifyRound H St s s2 cyclic (commits.getD i 0) false ssA = .ok true →
      verifyRound H St s s2 cyclic (commits.getD i 0) true ssB = .ok true →
      Remasked G St cyclic s s2 := by
    intro ssA ssB pA pB vA vB
    rcases stackeq_round_extract hG hS H s s2 cyclic _ ssA ssB pA pB vA vB with
      ⟨sA, sB, -, -, hd, he⟩ | ⟨ss, s2', hp, hr, hc, hm, -, heq⟩
    · exact absurd (hH sA sB he) hd
    · exact ⟨ss, hp, hr, hc, by rw [hm, heq hred]⟩
  cases hb : bs i <;> cases hb' : bs' i
  · exact absurd (hb.trans hb'.symm) hi
  · rw [hb] at vX; rw [hb'] at vY
    exact fin ssX ssY pX pY vX vY
  · rw [hb] at vX; rw [hb'] at vY
    exact fin ssY ssX pY pX vY vX
  · exact absurd (hb.trans hb'.symm) hi

open Classical in
/-- **C04, the `2^-κ` bound.**  Fix the statement `(s, s2)` and the commitments of `κ` rounds
    (they are sent before the challenges), and let the prover answer by ANY strategy `resp`
    that may depend on the whole challenge vector.  If `s2` is not a re-masked (cyclic)
    permutation of `s` and `H` has no collision among stack texts, at most ONE of the `2^κ`
    challenge vectors is accepted. -/
theorem stackeq_soundness_bound (hG : ValidGroup G) {St : State} (hS : StateOk G St) (H : Hash)
    (hH : NoStackCollision H) (kind : Kind) (s s2 : List Card) (cyclic : Bool) (κ : Nat)
    (commits : List Int) (resp : List Bool → List String)
    (hnot : ¬ Remasked G St cyclic s s2) :
    ((Finset.univ : Finset (Fin κ → Bool)).filter fun bs =>
      verify H kind St s s2 cyclic (rounds commits bs (resp (List.ofFn bs))) = .ok true).card ≤ 1 := by
  rw [Finset.card_le_one]
  intro bs hbs bs' hbs'
  rw [Finset.mem_filter] at hbs hbs'
  by_contra hne
  exact hnot (stackeq_two_challenges hG hS H hH kind s s2 cyclic commits bs bs' _ _ hne hbs.2 hbs'.2)

open Classical in
/-- the same bound as a probability: a uniformly random challenge vector is accepted with
    probability at most `2^-κ` -/
theorem stackeq_soundness_prob (hG : ValidGroup G) {St : State} (hS : StateOk G St) (H : Hash)
    (hH : NoStackCollision H) (kind : Kind) (s s2 : List Card) (cyclic : Bool) (κ : Nat)
    (commits : List Int) (resp : List Bool → List String)
    (hnot : ¬ Remasked G St cyclic s s2) :
    ((((Finset.univ : Finset (Fin κ → Bool)).filter fun bs =>
      verify H kind St s s2 cyclic (rounds commits bs (resp (List.ofFn bs))) = .ok true).card : ℚ) /
      (Fintype.card (Fin κ → Bool) : ℚ)) ≤ 1 / 2 ^ κ := by
  have h := stackeq_soundness_bound hG hS H hH kind s s2 cyclic κ commits resp hnot
  have hc : (Fintype.card (Fin κ → Bool) : ℚ) = 2 ^ κ := by simp
  rw [hc]
  apply div_le_div_of_nonneg_right _ (by positivity)
  exact_mod_cast h

/-! ### completeness (C03) -/

/-- the honest prover's side of `κ` rounds: round `i` uses the fresh secret and the challenge bit
    of the `i`-th entry; the response travels as text -/
def transcript (H : Hash) (Sp : State) (s2 : List Card) (ss : StackSecret Int) :
    List (StackSecret Int × Bool) → Except Err (List (Int × Bool × String))
  | [] => .ok []
  | (ss2, b) :: rest =>
    match proveRound H Sp s2 ss ss2 b with
    | .error e => .error e
    | .ok (c, r) =>
      match transcript H Sp s2 ss rest with
      | .error e => .error e
      | .ok t => .ok ((c, b, Codec.stackSecretText r) :: t)

/-- an honestly generated stack secret for a stack of `n` cards -/
structure HonestSecret (G : Group) (n : Nat) (cyclic : Bool) (ss : StackSecret Int) : Prop where
  len : ss.length = n
  perm : IsPerm n ss
  range : ∀ e ∈ ss, e.2.natAbs < G.q.natAbs
  cyc : cyclic = true → isCyclic (ss.map Prod.fst) = true

theorem HonestSecret.fits (hG : ValidGroup G) {n : Nat} {cyclic : Bool} {ss : StackSecret Int}
    (h : HonestSecret G n cyclic ss) : FitsAll G ss := fun e he => fits_of_lt hG (h.range e he)

theorem mix_state_indep (hG : ValidGroup G) {Sp Sv : State} (hp : StateOk G Sp)
    (hv : StateOk G Sv) (hsame : Sp.h = Sv.h) (t t' : Bool) (s : List Card)
    (ss : StackSecret Int) (hf : FitsAll G ss) : vtmfMix Sp t s ss = vtmfMix Sv t' s ss := by
  rw [mix_eq_total hG hp t s ss hf, mix_eq_total hG hv t' s ss hf, hsame]

theorem remaskP_mem (hG : ValidGroup G) {h : Int} (hh : Mem G h) {c : Card}
    (hc : Mem G c.c1 ∧ Mem G c.c2) (r : Int) :
    Mem G (remaskP G h c r).c1 ∧ Mem G (remaskP G h c r).c2 := by
  have hg0 := g_ne_zero hG
  constructor
  · exact mem_of_val (rep_range hG _).1 (rep_range hG _).2 (toF_rep _)
      (mul_ne_zero (zpow_ne_zero _ hg0) (hc.1.ne_zero hG))
      (by rw [mul_pow, zpow_pow_q (g_pow_q hG), hc.1.2.2, one_mul])
  · exact mem_of_val (rep_range hG _).1 (rep_range hG _).2 (toF_rep _)
      (mul_ne_zero (zpow_ne_zero _ (hh.ne_zero hG)) (hc.2.ne_zero hG))
      (by rw [mul_pow, zpow_pow_q hh.2.2, hc.2.2.2, one_mul])

/-- the composition of two cyclic shifts is a cyclic shift -/
theorem cyclic_comp (A B : StackSecret Int) (hl : A.length = B.length)
    (hcA : isCyclic (A.map Prod.fst) = true) (hcB : isCyclic (B.map Prod.fst) = true) :
    isCyclic (B.map (fun e => (A.map Prod.fst).getD e.1 0)) = true := by
  rw [isCyclic_iff] at hcA hcB ⊢
  simp only [List.length_map] at hcA hcB ⊢
  have hL : ∀ k, k < B.length → (B.map (fun e => (A.map Prod.fst).getD e.1 0)).getD k 0 =
      (A.map Prod.fst).getD ((B.map Prod.fst).getD k 0) 0 := by
    intro k hk
    have e1 : (B.map (fun e => (A.map Prod.fst).getD e.1 0)).getD k 0 =
        (A.map Prod.fst).getD (B[k]).1 0 := by
      rw [List.getD_eq_getElem _ _ (by simpa using hk), List.getElem_map]
    have e2 : (B.map Prod.fst).getD k 0 = (B[k]).1 := by
      rw [List.getD_eq_getElem _ _ (by simpa using hk), List.getElem_map]
    rw [e1, e2]
  intro k hk
  have h0 : 0 < B.length := by omega
  have eBk := hcB k hk
  have eB0 : (B.map Prod.fst).getD 0 0 < B.length := by
    have := hcB 0 h0
    rw [this]
    exact Nat.mod_lt _ h0
  have lk : ((B.map Prod.fst).getD 0 0 + k) % B.length < A.length := by
    rw [hl]; exact Nat.mod_lt _ h0
  have ak := hcA _ lk
  have a0' := hcA ((B.map Prod.fst).getD 0 0) (by rw [hl]; exact eB0)
  rw [hL k hk, hL 0 h0, eBk, ak, a0', hl]
  clear ak a0'
  clear eBk hL hcA hcB lk
  generalize (A.map Prod.fst).getD 0 0 = a0
  generalize (B.map Prod.fst).getD 0 0 = b0
  generalize B.length = n
  show (a0 + (b0 + k) % n) ≡ ((a0 + b0) % n + k) [MOD n]
  have g1 : a0 + (b0 + k) % n ≡ a0 + (b0 + k) [MOD n] := (Nat.mod_modEq _ _).add_left a0
  have g2 : (a0 + b0) % n + k ≡ a0 + b0 + k [MOD n] := (Nat.mod_modEq _ _).add_right k
  refine g1.trans (Nat.ModEq.trans ?_ g2.symm)
  rw [Nat.add_assoc]

/-- one honest round is accepted, and its response survives the text transport -/
theorem round_complete (hG : ValidGroup G) (H : Hash) {Sp Sv : State} (hp : StateOk G Sp)
    (hv : StateOk G Sv) (hsame : Sp.h = Sv.h) (s s2 : List Card) (cyclic : Bool)
    (h0 : 0 < s.length) (hmax : s.length ≤ Gen.TMCG_MAX_CARDS)
    (ss : StackSecret Int) (hss : HonestSecret G s.length cyclic ss) (tap : Bool)
    (hs2 : vtmfMix Sp tap s ss = .ok s2)
    (ss2 : StackSecret Int) (hss2 : HonestSecret G s.length cyclic ss2) (b : Bool) :
    ∃ commit resp, proveRound H Sp s2 ss ss2 b = .ok (commit, resp) ∧
      Codec.importStackSecret (Codec.stackSecretText resp) = some resp ∧
      verifyRound H Sv s s2 cyclic commit b resp = .ok true := by
  obtain ⟨g, s1, s3, hg, hs1, hs3, hgs, hgl, hs1l, -, hfst, hgr⟩ :=
    mix_glue hG hv s ss ss2 tap false false hss.len hss2.len hss.perm hss2.perm.lt
      (hss.fits hG) (hss2.fits hG)
  rw [← mix_state_indep hG hp hv hsame tap tap s ss (hss.fits hG), hs2] at hs1
  injection hs1 with hs1
  subst hs1
  have hp3 : vtmfMix Sp true s2 ss2 = .ok s3 := by
    rw [mix_state_indep hG hp hv hsame true false s2 ss2 (hss2.fits hG), hs3]
  cases b with
  | true =>
    refine ⟨commitment H s3, ss2, ?_, ?_, ?_⟩
    · unfold proveRound
      rw [hp3]
      rfl
    · exact Codec.importStackSecret_text ss2 (hss2.len ▸ h0) (hss2.len ▸ hmax)
        (by rw [hss2.len]; exact hss2.perm)
    · rw [verifyRound_ok_iff]
      refine ⟨hss2.len, ?_, s3, hs3, rfl, hss2.cyc⟩
      rw [hv.grp]; exact hss2.range
  | false =>
    have hgp : IsPerm g.length g := glue_perm (fun x y => (x + y) % G.q) ss ss2 g
      (hss.len.trans hss2.len.symm) (by rw [hss.len]; exact hss.perm)
      (by rw [hss2.len]; exact hss2.perm) hg
    refine ⟨commitment H s3, g, ?_, ?_, ?_⟩
    · unfold proveRound
      rw [hp3, hp.grp]
      simp only [bind, Except.bind, Bool.false_eq_true, if_false, hg]
    · exact Codec.importStackSecret_text g (hgl ▸ h0) (hgl ▸ hmax) hgp
    · rw [verifyRound_ok_iff]
      refine ⟨hgl, ?_, s3, hgs, rfl, ?_⟩
      · rw [hv.grp]
        intro e he
        have := hgr e he
        have := hG.q_pos
        omega
      · intro hc
        rw [hfst]
        exact cyclic_comp ss ss2 (hss.len.trans hss2.len.symm) (hss.cyc hc) (hss2.cyc hc)

/-- **C03 for the cut-and-choose proof of stack equality.**  For every stack `s` of group
    elements, every honest secret `ss` with `s2 = mix(s, ss)`, every number of rounds, every
    fresh secrets and every challenge bits, the honest transcript (responses exported by the
    codec and re-imported by the verifier) is accepted — for shuffles (`cyclic = false`, the
    index components arbitrary bijections) and for rotations (`cyclic = true`, all index
    components cyclic shifts).

    Conditions that the model imposes: `1 ≤ |s| ≤ TMCG_MAX_CARDS` (the importer of stack
    secrets refuses other sizes, so an empty stack has no accepted proof with `κ ≥ 1`);
    the group flavour is the Schnorr group (`CheckElement` of the QR flavour is a Jacobi-symbol
    test that `ValidGroup` does not describe); prover and verifier hold the same common key. -/
theorem stackeq_complete (hG : ValidGroup G) (H : Hash) {Sp Sv : State} (hp : StateOk G Sp)
    (hv : StateOk G Sv) (hsame : Sp.h = Sv.h) (s s2 : List Card) (cyclic : Bool)
    (hs : ∀ c ∈ s, Mem G c.c1 ∧ Mem G c.c2)
    (h0 : 0 < s.length) (hmax : s.length ≤ Gen.TMCG_MAX_CARDS)
    (ss : StackSecret Int) (hss : HonestSecret G s.length cyclic ss) (tap : Bool)
    (hs2 : vtmfMix Sp tap s ss = .ok s2)
    (rs : List (StackSecret Int × Bool)) (hrs : ∀ r ∈ rs, HonestSecret G s.length cyclic r.1) :
    ∃ tr, transcript H Sp s2 ss rs = .ok tr ∧ tr.length = rs.length ∧
      tr.map (fun r => r.2.1) = rs.map Prod.snd ∧
      verify H .schnorr Sv s s2 cyclic tr = .ok true := by
  have hrounds : ∃ tr, transcript H Sp s2 ss rs = .ok tr ∧ tr.length = rs.length ∧
      tr.map (fun r => r.2.1) = rs.map Prod.snd ∧
      ∀ r ∈ tr, ∃ ss', Codec.importStackSecret r.2.2 = some ss' ∧
        verifyRound H Sv s s2 cyclic r.1 r.2.1 ss' = .ok true := by
    induction rs with
    | nil => exact ⟨[], rfl, rfl, rfl, by simp⟩
    | cons r rest ih =>
      obtain ⟨ss2, b⟩ := r
      obtain ⟨tr, h1, h2, h3, h4⟩ := ih (fun r hr => hrs r (List.mem_cons_of_mem _ hr))
      obtain ⟨commit, resp, e1, e2, e3⟩ := round_complete hG H hp hv hsame s s2 cyclic h0 hmax ss
        hss tap hs2 ss2 (hrs (ss2, b) (by simp)) b
      refine ⟨(commit, b, Codec.stackSecretText resp) :: tr, ?_, by simp [h2], by simp [h3], ?_⟩
      · unfold transcript
        rw [e1, h1]
      · intro r hr
        rcases List.mem_cons.1 hr with rfl | hr
        · exact ⟨resp, e2, e3⟩
        · exact h4 r hr
  obtain ⟨tr, h1, h2, h3, h4⟩ := hrounds
  refine ⟨tr, h1, h2, h3, ?_⟩
  rw [verify_ok_iff, go_ok_iff]
  have hs2' := hs2
  rw [mix_eq_total hG hp tap s ss (hss.fits hG)] at hs2'
  obtain ⟨l1, -, sp⟩ := mixT_spec hs2'
  refine ⟨l1.symm, ?_, h4⟩
  rw [List.all_eq_true]
  intro c hc
  obtain ⟨i, hi, rfl⟩ := List.getElem_of_mem hc
  obtain ⟨hj, e⟩ := sp i (l1 ▸ hi)
  rw [List.getD_eq_getElem _ _ hi, List.getD_eq_getElem _ _ hj] at e
  have hm := remaskP_mem hG hp.mem_h (hs _ (List.getElem_mem hj))
    (ss.getD (ss.getD i (0, 0)).1 (0, 0)).2
  rw [← e] at hm
  rw [Bool.and_eq_true, hv.grp, checkElement_iff hG, checkElement_iff hG]
  exact hm

end field

/-! ### non-vacuity: the group `p = 23`, `q = 11`, `g = 2`, common key `h = 3` -/

def G23 : Group := ⟨23, 11, 2⟩

theorem valid23 : ValidGroup G23 :=
  ⟨by decide, by decide, (by show Nat.Prime 23; decide), (by show Nat.Prime 11; decide), by decide,
    by decide, by decide, by decide⟩

theorem mem23 (m : Int) (h : 0 < m ∧ m < 23 ∧ m ^ 11 % 23 = 1) :
    haveI := fact_prime valid23
    Mem G23 m := by
  have := fact_prime valid23
  refine ⟨h.1, h.2.1, ?_⟩
  rw [← toF_pow, ← toF_one (G := G23), toF_eq_iff valid23]
  exact h.2.2

/-- the state the constructor and `KeyGenerationProtocol_Finalize` build for `h = 3` -/
def St23 : State := { G := G23, tabG := ⟨[2, 4, 16, 3]⟩, tabH := ⟨[3, 9, 12, 6]⟩, h := 3 }

theorem St23_ok : haveI := fact_prime valid23
    StateOk G23 St23 := by
  have := fact_prime valid23
  have hm := mem23 3 (by decide)
  exact ⟨rfl, (show precompute 2 23 (tableLen G23) = .ok ⟨[2, 4, 16, 3]⟩ by rfl),
    (show precompute 3 23 (tableLen G23) = .ok ⟨[3, 9, 12, 6]⟩ by rfl), ⟨hm.1, hm.2.1⟩, hm.2.2⟩

theorem state23 : haveI := fact_prime valid23
    ∃ St : State, StateOk G23 St ∧ St.h = 3 := ⟨St23, St23_ok, rfl⟩

/-- `mix_glue` on three cards: all hypotheses are satisfiable (a non-cyclic shuffle glued with a
    rotation, one negative exponent) -/
example : haveI := fact_prime valid23
    ∃ (St : State) (g : StackSecret Int) (s1 s3 : List Card),
      vtmfGlue G23.q [(1, 5), (0, 7), (2, 3)] [(2, -4), (0, 10), (1, 0)] = .ok g ∧
      vtmfMix St true [⟨2, 3⟩, ⟨4, 9⟩, ⟨8, 4⟩] [(1, 5), (0, 7), (2, 3)] = .ok s1 ∧
      vtmfMix St true s1 [(2, -4), (0, 10), (1, 0)] = .ok s3 ∧
      vtmfMix St false [⟨2, 3⟩, ⟨4, 9⟩, ⟨8, 4⟩] g = .ok s3 := by
  have := fact_prime valid23
  obtain ⟨St, hS, -⟩ := state23
  obtain ⟨g, s1, s3, h1, h2, h3, h4, -⟩ := mix_glue valid23 hS [⟨2, 3⟩, ⟨4, 9⟩, ⟨8, 4⟩]
    [(1, 5), (0, 7), (2, 3)] [(2, -4), (0, 10), (1, 0)] true true false rfl rfl (by decide)
    (by decide)
    (fun e he => fits_of_lt valid23 (by
      simp only [List.mem_cons, List.not_mem_nil, or_false] at he
      rcases he with rfl | rfl | rfl <;> decide))
    (fun e he => fits_of_lt valid23 (by
      simp only [List.mem_cons, List.not_mem_nil, or_false] at he
      rcases he with rfl | rfl | rfl <;> decide))
  exact ⟨St, g, s1, s3, h1, h2, h3, h4⟩

theorem honest23 (cyclic : Bool) (ss : StackSecret Int) (h1 : ss.length = 3)
    (h2 : (ss.map Prod.fst).Perm (List.range 3))
    (h3 : ss.all (fun e => decide (e.2.natAbs < 11)) = true)
    (h4 : cyclic = true → isCyclic (ss.map Prod.fst) = true) : HonestSecret G23 3 cyclic ss :=
  ⟨h1, h2, fun e he => by
    rw [List.all_eq_true] at h3
    show e.2.natAbs < 11
    simpa using h3 e he, h4⟩

/-- `stackeq_complete` is not vacuous: a rotation of three cards, two rounds (one per challenge
    value), any hash function -/
example (H : Hash) : haveI := fact_prime valid23
    ∃ (St : State) (s2 : List Card) (tr : List (Int × Bool × String)),
      vtmfMix St true [⟨2, 3⟩, ⟨4, 9⟩, ⟨8, 4⟩] [(2, 5), (0, 7), (1, 3)] = .ok s2 ∧
      transcript H St s2 [(2, 5), (0, 7), (1, 3)]
        [([(1, 1), (2, 10), (0, 4)], false), ([(0, 6), (1, 0), (2, 9)], true)] = .ok tr ∧
      tr.map (fun r => r.2.1) = [false, true] ∧
      verify H .schnorr St [⟨2, 3⟩, ⟨4, 9⟩, ⟨8, 4⟩] s2 true tr = .ok true := by
  have := fact_prime valid23
  obtain ⟨St, hS, -⟩ := state23
  have hss : HonestSecret G23 3 true [(2, 5), (0, 7), (1, 3)] :=
    honest23 _ _ rfl (by decide) (by decide) (fun _ => by decide)
  obtain ⟨s2, hs2⟩ : ∃ s2, vtmfMix St true [⟨2, 3⟩, ⟨4, 9⟩, ⟨8, 4⟩] [(2, 5), (0, 7), (1, 3)] = .ok s2 := by
    rw [mix_eq_total valid23 hS _ _ _ (hss.fits valid23)]
    exact mixT_ok _ _ _ rfl (by decide)
  obtain ⟨tr, h1, -, h3, h4⟩ := stackeq_complete valid23 H hS hS rfl [⟨2, 3⟩, ⟨4, 9⟩, ⟨8, 4⟩] s2 true
    (by
      intro c hc
      simp only [List.mem_cons, List.not_mem_nil, or_false] at hc
      rcases hc with rfl | rfl | rfl <;> exact ⟨mem23 _ (by decide), mem23 _ (by decide)⟩)
    (by decide) (by decide) [(2, 5), (0, 7), (1, 3)] hss true hs2
    [([(1, 1), (2, 10), (0, 4)], false), ([(0, 6), (1, 0), (2, 9)], true)]
    (by
      intro r hr
      simp only [List.mem_cons, List.not_mem_nil, or_false] at hr
      rcases hr with rfl | rfl <;>
        exact honest23 _ _ rfl (by decide) (by decide) (fun _ => by decide))
  exact ⟨St, s2, tr, hs2, h1, h3, h4⟩

/-- an injective "hash function" (for the non-vacuity of the collision hypothesis only) -/
def Hinj : Hash := fun t => ((Encodable.encode (t.toList.map Char.toNat) : Nat) : Int)

theorem Hinj_injective : Function.Injective Hinj := by
  intro a b h
  unfold Hinj at h
  have h1 := Encodable.encode_injective (Int.ofNat_inj.1 h)
  have h2 : Function.Injective (List.map Char.toNat) :=
    List.map_injective_iff.2 (fun c d h => Char.toNat_inj.1 h)
  exact String.toList_injective (h2 h1)

/-- in the tiny group the stack `[(1,2), (1,2)]` is not a re-masking of `[(1,1), (1,1)]`:
    `c_1 = 1` forces the exponent 0, which leaves `c_2 = 1` -/
theorem not_remasked23 {St : State} (hS : haveI := fact_prime valid23; StateOk G23 St)
    (cyclic : Bool) : ¬ Remasked G23 St cyclic [⟨1, 1⟩, ⟨1, 1⟩] [⟨1, 2⟩, ⟨1, 2⟩] := by
  have := fact_prime valid23
  rintro ⟨ss, hp, hr, -, hm⟩
  rw [mix_eq_total valid23 hS _ _ _ (hr.fits valid23)] at hm
  obtain ⟨-, hl, sp⟩ := mixT_spec hm
  obtain ⟨hj, e⟩ := sp 0 (by decide)
  generalize (ss.getD 0 (0, 0)).1 = j at hj e
  have hjl : j < ss.length := by rw [hl]; exact hj
  have hrange := hr (ss.getD j (0, 0)) (by
    rw [List.getD_eq_getElem _ _ hjl]; exact List.getElem_mem hjl)
  generalize (ss.getD j (0, 0)).2 = r at e hrange
  have hc : ([⟨1, 1⟩, ⟨1, 1⟩] : List Card).getD j ⟨0, 0⟩ = ⟨1, 1⟩ := by
    simp only [List.length_cons, List.length_nil] at hj
    interval_cases j <;> rfl
  rw [hc] at e
  simp only [List.getD_cons_zero] at e
  unfold remaskP at e
  injection e with e1 e2
  have f1 := congrArg (toF G23) e1
  have f2 := congrArg (toF G23) e2
  rw [toF_rep, toF_one, mul_one] at f1 f2
  have hr0 : r = 0 := by
    have h := VtmfOpen.emod_q_of_zpow_eq valid23 0 r (by rw [zpow_zero]; exact f1)
    have hq : G23.q = 11 := rfl
    rw [hq] at h hrange
    omega
  rw [hr0, zpow_zero, ← toF_one (G := G23), toF_eq_iff valid23] at f2
  revert f2
  decide

/-- `stackeq_soundness_bound` is not vacuous: all hypotheses are satisfiable, for every number of
    rounds, commitments and prover strategy -/
example (κ : Nat) (commits : List Int) (resp : List Bool → List String) (cyclic : Bool) :
    haveI := fact_prime valid23
    ∃ St : State, StateOk G23 St ∧
      ([⟨1, 2⟩, ⟨1, 2⟩] : List Card).all
        (fun c => checkElement .schnorr St.G c.c1 && checkElement .schnorr St.G c.c2) = true ∧
      ((Finset.univ : Finset (Fin κ → Bool)).filter fun bs =>
        verify Hinj .schnorr St [⟨1, 1⟩, ⟨1, 1⟩] [⟨1, 2⟩, ⟨1, 2⟩] cyclic
          (rounds commits bs (resp (List.ofFn bs))) = .ok true).card ≤ 1 := by
  have := fact_prime valid23
  obtain ⟨St, hS, -⟩ := state23
  refine ⟨St, hS, ?_, stackeq_soundness_bound valid23 hS Hinj
    (noStackCollision_of_injective Hinj_injective) .schnorr _ _ cyclic κ commits resp
    (not_remasked23 hS cyclic)⟩
  rw [hS.grp]
  simp only [List.all_cons, List.all_nil, Bool.and_true, Bool.and_self, Bool.and_eq_true]
  have h1 := (checkElement_iff valid23 1).2 (mem23 1 (by decide))
  have h2 := (checkElement_iff valid23 2).2 (mem23 2 (by decide))
  exact ⟨h1, h2⟩

/-! ### the original rule (before the repair of finding F26)

  `TMCG_VerifyStackEquality` originally did not look at the size of the received exponents.  The
  fixed-base tables of the VTMF instance hold `|q|` entries; `tmcg_mpz_fpowm` multiplies with
  entry `i` for every set bit `i` of the exponent and the entries beyond `|q|` are zero.  An
  exponent with `|q| + 1` bits therefore turns every card into `(0, 0)`: below, in the tiny group
  (`|q| = 4`, exponent `16`), the SAME response answers both challenge bits of a round whose
  commitment is the hash of two zero cards, although `s2` is not a re-masking of `s`
  (`not_remasked23`).  So `stackeq_round_extract` is false for the original rule. -/

/-- `verifyRound` without the range test of the exponents (the original code) -/
def verifyRoundNoRange (H : Hash) (St : State) (s s2 : List Card) (cyclic : Bool)
    (commit : Int) (b : Bool) (ss : StackSecret Int) : Except Err Bool := do
  if ss.length ≠ s.length then return false
  let s4 ← vtmfMix St false (if b then s2 else s) ss
  if commitment H s4 ≠ commit then return false
  if cyclic ∧ !isCyclic (ss.map Prod.fst) then return false
  return true

example (H : Hash) (b : Bool) :
    verifyRoundNoRange H St23 [⟨1, 1⟩, ⟨1, 1⟩] [⟨1, 2⟩, ⟨1, 2⟩] true
      (commitment H [⟨0, 0⟩, ⟨0, 0⟩]) b [(0, 16), (1, 16)] = .ok true ∧
    (haveI := fact_prime valid23
     ¬ Remasked G23 St23 true [⟨1, 1⟩, ⟨1, 1⟩] [⟨1, 2⟩, ⟨1, 2⟩]) := by
  refine ⟨?_, not_remasked23 St23_ok true⟩
  have h1 : vtmfMix St23 false [⟨1, 1⟩, ⟨1, 1⟩] [(0, 16), (1, 16)] = .ok [⟨0, 0⟩, ⟨0, 0⟩] := by
    decide
  have h2 : vtmfMix St23 false [⟨1, 2⟩, ⟨1, 2⟩] [(0, 16), (1, 16)] = .ok [⟨0, 0⟩, ⟨0, 0⟩] := by
    decide
  have hc : isCyclic [0, 1] = true := by decide
  unfold verifyRoundNoRange
  cases b
  · simp [h1, hc, bind, Except.bind, pure, Except.pure]
  · simp [h2, hc, bind, Except.bind, pure, Except.pure]


end Tmcg.CutChoose
