import Tmcg.Model.StackEq
import TmcgProofs.Stack
import TmcgProofs.Codec
import TmcgProofs.Group
import TmcgProofs.SigmaComplete
import TmcgProofs.SigmaSound
/-
  C03 / C04 for the cut-and-choose proof of stack equality (shuffle and rotation) of
  Tmcg/Model/StackEq.lean, discrete-log encoding.
-/
namespace Tmcg.CutChoose
open Tmcg Tmcg.Powm Tmcg.Vtmf Tmcg.Grp Tmcg.Sigma Tmcg.Stack Tmcg.StackEq Tmcg.SigmaComplete

variable {G : Group}

set_option linter.unusedSectionVars false

/-! ### exponents that fit the fixed-base tables -/

/-- the exponent has at most as many bits as `q`: exactly the exponents for which the fixed-base
    tables (built with `|q|` entries) are complete.  Every `|r| < q` fits. -/
def Fits (G : Group) (r : Int) : Prop := bitlen r ≤ bitlen G.q

theorem bitlen_pos (x : Int) : 1 ≤ bitlen x := by
  unfold bitlen
  simp only
  split <;> omega

theorem tableSize_eq (hG : ValidGroup G) : tableSize (tableLen G) = bitlen G.q := by
  have h1 := hG.q_fits
  have h2 := bitlen_pos G.q
  unfold tableSize tableLen
  omega

theorem fits_of_lt (hG : ValidGroup G) {r : Int} (h : r.natAbs < G.q.natAbs) : Fits G r := by
  have := bitlen_le_tableSize hG r h
  rwa [tableSize_eq hG] at this

theorem fits_of_range (hG : ValidGroup G) {r : Int} (h : 0 ≤ r ∧ r < G.q) : Fits G r :=
  fits_of_lt hG (by have := hG.q_pos; omega)

/-! ### the commitment text determines the stack -/

theorem cardsChars_injective : ∀ a b : List Card, Codec.cardsChars a = Codec.cardsChars b → a = b := by
  intro a
  induction a with
  | nil =>
    intro b h
    cases b with
    | nil => rfl
    | cons c cs => simp [Codec.cardsChars] at h
  | cons c cs ih =>
    intro b h
    cases b with
    | nil => simp [Codec.cardsChars] at h
    | cons c' cs' =>
      simp only [Codec.cardsChars] at h
      obtain ⟨h1, h2⟩ := SigmaSound.append_sep_inj '^' _ _ _ _ (Codec.hat_notMem_cardText c)
        (Codec.hat_notMem_cardText c') h
      have h3 := Codec.importCard_cardText c
      rw [h1, Codec.importCard_cardText c'] at h3
      injection h3 with h3
      rw [h3, ih _ h2]

/-- the hashed text (`ost << s4 << std::endl`) determines the stack -/
theorem stackText_nl_injective (a b : List Card)
    (h : Codec.stackText a ++ "\n" = Codec.stackText b ++ "\n") : a = b := by
  have h1 := congrArg String.toList h
  rw [String.toList_append, String.toList_append, Codec.stackText_toList, Codec.stackText_toList] at h1
  have h2 := List.append_cancel_right h1
  have h3 := List.append_cancel_left h2
  have h4 : (toString a.length).toList ++ '^' :: Codec.cardsChars a =
      (toString b.length).toList ++ '^' :: Codec.cardsChars b := by
    injection h3
  exact cardsChars_injective a b (SigmaSound.append_sep_inj '^' _ _ _ _
    (Codec.hat_notMem_toString _) (Codec.hat_notMem_toString _) h4).2

section field
variable [Fact (Nat.Prime G.p.natAbs)]

theorem fpowm_fits (hG : ValidGroup G) (T : Table) (b e : Int) (hT : IsTable G T b)
    (hb : toF G b ≠ 0) (he : Fits G e) :
    ∃ r, fpowm T b e G.p = .ok r ∧ 0 ≤ r ∧ r < G.p ∧ toF G r = toF G b ^ e := by
  rw [fpowm_spec b G.p (tableLen G) (one_lt_p hG) T hT e (by rw [tableSize_eq hG]; exact he)]
  by_cases h0 : 0 ≤ e
  · rw [if_pos h0]
    refine ⟨_, rfl, (emod_bounds hG _).1, (emod_bounds hG _).2, ?_⟩
    rw [toF_emod hG, toF_pow, pow_natAbs_of_nonneg _ h0]
  · rw [if_neg h0]
    have hne : toF G (b ^ e.natAbs % G.p) ≠ 0 := by
      rw [toF_emod hG, toF_pow]; exact pow_ne_zero _ hb
    obtain ⟨r, hr, hr0, hr1, hv⟩ := invm_val hG _ hne
    refine ⟨r, by rw [hr], hr0, hr1, ?_⟩
    rw [hv, toF_emod hG, toF_pow, inv_pow_natAbs_of_neg _ (not_le.mp h0)]

theorem fspowm_fits (hG : ValidGroup G) (T : Table) (b e : Int) (hT : IsTable G T b)
    (hb : toF G b ≠ 0) (he : Fits G e) :
    ∃ r, fspowm T b e G.p = .ok r ∧ 0 ≤ r ∧ r < G.p ∧ toF G r = toF G b ^ e := by
  rw [fspowm_spec b G.p (tableLen G) (one_lt_p hG) T hT e (by rw [tableSize_eq hG]; exact he)]
  have hne : toF G (b ^ e.natAbs % G.p) ≠ 0 := by
    rw [toF_emod hG, toF_pow]; exact pow_ne_zero _ hb
  obtain ⟨r, hr, hr0, hr1, hv⟩ := invm_val hG _ hne
  simp only [hr]
  by_cases h0 : 0 ≤ e
  · simp only [h0, if_true]
    refine ⟨_, rfl, (emod_bounds hG _).1, (emod_bounds hG _).2, ?_⟩
    rw [toF_emod hG, toF_pow, pow_natAbs_of_nonneg _ h0]
  · simp only [h0, if_false]
    refine ⟨r, rfl, hr0, hr1, ?_⟩
    rw [hv, toF_emod hG, toF_pow, inv_pow_natAbs_of_neg _ (not_le.mp h0)]

/-! ### canonical residues and the re-masking function -/

/-- the canonical residue of a field element -/
def rep (x : F G) : Int := ((ZMod.val x : Nat) : Int)

theorem toF_rep (x : F G) : toF G (rep x) = x := by
  unfold toF rep
  rw [Int.cast_natCast, ZMod.natCast_zmod_val]

theorem rep_range (hG : ValidGroup G) (x : F G) : 0 ≤ rep x ∧ rep x < G.p := by
  unfold rep
  refine ⟨Int.natCast_nonneg _, ?_⟩
  have h1 := ZMod.val_lt x
  have h2 := natAbs_p hG
  omega

theorem rep_toF (hG : ValidGroup G) {a : Int} (h : 0 ≤ a ∧ a < G.p) : rep (toF G a) = a :=
  eq_of_toF_eq hG (rep_range hG _) h (toF_rep _)

/-- a card in canonical form -/
def Reduced (G : Group) (c : Card) : Prop := (0 ≤ c.c1 ∧ c.c1 < G.p) ∧ (0 ≤ c.c2 ∧ c.c2 < G.p)

/-- equality of cards as pairs of field elements -/
def CardEq (G : Group) (c c' : Card) : Prop := toF G c.c1 = toF G c'.c1 ∧ toF G c.c2 = toF G c'.c2

theorem CardEq.eq_of_reduced (hG : ValidGroup G) {c c' : Card} (h : CardEq G c c')
    (hc : Reduced G c) (hc' : Reduced G c') : c = c' := by
  cases c; cases c'
  simp only [Card.mk.injEq]
  exact ⟨eq_of_toF_eq hG hc.1 hc'.1 h.1, eq_of_toF_eq hG hc.2 hc'.2 h.2⟩

/-- what `VerifiableRemaskingProtocol_Remask` computes for an exponent that fits the tables:
    `(g^r c_1, h^r c_2)` as canonical residues -/
def remaskP (G : Group) [Fact (Nat.Prime G.p.natAbs)] (h : Int) (c : Card) (r : Int) : Card :=
  ⟨rep (toF G G.g ^ r * toF G c.c1), rep (toF G h ^ r * toF G c.c2)⟩

theorem remaskP_reduced (hG : ValidGroup G) (h : Int) (c : Card) (r : Int) :
    Reduced G (remaskP G h c r) := ⟨rep_range hG _, rep_range hG _⟩

/-- re-masking never fails on an exponent that fits, and its result does not depend on the
    timing-attack protection flag -/
theorem remask_eq (hG : ValidGroup G) {S : State} (hS : StateOk G S) (c : Card) (r : Int)
    (hr : Fits G r) (tap : Bool) : remask S c r tap = .ok (remaskP G S.h c r) := by
  have hh0 : toF G S.h ≠ 0 := hS.mem_h.ne_zero hG
  have hgrp := hS.grp
  have key : ∀ a b : Int, toF G a = toF G G.g ^ r → toF G b = toF G S.h ^ r →
      (⟨a * c.c1 % G.p, b * c.c2 % G.p⟩ : Card) = remaskP G S.h c r := by
    intro a b ha hb
    unfold remaskP
    congr 1
    · exact eq_of_toF_eq hG (emod_bounds hG _) (rep_range hG _)
        (by rw [toF_emod hG, toF_mul, ha, toF_rep])
    · exact eq_of_toF_eq hG (emod_bounds hG _) (rep_range hG _)
        (by rw [toF_emod hG, toF_mul, hb, toF_rep])
  cases tap with
  | true =>
    obtain ⟨a, ha, _, _, hav⟩ := fspowm_fits hG S.tabG G.g r hS.tabG (g_ne_zero hG) hr
    obtain ⟨b, hb, _, _, hbv⟩ := fspowm_fits hG S.tabH S.h r hS.tabH hh0 hr
    unfold remask
    simp only [if_true, hgrp, ha, hb, bind, Except.bind]
    rw [key a b hav hbv]
  | false =>
    obtain ⟨a, ha, _, _, hav⟩ := fpowm_fits hG S.tabG G.g r hS.tabG (g_ne_zero hG) hr
    obtain ⟨b, hb, _, _, hbv⟩ := fpowm_fits hG S.tabH S.h r hS.tabH hh0 hr
    unfold remask
    simp only [Bool.false_eq_true, if_false, hgrp, ha, hb, bind, Except.bind]
    rw [key a b hav hbv]

/-! ### mixing as a total function on exponents that fit -/

/-- the total masking function used to apply the generic lemmas of `TmcgProofs/Stack.lean` -/
def maskT (G : Group) [Fact (Nat.Prime G.p.natAbs)] (h : Int) (c : Card) (r : Int) :
    Except Err Card := .ok (remaskP G h c r)

/-- all exponents of a stack secret fit the tables -/
def FitsAll (G : Group) (ss : StackSecret Int) : Prop := ∀ e ∈ ss, Fits G e.2

/-- all exponents of a stack secret are canonical (`0 ≤ r < q`) -/
def ExpRange (G : Group) (ss : StackSecret Int) : Prop := ∀ e ∈ ss, 0 ≤ e.2 ∧ e.2 < G.q

theorem ExpRange.fits (hG : ValidGroup G) {ss : StackSecret Int} (h : ExpRange G ss) :
    FitsAll G ss := fun e he => fits_of_range hG (h e he)

/-- the index component is a bijection of the positions `0 … n-1` -/
def IsPerm (n : Nat) (ss : StackSecret Int) : Prop := (ss.map Prod.fst).Perm (List.range n)

theorem mix_eq_total (hG : ValidGroup G) {S : State} (hS : StateOk G S) (tap : Bool)
    (s : List Card) (ss : StackSecret Int) (hf : FitsAll G ss) :
    vtmfMix S tap s ss = mixStack (maskT G S.h) s ss := by
  unfold vtmfMix mixStack
  split
  · rfl
  · apply mapM_congr'
    intro i _
    cases h1 : ss[i]? with
    | none => rfl
    | some e =>
      obtain ⟨j, x⟩ := e
      simp only
      cases h2 : s[j]? with
      | none => rfl
      | some c =>
        cases h3 : ss[j]? with
        | none => rfl
        | some e' =>
          obtain ⟨k, sec⟩ := e'
          simp only
          have hm : (k, sec) ∈ ss := List.mem_of_getElem? h3
          exact remask_eq hG hS c sec (hf _ hm) tap

theorem remaskP_law (hG : ValidGroup G) {h : Int} (hh : toF G h ^ G.q.natAbs = 1) (c : Card)
    (a b : Int) : remaskP G h (remaskP G h c a) b = remaskP G h c ((a + b) % G.q) := by
  have hg0 := g_ne_zero hG
  have hh0 : toF G h ≠ 0 := ne_zero_of_pow_eq_one (q_natAbs_ne_zero hG) hh
  unfold remaskP
  simp only [toF_rep]
  rw [zpow_mod_q hG _ (g_pow_q hG) hg0, zpow_mod_q hG _ hh hh0, zpow_add₀ hg0, zpow_add₀ hh0]
  congr 2 <;> ring

theorem glue_range (hG : ValidGroup G) (a b g : StackSecret Int)
    (hl : a.length = b.length) (hpa : IsPerm a.length a) (hb : ∀ e ∈ b, e.1 < a.length)
    (hg : vtmfGlue G.q a b = .ok g) : ExpRange G g := by
  obtain ⟨g', hg', hlen, hspec⟩ := glue_ok (fun x y => (x + y) % G.q) a b hl hpa hb
  unfold vtmfGlue at hg
  rw [hg] at hg'
  injection hg' with hg'
  subst hg'
  intro e he
  obtain ⟨i, hi, rfl⟩ := List.getElem_of_mem he
  have hia : i < a.length := hlen ▸ hi
  have hf := (findPosition_spec a hpa i hia).1
  rw [hspec i hi hia (hl ▸ hia) (hl ▸ hf) (hb _ (List.getElem_mem (hl ▸ hia)))]
  exact ⟨Int.emod_nonneg _ (ne_of_gt hG.q_pos), Int.emod_lt_of_pos _ hG.q_pos⟩

/-- **mix ∘ mix = mix ∘ glue** for the discrete-log encoding.  Mixing `s` with `a` and the result
    with `b` yields *exactly* (as lists of canonical residues — `vtmfMix` reduces every
    component modulo `p`) the stack obtained by mixing `s` with `vtmfGlue q a b`, whatever the
    timing-protection flags.  Needed: equal sizes, `a` a bijection, the indices of `b` in range,
    all exponents fitting the tables (in particular every `|r| < q`), a well-formed state.
    The cards themselves may be arbitrary integers (membership in the group is not needed). -/
theorem mix_glue (hG : ValidGroup G) {St : State} (hS : StateOk G St) (s : List Card)
    (a b : StackSecret Int) (t1 t2 t3 : Bool)
    (hla : a.length = s.length) (hlb : b.length = s.length)
    (hpa : IsPerm s.length a) (hib : ∀ e ∈ b, e.1 < s.length)
    (hfa : FitsAll G a) (hfb : FitsAll G b) :
    ∃ g s1 s3, vtmfGlue G.q a b = .ok g ∧ vtmfMix St t1 s a = .ok s1 ∧
      vtmfMix St t2 s1 b = .ok s3 ∧ vtmfMix St t3 s g = .ok s3 ∧
      g.length = s.length ∧ s1.length = s.length ∧ s3.length = s.length ∧
      g.map Prod.fst = b.map (fun e => (a.map Prod.fst).getD e.1 0) ∧ ExpRange G g := by
  obtain ⟨g, s1, hg, hs1, heq, hfst⟩ := Stack.mix_glue (maskT G St.h) (remaskP G St.h)
    (fun x y => (x + y) % G.q) (fun _ _ => rfl) (remaskP_law hG hS.h_mem) s a b hla hlb hpa hib
  have hs1len : s1.length = s.length := (mixStack_spec _ _ _ _ hs1).1
  obtain ⟨s3, hs3, hs3len, -⟩ := mixStack_ok (maskT G St.h) (remaskP G St.h) (fun _ _ => rfl)
    s1 b (hlb.trans hs1len.symm) (fun e he => hs1len ▸ hib e he)
  have hgr : ExpRange G g := glue_range hG a b g (hla.trans hlb.symm) (hla ▸ hpa)
    (fun e he => hla ▸ hib e he) hg
  have hglen : g.length = s.length := by
    have := congrArg List.length hfst
    simpa [hlb] using this
  refine ⟨g, s1, s3, hg, ?_, ?_, ?_, hglen, hs1len, hs3len.trans hs1len, hfst, hgr⟩
  · rw [mix_eq_total hG hS t1 s a hfa, hs1]
  · rw [mix_eq_total hG hS t2 s1 b hfb, hs3]
  · rw [mix_eq_total hG hS t3 s g (hgr.fits hG), heq, hs3]

/-! ### the total mix in functional form -/

theorem mixT_spec {h : Int} {s : List Card} {ss : StackSecret Int} {s' : List Card}
    (hm : mixStack (maskT G h) s ss = .ok s') :
    s'.length = s.length ∧ ss.length = s.length ∧ ∀ i, i < s.length →
      (ss.getD i (0, 0)).1 < s.length ∧
      s'.getD i ⟨0, 0⟩ = remaskP G h (s.getD (ss.getD i (0, 0)).1 ⟨0, 0⟩)
        (ss.getD (ss.getD i (0, 0)).1 (0, 0)).2 := by
  obtain ⟨h1, h2, h3⟩ := mixStack_spec _ _ _ _ hm
  refine ⟨h1, h2, fun i hi => ?_⟩
  obtain ⟨j, sec, c, k, sec', e1, e2, e3, e4⟩ := h3 i (h1 ▸ hi)
  have hj : j < s.length := by
    by_contra hcon
    rw [List.getElem?_eq_none (by omega)] at e2
    cases e2
  unfold maskT at e4
  injection e4 with e4
  simp only [List.getD_eq_getElem?_getD, e1, e2, e3, Option.getD_some]
  refine ⟨hj, ?_⟩
  rw [List.getElem?_eq_getElem (h1 ▸ hi), Option.getD_some, e4]

theorem mixT_ok (h : Int) (s : List Card) (ss : StackSecret Int) (hl : ss.length = s.length)
    (hr : ∀ e ∈ ss, e.1 < s.length) : ∃ s', mixStack (maskT G h) s ss = .ok s' := by
  obtain ⟨s', h1, -⟩ := mixStack_ok (maskT G h) (remaskP G h) (fun _ _ => rfl) s ss hl hr
  exact ⟨s', h1⟩

theorem forall₂_of_getD {α β : Type} (R : α → β → Prop) (l : List α) (l' : List β) (a : α) (b : β)
    (hl : l.length = l'.length) (h : ∀ i, i < l.length → R (l.getD i a) (l'.getD i b)) :
    List.Forall₂ R l l' := by
  rw [List.forall₂_iff_get]
  refine ⟨hl, fun i h1 h2 => ?_⟩
  have := h i h1
  rwa [List.getD_eq_getElem _ _ h1, List.getD_eq_getElem _ _ h2] at this

theorem eq_of_forall₂_eq {α : Type} {l l' : List α} (h : List.Forall₂ (fun a b => a = b) l l') :
    l = l' := by
  induction h with
  | nil => rfl
  | cons h1 _ ih => rw [h1, ih]

/-! ### `find_position` inverts a bijective index component -/

omit [Fact (Nat.Prime G.p.natAbs)] in
theorem IsPerm.lt {n : Nat} {B : StackSecret Int} (hp : IsPerm n B) : ∀ e ∈ B, e.1 < n :=
  fun _ he => List.mem_range.1 (hp.mem_iff.1 (List.mem_map_of_mem he))

omit [Fact (Nat.Prime G.p.natAbs)] in
theorem IsPerm.length_eq {n : Nat} {B : StackSecret Int} (hp : IsPerm n B) : B.length = n := by
  have := List.Perm.length_eq hp
  simpa using this

theorem findPosition_getD (B : StackSecret Int) (hp : IsPerm B.length B) (k : Nat)
    (hk : k < B.length) :
    findPosition B k < B.length ∧ (B.getD (findPosition B k) (0, 0)).1 = k := by
  obtain ⟨h1, h2⟩ := findPosition_spec B hp k hk
  refine ⟨h1, ?_⟩
  rw [List.getElem?_map, List.getElem?_eq_getElem h1] at h2
  rw [List.getD_eq_getElem _ _ h1]
  simpa using h2

theorem findPosition_of_getD (B : StackSecret Int) (hp : IsPerm B.length B) (j : Nat)
    (hj : j < B.length) : findPosition B (B.getD j (0, 0)).1 = j := by
  have hnd : (B.map Prod.fst).Nodup := hp.nodup_iff.2 List.nodup_range
  have := hnd.idxOf_getElem j (by simpa using hj)
  rw [List.getD_eq_getElem _ _ hj]
  simpa [findPosition] using this

/-! ### the inverse of a stack secret -/

/-- the secret undoing `B`: position `i` carries the index `find_position_B(i)` and the exponent
    `-r_{B[i].first}` (reduced) -/
def invSecret (q : Int) (B : StackSecret Int) : StackSecret Int :=
  (List.range B.length).map fun i =>
    (findPosition B i, (-(B.getD (B.getD i (0, 0)).1 (0, 0)).2) % q)

theorem invSecret_length (q : Int) (B : StackSecret Int) : (invSecret q B).length = B.length := by
  simp [invSecret]

theorem invSecret_getD (q : Int) (B : StackSecret Int) (i : Nat) (hi : i < B.length) :
    (invSecret q B).getD i (0, 0) =
      (findPosition B i, (-(B.getD (B.getD i (0, 0)).1 (0, 0)).2) % q) := by
  rw [List.getD_eq_getElem _ _ (by rw [invSecret_length]; exact hi)]
  simp [invSecret]

theorem invSecret_fst (q : Int) (B : StackSecret Int) :
    (invSecret q B).map Prod.fst = (List.range B.length).map (findPosition B) := by
  simp [invSecret, List.map_map, Function.comp_def]

theorem invSecret_perm (q : Int) (B : StackSecret Int) (hp : IsPerm B.length B) :
    IsPerm B.length (invSecret q B) := by
  unfold IsPerm
  rw [invSecret_fst]
  have := perm_range_of_surj ((List.range B.length).map (findPosition B)) (by
    intro j hj
    simp only [List.length_map, List.length_range] at hj
    rw [List.mem_map]
    exact ⟨(B.getD j (0, 0)).1, List.mem_range.2 (hp.lt _ (by
      rw [List.getD_eq_getElem _ _ hj]; exact List.getElem_mem hj)),
      findPosition_of_getD B hp j hj⟩)
  simpa using this

theorem invSecret_range (hG : ValidGroup G) (B : StackSecret Int) : ExpRange G (invSecret G.q B) := by
  intro e he
  unfold invSecret at he
  rw [List.mem_map] at he
  obtain ⟨i, -, rfl⟩ := he
  exact ⟨Int.emod_nonneg _ (ne_of_gt hG.q_pos), Int.emod_lt_of_pos _ hG.q_pos⟩

theorem remaskP_inv (hG : ValidGroup G) {h : Int} (hh : toF G h ^ G.q.natAbs = 1) (c : Card)
    (a : Int) : CardEq G (remaskP G h (remaskP G h c a) (-a % G.q)) c := by
  rw [remaskP_law hG hh]
  have : (a + -a % G.q) % G.q = 0 := by
    rw [Int.add_emod_emod]; simp
  rw [this]
  unfold remaskP CardEq
  simp [toF_rep]

/-- mixing with `B` and then with its inverse gives back the stack (as group elements; exactly,
    when the stack was in canonical form) -/
theorem mix_inv (hG : ValidGroup G) {h : Int} (hh : toF G h ^ G.q.natAbs = 1)
    (s2 s4 s3 : List Card) (B : StackSecret Int) (hp : IsPerm B.length B)
    (hm1 : mixStack (maskT G h) s2 B = .ok s4)
    (hm2 : mixStack (maskT G h) s4 (invSecret G.q B) = .ok s3) :
    List.Forall₂ (CardEq G) s3 s2 ∧ ∀ c ∈ s3, Reduced G c := by
  obtain ⟨l1, l2, sp1⟩ := mixT_spec hm1
  obtain ⟨l3, l4, sp2⟩ := mixT_spec hm2
  have key : ∀ k, k < s2.length → s3.getD k ⟨0, 0⟩ =
      remaskP G h (remaskP G h (s2.getD k ⟨0, 0⟩) (B.getD k (0, 0)).2)
        (-(B.getD k (0, 0)).2 % G.q) := by
    intro k hk
    have hkB : k < B.length := l2 ▸ hk
    obtain ⟨f1, f2⟩ := findPosition_getD B hp k hkB
    have e1 := (sp2 k (l1 ▸ hk)).2
    rw [invSecret_getD _ _ _ hkB] at e1
    simp only at e1
    rw [invSecret_getD _ _ _ f1, f2] at e1
    have e2 := (sp1 (findPosition B k) (l2 ▸ f1)).2
    rw [f2] at e2
    rw [e1, e2]
  constructor
  · apply forall₂_of_getD (CardEq G) s3 s2 ⟨0, 0⟩ ⟨0, 0⟩ (l3.trans l1)
    intro k hk
    rw [key k (by rw [← l1, ← l3]; exact hk)]
    exact remaskP_inv hG hh _ _
  · intro c hc
    obtain ⟨k, hk, rfl⟩ := List.getElem_of_mem hc
    have := key k (by rw [← l1, ← l3]; exact hk)
    rw [List.getD_eq_getElem _ _ hk] at this
    rw [this]
    exact remaskP_reduced hG _ _ _

/-! ### cyclic shifts -/

theorem isCyclic_iff (idx : List Nat) : isCyclic idx = true ↔
    ∀ j, j < idx.length → idx.getD j 0 = (idx.getD 0 0 + j) % idx.length := by
  cases idx with
  | nil => simp [isCyclic]
  | cons c0 rest =>
    simp only [isCyclic, List.all_eq_true, List.mem_range, beq_iff_eq]
    simp

/-- the composition of a cyclic shift with the inverse of a cyclic shift is a cyclic shift -/
theorem cyclic_comp_inv (q : Int) (A B : StackSecret Int) (hl : A.length = B.length)
    (hpB : IsPerm B.length B)
    (hcA : isCyclic (A.map Prod.fst) = true) (hcB : isCyclic (B.map Prod.fst) = true) :
    isCyclic ((invSecret q B).map (fun e => (A.map Prod.fst).getD e.1 0)) = true := by
  rw [isCyclic_iff] at hcA hcB ⊢
  simp only [List.length_map] at hcA hcB ⊢
  rw [invSecret_length]
  have hL : ∀ k, k < B.length →
      ((invSecret q B).map (fun e => (A.map Prod.fst).getD e.1 0)).getD k 0 =
        (A.map Prod.fst).getD (findPosition B k) 0 := by
    intro k hk
    rw [List.getD_eq_getElem _ _ (by simpa [invSecret_length] using hk)]
    simp [invSecret]
  have hB : ∀ k, k < B.length → ((B.map Prod.fst).getD 0 0 + findPosition B k) % B.length = k := by
    intro k hk
    obtain ⟨f1, f2⟩ := findPosition_getD B hpB k hk
    rw [← hcB _ f1]
    rw [List.getD_eq_getElem _ _ (by simpa using f1)]
    rw [List.getD_eq_getElem _ _ f1] at f2
    simpa using f2
  intro k hk
  have h0 : 0 < B.length := by omega
  rw [hL k hk, hL 0 h0, hcA _ (hl ▸ (findPosition_getD B hpB k hk).1),
    hcA _ (hl ▸ (findPosition_getD B hpB 0 h0).1), hl]
  generalize (A.map Prod.fst).getD 0 0 = a0
  have h1 := hB k hk
  have h2 := hB 0 h0
  generalize (B.map Prod.fst).getD 0 0 = b0 at h1 h2
  generalize findPosition B k = pk at h1 ⊢
  generalize findPosition B 0 = p0 at h2 ⊢
  generalize B.length = n at *
  show (a0 + pk) ≡ ((a0 + p0) % n + k) [MOD n]
  have g1 : b0 + pk ≡ k [MOD n] := by
    show (b0 + pk) % n = k % n
    rw [h1, Nat.mod_eq_of_lt hk]
  have g2 : b0 + p0 ≡ 0 [MOD n] := by
    show (b0 + p0) % n = 0 % n
    rw [h2]
  have g3 : (a0 + p0) % n + k ≡ a0 + p0 + k [MOD n] := (Nat.mod_modEq _ _).add_right k
  refine Nat.ModEq.trans ?_ g3.symm
  apply Nat.ModEq.add_left_cancel' b0
  have e1 : b0 + (a0 + pk) = a0 + (b0 + pk) := by omega
  have e2 : b0 + (a0 + p0 + k) = a0 + ((b0 + p0) + k) := by omega
  rw [e1, e2]
  exact (g1.add_left a0).trans (by simpa using ((g2.add_right k).add_left a0).symm)

/-! ### one verifier round -/

omit [Fact (Nat.Prime G.p.natAbs)] in
theorem verifyRound_ok_iff (H : Hash) (St : State) (s s2 : List Card) (cyclic : Bool) (commit : Int)
    (b : Bool) (ss : StackSecret Int) :
    verifyRound H St s s2 cyclic commit b ss = .ok true ↔
      ss.length = s.length ∧ ∃ s4, vtmfMix St false (if b then s2 else s) ss = .ok s4 ∧
        commitment H s4 = commit ∧ (cyclic = true → isCyclic (ss.map Prod.fst) = true) := by
  unfold verifyRound
  by_cases hl : ss.length = s.length
  · cases hm : vtmfMix St false (if b = true then s2 else s) ss with
    | error e => simp [hl, hm, bind, Except.bind]
    | ok s4 =>
      by_cases hc : commitment H s4 = commit
      · by_cases hy : cyclic = true ∧ (!isCyclic (ss.map Prod.fst)) = true
        · have : ¬ (cyclic = true → isCyclic (ss.map Prod.fst) = true) := by
            intro hcon
            have := hcon hy.1
            simp [this] at hy
          simp [hl, hm, hc, hy, bind, Except.bind, pure, Except.pure, this]
        · have : cyclic = true → isCyclic (ss.map Prod.fst) = true := by
            intro h1
            by_contra h2
            exact hy ⟨h1, by simpa using h2⟩
          simp [hl, hm, hc, hy, bind, Except.bind, pure, Except.pure, this]
      · simp [hl, hm, hc, bind, Except.bind, pure, Except.pure]
  · simp [hl, bind, Except.bind, pure, Except.pure]

/-- **C04, soundness core.**  If for ONE commitment value both challenge bits are answerable,
    then either the two hashed stack texts form an explicit collision of `H`, or `s2` is a
    re-masked permutation of `s` (a cyclic shift when `cyclic`): the witness `ss` is extracted
    as `glue ssA (ssB⁻¹)`.

    Hypotheses that the statement needs for this model:
    * the index components of both responses are bijections — `verifyRound` itself does not
      test this, `Codec.importStackSecret` (through which `verify` obtains every response) does
      (`Codec.importStackSecret_bijection`);
    * the exponents of both responses fit the fixed-base tables (`FitsAll`).  WITHOUT this the
      statement is FALSE for the model (and for the C++ code): an exponent with more than `|q|`
      bits makes `tmcg_mpz_fpowm` multiply with a table entry that was never computed (zero), so
      every mixed card is `(0, 0)` whatever the input stack, and both challenges are answerable
      for any pair of stacks — see `unsound_without_fits` below. -/
theorem stackeq_round_extract (hG : ValidGroup G) {St : State} (hS : StateOk G St) (H : Hash)
    (s s2 : List Card) (cyclic : Bool) (commit : Int) (ssA ssB : StackSecret Int)
    (hpA : IsPerm ssA.length ssA) (hpB : IsPerm ssB.length ssB)
    (hfA : FitsAll G ssA) (hfB : FitsAll G ssB)
    (hA : verifyRound H St s s2 cyclic commit false ssA = .ok true)
    (hB : verifyRound H St s s2 cyclic commit true ssB = .ok true) :
    (∃ sA sB, vtmfMix St false s ssA = .ok sA ∧ vtmfMix St false s2 ssB = .ok sB ∧
        Codec.stackText sA ++ "\n" ≠ Codec.stackText sB ++ "\n" ∧
        H (Codec.stackText sA ++ "\n") = H (Codec.stackText sB ++ "\n")) ∨
    (∃ ss s2', IsPerm s.length ss ∧ ExpRange G ss ∧
        (cyclic = true → isCyclic (ss.map Prod.fst) = true) ∧
        vtmfMix St false s ss = .ok s2' ∧ List.Forall₂ (CardEq G) s2' s2 ∧
        ((∀ c ∈ s2, Reduced G c) → s2' = s2)) := by
  rw [verifyRound_ok_iff] at hA hB
  obtain ⟨lA, s4, mA, cA, yA⟩ := hA
  obtain ⟨lB, s4', mB, cB, yB⟩ := hB
  simp only [Bool.false_eq_true, if_false] at mA
  simp only [if_true] at mB
  by_cases ht : Codec.stackText s4 ++ "\n" = Codec.stackText s4' ++ "\n"
  swap
  · left
    refine ⟨s4, s4', mA, mB, ht, ?_⟩
    unfold commitment at cA cB
    rw [cA, cB]
  right
  have := stackText_nl_injective _ _ ht
  subst this
  have mB' := mB
  rw [mix_eq_total hG hS false s2 ssB hfB] at mB'
  obtain ⟨l41, l2B, -⟩ := mixT_spec mB'
  have hs2 : s2.length = s.length := l2B.symm.trans lB
  have hIl : (invSecret G.q ssB).length = s.length := by rw [invSecret_length, lB]
  have hIp : IsPerm s.length (invSecret G.q ssB) := lB ▸ invSecret_perm G.q ssB hpB
  have hIr := invSecret_range hG ssB
  obtain ⟨g, s1, s3, hg, hs1, hs3, hgs, hgl, -, hs3l, hfst, hgr⟩ :=
    mix_glue hG hS s ssA (invSecret G.q ssB) false false false lA hIl (lA ▸ hpA) hIp.lt hfA
      (hIr.fits hG)
  rw [mA] at hs1
  injection hs1 with hs1
  subst hs1
  have hgp : IsPerm s.length g := by
    have := glue_perm (fun x y => (x + y) % G.q) ssA (invSecret G.q ssB) g (lA.trans hIl.symm)
      hpA (by rw [hIl]; exact hIp) hg
    rwa [hgl] at this
  rw [mix_eq_total hG hS false s4 _ (hIr.fits hG)] at hs3
  obtain ⟨hF, hR⟩ := mix_inv hG hS.h_mem s2 s4 s3 ssB hpB mB' hs3
  refine ⟨g, s3, hgp, hgr, ?_, hgs, hF, ?_⟩
  · intro hc
    rw [hfst]
    exact cyclic_comp_inv G.q ssA ssB (lA.trans lB.symm) hpB (yA hc) (yB hc)
  · intro hred
    apply eq_of_forall₂_eq
    refine hF.imp ?_
    intro c c' hcc
    sorry

end field

end Tmcg.CutChoose
