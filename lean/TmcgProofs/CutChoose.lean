import Tmcg.Model.StackEq
import TmcgProofs.Stack
import TmcgProofs.Codec
import TmcgProofs.Group
import TmcgProofs.SigmaComplete
/-
  C03 / C04 for the cut-and-choose proof of stack equality (shuffle and rotation) of
  Tmcg/Model/StackEq.lean, discrete-log encoding.
-/
namespace Tmcg.CutChoose
open Tmcg Tmcg.Powm Tmcg.Vtmf Tmcg.Grp Tmcg.Sigma Tmcg.Stack Tmcg.StackEq Tmcg.SigmaComplete

variable {G : Group}

/-! ### exponents that fit the fixed-base tables -/

/-- the exponent has at most as many bits as `q`: exactly the exponents for which the fixed-base
    tables (built with `|q|` entries) are complete.  Every `|r| < q` fits. -/
def Fits (G : Group) (r : Int) : Prop := bitlen r ≤ bitlen G.q

theorem bitlen_pos (x : Int) : 1 ≤ bitlen x := by
  unfold bitlen
  simp only
  split <;> omega

theorem tableSize_eq (hG : ValidGroup G) : tableSize (tableLen G) = bitlen G.q := by
  have h1 := hG.q_fits
  have h2 := bitlen_pos G.q
  unfold tableSize tableLen
  omega

theorem fits_of_lt (hG : ValidGroup G) {r : Int} (h : r.natAbs < G.q.natAbs) : Fits G r := by
  have := bitlen_le_tableSize hG r h
  rwa [tableSize_eq hG] at this

theorem fits_of_range (hG : ValidGroup G) {r : Int} (h : 0 ≤ r ∧ r < G.q) : Fits G r :=
  fits_of_lt hG (by have := hG.q_pos; omega)

section field
variable [Fact (Nat.Prime G.p.natAbs)]

theorem fpowm_fits (hG : ValidGroup G) (T : Table) (b e : Int) (hT : IsTable G T b)
    (hb : toF G b ≠ 0) (he : Fits G e) :
    ∃ r, fpowm T b e G.p = .ok r ∧ 0 ≤ r ∧ r < G.p ∧ toF G r = toF G b ^ e := by
  rw [fpowm_spec b G.p (tableLen G) (one_lt_p hG) T hT e (by rw [tableSize_eq hG]; exact he)]
  by_cases h0 : 0 ≤ e
  · rw [if_pos h0]
    refine ⟨_, rfl, (emod_bounds hG _).1, (emod_bounds hG _).2, ?_⟩
    rw [toF_emod hG, toF_pow, pow_natAbs_of_nonneg _ h0]
  · rw [if_neg h0]
    have hne : toF G (b ^ e.natAbs % G.p) ≠ 0 := by
      rw [toF_emod hG, toF_pow]; exact pow_ne_zero _ hb
    obtain ⟨r, hr, hr0, hr1, hv⟩ := invm_val hG _ hne
    refine ⟨r, by rw [hr], hr0, hr1, ?_⟩
    rw [hv, toF_emod hG, toF_pow, inv_pow_natAbs_of_neg _ (not_le.mp h0)]

theorem fspowm_fits (hG : ValidGroup G) (T : Table) (b e : Int) (hT : IsTable G T b)
    (hb : toF G b ≠ 0) (he : Fits G e) :
    ∃ r, fspowm T b e G.p = .ok r ∧ 0 ≤ r ∧ r < G.p ∧ toF G r = toF G b ^ e := by
  rw [fspowm_spec b G.p (tableLen G) (one_lt_p hG) T hT e (by rw [tableSize_eq hG]; exact he)]
  have hne : toF G (b ^ e.natAbs % G.p) ≠ 0 := by
    rw [toF_emod hG, toF_pow]; exact pow_ne_zero _ hb
  obtain ⟨r, hr, hr0, hr1, hv⟩ := invm_val hG _ hne
  simp only [hr]
  by_cases h0 : 0 ≤ e
  · simp only [h0, if_true]
    refine ⟨_, rfl, (emod_bounds hG _).1, (emod_bounds hG _).2, ?_⟩
    rw [toF_emod hG, toF_pow, pow_natAbs_of_nonneg _ h0]
  · simp only [h0, if_false]
    refine ⟨r, rfl, hr0, hr1, ?_⟩
    rw [hv, toF_emod hG, toF_pow, inv_pow_natAbs_of_neg _ (not_le.mp h0)]

/-! ### canonical residues and the re-masking function -/

/-- the canonical residue of a field element -/
def rep (x : F G) : Int := ((ZMod.val x : Nat) : Int)

theorem toF_rep (x : F G) : toF G (rep x) = x := by
  unfold toF rep
  rw [Int.cast_natCast, ZMod.natCast_zmod_val]

theorem rep_range (hG : ValidGroup G) (x : F G) : 0 ≤ rep x ∧ rep x < G.p := by
  unfold rep
  refine ⟨Int.natCast_nonneg _, ?_⟩
  have h1 := ZMod.val_lt x
  have h2 := natAbs_p hG
  omega

theorem rep_toF (hG : ValidGroup G) {a : Int} (h : 0 ≤ a ∧ a < G.p) : rep (toF G a) = a :=
  eq_of_toF_eq hG (rep_range hG _) h (toF_rep _)

/-- a card in canonical form -/
def Reduced (G : Group) (c : Card) : Prop := (0 ≤ c.c1 ∧ c.c1 < G.p) ∧ (0 ≤ c.c2 ∧ c.c2 < G.p)

/-- equality of cards as pairs of field elements -/
def CardEq (G : Group) (c c' : Card) : Prop := toF G c.c1 = toF G c'.c1 ∧ toF G c.c2 = toF G c'.c2

theorem CardEq.eq_of_reduced (hG : ValidGroup G) {c c' : Card} (h : CardEq G c c')
    (hc : Reduced G c) (hc' : Reduced G c') : c = c' := by
  cases c; cases c'
  simp only [Card.mk.injEq]
  exact ⟨eq_of_toF_eq hG hc.1 hc'.1 h.1, eq_of_toF_eq hG hc.2 hc'.2 h.2⟩

/-- what `VerifiableRemaskingProtocol_Remask` computes for an exponent that fits the tables:
    `(g^r c_1, h^r c_2)` as canonical residues -/
def remaskP (G : Group) [Fact (Nat.Prime G.p.natAbs)] (h : Int) (c : Card) (r : Int) : Card :=
  ⟨rep (toF G G.g ^ r * toF G c.c1), rep (toF G h ^ r * toF G c.c2)⟩

theorem remaskP_reduced (hG : ValidGroup G) (h : Int) (c : Card) (r : Int) :
    Reduced G (remaskP G h c r) := ⟨rep_range hG _, rep_range hG _⟩

/-- re-masking never fails on an exponent that fits, and its result does not depend on the
    timing-attack protection flag -/
theorem remask_eq (hG : ValidGroup G) {S : State} (hS : StateOk G S) (c : Card) (r : Int)
    (hr : Fits G r) (tap : Bool) : remask S c r tap = .ok (remaskP G S.h c r) := by
  have hh0 : toF G S.h ≠ 0 := hS.mem_h.ne_zero hG
  have hgrp := hS.grp
  have key : ∀ a b : Int, toF G a = toF G G.g ^ r → toF G b = toF G S.h ^ r →
      (⟨a * c.c1 % G.p, b * c.c2 % G.p⟩ : Card) = remaskP G S.h c r := by
    intro a b ha hb
    unfold remaskP
    congr 1
    · exact eq_of_toF_eq hG (emod_bounds hG _) (rep_range hG _)
        (by rw [toF_emod hG, toF_mul, ha, toF_rep])
    · exact eq_of_toF_eq hG (emod_bounds hG _) (rep_range hG _)
        (by rw [toF_emod hG, toF_mul, hb, toF_rep])
  cases tap with
  | true =>
    obtain ⟨a, ha, _, _, hav⟩ := fspowm_fits hG S.tabG G.g r hS.tabG (g_ne_zero hG) hr
    obtain ⟨b, hb, _, _, hbv⟩ := fspowm_fits hG S.tabH S.h r hS.tabH hh0 hr
    unfold remask
    simp only [if_true, hgrp, ha, hb, bind, Except.bind]
    rw [key a b hav hbv]
  | false =>
    obtain ⟨a, ha, _, _, hav⟩ := fpowm_fits hG S.tabG G.g r hS.tabG (g_ne_zero hG) hr
    obtain ⟨b, hb, _, _, hbv⟩ := fpowm_fits hG S.tabH S.h r hS.tabH hh0 hr
    unfold remask
    simp only [Bool.false_eq_true, if_false, hgrp, ha, hb, bind, Except.bind]
    rw [key a b hav hbv]

end field

end Tmcg.CutChoose
