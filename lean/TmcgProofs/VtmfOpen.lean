import Tmcg.Model.Vtmf
import TmcgProofs.Group
/-
  C01 (discrete-log encoding): opening a masked card returns its type.
-/
namespace Tmcg.VtmfOpen
open Tmcg Tmcg.Powm Tmcg.Vtmf Tmcg.Grp

variable {G : Group}

/-- the hypotheses on a game: `k ≥ 1` players with secrets in `[0,q)`, `2^w ≤ q` card types,
    a chain of masking exponents `|r| < q` (negative ones are legal inputs of `Remask`),
    one timing-protection flag per exponent -/
structure GameOk (G : Group) (xs : List Int) (w T : Nat) (priv : Bool) (rs : List Int)
    (taps : List Bool) (opener : Nat) : Prop where
  valid : ValidGroup G
  xs_ne : xs ≠ []
  xs_range : ∀ x ∈ xs, 0 ≤ x ∧ x < G.q
  w_fits : 2 ^ w ≤ G.q.natAbs
  type_lt : T < 2 ^ w
  rs_range : ∀ r ∈ rs, r.natAbs < G.q.natAbs
  taps_len : taps.length = rs.length
  priv_ok : priv = true → rs ≠ []
  opener_lt : opener < xs.length

/-- all players compute the same common key `h = g^(Σ x_j)`, and every player state is
    well formed (tables for `g` and `h`) -/
theorem players_spec (hG : ValidGroup G) (xs : List Int) (hx : ∀ x ∈ xs, 0 ≤ x ∧ x < G.q) :
    haveI := fact_prime hG
    ∃ sts, players G xs = .ok sts ∧ sts.length = xs.length ∧
      ∀ j (hj : j < sts.length), ∃ (hj' : j < xs.length),
        sts[j].G = G ∧ sts[j].x = xs[j] ∧
        0 ≤ sts[j].h ∧ sts[j].h < G.p ∧ toF G sts[j].h = toF G G.g ^ xs.sum ∧
        IsTable G sts[j].tabG G.g ∧ IsTable G sts[j].tabH sts[j].h := by
  sorry

/-- **C01**: with the contributions of all players, the card opens to exactly the type it was
    created with — for every group, number of players, secrets, type, chain of maskings,
    timing-protection choice, open or private creation, opener and order of the shares. -/
theorem open_correct (xs : List Int) (w T : Nat) (priv : Bool) (rs : List Int) (taps : List Bool)
    (opener : Nat) (present : List Nat)
    (hok : GameOk G xs w T priv rs taps opener)
    (hpres : present.Perm ((List.range xs.length).erase opener)) :
    ∃ res, openRun G xs w T priv rs taps present opener = .ok res ∧ res.type = T := by
  sorry

/-- **C01**, missing contributions: if the shares of the players in `missing ≠ ∅` do not reach
    the opener, the decrypted message is `g^(T + R·X)` with `R` the accumulated masking exponent
    and `X` the missing key sum; the result is the sentinel `2^w` unless that exponent happens to
    be congruent to some `t' < 2^w` modulo `q`, and it differs from `T` whenever `R·X ≢ 0 (mod q)`. -/
theorem open_missing_share (xs : List Int) (w T : Nat) (priv : Bool) (rs : List Int) (taps : List Bool)
    (opener : Nat) (present missing : List Nat)
    (hok : GameOk G xs w T priv rs taps opener)
    (hsplit : (present ++ missing).Perm ((List.range xs.length).erase opener))
    (hmiss : missing ≠ []) :
    ∃ res, openRun G xs w T priv rs taps present opener = .ok res ∧
      (res.type = 2 ^ w ∨
        (res.type < 2 ^ w ∧
          ((res.type : Int) - (T + rs.sum * (missing.map fun j => xs.getD j 0).sum)) % G.q = 0)) ∧
      ((rs.sum * (missing.map fun j => xs.getD j 0).sum) % G.q ≠ 0 → res.type ≠ T) := by
  sorry

/-- the plaintext of a card under the joint secret `X`: `c_2 / c_1^X` in the field -/
noncomputable def plain (G : Group) [Fact (Nat.Prime G.p.natAbs)] (X : Int) (c : Card) : F G :=
  toF G c.c2 / toF G c.c1 ^ X

/-- re-masking (with either exponentiation variant) preserves the plaintext: this is the
    `hpres` hypothesis of C02's `mix_opens_to_source` for the discrete-log encoding -/
theorem remask_preserves_plain (hG : ValidGroup G) (S : State) (X : Int)
    (hS : S.G = G) (hTg : IsTable G S.tabG G.g) (hTh : IsTable G S.tabH S.h)
    (hh : haveI := fact_prime hG; toF G S.h = toF G G.g ^ X)
    (c : Card) (hc1 : haveI := fact_prime hG; toF G c.c1 ≠ 0) (r : Int) (hr : r.natAbs < G.q.natAbs) (tap : Bool) :
    haveI := fact_prime hG
    ∃ c', remask S c r tap = .ok c' ∧ plain G X c' = plain G X c ∧ toF G c'.c1 ≠ 0 := by
  sorry

end Tmcg.VtmfOpen
