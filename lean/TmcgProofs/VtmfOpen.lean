import Tmcg.Model.Vtmf
import TmcgProofs.Group
/-
  C01 (discrete-log encoding): opening a masked card returns its type.
-/
namespace Tmcg.VtmfOpen
open Tmcg Tmcg.Powm Tmcg.Vtmf Tmcg.Grp

variable {G : Group}

/-- the hypotheses on a game: `k ≥ 1` players with secrets in `[0,q)`, `2^w ≤ q` card types,
    a chain of masking exponents `|r| < q` (negative ones are legal inputs of `Remask`),
    one timing-protection flag per exponent -/
structure GameOk (G : Group) (xs : List Int) (w T : Nat) (priv : Bool) (rs : List Int)
    (taps : List Bool) (opener : Nat) : Prop where
  valid : ValidGroup G
  xs_ne : xs ≠ []
  xs_range : ∀ x ∈ xs, 0 ≤ x ∧ x < G.q
  w_fits : 2 ^ w ≤ G.q.natAbs
  type_lt : T < 2 ^ w
  rs_range : ∀ r ∈ rs, r.natAbs < G.q.natAbs
  taps_len : taps.length = rs.length
  priv_ok : priv = true → rs ≠ []
  opener_lt : opener < xs.length

/-! ### generic helpers -/

theorem mapM_ok_forall₂ {α β : Type} (f : α → Except Err β) (P : α → β → Prop) :
    ∀ (l : List α), (∀ a ∈ l, ∃ b, f a = .ok b ∧ P a b) →
      ∃ r, l.mapM f = .ok r ∧ List.Forall₂ P l r := by
  intro l
  induction l with
  | nil => intro _; exact ⟨[], by simp [pure, Except.pure], List.Forall₂.nil⟩
  | cons a l ih =>
    intro h
    obtain ⟨b, hb, hP⟩ := h a (by simp)
    obtain ⟨r, hr, hF⟩ := ih (fun x hx => h x (by simp [hx]))
    exact ⟨b :: r, by rw [List.mapM_cons, hb, hr]; simp [bind, Except.bind, pure, Except.pure],
      List.Forall₂.cons hP hF⟩

theorem mapM_ok_forall₂' {α β γ : Type} (f : α → Except Err β) (Q : γ → α → Prop)
    (P : γ → β → Prop) (hf : ∀ x a, Q x a → ∃ b, f a = .ok b ∧ P x b) :
    ∀ (xs : List γ) (l : List α), List.Forall₂ Q xs l →
      ∃ r, l.mapM f = .ok r ∧ List.Forall₂ P xs r := by
  intro xs l h
  induction h with
  | nil => exact ⟨[], by simp [pure, Except.pure], List.Forall₂.nil⟩
  | cons hQ _ ih =>
    obtain ⟨b, hb, hP⟩ := hf _ _ hQ
    obtain ⟨r, hr, hF⟩ := ih
    exact ⟨b :: r, by rw [List.mapM_cons, hb, hr]; simp [bind, Except.bind, pure, Except.pure],
      List.Forall₂.cons hP hF⟩

theorem range_map_getD (xs : List Int) : (List.range xs.length).map (fun j => xs.getD j 0) = xs := by
  apply List.ext_getElem
  · simp
  · intro i h1 h2
    simp at h1
    simp [h1]

theorem sum_split (xs : List Int) (opener : Nat) (h : opener < xs.length) (present missing : List Nat)
    (hsplit : (present ++ missing).Perm ((List.range xs.length).erase opener)) :
    xs.getD opener 0 + (present.map fun j => xs.getD j 0).sum + (missing.map fun j => xs.getD j 0).sum
      = xs.sum := by
  have h1 : (List.range xs.length).Perm (opener :: (List.range xs.length).erase opener) :=
    List.perm_cons_erase (List.mem_range.2 h)
  have h2 := (h1.map (fun j => xs.getD j 0)).sum_eq
  have h3 := (hsplit.map (fun j => xs.getD j 0)).sum_eq
  rw [range_map_getD] at h2
  rw [List.map_cons, List.sum_cons] at h2
  rw [List.map_append, List.sum_append] at h3
  rw [h2, ← h3]; ring

theorem bind_ok_eq {α β : Type} {x : Except Err α} {a : α} (h : x = .ok a)
    (f : α → Except Err β) : (x >>= f) = f a := by
  subst h; rfl

theorem natAbs_lt_q (hG : ValidGroup G) {x : Int} (h : 0 ≤ x ∧ x < G.q) :
    x.natAbs < G.q.natAbs := by
  have := hG.q_pos; omega

theorem keyFold_red (hG : ValidGroup G) : ∀ (l : List Int) (a : Int), (0 ≤ a ∧ a < G.p) →
    0 ≤ l.foldl (fun acc hi => acc * hi % G.p) a ∧ l.foldl (fun acc hi => acc * hi % G.p) a < G.p := by
  intro l
  induction l with
  | nil => intro a ha; simpa using ha
  | cons b l ih =>
    intro a _
    rw [List.foldl_cons]
    exact ih _ ⟨Int.emod_nonneg _ (ne_of_gt hG.p_pos), Int.emod_lt_of_pos _ hG.p_pos⟩

section spec
variable [Fact (Nat.Prime G.p.natAbs)]

theorem mkState_spec (hG : ValidGroup G) :
    ∃ tg, IsTable G tg G.g ∧ mkState G = .ok { G := G, tabG := tg, tabH := ⟨[]⟩ } := by
  obtain ⟨tg, htg⟩ := table_exists hG G.g
  refine ⟨tg, htg, ?_⟩
  unfold mkState
  unfold IsTable at htg
  rw [htg]; rfl

theorem generateKey_spec (hG : ValidGroup G) (S : State) (hS : S.G = G)
    (hT : IsTable G S.tabG G.g) (x : Int) (hx : 0 ≤ x ∧ x < G.q) :
    ∃ hi, generateKey S x = .ok { S with x := x, hi := hi, h := hi } ∧
      0 ≤ hi ∧ hi < G.p ∧ toF G hi = toF G G.g ^ x := by
  subst hS
  obtain ⟨r, h1, h2, h3, h4⟩ := fspowm_val hG S.tabG S.G.g x hT (g_ne_zero hG) (natAbs_lt_q hG hx)
  exact ⟨r, by unfold generateKey; rw [h1]; rfl, h2, h3, h4⟩

theorem finalize_spec (hG : ValidGroup G) (S : State) (hS : S.G = G) :
    ∃ th, finalize S = .ok { S with tabH := th } ∧ IsTable G th S.h := by
  subst hS
  obtain ⟨th, hth⟩ := table_exists hG S.h
  refine ⟨th, ?_, hth⟩
  unfold finalize
  unfold IsTable at hth
  rw [hth]; rfl

theorem keyFold_val (hG : ValidGroup G) (xs : List Int) (sts : List State)
    (h : List.Forall₂ (fun x S => toF G S.hi = toF G G.g ^ x) xs sts) :
    ∀ a, toF G ((sts.map (·.hi)).foldl (fun acc hi => acc * hi % G.p) a)
      = toF G a * toF G G.g ^ xs.sum := by
  induction h with
  | nil => intro a; simp
  | cons hhd _ ih =>
    intro a
    rw [List.map_cons, List.foldl_cons, ih, toF_emod hG, toF_mul, hhd, List.sum_cons,
      zpow_add₀ (g_ne_zero hG), mul_assoc]


end spec

/-- all players compute the same common key `h = g^(Σ x_j)`, and every player state is
    well formed (tables for `g` and `h`) -/
theorem players_spec (hG : ValidGroup G) (xs : List Int) (hx : ∀ x ∈ xs, 0 ≤ x ∧ x < G.q) :
    haveI := fact_prime hG
    ∃ sts, players G xs = .ok sts ∧ sts.length = xs.length ∧
      ∀ j (hj : j < sts.length), ∃ (hj' : j < xs.length),
        sts[j].G = G ∧ sts[j].x = xs[j] ∧
        0 ≤ sts[j].h ∧ sts[j].h < G.p ∧ toF G sts[j].h = toF G G.g ^ xs.sum ∧
        IsTable G sts[j].tabG G.g ∧ IsTable G sts[j].tabH sts[j].h := by
  have := fact_prime hG
  obtain ⟨tg, htg, hmk⟩ := mkState_spec hG
  obtain ⟨sts1, hm1, hF1⟩ := mapM_ok_forall₂
    (fun x => generateKey { G := G, tabG := tg, tabH := ⟨[]⟩ } x)
    (fun x S => ∃ hi, S = { G := G, tabG := tg, tabH := ⟨[]⟩, x := x, hi := hi, h := hi } ∧
      toF G hi = toF G G.g ^ x) xs (by
      intro x hxm
      obtain ⟨hi, h1, _, _, h4⟩ := generateKey_spec hG { G := G, tabG := tg, tabH := ⟨[]⟩ } rfl htg x
        (hx x hxm)
      exact ⟨_, h1, hi, rfl, h4⟩)
  have hF1' : List.Forall₂ (fun x S => toF G S.hi = toF G G.g ^ x) xs sts1 :=
    hF1.imp (by rintro x S ⟨hi, rfl, h⟩; exact h)
  generalize hh : (sts1.map (·.hi)).foldl (fun acc hi => acc * hi % G.p) 1 = h
  have hval : toF G h = toF G G.g ^ xs.sum := by
    rw [← hh, keyFold_val hG xs sts1 hF1' 1, toF_one, one_mul]
  have hred : 0 ≤ h ∧ h < G.p := by
    rw [← hh]; exact keyFold_red hG _ 1 ⟨by omega, one_lt_p hG⟩
  obtain ⟨sts, hm2, hF2⟩ := mapM_ok_forall₂'
    (fun S : State => finalize { S with h := h }) _
    (fun x S' => ∃ hi th, S' = { G := G, tabG := tg, tabH := th, x := x, hi := hi, h := h } ∧
      IsTable G th h) (by
      rintro x S ⟨hi, rfl, _⟩
      obtain ⟨th, h1, h2⟩ := finalize_spec hG
        { G := G, tabG := tg, tabH := ⟨[]⟩, x := x, hi := hi, h := h } rfl
      exact ⟨_, h1, hi, th, rfl, h2⟩) xs sts1 hF1
  refine ⟨sts, ?_, ?_⟩
  · unfold players
    rw [hmk]
    simp only [bind, Except.bind]
    rw [hm1]
    simp only [hh]
    exact hm2
  rw [List.forall₂_iff_get] at hF2
  obtain ⟨hlen, hget⟩ := hF2
  refine ⟨hlen.symm, fun j hj => ⟨hlen ▸ hj, ?_⟩⟩
  obtain ⟨hi, th, he, hth⟩ := hget j (hlen ▸ hj) hj
  simp only [List.get_eq_getElem] at he
  rw [he]
  exact ⟨rfl, rfl, hred.1, hred.2, hval, htg, hth⟩


section spec
variable [Fact (Nat.Prime G.p.natAbs)]

/-! ### cards -/

theorem indexElement_spec (hG : ValidGroup G) (S : State) (hS : S.G = G)
    (hT : IsTable G S.tabG G.g) (t : Nat) (ht : t < G.q.natAbs) :
    ∃ e, indexElement S t = .ok e ∧ 0 ≤ e ∧ e < G.p ∧ toF G e = toF G G.g ^ t := by
  subst hS
  exact fpowmUi_val hG S.tabG S.G.g t hT ht

theorem mask_spec (hG : ValidGroup G) (S : State) (hS : S.G = G)
    (hTg : IsTable G S.tabG G.g) (hTh : IsTable G S.tabH S.h) (hh : toF G S.h ≠ 0)
    (m r : Int) (hr : r.natAbs < G.q.natAbs) :
    ∃ c, mask S m r = .ok c ∧ toF G c.c1 = toF G G.g ^ r ∧
      toF G c.c2 = toF G S.h ^ r * toF G m := by
  subst hS
  obtain ⟨a, ha, _, _, hav⟩ := fspowm_val hG S.tabG S.G.g r hTg (g_ne_zero hG) hr
  obtain ⟨b, hb, _, _, hbv⟩ := fspowm_val hG S.tabH S.h r hTh hh hr
  refine ⟨⟨a, b * m % S.G.p⟩, ?_, hav, ?_⟩
  · unfold mask; rw [ha, hb]; rfl
  · rw [toF_emod hG, toF_mul, hbv]

theorem remask_spec (hG : ValidGroup G) (S : State) (hS : S.G = G)
    (hTg : IsTable G S.tabG G.g) (hTh : IsTable G S.tabH S.h) (hh : toF G S.h ≠ 0)
    (c : Card) (r : Int) (hr : r.natAbs < G.q.natAbs) (tap : Bool) :
    ∃ c', remask S c r tap = .ok c' ∧ toF G c'.c1 = toF G G.g ^ r * toF G c.c1 ∧
      toF G c'.c2 = toF G S.h ^ r * toF G c.c2 := by
  subst hS
  cases tap with
  | true =>
    obtain ⟨a, ha, _, _, hav⟩ := fspowm_val hG S.tabG S.G.g r hTg (g_ne_zero hG) hr
    obtain ⟨b, hb, _, _, hbv⟩ := fspowm_val hG S.tabH S.h r hTh hh hr
    refine ⟨⟨a * c.c1 % S.G.p, b * c.c2 % S.G.p⟩, ?_, ?_, ?_⟩
    · unfold remask; simp only [if_true]; rw [ha, hb]; rfl
    · rw [toF_emod hG, toF_mul, hav]
    · rw [toF_emod hG, toF_mul, hbv]
  | false =>
    obtain ⟨a, ha, _, _, hav⟩ := fpowm_val hG S.tabG S.G.g r hTg (g_ne_zero hG) hr
    obtain ⟨b, hb, _, _, hbv⟩ := fpowm_val hG S.tabH S.h r hTh hh hr
    refine ⟨⟨a * c.c1 % S.G.p, b * c.c2 % S.G.p⟩, ?_, ?_, ?_⟩
    · unfold remask; simp only [Bool.false_eq_true, if_false]; rw [ha, hb]; rfl
    · rw [toF_emod hG, toF_mul, hav]
    · rw [toF_emod hG, toF_mul, hbv]

theorem decryptionShare_spec (hG : ValidGroup G) (S : State) (hS : S.G = G) (c1 : Int)
    (hc : toF G c1 ≠ 0) :
    ∃ d, decryptionShare S c1 = .ok d ∧ toF G d = toF G c1 ^ S.x := by
  subst hS
  obtain ⟨d, h1, _, _, h2⟩ := spowm_val hG c1 S.x hc
  exact ⟨d, h1, h2⟩

theorem verifyFinalize_spec (hG : ValidGroup G) (S : State) (hS : S.G = G) (c2 : Int)
    (hd : toF G S.d ≠ 0) :
    ∃ m, verifyFinalize S c2 = .ok m ∧ 0 ≤ m ∧ m < G.p ∧ toF G m = toF G c2 / toF G S.d := by
  subst hS
  obtain ⟨di, h1, _, _, h2⟩ := invm_val hG S.d hd
  refine ⟨di * c2 % S.G.p, ?_, Int.emod_nonneg _ (ne_of_gt hG.p_pos),
    Int.emod_lt_of_pos _ hG.p_pos, ?_⟩
  · unfold verifyFinalize; rw [h1]
  · rw [toF_emod hG, toF_mul, h2, div_eq_mul_inv, mul_comm]

theorem typeSearch_spec (hG : ValidGroup G) (S : State) (hS : S.G = G)
    (hT : IsTable G S.tabG G.g) (m : Int) (hm : 0 ≤ m ∧ m < G.p) (sentinel : Nat) :
    ∀ (n t : Nat), t + n ≤ G.q.natAbs →
      ∃ r, typeSearch S m n t sentinel = .ok r ∧
        ((r = sentinel ∧ ∀ t', t ≤ t' → t' < t + n → toF G G.g ^ t' ≠ toF G m) ∨
         (t ≤ r ∧ r < t + n ∧ toF G G.g ^ r = toF G m)) := by
  intro n
  induction n with
  | zero =>
    intro t _
    exact ⟨sentinel, rfl, Or.inl ⟨rfl, fun t' h1 h2 => by omega⟩⟩
  | succ n ih =>
    intro t ht
    obtain ⟨e, he, he0, hep, hev⟩ := indexElement_spec hG S hS hT t (by omega)
    unfold typeSearch
    rw [he]
    simp only [bind, Except.bind]
    by_cases hem : e = m
    · rw [if_pos hem]
      exact ⟨t, rfl, Or.inr ⟨le_refl _, by omega, by rw [← hev, hem]⟩⟩
    · rw [if_neg hem]
      obtain ⟨r, hr, hcase⟩ := ih (t + 1) (by omega)
      refine ⟨r, hr, ?_⟩
      rcases hcase with ⟨h1, h2⟩ | ⟨h1, h2, h3⟩
      · refine Or.inl ⟨h1, fun t' ht1 ht2 => ?_⟩
        rcases Nat.eq_or_lt_of_le ht1 with h | h
        · subst h
          intro hc
          exact hem (eq_of_toF_eq hG ⟨he0, hep⟩ hm (by rw [hev, hc]))
        · exact h2 t' h (by omega)
      · exact Or.inr ⟨by omega, by omega, h3⟩


/-! ### the chain of maskings and the accumulation of shares -/

theorem chain_spec (hG : ValidGroup G) (S : State) (hS : S.G = G)
    (hTg : IsTable G S.tabG G.g) (hTh : IsTable G S.tabH S.h) (hh : toF G S.h ≠ 0) :
    ∀ (l : List (Int × Bool)), (∀ e ∈ l, e.1.natAbs < G.q.natAbs) → ∀ (c : Card),
      ∃ c', l.foldlM (fun c (r, tap) => remask S c r tap) c = .ok c' ∧
        toF G c'.c1 = toF G G.g ^ (l.map Prod.fst).sum * toF G c.c1 ∧
        toF G c'.c2 = toF G S.h ^ (l.map Prod.fst).sum * toF G c.c2 := by
  intro l
  induction l with
  | nil => intro _ c; exact ⟨c, rfl, by simp, by simp⟩
  | cons e l ih =>
    intro hl c
    obtain ⟨r, tap⟩ := e
    obtain ⟨c1, h1, h2, h3⟩ := remask_spec hG S hS hTg hTh hh c r (hl (r, tap) (by simp)) tap
    obtain ⟨c', h4, h5, h6⟩ := ih (fun e he => hl e (by simp [he])) c1
    refine ⟨c', ?_, ?_, ?_⟩
    · rw [List.foldlM_cons]
      simp only [h1, bind, Except.bind]
      exact h4
    · rw [h5, h2, List.map_cons, List.sum_cons, zpow_add₀ (g_ne_zero hG)]; ring
    · rw [h6, h3, List.map_cons, List.sum_cons, zpow_add₀ hh]; ring

/-- one step of the accumulation loop of `openRun` -/
def shareStep (sts : List State) (c1 : Int) (S : State) (j : Nat) : Except Err State := do
  let Sj ← match sts[j]? with | some s => .ok s | none => .error .oob
  let dj ← decryptionShare Sj c1
  pure (verifyUpdateAccept S dj)

theorem shares_spec (hG : ValidGroup G) (sts : List State) (xs : List Int) (c1 : Int)
    (hc : toF G c1 ≠ 0)
    (hsts : ∀ j (hj : j < sts.length), sts[j].G = G ∧ sts[j].x = xs.getD j 0) :
    ∀ (present : List Nat), (∀ j ∈ present, j < sts.length) → ∀ S : State, S.G = G →
      ∃ d, present.foldlM (shareStep sts c1) S = .ok { S with d := d } ∧
        toF G d = toF G S.d * toF G c1 ^ (present.map fun j => xs.getD j 0).sum := by
  intro present
  induction present with
  | nil => intro _ S _; exact ⟨S.d, rfl, by simp⟩
  | cons j l ih =>
    intro hl S hS
    have hj : j < sts.length := hl j (by simp)
    obtain ⟨hjG, hjx⟩ := hsts j hj
    obtain ⟨dj, h1, h2⟩ := decryptionShare_spec hG sts[j] hjG c1 hc
    obtain ⟨d, h3, h4⟩ := ih (fun e he => hl e (by simp [he])) (verifyUpdateAccept S dj) hS
    refine ⟨d, ?_, ?_⟩
    · rw [List.foldlM_cons]
      have : shareStep sts c1 S j = .ok (verifyUpdateAccept S dj) := by
        unfold shareStep
        rw [List.getElem?_eq_getElem hj]
        simp only [bind, Except.bind, h1]
        rfl
      rw [this]
      simp only [bind, Except.bind]
      exact h3
    · rw [h4, List.map_cons, List.sum_cons, zpow_add₀ hc, ← hjx, ← h2]
      unfold verifyUpdateAccept
      simp only
      rw [hS, toF_emod hG, toF_mul, mul_assoc]


/-- everything in `openRun` after the creation of the card -/
def openTail (sts : List State) (S0 : State) (w : Nat) (present : List Nat) (opener : Nat)
    (c0 : Card) (rs' : List Int) (taps' : List Bool) : Except Err OpenResult := do
  let c ← (rs'.zip taps').foldlM (fun c (r, tap) => remask S0 c r tap) c0
  let So ← match sts[opener]? with | some s => .ok s | none => .error .oob
  let So ← verifyInitialize So c.c1
  let So ← present.foldlM (fun S j => do
      let Sj ← match sts[j]? with | some s => .ok s | none => .error .oob
      let dj ← decryptionShare Sj c.c1
      pure (verifyUpdateAccept S dj)) So
  let m ← verifyFinalize So c.c2
  let t ← typeOfCard So w c.c2
  pure ⟨So.h, c, m, t⟩

theorem openTail_spec (hG : ValidGroup G) (xs : List Int) (sts : List State)
    (hlen : sts.length = xs.length)
    (hst : ∀ j (hj : j < sts.length), sts[j].G = G ∧ sts[j].x = xs.getD j 0 ∧
      IsTable G sts[j].tabG G.g)
    (S0 : State) (hS0 : S0.G = G) (hTg : IsTable G S0.tabG G.g) (hTh : IsTable G S0.tabH S0.h)
    (hh : toF G S0.h = toF G G.g ^ xs.sum)
    (w T : Nat) (hw : 2 ^ w ≤ G.q.natAbs)
    (opener : Nat) (hop : opener < xs.length) (present missing : List Nat)
    (hsplit : (present ++ missing).Perm ((List.range xs.length).erase opener))
    (c0 : Card) (rs' : List Int) (taps' : List Bool) (R0 : Int)
    (hl : ∀ e ∈ rs'.zip taps', e.1.natAbs < G.q.natAbs)
    (hc1 : toF G c0.c1 = toF G G.g ^ R0)
    (hc2 : toF G c0.c2 = toF G G.g ^ T * toF G S0.h ^ R0) :
    ∃ res, openTail sts S0 w present opener c0 rs' taps' = .ok res ∧
      ((res.type = 2 ^ w ∧ ∀ t', t' < 2 ^ w → toF G G.g ^ t' ≠
          toF G G.g ^ ((T : Int) + (R0 + ((rs'.zip taps').map Prod.fst).sum) *
            (missing.map fun j => xs.getD j 0).sum)) ∨
       (res.type < 2 ^ w ∧ toF G G.g ^ res.type =
          toF G G.g ^ ((T : Int) + (R0 + ((rs'.zip taps').map Prod.fst).sum) *
            (missing.map fun j => xs.getD j 0).sum))) := by
  have hg := g_ne_zero hG
  have hh0 : toF G S0.h ≠ 0 := by rw [hh]; exact zpow_ne_zero _ hg
  obtain ⟨c, hc, hcv1, hcv2⟩ := chain_spec hG S0 hS0 hTg hTh hh0 (rs'.zip taps') hl c0
  generalize ((rs'.zip taps').map Prod.fst).sum = Rl at hcv1 hcv2 ⊢
  have hcne : toF G c.c1 ≠ 0 := by
    rw [hcv1, hc1]; exact mul_ne_zero (zpow_ne_zero _ hg) (zpow_ne_zero _ hg)
  have hopS : opener < sts.length := hlen ▸ hop
  obtain ⟨hoG, hox, hoT⟩ := hst opener hopS
  obtain ⟨d0, hd0, hd0v⟩ := decryptionShare_spec hG sts[opener] hoG c.c1 hcne
  have hpres : ∀ j ∈ present, j < sts.length := by
    intro j hj
    have : j ∈ (List.range xs.length).erase opener :=
      hsplit.subset (List.mem_append_left _ hj)
    have := List.mem_range.1 (List.mem_of_mem_erase this)
    omega
  obtain ⟨d, hd, hdv⟩ := shares_spec hG sts xs c.c1 hcne (fun j hj => ⟨(hst j hj).1, (hst j hj).2.1⟩)
    present hpres { sts[opener] with d := d0 } hoG
  have hsum := sum_split xs opener hop present missing hsplit
  have hdv' : toF G d = toF G c.c1 ^ (xs.sum - (missing.map fun j => xs.getD j 0).sum) := by
    rw [hdv]
    simp only
    rw [hd0v, hox, ← zpow_add₀ hcne]
    congr 1; omega
  have hdne : toF G d ≠ 0 := by rw [hdv']; exact zpow_ne_zero _ hcne
  obtain ⟨m, hm, hm0, hmp, hmv⟩ := verifyFinalize_spec hG { sts[opener] with d := d } hoG c.c2 hdne
  obtain ⟨t, ht, hcase⟩ := typeSearch_spec hG { sts[opener] with d := d } hoG hoT m ⟨hm0, hmp⟩
    (2 ^ w) (2 ^ w) 0 (by omega)
  have hmval : toF G m = toF G G.g ^ ((T : Int) + (R0 + Rl) *
      (missing.map fun j => xs.getD j 0).sum) := by
    rw [hmv]
    simp only
    rw [hdv', hcv2, hcv1, hc2, hc1, hh, ← zpow_natCast, ← zpow_mul, ← zpow_mul, ← zpow_add₀ hg,
      ← zpow_add₀ hg, ← zpow_add₀ hg, ← zpow_mul, ← zpow_sub₀ hg]
    congr 1; ring
  refine ⟨⟨sts[opener].h, c, m, t⟩, ?_, ?_⟩
  · have hvi : verifyInitialize sts[opener] c.c1 = .ok { sts[opener] with d := d0 } := by
      unfold verifyInitialize
      exact (bind_ok_eq hd0 _).trans rfl
    have htc : typeOfCard { sts[opener] with d := d } w c.c2 = .ok t := by
      unfold typeOfCard
      exact (bind_ok_eq hm _).trans ht
    unfold openTail
    refine (bind_ok_eq hc _).trans ?_
    rw [List.getElem?_eq_getElem hopS]
    refine (bind_ok_eq (rfl : Except.ok sts[opener] = _) _).trans ?_
    refine (bind_ok_eq hvi _).trans ?_
    refine (bind_ok_eq hd _).trans ?_
    refine (bind_ok_eq hm _).trans ?_
    refine (bind_ok_eq htc _).trans ?_
    rfl
  · simp only
    rw [← hmval]
    rcases hcase with ⟨h1, h2⟩ | ⟨_, h2, h3⟩
    · exact Or.inl ⟨h1, fun t' ht' => h2 t' (Nat.zero_le _) (by omega)⟩
    · exact Or.inr ⟨by omega, h3⟩


theorem emod_q_of_zpow_eq (hG : ValidGroup G) (a b : Int)
    (h : toF G G.g ^ a = toF G G.g ^ b) : (a - b) % G.q = 0 := by
  have hg := g_ne_zero hG
  have h1 : toF G G.g ^ (a - b) = 1 := by
    rw [zpow_sub₀ hg, h, div_self (zpow_ne_zero _ hg)]
  have h2 : toF G G.g ^ ((a - b) % G.q) = 1 := by
    rw [zpow_mod_q hG _ (g_pow_q hG) hg, h1]
  have hq := hG.q_pos
  have hk0 : 0 ≤ (a - b) % G.q := Int.emod_nonneg _ (ne_of_gt hq)
  have hk1 : (a - b) % G.q < G.q := Int.emod_lt_of_pos _ hq
  generalize (a - b) % G.q = k at h2 hk0 hk1
  have h3 : toF G G.g ^ k.toNat = toF G G.g ^ 0 := by
    rw [← zpow_natCast, Int.toNat_of_nonneg hk0, h2, pow_zero]
  have := g_pow_inj hG (by omega) (by omega) h3
  omega

end spec

theorem open_general (xs : List Int) (w T : Nat) (priv : Bool) (rs : List Int) (taps : List Bool)
    (opener : Nat) (present missing : List Nat)
    (hok : GameOk G xs w T priv rs taps opener)
    (hsplit : (present ++ missing).Perm ((List.range xs.length).erase opener)) :
    haveI := fact_prime hok.valid
    ∃ res, openRun G xs w T priv rs taps present opener = .ok res ∧
      ((res.type = 2 ^ w ∧ ∀ t', t' < 2 ^ w → toF G G.g ^ t' ≠
          toF G G.g ^ ((T : Int) + rs.sum * (missing.map fun j => xs.getD j 0).sum)) ∨
       (res.type < 2 ^ w ∧ toF G G.g ^ res.type =
          toF G G.g ^ ((T : Int) + rs.sum * (missing.map fun j => xs.getD j 0).sum))) := by
  have := fact_prime hok.valid
  have hG := hok.valid
  obtain ⟨sts, hpl, hlen, hst⟩ := players_spec hG xs hok.xs_range
  have h0 : 0 < sts.length := by
    rw [hlen]; exact List.length_pos_of_ne_nil hok.xs_ne
  obtain ⟨_, h0G, _, _, _, h0h, h0Tg, h0Th⟩ := hst 0 h0
  have hst' : ∀ j (hj : j < sts.length), sts[j].G = G ∧ sts[j].x = xs.getD j 0 ∧
      IsTable G sts[j].tabG G.g := by
    intro j hj
    obtain ⟨hj', h1, h2, _, _, _, h3, _⟩ := hst j hj
    refine ⟨h1, ?_, h3⟩
    rw [h2]; simp [hj']
  have hh0 : toF G sts[0].h ≠ 0 := by rw [h0h]; exact zpow_ne_zero _ (g_ne_zero hG)
  have hTq : T < G.q.natAbs := lt_of_lt_of_le hok.type_lt hok.w_fits
  obtain ⟨e, he, _, _, hev⟩ := indexElement_spec hG sts[0] h0G h0Tg T hTq
  cases priv with
  | false =>
    have hcreate : createOpenCard sts[0] T = .ok ⟨1, e⟩ := by
      unfold createOpenCard
      exact (bind_ok_eq he _).trans rfl
    have hzip : ((rs.zip taps).map Prod.fst) = rs :=
      List.map_fst_zip (le_of_eq hok.taps_len.symm)
    obtain ⟨res, hres, hcase⟩ := openTail_spec hG xs sts hlen hst' sts[0] h0G h0Tg h0Th h0h w T
      hok.w_fits opener hok.opener_lt present missing hsplit ⟨1, e⟩ rs taps 0
      (by
        intro x hx
        exact hok.rs_range _ (List.of_mem_zip hx).1)
      (by simp [toF_one]) (by simp [hev])
    rw [hzip, zero_add] at hcase
    refine ⟨res, ?_, hcase⟩
    unfold openRun
    refine (bind_ok_eq hpl _).trans ?_
    rw [List.getElem?_eq_getElem h0]
    refine (bind_ok_eq (rfl : Except.ok sts[0] = _) _).trans ?_
    refine (if_neg (by simp)).trans ?_
    refine (bind_ok_eq hcreate _).trans ?_
    exact hres
  | true =>
    cases rs with
    | nil => exact absurd rfl (hok.priv_ok rfl)
    | cons r0 rest =>
      have hr0 := hok.rs_range r0 (by simp)
      obtain ⟨c0, hmask, hm1, hm2⟩ := mask_spec hG sts[0] h0G h0Tg h0Th hh0 e r0 hr0
      have hcreate : createPrivateCard sts[0] T r0 = .ok c0 := by
        unfold createPrivateCard
        exact (bind_ok_eq he _).trans hmask
      have hlen' : rest.length ≤ (taps.drop 1).length := by
        have := hok.taps_len
        simp only [List.length_cons] at this
        simp only [List.length_drop]
        omega
      have hzip : ((rest.zip (taps.drop 1)).map Prod.fst) = rest := List.map_fst_zip hlen'
      obtain ⟨res, hres, hcase⟩ := openTail_spec hG xs sts hlen hst' sts[0] h0G h0Tg h0Th h0h w T
        hok.w_fits opener hok.opener_lt present missing hsplit c0 rest (taps.drop 1) r0
        (by
          intro x hx
          exact hok.rs_range _ (List.mem_cons_of_mem _ (List.of_mem_zip hx).1))
        hm1 (by rw [hm2, hev, mul_comm])
      rw [hzip] at hcase
      rw [List.sum_cons]
      refine ⟨res, ?_, hcase⟩
      unfold openRun
      refine (bind_ok_eq hpl _).trans ?_
      rw [List.getElem?_eq_getElem h0]
      refine (bind_ok_eq (rfl : Except.ok sts[0] = _) _).trans ?_
      refine (if_pos rfl).trans ?_
      refine (bind_ok_eq hcreate _).trans ?_
      exact hres

/-- **C01**: with the contributions of all players, the card opens to exactly the type it was
    created with — for every group, number of players, secrets, type, chain of maskings,
    timing-protection choice, open or private creation, opener and order of the shares. -/
theorem open_correct (xs : List Int) (w T : Nat) (priv : Bool) (rs : List Int) (taps : List Bool)
    (opener : Nat) (present : List Nat)
    (hok : GameOk G xs w T priv rs taps opener)
    (hpres : present.Perm ((List.range xs.length).erase opener)) :
    ∃ res, openRun G xs w T priv rs taps present opener = .ok res ∧ res.type = T := by
  have := fact_prime hok.valid
  have hG := hok.valid
  obtain ⟨res, hres, hcase⟩ := open_general xs w T priv rs taps opener present [] hok
    (by simpa using hpres)
  refine ⟨res, hres, ?_⟩
  simp only [List.map_nil, List.sum_nil, mul_zero, add_zero, zpow_natCast] at hcase
  rcases hcase with ⟨_, h2⟩ | ⟨h1, h2⟩
  · exact absurd rfl (h2 T hok.type_lt)
  · exact g_pow_inj hG (lt_of_lt_of_le h1 hok.w_fits) (lt_of_lt_of_le hok.type_lt hok.w_fits) h2

/-- **C01**, missing contributions: if the shares of the players in `missing ≠ ∅` do not reach
    the opener, the decrypted message is `g^(T + R·X)` with `R` the accumulated masking exponent
    and `X` the missing key sum; the result is the sentinel `2^w` unless that exponent happens to
    be congruent to some `t' < 2^w` modulo `q`, and it differs from `T` whenever `R·X ≢ 0 (mod q)`. -/
theorem open_missing_share (xs : List Int) (w T : Nat) (priv : Bool) (rs : List Int) (taps : List Bool)
    (opener : Nat) (present missing : List Nat)
    (hok : GameOk G xs w T priv rs taps opener)
    (hsplit : (present ++ missing).Perm ((List.range xs.length).erase opener))
    (hmiss : missing ≠ []) :
    ∃ res, openRun G xs w T priv rs taps present opener = .ok res ∧
      (res.type = 2 ^ w ∨
        (res.type < 2 ^ w ∧
          ((res.type : Int) - (T + rs.sum * (missing.map fun j => xs.getD j 0).sum)) % G.q = 0)) ∧
      ((rs.sum * (missing.map fun j => xs.getD j 0).sum) % G.q ≠ 0 → res.type ≠ T) := by
  have := fact_prime hok.valid
  have hG := hok.valid
  have _ := hmiss
  obtain ⟨res, hres, hcase⟩ := open_general xs w T priv rs taps opener present missing hok hsplit
  refine ⟨res, hres, ?_⟩
  have htl := hok.type_lt
  rcases hcase with ⟨h1, _⟩ | ⟨h1, h2⟩
  · exact ⟨Or.inl h1, fun _ => by omega⟩
  · rw [← zpow_natCast] at h2
    have h3 := emod_q_of_zpow_eq hG _ _ h2
    refine ⟨Or.inr ⟨h1, h3⟩, ?_⟩
    intro hne heq
    apply hne
    rw [heq] at h3
    have h4 := Int.dvd_of_emod_eq_zero h3
    have h5 : (T : Int) - (T + rs.sum * (missing.map fun j => xs.getD j 0).sum)
        = -(rs.sum * (missing.map fun j => xs.getD j 0).sum) := by ring
    rw [h5, Int.dvd_neg] at h4
    exact Int.emod_eq_zero_of_dvd h4

/-- the plaintext of a card under the joint secret `X`: `c_2 / c_1^X` in the field -/
noncomputable def plain (G : Group) [Fact (Nat.Prime G.p.natAbs)] (X : Int) (c : Card) : F G :=
  toF G c.c2 / toF G c.c1 ^ X

/-- re-masking (with either exponentiation variant) preserves the plaintext: this is the
    `hpres` hypothesis of C02's `mix_opens_to_source` for the discrete-log encoding -/
theorem remask_preserves_plain (hG : ValidGroup G) (S : State) (X : Int)
    (hS : S.G = G) (hTg : IsTable G S.tabG G.g) (hTh : IsTable G S.tabH S.h)
    (hh : haveI := fact_prime hG; toF G S.h = toF G G.g ^ X)
    (c : Card) (hc1 : haveI := fact_prime hG; toF G c.c1 ≠ 0) (r : Int) (hr : r.natAbs < G.q.natAbs) (tap : Bool) :
    haveI := fact_prime hG
    ∃ c', remask S c r tap = .ok c' ∧ plain G X c' = plain G X c ∧ toF G c'.c1 ≠ 0 := by
  have := fact_prime hG
  have hg := g_ne_zero hG
  have hh0 : toF G S.h ≠ 0 := by rw [hh]; exact zpow_ne_zero _ hg
  obtain ⟨c', h1, h2, h3⟩ := remask_spec hG S hS hTg hTh hh0 c r hr tap
  refine ⟨c', h1, ?_, ?_⟩
  · unfold plain
    rw [h2, h3, hh, mul_zpow, ← zpow_mul, ← zpow_mul, mul_comm X r, mul_div_mul_left _ _ (zpow_ne_zero _ hg)]
  · rw [h2]; exact mul_ne_zero (zpow_ne_zero _ hg) hc1

end Tmcg.VtmfOpen
