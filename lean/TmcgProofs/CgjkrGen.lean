import TmcgProofs.CgjkrSteps
/-
  C15 for `CanettiGennaroJareckiKrawczykRabinDKG::Generate` (model: `Cgjkr.genRound`), the public key:
  "the public key is the image of the secret every t+1 shares interpolate to".

    * `gen_y_val`              `y = ∏_{j ∈ QUAL} A_j` (the loop of step 8, reductions after every product)
    * `genRound_final`         what the last round of `Generate` does when it returns `true`: QUAL, the
                               share and `x_rvss` are not touched, `A_it = g^{z_it}` (`tmcg_mpz_fpowm`) for
                               the reconstructed parties, the other `A_j` stay, `y` is the product over QUAL
    * `gen_key_matches_secret` any `t+1` shares `x_i = Σ_{QUAL} f_j(i+1)` interpolate to a value `v` with
                               `g^v = y`, when `A_j = g^{f_j(0)}` for the dealers of QUAL
-/
namespace Tmcg.CgjkrP
open Tmcg Tmcg.Powm Tmcg.Dkg Tmcg.Grp Tmcg.DkgL Tmcg.DkgP Tmcg.Cgjkr

/-! ### the last round -/

/-- the loop `A_it := g^{z_it}` over the reconstructed parties -/
theorem gen_foldA (G : Dkg.Grp) (zi : List Int) (f : List Int → Nat → Except Err (List Int))
    (hf : ∀ A it A', f A it = .ok A' → ∃ v, fpowm G.tabG G.g (getI zi it) G.p = .ok v ∧ A' = A.set it v)
    (l : List Nat) (A0 A : List Int) (h : l.foldlM f A0 = .ok A) :
    A.length = A0.length ∧ (∀ j, j ∉ l → getI A j = getI A0 j) ∧
    (l.Nodup → ∀ it ∈ l, it < A0.length → fpowm G.tabG G.g (getI zi it) G.p = .ok (getI A it)) := by
  induction l generalizing A0 with
  | nil =>
    simp only [List.foldlM_nil, pure, Except.pure, Except.ok.injEq] at h
    subst h
    exact ⟨rfl, fun _ _ => rfl, fun _ it hit => by cases hit⟩
  | cons a l ih =>
    simp only [List.foldlM_cons, bind, Except.bind] at h
    split at h
    · cases h
    · rename_i A1 hfa
      obtain ⟨v, hv, rfl⟩ := hf _ _ _ hfa
      obtain ⟨hl, ho, hn⟩ := ih _ h
      refine ⟨by rw [hl, List.length_set], ?_, ?_⟩
      · intro j hj
        simp only [List.mem_cons, not_or] at hj
        rw [ho j hj.2, rv_getI_set_ne _ _ _ _ hj.1]
      · intro hnd it hit hlt
        obtain ⟨hal, hnd'⟩ := List.nodup_cons.1 hnd
        rcases List.mem_cons.1 hit with rfl | hit
        · rw [ho it hal, rv_getI_set_self _ _ _ hlt]
          exact hv
        · exact hn hnd' it hit (by rw [List.length_set]; exact hlt)

/-- **The last round of `Generate`** (`round = 10 + 2t`), when the call returns `true`: QUAL, the share
    `(x_i, x'_i)` and the object `x_rvss` are the ones the party entered the round with; for every
    reconstructed party `it` (`racc`, the parties accused in step 7) `A_it` is `g^{z_it}` for the
    reconstructed `z_it`; the `A_j` of all other parties are not touched; and `y` is the running product
    of the `A_j`, `j ∈ QUAL`, started from the `y` of the state (1 in a run). -/
theorem genRound_final (G : Dkg.Grp) (weak : List Nat) (strong : List Int) (round : Nat) (st st' : GSt)
    (I I' : Inbox) (ops : List Op) (hround : round = 10 + 2 * st.t)
    (h : genRound G weak strong round st I = .ok (.done st' I' ops true)) :
    st'.qual = st.qual ∧
    st'.y = st'.qual.foldl (fun (acc : Int) j => acc * getI st'.A j % G.p) st.y ∧
    st'.x = st.x ∧ st'.xp = st.xp ∧ st'.xr = st.xr ∧
    (st'.racc.Nodup → ∀ it ∈ st'.racc, it < st.A.length →
      fpowm G.tabG G.g (getI st'.zi it) G.p = .ok (getI st'.A it)) ∧
    (∀ j, j ∉ st'.racc → getI st'.A j = getI st.A j) := by
  have e0 : ¬ round = 0 := by omega
  have e1 : ¬ round = 1 := by omega
  have e2 : ¬ round = 2 := by omega
  have e3 : ¬ round = 3 := by omega
  have e4 : ¬ round = 4 := by omega
  have e5 : ¬ round = 5 := by omega
  have e6 : ¬ round = 6 := by omega
  have e7 : ¬ round = 7 := by omega
  have e8 : ¬ (round < 8 + st.t ∨ round = 8) := by omega
  have e9 : ¬ round = 8 + st.t := by omega
  have e10 : ¬ round = 9 + st.t := by omega
  simp only [genRound, e0, e1, e2, e3, e4, e5, e6, e7, e8, e9, e10, if_false] at h
  -- `round = 10 + t` iff `t = 0` (the complaints of step 7 are read in this very round); the rest of
  -- the round is the same in both cases
  by_cases ht : round = 10 + st.t
  all_goals
    first | simp only [if_pos ht] at h | simp only [if_neg ht] at h
    split at h
    · simp [pure, Except.pure] at h
    · simp only [bind, Except.bind] at h
      split at h
      · cases h
      · rename_i R hrr
        obtain ⟨zi, I2, ops', ok⟩ := R
        split at h
        · simp [pure, Except.pure] at h
        · split at h
          · cases h
          · rename_i A hA
            simp only [pure, Except.pure, Except.ok.injEq, GOut.done.injEq] at h
            obtain ⟨rfl, _, _⟩ := h
            obtain ⟨hl, ho, hn⟩ := gen_foldA G zi _ (by
              intro A0 it A' hh
              simp only [pure, Except.pure] at hh
              split at hh
              · cases hh
              · rename_i v hv
                exact ⟨v, hv, (Except.ok.inj hh).symm⟩) _ _ _ hA
            exact ⟨rfl, rfl, rfl, rfl, rfl, hn, ho⟩

variable {G : Dkg.Grp} [Fact (Nat.Prime G.p.natAbs)]

set_option linter.unusedSectionVars false

/-! ### the public key -/

theorem gen_y_aux (hG : ValidGrp G) (qual : List Nat) (A : List Int) (acc : Int) :
    cp G (qual.foldl (fun (acc : Int) j => acc * getI A j % G.p) acc) =
      cp G acc * (qual.map (fun j => cp G (getI A j))).prod := by
  induction qual generalizing acc with
  | nil => simp
  | cons j rest ih =>
    simp only [List.foldl_cons, List.map_cons, List.prod_cons, ih, cp_emod hG, cp_mul, mul_assoc]

/-- `y = ∏_{j ∈ QUAL} A_j` -/
theorem gen_y_val (hG : ValidGrp G) (qual : List Nat) (A : List Int) :
    cp G (qual.foldl (fun (acc : Int) j => acc * getI A j % G.p) 1) =
      (qual.map (fun j => cp G (getI A j))).prod := by
  rw [gen_y_aux hG, cp_one, one_mul]

variable [Fact (Nat.Prime G.q.natAbs)]

/-- **"The public key is the image of the secret every t+1 shares interpolate to."**  For dealer
    polynomials `f_j` (`j ∈ QUAL`) of degree `≤ t`, shares `x_i = Σ_j f_j(i+1)` of any `t+1` distinct
    parties interpolate (`lagrange0`, the library's interpolation) to a value `v` with `g^v = y`, where
    `y = ∏_{QUAL} A_j` as computed in step 8 and `A_j = g^{z_j}` with `z_j = f_j(0)` (extracted in
    steps 5–7 or reconstructed in step 8). -/
theorem gen_key_matches_secret (hG : ValidGrp G) (qual : List Nat) (t : Nat)
    (f : Nat → Polynomial (ZMod G.q.natAbs)) (hf : ∀ j ∈ qual, (f j).degree < (t + 1 : Nat))
    (parties : List Nat) (hp : GoodParties G.q parties) (hlen : parties.length = t + 1)
    (x : Nat → Int)
    (hx : ∀ i ∈ parties, ((x i : Int) : ZMod G.q.natAbs) = (qual.map (fun j => (f j).eval (pt G.q i))).sum)
    (A : List Int) (z : Nat → Int) (hz : ∀ j ∈ qual, ((z j : Int) : ZMod G.q.natAbs) = (f j).eval 0)
    (hA : ∀ j ∈ qual, cp G (getI A j) = cp G G.g ^ (z j)) :
    ∃ v, lagrange0 G.q parties x = some v ∧
      cp G G.g ^ v = cp G (qual.foldl (fun (acc : Int) j => acc * getI A j % G.p) 1) := by
  obtain ⟨v, hv, _, hvv⟩ := interpolate_secret hG qual t f hf parties hp hlen x hx z hz
  refine ⟨v, hv, ?_⟩
  rw [hvv, gen_y_val hG]
  congr 1
  apply List.map_congr_left
  intro j hj
  exact (hA j hj).symm

end Tmcg.CgjkrP
