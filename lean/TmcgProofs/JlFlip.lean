import TmcgProofs.JlT0
import TmcgProofs.JlT1
import TmcgProofs.JlT2
import TmcgProofs.JlT3
import TmcgProofs.JlT4
import TmcgProofs.JlT5
import TmcgProofs.JlTRec
import TmcgProofs.JlOrder
/-
  C17, multi-party part: the theorems about a whole run `Jl.runFlip G n t ins` of the coin flip
  `JareckiLysyanskayaEDCF::Flip` (model: Tmcg/Model/Jl.lean), for EVERY deviation script of at most
  `t` parties, `n ≥ 2t+1` (`Setup`), under the explicit binding hypothesis `BindingHyp`.

  * `flip_agree`                 all honest parties return `true` with the same coin
  * `flip_is_sum`                the coin is the sum modulo `q` of the committed shares `f_j(0)` of
                                 the members of Qual; Qual is the same at all honest parties and
                                 contains them; the committed share of an honest party is the
                                 `a_i` it drew
  * `bad_opening_reconstructed`  the share of a member of Qual every honest party ends with is its
                                 committed share: the value it opened if the opening matched its
                                 commitment `C_j0`, the reconstructed value `f_j(0)` otherwise
  * `reveal_after_commitments`   an honest party's opening leaves in round 4 and is the committed
                                 pair; when it leaves, the commitment rows of all members of Qual
                                 are complete in its table (they were read in round 1)
-/
namespace Tmcg.JlProofs
open Tmcg Tmcg.Powm Tmcg.Vtmf Tmcg.Grp Tmcg.Jl

variable {G : Jl.Grp} {ins : List PartyIn} {n t : Nat}

/-! ### the binding hypothesis of a run -/

/-- the table of commitments party `x` holds at the end of `Share` (after round 4) -/
def shareTable (G : Jl.Grp) (ins : List PartyIn) (n t x : Nat) : List (List Int) :=
  match (cfg G ins n t 5)[x]? with
  | some P => P.st.C
  | none => []

/-- **binding, explicit**: for every row `j` of the table of commitments the honest parties hold
    after `Share` there is a polynomial `fam j` of degree `≤ t` on which the first components of all
    valid openings OCCURRING in the run lie (`BindsRun`).  Whoever violates it knows `log_g h`
    (`binding_pair`). -/
def BindingHyp (G : Jl.Grp) [Fact (Nat.Prime (grp G).p.natAbs)] (ins : List PartyIn) (n t : Nat)
    (fam : Nat → Polynomial (Zq G)) : Prop :=
  ∀ x, HonIdx ins n x → ∀ j, j < n → BindsRun G ins n t (getRow (shareTable G ins n t x) j) (fam j)

/-! ### auxiliary facts -/

/-- a party that has returned keeps its state and its result -/
theorem returned_stable (hS : Setup G ins n t) (x : Nat) (hx : x < n) (r : Nat) (P : Party)
    (hP : (cfg G ins n t r)[x]? = some P) (b : Bool) (hb : P.status = .ret b) :
    ∀ d, ∃ P', (cfg G ins n t (r + d))[x]? = some P' ∧ P'.st = P.st ∧ P'.status = P.status := by
  intro d
  induction d with
  | zero => exact ⟨P, hP, rfl, rfl⟩
  | succ d ih =>
    obtain ⟨P1, hP1, hst, hstatus⟩ := ih
    have hlen : x < (cfg G ins n t (r + d)).length := by rw [cfg_length G ins n t _ hS.hlen]; exact hx
    obtain ⟨P2, hP2, _, _, hst2, hstatus2, _⟩ := runRound_get (flipStep G ins n t (r + d)) (cfg G ins n t (r + d)) x hlen
    have hget : (cfg G ins n t (r + d))[x] = P1 := by
      have := List.getElem?_eq_some_iff.mp hP1
      obtain ⟨_, h⟩ := this
      exact h
    have hlive : P1.live = false := by
      unfold Party.live
      rw [hstatus, hb]
      rfl
    have hstep : stepped (flipStep G ins n t (r + d)) (cfg G ins n t (r + d)) x hlen = P1 := by
      unfold stepped
      rw [hget, stepParty_not_live _ _ _ hlive]
    rw [hstep] at hst2 hstatus2
    refine ⟨P2, ?_, by rw [hst2, hst], by rw [hstatus2, hstatus]⟩
    rw [show r + (d + 1) = (r + d) + 1 by omega, cfg_succ]
    exact hP2

/-- the sum over Qual only looks at the entries of the members of Qual -/
theorem sumMod_congr (q : Int) (l l' : List Int) (idx : List Nat)
    (h : ∀ j ∈ idx, getI l j = getI l' j) : sumMod q l idx = sumMod q l' idx := by
  unfold sumMod
  suffices hgen : ∀ (idx : List Nat) (acc : Int), (∀ j ∈ idx, getI l j = getI l' j) →
      idx.foldl (fun acc j => (acc + getI l j) % q) acc = idx.foldl (fun acc j => (acc + getI l' j) % q) acc from
    hgen idx 0 h
  intro idx
  induction idx with
  | nil => intro acc _; rfl
  | cons a rest ih =>
    intro acc hh
    simp only [List.foldl_cons]
    rw [hh a (List.mem_cons_self ..)]
    exact ih _ (fun j hj => hh j (List.mem_cons_of_mem _ hj))

/-- at most `t` parties are accused: they are distinct and none of them is honest -/
theorem accused_le (hS : Setup G ins n t) (R : List Nat) (hnd : R.Nodup)
    (hsub : ∀ j ∈ R, j < n ∧ ¬ HonIdx ins n j) : R.length ≤ t := by
  refine le_trans ?_ hS.hdev
  apply List.Subperm.length_le
  apply List.Nodup.subperm hnd
  intro j hj
  obtain ⟨hjn, hjh⟩ := hsub j hj
  simp only [List.mem_filter, List.mem_range, hjn, true_and]
  unfold HonIdx at hjh
  cases hh : (pinOf ins j).dev.honest
  · rfl
  · exact absurd ⟨hjn, hh⟩ hjh

theorem rowFFrom_zero_succ [Fact (Nat.Prime (grp G).p.natAbs)] (cs : List Int) :
    ∀ k, rowFFrom G 0 (k + 1) cs = 1 := by
  induction cs with
  | nil => intro k; rfl
  | cons c cs ih =>
    intro k
    unfold rowFFrom
    rw [ih (k + 1)]
    simp

/-- `F_j(0) = C_j0` -/
theorem rowF_zero [Fact (Nat.Prime (grp G).p.natAbs)] (row : List Int) (h : 0 < row.length) :
    rowF G row 0 = toF (grp G) (getI row 0) := by
  cases row with
  | nil => simp at h
  | cons c cs =>
    unfold rowF rowFFrom
    rw [rowFFrom_zero_succ]
    simp [getI]

theorem toQ_committed (hG : ValidGrp G) (fam : Nat → Polynomial (Zq G)) (j : Nat) :
    toQ G (committed G fam j) = (fam j).eval 0 := by
  have : Fact (Nat.Prime G.q.natAbs) := fact_q hG
  unfold committed toQ
  simp

/-! ### the run, from the first round to the last -/

/-- all reconstruction rounds -/
theorem invRec_all [Fact (Nat.Prime (grp G).p.natAbs)] (hS : Setup G ins n t)
    {CH : List (List Int)} {QL R : List Nat} {A HA : Nat → Int}
    (fam : Nat → Polynomial (Zq G))
    (hfam : ∀ j, j < n → BindsRun G ins n t (getRow CH j) (fam j)) :
    ∀ (d k : Nat) (Q : Nat → List (Tag × Int)), k + d = R.length →
      InvRec G ins n t Q CH QL R A HA (committed G fam) k →
      ∃ Q', InvRec G ins n t Q' CH QL R A HA (committed G fam) R.length := by
  intro d
  induction d with
  | zero =>
    intro k Q hk h
    have : k = R.length := by omega
    subst this
    exact ⟨Q, h⟩
  | succ d ih =>
    intro k Q hk h
    obtain ⟨Q1, h1⟩ := invRecStep hS fam hfam h (by omega)
    exact ih (k + 1) Q1 (by omega) h1

/-- the state of the honest parties at the end of a run -/
theorem run_end [Fact (Nat.Prime (grp G).p.natAbs)] (hS : Setup G ins n t)
    (fam : Nat → Polynomial (Zq G)) (hB : BindingHyp G ins n t fam)
    (x0 : Nat) (hx0 : HonIdx ins n x0) :
    ∃ Q CH QL R A HA, InvRec G ins n t Q CH QL R A HA (committed G fam) R.length ∧ R.length ≤ t ∧
      ∀ j, j < n → BindsRun G ins n t (getRow CH j) (fam j) := by
  obtain ⟨Q1, Row, h1⟩ := inv1 hS
  obtain ⟨Q2, CH, Flag, h2⟩ := inv2 hS h1
  obtain ⟨Q3, W, h3⟩ := inv3 hS h2
  obtain ⟨Q4, T, BadC, CNT, h4⟩ := inv4 hS h3
  obtain ⟨Q5, QL, h5⟩ := inv5 hS h4
  obtain ⟨Q6, R, A, HA, h6⟩ := invRec0 hS h5 (committed G fam)
  -- the table the binding hypothesis speaks about is `CH`
  have hfam : ∀ j, j < n → BindsRun G ins n t (getRow CH j) (fam j) := by
    intro j hj
    obtain ⟨P, hP, _, _, hsh, _⟩ := h5.party x0 hx0
    have := hB x0 hx0 j hj
    unfold shareTable at this
    rw [hP] at this
    simp only at this
    rw [hsh.C_eq] at this
    exact this
  obtain ⟨Q7, h7⟩ := invRec_all hS fam hfam R.length 0 Q6 (by omega) h6
  refine ⟨Q7, CH, QL, R, A, HA, h7, ?_, hfam⟩
  apply accused_le hS R h6.r_sorted.nodup
  intro j hj
  obtain ⟨hq, hh⟩ := h6.r_sub j hj
  exact ⟨h6.qual.lt_n j hq, hh⟩

/-- the final party of an honest index: returned `true`, with the sum of its `a` entries over Qual -/
theorem final_party [Fact (Nat.Prime (grp G).p.natAbs)] (hS : Setup G ins n t)
    {Q : Nat → List (Tag × Int)} {CH : List (List Int)} {QL R : List Nat} {A HA Z : Nat → Int}
    (h : InvRec G ins n t Q CH QL R A HA Z R.length) (hR : R.length ≤ t)
    (x : Nat) (hx : HonIdx ins n x) :
    ∃ P, (runFlip G n t ins)[x]? = some P ∧ P.status = .ret true ∧
      P.st.coin = some (sumMod G.q P.st.a QL) ∧ RecSt G ins n t CH QL R A Z R.length x P.st := by
  obtain ⟨P, hP, _, _, _, _, hrec, _, hend⟩ := h.party x hx
  obtain ⟨hret, hcoin⟩ := hend rfl
  obtain ⟨P', hP', hst, hstatus⟩ :=
    returned_stable hS x hx.1 (6 + R.length) P hP true hret (t + 1 - R.length)
  refine ⟨P', ?_, by rw [hstatus, hret], by rw [hst]; exact hcoin, by rw [hst]; exact hrec⟩
  rw [runFlip_eq_cfg]
  have : 6 + R.length + (t + 1 - R.length) = 6 + t + 1 := by omega
  rw [← this]
  exact hP'

/-- the entry of a member of Qual in the `a` vector of an honest party at the end: the opened value
    of a member that is not accused, the committed share of an accused one -/
theorem final_entry [Fact (Nat.Prime (grp G).p.natAbs)]
    {CH : List (List Int)} {QL R : List Nat} {A Z : Nat → Int} {x : Nat} {st : St}
    (hrec : RecSt G ins n t CH QL R A Z R.length x st) (j : Nat) (hj : j ∈ QL) :
    (j ∉ R ∧ getI st.a j = A j) ∨ (j ∈ R ∧ getI st.a j = Z j) := by
  by_cases hjr : j ∈ R
  · right
    refine ⟨hjr, ?_⟩
    obtain ⟨m, hm, hmj⟩ := List.mem_iff_getElem.mp hjr
    have hget : R.getD m 0 = j := by
      rw [List.getD_eq_getElem?_getD, List.getElem?_eq_getElem hm]
      exact hmj
    have := hrec.a_rec m hm hm
    rw [hget] at this
    exact this
  · exact Or.inl ⟨hjr, hrec.a_open j hj hjr⟩

/-- an opening that matches `C_j0` is the committed share (binding at the point 0) -/
theorem open_committed [Fact (Nat.Prime (grp G).p.natAbs)]
    {Q : Nat → List (Tag × Int)} {CH : List (List Int)} {QL R : List Nat} {A HA Z : Nat → Int} {k : Nat}
    (h : InvRec G ins n t Q CH QL R A HA Z k) (fam : Nat → Polynomial (Zq G))
    (hfam : ∀ j, j < n → BindsRun G ins n t (getRow CH j) (fam j))
    (j : Nat) (hj : j ∈ QL) (hjr : j ∉ R) : toQ G (A j) = (fam j).eval 0 := by
  obtain ⟨ha1, ha2, hcom⟩ := h.open_ok j hj hjr
  obtain ⟨ho1, ho2⟩ := h.open_occ j hj hjr
  have hrow := (h.qual.rows j hj).1
  have hb := (hfam j (h.qual.lt_n j hj)).2 0 (Nat.zero_le _) (A j) (HA j) ho1 ho2 ha1 ha2
    (by rw [hcom, rowF_zero _ (by omega)])
  rw [hb]; simp

/-- every entry of a member of Qual is, at the end, its committed share modulo `q` -/
theorem entry_committed [Fact (Nat.Prime (grp G).p.natAbs)] (hG : ValidGrp G)
    {Q : Nat → List (Tag × Int)} {CH : List (List Int)} {QL R : List Nat} {A HA : Nat → Int}
    (fam : Nat → Polynomial (Zq G))
    (h : InvRec G ins n t Q CH QL R A HA (committed G fam) R.length)
    (hfam : ∀ j, j < n → BindsRun G ins n t (getRow CH j) (fam j))
    {x : Nat} {st : St} (hrec : RecSt G ins n t CH QL R A (committed G fam) R.length x st)
    (j : Nat) (hj : j ∈ QL) : toQ G (getI st.a j) = (fam j).eval 0 := by
  rcases final_entry hrec j hj with ⟨hjr, ha⟩ | ⟨_, ha⟩
  · rw [ha]; exact open_committed h fam hfam j hj hjr
  · rw [ha]; exact toQ_committed hG fam j

/-! ### the theorems -/

/-- **agreement**: in every run with at most `t` deviating parties (`n ≥ 2t+1`, arbitrary deviation
    scripts) all honest parties return `true` with the same coin -/
theorem flip_agree [Fact (Nat.Prime (grp G).p.natAbs)] (hS : Setup G ins n t)
    (fam : Nat → Polynomial (Zq G)) (hB : BindingHyp G ins n t fam)
    (x y : Nat) (hx : HonIdx ins n x) (hy : HonIdx ins n y) :
    ∃ Px Py c, (runFlip G n t ins)[x]? = some Px ∧ (runFlip G n t ins)[y]? = some Py ∧
      Px.status = .ret true ∧ Py.status = .ret true ∧ Px.st.coin = some c ∧ Py.st.coin = some c := by
  obtain ⟨Q, CH, QL, R, A, HA, h, hR, _⟩ := run_end hS fam hB x hx
  obtain ⟨Px, hPx, hsx, hcx, hrx⟩ := final_party hS h hR x hx
  obtain ⟨Py, hPy, hsy, hcy, hry⟩ := final_party hS h hR y hy
  refine ⟨Px, Py, sumMod G.q Px.st.a QL, hPx, hPy, hsx, hsy, hcx, ?_⟩
  rw [hcy]
  congr 1
  apply sumMod_congr
  intro j hj
  rcases final_entry hrx j hj with ⟨h1, h2⟩ | ⟨h1, h2⟩
  · rcases final_entry hry j hj with ⟨_, h4⟩ | ⟨h3, _⟩
    · rw [h2, h4]
    · exact absurd h3 h1
  · rcases final_entry hry j hj with ⟨h3, _⟩ | ⟨_, h4⟩
    · exact absurd h1 h3
    · rw [h2, h4]

/-- **a wrong or missing opening is reconstructed**: at the end of a run every honest party holds,
    for every member `j` of Qual, the committed share `f_j(0)` of `j` (modulo `q`): the value `j`
    opened when the opening matched `C_j0` (then binding makes it `f_j(0)`), the value recovered by
    `Reconstruct` from the shares of the others when it did not (`j` accused) -/
theorem bad_opening_reconstructed [Fact (Nat.Prime (grp G).p.natAbs)] (hS : Setup G ins n t)
    (fam : Nat → Polynomial (Zq G)) (hB : BindingHyp G ins n t fam)
    (x : Nat) (hx : HonIdx ins n x) :
    ∃ P QL R, (runFlip G n t ins)[x]? = some P ∧ P.st.qual = QL ∧ P.st.racc = R ∧
      ∀ j, j ∈ QL →
        toQ G (getI P.st.a j) = (fam j).eval 0 ∧
        (j ∈ R → getI P.st.a j = committed G fam j) ∧
        (j ∉ R → ∃ ha, AbsLt G (getI P.st.a j) ∧ AbsLt G ha ∧
          com G (getI P.st.a j) ha = toF (grp G) (getI (getRow P.st.C j) 0)) := by
  obtain ⟨Q, CH, QL, R, A, HA, h, hR, hfam⟩ := run_end hS fam hB x hx
  obtain ⟨P, hP, _, _, hrec⟩ := final_party hS h hR x hx
  refine ⟨P, QL, R, hP, hrec.shared.qual_eq, hrec.racc_eq, ?_⟩
  intro j hj
  refine ⟨entry_committed hS.hG fam h hfam hrec j hj, ?_, ?_⟩
  · intro hjr
    rcases final_entry hrec j hj with ⟨h1, _⟩ | ⟨_, ha⟩
    · exact absurd hjr h1
    · exact ha
  · intro hjr
    rcases final_entry hrec j hj with ⟨_, ha⟩ | ⟨h1, _⟩
    · obtain ⟨ha1, ha2, hcom⟩ := h.open_ok j hj hjr
      refine ⟨HA j, by rw [ha]; exact ha1, ha2, ?_⟩
      rw [ha, hrec.shared.C_eq]; exact hcom
    · exact absurd h1 hjr

/-- **the coin is the sum of the committed shares**: all honest parties end with the same Qual,
    which contains them, and their coin is, modulo `q`, the sum over Qual of the shares `f_j(0)`
    fixed by the members' commitments; for an honest member this is the `a_j = c_j0` it drew -/
theorem flip_is_sum [Fact (Nat.Prime (grp G).p.natAbs)] (hS : Setup G ins n t)
    (fam : Nat → Polynomial (Zq G)) (hB : BindingHyp G ins n t fam)
    (x0 : Nat) (hx0 : HonIdx ins n x0) :
    ∃ QL : List Nat,
      (∀ j, HonIdx ins n j → j ∈ QL ∧ (fam j).eval 0 = toQ G (getI (cOf ins t j) 0)) ∧
      ∀ x, HonIdx ins n x → ∃ P c, (runFlip G n t ins)[x]? = some P ∧ P.status = .ret true ∧
        P.st.qual = QL ∧ P.st.coin = some c ∧ InRange G c ∧
        toQ G c = (QL.map (fun j => (fam j).eval 0)).sum := by
  obtain ⟨Q, CH, QL, R, A, HA, h, hR, hfam⟩ := run_end hS fam hB x0 hx0
  refine ⟨QL, ?_, ?_⟩
  · intro j hj
    have hjq := h.qual.hon_mem j hj
    have hjr : j ∉ R := fun hc => (h.r_sub j hc).2 hj
    refine ⟨hjq, ?_⟩
    rw [← open_committed h fam hfam j hjq hjr, (h.open_hon j hj).1]
  · intro x hx
    obtain ⟨P, hP, hs, hc, hrec⟩ := final_party hS h hR x hx
    refine ⟨P, sumMod G.q P.st.a QL, hP, hs, hrec.shared.qual_eq, hc, sumMod_range hS.hG _ _, ?_⟩
    rw [sumMod_toQ hS.hG]
    congr 1
    apply List.map_congr_left
    intro j hj
    exact entry_committed hS.hG fam h hfam hrec j hj

/-! ### the order of commitment and opening in a run -/

/-- an honest party runs with the empty script in every round -/
theorem honest_dev (hS : Setup G ins n t) (x : Nat) (hx : HonIdx ins n x) :
    ∀ r, ∃ P, (cfg G ins n t r)[x]? = some P ∧ P.dev = {} := by
  intro r
  induction r with
  | zero =>
    rw [cfg_zero, initParties_get n t ins hS.hlen x hx.1]
    refine ⟨_, rfl, ?_⟩
    have hlt : x < ins.length := by rw [hS.hlen]; exact hx.1
    have hpin : pinOf ins x = ins[x] := pinOf_eq_get ins x hlt
    have := (honest_iff _).mp hx.2
    rw [hpin] at this
    exact this
  | succ r ih =>
    obtain ⟨P, hP, hd⟩ := ih
    have hlen : x < (cfg G ins n t r).length := by rw [cfg_length G ins n t _ hS.hlen]; exact hx.1
    obtain ⟨P2, hP2, hdev, _⟩ := runRound_get (flipStep G ins n t r) (cfg G ins n t r) x hlen
    refine ⟨P2, by rw [cfg_succ]; exact hP2, ?_⟩
    rw [hdev]
    unfold stepped
    rw [stepParty_dev]
    obtain ⟨_, h⟩ := List.getElem?_eq_some_iff.mp hP
    rw [h]; exact hd

/-- what an honest party broadcasts in round `r`: nothing, or the broadcasts among the outputs of
    its step function -/
theorem bOut_honest (hS : Setup G ins n t) (x : Nat) (hx : HonIdx ins n x) (r : Nat) :
    bOut G ins n t r x = [] ∨ ∃ P st I ops s, (cfg G ins n t r)[x]? = some P ∧
      flipStep G ins n t r x P.st P.inbox = .ok (st, I, ops, s) ∧ bOut G ins n t r x = bsOf ops := by
  obtain ⟨P, hP, hd⟩ := honest_dev hS x hx r
  have hlen : x < (cfg G ins n t r).length := by rw [cfg_length G ins n t _ hS.hlen]; exact hx.1
  obtain ⟨_, hget⟩ := List.getElem?_eq_some_iff.mp hP
  unfold bOut
  rw [dif_pos hlen]
  unfold outOf
  rw [hget]
  by_cases hl : P.live = true
  · cases hstep : flipStep G ins n t r x P.st P.inbox with
    | error e =>
      left
      rw [stepParty_error _ _ _ hl e hstep]
    | ok v =>
      obtain ⟨st, I, ops, s⟩ := v
      right
      obtain ⟨fs', hsp, _⟩ := stepParty_honest (cfg G ins n t r).length _ P hd hl st I ops s hstep
      exact ⟨P, st, I, ops, s, hP, hstep, by rw [hsp]⟩
  · left
    have hl' : P.live = false := by
      cases h : P.live
      · rfl
      · exact absurd h hl
    rw [stepParty_not_live _ _ _ hl']

theorem mem_bsOf {ops : List Op} {tag : Tag} {v : Int} (h : (tag, v) ∈ bsOf ops) : Op.bc tag v ∈ ops := by
  induction ops with
  | nil => simp at h
  | cons o rest ih =>
    cases o with
    | bc tg w =>
      simp only [bsOf_cons_bc, List.mem_cons] at h
      rcases h with h | h
      · injection h with h1 h2
        subst h1; subst h2
        exact List.mem_cons_self ..
      · exact List.mem_cons_of_mem _ (ih h)
    | pv j w =>
      simp only [bsOf_cons_pv] at h
      exact List.mem_cons_of_mem _ (ih h)

/-- **no honest party reveals its share before it has every other participant's commitment**:
    in a run, an honest party `x`
    * broadcasts in the instance of `Flip` (the opening) in round 4 only, and what it broadcasts there
      is the pair `(c_x0, ĉ_x0)` its commitment `C_x0` of round 0 commits to;
    * holds from round 1 on (three rounds earlier) the table of commitments it still holds when the
      opening leaves, and in this table the row of every member of its Qual is complete: `t+1` group
      elements (the rows were read in round 1 by `jlReadC`, `readC_reads_all`; a party whose
      commitments are missing or invalid is accused by every honest party and not in Qual) -/
theorem reveal_after_commitments [Fact (Nat.Prime (grp G).p.natAbs)] (hS : Setup G ins n t)
    (x : Nat) (hx : HonIdx ins n x) :
    (∀ r e, e ∈ bOut G ins n t r x → e.1 = tagFlip →
      r = 4 ∧ (e.2 = getI (cOf ins t x) 0 ∨ e.2 = getI (hcOf ins t x) 0)) ∧
    ∃ CH QL P2 P5, (cfg G ins n t 2)[x]? = some P2 ∧ (cfg G ins n t 5)[x]? = some P5 ∧
      P2.st.C = CH ∧ P5.st.C = CH ∧ P5.st.qual = QL ∧
      ∀ j, j ∈ QL → (getRow CH j).length = t + 1 ∧ ∀ k, k < t + 1 → IsElem G (getI (getRow CH j) k) := by
  obtain ⟨Q1, Row, h1⟩ := inv1 hS
  obtain ⟨Q2, CH, Flag, h2⟩ := inv2 hS h1
  obtain ⟨Q3, W, h3⟩ := inv3 hS h2
  obtain ⟨Q4, T, BadC, CNT, h4⟩ := inv4 hS h3
  obtain ⟨Q5, QL, h5⟩ := inv5 hS h4
  constructor
  · intro r e he htag
    rcases bOut_honest hS x hx r with h0 | ⟨P, st, I, ops, s, hP, hstep, hb⟩
    · rw [h0] at he; cases he
    · rw [hb] at he
      obtain ⟨tag, v⟩ := e
      simp only at htag
      subst htag
      have hop := mem_bsOf he
      have hr : r = 4 := opening_only_in_round_4 G ins n t r x hstep _ hop ⟨v, rfl⟩
      subst hr
      refine ⟨rfl, ?_⟩
      obtain ⟨P4, hP4, _, hcore, _⟩ := h4.party x hx
      rw [hP] at hP4
      injection hP4 with hP4
      subst hP4
      simp only [flipStep] at hstep
      rcases opening_is_committed_pair G hcore.sfb_eq hstep with h0 | h2
      · rw [h0] at hop; cases hop
      · rw [h2, hcore.c_eq, hcore.hc_eq] at hop
        simp only [List.mem_cons, List.mem_nil_iff, or_false] at hop
        rcases hop with h | h
        · injection h with _ h; exact Or.inl h
        · injection h with _ h; exact Or.inr h
  · obtain ⟨P2, hP2, _, _, hC2, _⟩ := h2.party x hx
    obtain ⟨P5, hP5, _, _, hsh, _⟩ := h5.party x hx
    exact ⟨CH, QL, P2, P5, hP2, hP5, hC2, hsh.C_eq, hsh.qual_eq, h5.qual.rows⟩

end Tmcg.JlProofs
