import TmcgProofs.CgjkrSignBindC
/-
  C16, run level, part D: where the hypotheses of part C come from.

    * `pedersen_row_unique`  a row of `t+1` group elements against which `t+1` pairs lying on a polynomial pair
                             `(V, V')` of degree `≤ t` pass the share check IS the Pedersen row of `(V, V')`:
                             `∏_k row_k^{x^k} = g^{V(x)} h^{V'(x)}` for every `x` (so a valid pair for ANY position is
                             an opening of the commitment to `(V(x), V'(x))`)
    * `hrow_of_shares`       … in the form `ViewRows.hrow` needs it
    * `sOwnShare_val`, `shEmit_spec`   step 1f / 2f, first half: the signer set has at least `2t+1` members, the
                             multipliers are the library's Lagrange multipliers of the signer set, and the party's own
                             share of the combined sharing is `Σ λ_jt · (its share of signer jt's sharing)`
    * `own_on_fcomb`         hence the own share lies on `Fcomb` when its shares of the signers' sharings lie on the
                             `V jt`
    * `prod_proof_extract`   why the product relation of `fcomb_eval_zero` is a HYPOTHESIS: the checks of steps
                             1d / 2d are the verifier of a Σ-protocol; two accepting answers to different challenges
                             yield openings `α = g^{a1}h^{r1}`, `β = g^{a2}h^{r2}`, `χ = g^{a1·a2}h^{r3}`, one answer to
                             one challenge does not (soundness error `1/q` over the jointly generated challenge `d`).
-/
namespace Tmcg.CgjkrSignBind
open Tmcg Tmcg.Powm Tmcg.Dkg Tmcg.Grp Tmcg.DkgL Tmcg.DkgP Tmcg.Cgjkr Tmcg.CgjkrSign Tmcg.CgjkrSignRunP
open Polynomial

variable {G : Dkg.Grp} [Fact (Nat.Prime G.p.natAbs)] [Fact (Nat.Prime G.q.natAbs)]

set_option linter.unusedSectionVars false
set_option linter.unusedVariables false

/-! ### rows are determined by `t+1` valid pairs -/

/-- **Pedersen commitment rows are determined by `t+1` consistent pairs.** -/
theorem pedersen_row_unique (hG : ValidGrp G) (t : Nat) (V V' : Polynomial (ZMod G.q.natAbs))
    (hV : V.degree < ((t + 1 : Nat) : WithBot Nat)) (hV' : V'.degree < ((t + 1 : Nat) : WithBot Nat))
    (row : List Int) (hlen : row.length = t + 1) (hel : ∀ c ∈ row, Dkg.checkElement G c = true)
    (pts : List Nat) (hp : GoodParties G.q pts) (hpl : t + 1 ≤ pts.length)
    (h5 : ∀ m ∈ pts, ∃ s s' : Int, cq G s = V.eval (pt G.q m) ∧ cq G s' = V'.eval (pt G.q m) ∧
      cp G G.g ^ s * cp G G.h ^ s' = powProdFrom (m + 1) 0 (row.map (cp G))) :
    ∀ x : Nat, powProdFrom x 0 (row.map (cp G)) =
      ped G (V.eval ((x : Nat) : ZMod G.q.natAbs)) (V'.eval ((x : Nat) : ZMod G.q.natAbs)) := by
  obtain ⟨w, -, hlog⟩ := @exists_log (gGrp G) ‹Fact (Nat.Prime G.p.natAbs)› hG.vg (cp G G.h) (h_pow_q_eq hG)
  have hw : cp G G.h = cp G G.g ^ (w : Int) := by rw [zpow_natCast]; exact hlog
  have hcomb : ∀ u v : Int, cp G G.g ^ u * cp G G.h ^ v = cp G G.g ^ (u + (w : Int) * v) := by
    intro u v
    rw [hw, ← zpow_mul, ← zpow_add₀ (g_unit hG)]
  have hf : (V + C (cq G (w : Int)) * V').degree < ((t + 1 : Nat) : WithBot Nat) :=
    lt_of_le_of_lt (Polynomial.degree_add_le _ _) (max_lt hV (degree_C_mul_lt _ _ _ hV'))
  have h5' : ∀ m ∈ pts, ∃ s : Int, cq G s = (V + C (cq G (w : Int)) * V').eval (pt G.q m) ∧
      cp G G.g ^ s = powProdFrom (m + 1) 0 (row.map (cp G)) := by
    intro m hm
    obtain ⟨s, s', e1, e2, e3⟩ := h5 m hm
    refine ⟨s + (w : Int) * s', ?_, ?_⟩
    · rw [cq_add, cq_mul, e1, e2]
      simp only [Polynomial.eval_add, Polynomial.eval_mul, Polynomial.eval_C]
    · rw [← hcomb]; exact e3
  obtain ⟨-, hx⟩ := feldman_unique hG t _ hf row hlen hel pts hp hpl h5'
  intro x
  rw [hx x]
  unfold ped
  rw [← zpow_natCast (cp G G.g) (V.eval _).val, ← zpow_natCast (cp G G.h) (V'.eval _).val, hcomb,
    ka_gexp_cq hG (_ + _)]
  congr 2
  rw [cq_add, cq_mul, ka_cq_val, ka_cq_val]
  simp only [Polynomial.eval_add, Polynomial.eval_mul, Polynomial.eval_C]

/-- the share check value of a row determined as in `pedersen_row_unique`, as `ViewRows.hrow` states it -/
theorem hrow_of_shares (hG : ValidGrp G) (t : Nat) (V V' : Polynomial (ZMod G.q.natAbs))
    (hV : V.degree < ((t + 1 : Nat) : WithBot Nat)) (hV' : V'.degree < ((t + 1 : Nat) : WithBot Nat))
    (row : List Int) (hlen : row.length = t + 1) (hel : ∀ c ∈ row, Dkg.checkElement G c = true)
    (pts : List Nat) (hp : GoodParties G.q pts) (hpl : t + 1 ≤ pts.length)
    (h5 : ∀ m ∈ pts, ∃ s s' : Int, cq G s = V.eval (pt G.q m) ∧ cq G s' = V'.eval (pt G.q m) ∧
      cp G G.g ^ s * cp G G.h ^ s' = powProdFrom (m + 1) 0 (row.map (cp G)))
    (d : Nat) :
    ∃ b, commitProd G.p (d + 1) row = .ok b ∧ cp G b = ped G (V.eval (pt G.q d)) (V'.eval (pt G.q d)) := by
  have hne : ∀ c ∈ row, cp G c ≠ 0 := by
    intro c hc h0
    have h1 := ((pl_checkElement_iff hG c).mp (hel c hc)).2.2
    rw [h0, zero_pow (Fact.out : Nat.Prime G.q.natAbs).ne_zero] at h1
    exact zero_ne_one h1
  obtain ⟨b, hb, -, -, hbv⟩ := commitProd_val hG (d + 1) row hne
  refine ⟨b, hb, ?_⟩
  rw [hbv, pedersen_row_unique hG t V V' hV hV' row hlen hel pts hp hpl h5 (d + 1)]
  have : (((d + 1 : Nat)) : ZMod G.q.natAbs) = pt G.q d := by unfold pt; push_cast; rfl
  rw [this]

/-! ### step 1f / 2f, first half -/

/-- the party's share of the sharing of signer `jt` in the view -/
def ownV (st : SSt) (kindV jt : Nat) : Int :=
  if st.compl.contains jt then getI st.vi jt else (getPv st kindV jt).sigma

/-- the library's multiplier of signer `jt` (0 when `mpz_invert` fails) -/
def Lc (G : Dkg.Grp) (st : SSt) (jt : Nat) : Int := (lagCoeffP (st.env G) st.signers jt).getD 0

theorem sOwnShare_val (hq : 0 < G.q) (st : SSt) (kindV : Nat) (l : List Nat) (lam : List Int) (foo bar : Int)
    (lam' : List Int) (foo' bar' : Int)
    (h : sOwnShare (st.env G) st kindV l lam foo bar = some (lam', foo', bar')) :
    lam'.length = lam.length ∧
    (∀ jt, jt ∉ l → getI lam' jt = getI lam jt) ∧
    (l.Nodup → ∀ jt ∈ l, jt < lam.length → getI lam' jt = Lc G st jt) ∧
    (∀ jt ∈ l, lagCoeffP (st.env G) st.signers jt = some (Lc G st jt)) ∧
    cq G foo' = cq G foo + (l.map (fun jt => cq G (Lc G st jt) * cq G (ownV st kindV jt))).sum := by
  induction l generalizing lam foo bar with
  | nil =>
    simp only [sOwnShare, Option.some.injEq, Prod.mk.injEq] at h
    obtain ⟨rfl, rfl, rfl⟩ := h
    refine ⟨rfl, fun _ _ => rfl, ?_, ?_, by simp⟩
    · intro _ jt hjt
      exact absurd hjt List.not_mem_nil
    · intro jt hjt
      exact absurd hjt List.not_mem_nil
  | cons jt rest ih =>
    simp only [sOwnShare] at h
    cases hl : lagCoeffP (st.env G) st.signers jt with
    | none => rw [hl] at h; cases h
    | some lv =>
      rw [hl] at h
      simp only at h
      have hLc : Lc G st jt = lv := by unfold Lc; rw [hl]; rfl
      have hE : (st.env G).G = G := rfl
      rw [hE] at h
      have key : ∀ (foo1 bar1 : Int), cq G foo1 = cq G foo + cq G lv * cq G (ownV st kindV jt) →
          sOwnShare (st.env G) st kindV rest (lam.set jt lv) foo1 bar1 = some (lam', foo', bar') →
          lam'.length = lam.length ∧
          (∀ x, x ∉ jt :: rest → getI lam' x = getI lam x) ∧
          ((jt :: rest).Nodup → ∀ x ∈ jt :: rest, x < lam.length → getI lam' x = Lc G st x) ∧
          (∀ x ∈ jt :: rest, lagCoeffP (st.env G) st.signers x = some (Lc G st x)) ∧
          cq G foo' = cq G foo +
            ((jt :: rest).map (fun x => cq G (Lc G st x) * cq G (ownV st kindV x))).sum := by
        intro foo1 bar1 hfoo1 hrec
        obtain ⟨i1, i2, i3, i4, i5⟩ := ih _ _ _ hrec
        refine ⟨by rw [i1, List.length_set], ?_, ?_, ?_, ?_⟩
        · intro x hx
          have hxj : x ≠ jt := fun e => hx (e ▸ List.mem_cons_self)
          rw [i2 x (fun hm => hx (List.mem_cons_of_mem _ hm)), getI_set]
          simp [hxj]
        · intro hnd x hx hxl
          obtain ⟨hjr, hndr⟩ := List.nodup_cons.mp hnd
          rcases List.mem_cons.mp hx with rfl | hxr
          · rw [i2 x hjr, getI_set]
            simp [hxl, hLc]
          · exact i3 hndr x hxr (by rw [List.length_set]; exact hxl)
        · intro x hx
          rcases List.mem_cons.mp hx with rfl | hxr
          · rw [hLc]; exact hl
          · exact i4 x hxr
        · rw [i5, hfoo1]
          simp only [List.map_cons, List.sum_cons, hLc]
          ring
      split at h
      · rename_i hc
        refine key _ _ ?_ h
        have : ownV st kindV jt = (getPv st kindV jt).sigma := by
          unfold ownV
          have : st.compl.contains jt = false := by simpa using hc
          rw [this]; rfl
        rw [this, cq_emod hq, cq_add, cq_emod hq, cq_mul]
      · rename_i hc
        refine key _ _ ?_ h
        have : ownV st kindV jt = getI st.vi jt := by
          unfold ownV
          have : st.compl.contains jt = true := by simpa using hc
          rw [this]; rfl
        rw [this, cq_emod hq, cq_add, cq_emod hq, cq_mul]

/-- step 1f / 2f, first half (`shEmit ph`; `kindV = 2` for `ph = 0`, else `4`): the signer set, the multipliers, the
    party's own share of the combined sharing -/
theorem shEmit_spec (hq : 0 < G.q) (ph : Nat) (st st' : SSt) (I I' : Inbox) (ops : List Op)
    (hlamlen : st.lam.length = st.m)
    (h : doAct G (.shEmit ph) st I = .ok (.go st' I' ops)) :
    st'.signers = (List.range st.m).filter (fun j => !st.ignore.contains j && inJq st j) ∧
    2 * st.t < st'.signers.length ∧
    st'.compl = st.compl ∧ st'.vi = st.vi ∧ st'.vs = st.vs ∧ st'.m = st.m ∧ st'.t = st.t ∧ st'.pts = st.pts ∧
    st'.i = st.i ∧
    (∀ jt ∈ st'.signers, lagCoeffP (st'.env G) st'.signers jt = some (getI st'.lam jt)) ∧
    cq G st'.s = (st'.signers.map (fun jt =>
      cq G (getI st'.lam jt) * cq G (ownV st' (if ph = 0 then 2 else 4) jt))).sum := by
  simp only [doAct, fail, pure, Except.pure] at h
  split at h
  · cases h
  · rename_i hlen
    split at h
    · cases h
    · rename_i lam foo bar hown
      simp only [Except.ok.injEq, AOut.go.injEq] at h
      obtain ⟨rfl, -, -⟩ := h
      set signers := (List.range st.m).filter (fun j => !st.ignore.contains j && inJq st j) with hsig
      set st1 : SSt := { st with signers := signers } with hst1
      have hnd : signers.Nodup := List.nodup_range.filter _
      have hlt : ∀ jt ∈ signers, jt < st1.lam.length := by
        intro jt hjt
        have := (List.mem_filter.mp hjt).1
        show jt < st.lam.length
        rw [hlamlen]
        exact List.mem_range.mp this
      have hEnv : SSt.env G st1 = SSt.env G st := rfl
      rw [← hEnv] at hown
      obtain ⟨i1, i2, i3, i4, i5⟩ := sOwnShare_val hq st1 (if ph = 0 then 2 else 4) signers st1.lam 0 0 lam foo bar hown
      refine ⟨rfl, by simp only; omega, rfl, rfl, rfl, rfl, rfl, rfl, rfl, ?_, ?_⟩
      · intro jt hjt
        have e1 := i3 hnd jt hjt (hlt jt hjt)
        have e2 := i4 jt hjt
        show lagCoeffP (SSt.env G st1) signers jt = some (getI lam jt)
        rw [e1]
        exact e2
      · show cq G foo = _
        rw [i5, cq_zero, zero_add]
        congr 1
        apply List.map_congr_left
        intro jt hjt
        have e1 := i3 hnd jt hjt (hlt jt hjt)
        show cq G (Lc G st1 jt) * cq G (ownV st1 _ jt) = cq G (getI lam jt) * cq G (ownV _ _ jt)
        rw [e1]
        rfl

/-- the own share lies on `Fcomb` when the party's shares of the signers' sharings lie on the `V jt` -/
theorem own_on_fcomb (st : SSt) (kindV : Nat) (Λ : Nat → ZMod G.q.natAbs) (V : Nat → Polynomial (ZMod G.q.natAbs))
    (hlam : ∀ jt ∈ st.signers, cq G (getI st.lam jt) = Λ jt)
    (hs : cq G st.s = (st.signers.map (fun jt => cq G (getI st.lam jt) * cq G (ownV st kindV jt))).sum)
    (hsh : ∀ jt ∈ st.signers, st.compl.contains jt = false →
      cq G (getPv st kindV jt).sigma = (V jt).eval (pt G.q (getN st.pts st.i))) :
    ((st.s : Int) : ZMod G.q.natAbs) = (Fcomb G st Λ V).eval (pt G.q (getN st.pts st.i)) := by
  show cq G st.s = _
  rw [hs]
  unfold Fcomb
  rw [eval_list_sum', List.map_map]
  congr 1
  apply List.map_congr_left
  intro jt hjt
  simp only [Function.comp, Polynomial.eval_mul, Polynomial.eval_C]
  rw [hlam jt hjt]
  congr 1
  unfold ownV Wv
  cases hc : st.compl.contains jt with
  | false =>
    simp only [Bool.false_eq_true, if_false]
    exact hsh jt hjt hc
  | true => simp

/-! ### the proofs of steps 1d / 2d are Σ-protocols -/

/-- **special soundness of the product proof** (`sCheckProd`): two accepting answers `(f1, z1, f2, z2, z3)`,
    `(f1', z1', f2', z2', z3')` to challenges `d ≢ d' (mod q)` for the same first message `(DD, DD', EE)` yield
    `a1, r1, a2, r2, r3` with `α = g^{a1}h^{r1}`, `β = g^{a2}h^{r2}`, `χ = g^{a1·a2}h^{r3}`.  (One answer to one
    challenge yields nothing: for a challenge known in advance the first message can be computed from arbitrary
    answers.  In `Sign` the challenge is generated jointly AFTER the first messages, so a signer whose `χ` does
    not commit to the product passes with probability `1/q`.) -/
theorem prod_proof_extract (hG : ValidGrp G) (al be ch DD DDp EE : Fp G)
    (hal : al ^ G.q.natAbs = 1) (hbe : be ^ G.q.natAbs = 1) (hch : ch ^ G.q.natAbs = 1)
    (hal0 : al ≠ 0) (hbe0 : be ≠ 0) (hch0 : ch ≠ 0)
    (d d' f1 z1 f2 z2 z3 f1' z1' f2' z2' z3' : Int) (hd : cq G d ≠ cq G d')
    (c1 : cp G G.g ^ f1 * cp G G.h ^ z1 = al ^ d * DD)
    (c1' : cp G G.g ^ f1' * cp G G.h ^ z1' = al ^ d' * DD)
    (c2 : cp G G.g ^ f2 * cp G G.h ^ z2 = be ^ d * EE)
    (c2' : cp G G.g ^ f2' * cp G G.h ^ z2' = be ^ d' * EE)
    (c3 : be ^ f1 * cp G G.h ^ z3 = ch ^ d * DDp)
    (c3' : be ^ f1' * cp G G.h ^ z3' = ch ^ d' * DDp) :
    ∃ a1 r1 a2 r2 r3 : ZMod G.q.natAbs, al = ped G a1 r1 ∧ be = ped G a2 r2 ∧ ch = ped G (a1 * a2) r3 := by
  have hq : 0 < G.q := hG.vg.q_pos
  -- everything is a power of `g`
  obtain ⟨w, -, hlw⟩ := @exists_log (gGrp G) ‹Fact (Nat.Prime G.p.natAbs)› hG.vg (cp G G.h) (h_pow_q_eq hG)
  obtain ⟨ea, -, hla⟩ := @exists_log (gGrp G) ‹Fact (Nat.Prime G.p.natAbs)› hG.vg al hal
  obtain ⟨eb, -, hlb⟩ := @exists_log (gGrp G) ‹Fact (Nat.Prime G.p.natAbs)› hG.vg be hbe
  obtain ⟨ec, -, hlc⟩ := @exists_log (gGrp G) ‹Fact (Nat.Prime G.p.natAbs)› hG.vg ch hch
  have hw : cp G G.h = cp G G.g ^ (w : Int) := by rw [zpow_natCast]; exact hlw
  have ha : al = cp G G.g ^ (ea : Int) := by rw [zpow_natCast]; exact hla
  have hb : be = cp G G.g ^ (eb : Int) := by rw [zpow_natCast]; exact hlb
  have hc : ch = cp G G.g ^ (ec : Int) := by rw [zpow_natCast]; exact hlc
  have g0 := g_unit hG
  -- divide the two equations of each pair
  have q1 : cp G G.g ^ ((f1 - f1') + (w : Int) * (z1 - z1')) = cp G G.g ^ ((ea : Int) * (d - d')) := by
    have e : cp G G.g ^ f1 * cp G G.h ^ z1 * (al ^ d' * DD) = cp G G.g ^ f1' * cp G G.h ^ z1' * (al ^ d * DD) := by
      rw [c1, c1']; ring
    have hDD : DD ≠ 0 := by
      intro h0
      rw [h0, mul_zero] at c1
      exact mul_ne_zero (zpow_ne_zero _ g0) (zpow_ne_zero _ (h_unit hG)) c1
    rw [ha, hw] at e
    have e' : cp G G.g ^ (f1 + (w : Int) * z1 + (ea : Int) * d') = cp G G.g ^ (f1' + (w : Int) * z1' + (ea : Int) * d) := by
      have := mul_right_cancel₀ hDD (by
        calc cp G G.g ^ (f1 + (w : Int) * z1 + (ea : Int) * d') * DD
            = cp G G.g ^ f1 * (cp G G.g ^ (w : Int)) ^ z1 * ((cp G G.g ^ (ea : Int)) ^ d' * DD) := by
              rw [zpow_add₀ g0, zpow_add₀ g0, zpow_mul, zpow_mul]; ring
          _ = cp G G.g ^ f1' * (cp G G.g ^ (w : Int)) ^ z1' * ((cp G G.g ^ (ea : Int)) ^ d * DD) := e
          _ = cp G G.g ^ (f1' + (w : Int) * z1' + (ea : Int) * d) * DD := by
              rw [zpow_add₀ g0, zpow_add₀ g0, zpow_mul, zpow_mul]; ring)
      exact this
    have := ka_g_zpow_inj hG _ _ e'
    apply g_zpow_congr hG
    have h2 : cq G (f1 + (w : Int) * z1 + (ea : Int) * d') - cq G (f1' + (w : Int) * z1' + (ea : Int) * d') =
        cq G (f1' + (w : Int) * z1' + (ea : Int) * d) - cq G (f1' + (w : Int) * z1' + (ea : Int) * d') := by rw [this]
    simp only [cq] at h2 ⊢
    push_cast at h2 ⊢
    linear_combination h2
  have q2 : cp G G.g ^ ((f2 - f2') + (w : Int) * (z2 - z2')) = cp G G.g ^ ((eb : Int) * (d - d')) := by
    have e : cp G G.g ^ f2 * cp G G.h ^ z2 * (be ^ d' * EE) = cp G G.g ^ f2' * cp G G.h ^ z2' * (be ^ d * EE) := by
      rw [c2, c2']; ring
    have hEE : EE ≠ 0 := by
      intro h0
      rw [h0, mul_zero] at c2
      exact mul_ne_zero (zpow_ne_zero _ g0) (zpow_ne_zero _ (h_unit hG)) c2
    rw [hb, hw] at e
    have e' : cp G G.g ^ (f2 + (w : Int) * z2 + (eb : Int) * d') = cp G G.g ^ (f2' + (w : Int) * z2' + (eb : Int) * d) := by
      have := mul_right_cancel₀ hEE (by
        calc cp G G.g ^ (f2 + (w : Int) * z2 + (eb : Int) * d') * EE
            = cp G G.g ^ f2 * (cp G G.g ^ (w : Int)) ^ z2 * ((cp G G.g ^ (eb : Int)) ^ d' * EE) := by
              rw [zpow_add₀ g0, zpow_add₀ g0, zpow_mul, zpow_mul]; ring
          _ = cp G G.g ^ f2' * (cp G G.g ^ (w : Int)) ^ z2' * ((cp G G.g ^ (eb : Int)) ^ d * EE) := e
          _ = cp G G.g ^ (f2' + (w : Int) * z2' + (eb : Int) * d) * EE := by
              rw [zpow_add₀ g0, zpow_add₀ g0, zpow_mul, zpow_mul]; ring)
      exact this
    have := ka_g_zpow_inj hG _ _ e'
    apply g_zpow_congr hG
    have h2 : cq G (f2 + (w : Int) * z2 + (eb : Int) * d') - cq G (f2' + (w : Int) * z2' + (eb : Int) * d') =
        cq G (f2' + (w : Int) * z2' + (eb : Int) * d) - cq G (f2' + (w : Int) * z2' + (eb : Int) * d') := by rw [this]
    simp only [cq] at h2 ⊢
    push_cast at h2 ⊢
    linear_combination h2
  have q3 : cp G G.g ^ ((eb : Int) * (f1 - f1') + (w : Int) * (z3 - z3')) = cp G G.g ^ ((ec : Int) * (d - d')) := by
    have e : be ^ f1 * cp G G.h ^ z3 * (ch ^ d' * DDp) = be ^ f1' * cp G G.h ^ z3' * (ch ^ d * DDp) := by
      rw [c3, c3']; ring
    have hDp : DDp ≠ 0 := by
      intro h0
      rw [h0, mul_zero] at c3
      exact mul_ne_zero (zpow_ne_zero _ hbe0) (zpow_ne_zero _ (h_unit hG)) c3
    rw [hb, hc, hw] at e
    have e' : cp G G.g ^ ((eb : Int) * f1 + (w : Int) * z3 + (ec : Int) * d') =
        cp G G.g ^ ((eb : Int) * f1' + (w : Int) * z3' + (ec : Int) * d) := by
      have := mul_right_cancel₀ hDp (by
        calc cp G G.g ^ ((eb : Int) * f1 + (w : Int) * z3 + (ec : Int) * d') * DDp
            = (cp G G.g ^ (eb : Int)) ^ f1 * (cp G G.g ^ (w : Int)) ^ z3 * ((cp G G.g ^ (ec : Int)) ^ d' * DDp) := by
              rw [zpow_add₀ g0, zpow_add₀ g0, zpow_mul, zpow_mul, zpow_mul]; ring
          _ = (cp G G.g ^ (eb : Int)) ^ f1' * (cp G G.g ^ (w : Int)) ^ z3' * ((cp G G.g ^ (ec : Int)) ^ d * DDp) := e
          _ = cp G G.g ^ ((eb : Int) * f1' + (w : Int) * z3' + (ec : Int) * d) * DDp := by
              rw [zpow_add₀ g0, zpow_add₀ g0, zpow_mul, zpow_mul, zpow_mul]; ring)
      exact this
    have := ka_g_zpow_inj hG _ _ e'
    apply g_zpow_congr hG
    have h2 : cq G ((eb : Int) * f1 + (w : Int) * z3 + (ec : Int) * d') - cq G ((eb : Int) * f1' + (w : Int) * z3' + (ec : Int) * d') =
        cq G ((eb : Int) * f1' + (w : Int) * z3' + (ec : Int) * d) - cq G ((eb : Int) * f1' + (w : Int) * z3' + (ec : Int) * d') := by
      rw [this]
    simp only [cq] at h2 ⊢
    push_cast at h2 ⊢
    linear_combination h2
  -- exponent equations in `ZMod q`
  have x1 := ka_g_zpow_inj hG _ _ q1
  have x2 := ka_g_zpow_inj hG _ _ q2
  have x3 := ka_g_zpow_inj hG _ _ q3
  have hdd : cq G d - cq G d' ≠ 0 := sub_ne_zero.mpr hd
  obtain ⟨δ, hδ⟩ : ∃ δ, δ = cq G d - cq G d' := ⟨_, rfl⟩
  obtain ⟨W, hW⟩ : ∃ W, W = cq G (w : Int) := ⟨_, rfl⟩
  rw [← hδ] at hdd
  obtain ⟨a1, ha1⟩ : ∃ a1, a1 = (cq G f1 - cq G f1') / δ := ⟨_, rfl⟩
  obtain ⟨r1, hr1⟩ : ∃ r1, r1 = (cq G z1 - cq G z1') / δ := ⟨_, rfl⟩
  obtain ⟨a2, ha2⟩ : ∃ a2, a2 = (cq G f2 - cq G f2') / δ := ⟨_, rfl⟩
  obtain ⟨r2, hr2⟩ : ∃ r2, r2 = (cq G z2 - cq G z2') / δ := ⟨_, rfl⟩
  obtain ⟨r3, hr3⟩ : ∃ r3, r3 = (cq G z3 - cq G z3') / δ := ⟨_, rfl⟩
  have x1' : (cq G f1 - cq G f1') + W * (cq G z1 - cq G z1') = cq G (ea : Int) * δ := by
    rw [hδ, hW]
    simp only [cq] at x1 ⊢
    push_cast at x1 ⊢
    linear_combination x1
  have x2' : (cq G f2 - cq G f2') + W * (cq G z2 - cq G z2') = cq G (eb : Int) * δ := by
    rw [hδ, hW]
    simp only [cq] at x2 ⊢
    push_cast at x2 ⊢
    linear_combination x2
  have x3' : cq G (eb : Int) * (cq G f1 - cq G f1') + W * (cq G z3 - cq G z3') = cq G (ec : Int) * δ := by
    rw [hδ, hW]
    simp only [cq] at x3 ⊢
    push_cast at x3 ⊢
    linear_combination x3
  have y1 : cq G (ea : Int) = a1 + W * r1 := by
    symm
    calc a1 + W * r1 = ((cq G f1 - cq G f1') + W * (cq G z1 - cq G z1')) / δ := by rw [ha1, hr1]; ring
      _ = cq G (ea : Int) * δ / δ := by rw [x1']
      _ = cq G (ea : Int) := mul_div_cancel_right₀ _ hdd
  have y2 : cq G (eb : Int) = a2 + W * r2 := by
    symm
    calc a2 + W * r2 = ((cq G f2 - cq G f2') + W * (cq G z2 - cq G z2')) / δ := by rw [ha2, hr2]; ring
      _ = cq G (eb : Int) * δ / δ := by rw [x2']
      _ = cq G (eb : Int) := mul_div_cancel_right₀ _ hdd
  have y3 : cq G (ec : Int) = cq G (eb : Int) * a1 + W * r3 := by
    symm
    calc cq G (eb : Int) * a1 + W * r3
        = (cq G (eb : Int) * (cq G f1 - cq G f1') + W * (cq G z3 - cq G z3')) / δ := by rw [ha1, hr3]; ring
      _ = cq G (ec : Int) * δ / δ := by rw [x3']
      _ = cq G (ec : Int) := mul_div_cancel_right₀ _ hdd
  have pedW : ∀ u v : ZMod G.q.natAbs, ped G u v = cp G G.g ^ (((u + W * v).val : Nat) : Int) := by
    intro u v
    unfold ped
    rw [← zpow_natCast (cp G G.g) u.val, ← zpow_natCast (cp G G.h) v.val, hw, ← zpow_mul,
      ← zpow_add₀ g0, ka_gexp_cq hG (_ + _), zpow_natCast]
    congr 2
    rw [cq_add, cq_mul, ka_cq_val, ka_cq_val, hW]
  refine ⟨a1, r1, a2, r2 , r3 + r2 * a1, ?_, ?_, ?_⟩
  · rw [ha, pedW, ka_gexp_cq hG, y1, zpow_natCast]
  · rw [hb, pedW, ka_gexp_cq hG, y2, zpow_natCast]
  · rw [hc, pedW, ka_gexp_cq hG, y3, y2, zpow_natCast]
    congr 2
    ring

end Tmcg.CgjkrSignBind
