import Tmcg.Model.Jl
/-
  C17, multi-party part: generic facts about the round glue of Tmcg/Model/Jl.lean (`stepParty`,
  `stepAll`, `deliverAll`, `runRound`, `runRounds`, `initParties`), about the output filter of a
  party without deviation script and about the inbox primitives (`removeFirst`, `popB`, `popP`).
  Nothing protocol-specific; core Lean only.
-/
namespace Tmcg.JlProofs
open Tmcg Tmcg.Jl

/-! ### list helpers -/

theorem glue_getD_set {α} (l : List α) (j k : Nat) (x d : α) :
    (l.set j x).getD k d = if j = k ∧ k < l.length then x else l.getD k d := by
  simp only [List.getD_eq_getElem?_getD, List.getElem?_set]
  by_cases h : j = k
  · subst h
    by_cases h2 : j < l.length
    · simp [h2]
    · simp [h2]
  · simp [h]

theorem glue_zipRange_getElem? {α} (ps : List α) (s i : Nat) :
    ((List.range' s ps.length).zip ps)[i]? = (ps[i]?).map (fun P => (s + i, P)) := by
  induction ps generalizing s i with
  | nil => simp
  | cons P ps ih =>
    cases i with
    | zero => simp [List.range'_succ]
    | succ i =>
      simp only [List.length_cons, List.range'_succ, List.zip_cons_cons, List.getElem?_cons_succ]
      rw [ih]
      congr 1
      funext P
      congr 1
      omega

/-! ### the output filter of an honest party -/

/-- the broadcasts / private values among a list of output operations -/
def bsOf (ops : List Op) : List (Tag × Int) :=
  ops.filterMap (fun o => match o with | .bc tag v => some (tag, v) | .pv _ _ => none)

def psOf (ops : List Op) : List (Nat × Int) :=
  ops.filterMap (fun o => match o with | .pv j v => some (j, v) | .bc _ _ => none)

@[simp] theorem bsOf_nil : bsOf [] = [] := rfl
@[simp] theorem psOf_nil : psOf [] = [] := rfl
@[simp] theorem bsOf_cons_bc (tag : Tag) (v : Int) (r : List Op) : bsOf (.bc tag v :: r) = (tag, v) :: bsOf r := rfl
@[simp] theorem bsOf_cons_pv (j : Nat) (v : Int) (r : List Op) : bsOf (.pv j v :: r) = bsOf r := rfl
@[simp] theorem psOf_cons_bc (tag : Tag) (v : Int) (r : List Op) : psOf (.bc tag v :: r) = psOf r := rfl
@[simp] theorem psOf_cons_pv (j : Nat) (v : Int) (r : List Op) : psOf (.pv j v :: r) = (j, v) :: psOf r := rfl

theorem bsOf_append (a b : List Op) : bsOf (a ++ b) = bsOf a ++ bsOf b := by
  simp [bsOf, List.filterMap_append]

theorem psOf_append (a b : List Op) : psOf (a ++ b) = psOf a ++ psOf b := by
  simp [psOf, List.filterMap_append]

theorem honest_iff (d : Dev) : d.honest = true ↔ d = {} := by
  obtain ⟨sfb, silent, po, pi, ba, bd, bi⟩ := d
  simp only [Dev.honest, Bool.and_eq_true, Bool.not_eq_true', List.isEmpty_iff,
    Option.isNone_iff_eq_none, Dev.mk.injEq]
  constructor
  · rintro ⟨⟨⟨⟨⟨⟨h1, h2⟩, h3⟩, h4⟩, h5⟩, h6⟩, h7⟩
    exact ⟨h1, h2, h3, h4, h5, h6, h7⟩
  · rintro ⟨h1, h2, h3, h4, h5, h6, h7⟩
    exact ⟨⟨⟨⟨⟨⟨h1, h2⟩, h3⟩, h4⟩, h5⟩, h6⟩, h7⟩

theorem lookup2_nil (j k : Nat) : lookup2 [] j k = 0 := rfl

/-- the filter of an honest party lets everything through unchanged and never kills it -/
theorem applyOps_honest (n : Nat) (ops : List Op) (fs : FState) (h : fs.dead = false) :
    ∃ fs', applyOps n {} ops fs = (fs', bsOf ops, psOf ops) ∧ fs'.dead = false := by
  induction ops generalizing fs with
  | nil => exact ⟨fs, rfl, h⟩
  | cons op ops ih =>
    obtain ⟨o, sg, off, pc, dd⟩ := fs
    simp only at h
    subst h
    cases op with
    | bc tag v =>
      by_cases hv : v = (n : Int)
      · obtain ⟨fs', h1, h2⟩ := ih { ops := o + 1, seg := sg + 1, off := 0, poCnt := pc, dead := false } rfl
        refine ⟨fs', ?_, h2⟩
        simp [applyOps, applyOp, hv, lookup2_nil, h1]
      · obtain ⟨fs', h1, h2⟩ := ih { ops := o + 1, seg := sg, off := off + 1, poCnt := pc, dead := false } rfl
        refine ⟨fs', ?_, h2⟩
        simp [applyOps, applyOp, hv, lookup2_nil, h1]
    | pv j v =>
      obtain ⟨fs', h1, h2⟩ := ih { ops := o + 1, seg := sg, off := off, poCnt := bump pc j, dead := false } rfl
      refine ⟨fs', ?_, h2⟩
      simp [applyOps, applyOp, lookup2_nil, h1]

/-- the input filter of a party without `pi` entries is the identity -/
theorem filterIn_of_pi_nil (d : Dev) (hd : d.pi = []) (j c : Nat) (l : List Int) : filterIn d j c l = l := by
  induction l generalizing c with
  | nil => rfl
  | cons v l ih => simp [filterIn, ih, hd, lookup2_nil]

theorem filterIn_honest (j c : Nat) (l : List Int) : filterIn {} j c l = l :=
  filterIn_of_pi_nil {} rfl j c l

theorem filterIn_length (d : Dev) (j c : Nat) (l : List Int) : (filterIn d j c l).length = l.length := by
  induction l generalizing c with
  | nil => rfl
  | cons v l ih => simp [filterIn, ih]

/-! ### one party's step -/

/-- what one step of a live honest party does -/
theorem stepParty_honest (n : Nat) (step : Step) (P : Party) (hd : P.dev = {}) (hl : P.live = true)
    (st : St) (I : Inbox) (ops : List Op) (s : Status) (hs : step P.st P.inbox = .ok (st, I, ops, s)) :
    ∃ fs', stepParty n step P = ({ P with st := st, inbox := I, fs := fs', status := s }, bsOf ops, psOf ops) ∧
      fs'.dead = false := by
  have hdead : P.fs.dead = false := by
    simp only [Party.live, Bool.and_eq_true, Bool.not_eq_true'] at hl
    exact hl.1.2
  obtain ⟨fs', h1, h2⟩ := applyOps_honest n ops P.fs hdead
  refine ⟨fs', ?_, h2⟩
  unfold stepParty
  simp only [hl, Bool.not_true, Bool.false_eq_true, if_false, hs, hd, h1]

theorem stepParty_not_live (n : Nat) (step : Step) (P : Party) (h : P.live = false) :
    stepParty n step P = (P, [], []) := by
  simp [stepParty, h]

/-- a step that ends in an error -/
theorem stepParty_error (n : Nat) (step : Step) (P : Party) (hl : P.live = true) (e : Err)
    (hs : step P.st P.inbox = .error e) : stepParty n step P = ({ P with err := some e }, [], []) := by
  simp [stepParty, hl, hs]

/-- a step of a live party, whatever its script -/
theorem stepParty_ok (n : Nat) (step : Step) (P : Party) (hl : P.live = true)
    (st : St) (I : Inbox) (ops : List Op) (s : Status) (hs : step P.st P.inbox = .ok (st, I, ops, s)) :
    stepParty n step P =
      ({ P with st := st, inbox := I, fs := (applyOps n P.dev ops P.fs).1, status := s },
       (applyOps n P.dev ops P.fs).2.1, (applyOps n P.dev ops P.fs).2.2) := by
  simp [stepParty, hl, hs]

/-- for ANY party: the step leaves `dev` and `piCnt` alone -/
theorem stepParty_dev (n : Nat) (step : Step) (P : Party) : (stepParty n step P).1.dev = P.dev := by
  unfold stepParty
  split
  · rfl
  · split <;> rfl

theorem stepParty_piCnt (n : Nat) (step : Step) (P : Party) : (stepParty n step P).1.piCnt = P.piCnt := by
  unfold stepParty
  split
  · rfl
  · split <;> rfl

/-- the state and the inbox after a step are the old ones or the ones the step function returned -/
theorem stepParty_st_inbox (n : Nat) (step : Step) (P : Party) :
    ((stepParty n step P).1.st = P.st ∧ (stepParty n step P).1.inbox = P.inbox) ∨
      ∃ ops s, P.live = true ∧
        step P.st P.inbox = .ok ((stepParty n step P).1.st, (stepParty n step P).1.inbox, ops, s) := by
  unfold stepParty
  by_cases hl : P.live = true
  · simp only [hl, Bool.not_true, Bool.false_eq_true, if_false]
    cases hs : step P.st P.inbox with
    | error e => left; exact ⟨rfl, rfl⟩
    | ok r =>
      obtain ⟨st, I, ops, status⟩ := r
      right
      exact ⟨ops, status, trivial, rfl⟩
  · left
    simp [hl]

/-! ### all parties step -/

theorem stepAll_length (n : Nat) (steps : Nat → Step) (k : Nat) (ps : List Party) :
    (stepAll n steps k ps).length = ps.length := by
  induction ps generalizing k with
  | nil => rfl
  | cons P ps ih => simp [stepAll, ih]

theorem stepAll_getElem? (n : Nat) (steps : Nat → Step) (k : Nat) (ps : List Party) (i : Nat) :
    (stepAll n steps k ps)[i]? = (ps[i]?).map (fun P => stepParty n (steps (k + i)) P) := by
  induction ps generalizing k i with
  | nil => simp [stepAll]
  | cons P ps ih =>
    cases i with
    | zero => simp [stepAll]
    | succ i =>
      simp only [stepAll, List.getElem?_cons_succ]
      rw [ih]
      congr 1
      funext P
      congr 2
      omega

/-! ### the deliveries -/

/-- one delivery to party `i` -/
def dStep (i : Nat) (P : Party) (jo : Nat × (List (Tag × Int) × List (Nat × Int))) : Party :=
  if i = jo.1 then P
  else deliverTo jo.1 jo.2.1 ((jo.2.2.filter (fun e => e.1 == i)).map (·.2)) P

/-- the deliveries to party `i` -/
def dFold (i : Nat) (L : List (Nat × (List (Tag × Int) × List (Nat × Int)))) (P : Party) : Party :=
  L.foldl (dStep i) P

theorem deliverAll_eq (outs : List (List (Tag × Int) × List (Nat × Int))) (ps : List Party) :
    deliverAll outs ps =
      ((List.range ps.length).zip ps).map (fun ip => dFold ip.1 ((List.range outs.length).zip outs) ip.2) := by
  rfl

theorem deliverAll_length (outs : List (List (Tag × Int) × List (Nat × Int))) (ps : List Party) :
    (deliverAll outs ps).length = ps.length := by
  simp [deliverAll_eq]

theorem deliverAll_getElem? (outs : List (List (Tag × Int) × List (Nat × Int))) (ps : List Party) (i : Nat) :
    (deliverAll outs ps)[i]? = (ps[i]?).map (dFold i ((List.range outs.length).zip outs)) := by
  have h := glue_zipRange_getElem? ps 0 i
  rw [← List.range_eq_range'] at h
  rw [deliverAll_eq, List.getElem?_map, h]
  cases ps[i]? with
  | none => rfl
  | some P => simp

/-- what a delivery leaves alone -/
theorem deliverTo_frame (j : Nat) (bs : List (Tag × Int)) (l : List Int) (P : Party) :
    (deliverTo j bs l P).dev = P.dev ∧ (deliverTo j bs l P).fs = P.fs ∧ (deliverTo j bs l P).st = P.st ∧
    (deliverTo j bs l P).status = P.status ∧ (deliverTo j bs l P).err = P.err ∧
    (deliverTo j bs l P).inbox.b.length = P.inbox.b.length ∧
    (deliverTo j bs l P).inbox.p.length = P.inbox.p.length ∧
    (deliverTo j bs l P).piCnt.length = P.piCnt.length := by
  unfold deliverTo
  refine ⟨rfl, rfl, rfl, rfl, rfl, ?_, ?_, ?_⟩
  · simp
  · simp
  · simp only []
    split <;> simp

/-- a delivery from `j` appends to queue `j` (when there is one) and to no other -/
theorem deliverTo_b (j : Nat) (bs : List (Tag × Int)) (l : List Int) (P : Party) (k : Nat) :
    (deliverTo j bs l P).inbox.b.getD k [] =
      P.inbox.b.getD k [] ++ (if k = j ∧ k < P.inbox.b.length then bs else []) := by
  unfold deliverTo
  simp only []
  rw [glue_getD_set]
  by_cases h : j = k
  · subst h
    by_cases h2 : j < P.inbox.b.length <;> simp [h2]
  · have : ¬ k = j := fun e => h e.symm
    simp [h, this]

theorem deliverTo_p (j : Nat) (bs : List (Tag × Int)) (l : List Int) (P : Party) (k : Nat) :
    (deliverTo j bs l P).inbox.p.getD k [] =
      P.inbox.p.getD k [] ++
        (if k = j ∧ k < P.inbox.p.length then filterIn P.dev j (getN P.piCnt j) l else []) := by
  unfold deliverTo
  simp only []
  rw [glue_getD_set]
  by_cases h : j = k
  · subst h
    by_cases h2 : j < P.inbox.p.length <;> simp [h2]
  · have : ¬ k = j := fun e => h e.symm
    simp [h, this]

theorem dStep_frame (i : Nat) (P : Party) (jo) :
    (dStep i P jo).dev = P.dev ∧ (dStep i P jo).fs = P.fs ∧ (dStep i P jo).st = P.st ∧
    (dStep i P jo).status = P.status ∧ (dStep i P jo).err = P.err ∧
    (dStep i P jo).inbox.b.length = P.inbox.b.length ∧ (dStep i P jo).inbox.p.length = P.inbox.p.length ∧
    (dStep i P jo).piCnt.length = P.piCnt.length := by
  unfold dStep
  split
  · simp
  · exact deliverTo_frame _ _ _ _

theorem dFold_frame (i : Nat) (L) (P : Party) :
    (dFold i L P).dev = P.dev ∧ (dFold i L P).fs = P.fs ∧ (dFold i L P).st = P.st ∧
    (dFold i L P).status = P.status ∧ (dFold i L P).err = P.err ∧
    (dFold i L P).inbox.b.length = P.inbox.b.length ∧ (dFold i L P).inbox.p.length = P.inbox.p.length ∧
    (dFold i L P).piCnt.length = P.piCnt.length := by
  induction L generalizing P with
  | nil => simp [dFold]
  | cons jo L ih =>
    have h1 := dStep_frame i P jo
    have h2 := ih (dStep i P jo)
    simp only [dFold, List.foldl_cons] at h2 ⊢
    obtain ⟨a1, a2, a3, a4, a5, a6, a7, a8⟩ := h1
    obtain ⟨b1, b2, b3, b4, b5, b6, b7, b8⟩ := h2
    exact ⟨b1.trans a1, b2.trans a2, b3.trans a3, b4.trans a4, b5.trans a5, b6.trans a6, b7.trans a7,
      b8.trans a8⟩

theorem dStep_inbox (i : Nat) (P : Party) (jo) (k : Nat) :
    (k < P.inbox.b.length → (dStep i P jo).inbox.b.getD k [] =
      P.inbox.b.getD k [] ++ (if k = i ∨ k ≠ jo.1 then [] else jo.2.1)) ∧
    (k < P.inbox.p.length → P.dev.pi = [] → (dStep i P jo).inbox.p.getD k [] =
      P.inbox.p.getD k [] ++
        (if k = i ∨ k ≠ jo.1 then [] else (jo.2.2.filter (fun e => e.1 == i)).map (·.2))) := by
  unfold dStep
  by_cases h : i = jo.1
  · simp only [h, if_true]
    constructor
    · intro _
      by_cases h2 : k = jo.1 <;> simp [h2]
    · intro _ _
      by_cases h2 : k = jo.1 <;> simp [h2]
  · simp only [h, if_false]
    constructor
    · intro hk
      rw [deliverTo_b]
      by_cases h2 : k = jo.1
      · have : ¬ (jo.1 = i) := fun e => h e.symm
        rw [h2] at hk
        simp [h2, this, hk]
      · simp [h2]
    · intro hk hd
      rw [deliverTo_p, filterIn_of_pi_nil _ hd]
      by_cases h2 : k = jo.1
      · have : ¬ (jo.1 = i) := fun e => h e.symm
        rw [h2] at hk
        simp [h2, this, hk]
      · simp [h2]

/-- the inbox of party `i` after the deliveries of the senders `a, a+1, …` -/
theorem dFold_inbox_from (i : Nat) (outs : List (List (Tag × Int) × List (Nat × Int))) (a : Nat) (P : Party)
    (k : Nat) :
    (k < P.inbox.b.length → (dFold i ((List.range' a outs.length).zip outs) P).inbox.b.getD k [] =
      P.inbox.b.getD k [] ++ (if k = i ∨ k < a then [] else ((outs[k - a]?).map (·.1)).getD [])) ∧
    (k < P.inbox.p.length → P.dev.pi = [] →
      (dFold i ((List.range' a outs.length).zip outs) P).inbox.p.getD k [] =
      P.inbox.p.getD k [] ++ (if k = i ∨ k < a then [] else
        ((outs[k - a]?).map (fun o => (o.2.filter (fun e => e.1 == i)).map (·.2))).getD [])) := by
  induction outs generalizing a P with
  | nil => simp [dFold]
  | cons o outs ih =>
    have hz : (List.range' a (o :: outs).length).zip (o :: outs) =
        (a, o) :: (List.range' (a + 1) outs.length).zip outs := by
      simp [List.range'_succ]
    rw [hz]
    simp only [dFold, List.foldl_cons]
    have hfr := dStep_frame i P (a, o)
    obtain ⟨ih1, ih2⟩ := ih (a + 1) (dStep i P (a, o))
    simp only [dFold] at ih1 ih2
    obtain ⟨hs1, hs2⟩ := dStep_inbox i P (a, o) k
    constructor
    · intro hk
      rw [ih1 (by rw [hfr.2.2.2.2.2.1]; exact hk), hs1 hk, List.append_assoc]
      congr 1
      by_cases hki : k = i
      · simp [hki]
      · simp only [hki, false_or]
        by_cases hka : k = a
        · subst hka
          simp
        · rcases Nat.lt_or_gt_of_ne hka with hlt | hgt
          · have : k < a + 1 := by omega
            simp [hlt, this, hka]
          · obtain ⟨m, rfl⟩ : ∃ m, k = a + 1 + m := ⟨k - (a + 1), by omega⟩
            have h1 : ¬ a + 1 + m < a + 1 := by omega
            have h2 : ¬ a + 1 + m < a := by omega
            have h3 : a + 1 + m - a = m + 1 := by omega
            have h4 : a + 1 + m - (a + 1) = m := by omega
            rw [if_neg h1, if_neg h2, h3, h4]
            simp [hka]
    · intro hk hd
      rw [ih2 (by rw [hfr.2.2.2.2.2.2.1]; exact hk) (by rw [hfr.1]; exact hd), hs2 hk hd, List.append_assoc]
      congr 1
      by_cases hki : k = i
      · simp [hki]
      · simp only [hki, false_or]
        by_cases hka : k = a
        · subst hka
          simp
        · rcases Nat.lt_or_gt_of_ne hka with hlt | hgt
          · have : k < a + 1 := by omega
            simp [hlt, this, hka]
          · obtain ⟨m, rfl⟩ : ∃ m, k = a + 1 + m := ⟨k - (a + 1), by omega⟩
            have h1 : ¬ a + 1 + m < a + 1 := by omega
            have h2 : ¬ a + 1 + m < a := by omega
            have h3 : a + 1 + m - a = m + 1 := by omega
            have h4 : a + 1 + m - (a + 1) = m := by omega
            rw [if_neg h1, if_neg h2, h3, h4]
            simp [hka]

/-- the inbox of party `i` after the deliveries of one round -/
theorem dFold_inbox (i : Nat) (outs : List (List (Tag × Int) × List (Nat × Int))) (P : Party) (k : Nat) :
    (k < P.inbox.b.length → (dFold i ((List.range outs.length).zip outs) P).inbox.b.getD k [] =
      P.inbox.b.getD k [] ++ (if k = i then [] else ((outs[k]?).map (·.1)).getD [])) ∧
    (k < P.inbox.p.length → P.dev.pi = [] → (dFold i ((List.range outs.length).zip outs) P).inbox.p.getD k [] =
      P.inbox.p.getD k [] ++ (if k = i then [] else
        ((outs[k]?).map (fun o => (o.2.filter (fun e => e.1 == i)).map (·.2))).getD [])) := by
  have h := dFold_inbox_from i outs 0 P k
  rw [← List.range_eq_range'] at h
  simpa using h

/-! ### one round, pointwise -/

/-- party `x` after its own step of the round (before the deliveries) -/
def stepped (steps : Nat → Step) (ps : List Party) (x : Nat) (hx : x < ps.length) : Party :=
  (stepParty ps.length (steps x) ps[x]).1

/-- what party `j` hands to the network in the round: broadcasts `.1`, private values `.2` -/
def outOf (steps : Nat → Step) (ps : List Party) (j : Nat) (hj : j < ps.length) :
    List (Tag × Int) × List (Nat × Int) :=
  (stepParty ps.length (steps j) ps[j]).2

theorem runRound_length (steps : Nat → Step) (ps : List Party) : (runRound steps ps).length = ps.length := by
  simp [runRound, deliverAll_length, stepAll_length]

theorem runRound_get (steps : Nat → Step) (ps : List Party) (x : Nat) (hx : x < ps.length) :
    ∃ P', (runRound steps ps)[x]? = some P' ∧
      P'.dev = (stepped steps ps x hx).dev ∧ P'.fs = (stepped steps ps x hx).fs ∧
      P'.st = (stepped steps ps x hx).st ∧ P'.status = (stepped steps ps x hx).status ∧
      P'.err = (stepped steps ps x hx).err ∧
      P'.inbox.b.length = (stepped steps ps x hx).inbox.b.length ∧
      P'.inbox.p.length = (stepped steps ps x hx).inbox.p.length ∧
      (∀ j, j < (stepped steps ps x hx).inbox.b.length →
          P'.inbox.b.getD j [] = (stepped steps ps x hx).inbox.b.getD j [] ++
            (if h : j ≠ x ∧ j < ps.length then (outOf steps ps j h.2).1 else [])) ∧
      ((stepped steps ps x hx).dev.pi = [] → ∀ j, j < (stepped steps ps x hx).inbox.p.length →
          P'.inbox.p.getD j [] = (stepped steps ps x hx).inbox.p.getD j [] ++
            (if h : j ≠ x ∧ j < ps.length then
              (((outOf steps ps j h.2).2.filter (fun e => e.1 == x)).map (·.2)) else [])) := by
  have houts : ∀ k, ((stepAll ps.length steps 0 ps).map (fun e => (e.2.1, e.2.2)))[k]? =
      (ps[k]?).map (fun Pk => (stepParty ps.length (steps k) Pk).2) := by
    intro k
    rw [List.getElem?_map, stepAll_getElem?]
    cases ps[k]? with
    | none => rfl
    | some Pk => simp
  have hP : ps[x]? = some ps[x] := List.getElem?_eq_getElem hx
  refine ⟨dFold x ((List.range ((stepAll ps.length steps 0 ps).map (fun e => (e.2.1, e.2.2))).length).zip
      ((stepAll ps.length steps 0 ps).map (fun e => (e.2.1, e.2.2)))) (stepped steps ps x hx), ?_, ?_⟩
  · unfold runRound
    simp only []
    rw [deliverAll_getElem?, List.getElem?_map, stepAll_getElem?, hP]
    simp [stepped]
  · have hfr := dFold_frame x ((List.range ((stepAll ps.length steps 0 ps).map (fun e => (e.2.1, e.2.2))).length).zip
      ((stepAll ps.length steps 0 ps).map (fun e => (e.2.1, e.2.2)))) (stepped steps ps x hx)
    obtain ⟨a1, a2, a3, a4, a5, a6, a7, -⟩ := hfr
    refine ⟨a1, a2, a3, a4, a5, a6, a7, ?_, ?_⟩
    · intro k hk
      have h := (dFold_inbox x ((stepAll ps.length steps 0 ps).map (fun e => (e.2.1, e.2.2)))
        (stepped steps ps x hx) k).1 hk
      rw [h, houts]
      congr 1
      by_cases hkx : k = x
      · simp [hkx]
      · by_cases hkl : k < ps.length
        · simp [hkx, hkl, outOf]
        · simp [hkx, hkl]
    · intro hd k hk
      have h := (dFold_inbox x ((stepAll ps.length steps 0 ps).map (fun e => (e.2.1, e.2.2)))
        (stepped steps ps x hx) k).2 hk hd
      rw [h, houts]
      congr 1
      by_cases hkx : k = x
      · simp [hkx]
      · by_cases hkl : k < ps.length
        · simp [hkx, hkl, outOf]
        · simp [hkx, hkl]

/-- `piCnt` keeps its length through a round -/
theorem runRound_piCnt_length (steps : Nat → Step) (ps : List Party) (x : Nat) (hx : x < ps.length) :
    ∃ P', (runRound steps ps)[x]? = some P' ∧ P'.piCnt.length = ps[x].piCnt.length := by
  have hP : ps[x]? = some ps[x] := List.getElem?_eq_getElem hx
  refine ⟨dFold x ((List.range ((stepAll ps.length steps 0 ps).map (fun e => (e.2.1, e.2.2))).length).zip
      ((stepAll ps.length steps 0 ps).map (fun e => (e.2.1, e.2.2)))) (stepped steps ps x hx), ?_, ?_⟩
  · unfold runRound
    simp only []
    rw [deliverAll_getElem?, List.getElem?_map, stepAll_getElem?, hP]
    simp [stepped]
  · rw [(dFold_frame _ _ _).2.2.2.2.2.2.2, stepped, stepParty_piCnt]

/-! ### several rounds, the initial parties -/

theorem runRounds_append (steps : Nat → Nat → Step) (l1 l2 : List Nat) (ps : List Party) :
    runRounds steps (l1 ++ l2) ps = runRounds steps l2 (runRounds steps l1 ps) := by
  induction l1 generalizing ps with
  | nil => rfl
  | cons k l ih => simp [runRounds, ih]

theorem runRounds_length (steps : Nat → Nat → Step) (l : List Nat) (ps : List Party) :
    (runRounds steps l ps).length = ps.length := by
  induction l generalizing ps with
  | nil => rfl
  | cons k l ih => simp [runRounds, ih, runRound_length]

theorem initParties_length (n t : Nat) (ins : List PartyIn) (h : ins.length = n) :
    (initParties n t ins).length = n := by
  simp [initParties, h]

theorem initParties_get (n t : Nat) (ins : List PartyIn) (h : ins.length = n) (k : Nat) (hk : k < n) :
    (initParties n t ins)[k]? =
      some { dev := (ins[k]'(by omega)).dev, piCnt := List.replicate n 0, inbox := Inbox.empty n,
             st := { n := n, t := t, i := k, sfb := (ins[k]'(by omega)).dev.sfb } } := by
  have hk' : k < ins.length := by omega
  have hz := glue_zipRange_getElem? ins 0 k
  rw [h, ← List.range_eq_range'] at hz
  unfold initParties
  rw [List.getElem?_map, hz, List.getElem?_eq_getElem hk']
  simp

/-! ### inbox primitives -/

theorem removeFirst_head (tag : Tag) (v : Int) (l : List (Tag × Int)) :
    removeFirst tag ((tag, v) :: l) = some (v, l) := by
  simp [removeFirst]

theorem removeFirst_mem (tag : Tag) (l : List (Tag × Int)) (v : Int) (r : List (Tag × Int))
    (h : removeFirst tag l = some (v, r)) : (tag, v) ∈ l ∧ r.length + 1 = l.length ∧ ∀ e ∈ r, e ∈ l := by
  induction l generalizing r with
  | nil => simp [removeFirst] at h
  | cons e l ih =>
    unfold removeFirst at h
    by_cases he : (e.1 == tag) = true
    · simp only [he, if_true, Option.some.injEq, Prod.mk.injEq] at h
      obtain ⟨h1, h2⟩ := h
      subst h1 h2
      have : e.1 = tag := by simpa using he
      refine ⟨?_, rfl, ?_⟩
      · rw [← this]
        exact List.mem_cons_self
      · intro x hx
        exact List.mem_cons_of_mem _ hx
    · simp only [he] at h
      cases hr : removeFirst tag l with
      | none => simp [hr] at h
      | some vr =>
        obtain ⟨v', r'⟩ := vr
        simp only [hr, Bool.false_eq_true, if_false, Option.some.injEq, Prod.mk.injEq] at h
        obtain ⟨h1, h2⟩ := h
        subst h1 h2
        obtain ⟨i1, i2, i3⟩ := ih r' hr
        refine ⟨List.mem_cons_of_mem _ i1, by simp [i2], ?_⟩
        intro x hx
        rcases List.mem_cons.1 hx with hx | hx
        · rw [hx]; exact List.mem_cons_self
        · exact List.mem_cons_of_mem _ (i3 x hx)

theorem removeFirst_none_iff (tag : Tag) (l : List (Tag × Int)) :
    removeFirst tag l = none ↔ ∀ e ∈ l, e.1 ≠ tag := by
  induction l with
  | nil => simp [removeFirst]
  | cons e l ih =>
    unfold removeFirst
    by_cases he : e.1 = tag
    · simp [he]
    · have hb : (e.1 == tag) = false := by simpa using he
      simp only [hb, Bool.false_eq_true, if_false, List.mem_cons, forall_eq_or_imp, ne_eq, he,
        not_false_eq_true, true_and]
      rw [← ih]
      cases removeFirst tag l with
      | none => simp
      | some vr => simp

theorem removeFirst_append_of_none (tag : Tag) (l l' : List (Tag × Int)) (h : removeFirst tag l = none) :
    removeFirst tag (l ++ l') = (removeFirst tag l').map (fun (v, r) => (v, l ++ r)) := by
  induction l with
  | nil =>
    show removeFirst tag l' = _
    cases removeFirst tag l' with
    | none => rfl
    | some vr => rfl
  | cons e l ih =>
    have hall := (removeFirst_none_iff tag (e :: l)).1 h
    have he : e.1 ≠ tag := hall e List.mem_cons_self
    have hl : removeFirst tag l = none :=
      (removeFirst_none_iff tag l).2 (fun x hx => hall x (List.mem_cons_of_mem _ hx))
    have hb : (e.1 == tag) = false := by simpa using he
    have step : removeFirst tag (e :: (l ++ l')) =
        match removeFirst tag (l ++ l') with
        | none => none
        | some (v, r) => some (v, e :: r) := by
      rw [removeFirst]
      simp only [hb, Bool.false_eq_true, if_false]
      cases removeFirst tag (l ++ l') <;> rfl
    rw [List.cons_append, step, ih hl]
    cases removeFirst tag l' with
    | none => rfl
    | some vr => rfl

theorem popB_spec (I : Inbox) (tag : Tag) (j : Nat) :
    (I.popB tag j).2.p = I.p ∧ (I.popB tag j).2.b.length = I.b.length ∧
    (∀ k, k ≠ j → (I.popB tag j).2.b.getD k [] = I.b.getD k []) ∧
    (match removeFirst tag (I.b.getD j []) with
     | none => (I.popB tag j).1 = none ∧ (I.popB tag j).2 = I
     | some (v, r) => (I.popB tag j).1 = some v ∧ (j < I.b.length → (I.popB tag j).2.b.getD j [] = r)) := by
  unfold Inbox.popB
  cases h : removeFirst tag (I.b.getD j []) with
  | none => simp
  | some vr =>
    obtain ⟨v, r⟩ := vr
    refine ⟨rfl, by simp, ?_, rfl, ?_⟩
    · intro k hk
      simp only []
      rw [glue_getD_set]
      have : ¬ j = k := fun e => hk e.symm
      simp [this]
    · intro hj
      simp only []
      rw [glue_getD_set]
      simp [hj]

theorem popP_spec (I : Inbox) (j : Nat) :
    (I.popP j).2.b = I.b ∧ (I.popP j).2.p.length = I.p.length ∧
    (∀ k, k ≠ j → (I.popP j).2.p.getD k [] = I.p.getD k []) ∧
    (match I.p.getD j [] with
     | [] => (I.popP j).1 = none ∧ (I.popP j).2 = I
     | v :: r => (I.popP j).1 = some v ∧ (j < I.p.length → (I.popP j).2.p.getD j [] = r)) := by
  unfold Inbox.popP
  cases h : I.p.getD j [] with
  | nil => simp
  | cons v r =>
    refine ⟨rfl, by simp, ?_, rfl, ?_⟩
    · intro k hk
      simp only []
      rw [glue_getD_set]
      have : ¬ j = k := fun e => hk e.symm
      simp [this]
    · intro hj
      simp only []
      rw [glue_getD_set]
      simp [hj]

end Tmcg.JlProofs
