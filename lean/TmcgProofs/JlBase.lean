import Tmcg.Model.Jl
import TmcgProofs.Group
import TmcgProofs.Coin
import Mathlib.Algebra.Polynomial.Eval.Defs
import Mathlib.Algebra.Polynomial.Degree.Defs
/-
  C17, multi-party part: shared definitions for the proofs about Tmcg/Model/Jl.lean
  (`JareckiLysyanskayaRVSS::Share / Reconstruct`, `JareckiLysyanskayaEDCF::Flip`).

  * `ValidGrp`    the group of the run is a well-formed Schnorr group with a second generator `h` and
                  the two fixed-base tables are the ones the constructor builds
  * `com`         the Pedersen commitment `g^a h^b` as a field element (from TmcgProofs/Coin.lean)
  * `rowF`        `∏_k C_k^{x^k}`: the commitment to the share of party `x-1` derived from a row
  * `polyOf`      the polynomial over `ZMod q` with a given coefficient list
-/
namespace Tmcg.JlProofs
open Tmcg Tmcg.Powm Tmcg.Vtmf Tmcg.Grp Tmcg.Jl

/-- the Schnorr group of a run -/
def grp (G : Jl.Grp) : Group := ⟨G.p, G.q, G.g⟩

/-- the common reference string in the form of TmcgProofs/Coin.lean -/
def crs (G : Jl.Grp) : CoinFlip.Crs := ⟨G.p, G.q, G.g, G.h⟩

theorem grp_crs (G : Jl.Grp) : CoinProofs.grp (crs G) = grp G := rfl

/-- well-formed parameters: valid group, `h` in the order-`q` subgroup, the tables of the
    constructor (`mkGrp` returns exactly these) -/
structure ValidGrp (G : Jl.Grp) : Prop where
  valid : ValidGroup (grp G)
  h_mem : 0 < G.h ∧ G.h < G.p ∧ toF (grp G) G.h ^ G.q.natAbs = 1
  tabG : IsTable (grp G) G.tabG G.g
  tabH : IsTable (grp G) G.tabH G.h

theorem ValidGrp.crs {G : Jl.Grp} (hG : ValidGrp G) : CoinProofs.ValidCrs (crs G) :=
  ⟨hG.valid, hG.h_mem⟩

/-- the exponent field -/
abbrev Zq (G : Jl.Grp) := ZMod G.q.natAbs

/-- cast of a model integer into the exponent field -/
def toQ (G : Jl.Grp) (a : Int) : Zq G := (a : ZMod G.q.natAbs)

/-- the Pedersen commitment `g^a h^b` -/
noncomputable def com (G : Jl.Grp) [Fact (Nat.Prime (grp G).p.natAbs)] (a b : Int) : F (grp G) :=
  toF (grp G) G.g ^ a * toF (grp G) G.h ^ b

/-- membership in the order-`q` subgroup, as `CheckElement` decides it -/
def IsElem (G : Jl.Grp) (c : Int) : Prop :=
  0 < c ∧ c < G.p ∧ toF (grp G) c ^ G.q.natAbs = 1

/-- `∏_k C_k^{x^k}` for the row `C_0, C_1, …` starting with exponent `x^k` at index `k` -/
noncomputable def rowFFrom (G : Jl.Grp) (x : Nat) : Nat → List Int → F (grp G)
  | _, [] => 1
  | k, c :: cs => toF (grp G) c ^ (x ^ k) * rowFFrom G x (k + 1) cs

/-- `F_j(x) = ∏_k C_jk^{x^k}` -/
noncomputable def rowF (G : Jl.Grp) (row : List Int) (x : Nat) : F (grp G) := rowFFrom G x 0 row

/-- the polynomial `Σ_k c_k X^k` over the exponent field -/
noncomputable def polyOf (G : Jl.Grp) : List Int → Polynomial (Zq G)
  | [] => 0
  | c :: cs => Polynomial.C (toQ G c) + Polynomial.X * polyOf G cs

/-- a coefficient or share in the range the library produces: `0 ≤ v < q` -/
def InRange (G : Jl.Grp) (v : Int) : Prop := 0 ≤ v ∧ v < G.q

/-- a received exponent that passed `mpz_cmpabs(v, q) < 0` -/
def AbsLt (G : Jl.Grp) (v : Int) : Prop := v.natAbs < G.q.natAbs

theorem absGe_false_iff (G : Jl.Grp) (v : Int) : Jl.absGe v G.q = false ↔ AbsLt G v := by
  unfold Jl.absGe AbsLt
  simp

theorem InRange.absLt {G : Jl.Grp} {v : Int} (h : InRange G v) : AbsLt G v := by
  unfold InRange at h; unfold AbsLt; omega

end Tmcg.JlProofs
