import TmcgProofs.JlBase
import Mathlib.LinearAlgebra.Lagrange
/-
  C17, multi-party part: value lemmas for the arithmetic routines of Tmcg/Model/Jl.lean.

    * `checkElement_iff'`            `CheckElement` decides membership in the order-`q` subgroup
    * `pedS_val`, `pedF_val`         `g^s h^s'` with `fspowm` / `fpowm` is the Pedersen commitment
    * `commitProd_val`               `∏_k C_k^{x^k}` (no hypothesis on the row)
    * `rowF_commit`                  a row of commitments to the coefficients commits to the share
    * `evalShare_toQ`                the share loop evaluates `polyOf`
    * `lagrange0_val`                the reconstruction loop is Lagrange interpolation at 0
    * `sumMod_toQ`                   the sum loop
    * `deal_row_val`                 the commitments a dealer broadcasts
    * `binding_pair`                 two openings of one commitment reveal `log_g h`
-/
namespace Tmcg.JlProofs
open Tmcg Tmcg.Powm Tmcg.Vtmf Tmcg.Grp Tmcg.Jl

variable {G : Jl.Grp}

set_option linter.unusedSectionVars false
set_option linter.unusedVariables false

/-! ### basic facts -/

theorem q_pos (hG : ValidGrp G) : 0 < G.q := hG.valid.q_pos

theorem p_pos (hG : ValidGrp G) : 0 < G.p := hG.valid.p_pos

theorem natAbs_q' (hG : ValidGrp G) : ((G.q.natAbs : Nat) : Int) = G.q :=
  Int.natAbs_of_nonneg (q_pos hG).le

theorem fact_q (hG : ValidGrp G) : Fact (Nat.Prime G.q.natAbs) := ⟨hG.valid.q_prime⟩

theorem emod_q_range (hG : ValidGrp G) (a : Int) : InRange G (a % G.q) :=
  ⟨Int.emod_nonneg _ (ne_of_gt (q_pos hG)), Int.emod_lt_of_pos _ (q_pos hG)⟩

theorem toQ_emod (hG : ValidGrp G) (a : Int) : toQ G (a % G.q) = toQ G a := by
  unfold toQ
  have := ZMod.intCast_mod a G.q.natAbs
  rwa [natAbs_q' hG] at this

theorem toQ_add (a b : Int) : toQ G (a + b) = toQ G a + toQ G b := by
  unfold toQ; push_cast; rfl

theorem toQ_mul (a b : Int) : toQ G (a * b) = toQ G a * toQ G b := by
  unfold toQ; push_cast; rfl

theorem toQ_zero : toQ G 0 = 0 := by unfold toQ; simp

/-- equality in the exponent field is congruence modulo `q` -/
theorem toQ_eq_iff (hG : ValidGrp G) (a b : Int) : toQ G a = toQ G b ↔ a ≡ b [ZMOD G.q] := by
  unfold toQ
  rw [ZMod.intCast_eq_intCast_iff, natAbs_q' hG]

/-! ### `CheckElement` -/

theorem checkElement_iff' (hG : ValidGrp G) (a : Int) :
    Jl.checkElement G a = true ↔ IsElem G a := by
  have := fact_prime hG.valid
  exact checkElement_iff (G := grp G) hG.valid a

/-! ### the commitment -/

theorem g_ne_zero' (hG : ValidGrp G) [Fact (Nat.Prime (grp G).p.natAbs)] :
    toF (grp G) G.g ≠ 0 := g_ne_zero (G := grp G) hG.valid

theorem g_pow_q' (hG : ValidGrp G) [Fact (Nat.Prime (grp G).p.natAbs)] :
    toF (grp G) G.g ^ G.q.natAbs = 1 := g_pow_q (G := grp G) hG.valid

theorem h_ne_zero' (hG : ValidGrp G) [Fact (Nat.Prime (grp G).p.natAbs)] :
    toF (grp G) G.h ≠ 0 :=
  @CoinProofs.h_ne_zero (crs G) hG.crs ‹Fact (Nat.Prime (grp G).p.natAbs)›

theorem com_ne_zero' (hG : ValidGrp G) [Fact (Nat.Prime (grp G).p.natAbs)] (a b : Int) :
    com G a b ≠ 0 :=
  @CoinProofs.com_ne_zero (crs G) hG.crs ‹Fact (Nat.Prime (grp G).p.natAbs)› a b

theorem com_pow_q' (hG : ValidGrp G) [Fact (Nat.Prime (grp G).p.natAbs)] (a b : Int) :
    com G a b ^ G.q.natAbs = 1 :=
  @CoinProofs.com_pow_q (crs G) hG.crs ‹Fact (Nat.Prime (grp G).p.natAbs)› a b

/-- exponents of a commitment only matter modulo `q` -/
theorem com_congr (hG : ValidGrp G) [Fact (Nat.Prime (grp G).p.natAbs)] {a a' b b' : Int}
    (ha : a ≡ a' [ZMOD G.q]) (hb : b ≡ b' [ZMOD G.q]) : com G a b = com G a' b' := by
  unfold com
  have h1 := zpow_mod_q (G := grp G) hG.valid _ (g_pow_q' hG) (g_ne_zero' hG)
  have h2 := zpow_mod_q (G := grp G) hG.valid _ hG.h_mem.2.2 (h_ne_zero' hG)
  rw [← h1 a, ← h1 a', ← h2 b, ← h2 b']
  change toF (grp G) G.g ^ (a % G.q) * toF (grp G) G.h ^ (b % G.q) =
    toF (grp G) G.g ^ (a' % G.q) * toF (grp G) G.h ^ (b' % G.q)
  rw [ha, hb]

theorem com_mul (hG : ValidGrp G) [Fact (Nat.Prime (grp G).p.natAbs)] (a b a' b' : Int) :
    com G a b * com G a' b' = com G (a + a') (b + b') := by
  unfold com
  rw [zpow_add₀ (g_ne_zero' hG), zpow_add₀ (h_ne_zero' hG)]
  ring

theorem com_zpow (hG : ValidGrp G) [Fact (Nat.Prime (grp G).p.natAbs)] (a b e : Int) :
    com G a b ^ e = com G (e * a) (e * b) := by
  unfold com
  rw [mul_zpow, ← zpow_mul, ← zpow_mul, mul_comm a e, mul_comm b e]

theorem com_zero [Fact (Nat.Prime (grp G).p.natAbs)] : com G 0 0 = 1 := by
  unfold com; simp

/-- a canonical representative of a commitment is a group element -/
theorem com_isElem_of (hG : ValidGrp G) [Fact (Nat.Prime (grp G).p.natAbs)] (r a b : Int)
    (h0 : 0 ≤ r) (h1 : r < G.p) (hv : toF (grp G) r = com G a b) : IsElem G r := by
  refine ⟨?_, h1, ?_⟩
  · exact CoinProofs.pos_of_toF_ne_zero (G := grp G) h0 (by rw [hv]; exact com_ne_zero' hG a b)
  · rw [hv]; exact com_pow_q' hG a b

/-- `g^s h^s' mod p` with `tmcg_mpz_fspowm` -/
theorem pedS_val (hG : ValidGrp G) [Fact (Nat.Prime (grp G).p.natAbs)] (s s' : Int)
    (hs : AbsLt G s) (hs' : AbsLt G s') :
    ∃ r, Jl.pedS G s s' = .ok r ∧ 0 ≤ r ∧ r < G.p ∧ toF (grp G) r = com G s s' := by
  obtain ⟨x, hx, -, -, hxv⟩ := fspowm_val (G := grp G) hG.valid G.tabG G.g s hG.tabG
    (g_ne_zero' hG) hs
  obtain ⟨y, hy, -, -, hyv⟩ := fspowm_val (G := grp G) hG.valid G.tabH G.h s' hG.tabH
    (h_ne_zero' hG) hs'
  change fspowm G.tabG G.g s G.p = .ok x at hx
  change fspowm G.tabH G.h s' G.p = .ok y at hy
  refine ⟨x * y % G.p, ?_, (emod_bounds (G := grp G) hG.valid _).1,
    (emod_bounds (G := grp G) hG.valid _).2, ?_⟩
  · unfold Jl.pedS
    simp only [hx, hy, bind, Except.bind, pure, Except.pure]
  · have := toF_emod (G := grp G) hG.valid (x * y)
    change toF (grp G) (x * y % G.p) = _ at this
    rw [this, toF_mul, hxv, hyv]; rfl

/-- `g^s h^s' mod p` with `tmcg_mpz_fpowm` -/
theorem pedF_val (hG : ValidGrp G) [Fact (Nat.Prime (grp G).p.natAbs)] (s s' : Int)
    (hs : AbsLt G s) (hs' : AbsLt G s') :
    ∃ r, Jl.pedF G s s' = .ok r ∧ 0 ≤ r ∧ r < G.p ∧ toF (grp G) r = com G s s' := by
  obtain ⟨x, hx, -, -, hxv⟩ := fpowm_val (G := grp G) hG.valid G.tabG G.g s hG.tabG
    (g_ne_zero' hG) hs
  obtain ⟨y, hy, -, -, hyv⟩ := fpowm_val (G := grp G) hG.valid G.tabH G.h s' hG.tabH
    (h_ne_zero' hG) hs'
  change fpowm G.tabG G.g s G.p = .ok x at hx
  change fpowm G.tabH G.h s' G.p = .ok y at hy
  refine ⟨x * y % G.p, ?_, (emod_bounds (G := grp G) hG.valid _).1,
    (emod_bounds (G := grp G) hG.valid _).2, ?_⟩
  · unfold Jl.pedF
    simp only [hx, hy, bind, Except.bind, pure, Except.pure]
  · have := toF_emod (G := grp G) hG.valid (x * y)
    change toF (grp G) (x * y % G.p) = _ at this
    rw [this, toF_mul, hxv, hyv]; rfl

theorem pedS_isElem (hG : ValidGrp G) (s s' r : Int) (hs : AbsLt G s) (hs' : AbsLt G s')
    (hr : Jl.pedS G s s' = .ok r) : IsElem G r := by
  have := fact_prime hG.valid
  obtain ⟨r', hr', h0, h1, hv⟩ := pedS_val hG s s' hs hs'
  rw [hr] at hr'
  cases hr'
  exact com_isElem_of hG r s s' h0 h1 hv

theorem pedF_isElem (hG : ValidGrp G) (s s' r : Int) (hs : AbsLt G s) (hs' : AbsLt G s')
    (hr : Jl.pedF G s s' = .ok r) : IsElem G r := by
  have := fact_prime hG.valid
  obtain ⟨r', hr', h0, h1, hv⟩ := pedF_val hG s s' hs hs'
  rw [hr] at hr'
  cases hr'
  exact com_isElem_of hG r s s' h0 h1 hv

/-! ### `∏_k C_k^{x^k}` -/

theorem commitProdFrom_val (hG : ValidGrp G) [Fact (Nat.Prime (grp G).p.natAbs)] (x : Nat) :
    ∀ (row : List Int) (k : Nat) (acc : Int), 0 ≤ acc → acc < G.p →
      ∃ r, Jl.commitProdFrom G.p x k row acc = .ok r ∧ 0 ≤ r ∧ r < G.p ∧
        toF (grp G) r = toF (grp G) acc * rowFFrom G x k row := by
  intro row
  induction row with
  | nil =>
    intro k acc h0 h1
    exact ⟨acc, rfl, h0, h1, by simp [rowFFrom]⟩
  | cons c cs ih =>
    intro k acc h0 h1
    obtain ⟨b, hb, -, -, hbv⟩ := mpzPowm_nonneg (G := grp G) hG.valid c ((x : Int) ^ k)
      (by positivity)
    change mpzPowm c ((x : Int) ^ k) G.p = .ok b at hb
    have hexp : ((x : Int) ^ k).toNat = x ^ k := by
      have : ((x : Int) ^ k) = ((x ^ k : Nat) : Int) := by push_cast; rfl
      rw [this, Int.toNat_natCast]
    rw [hexp] at hbv
    obtain ⟨r, hr, hr0, hr1, hrv⟩ := ih (k + 1) (acc * b % G.p)
      (emod_bounds (G := grp G) hG.valid _).1 (emod_bounds (G := grp G) hG.valid _).2
    refine ⟨r, ?_, hr0, hr1, ?_⟩
    · simp only [Jl.commitProdFrom, hb, bind, Except.bind]
      exact hr
    · have := toF_emod (G := grp G) hG.valid (acc * b)
      change toF (grp G) (acc * b % G.p) = _ at this
      rw [hrv, this, toF_mul, hbv, rowFFrom, mul_assoc]

theorem commitProd_val (hG : ValidGrp G) [Fact (Nat.Prime (grp G).p.natAbs)] (x : Nat)
    (row : List Int) :
    ∃ r, Jl.commitProd G.p x row = .ok r ∧ 0 ≤ r ∧ r < G.p ∧ toF (grp G) r = rowF G row x := by
  obtain ⟨r, hr, h0, h1, hv⟩ := commitProdFrom_val hG x row 0 1 (by norm_num)
    (one_lt_p (G := grp G) hG.valid)
  refine ⟨r, hr, h0, h1, ?_⟩
  rw [hv, toF_one, one_mul]; rfl

/-! ### list access -/

theorem getI_cons_zero (a : Int) (l : List Int) : Jl.getI (a :: l) 0 = a := by
  simp [Jl.getI]

theorem getI_cons_succ (a : Int) (l : List Int) (k : Nat) :
    Jl.getI (a :: l) (k + 1) = Jl.getI l k := by
  simp [Jl.getI]

/-! ### the share loop -/

theorem evalShareFrom_range (hG : ValidGrp G) (x : Nat) : ∀ (cs : List Int) (k : Nat) (acc : Int),
    InRange G acc → InRange G (Jl.evalShareFrom G.q x k cs acc) := by
  intro cs
  induction cs with
  | nil => intro k acc h; exact h
  | cons c cs ih =>
    intro k acc _
    rw [Jl.evalShareFrom]
    exact ih _ _ (emod_q_range hG _)

theorem evalShare_range (hG : ValidGrp G) (cs : List Int) (x : Nat) :
    InRange G (Jl.evalShare G.q cs x) :=
  evalShareFrom_range hG x cs 0 0 ⟨le_rfl, q_pos hG⟩

theorem toQ_natpow (x k : Nat) : toQ G ((x : Int) ^ k) = ((x : Nat) : Zq G) ^ k := by
  unfold toQ; push_cast; rfl

theorem evalShareFrom_toQ (hG : ValidGrp G) (x : Nat) : ∀ (cs : List Int) (k : Nat) (acc : Int),
    toQ G (Jl.evalShareFrom G.q x k cs acc) =
      toQ G acc + ((x : Nat) : Zq G) ^ k * (polyOf G cs).eval ((x : Nat) : Zq G) := by
  intro cs
  induction cs with
  | nil => intro k acc; simp [Jl.evalShareFrom, polyOf]
  | cons c cs ih =>
    intro k acc
    rw [Jl.evalShareFrom, ih, toQ_emod hG, toQ_add, toQ_emod hG, toQ_mul, toQ_natpow, polyOf]
    simp only [Polynomial.eval_add, Polynomial.eval_C, Polynomial.eval_mul, Polynomial.eval_X]
    ring

theorem evalShare_toQ (hG : ValidGrp G) (cs : List Int) (x : Nat) :
    toQ G (Jl.evalShare G.q cs x) = (polyOf G cs).eval ((x : Nat) : Zq G) := by
  unfold Jl.evalShare
  rw [evalShareFrom_toQ hG, toQ_zero, pow_zero, one_mul, zero_add]

theorem polyOf_coeff_eq_zero (cs : List Int) : ∀ m, cs.length ≤ m → (polyOf G cs).coeff m = 0 := by
  induction cs with
  | nil => intro m _; simp [polyOf]
  | cons c cs ih =>
    intro m hm
    obtain ⟨m', rfl⟩ : ∃ m', m = m' + 1 := ⟨m - 1, by simp at hm; omega⟩
    rw [polyOf, Polynomial.coeff_add, Polynomial.coeff_C_succ, Polynomial.coeff_X_mul, zero_add]
    exact ih m' (by simpa using hm)

theorem polyOf_degree_lt (cs : List Int) : (polyOf G cs).degree < (cs.length : WithBot Nat) := by
  rw [Polynomial.degree_lt_iff_coeff_zero]
  exact polyOf_coeff_eq_zero cs

theorem polyOf_natDegree_lt (cs : List Int) (h : cs ≠ []) :
    (polyOf G cs).natDegree < cs.length := by
  by_cases hp : polyOf G cs = 0
  · rw [hp, Polynomial.natDegree_zero]
    exact List.length_pos_iff.mpr h
  · exact (Polynomial.natDegree_lt_iff_degree_lt hp).mpr (polyOf_degree_lt cs)

theorem polyOf_eval_zero (c : Int) (cs : List Int) : (polyOf G (c :: cs)).eval 0 = toQ G c := by
  simp [polyOf]

/-! ### the homomorphic property -/

theorem rowFFrom_commit (hG : ValidGrp G) [Fact (Nat.Prime (grp G).p.natAbs)] (x : Nat) :
    ∀ (row c hc : List Int) (k : Nat) (acc acc' : Int),
      c.length = row.length → hc.length = row.length →
      (∀ i, i < row.length →
        toF (grp G) (Jl.getI row i) = com G (Jl.getI c i) (Jl.getI hc i)) →
      com G acc acc' * rowFFrom G x k row =
        com G (Jl.evalShareFrom G.q x k c acc) (Jl.evalShareFrom G.q x k hc acc') := by
  intro row
  induction row with
  | nil =>
    intro c hc k acc acc' h1 h2 _
    have e1 : c = [] := List.length_eq_zero_iff.mp h1
    have e2 : hc = [] := List.length_eq_zero_iff.mp h2
    subst e1; subst e2
    simp [rowFFrom, Jl.evalShareFrom]
  | cons r row ih =>
    intro c hc k acc acc' h1 h2 hrow
    rcases c with _ | ⟨a, c⟩
    · simp at h1
    rcases hc with _ | ⟨b, hc⟩
    · simp at h2
    have hr : toF (grp G) r = com G a b := by
      have := hrow 0 (by simp)
      simpa [getI_cons_zero] using this
    have htail : ∀ i, i < row.length →
        toF (grp G) (Jl.getI row i) = com G (Jl.getI c i) (Jl.getI hc i) := by
      intro i hi
      have := hrow (i + 1) (by simpa using hi)
      simpa [getI_cons_succ] using this
    rw [rowFFrom, Jl.evalShareFrom, Jl.evalShareFrom,
      ← ih c hc (k + 1) _ _ (by simpa using h1) (by simpa using h2) htail, ← mul_assoc]
    congr 1
    rw [hr, ← zpow_natCast, com_zpow hG, com_mul hG]
    apply com_congr hG
    · have e : (((x ^ k : Nat) : Int)) = (x : Int) ^ k := by push_cast; rfl
      rw [e]
      exact ((Int.mod_modEq _ _).symm.add_left acc).trans (Int.mod_modEq _ _).symm
    · have e : (((x ^ k : Nat) : Int)) = (x : Int) ^ k := by push_cast; rfl
      rw [e]
      exact ((Int.mod_modEq _ _).symm.add_left acc').trans (Int.mod_modEq _ _).symm

/-- a row of commitments to the coefficients of `f`, `f̂` yields the commitment to `f(x)`, `f̂(x)` -/
theorem rowF_commit (hG : ValidGrp G) [Fact (Nat.Prime (grp G).p.natAbs)] (c hc row : List Int)
    (x : Nat) (hlen : c.length = row.length) (hlen' : hc.length = row.length)
    (hrow : ∀ k, k < row.length →
      toF (grp G) (Jl.getI row k) = com G (Jl.getI c k) (Jl.getI hc k)) :
    rowF G row x = com G (Jl.evalShare G.q c x) (Jl.evalShare G.q hc x) := by
  have := rowFFrom_commit hG x row c hc 0 0 0 hlen hlen' hrow
  rw [com_zero, one_mul] at this
  exact this

/-! ### the sum loop -/

theorem sumModFrom_range (hG : ValidGrp G) (l : List Int) : ∀ (idx : List Nat) (acc : Int),
    InRange G acc → InRange G (idx.foldl (fun acc j => (acc + Jl.getI l j) % G.q) acc) := by
  intro idx
  induction idx with
  | nil => intro acc h; exact h
  | cons j idx ih =>
    intro acc _
    rw [List.foldl_cons]
    exact ih _ (emod_q_range hG _)

theorem sumMod_range (hG : ValidGrp G) (l : List Int) (idx : List Nat) :
    InRange G (Jl.sumMod G.q l idx) :=
  sumModFrom_range hG l idx 0 ⟨le_rfl, q_pos hG⟩

theorem sumModFrom_toQ (hG : ValidGrp G) (l : List Int) : ∀ (idx : List Nat) (acc : Int),
    toQ G (idx.foldl (fun acc j => (acc + Jl.getI l j) % G.q) acc) =
      toQ G acc + (idx.map (fun j => toQ G (Jl.getI l j))).sum := by
  intro idx
  induction idx with
  | nil => intro acc; simp
  | cons j idx ih =>
    intro acc
    rw [List.foldl_cons, ih, toQ_emod hG, toQ_add, List.map_cons, List.sum_cons, add_assoc]

theorem sumMod_toQ (hG : ValidGrp G) (l : List Int) (idx : List Nat) :
    toQ G (Jl.sumMod G.q l idx) = (idx.map (fun j => toQ G (Jl.getI l j))).sum := by
  unfold Jl.sumMod
  rw [sumModFrom_toQ hG, toQ_zero, zero_add]

/-! ### the dealer's commitments -/

theorem deal_row_val (hG : ValidGrp G) [Fact (Nat.Prime (grp G).p.natAbs)] (c hc : List Int)
    (hlen : c.length = hc.length) (hc1 : ∀ v ∈ c, InRange G v) (hc2 : ∀ v ∈ hc, InRange G v) :
    ∃ ga hb, Jl.gaList G c = .ok ga ∧ Jl.hbList G hc = .ok hb ∧
      (List.zipWith (fun x y => x * y % G.p) ga hb).length = c.length ∧
      ∀ k, k < c.length →
        IsElem G (Jl.getI (List.zipWith (fun x y => x * y % G.p) ga hb) k) ∧
        toF (grp G) (Jl.getI (List.zipWith (fun x y => x * y % G.p) ga hb) k) =
          com G (Jl.getI c k) (Jl.getI hc k) := by
  induction c generalizing hc with
  | nil =>
    have e : hc = [] := List.length_eq_zero_iff.mp hlen.symm
    subst e
    exact ⟨[], [], rfl, rfl, rfl, fun k hk => absurd hk (by simp)⟩
  | cons a c ih =>
    rcases hc with _ | ⟨b, hc⟩
    · simp at hlen
    obtain ⟨ga, hb, hga, hhb, hl, hk⟩ := ih hc (by simpa using hlen)
      (fun v hv => hc1 v (List.mem_cons_of_mem _ hv)) (fun v hv => hc2 v (List.mem_cons_of_mem _ hv))
    obtain ⟨x, hx, -, -, hxv⟩ := fspowm_val (G := grp G) hG.valid G.tabG G.g a hG.tabG
      (g_ne_zero' hG) (hc1 a List.mem_cons_self).absLt
    obtain ⟨y, hy, -, -, hyv⟩ := fspowm_val (G := grp G) hG.valid G.tabH G.h b hG.tabH
      (h_ne_zero' hG) (hc2 b List.mem_cons_self).absLt
    change fspowm G.tabG G.g a G.p = .ok x at hx
    change fspowm G.tabH G.h b G.p = .ok y at hy
    refine ⟨x :: ga, y :: hb, ?_, ?_, ?_, ?_⟩
    · simp only [Jl.gaList, hx, hga, bind, Except.bind, pure, Except.pure]
    · simp only [Jl.hbList, hy, hhb, bind, Except.bind, pure, Except.pure]
    · simp only [List.zipWith_cons_cons, List.length_cons, hl]
    · intro k hk'
      rw [List.zipWith_cons_cons]
      rcases k with _ | k
      · rw [getI_cons_zero, getI_cons_zero, getI_cons_zero]
        have hv : toF (grp G) (x * y % G.p) = com G a b := by
          have := toF_emod (G := grp G) hG.valid (x * y)
          change toF (grp G) (x * y % G.p) = _ at this
          rw [this, toF_mul, hxv, hyv]; rfl
        exact ⟨com_isElem_of hG _ a b (emod_bounds (G := grp G) hG.valid _).1
          (emod_bounds (G := grp G) hG.valid _).2 hv, hv⟩
      · rw [getI_cons_succ, getI_cons_succ, getI_cons_succ]
        exact hk k (by simpa using hk')

/-! ### binding -/

/-- two openings of one commitment with different first components (mod `q`) reveal `log_g h`
    (`CoinProofs.pedersen_binding` for the commitment of this file) -/
theorem binding_pair (hG : ValidGrp G) [Fact (Nat.Prime (grp G).p.natAbs)] (a b a' b' : Int)
    (h : com G a b = com G a' b') (hne : ¬ a ≡ a' [ZMOD G.q]) :
    ¬ (b ≡ b' [ZMOD G.q]) ∧
    ∃ x : Int, 0 ≤ x ∧ x < G.q ∧ (x * (b' - b) ≡ a - a' [ZMOD G.q]) ∧
      toF (grp G) G.g ^ x = toF (grp G) G.h :=
  @CoinProofs.pedersen_binding (crs G) hG.crs ‹Fact (Nat.Prime (grp G).p.natAbs)› a b a' b' h hne

/-! ### Lagrange interpolation at 0 (adapted from TmcgProofs/DkgLagrange.lean) -/

/-- the abscissa of party `j` -/
abbrev node (G : Jl.Grp) (j : Nat) : Zq G := ((j + 1 : Nat) : Zq G)

theorem node_cast (j : Nat) : node G j = toQ G ((j : Int) + 1) := by
  unfold node toQ; push_cast; rfl

theorem node_inj (hG : ValidGrp G) {j j' : Nat} (hj : (j : Int) + 1 < G.q)
    (hj' : (j' : Int) + 1 < G.q) (h : node G j = node G j') : j = j' := by
  unfold node at h
  rw [ZMod.natCast_eq_natCast_iff'] at h
  have hq := q_pos hG
  have h1 : j + 1 < G.q.natAbs := by omega
  have h2 : j' + 1 < G.q.natAbs := by omega
  rw [Nat.mod_eq_of_lt h1, Nat.mod_eq_of_lt h2] at h
  omega

theorem node_injOn (hG : ValidGrp G) (ps : List Nat) (hlt : ∀ j ∈ ps, (j : Int) + 1 < G.q) :
    Set.InjOn (node G) (ps.toFinset : Set Nat) := by
  intro j hj j' hj' h
  simp only [Finset.mem_coe, List.mem_toFinset] at hj hj'
  exact node_inj hG (hlt j hj) (hlt j' hj') h

/-- `mpz_invert` modulo the prime `q` -/
theorem invm_val_q (hG : ValidGrp G) [Fact (Nat.Prime G.q.natAbs)] (a : Int) (ha : toQ G a ≠ 0) :
    ∃ r, invm a G.q = some r ∧ InRange G r ∧ toQ G r = (toQ G a)⁻¹ := by
  have hq := q_pos hG
  have hg : Int.gcd a G.q = 1 := by
    rw [Int.gcd_comm, Int.gcd_def]
    refine (Nat.Prime.coprime_iff_not_dvd hG.valid.q_prime).mpr ?_
    intro hd
    apply ha
    unfold toQ
    rw [ZMod.intCast_zmod_eq_zero_iff_dvd]
    exact Int.natCast_dvd.mpr hd
  obtain ⟨r, hr⟩ := invm_isSome_of_coprime (ne_of_gt hq) hg
  obtain ⟨h0, h1, hc⟩ := invm_some hr
  rw [abs_of_pos hq] at h1
  refine ⟨r, hr, ⟨h0, h1⟩, ?_⟩
  have : toQ G (a * r) = toQ G 1 := (toQ_eq_iff hG _ _).mpr hc
  rw [toQ_mul] at this
  have h1' : toQ G 1 = 1 := by unfold toQ; simp
  rw [h1'] at this
  exact eq_inv_of_mul_eq_one_right this

theorem foldl_filter_prod (g : Nat → Int) (jt : Nat) (L : List Nat) (a : Int) :
    toQ G (L.foldl (fun acc lt => if lt ≠ jt then acc * g lt else acc) a) =
      toQ G a * ((L.filter (· ≠ jt)).map (fun lt => toQ G (g lt))).prod := by
  induction L generalizing a with
  | nil => simp
  | cons x xs ih =>
    simp only [List.foldl_cons]
    rw [ih]
    by_cases h : x = jt
    · simp [h]
    · simp [h, toQ_mul, mul_assoc]

theorem list_prod_map_div [Fact (Nat.Prime G.q.natAbs)] {α : Type} (L : List α)
    (a b : α → Zq G) :
    (L.map (fun l => a l / b l)).prod = (L.map a).prod / (L.map b).prod := by
  induction L with
  | nil => simp
  | cons x xs ih => simp [ih, div_mul_div_comm]

/-- the multiplier of `jt` as a field element -/
noncomputable def lam (G : Jl.Grp) [Fact (Nat.Prime G.q.natAbs)] (ps : List Nat) (jt : Nat) :
    Zq G :=
  ((ps.filter (· ≠ jt)).map (fun lt => node G lt / (node G lt - node G jt))).prod

/-- `lagCoeff` is the Lagrange basis polynomial of `jt` evaluated at 0 -/
theorem lagCoeff_val (hG : ValidGrp G) [Fact (Nat.Prime G.q.natAbs)] (ps : List Nat)
    (hlt : ∀ j ∈ ps, (j : Int) + 1 < G.q) (jt : Nat) (hj : jt ∈ ps) :
    ∃ l, Jl.lagCoeff G.q ps jt = some l ∧ InRange G l ∧ toQ G l = lam G ps jt := by
  have hnum := foldl_filter_prod (G := G) (fun lt => (lt : Int) + 1) jt ps 1
  have hden := foldl_filter_prod (G := G) (fun lt => ((lt : Int) + 1) - ((jt : Int) + 1)) jt ps 1
  have h1' : toQ G 1 = 1 := by unfold toQ; simp
  have e1 : (fun lt : Nat => toQ G ((lt : Int) + 1)) = fun lt => node G lt := by
    funext lt; rw [node_cast]
  have e2 : (fun lt : Nat => toQ G (((lt : Int) + 1) - ((jt : Int) + 1))) =
      fun lt => node G lt - node G jt := by
    funext lt; rw [node_cast, node_cast]; unfold toQ; push_cast; ring
  beta_reduce at hnum hden
  rw [e1, h1', one_mul] at hnum
  rw [e2, h1', one_mul] at hden
  have hden0 : toQ G (ps.foldl (fun acc lt =>
      if lt ≠ jt then acc * (((lt : Int) + 1) - ((jt : Int) + 1)) else acc) 1) ≠ 0 := by
    rw [hden]
    apply List.prod_ne_zero
    intro h0
    rw [List.mem_map] at h0
    obtain ⟨lt, hlt', h0⟩ := h0
    rw [List.mem_filter] at hlt'
    have hne : lt ≠ jt := by simpa using hlt'.2
    apply hne
    exact node_inj hG (hlt lt hlt'.1) (hlt jt hj) (sub_eq_zero.mp h0)
  obtain ⟨i, hi, -, hiv⟩ := invm_val_q hG _ hden0
  unfold Jl.lagCoeff
  simp only [hi]
  refine ⟨_, rfl, emod_q_range hG _, ?_⟩
  rw [toQ_emod hG, toQ_mul, hiv, hnum, hden, lam, list_prod_map_div, div_eq_mul_inv]

theorem lam_eq_basis (hG : ValidGrp G) [Fact (Nat.Prime G.q.natAbs)] (ps : List Nat)
    (hnd : ps.Nodup) (jt : Nat) :
    lam G ps jt = (Lagrange.basis ps.toFinset (node G) jt).eval 0 := by
  unfold lam Lagrange.basis
  rw [Polynomial.eval_prod]
  have hs : ps.toFinset.erase jt = (ps.filter (· ≠ jt)).toFinset := by
    ext x; simp [and_comm]
  rw [hs, List.prod_toFinset _ (hnd.filter _)]
  congr 1
  apply List.map_congr_left
  intro lt _
  unfold Lagrange.basisDivisor
  simp only [Polynomial.eval_mul, Polynomial.eval_C, Polynomial.eval_sub, Polynomial.eval_X]
  rw [zero_sub, ← neg_sub (node G lt) (node G jt), inv_neg, neg_mul_neg, div_eq_inv_mul]

theorem sum_lam (hG : ValidGrp G) [Fact (Nat.Prime G.q.natAbs)] (ps : List Nat) (hnd : ps.Nodup)
    (hlt : ∀ j ∈ ps, (j : Int) + 1 < G.q) (f : Polynomial (Zq G))
    (hf : f.degree < (ps.length : WithBot Nat)) :
    (ps.map (fun j => lam G ps j * f.eval (node G j))).sum = f.eval 0 := by
  have hcard : ps.toFinset.card = ps.length := List.toFinset_card_of_nodup hnd
  have hf' : f.degree < (ps.toFinset.card : WithBot ℕ) := by rw [hcard]; exact hf
  have h := Lagrange.eq_interpolate (node_injOn hG ps hlt) hf'
  conv_rhs => rw [h]
  rw [Lagrange.interpolate_apply, Polynomial.eval_finsetSum, ← List.sum_toFinset _ hnd]
  apply Finset.sum_congr rfl
  intro j _
  rw [lam_eq_basis hG ps hnd j, Polynomial.eval_mul, Polynomial.eval_C, mul_comm]

theorem lagrange0Go_val (hG : ValidGrp G) [Fact (Nat.Prime G.q.natAbs)] (ps : List Nat)
    (hlt : ∀ j ∈ ps, (j : Int) + 1 < G.q) (share : Nat → Int) :
    ∀ (rest : List Nat) (acc : Int), (∀ j ∈ rest, j ∈ ps) → InRange G acc →
    ∃ v, Jl.lagrange0Go G.q ps share rest acc = some v ∧ InRange G v ∧
      toQ G v = toQ G acc + (rest.map (fun j => lam G ps j * toQ G (share j))).sum := by
  intro rest
  induction rest with
  | nil => intro acc _ h; exact ⟨acc, rfl, h, by simp⟩
  | cons jt rest ih =>
    intro acc hsub _
    obtain ⟨l, hl, -, hlv⟩ := lagCoeff_val hG ps hlt jt (hsub jt List.mem_cons_self)
    obtain ⟨v, hv, hvr, hvv⟩ := ih ((acc + (l * share jt) % G.q) % G.q)
      (fun j hj => hsub j (List.mem_cons_of_mem _ hj)) (emod_q_range hG _)
    refine ⟨v, ?_, hvr, ?_⟩
    · simp only [Jl.lagrange0Go, hl]; exact hv
    · rw [hvv, toQ_emod hG, toQ_add, toQ_emod hG, toQ_mul, hlv]
      simp only [List.map_cons, List.sum_cons]
      ring

/-- the reconstruction loop: it never fails on distinct parties below `q - 1`, and for shares lying
    on a polynomial of degree `< |ps|` the result is its value at 0 -/
theorem lagrange0_val (hG : ValidGrp G) (ps : List Nat) (share : Nat → Int) (hnd : ps.Nodup)
    (hlt : ∀ j ∈ ps, (j : Int) + 1 < G.q) :
    ∃ v, Jl.lagrange0 G.q ps share = some v ∧ InRange G v ∧
      ∀ f : Polynomial (Zq G), f.degree < (ps.length : WithBot Nat) →
        (∀ j ∈ ps, toQ G (share j) = f.eval (((j + 1 : Nat)) : Zq G)) →
        toQ G v = f.eval 0 := by
  have := fact_q hG
  obtain ⟨v, hv, hvr, hvv⟩ := lagrange0Go_val hG ps hlt share ps 0 (fun j hj => hj)
    ⟨le_rfl, q_pos hG⟩
  refine ⟨v, hv, hvr, ?_⟩
  intro f hf hs
  rw [hvv, toQ_zero, zero_add, ← sum_lam hG ps hnd hlt f hf]
  congr 1
  apply List.map_congr_left
  intro j hj
  rw [hs j hj]

end Tmcg.JlProofs
