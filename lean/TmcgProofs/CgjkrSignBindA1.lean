import TmcgProofs.CgjkrSignBindA
/-
  C16, run level, part A1: the schedule-aware trace of a run of `Sign` (see the header of
  TmcgProofs/CgjkrSignBindA.lean).

    * `cfg_struct`        `m`, `t`, `i`, `pts` of party `k` at every round of the run
    * `signerSet_of_run`  hence `SignerSet` from structural hypotheses on the signer list
    * `AtAct`             party `k` is alive at the beginning of a round whose first action is `a`
    * `sign_run_trace'`   the last action of a party that returns `true`, at its place in the schedule
-/
namespace Tmcg.CgjkrSignBind
open Tmcg Tmcg.Powm Tmcg.Dkg Tmcg.Grp Tmcg.DkgL Tmcg.DkgP Tmcg.Cgjkr Tmcg.CgjkrSign Tmcg.CgjkrSignRunP
open Polynomial

theorem SameSt.refl (st : SSt) : SameSt st st := ⟨rfl, rfl, rfl, rfl⟩

theorem SameSt.trans {a b c : SSt} (h1 : SameSt a b) (h2 : SameSt b c) : SameSt a c :=
  ⟨h2.1.trans h1.1, h2.2.1.trans h1.2.1, h2.2.2.1.trans h1.2.2.1, h2.2.2.2.trans h1.2.2.2⟩

theorem doAct_struct (G : Dkg.Grp) (a : Act) (st : SSt) (I : Inbox) (o : AOut)
    (h : doAct G a st I = .ok o) : FrM st o := (doAct_struct_post G a st I).h _ h

theorem runActs_struct (G : Dkg.Grp) (acts : List Act) (st : SSt) (I : Inbox) (acc : List Op)
    (st' : SSt) (I' : Inbox) (ops : List Op) (status : Status)
    (h : runActs G acts st I acc = .ok (st', I', ops, status)) : SameSt st st' := by
  induction acts generalizing st I acc with
  | nil =>
    simp only [runActs, pure, Except.pure, Except.ok.injEq, Prod.mk.injEq] at h
    obtain ⟨rfl, rfl, rfl, rfl⟩ := h
    exact SameSt.refl _
  | cons a rest ih =>
    simp only [runActs, bind, Except.bind] at h
    cases hd : doAct G a st I with
    | error e => rw [hd] at h; cases h
    | ok o =>
      rw [hd] at h
      have hf := doAct_struct G a st I o hd
      cases o with
      | go st1 I1 ops1 =>
        simp only at h
        have e := emitOps_struct st1 ops1 []
        rcases he : emitOps st1 ops1 [] with ⟨st2, ops2⟩
        rw [he] at h e
        simp only at h e
        exact (SameSt.trans hf e).trans (ih _ _ _ h)
      | done st1 I1 ops1 b =>
        simp only at h
        have e := emitOps_struct st1 ops1 []
        rcases he : emitOps st1 ops1 [] with ⟨st2, ops2⟩
        rw [he] at h e
        simp only [pure, Except.pure, Except.ok.injEq, Prod.mk.injEq] at h e
        obtain ⟨rfl, rfl, rfl, rfl⟩ := h
        exact SameSt.trans hf e

/-- the constant part of the state of party `k` in a run -/
def StructP (t : Nat) (sub : List Nat) (k : Nat) (st : SSt) : Prop :=
  st.m = sub.length ∧ st.t = t ∧ st.i = k ∧ st.pts = sub

theorem psSign_struct (t : Nat) (msg : Int) (sub : List Nat) (ins : List SignIn) (k : Nat) (P : Party SSt)
    (hP : (psSign t msg sub ins)[k]? = some P) : StructP t sub k P.st ∧ P.st.msg = msg := by
  unfold psSign at hP
  rw [List.getElem?_map] at hP
  cases hz : ((List.range sub.length).zip ins)[k]? with
  | none => rw [hz] at hP; cases hP
  | some z =>
    rw [hz] at hP
    simp only [Option.map_some, Option.some.injEq] at hP
    obtain ⟨h1, -⟩ := List.getElem?_zip_eq_some.mp hz
    have hk : z.1 = k := by
      obtain ⟨hlt, he⟩ := List.getElem?_eq_some_iff.1 h1
      rw [List.getElem_range] at he
      exact he.symm
    subst hP
    exact ⟨⟨rfl, rfl, hk, rfl⟩, rfl⟩

/-- `m`, `t`, `i`, `pts` of party `k` are those of the call, at every round -/
theorem cfg_struct (G : Dkg.Grp) (t : Nat) (msg : Int) (sub : List Nat) (ins : List SignIn) (k : Nat) :
    ∀ r P, (cfgSign G t msg sub ins r)[k]? = some P → StructP t sub k P.st := by
  intro r
  induction r with
  | zero =>
    intro P hP
    have h0 : cfgSign G t msg sub ins 0 = psSign t msg sub ins := rfl
    rw [h0] at hP
    exact (psSign_struct t msg sub ins k P hP).1
  | succ r ih =>
    intro P' hP'
    rw [cfgSign_succ] at hP'
    obtain ⟨P, hP, hst, -⟩ := runRound_party_st _ _ k P' hP'
    have hI := ih P hP
    rcases stepParty_cases (cfgSign G t msg sub ins r).length (signStep G sub.length t r k) P with
      ⟨e1, -⟩ | ⟨-, I2, ops2, hs⟩
    · rw [hst, e1]; exact hI
    · have := runActs_struct G _ _ _ _ _ _ _ _ hs
      rw [hst]
      obtain ⟨a1, a2, a3, a4⟩ := this
      obtain ⟨b1, b2, b3, b4⟩ := hI
      exact ⟨a1.trans b1, a2.trans b2, a3.trans b3, a4.trans b4⟩

theorem cfg_length (G : Dkg.Grp) (t : Nat) (msg : Int) (sub : List Nat) (ins : List SignIn) (r : Nat) :
    (cfgSign G t msg sub ins r).length = (psSign t msg sub ins).length := by
  induction r with
  | zero => rfl
  | succ r ih => rw [cfgSign_succ, ag_runRound_length, ih]

/-- party `k` is alive and running at the beginning of a round of the run whose first action is `a` -/
def AtAct (G : Dkg.Grp) (t : Nat) (msg : Int) (sub : List Nat) (ins : List SignIn) (k : Nat) (a : Act)
    (st : SSt) (I : Inbox) : Prop :=
  ∃ r P, (cfgSign G t msg sub ins r)[k]? = some P ∧ P.live = true ∧ P.st = st ∧ P.inbox = I ∧
    ((prog sub.length t).getD r []).head? = some a

theorem AtAct.atRound {G : Dkg.Grp} {t : Nat} {msg : Int} {sub : List Nat} {ins : List SignIn} {k : Nat} {a : Act}
    {st : SSt} {I : Inbox} (h : AtAct G t msg sub ins k a st I) : AtRound G t msg sub ins k st I := by
  obtain ⟨r, P, h1, h2, h3, h4, -⟩ := h
  exact ⟨r, P, h1, h2, h3, h4⟩

theorem AtAct.struct {G : Dkg.Grp} {t : Nat} {msg : Int} {sub : List Nat} {ins : List SignIn} {k : Nat} {a : Act}
    {st : SSt} {I : Inbox} (h : AtAct G t msg sub ins k a st I) : StructP t sub k st := by
  obtain ⟨r, P, h1, -, h3, -, -⟩ := h
  rw [← h3]
  exact cfg_struct G t msg sub ins k r P h1

theorem AtAct.lt {G : Dkg.Grp} {t : Nat} {msg : Int} {sub : List Nat} {ins : List SignIn} {k : Nat} {a : Act}
    {st : SSt} {I : Inbox} (h : AtAct G t msg sub ins k a st I) : k < sub.length := by
  obtain ⟨r, P, h1, -, -, -, -⟩ := h
  have hk := (List.getElem?_eq_some_iff.1 h1).1
  rw [cfg_length] at hk
  unfold psSign at hk
  simp only [List.length_map, List.length_zip, List.length_range] at hk
  omega

/-- the standing hypotheses `SignerSet` follow from the shape of the signer list -/
theorem signerSet_of_run {G : Dkg.Grp} {t : Nat} {msg : Int} {sub : List Nat} {ins : List SignIn} {k : Nat} {a : Act}
    {st : SSt} {I : Inbox} (hnd : sub.Nodup) (hsmall : ∀ d ∈ sub, (d : Int) + 1 < G.q)
    (h : AtAct G t msg sub ins k a st I) : SignerSet G st := by
  obtain ⟨h1, h2, h3, h4⟩ := h.struct
  have hk := h.lt
  refine ⟨by rw [h4, h1], by rw [h3, h1]; exact hk, by rw [h4]; exact hnd, by rw [h4]; exact hsmall⟩

/-- the value `r` in `st` stems from the execution of step 1f/1g by party `k` at its place in the schedule -/
def RLink' (G : Dkg.Grp) (t : Nat) (msg : Int) (sub : List Nat) (ins : List SignIn) (k : Nat) (st : SSt) : Prop :=
  ∃ sa Ia sa' Ia' ops, AtAct G t msg sub ins k (.shRead 0) sa Ia ∧
    doAct G (.shRead 0) sa Ia = .ok (.go sa' Ia' ops) ∧ st.r = sa'.r ∧ sa.msg = msg

theorem RLink'_congr (G : Dkg.Grp) (t : Nat) (msg : Int) (sub : List Nat) (ins : List SignIn) (k : Nat)
    (st st2 : SSt) (h : st2.r = st.r) (hl : RLink' G t msg sub ins k st) : RLink' G t msg sub ins k st2 := by
  obtain ⟨sa, Ia, sa', Ia', ops, h1, h2, h3, h4⟩ := hl
  exact ⟨sa, Ia, sa', Ia', ops, h1, h2, h.trans h3, h4⟩

/-- the conclusion of `sign_run_trace'` for a state -/
def Concl' (G : Dkg.Grp) (t : Nat) (msg : Int) (sub : List Nat) (ins : List SignIn) (k : Nat) (st : SSt) : Prop :=
  ∃ sb Ib sb' Ib' ops, AtAct G t msg sub ins k (.shRead 1) sb Ib ∧
    doAct G (.shRead 1) sb Ib = .ok (.done sb' Ib' ops true) ∧
    st.s = sb'.s ∧ st.r = sb'.r ∧ sb.msg = msg ∧ (sb.r = 0 ∨ RLink' G t msg sub ins k sb)

/-- one round of a running party, with the place in the schedule -/
theorem runActs_head' (G : Dkg.Grp) (t : Nat) (msg : Int) (sub : List Nat) (ins : List SignIn) (k : Nat)
    (acts : List Act) (htl : TailNR acts) (m0 t0 : Nat) (hmem : ∀ a ∈ acts, a ∈ actions m0 t0)
    (st : SSt) (I : Inbox)
    (hAt : ∀ a, acts.head? = some a → AtAct G t msg sub ins k a st I) (hm : st.msg = msg)
    (hr : st.r = 0 ∨ RLink' G t msg sub ins k st)
    (st' : SSt) (I' : Inbox) (ops : List Op) (status : Status)
    (h : runActs G acts st I [] = .ok (st', I', ops, status)) :
    (status = .run → st'.msg = msg ∧ (st'.r = 0 ∨ RLink' G t msg sub ins k st')) ∧
    (status = .ret true → Concl' G t msg sub ins k st') := by
  cases acts with
  | nil =>
    simp only [runActs, pure, Except.pure, Except.ok.injEq, Prod.mk.injEq] at h
    obtain ⟨rfl, rfl, rfl, rfl⟩ := h
    exact ⟨fun _ => ⟨hm, hr⟩, fun hs => by cases hs⟩
  | cons a rest =>
    have hrest : ∀ x ∈ rest, x.reads = false := by simpa [TailNR] using htl
    have hAt' : AtAct G t msg sub ins k a st I := hAt a rfl
    simp only [runActs, bind, Except.bind] at h
    cases hd : doAct G a st I with
    | error e => rw [hd] at h; cases h
    | ok o =>
      rw [hd] at h
      cases o with
      | go st1 I1 ops1 =>
        simp only at h
        have e := emitOps_frame st1 ops1 []
        rcases he : emitOps st1 ops1 [] with ⟨st2, ops2⟩
        rw [he] at h e
        simp only at h e
        obtain ⟨h1, h2⟩ := runActs_tail G rest hrest _ _ _ _ _ _ _ h
        obtain ⟨f1, f2⟩ := doAct_frame G a st st1 I I1 ops1 hd
        refine ⟨fun hs => ?_, fun hs => absurd hs h1⟩
        obtain ⟨g1, g2⟩ := h2 hs
        refine ⟨g1.trans (e.2.2.trans (f1.trans hm)), ?_⟩
        by_cases ha : ∀ ph, a = .shRead ph → ph ≠ 0
        · have hrr : st'.r = st.r := g2.trans (e.1.trans (f2 ha))
          rcases hr with h0 | hl
          · left; exact hrr.trans h0
          · right; exact RLink'_congr G t msg sub ins k st st' hrr hl
        · have ha0 : a = .shRead 0 := by
            by_contra hc
            apply ha
            intro ph e hph
            subst hph
            exact hc e
          subst ha0
          right
          exact ⟨st, I, st1, I1, ops1, hAt', hd, g2.trans e.1, hm⟩
      | done st1 I1 ops1 b =>
        simp only at h
        have e := emitOps_frame st1 ops1 []
        rcases he : emitOps st1 ops1 [] with ⟨st2, ops2⟩
        rw [he] at h e
        simp only [pure, Except.pure, Except.ok.injEq, Prod.mk.injEq] at h e
        obtain ⟨rfl, rfl, rfl, rfl⟩ := h
        refine ⟨fun hs => (by cases hs), fun hb => ?_⟩
        have hb' : b = true := by injection hb
        subst hb'
        have ha1 : a = .shRead 1 :=
          doAct_done_true G a st st1 I I1 ops1 m0 t0 (hmem a List.mem_cons_self) hd
        subst ha1
        exact ⟨st, I, st1, I1, ops1, hAt', hd, e.2.1, e.1, hm, hr⟩

/-- the invariant of party `k` along the run -/
def InvP' (G : Dkg.Grp) (t : Nat) (msg : Int) (sub : List Nat) (ins : List SignIn) (k : Nat) (P : Party SSt) : Prop :=
  (P.status = .run → P.st.msg = msg ∧ (P.st.r = 0 ∨ RLink' G t msg sub ins k P.st)) ∧
  (P.status = .ret true → Concl' G t msg sub ins k P.st)

theorem inv_all' (G : Dkg.Grp) (t : Nat) (msg : Int) (sub : List Nat) (ins : List SignIn) (k : Nat) :
    ∀ r P, (cfgSign G t msg sub ins r)[k]? = some P → InvP' G t msg sub ins k P := by
  intro r
  induction r with
  | zero =>
    intro P hP
    have h0 : cfgSign G t msg sub ins 0 = psSign t msg sub ins := rfl
    rw [h0] at hP
    have hmem := List.mem_of_getElem? hP
    simp only [psSign, List.mem_map] at hmem
    obtain ⟨⟨k', sin⟩, -, rfl⟩ := hmem
    exact ⟨fun _ => ⟨rfl, Or.inl rfl⟩, fun h => by cases h⟩
  | succ r ih =>
    intro P' hP'
    rw [cfgSign_succ] at hP'
    obtain ⟨P, hP, hst, hstat⟩ := runRound_party_st _ _ k P' hP'
    have hI := ih P hP
    rcases stepParty_cases (cfgSign G t msg sub ins r).length (signStep G sub.length t r k) P with
      ⟨e1, e2⟩ | ⟨hl, I2, ops2, hs⟩
    · unfold InvP'
      rw [hst, hstat, e1, e2]
      exact hI
    · have hrun : P.status = .run := by
        simp only [Party.live, Bool.and_eq_true, beq_iff_eq] at hl
        exact hl.1.1
      obtain ⟨hm, hr⟩ := hI.1 hrun
      have := runActs_head' G t msg sub ins k _ (prog_tailNR sub.length t r) sub.length t
        (prog_mem sub.length t r) P.st P.inbox
        (fun a ha => ⟨r, P, hP, hl, rfl, rfl, ha⟩) hm hr _ _ _ _ hs
      unfold InvP'
      rw [hst, hstat]
      exact this

/-- a party that ends `Sign` with `true`: its last action (at its place in the schedule), its outputs, the origin
    of its `r` -/
theorem sign_run_trace' (G : Dkg.Grp) (t : Nat) (msg : Int) (sub : List Nat) (ins : List SignIn) (k : Nat)
    (P : Party SSt) (hP : (runSign G t msg sub ins)[k]? = some P) (hd : P.status = .ret true) :
    ∃ sb Ib sb' Ib' ops, AtAct G t msg sub ins k (.shRead 1) sb Ib ∧
      doAct G (.shRead 1) sb Ib = .ok (.done sb' Ib' ops true) ∧
      P.st.s = sb'.s ∧ P.st.r = sb'.r ∧ sb.msg = msg ∧ (sb.r = 0 ∨ RLink' G t msg sub ins k sb) := by
  rw [runSign_cfg] at hP
  exact (inv_all' G t msg sub ins k _ P hP).2 hd

end Tmcg.CgjkrSignBind
