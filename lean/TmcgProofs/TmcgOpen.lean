import Tmcg.Model.TmcgCard
import TmcgProofs.Base
import Mathlib.NumberTheory.LegendreSymbol.JacobiSymbol
import Mathlib.NumberTheory.LegendreSymbol.QuadraticReciprocity
/-
  C01, quadratic-residuosity encoding (Schindelhauer's toolbox): a card created with type `T`
  and masked any number of times opens to `T` once every player has contributed its bits.
-/
namespace Tmcg.TmcgOpen
open Tmcg Tmcg.TmcgCard

/-- the executable binary Jacobi algorithm of the model computes the Jacobi symbol -/
theorem jacobi_eq_jacobiSym (a : Int) (n : Nat) (hn : n % 2 = 1) :
    jacobi a n = jacobiSym a n := by
  sorry

/-- a well-formed key: `m = p·q` with distinct odd primes, `y` a non-residue modulo both
    (so `(y/m) = +1` but `y` is not a square: the encoding of a 1-bit) -/
structure KeyOk (k : SecKey) : Prop where
  p_pos : 0 < k.p
  q_pos : 0 < k.q
  p_prime : Nat.Prime k.p.natAbs
  q_prime : Nat.Prime k.q.natAbs
  p_odd : k.p % 2 = 1
  q_odd : k.q % 2 = 1
  m_eq : k.pub.m = k.p * k.q
  y_nqr_p : jacobi k.pub.y k.p.natAbs = -1
  y_nqr_q : jacobi k.pub.y k.q.natAbs = -1

/-- a card secret fitting `keys` and `w`: dimensions `k × w`, every `r` a unit modulo the
    player's modulus, every column of `b` XORs to zero -/
structure SecretOk (keys : List SecKey) (w : Nat) (cs : CardSecret) : Prop where
  r_rows : cs.r.length = keys.length
  b_rows : cs.b.length = keys.length
  r_cols : ∀ row ∈ cs.r, row.length = w
  b_cols : ∀ row ∈ cs.b, row.length = w
  r_unit : ∀ i (hi : i < keys.length) (row : List Int), cs.r[i]? = some row →
    ∀ r ∈ row, Int.gcd r keys[i].pub.m = 1
  col_xor : ∀ j, j < w → xorBits (cs.b.map fun row => lowBit (row.getD j 0)) = false

/-- what `TMCG_CreateCardSecret` produces: whatever bits were drawn for the other rows, after the
    fix-up of row `index` every column XORs to zero -/
theorem fixupB_col_xor (b : Matrix) (index w : Nat) (hi : index < b.length)
    (hcols : ∀ row ∈ b, row.length = w) (j : Nat) (hj : j < w) :
    xorBits ((fixupB b index w).map fun row => lowBit (row.getD j 0)) = false := by
  sorry

theorem fixupB_shape (b : Matrix) (index w : Nat) (hcols : ∀ row ∈ b, row.length = w) :
    (fixupB b index w).length = b.length ∧ ∀ row ∈ fixupB b index w, row.length = w := by
  sorry

/-- masking one value with a unit `r` changes its quadratic character (modulo both primes)
    exactly when the bit `b` is set -/
theorem maskValue_qrmn (k : SecKey) (hk : KeyOk k) (z r b : Int)
    (hz : Int.gcd z k.pub.m = 1) (hr : Int.gcd r k.pub.m = 1)
    (hzc : jacobi z k.p.natAbs = jacobi z k.q.natAbs) :
    let zz := maskValue k.pub z r b
    Int.gcd zz k.pub.m = 1 ∧ jacobi zz k.p.natAbs = jacobi zz k.q.natAbs ∧
    (qrmn zz k.p k.q = (qrmn z k.p k.q != lowBit b)) := by
  sorry

/-- **C01**, second encoding: for any number of players, type bits, type, and any chain of
    maskings with fitting secrets, opening with everybody's bits returns the type -/
theorem tmcg_open_correct (keys : List SecKey) (hne : keys ≠ []) (hkeys : ∀ k ∈ keys, KeyOk k)
    (w T : Nat) (hT : T < 2 ^ w) (secrets : List CardSecret)
    (hs : ∀ cs ∈ secrets, SecretOk keys w cs) :
    ∃ c, secrets.foldlM (fun c cs => maskCard (keys.map (·.pub)) c cs)
        (createOpenCard (keys.map (·.pub)) w T) = .ok c ∧
      openCard c keys w = T := by
  sorry

end Tmcg.TmcgOpen
